/-
  XotModel.Lemmas.ArenaSibling — `checked_insert_after` / `checked_insert_before` with live
  arguments on a well-formed arena, next to a node that HAS a parent and is not a descendant of
  the node being inserted: the list-level insertion.  (indextree checks neither condition; see
  `Props/C04.lean` for what it does without them.)
-/
import XotModel.Lemmas.ArenaChecked

namespace XotModel
namespace Arena

theorem checkedInsertAfter_self (a : Arena) (x : NodeId) :
    checkedInsertAfter a x x = .done a (.error .insertAfterSelf) := by
  simp [checkedInsertAfter]

theorem checkedInsertBefore_self (a : Arena) (x : NodeId) :
    checkedInsertBefore a x x = .done a (.error .insertBeforeSelf) := by
  simp [checkedInsertBefore]

/-- `ref.checked_insert_after(new)`. -/
theorem Rep.checkedInsertAfter_ok {a : Arena} {g : Shape} (r : Rep a g) (ref i p : Nat) (hr : Live a ref)
    (hi : Live a i) (hri : ref ≠ i) (hpar : g.par ref = some p) (hanc : ¬ Reach g.par ref i) :
    ∃ a' A B, checkedInsertAfter a (a.idAt ref) (a.idAt i) = .done a' (.ok ()) ∧
      (g.detach i).kids p = A ++ ref :: B ∧
      Rep a' ((g.detach i).link p (A ++ [ref]) i B) ∧ MetaEq a a' := by
  unfold checkedInsertAfter
  rw [if_neg (idAt_ne a hri.symm), Rep.eitherRemoved_live ref i hr hi]
  simp only [Step.bind_done, Bool.false_eq_true, if_false]
  obtain ⟨a1, hd, r1, hM⟩ := r.detach (a.idAt i) (LiveId.idAt hi)
  rw [idAt_index0] at r1
  rw [hd]
  simp only [Step.bind_done]
  have hid : a1.idAt = a.idAt := funext hM.idAt
  have hr1 : Live a1 ref := (hM.live ref).mpr hr
  have hi1 : Live a1 i := (hM.live i).mpr hi
  obtain ⟨sr, hsr, hr0⟩ := hr1
  rw [← hid]
  rw [rd_some _ _ _ _ (show a1.slot (a1.idAt ref).index0 = some sr by rw [idAt_index0]; exact hsr)]
  have Pr := r1.ptrs ref sr hsr hr0
  have hpar1 : (g.detach i).par ref = some p := by rw [Shape.detach_par_ne g i ref hri]; exact hpar
  obtain ⟨A, B, hk, hprev, hnext⟩ := Pr.sib p hpar1
  have hpi : p ≠ i := fun e => hanc (by subst e; exact .single hpar)
  have hanc1 : ¬ Reach (g.detach i).par p i := fun h =>
    hanc (.step hpar (Reach.mono (Shape.detach_par_le g i) h))
  have hp1 : Live a1 p := (r1.live_of_par hpar1).2
  obtain ⟨e1, r2⟩ := r1.insertRoot i p (A ++ [ref]) B hi1 (Shape.detach_par_self g i) hp1 hpi
    (by rw [hk]; simp) hanc1
  have hsp : sr.parent = some (a1.idAt p) := by rw [Pr.parent, hpar1]; rfl
  rw [hsp, hnext]
  simp only [List.getLast?_append, List.getLast?_singleton, Option.some_or, Option.map_some] at e1 r2
  rw [e1]
  simp only [expectOk, Step.bind_done]
  exact ⟨_, A, B, rfl, hk, r2, hM.trans (MetaEq.linkArena _ _ _ _ _)⟩

/-- `ref.checked_insert_before(new)`. -/
theorem Rep.checkedInsertBefore_ok {a : Arena} {g : Shape} (r : Rep a g) (ref i p : Nat) (hr : Live a ref)
    (hi : Live a i) (hri : ref ≠ i) (hpar : g.par ref = some p) (hanc : ¬ Reach g.par ref i) :
    ∃ a' A B, checkedInsertBefore a (a.idAt ref) (a.idAt i) = .done a' (.ok ()) ∧
      (g.detach i).kids p = A ++ ref :: B ∧
      Rep a' ((g.detach i).link p A i (ref :: B)) ∧ MetaEq a a' := by
  unfold checkedInsertBefore
  rw [if_neg (idAt_ne a hri.symm), Rep.eitherRemoved_live ref i hr hi]
  simp only [Step.bind_done, Bool.false_eq_true, if_false]
  obtain ⟨a1, hd, r1, hM⟩ := r.detach (a.idAt i) (LiveId.idAt hi)
  rw [idAt_index0] at r1
  rw [hd]
  simp only [Step.bind_done]
  have hid : a1.idAt = a.idAt := funext hM.idAt
  have hr1 : Live a1 ref := (hM.live ref).mpr hr
  have hi1 : Live a1 i := (hM.live i).mpr hi
  obtain ⟨sr, hsr, hr0⟩ := hr1
  rw [← hid]
  rw [rd_some _ _ _ _ (show a1.slot (a1.idAt ref).index0 = some sr by rw [idAt_index0]; exact hsr)]
  have Pr := r1.ptrs ref sr hsr hr0
  have hpar1 : (g.detach i).par ref = some p := by rw [Shape.detach_par_ne g i ref hri]; exact hpar
  obtain ⟨A, B, hk, hprev, hnext⟩ := Pr.sib p hpar1
  have hpi : p ≠ i := fun e => hanc (by subst e; exact .single hpar)
  have hanc1 : ¬ Reach (g.detach i).par p i := fun h =>
    hanc (.step hpar (Reach.mono (Shape.detach_par_le g i) h))
  have hp1 : Live a1 p := (r1.live_of_par hpar1).2
  obtain ⟨e1, r2⟩ := r1.insertRoot i p A (ref :: B) hi1 (Shape.detach_par_self g i) hp1 hpi hk hanc1
  have hsp : sr.parent = some (a1.idAt p) := by rw [Pr.parent, hpar1]; rfl
  rw [hsp, hprev]
  simp only [List.head?_cons, Option.map_some] at e1 r2
  rw [e1]
  simp only [expectOk, Step.bind_done]
  exact ⟨_, A, B, rfl, hk, r2, hM.trans (MetaEq.linkArena _ _ _ _ _)⟩

end Arena
end XotModel
