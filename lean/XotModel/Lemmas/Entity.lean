/-
  Helper lemmas about the character-level layer (Model/Entity).
-/
import XotModel.Model.Entity

namespace XotModel
open Gen

/-! ### `parseContentGo` step lemmas -/

theorem splitSemi_append (ent rest : Str) (h : ';' ∉ ent) :
    splitSemi (ent ++ ';' :: rest) = some (ent, rest) := by
  induction ent with
  | nil => simp [splitSemi]
  | cons c cs ih =>
    have hc : c ≠ ';' := by intro h'; apply h; simp [h']
    have hcs : ';' ∉ cs := by intro h'; apply h; simp [h']
    simp [splitSemi, hc, ih hcs]

/-- A character `parse_content` copies unchanged. -/
def plainFor (attr : Bool) (c : Char) : Bool :=
  c != '\r' && c != '&' && !(attr && (c == '\t' || c == '\n'))

theorem parseGo_plain (attr : Bool) (base pos : Nat) (c : Char) (rest : Str)
    (h : plainFor attr c = true) :
    parseContentGo attr base pos (c :: rest) =
      consOk c (parseContentGo attr base (pos + utf8Len c) rest) := by
  simp [plainFor] at h
  obtain ⟨⟨h1, h2⟩, h3⟩ := h
  rw [parseContentGo.eq_def]
  simp only [h1, h2, if_false]
  cases attr with
  | false => simp
  | true =>
    simp at h3
    simp [h3]

/-- A well-formed reference row: `&` + entity text without `;` + `;` that decodes to `c`. -/
def refOk (c : Char) (esc : Str) : Bool :=
  match esc with
  | '&' :: body =>
    (match body.reverse with
     | ';' :: rent => !(rent.contains ';') && decodeEntity rent.reverse == some c
     | _ => false)
  | _ => false

theorem refOk_shape {c : Char} {esc : Str} (h : refOk c esc = true) :
    ∃ ent, esc = '&' :: (ent ++ [';']) ∧ ';' ∉ ent ∧ decodeEntity ent = some c := by
  unfold refOk at h
  split at h
  · rename_i body
    split at h
    · rename_i rent hb
      simp at h
      refine ⟨rent.reverse, ?_, ?_, h.2⟩
      · have : body = (';' :: rent).reverse := by rw [← hb]; simp
        simp [this]
      · simpa using h.1
    · simp at h
  · simp at h

theorem parseGo_ref (attr : Bool) (base pos : Nat) (c : Char) (esc rest : Str)
    (h : refOk c esc = true) :
    ∃ pos', parseContentGo attr base pos (esc ++ rest) =
      consOk c (parseContentGo attr base pos' rest) := by
  obtain ⟨ent, rfl, hsemi, hdec⟩ := refOk_shape h
  refine ⟨pos + 1 + strLen ent + 1, ?_⟩
  have hs : splitSemi (ent ++ [';'] ++ rest) = some (ent, rest) := by
    simpa using splitSemi_append ent rest hsemi
  rw [parseContentGo.eq_def]
  simp only [List.cons_append]
  have h1 : ('&' : Char) ≠ '\r' := by decide
  simp only [h1, if_false, if_true]
  split
  · rename_i hnone; rw [hs] at hnone; cases hnone
  · rename_i ent' rest' hsome
    rw [hs] at hsome
    cases hsome
    simp [hdec]

/-! ### Table-driven escaping round trip -/

/-- Every row of the table is a reference that decodes to its key. -/
def tableOk (t : List (Char × Str)) : Bool := t.all (fun r => refOk r.1 r.2)

/-- Every character that `parse_content` would not copy unchanged has a row. -/
def tableCovers (attr : Bool) (t : List (Char × Str)) : Bool :=
  ['\r', '&', '\t', '\n'].all (fun c => plainFor attr c || (t.lookup c).isSome)

theorem lookup_refOk {t : List (Char × Str)} (ht : tableOk t = true) {c : Char} {esc : Str}
    (h : t.lookup c = some esc) : refOk c esc = true := by
  induction t with
  | nil => simp at h
  | cons r t ih =>
    obtain ⟨k, v⟩ := r
    simp [tableOk] at ht
    simp [List.lookup] at h
    split at h
    · rename_i heq
      simp at heq h
      subst heq; subst h
      exact ht.1
    · apply ih _ h
      simpa [tableOk] using ht.2

theorem plain_of_covers {attr : Bool} {t : List (Char × Str)} (hc : tableCovers attr t = true)
    {c : Char} (h : t.lookup c = none) : plainFor attr c = true := by
  simp only [tableCovers, List.all_cons, List.all_nil, Bool.and_true, Bool.and_eq_true, Bool.or_eq_true] at hc
  obtain ⟨h1, h2, h3, h4⟩ := hc
  by_cases e1 : c = '\r'
  · subst e1; simpa [h] using h1
  by_cases e2 : c = '&'
  · subst e2; simpa [h] using h2
  by_cases e3 : c = '\t'
  · subst e3; simpa [h] using h3
  by_cases e4 : c = '\n'
  · subst e4; simpa [h] using h4
  simp [plainFor, e1, e2, e3, e4]

/-- Round trip through any table that is well-formed and covers the special characters. -/
theorem parse_escape_roundtrip (attr : Bool) (t : List (Char × Str))
    (ht : tableOk t = true) (hc : tableCovers attr t = true) (s : Str) :
    ∀ base pos, parseContentGo attr base pos (s.flatMap (escapeWith t)) = .ok s := by
  induction s with
  | nil => intro base pos; simp [parseContentGo]
  | cons c cs ih =>
    intro base pos
    simp only [List.flatMap_cons]
    cases hl : t.lookup c with
    | some esc =>
      have he : escapeWith t c = esc := by simp [escapeWith, hl]
      obtain ⟨pos', hp⟩ := parseGo_ref attr base pos c esc (cs.flatMap (escapeWith t)) (lookup_refOk ht hl)
      rw [he, hp, ih base pos']; rfl
    | none =>
      have he : escapeWith t c = [c] := by simp [escapeWith, hl]
      have hp := parseGo_plain attr base pos c (cs.flatMap (escapeWith t)) (plain_of_covers hc hl)
      rw [he, List.singleton_append, hp, ih base (pos + utf8Len c)]; rfl

end XotModel

namespace XotModel
open Gen

/-! ### `unescaped_gt` serialisation -/

/-- The piece `serialize_text(unescaped_gt = true)` writes for `c` when the output so far,
    reversed, is `racc`. -/
def gtPiece (racc : Str) (c : Char) : Str :=
  if c = '>' then
    match racc with
    | ']' :: ']' :: _ => textGtEscape
    | _ => ['>']
  else escapeWith textEscapes c

/-- Non-accumulating form of `serializeTextGtGo`. -/
def gtOut : Str → Str → Str
  | _, [] => []
  | racc, c :: cs => gtPiece racc c ++ gtOut ((gtPiece racc c).reverse ++ racc) cs

theorem serializeTextGtGo_eq (racc s : Str) :
    serializeTextGtGo racc s = racc.reverse ++ gtOut racc s := by
  induction s generalizing racc with
  | nil => simp [serializeTextGtGo, gtOut]
  | cons c cs ih =>
    unfold serializeTextGtGo gtOut gtPiece
    by_cases hc : c = '>'
    · simp only [hc, if_true]
      split <;> simp [ih]
    · simp only [hc, if_false]
      simp [ih]

theorem gt_roundtrip (ht : tableOk textEscapes = true) (hc : tableCovers false textEscapes = true)
    (hgt : refOk '>' textGtEscape = true) (s : Str) :
    ∀ racc base pos, parseContentGo false base pos (gtOut racc s) = .ok s := by
  induction s with
  | nil => intro racc base pos; simp [gtOut, parseContentGo]
  | cons c cs ih =>
    intro racc base pos
    unfold gtOut
    generalize hr : (gtPiece racc c).reverse ++ racc = racc'
    unfold gtPiece
    by_cases hcgt : c = '>'
    · subst hcgt
      simp only [if_true]
      split
      · obtain ⟨pos', hp⟩ := parseGo_ref false base pos '>' textGtEscape (gtOut racc' cs) hgt
        rw [hp, ih racc' base pos']; rfl
      · have hp := parseGo_plain false base pos '>' (gtOut racc' cs) (by decide)
        rw [List.singleton_append, hp, ih]; rfl
    · simp only [hcgt, if_false]
      cases hl : textEscapes.lookup c with
      | some esc =>
        have he : escapeWith textEscapes c = esc := by simp [escapeWith, hl]
        obtain ⟨pos', hp⟩ := parseGo_ref false base pos c esc (gtOut racc' cs) (lookup_refOk ht hl)
        rw [he, hp, ih racc' base pos']; rfl
      | none =>
        have he : escapeWith textEscapes c = [c] := by simp [escapeWith, hl]
        have hp := parseGo_plain false base pos c (gtOut racc' cs) (plain_of_covers hc hl)
        rw [he, List.singleton_append, hp, ih]; rfl

/-! ### CDATA sections -/

theorem inSection_cons_ne (c : Char) (rest : Str) (h : c ≠ ']') :
    inSection (c :: rest) = (inSection rest).map (c :: ·) := by
  rw [inSection.eq_def]
  split
  · simp_all
  · rename_i heq; simp at heq; exact absurd heq.1 h
  · rename_i c' rest' _ heq; simp at heq; obtain ⟨rfl, rfl⟩ := heq; rfl

theorem inSection_bracket (rest : Str) (h : ∀ r, rest ≠ ']' :: '>' :: r) :
    inSection (']' :: rest) = (inSection rest).map (']' :: ·) := by
  rw [inSection.eq_def]
  split
  · simp_all
  · rename_i r heq; simp at heq; exact absurd heq (h r)
  · rename_i c' rest' _ heq; simp at heq; obtain ⟨rfl, rfl⟩ := heq; rfl

theorem inSection_end (rest : Str) :
    inSection (']' :: ']' :: '>' :: rest) = afterSection rest := by
  simp [inSection]

theorem replicate_bracket_ne (m : Nat) (c : Char) (rest r : Str) (hc : c ≠ ']')
    (h : c = '>' → m + 1 < 2) : List.replicate m ']' ++ c :: rest ≠ ']' :: '>' :: r := by
  intro heq
  cases m with
  | zero => simp at heq; exact hc heq.1
  | succ m =>
    cases m with
    | zero =>
      simp at heq
      have := h heq.1
      omega
    | succ m => simp [List.replicate_succ] at heq

/-- Reading past `m` brackets followed by a non-bracket that does not complete `]]>`. -/
theorem inSection_brackets_then (m : Nat) (c : Char) (rest : Str) (hc : c ≠ ']')
    (h : c = '>' → m < 2) :
    inSection (List.replicate m ']' ++ c :: rest) =
      (inSection rest).map (fun r => List.replicate m ']' ++ c :: r) := by
  induction m with
  | zero =>
    simp only [List.replicate_zero, List.nil_append]
    exact inSection_cons_ne c rest hc
  | succ m ih =>
    simp only [List.replicate_succ, List.cons_append]
    rw [inSection_bracket _ (fun r => replicate_bracket_ne m c rest r hc h)]
    rw [ih (fun hgt => by have := h hgt; omega)]
    cases inSection rest <;> simp

theorem replicate_end_ne (m : Nat) (r : Str) :
    List.replicate m ']' ++ [']', ']', '>'] ≠ ']' :: '>' :: r := by
  intro heq
  cases m with
  | zero => simp at heq
  | succ m => cases m <;> simp [List.replicate_succ] at heq

/-- `m` brackets followed by the closing delimiter. -/
theorem inSection_brackets_end (m : Nat) (rest : Str) :
    inSection (List.replicate m ']' ++ ']' :: ']' :: '>' :: rest) =
      (afterSection rest).map (fun r => List.replicate m ']' ++ r) := by
  induction m with
  | zero => simp [inSection_end]
  | succ m ih =>
    simp only [List.replicate_succ, List.cons_append]
    rw [inSection_bracket]
    · rw [ih]; cases afterSection rest <;> simp
    · intro r heq
      cases m with
      | zero => simp at heq
      | succ m => cases m <;> simp [List.replicate_succ] at heq

end XotModel

namespace XotModel
open Gen

theorem afterSection_open (rest : Str) :
    afterSection ('<' :: '!' :: '[' :: 'C' :: 'D' :: 'A' :: 'T' :: 'A' :: '[' :: rest) = inSection rest := by
  simp [afterSection]

theorem replicate_snoc_append (n : Nat) (a : Char) (l : Str) :
    List.replicate (n + 1) a ++ l = List.replicate n a ++ a :: l := by
  rw [List.replicate_succ']; simp

/-- The bracket-counter invariant of `serialize_cdata`: with `j` brackets already written (only
    possible while the counter is saturated at 2) and `k` brackets pending, reading the rest of
    the output back as section content yields all `j + k` brackets and then the input. -/
theorem afterSection_cr (rest : Str) :
    afterSection ('&' :: '#' :: 'x' :: 'D' :: ';' :: rest) = (afterSection rest).map ('\r' :: ·) := by
  simp [afterSection]

theorem cdataGo_sections
    (hO : cdataOpen = ['<','!','[','C','D','A','T','A','['])
    (hS : cdataSplit = [']',']',']',']','>'] ++ cdataOpen ++ ['>'])
    (hR : cdataCr = [']',']','>'] ++ ['&','#','x','D',';'] ++ cdataOpen)
    (hC : cdataClose = [']',']','>']) (cs : Str) :
    ∀ j k, k ≤ 2 → (k < 2 → j = 0) →
      inSection (List.replicate j ']' ++ serializeCdataGo k cs) = some (List.replicate (j + k) ']' ++ cs) := by
  induction cs with
  | nil =>
    intro j k _ _
    simp only [serializeCdataGo, hC]
    rw [← List.append_assoc, List.replicate_append_replicate, inSection_brackets_end]
    simp [afterSection]
  | cons c cs ih =>
    intro j k hk hj
    unfold serializeCdataGo
    by_cases hb : c = ']'
    · subst hb
      simp only [if_true]
      by_cases hk2 : k < 2
      · simp only [hk2, if_true]
        have hj0 := hj hk2
        subst hj0
        have := ih 0 (k + 1) (by omega) (by intro; rfl)
        simp only [List.replicate_zero, List.nil_append, Nat.zero_add] at this ⊢
        rw [this, replicate_snoc_append]
      · simp only [hk2, if_false]
        have hk' : k = 2 := by omega
        subst hk'
        have := ih (j + 1) 2 (by omega) (by omega)
        rw [replicate_snoc_append] at this
        rw [this]
        congr 1
        rw [show j + 1 + 2 = (j + 2) + 1 by omega, replicate_snoc_append]
    · simp only [hb, if_false]
      by_cases hg : c = '>'
      · subst hg
        simp only [if_true]
        by_cases hk2 : k = 2
        · subst hk2
          simp only [if_true, hS, hO]
          have h0 := ih 0 0 (by omega) (by intro; rfl)
          simp only [List.replicate_zero, List.nil_append, Nat.zero_add] at h0
          have : List.replicate j ']' ++ ([']', ']', ']', ']', '>'] ++ ['<','!','[','C','D','A','T','A','['] ++ ['>'] ++ serializeCdataGo 0 cs)
              = List.replicate (j + 2) ']' ++ ']' :: ']' :: '>' :: ('<' :: '!' :: '[' :: 'C' :: 'D' :: 'A' :: 'T' :: 'A' :: '[' :: '>' :: serializeCdataGo 0 cs) := by
            rw [← List.replicate_append_replicate]; simp [List.replicate]
          rw [this, inSection_brackets_end, afterSection_open, inSection_cons_ne _ _ (by decide), h0]
          simp
        · simp only [hk2, if_false]
          have hk' : k < 2 := by omega
          have hj0 := hj hk'
          subst hj0
          have h0 := ih 0 0 (by omega) (by intro; rfl)
          simp only [List.replicate_zero, List.nil_append, Nat.zero_add] at h0 ⊢
          rw [inSection_brackets_then k '>' _ (by decide) (fun _ => hk'), h0]
          simp
      · simp only [hg, if_false]
        have h0 := ih 0 0 (by omega) (by intro; rfl)
        simp only [List.replicate_zero, List.nil_append, Nat.zero_add] at h0
        by_cases hr : c = '\r'
        · subst hr
          simp only [if_true, hR, hO]
          have : List.replicate j ']' ++ (List.replicate k ']' ++ ([']', ']', '>'] ++ ['&', '#', 'x', 'D', ';'] ++ ['<','!','[','C','D','A','T','A','['] ++ serializeCdataGo 0 cs))
              = List.replicate (j + k) ']' ++ ']' :: ']' :: '>' :: ('&' :: '#' :: 'x' :: 'D' :: ';' :: ('<' :: '!' :: '[' :: 'C' :: 'D' :: 'A' :: 'T' :: 'A' :: '[' :: serializeCdataGo 0 cs)) := by
            rw [← List.append_assoc, List.replicate_append_replicate]; simp
          rw [this, inSection_brackets_end, afterSection_cr, afterSection_open, h0]
          simp
        · simp only [hr, if_false]
          rw [← List.append_assoc, List.replicate_append_replicate,
            inSection_brackets_then (j + k) c _ hb (fun h => absurd h hg), h0]
          simp

/-! ### Absence of `]]>` in text serialised with `unescaped_gt` -/

/-! ### Absence of `]]>` -/

theorem startsCdataEnd_append_noGt (l piece : Str) (h : '>' ∉ piece) :
    startsCdataEnd (l ++ piece) = startsCdataEnd l := by
  match l with
  | [] =>
    match piece with
    | [] => rfl
    | [a] => simp [startsCdataEnd]
    | [a, b] => simp [startsCdataEnd]
    | a :: b :: c :: r =>
      have : c ≠ '>' := by intro hc; apply h; simp [hc]
      simp [startsCdataEnd, this]
  | [a] =>
    match piece with
    | [] => rfl
    | [b] => simp [startsCdataEnd]
    | b :: c :: r =>
      have : c ≠ '>' := by intro hc; apply h; simp [hc]
      simp [startsCdataEnd, this]
  | [a, b] =>
    match piece with
    | [] => rfl
    | c :: r =>
      have : c ≠ '>' := by intro hc; apply h; simp [hc]
      simp [startsCdataEnd, this]
  | a :: b :: c :: r => simp [startsCdataEnd]

theorem hasCdataEnd_append_noGt (out piece : Str) (h : '>' ∉ piece) :
    hasCdataEnd (out ++ piece) = hasCdataEnd out := by
  induction out with
  | nil =>
    simp only [List.nil_append]
    induction piece with
    | nil => rfl
    | cons c cs ih =>
      have hcs : '>' ∉ cs := by intro h'; apply h; simp [h']
      have := startsCdataEnd_append_noGt [] (c :: cs) h
      simp only [List.nil_append] at this
      have h0 : startsCdataEnd [] = false := rfl
      show (startsCdataEnd (c :: cs) || hasCdataEnd cs) = false
      rw [this, h0, ih hcs]; rfl
  | cons c o ih =>
    have := startsCdataEnd_append_noGt (c :: o) piece h
    simp only [List.cons_append] at this ⊢
    simp [hasCdataEnd, this, ih]

theorem hasCdataEnd_append_gt (out : Str) (h : hasCdataEnd out = false)
    (hr : ∀ r, out.reverse ≠ ']' :: ']' :: r) : hasCdataEnd (out ++ ['>']) = false := by
  induction out with
  | nil => simp [hasCdataEnd, startsCdataEnd]
  | cons c o ih =>
    simp only [hasCdataEnd, Bool.or_eq_false_iff] at h
    have ho : ∀ r, o.reverse ≠ ']' :: ']' :: r := by
      intro r heq
      apply hr (r ++ [c])
      simp [heq]
    simp only [List.cons_append, hasCdataEnd, Bool.or_eq_false_iff]
    refine ⟨?_, ih h.2 ho⟩
    match o, h, hr with
    | [], _, _ => simp [startsCdataEnd]
    | [d], _, hr =>
      simp only [List.cons_append, List.nil_append]
      by_cases hc : c = ']'
      · by_cases hd : d = ']'
        · exfalso; apply hr []; simp [hc, hd]
        · simp [startsCdataEnd, hd]
      · simp [startsCdataEnd, hc]
    | d :: e :: o', h, _ =>
      have := h.1
      simp only [List.cons_append]
      simpa [startsCdataEnd] using this

/-- No escape string contains `>` or `]`. -/
def tableNoGtBracket (t : List (Char × Str)) : Bool :=
  t.all (fun r => !(r.2.contains '>'))

theorem escapeWith_noGt {t : List (Char × Str)} (ht : tableNoGtBracket t = true) {c : Char}
    (hc : c ≠ '>') : '>' ∉ escapeWith t c := by
  unfold escapeWith
  cases hl : t.lookup c with
  | none => simp; exact fun h => hc h.symm
  | some esc =>
    simp only
    induction t with
    | nil => simp at hl
    | cons r t ih =>
      obtain ⟨k, v⟩ := r
      simp [tableNoGtBracket] at ht
      simp [List.lookup] at hl
      split at hl
      · simp at hl; subst hl; simpa using ht.1
      · exact ih (by simpa [tableNoGtBracket] using ht.2) hl

theorem gtOut_noCdataEnd (ht : tableNoGtBracket textEscapes = true)
    (hg : textGtEscape.contains '>' = false) (s : Str) :
    ∀ racc, hasCdataEnd racc.reverse = false → hasCdataEnd (racc.reverse ++ gtOut racc s) = false := by
  induction s with
  | nil => intro racc h; simpa [gtOut] using h
  | cons c cs ih =>
    intro racc h
    unfold gtOut
    have key : hasCdataEnd (racc.reverse ++ gtPiece racc c) = false := by
      unfold gtPiece
      by_cases hc : c = '>'
      · simp only [hc, if_true]
        split
        · rw [hasCdataEnd_append_noGt _ _ (by simpa using hg)]; exact h
        · rename_i hne
          apply hasCdataEnd_append_gt _ h
          intro r heq
          simp at heq
          exact hne r heq
      · simp only [hc, if_false]
        rw [hasCdataEnd_append_noGt _ _ (escapeWith_noGt ht hc)]; exact h
    have := ih ((gtPiece racc c).reverse ++ racc) (by simpa using key)
    simpa using this

/-! ### Lexical safety: a character with a row never appears raw in the output -/

/-- `c` has a row and no escape string of the table contains `c`. -/
def tableHides (t : List (Char × Str)) (c : Char) : Bool :=
  (t.lookup c).isSome && t.all (fun r => !(r.2.contains c))

theorem escapeWith_hides {t : List (Char × Str)} {c : Char} (h : tableHides t c = true) (d : Char) :
    c ∉ escapeWith t d := by
  simp only [tableHides, Bool.and_eq_true] at h
  obtain ⟨hk, hrows⟩ := h
  unfold escapeWith
  cases hl : t.lookup d with
  | none =>
    simp only [List.mem_singleton]
    intro hcd; subst hcd; simp [hl] at hk
  | some esc =>
    simp only
    clear hk
    induction t with
    | nil => simp at hl
    | cons r t ih =>
      obtain ⟨k, v⟩ := r
      simp only [List.all_cons, Bool.and_eq_true] at hrows
      simp [List.lookup] at hl
      split at hl
      · simp at hl; subst hl; simpa using hrows.1
      · exact ih hrows.2 hl

theorem flatMap_escape_hides {t : List (Char × Str)} {c : Char} (h : tableHides t c = true) (s : Str) :
    c ∉ s.flatMap (escapeWith t) := by
  simp only [List.mem_flatMap, not_exists, not_and]
  intro d _
  exact escapeWith_hides h d

theorem gtOut_hides {c : Char} (h : tableHides textEscapes c = true) (hc : c ≠ '>')
    (hg : textGtEscape.contains c = false) (s : Str) : ∀ racc, c ∉ gtOut racc s := by
  induction s with
  | nil => intro racc; simp [gtOut]
  | cons d ds ih =>
    intro racc
    unfold gtOut
    simp only [List.mem_append, not_or]
    refine ⟨?_, ih _⟩
    unfold gtPiece
    split
    · split
      · simpa using hg
      · simp; exact hc
    · exact escapeWith_hides h d

/-- `serialize_text(unescaped_gt = false)` is table-driven escaping with the `>` row added. -/
theorem serializeText_false_eq (s : Str) :
    serializeText false s = s.flatMap (escapeWith (('>', textGtEscape) :: textEscapes)) := by
  simp only [serializeText, serializeTextEsc, Bool.false_eq_true, if_false]
  congr 1; funext c
  by_cases hc : c = '>'
  · subst hc; simp [escapeWith, List.lookup]
  · have : (c == '>') = false := by simpa using hc
    simp [escapeWith, List.lookup, hc, this]

end XotModel
