/-
  Fhist (extended histories), part 1: every extended call (`Forest.XCall`, Model/FhistSpec.lean)
  preserves the forest invariant, hence so does every extended history.
-/
import XotModel.Lemmas.FinvPrefix
import XotModel.Lemmas.FhistBasic

namespace XotModel
open HTree

namespace Forest

/-- The insertion loop of `clone_with_prefixes`: `namespaces_mut(clone).insert(prefix, ns)` calls. -/
theorem addPrefixes_inv : ∀ (order : List (Nat × Nat)) {f : Forest}, f.Inv → ∀ c : Nat,
    (f.addPrefixes c order).1.Inv
  | [], _, hi, _ => hi
  | (p, ns) :: rest, f, hi, c => by
    unfold addPrefixes
    split
    · exact addPrefixes_inv rest hi c
    · have h1 : (f.mapInsert .namespaces c (.namespace p ns)).1.Inv :=
        mapInsert_inv hi .namespaces c (.namespace p ns) rfl
      rcases hm : f.mapInsert .namespaces c (.namespace p ns) with ⟨f', r⟩
      rw [hm] at h1
      cases r with
      | ok => exact addPrefixes_inv rest h1 c
      | err e => exact h1
      | panic => exact h1

/-- `clone_with_prefixes(node)`, for every node argument, every iteration order, every outcome. -/
theorem cloneWithPrefixes_inv {f : Forest} (hi : f.Inv) (node : Nat) (order : List (Nat × Nat)) :
    (f.cloneWithPrefixes node order).1.Inv := by
  have h1 : (f.cloneNode node).1.Inv := step_inv hi (.cloneNode node) rfl
  unfold cloneWithPrefixes
  rcases hc : f.cloneNode node with ⟨f1, oc⟩
  rw [hc] at h1
  cases oc with
  | none => exact h1
  | some c =>
    simp only
    split
    · have h2 := addPrefixes_inv order h1 c
      rcases ha : f1.addPrefixes c order with ⟨f2, r⟩
      rw [ha] at h2
      cases r <;> exact h2
    · exact h1

/-- `XCall.wellKinded` is `Call.wellKinded` on the calls. -/
theorem XCall.wellKinded_call {c : Call} (hw : (XCall.call c).wellKinded) : c.wellKinded := by
  cases c <;> first | exact hw | trivial

/-- **One extended call preserves the invariant**, whatever its arguments and its outcome. -/
theorem xcall_inv {s : Store} (hi : s.forest.Inv) (c : XCall) (hw : c.wellKinded) :
    (c.run s).1.forest.Inv := by
  cases c with
  | call c => exact call_inv hi c (XCall.wellKinded_call hw)
  | newNode v => exact newNode_inv hi v
  | setConsolidation b => exact setConsolidation_inv hi b
  | removeInsignificantWhitespace n => exact removeInsignificantWhitespace_inv hi n
  | createMissingPrefixes n => exact createMissingPrefixes_inv hi s.env n
  | deduplicateNamespaces n => exact deduplicateNamespaces_inv hi s.env n
  | cloneWithPrefixes n order => exact cloneWithPrefixes_inv hi n order

end Forest

namespace Store
open Forest

theorem xstep_inv {s : Store} (hi : s.forest.Inv) (c : XCall) (hw : c.wellKinded) :
    (s.xstep c).forest.Inv := xcall_inv hi c hw

/-- **Every extended history preserves the invariant.** -/
theorem xrun_inv : ∀ (cs : List XCall) {s : Store}, s.forest.Inv → (∀ c ∈ cs, c.wellKinded) →
    (s.xrun cs).forest.Inv
  | [], _, hi, _ => hi
  | c :: cs, s, hi, hw =>
    xrun_inv cs (s := s.xstep c) (xstep_inv hi c (hw c (by simp))) (fun c' h' => hw c' (by simp [h']))

end Store
end XotModel
