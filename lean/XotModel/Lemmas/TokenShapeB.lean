/-
  Boolean checkers for the token-shape contract, so that closed token lists can be shown to
  satisfy it by kernel evaluation.
-/
import XotModel.Model.TokenShape

namespace XotModel

def StrSpan.insideB (len : Nat) (s : StrSpan) : Bool := decide (s.stop ≤ len)

def optInsideB (len : Nat) : Option StrSpan → Bool
  | none => true
  | some s => s.insideB len

def Token.insideB (len : Nat) : Token → Bool
  | .declaration v e _ sp => v.insideB len && optInsideB len e && sp.insideB len
  | .pi t c sp => t.insideB len && optInsideB len c && sp.insideB len
  | .comment t sp => t.insideB len && sp.insideB len
  | .dtdStart sp => sp.insideB len
  | .emptyDtd sp => sp.insideB len
  | .entityDecl sp => sp.insideB len
  | .dtdEnd sp => sp.insideB len
  | .elementStart p l sp => p.insideB len && l.insideB len && sp.insideB len
  | .attribute p l v sp => p.insideB len && l.insideB len && v.insideB len && sp.insideB len
  | .elementEnd (.close p l) sp => p.insideB len && l.insideB len && sp.insideB len
  | .elementEnd _ sp => sp.insideB len
  | .text t => t.insideB len
  | .cdata t sp => t.insideB len && sp.insideB len

theorem optInsideB_spec {len : Nat} {e : Option StrSpan} (h : optInsideB len e = true) :
    ∀ x, e = some x → x.Inside len := by
  intro x hx; subst hx; simpa [optInsideB, StrSpan.insideB, StrSpan.Inside] using h

theorem Token.inside_of_B {len : Nat} {t : Token} (h : t.insideB len = true) : t.Inside len := by
  cases t with
  | declaration v e s sp =>
    simp only [Token.insideB, Bool.and_eq_true] at h
    exact ⟨by simpa [StrSpan.insideB, StrSpan.Inside] using h.1.1, optInsideB_spec h.1.2, by simpa [StrSpan.insideB, StrSpan.Inside] using h.2⟩
  | pi t c sp =>
    simp only [Token.insideB, Bool.and_eq_true] at h
    exact ⟨by simpa [StrSpan.insideB, StrSpan.Inside] using h.1.1, optInsideB_spec h.1.2, by simpa [StrSpan.insideB, StrSpan.Inside] using h.2⟩
  | comment t sp => simpa [Token.insideB, Token.Inside, StrSpan.insideB, StrSpan.Inside] using h
  | dtdStart sp => simpa [Token.insideB, Token.Inside, StrSpan.insideB, StrSpan.Inside] using h
  | emptyDtd sp => simpa [Token.insideB, Token.Inside, StrSpan.insideB, StrSpan.Inside] using h
  | entityDecl sp => simpa [Token.insideB, Token.Inside, StrSpan.insideB, StrSpan.Inside] using h
  | dtdEnd sp => simpa [Token.insideB, Token.Inside, StrSpan.insideB, StrSpan.Inside] using h
  | elementStart p l sp => simpa [Token.insideB, Token.Inside, StrSpan.insideB, StrSpan.Inside, and_assoc] using h
  | «attribute» p l v sp => simpa [Token.insideB, Token.Inside, StrSpan.insideB, StrSpan.Inside, and_assoc] using h
  | elementEnd e sp =>
    cases e <;> simpa [Token.insideB, Token.Inside, StrSpan.insideB, StrSpan.Inside, and_assoc] using h
  | text t => simpa [Token.insideB, Token.Inside, StrSpan.insideB, StrSpan.Inside] using h
  | cdata t sp => simpa [Token.insideB, Token.Inside, StrSpan.insideB, StrSpan.Inside] using h

def abutB (p l : StrSpan) : Bool := (decide (p.text = []) && decide (p.start = 0)) || decide (p.stop + 1 = l.start)

def Token.abutsB : Token → Bool
  | .elementStart p l _ => abutB p l
  | .attribute p l _ _ => abutB p l
  | .elementEnd (.close p l) _ => abutB p l
  | _ => true

theorem Token.abuts_of_B {t : Token} (h : t.abutsB = true) : t.Abuts := by
  cases t with
  | elementStart p l sp => simpa [Token.abutsB, Token.Abuts, abutB, Abut] using h
  | «attribute» p l v sp => simpa [Token.abutsB, Token.Abuts, abutB, Abut] using h
  | elementEnd e sp => cases e <;> simp_all [Token.abutsB, Token.Abuts, abutB, Abut]
  | _ => trivial

def tagsOkB : Bool → List Token → Bool
  | _, [] => true
  | false, .elementStart _ _ _ :: rest => tagsOkB true rest
  | false, .attribute _ _ _ _ :: _ => false
  | false, .elementEnd .open _ :: _ => false
  | false, .elementEnd .empty _ :: _ => false
  | false, _ :: rest => tagsOkB false rest
  | true, .attribute _ _ _ _ :: rest => tagsOkB true rest
  | true, .elementEnd .open _ :: rest => tagsOkB false rest
  | true, .elementEnd .empty _ :: rest => tagsOkB false rest
  | true, _ :: _ => false

theorem tagsOk_of_B : ∀ (inTag : Bool) (ts : List Token), tagsOkB inTag ts = true → TagsOk inTag ts := by
  intro inTag ts
  induction ts generalizing inTag with
  | nil => intro _; cases inTag <;> trivial
  | cons t rest ih =>
    intro h
    cases inTag <;> cases t <;> (try rename_i e _; cases e) <;>
      simp_all [tagsOkB, TagsOk]

def noStrayCloseB : Nat → List Token → Bool
  | _, [] => true
  | d, .elementEnd .open _ :: rest => noStrayCloseB (d + 1) rest
  | 0, .elementEnd (.close _ _) _ :: _ => false
  | d + 1, .elementEnd (.close _ _) _ :: rest => noStrayCloseB d rest
  | d, _ :: rest => noStrayCloseB d rest

theorem noStrayClose_of_B : ∀ (d : Nat) (ts : List Token), noStrayCloseB d ts = true → NoStrayClose d ts := by
  intro d ts
  induction ts generalizing d with
  | nil => intro _; trivial
  | cons t rest ih =>
    intro h
    cases t <;> (try rename_i e _; cases e) <;> (try cases d) <;>
      simp_all [noStrayCloseB, NoStrayClose]

def tokenShapeB (len : Nat) (ts : List Token) (lexErr : Option Nat) : Bool :=
  ts.all (fun t => t.insideB len) && ts.all Token.abutsB && tagsOkB false ts &&
    (match lexErr with | none => true | some p => decide (p ≤ len))

theorem tokenShape_of_B {len : Nat} {ts : List Token} {lexErr : Option Nat}
    (h : tokenShapeB len ts lexErr = true) : TokenShape len ts lexErr := by
  simp only [tokenShapeB, Bool.and_eq_true, List.all_eq_true] at h
  obtain ⟨⟨⟨h1, h2⟩, h3⟩, h4⟩ := h
  refine ⟨fun t ht => Token.inside_of_B (h1 t ht), fun t ht => Token.abuts_of_B (h2 t ht), tagsOk_of_B _ _ h3, ?_⟩
  intro p hp; subst hp; simpa using h4

end XotModel
