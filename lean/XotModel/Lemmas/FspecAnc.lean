/-
  FspecAnc — `ancestors` (indextree `ancestors`) characterised through subtrees: with distinct
  handles, `n` is among the ancestors-or-self of `r` iff `r` lies in the subtree of `n`.
-/
import XotModel.Lemmas.FspecSite

namespace XotModel
open HTree

theorem ancestorsOf_node (r h : Nat) (v : Value) (ks : List HTree) :
    ancestorsOf r (.node h v ks) =
      if h = r then some [h] else (ancestorsOfList r ks).map (fun l => l ++ [h]) := by
  simp only [ancestorsOf]
  split
  · rfl
  · cases ancestorsOfList r ks <;> rfl

theorem ancestorsOfList_nil (r : Nat) : ancestorsOfList r [] = none := by simp [ancestorsOfList]

theorem ancestorsOfList_cons_some {r : Nat} {k : HTree} {ks : List HTree} {l : List Nat}
    (e : ancestorsOf r k = some l) : ancestorsOfList r (k :: ks) = some l := by
  simp [ancestorsOfList, e]

theorem ancestorsOfList_cons_none {r : Nat} {k : HTree} {ks : List HTree}
    (e : ancestorsOf r k = none) : ancestorsOfList r (k :: ks) = ancestorsOfList r ks := by
  simp [ancestorsOfList, e]

mutual
  theorem ancestorsOf_of_not_mem {r : Nat} : ∀ t : HTree, r ∉ handles t → ancestorsOf r t = none
    | .node h v ks => by
      intro hn
      rw [handles_node] at hn
      simp only [List.mem_cons, not_or] at hn
      rw [ancestorsOf_node, if_neg (fun e => hn.1 e.symm), ancestorsOfList_of_not_mem ks hn.2]
      rfl
  theorem ancestorsOfList_of_not_mem {r : Nat} : ∀ ks : List HTree, r ∉ handlesList ks →
      ancestorsOfList r ks = none
    | [] => fun _ => ancestorsOfList_nil r
    | k :: ks => by
      intro hn
      rw [handlesList_cons] at hn
      simp only [List.mem_append, not_or] at hn
      rw [ancestorsOfList_cons_none (ancestorsOf_of_not_mem k hn.1)]
      exact ancestorsOfList_of_not_mem ks hn.2
end

mutual
  /-- Every listed ancestor-or-self `n` of `r` is a node whose subtree holds `r`. -/
  theorem ancestorsOf_sound {r n : Nat} : ∀ (t : HTree) (path : List Nat), (handles t).Nodup →
      ancestorsOf r t = some path → n ∈ path → ∃ u, find? n t = some u ∧ r ∈ handles u
    | .node h v ks, path => by
      intro nd e hn
      obtain ⟨n1, n2⟩ := nodup_handles_node nd
      rw [ancestorsOf_node] at e
      by_cases hh : h = r
      · rw [if_pos hh] at e
        have e' := Option.some.inj e
        subst e'
        have : n = h := by simpa using hn
        subst this
        refine ⟨_, fs_find?_self (.node n v ks), ?_⟩
        rw [handles_node, hh]; exact List.mem_cons_self
      · rw [if_neg hh] at e
        cases hl : ancestorsOfList r ks with
        | none => rw [hl] at e; cases e
        | some l =>
          rw [hl] at e
          have e' := Option.some.inj e
          simp only at e'
          subst e'
          have hr_in : r ∈ handlesList ks := by
            apply Classical.byContradiction
            intro hnot
            rw [ancestorsOfList_of_not_mem ks hnot] at hl; cases hl
          cases List.mem_append.1 hn with
          | inl hnl =>
            obtain ⟨u, hu, hru⟩ := ancestorsOfList_sound ks l n2 hl hnl
            refine ⟨u, ?_, hru⟩
            have : n ∈ handlesList ks := mem_of_findList?_some hu
            rw [find?_node, if_neg (fun (e' : h = n) => n1 (e' ▸ this))]
            exact hu
          | inr hnh =>
            have : n = h := by simpa using hnh
            subst this
            refine ⟨_, fs_find?_self (.node n v ks), ?_⟩
            rw [handles_node]; exact List.mem_cons_of_mem _ hr_in
  theorem ancestorsOfList_sound {r n : Nat} : ∀ (ks : List HTree) (path : List Nat), (handlesList ks).Nodup →
      ancestorsOfList r ks = some path → n ∈ path → ∃ u, findList? n ks = some u ∧ r ∈ handles u
    | [], path => by intro _ e; rw [ancestorsOfList_nil] at e; cases e
    | k :: ks, path => by
      intro nd e hn
      obtain ⟨n1, n2, n3⟩ := nodup_handlesList_cons nd
      cases hk : ancestorsOf r k with
      | some l =>
        rw [ancestorsOfList_cons_some hk] at e
        have e' := Option.some.inj e
        subst e'
        obtain ⟨u, hu, hru⟩ := ancestorsOf_sound k l n1 hk hn
        exact ⟨u, findList?_cons_some hu, hru⟩
      | none =>
        rw [ancestorsOfList_cons_none hk] at e
        obtain ⟨u, hu, hru⟩ := ancestorsOfList_sound ks path n2 e hn
        refine ⟨u, ?_, hru⟩
        have : n ∈ handlesList ks := mem_of_findList?_some hu
        have hnk : n ∉ handles k := fun hm => n3 n hm this
        rw [findList?_cons_none (find?_eq_none k hnk)]
        exact hu
end

mutual
  /-- Conversely, a node whose subtree holds `r` is listed. -/
  theorem ancestorsOf_complete {r n : Nat} : ∀ (t u : HTree), (handles t).Nodup →
      find? n t = some u → r ∈ handles u → ∃ path, ancestorsOf r t = some path ∧ n ∈ path
    | .node h v ks, u => by
      intro nd e hr
      obtain ⟨n1, n2⟩ := nodup_handles_node nd
      rw [find?_node] at e
      rw [ancestorsOf_node]
      by_cases hh : h = n
      · rw [if_pos hh] at e
        have e' := Option.some.inj e
        subst e'
        by_cases hhr : h = r
        · rw [if_pos hhr]; exact ⟨[h], rfl, by simp [hh]⟩
        · rw [if_neg hhr]
          rw [handles_node] at hr
          have hr_in : r ∈ handlesList ks := by
            cases List.mem_cons.1 hr with
            | inl e' => exact absurd e'.symm hhr
            | inr e' => exact e'
          cases hl : ancestorsOfList r ks with
          | none =>
            exfalso
            -- `r` is below, so the search succeeds
            have := ancestorsOfList_isSome ks hr_in
            rw [hl] at this; cases this
          | some l => exact ⟨l ++ [h], rfl, by simp [hh]⟩
      · rw [if_neg hh] at e
        have hr_in : r ∈ handlesList ks := (findList?_some ks u e).2 r hr
        have hhr : ¬ h = r := fun e' => n1 (e' ▸ hr_in)
        rw [if_neg hhr]
        obtain ⟨l, hl, hnl⟩ := ancestorsOfList_complete ks u n2 e hr
        rw [hl]
        exact ⟨l ++ [h], rfl, List.mem_append_left _ hnl⟩
  theorem ancestorsOfList_complete {r n : Nat} : ∀ (ks : List HTree) (u : HTree), (handlesList ks).Nodup →
      findList? n ks = some u → r ∈ handles u → ∃ path, ancestorsOfList r ks = some path ∧ n ∈ path
    | [], u => by intro _ e; rw [findList?_nil] at e; cases e
    | k :: ks, u => by
      intro nd e hr
      obtain ⟨n1, n2, n3⟩ := nodup_handlesList_cons nd
      cases hk : find? n k with
      | some t =>
        rw [findList?_cons_some hk] at e
        have e' := Option.some.inj e
        subst e'
        obtain ⟨l, hl, hnl⟩ := ancestorsOf_complete k t n1 hk hr
        exact ⟨l, ancestorsOfList_cons_some hl, hnl⟩
      | none =>
        rw [findList?_cons_none hk] at e
        have hr_in : r ∈ handlesList ks := (findList?_some ks u e).2 r hr
        have hrk : r ∉ handles k := fun hm => n3 r hm hr_in
        rw [ancestorsOfList_cons_none (ancestorsOf_of_not_mem k hrk)]
        exact ancestorsOfList_complete ks u n2 e hr
  theorem ancestorsOf_isSome {r : Nat} : ∀ t : HTree, r ∈ handles t → (ancestorsOf r t).isSome = true
    | .node h v ks => by
      intro hr
      rw [ancestorsOf_node]
      by_cases hh : h = r
      · rw [if_pos hh]; rfl
      · rw [if_neg hh]
        rw [handles_node] at hr
        have hr_in : r ∈ handlesList ks := by
          cases List.mem_cons.1 hr with
          | inl e' => exact absurd e'.symm hh
          | inr e' => exact e'
        have := ancestorsOfList_isSome ks hr_in
        cases hl : ancestorsOfList r ks with
        | none => rw [hl] at this; cases this
        | some l => rfl
  theorem ancestorsOfList_isSome {r : Nat} : ∀ ks : List HTree, r ∈ handlesList ks →
      (ancestorsOfList r ks).isSome = true
    | [] => by intro hr; simp [handlesList] at hr
    | k :: ks => by
      intro hr
      cases hk : ancestorsOf r k with
      | some l => rw [ancestorsOfList_cons_some hk]; rfl
      | none =>
        rw [ancestorsOfList_cons_none hk]
        rw [handlesList_cons] at hr
        cases List.mem_append.1 hr with
        | inl e =>
          have := ancestorsOf_isSome k e
          rw [hk] at this; cases this
        | inr e => exact ancestorsOfList_isSome ks e
end

namespace Forest

/-- `n` is an ancestor-or-self of `r` iff `r` lies in the subtree of `n`. -/
theorem ancestors_contains_iff {f : Forest} {r n : Nat} (nd : f.allHandles.Nodup) :
    (f.ancestors r).contains n = true ↔ ∃ u, f.get? n = some u ∧ r ∈ handles u := by
  unfold Forest.ancestors
  rw [Forest.get?_eq]
  unfold Forest.allHandles at nd
  generalize f.roots = rs at nd
  simp only [List.contains_iff_mem]
  induction rs with
  | nil => simp [findList?_nil]
  | cons k rs ih =>
    obtain ⟨n1, n2, n3⟩ := nodup_handlesList_cons nd
    cases hk : ancestorsOf r k with
    | some path =>
      simp only [List.findSome?_cons, hk, Option.getD_some]
      have hrk : r ∈ handles k := by
        apply Classical.byContradiction
        intro hnot
        rw [ancestorsOf_of_not_mem k hnot] at hk; cases hk
      constructor
      · intro hn
        obtain ⟨u, hu, hru⟩ := ancestorsOf_sound k path n1 hk hn
        exact ⟨u, findList?_cons_some hu, hru⟩
      · intro ⟨u, hu, hru⟩
        cases hf : find? n k with
        | some t =>
          rw [findList?_cons_some hf] at hu
          have e' := Option.some.inj hu
          subst e'
          obtain ⟨path', hp', hn'⟩ := ancestorsOf_complete k t n1 hf hru
          rw [hk] at hp'
          have := Option.some.inj hp'
          subst this
          exact hn'
        | none =>
          rw [findList?_cons_none hf] at hu
          have : r ∈ handlesList rs := (findList?_some rs u hu).2 r hru
          exact absurd this (n3 r hrk)
    | none =>
      simp only [List.findSome?_cons, hk]
      rw [ih n2]
      constructor
      · intro ⟨u, hu, hru⟩
        refine ⟨u, ?_, hru⟩
        have : n ∈ handlesList rs := mem_of_findList?_some hu
        have hnk : n ∉ handles k := fun hm => n3 n hm this
        rw [findList?_cons_none (find?_eq_none k hnk)]
        exact hu
      · intro ⟨u, hu, hru⟩
        cases hf : find? n k with
        | some t =>
          rw [findList?_cons_some hf] at hu
          have e' := Option.some.inj hu
          subst e'
          have := ancestorsOf_isSome k ((find?_some k t hf).2 r hru)
          rw [hk] at this; cases this
        | none =>
          rw [findList?_cons_none hf] at hu
          exact ⟨u, hu, hru⟩

end Forest
end XotModel
