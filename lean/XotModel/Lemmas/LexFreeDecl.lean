/-
  XotModel.Lemmas.LexFreeDecl — the XML declaration with any layout (`LDecl`): `parse_declaration`
  of the reference tokenizer reads `LDecl.render` back as `LDecl.token` (up to positions) and stops
  right after `?>`.
-/
import XotModel.Lemmas.LexFreeStep

namespace XotModel.Lex.Free

open XotModel.Lex XotModel.Lex.Stream XotModel.Lex.Canon

/-! ### The rendering with a continuation, right-nested -/

/-- `before = after "val"` followed by `X`. -/
def eqK (L : EqLayout) (val X : Str) : Str :=
  L.before ++ '=' :: (L.after ++ quoteChar L.single :: (val ++ quoteChar L.single :: X))

theorem eq_render_app (L : EqLayout) (val X : Str) : L.render val ++ X = eqK L val X := by
  simp [EqLayout.render, eqK]

/-- The white space in front of `?>` that is still ahead after the `standalone` part. -/
def saEndW (d : LDecl) : Str := match d.standalone with | some _ => d.wEnd | none => []

def saEnd (d : LDecl) (r : Str) : Str := saEndW d ++ '?' :: '>' :: r

/-- The white space after the `encoding` part (or the version). -/
def saLead (d : LDecl) : Str := match d.standalone with | some _ => d.wSa | none => d.wEnd

def saRest (d : LDecl) (r : Str) : Str :=
  match d.standalone with
  | some b => litStandalone ++ eqK d.sEq (yesNo b) (saEnd d r)
  | none => saEnd d r

theorem saPart_app (d : LDecl) (r : Str) : d.saPart ++ r = saLead d ++ saRest d r := by
  unfold LDecl.saPart saLead saRest saEnd saEndW
  cases d.standalone <;> simp [litStandalone, ← eq_render_app]

def encK (d : LDecl) (r : Str) : Str :=
  match d.encoding with
  | some e => d.wEnc ++ (litEncoding ++ eqK d.eEq e (saLead d ++ saRest d r))
  | none => saLead d ++ saRest d r

theorem encPart_app (d : LDecl) (r : Str) : d.encPart ++ r = encK d r := by
  unfold LDecl.encPart encK
  cases d.encoding with
  | none => exact saPart_app d r
  | some e => simp [← eq_render_app, ← saPart_app, litEncoding]

theorem render_app (d : LDecl) (r : Str) :
    d.render ++ r = litXmlDecl ++ (d.w0 ++ (litVersion ++ eqK d.vEq ('1' :: '.' :: d.minor) (encK d r))) := by
  simp [LDecl.render, ← eq_render_app, ← encPart_app, litXmlDecl, litVersion]

/-! ### Pieces -/

/-- `consume_eq` then `consume_quote` on `before = after "`. -/
theorem consumeEq_quote (p : Nat) (L : EqLayout) (val X : Str) (h : L.ok = true) :
    ∃ p', consumeEq ⟨p, eqK L val X⟩ = some ⟨p', quoteChar L.single :: (val ++ quoteChar L.single :: X)⟩ ∧
      consumeQuote ⟨p', quoteChar L.single :: (val ++ quoteChar L.single :: X)⟩ =
        some (quoteChar L.single, ⟨p' + 1, val ++ quoteChar L.single :: X⟩) := by
  simp only [EqLayout.ok, Bool.and_eq_true] at h
  exact ⟨_, consumeEq_ws p h.1 h.2 (Stops.cons _ (quote_not_space _)), consumeQuote_q _ _ _⟩

theorem declSpaces_ws (p : Nat) {w X : Str} (hw : isWs w = true) (hX : Stops isXmlSpace X)
    (h : w ≠ [] ∨ litPiClose.isPrefixOf X = true) :
    declSpaces ⟨p, w ++ X⟩ = some ⟨p + strLen w, X⟩ := by
  by_cases hne : w = []
  · subst hne
    have hp : litPiClose.isPrefixOf X = true := by rcases h with h | h; exact absurd rfl h; exact h
    have hs : startsWithSpace ⟨p, X⟩ = false := by
      cases X with
      | nil => rfl
      | cons c cs => simpa [startsWithSpace] using hX c rfl
    simp [declSpaces, hs, startsWith, hp, strLen]
  · simp [declSpaces, startsWithSpace_ws p hw hne, skipSpaces_ws p hw hX]

theorem saRest_head (d : LDecl) (r : Str) :
    ∃ c cs, saRest d r = c :: cs ∧ (c = 's' ∨ c = '?') ∧
      (d.standalone = none → litPiClose.isPrefixOf (saRest d r) = true) := by
  unfold saRest saEnd saEndW
  cases d.standalone with
  | none => exact ⟨'?', '>' :: r, rfl, .inr rfl, fun _ => by simp [litPiClose]⟩
  | some b => exact ⟨'s', _, rfl, .inl rfl, fun h => by simp at h⟩

theorem saRest_stops (d : LDecl) (r : Str) : Stops isXmlSpace (saRest d r) := by
  obtain ⟨c, cs, h, hc, _⟩ := saRest_head d r
  rw [h]
  rcases hc with rfl | rfl <;> exact Stops.cons _ (by decide)

/-- The white space after the version / the encoding: the local `consume_spaces`. -/
theorem declSpaces_lead (p : Nat) (d : LDecl) (r : Str) (h : d.ok = true) :
    declSpaces ⟨p, saLead d ++ saRest d r⟩ = some ⟨p + strLen (saLead d), saRest d r⟩ := by
  obtain ⟨c, cs, _, _, hpi⟩ := saRest_head d r
  simp only [LDecl.ok, Bool.and_eq_true] at h
  obtain ⟨⟨_, hsa⟩, hwe⟩ := h
  refine declSpaces_ws p ?_ (saRest_stops d r) ?_
  · unfold saLead
    cases hs : d.standalone with
    | none => exact hwe
    | some b => simp only [hs, Bool.and_eq_true] at hsa; exact hsa.1.1
  · unfold saLead
    cases hs : d.standalone with
    | none => exact .inr (hpi hs)
    | some b =>
      simp only [hs, Bool.and_eq_true, Bool.not_eq_true', List.isEmpty_eq_false_iff] at hsa
      exact .inl hsa.1.2

/-- No `encoding` where the `standalone` part or `?>` begins. -/
theorem parseEncodingDecl_none (p : Nat) (d : LDecl) (r : Str) :
    parseEncodingDecl ⟨p, saRest d r⟩ = some (none, ⟨p, saRest d r⟩) := by
  obtain ⟨c, cs, h, hc, _⟩ := saRest_head d r
  rw [h]
  rcases hc with rfl | rfl <;>
    simp [parseEncodingDecl, startsWith, litEncoding, List.isPrefixOf_cons_cons]

theorem isEncChar_quote (b : Bool) : isEncChar (quoteChar b) = false := by cases b <;> decide

theorem parseEncodingDecl_some (p : Nat) (L : EqLayout) (e X : Str) (h : L.ok = true)
    (he : e.all isEncChar = true) :
    ∃ sp p', parseEncodingDecl ⟨p, litEncoding ++ eqK L e X⟩ = some (some sp, ⟨p', X⟩) ∧ sp.text = e := by
  obtain ⟨p1, h1, h2⟩ := consumeEq_quote (p + strLen litEncoding) L e X h
  have hpre : startsWith ⟨p, litEncoding ++ eqK L e X⟩ litEncoding = true := by
    simp only [startsWith]
    rw [List.isPrefixOf_iff_prefix]; exact List.prefix_append _ _
  have hadv : (Stream.mk p (litEncoding ++ eqK L e X)).adv 8 = ⟨p + strLen litEncoding, eqK L e X⟩ :=
    adv_app p litEncoding _ 8 rfl
  have hskip := skipBytes_app (f := isEncChar) (p1 + 1) (a := e) (r := quoteChar L.single :: X) he
    (Stops.cons _ (isEncChar_quote _))
  have key : parseEncodingDecl ⟨p, litEncoding ++ eqK L e X⟩ =
      some (some ⟨e, p1 + 1⟩, ⟨p1 + 1 + strLen e + utf8Len (quoteChar L.single), X⟩) := by
    simp only [parseEncodingDecl, hpre, Bool.not_true, Bool.false_eq_true, if_false, hadv,
      Option.bind_eq_bind, h1, Option.bind_some, h2]
    change (do
      let s5 ← (skipBytes isEncChar ⟨p1 + 1, e ++ quoteChar L.single :: X⟩).consumeByte (quoteChar L.single)
      some (some (sliceBack ⟨p1 + 1, e ++ quoteChar L.single :: X⟩
        (skipBytes isEncChar ⟨p1 + 1, e ++ quoteChar L.single :: X⟩)), s5)) = _
    rw [hskip]
    simp only [consumeByte_self, Option.bind_eq_bind, Option.bind_some]
    rw [sliceBack_eq e rfl]
  exact ⟨_, _, key, rfl⟩

theorem nameOK_yesNo (b : Bool) : nameOK (yesNo b) = true := by cases b <;> decide

theorem parseStandalone_some (p : Nat) (L : EqLayout) (b : Bool) (X : Str) (h : L.ok = true) :
    ∃ p', parseStandalone ⟨p, litStandalone ++ eqK L (yesNo b) X⟩ = some (some b, ⟨p', X⟩) := by
  obtain ⟨p1, h1, h2⟩ := consumeEq_quote (p + strLen litStandalone) L (yesNo b) X h
  have hpre : startsWith ⟨p, litStandalone ++ eqK L (yesNo b) X⟩ litStandalone = true := by
    simp only [startsWith]
    rw [List.isPrefixOf_iff_prefix]; exact List.prefix_append _ _
  have hadv : (Stream.mk p (litStandalone ++ eqK L (yesNo b) X)).adv 10 =
      ⟨p + strLen litStandalone, eqK L (yesNo b) X⟩ := adv_app p litStandalone _ 10 rfl
  have hname := consumeName_app (p1 + 1) (t := yesNo b) (r := quoteChar L.single :: X) (nameOK_yesNo b)
    (Stops.cons _ (quote_not_nameChar _))
  refine ⟨p1 + 1 + strLen (yesNo b) + utf8Len (quoteChar L.single), ?_⟩
  simp only [parseStandalone, hpre, Bool.not_true, Bool.false_eq_true, if_false, hadv,
    Option.bind_eq_bind, h1, Option.bind_some, h2, hname, consumeByte_self]
  cases b <;> simp [yesNo, litYes, litNo]

theorem parseStandalone_none (p : Nat) (r : Str) :
    parseStandalone ⟨p, '?' :: '>' :: r⟩ = some (none, ⟨p, '?' :: '>' :: r⟩) := by
  simp [parseStandalone, startsWith, litStandalone, List.isPrefixOf_cons_cons]

/-- `parse_standalone`, then `skip_spaces` and `?>`. -/
theorem standalone_end (p : Nat) (d : LDecl) (r : Str) (h : d.ok = true) :
    ∃ p1 p2, parseStandalone ⟨p, saRest d r⟩ = some (d.standalone, ⟨p1, saEnd d r⟩) ∧
      (skipSpaces ⟨p1, saEnd d r⟩).skipString litPiClose = some ⟨p2, r⟩ := by
  have hstop : Stops isXmlSpace ('?' :: '>' :: r) := Stops.cons _ (by decide)
  simp only [LDecl.ok, Bool.and_eq_true] at h
  obtain ⟨⟨_, hsa⟩, hwe⟩ := h
  have hend : ∀ p1, ∃ p2, (skipSpaces ⟨p1, saEnd d r⟩).skipString litPiClose = some ⟨p2, r⟩ := by
    intro p1
    have hw : isWs (saEndW d) = true := by
      unfold saEndW
      cases d.standalone with
      | none => rfl
      | some _ => exact hwe
    refine ⟨p1 + strLen (saEndW d) + strLen litPiClose, ?_⟩
    unfold saEnd
    rw [skipSpaces_ws p1 hw hstop, show '?' :: '>' :: r = litPiClose ++ r from rfl, skipString_app]
  cases hs : d.standalone with
  | none =>
    obtain ⟨p2, h2⟩ := hend p
    refine ⟨p, p2, ?_, h2⟩
    simp only [saRest, saEnd, saEndW, hs, List.nil_append]
    exact parseStandalone_none p r
  | some b =>
    simp only [hs, Bool.and_eq_true] at hsa
    obtain ⟨p1, h1⟩ := parseStandalone_some p d.sEq b (saEnd d r) hsa.2
    obtain ⟨p2, h2⟩ := hend p1
    refine ⟨p1, p2, ?_, h2⟩
    simp only [saRest, hs]
    exact h1

theorem isXmlDigit_quote (b : Bool) : isXmlDigit (quoteChar b) = false := by cases b <;> decide

/-- `parse_version_info`. -/
theorem parseVersionInfo_L (p : Nat) (d : LDecl) (X : Str) (h : d.ok = true) :
    ∃ sp p', parseVersionInfo ⟨p, d.w0 ++ (litVersion ++ eqK d.vEq ('1' :: '.' :: d.minor) X)⟩ =
        some (sp, ⟨p', X⟩) ∧ sp.text = '1' :: '.' :: d.minor := by
  simp only [LDecl.ok, Bool.and_eq_true] at h
  obtain ⟨⟨⟨⟨⟨hmin, hw0⟩, hv⟩, _⟩, _⟩, _⟩ := h
  have hst : Stops isXmlSpace (litVersion ++ eqK d.vEq ('1' :: '.' :: d.minor) X) :=
    Stops.cons _ (by decide)
  obtain ⟨p1, h1, h2⟩ := consumeEq_quote (p + strLen d.w0 + strLen litVersion) d.vEq ('1' :: '.' :: d.minor) X hv
  have hdot : skipString litOneDot ⟨p1 + 1, '1' :: '.' :: d.minor ++ quoteChar d.vEq.single :: X⟩ =
      some ⟨p1 + 1 + strLen litOneDot, d.minor ++ quoteChar d.vEq.single :: X⟩ :=
    skipString_app litOneDot (p1 + 1) _
  have hdig := skipBytes_app (f := isXmlDigit) (p1 + 1 + strLen litOneDot) (a := d.minor)
    (r := quoteChar d.vEq.single :: X) hmin (Stops.cons _ (isXmlDigit_quote _))
  have key : parseVersionInfo ⟨p, d.w0 ++ (litVersion ++ eqK d.vEq ('1' :: '.' :: d.minor) X)⟩ =
      some (⟨'1' :: '.' :: d.minor, p1 + 1⟩,
        ⟨p1 + 1 + strLen litOneDot + strLen d.minor + utf8Len (quoteChar d.vEq.single), X⟩) := by
    simp only [parseVersionInfo, Option.bind_eq_bind, skipSpaces_ws p hw0 hst, skipString_app,
      Option.bind_some, h1, h2, hdot, hdig, consumeByte_self]
    rw [sliceBack_eq ('1' :: '.' :: d.minor) (by simp)]
  exact ⟨_, _, key, rfl⟩

/-! ### The declaration -/

theorem parseDeclaration_L (pos : Nat) (d : LDecl) (r : Str) (h : d.ok = true) :
    ∃ t' pos', parseDeclaration ⟨pos, d.render ++ r⟩ = some (t', ⟨pos', r⟩) ∧ t'.erase = d.token.erase := by
  rw [render_app]
  have hadv : (Stream.mk pos (litXmlDecl ++ (d.w0 ++ (litVersion ++
      eqK d.vEq ('1' :: '.' :: d.minor) (encK d r))))).adv 6 =
        ⟨pos + strLen litXmlDecl, d.w0 ++ (litVersion ++ eqK d.vEq ('1' :: '.' :: d.minor) (encK d r))⟩ :=
    adv_app pos litXmlDecl _ 6 rfl
  obtain ⟨vsp, p2, hver, hvt⟩ := parseVersionInfo_L (pos + strLen litXmlDecl) d (encK d r) h
  have hok := h
  simp only [LDecl.ok, Bool.and_eq_true] at hok
  obtain ⟨⟨⟨_, henc⟩, _⟩, _⟩ := hok
  cases he : d.encoding with
  | none =>
    obtain ⟨p6, p7, hsa, hend⟩ := standalone_end (p2 + strLen (saLead d)) d r h
    have key : ∃ sp, parseDeclaration ⟨pos, litXmlDecl ++ (d.w0 ++ (litVersion ++
        eqK d.vEq ('1' :: '.' :: d.minor) (encK d r)))⟩ =
          some (.declaration vsp none d.standalone sp, ⟨p7, r⟩) := by
      simp only [parseDeclaration, Option.bind_eq_bind, hadv, hver, Option.bind_some]
      simp only [encK, he, declSpaces_lead p2 d r h, parseEncodingDecl_none, Option.isSome_none,
        Bool.false_eq_true, if_false, hsa, hend, Option.bind_some]
      exact ⟨_, rfl⟩
    obtain ⟨sp, key⟩ := key
    refine ⟨_, p7, key, ?_⟩
    simp only [Token.erase, LDecl.token, he, Option.map_none, StrSpan.erase, hvt]
  | some e =>
    simp only [he, Bool.and_eq_true, Bool.not_eq_true', List.isEmpty_eq_false_iff] at henc
    obtain ⟨⟨⟨hall, hwenc⟩, hwne⟩, heq⟩ := henc
    have hsp : declSpaces ⟨p2, d.wEnc ++ (litEncoding ++ eqK d.eEq e (saLead d ++ saRest d r))⟩ =
        some ⟨p2 + strLen d.wEnc, litEncoding ++ eqK d.eEq e (saLead d ++ saRest d r)⟩ :=
      declSpaces_ws p2 hwenc (Stops.cons _ (by decide)) (.inl hwne)
    obtain ⟨esp, p4, henc', het⟩ := parseEncodingDecl_some (p2 + strLen d.wEnc) d.eEq e
      (saLead d ++ saRest d r) heq hall
    obtain ⟨p6, p7, hsa, hend⟩ := standalone_end (p4 + strLen (saLead d)) d r h
    have key : ∃ sp, parseDeclaration ⟨pos, litXmlDecl ++ (d.w0 ++ (litVersion ++
        eqK d.vEq ('1' :: '.' :: d.minor) (encK d r)))⟩ =
          some (.declaration vsp (some esp) d.standalone sp, ⟨p7, r⟩) := by
      simp only [parseDeclaration, Option.bind_eq_bind, hadv, hver, Option.bind_some]
      simp only [encK, he, hsp, henc', Option.isSome_some, if_true, declSpaces_lead p4 d r h, hsa, hend,
        Option.bind_some]
      exact ⟨_, rfl⟩
    obtain ⟨sp, key⟩ := key
    refine ⟨_, p7, key, ?_⟩
    simp only [Token.erase, LDecl.token, he, Option.map_some, StrSpan.erase, hvt, het]

end XotModel.Lex.Free
