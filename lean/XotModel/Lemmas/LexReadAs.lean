/-
  XotModel.Lemmas.LexReadAs — the relation between a token as the tokenizer reads it back and the
  token that was written: equal up to byte positions (`Token.erase`), and an absent prefix is
  reported at offset 0, so that `check_qname` (/repo a5fafb0) lets the token pass.
-/
import XotModel.Lemmas.LexCanonDefs
import XotModel.Lemmas.ParseQName

namespace XotModel

/-- What the tokenizer's layout / canonical theorems say of a token read back: the same token up to
    byte positions, and an absent prefix reported at offset 0 (so `check_qname` lets it pass). -/
def Token.ReadAs (t' t : Token) : Prop := t'.erase = t.erase ∧ t'.prefixOk = true

/-- The same for a whole list. -/
def ReadAsList (ts' ts : List Token) : Prop :=
  ts'.map Token.erase = ts.map Token.erase ∧ tokensPrefixOk ts' = true

theorem ReadAsList.cons {t' t : Token} {ts' ts : List Token} (h : t'.ReadAs t) (hs : ReadAsList ts' ts) :
    ReadAsList (t' :: ts') (t :: ts) := by
  refine ⟨by simp [h.1, hs.1], ?_⟩
  simp only [tokensPrefixOk, List.all_cons, Bool.and_eq_true]
  exact ⟨h.2, hs.2⟩

theorem Token.erase_qname_isSome (t : Token) : t.erase.qname.isSome = t.qname.isSome := by
  cases t with
  | elementEnd e sp => cases e <;> rfl
  | _ => rfl

/-- For a token without a qualified name the positions cannot matter. -/
theorem Token.readAs_of_erase {t' t : Token} (h : t'.erase = t.erase) (hq : t.qname = none) :
    t'.ReadAs t := by
  refine ⟨h, Token.prefixOk_of_qname_none ?_⟩
  have := Token.erase_qname_isSome t'
  rw [h, Token.erase_qname_isSome, hq] at this
  cases hq' : t'.qname with
  | none => rfl
  | some x => rw [hq'] at this; cases this

theorem Token.place_readAs (pos : Nat) (t : Token) : (t.place pos).ReadAs t :=
  ⟨Token.place_erase pos t, Token.place_prefixOk pos t⟩

theorem placeTokens_readAs (pos : Nat) (ts : List Token) : ReadAsList (placeTokens pos ts) ts :=
  ⟨placeTokens_erase pos ts, placeTokens_prefixOk ts pos⟩

theorem ReadAsList.nil : ReadAsList [] [] := ⟨rfl, rfl⟩

theorem ReadAsList.append {a' a b' b : List Token} (h1 : ReadAsList a' a) (h2 : ReadAsList b' b) :
    ReadAsList (a' ++ b') (a ++ b) :=
  ⟨by simp [h1.1, h2.1], by rw [tokensPrefixOk_append, h1.2, h2.2]; rfl⟩

end XotModel
