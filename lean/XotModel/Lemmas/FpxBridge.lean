/-
  Fpx, part 2: the node at a path of a root tree IS what the store finds for its handle
  (`fpx_get?_of_at?`, distinct handles), hence the value-kind tests of the forest model (`isElement`)
  can be read off the erased tree the tree-level walks run on.
-/
import XotModel.Lemmas.FinvTrav

namespace XotModel
namespace HTree

theorem fpx_findList?_getElem? (x : Nat) : ∀ (ks : List HTree) (i : Nat) (k s : HTree),
    (handlesList ks).Nodup → ks[i]? = some k → find? x k = some s → findList? x ks = some s
  | [], _, _, _, _, hk, _ => by simp at hk
  | k' :: ks, 0, k, s, _, hk, hf => by
    simp only [List.getElem?_cons_zero, Option.some.injEq] at hk
    subst hk
    simp [findList?, hf]
  | k' :: ks, i + 1, k, s, hnd, hk, hf => by
    simp only [List.getElem?_cons_succ] at hk
    simp only [handlesList, List.nodup_append] at hnd
    have hxk : x ∈ handles k := by
      apply Classical.byContradiction
      intro hn; rw [find?_of_not_mem x k hn] at hf; cases hf
    have hx : x ∈ handlesList ks := ftrav_handles_getElem? ks i k hk x hxk
    have hnone : find? x k' = none :=
      find?_of_not_mem x k' (fun hm => hnd.2.2 x hm x hx rfl)
    simp only [findList?, hnone]
    exact fpx_findList?_getElem? x ks i k s hnd.2.1 hk hf

theorem fpx_nodup_getElem? : ∀ (ks : List HTree) (i : Nat) (k : HTree), ks[i]? = some k →
    (handlesList ks).Nodup → (handles k).Nodup
  | [], _, _, hk, _ => by simp at hk
  | a :: ks, 0, k, hk, hn => by
    simp only [handlesList, List.nodup_append] at hn
    simp only [List.getElem?_cons_zero, Option.some.injEq] at hk; subst hk; exact hn.1
  | a :: ks, i + 1, k, hk, hn => by
    simp only [handlesList, List.nodup_append] at hn
    exact fpx_nodup_getElem? ks i k (by simpa using hk) hn.2.1

/-- With distinct handles, looking up the handle of the node at `p` finds that node. -/
theorem fpx_find?_of_at? : ∀ (p : Path) (r s : HTree), (handles r).Nodup → r.at? p = some s →
    find? s.handle r = some s
  | [], r, s, _, h => by
    simp only [HTree.at?, Option.some.injEq] at h; subst h
    cases r; simp [find?, handle]
  | i :: p, node h' v ks, s, hnd, h => by
    simp only [HTree.at?] at h
    cases hk : ks[i]? with
    | none => rw [hk] at h; cases h
    | some k =>
      rw [hk] at h
      simp only [handles, List.nodup_cons] at hnd
      have hsk : s.handle ∈ handles k := ftrav_handles_at? p k s h _ (ftrav_handle_mem s)
      have hne : ¬ h' = s.handle := by
        intro e; exact hnd.1 (e ▸ ftrav_handles_getElem? ks i k hk _ hsk)
      have := fpx_find?_of_at? p k s (fpx_nodup_getElem? ks i k hk hnd.2) h
      simp only [find?, hne, if_false]
      exact fpx_findList?_getElem? s.handle ks i k s hnd.2 hk this

end HTree

open HTree

namespace Forest

/-- In a forest with distinct handles the node at a path of one of its trees is what `get?` finds for
    its handle. -/
theorem fpx_get?_of_at? {f : Forest} (hn : f.allHandles.Nodup) {r : HTree} (hr : r ∈ f.roots) {p : Path}
    {s : HTree} (hs : r.at? p = some s) : f.get? s.handle = some s := by
  obtain ⟨i, hi⟩ := List.getElem?_of_mem hr
  exact fpx_findList?_getElem? s.handle f.roots i r s hn hi
    (fpx_find?_of_at? p r s (fpx_nodup_getElem? f.roots i r hi hn) hs)

/-- … so `is_element` of that handle is the kind of the erased node. -/
theorem fpx_isElement_of_at? {f : Forest} (hn : f.allHandles.Nodup) {r : HTree} (hr : r ∈ f.roots) {p : Path}
    {h : Nat} {e : Tree} (hh : r.handleAt p = some h) (he : r.erase.at? p = some e) :
    f.isElement h = e.value.isElement := by
  rw [ftrav_handleAt_eq] at hh
  rw [ftrav_at?_erase] at he
  cases hs : r.at? p with
  | none => rw [hs] at hh; cases hh
  | some s =>
    rw [hs] at hh he
    simp only [Option.map_some, Option.some.injEq] at hh he
    subst hh; subst he
    have := fpx_get?_of_at? hn hr hs
    cases s with
    | node sh sv sk =>
      simp only [isElement, value?, this, Option.map_some, HTree.value, erase, Tree.value]
      cases sv.isElement <;> rfl

/-- The root tree and path of a live handle, with the node found there. -/
theorem fpx_located {f : Forest} (hn : f.allHandles.Nodup) {h : Nat} (hl : f.isLive h = true) :
    ∃ r q s, f.rootOf? h = some r ∧ r ∈ f.roots ∧ r.pathOf h = some q ∧ r.at? q = some s ∧ s.handle = h ∧
      f.get? h = some s ∧ r.erase.at? q = some s.erase := by
  obtain ⟨r, h1, h2, q, h3⟩ := rootOf?_of_live hl
  obtain ⟨s, hs, rfl⟩ := ftrav_pathOf_at? _ r q h3
  exact ⟨r, q, s, h1, h2, h3, hs, rfl, fpx_get?_of_at? hn h2 hs, by rw [ftrav_at?_erase, hs]; rfl⟩

end Forest
end XotModel
