/-
  Lemmas for C12, part 15 (locality): xot's manipulation functions leave a separated root alone
  when none of their arguments lies in it; histories of such calls likewise.
-/
import XotModel.Lemmas.FcloneLocal2

namespace XotModel
open HTree

namespace Sep

variable {r : HTree} {f : Forest}

theorem removeConsolidate (s : Sep r f) {prev next : Option Nat}
    (hp : ∀ p, prev = some p → p ∉ handles r) (hn : ∀ n, next = some n → n ∉ handles r) :
    Sep r (f.removeConsolidate prev next).1 := by
  unfold Forest.removeConsolidate
  split
  · exact s
  · cases prev with
    | none => exact s
    | some p =>
      cases next with
      | none => exact s
      | some n =>
        simp only
        cases f.textOf p with
        | none => exact s
        | some ps =>
          cases f.textOf n with
          | none => exact s
          | some ns => exact (s.setValue (hp p rfl) _).spliceOut (hn n rfl)

theorem addConsolidate (s : Sep r f) {node : Nat} {prev next : Option Nat} (hnode : node ∉ handles r)
    (hp : ∀ p, prev = some p → p ∉ handles r) (hn : ∀ n, next = some n → n ∉ handles r) :
    Sep r (f.addConsolidate node prev next).1 := by
  rw [Forest.addConsolidate_eq_old]
  have hp : ∀ p, f.selfPrev node prev = some p → p ∉ handles r := by
    intro p h; unfold Forest.selfPrev at h; split at h
    · exact s.prevSibling_disj hnode h
    · exact hp p h
  have hn : ∀ n, f.selfNext node next = some n → n ∉ handles r := by
    intro p h; unfold Forest.selfNext at h; split at h
    · exact s.nextSibling_disj hnode h
    · exact hn p h
  generalize f.selfPrev node prev = prev at hp
  generalize f.selfNext node next = next at hn
  unfold Forest.addConsolidateOld
  split
  · exact s
  · cases f.textOf node with
    | none => exact s
    | some added =>
      simp only
      cases prev with
      | some p =>
        cases hps : f.textOf p with
        | some ps => simp only [hps]; exact (s.setValue (hp p rfl) _).spliceOut hnode
        | none =>
          simp only [hps]
          cases next with
          | none => exact s
          | some n =>
            simp only
            cases f.textOf n with
            | none => exact s
            | some ns => exact (s.setValue (hn n rfl) _).spliceOut hnode
      | none =>
        simp only
        cases next with
        | none => exact s
        | some n =>
          simp only
          cases f.textOf n with
          | none => exact s
          | some ns => exact (s.setValue (hn n rfl) _).spliceOut hnode

theorem checkedAppend (s : Sep r f) {p c : Nat} (hp : p ∉ handles r) (hc : c ∉ handles r) :
    Sep r (f.checkedAppend p c).1 := by
  unfold Forest.checkedAppend
  split
  · exact s
  · have h := s.cut hc
    cases hcut : f.cut c with
    | mk f' o =>
      rw [hcut] at h
      cases o with
      | none => exact h.1.of_roots rfl
      | some t0 => exact h.1.placeLast hp t0 (h.2 t0 rfl)

theorem checkedPrepend (s : Sep r f) {p c : Nat} (hp : p ∉ handles r) (hc : c ∉ handles r) :
    Sep r (f.checkedPrepend p c).1 := by
  unfold Forest.checkedPrepend
  split
  · exact s
  · have h := s.cut hc
    cases hcut : f.cut c with
    | mk f' o =>
      rw [hcut] at h
      cases o with
      | none => exact h.1.of_roots rfl
      | some t0 => exact h.1.placeFirst hp t0 (h.2 t0 rfl)

theorem checkedInsertAfter (s : Sep r f) {p c : Nat} (hp : p ∉ handles r) (hc : c ∉ handles r) :
    Sep r (f.checkedInsertAfter p c).1 := by
  unfold Forest.checkedInsertAfter
  split
  · exact s
  · split
    · exact s.of_roots rfl
    · have h := s.cut hc
      cases hcut : f.cut c with
      | mk f' o =>
        rw [hcut] at h
        cases o with
        | none => exact h.1.of_roots rfl
        | some t0 => exact h.1.placeAfter hp t0 (h.2 t0 rfl)

theorem checkedInsertBefore (s : Sep r f) {p c : Nat} (hp : p ∉ handles r) (hc : c ∉ handles r) :
    Sep r (f.checkedInsertBefore p c).1 := by
  unfold Forest.checkedInsertBefore
  split
  · exact s
  · split
    · exact s.of_roots rfl
    · have h := s.cut hc
      cases hcut : f.cut c with
      | mk f' o =>
        rw [hcut] at h
        cases o with
        | none => exact h.1.of_roots rfl
        | some t0 => exact h.1.placeBefore hp t0 (h.2 t0 rfl)

/-! #### xot's functions -/

theorem append (s : Sep r f) {p c : Nat} (hp : p ∉ handles r) (hc : c ∉ handles r) :
    Sep r (f.append p c).1 := by
  unfold Forest.append
  split
  · exact s
  · split
    · exact s
    · have s1 := s.removeConsolidate (prev := f.prevSibling c) (next := f.nextSibling c)
        (fun _ h => s.prevSibling_disj hc h) (fun _ h => s.nextSibling_disj hc h)
      generalize f.removeConsolidate (f.prevSibling c) (f.nextSibling c) = rc at s1 ⊢
      obtain ⟨f1, b1⟩ := rc
      simp only at s1 ⊢
      have s2 := s1.addConsolidate (node := c) (prev := f1.lastChild p) (next := none) hc
        (fun _ h => s1.lastChild_disj hp h) (fun _ h => by cases h)
      generalize f1.addConsolidate c (f1.lastChild p) none = ac at s2 ⊢
      obtain ⟨f2, b2⟩ := ac
      simp only at s2 ⊢
      split
      · exact s2
      · have s3 := s2.checkedAppend hp hc
        generalize f2.checkedAppend p c = ca at s3 ⊢
        obtain ⟨f3, b3⟩ := ca
        simp only at s3 ⊢
        split <;> exact s3

theorem firstChild_disj (s : Sep r f) {h l : Nat} (hn : h ∉ handles r) (hl : f.firstChild h = some l) :
    l ∉ handles r := by
  unfold Forest.firstChild at hl
  cases hg : f.get? h with
  | none => simp [hg] at hl
  | some t0 =>
    rw [hg] at hl
    simp only [Option.map_eq_some_iff] at hl
    obtain ⟨k, hk, rfl⟩ := hl
    have hx : k ∈ t0.kids := (List.dropWhile_sublist _).mem (List.mem_of_head? hk)
    intro har
    exact s.get?_disj hn hg _ har (kids_handles_sub t0 k hx _ (fc_handle_mem_handles k))

theorem prependPoint_disj (s : Sep r f) {h l : Nat} (hn : h ∉ handles r) (hl : f.prependPoint h = some l) :
    l ∉ handles r := by
  unfold Forest.prependPoint at hl
  cases hg : f.get? h with
  | none => simp [hg] at hl
  | some t0 =>
    rw [hg] at hl
    simp only [Option.map_eq_some_iff] at hl
    obtain ⟨k, hk, rfl⟩ := hl
    have hx : k ∈ t0.kids := (List.takeWhile_sublist _).mem (List.mem_of_getLast? hk)
    intro har
    exact s.get?_disj hn hg _ har (kids_handles_sub t0 k hx _ (fc_handle_mem_handles k))

theorem tail_ok {f3 : Forest} {b3 : Bool} (s3 : Sep r f3) :
    Sep r (if b3 = true then (f3, Res.ok) else (f3, Res.err XotError.nodeError)).1 := by
  cases b3 <;> exact s3

theorem prepend (s : Sep r f) {p c : Nat} (hp : p ∉ handles r) (hc : c ∉ handles r) :
    Sep r (f.prepend p c).1 := by
  unfold Forest.prepend
  split
  · exact s
  · split
    · exact s
    · have s1 := s.removeConsolidate (prev := f.prevSibling c) (next := f.nextSibling c)
        (fun _ h => s.prevSibling_disj hc h) (fun _ h => s.nextSibling_disj hc h)
      generalize f.removeConsolidate (f.prevSibling c) (f.nextSibling c) = rc at s1 ⊢
      obtain ⟨f1, b1⟩ := rc
      simp only at s1 ⊢
      have s2 := s1.addConsolidate (node := c) (prev := none) (next := f1.firstChild p) hc
        (fun _ h => by cases h) (fun _ h => s1.firstChild_disj hp h)
      generalize f1.addConsolidate c none (f1.firstChild p) = ac at s2 ⊢
      obtain ⟨f2, b2⟩ := ac
      simp only at s2 ⊢
      cases b2 with
      | true => simpa using s2
      | false =>
        simp only [Bool.false_eq_true, if_false]
        cases hpp : f2.prependPoint p with
        | some ip =>
          simp only
          have s3 := s2.checkedInsertAfter (s2.prependPoint_disj hp hpp) hc
          generalize f2.checkedInsertAfter ip c = ca at s3 ⊢
          obtain ⟨f3, b3⟩ := ca
          exact tail_ok s3
        | none =>
          simp only
          have s3 := s2.checkedPrepend hp hc
          generalize f2.checkedPrepend p c = ca at s3 ⊢
          obtain ⟨f3, b3⟩ := ca
          exact tail_ok s3

theorem insertAfter (s : Sep r f) {ref new : Nat} (hr : ref ∉ handles r) (hc : new ∉ handles r) :
    Sep r (f.insertAfter ref new).1 := by
  unfold Forest.insertAfter
  split
  · exact s
  · split
    · exact s
    · split
      · exact s
      · dsimp only
        have s1 := s.removeConsolidate (prev := f.prevSibling new) (next := f.nextSibling new)
          (fun _ h => s.prevSibling_disj hc h) (fun _ h => s.nextSibling_disj hc h)
        generalize f.removeConsolidate (f.prevSibling new) (f.nextSibling new) = rc at s1 ⊢
        obtain ⟨f1, b1⟩ := rc
        simp only at s1 ⊢
        have href : (if (b1 && f.nextSibling new == some ref) = true then (f.prevSibling new).getD ref
            else ref) ∉ handles r := by
          by_cases hcond : (b1 && f.nextSibling new == some ref) = true
          · rw [if_pos hcond]
            cases hps : f.prevSibling new with
            | none => simpa using hr
            | some q => simpa using s.prevSibling_disj hc hps
          · rw [if_neg hcond]; exact hr
        generalize (if (b1 && f.nextSibling new == some ref) = true then (f.prevSibling new).getD ref
            else ref) = ref' at href ⊢
        have s2 := s1.addConsolidate (node := new) (prev := some ref') (next := f1.nextSibling ref') hc
          (fun _ h => by cases h; exact href) (fun _ h => s1.nextSibling_disj href h)
        generalize f1.addConsolidate new (some ref') (f1.nextSibling ref') = ac at s2 ⊢
        obtain ⟨f2, b2⟩ := ac
        simp only at s2 ⊢
        cases b2 with
        | true => simpa using s2
        | false =>
          simp only [Bool.false_eq_true, if_false]
          have s3 := s2.checkedInsertAfter href hc
          generalize f2.checkedInsertAfter ref' new = ca at s3 ⊢
          obtain ⟨f3, b3⟩ := ca
          exact tail_ok s3

theorem insertBefore (s : Sep r f) {ref new : Nat} (hr : ref ∉ handles r) (hc : new ∉ handles r) :
    Sep r (f.insertBefore ref new).1 := by
  unfold Forest.insertBefore
  split
  · exact s
  · split
    · exact s
    · split
      · exact s
      · have s1 := s.removeConsolidate (prev := f.prevSibling new) (next := f.nextSibling new)
          (fun _ h => s.prevSibling_disj hc h) (fun _ h => s.nextSibling_disj hc h)
        generalize f.removeConsolidate (f.prevSibling new) (f.nextSibling new) = rc at s1 ⊢
        obtain ⟨f1, b1⟩ := rc
        simp only at s1 ⊢
        have s2 := s1.addConsolidate (node := new) (prev := f1.prevSibling ref) (next := some ref) hc
          (fun _ h => s1.prevSibling_disj hr h) (fun _ h => by cases h; exact hr)
        generalize f1.addConsolidate new (f1.prevSibling ref) (some ref) = ac at s2 ⊢
        obtain ⟨f2, b2⟩ := ac
        simp only at s2 ⊢
        cases b2 with
        | true => simpa using s2
        | false =>
          simp only [Bool.false_eq_true, if_false]
          have s3 := s2.checkedInsertBefore hr hc
          generalize f2.checkedInsertBefore ref new = ca at s3 ⊢
          obtain ⟨f3, b3⟩ := ca
          exact tail_ok s3

theorem remove (s : Sep r f) {n : Nat} (hn : n ∉ handles r) : Sep r (f.remove n).1 := by
  unfold Forest.remove
  exact (s.dropSubtree hn).removeConsolidate
    (fun _ h => s.prevSibling_disj hn h) (fun _ h => s.nextSibling_disj hn h)

theorem detach (s : Sep r f) {n : Nat} (hn : n ∉ handles r) : Sep r (f.detach n).1 := by
  unfold Forest.detach
  exact (s.detachRaw hn).removeConsolidate
    (fun _ h => s.prevSibling_disj hn h) (fun _ h => s.nextSibling_disj hn h)

theorem setText (s : Sep r f) {n : Nat} (hn : n ∉ handles r) (str : Str) : Sep r (f.setText n str).1 := by
  unfold Forest.setText
  split
  · exact s.setValue hn _
  · exact s

theorem setElementName (s : Sep r f) {n : Nat} (hn : n ∉ handles r) (name : Nat) :
    Sep r (f.setElementName n name).1 := by
  unfold Forest.setElementName
  split
  · exact s.setValue hn _
  · exact s

theorem setComment (s : Sep r f) {n : Nat} (hn : n ∉ handles r) (str : Str) :
    Sep r (f.setComment n str).1 := by
  unfold Forest.setComment
  split
  · split
    · exact s
    · exact s.setValue hn _
  · exact s

theorem setPiData (s : Sep r f) {n : Nat} (hn : n ∉ handles r) (d : Option Str) :
    Sep r (f.setPiData n d).1 := by
  unfold Forest.setPiData
  split
  · exact s.setValue hn _
  · exact s

end Sep
end XotModel
