/-
  Finv (C04), part 28: `remove_insignificant_whitespace`.  The removal loop runs with text
  consolidation switched off, so each `remove` is a plain `remove_subtree` of a text node; in strict
  mode a text node has no text neighbour, so no two text nodes become adjacent.
-/
import XotModel.Lemmas.FinvOps6

namespace XotModel
open HTree

namespace Forest

theorem remove_consOff {g : Forest} (hc : g.consolidation = false) (n : Nat) :
    (g.remove n).1 = g.dropSubtree n := by
  unfold remove removeConsolidate
  have : (g.dropSubtree n).consolidation = false := by
    unfold dropSubtree cut
    cases g.get? n with
    | none => exact hc
    | some t => simp only; split <;> exact hc
  simp [this]

theorem dropSubtree_withCons (g : Forest) (b : Bool) (n : Nat) :
    ({ g with consolidation := b } : Forest).dropSubtree n = { g.dropSubtree n with consolidation := b } := by
  have e1 : ({ g with consolidation := b } : Forest).get? n = g.get? n := rfl
  have e2 : ({ g with consolidation := b } : Forest).isRoot n = g.isRoot n := rfl
  unfold dropSubtree cut
  rw [e1, e2]
  cases g.get? n with
  | none => rfl
  | some t =>
    simp only
    split <;> rfl

theorem foldl_remove_consOff (xs : List Nat) (g : Forest) :
    xs.foldl (fun acc n => (acc.remove n).1) { g with consolidation := false } =
      { xs.foldl (fun acc n => acc.dropSubtree n) g with consolidation := false } := by
  induction xs generalizing g with
  | nil => rfl
  | cons x xs ih =>
    rw [List.foldl_cons, List.foldl_cons, remove_consOff rfl, dropSubtree_withCons, ih]

theorem consolidation_dropSubtree (g : Forest) (n : Nat) : (g.dropSubtree n).consolidation = g.consolidation := by
  unfold dropSubtree cut
  cases g.get? n with
  | none => rfl
  | some t => simp only; split <;> rfl

theorem consolidation_foldl_dropSubtree (xs : List Nat) (g : Forest) :
    (xs.foldl (fun acc n => acc.dropSubtree n) g).consolidation = g.consolidation := by
  induction xs generalizing g with
  | nil => rfl
  | cons x xs ih => rw [List.foldl_cons, ih, consolidation_dropSubtree]

/-- A text node can always be cut: in strict mode its neighbours are not text. -/
theorem cutOK_of_text {g : Forest} (hi : g.Inv) {n : Nat}
    (ht : ∀ v, g.value? n = some v → v.isText = true) : g.CutOK n := by
  intro hoff ctx hctx
  obtain ⟨init, fr, lc, _⟩ := ctx?_some_loc hi.nodup hctx
  have hself := value?_of_ctx_self hi.nodup hctx
  obtain ⟨k1, _⟩ := hi.kids_at lc.eq
  rw [innerValue_snoc] at k1
  have K := (kidsOK_iff _ _ _).mp k1
  have := K.lastText_before_text (by simp [hoff]) (ht _ hself)
  simp [this]

/-- `remove_subtree` does not change the value of what stays. -/
theorem value?_dropSubtree {g : Forest} (hi : g.Inv) (hcut : g.CutOK m) {x : Nat} {v : Value}
    (h : (g.dropSubtree m).value? x = some v) : g.value? x = some v := by
  have hi' := dropSubtree_inv hi hcut
  by_cases hm : m ∈ g.allHandles
  · obtain ⟨path, l, k, r, lc⟩ := exists_loc hm
    rw [value?_eq_some_iff hi'.nodup] at h
    rw [value?_eq_some_iff hi.nodup, lc.eq, mem_hvList_plug]
    unfold dropSubtree at h
    rw [cut_of_loc lc hi.nodup] at h
    simp only at h
    rw [mem_hvList_plug] at h
    rcases h with h | h
    · exact Or.inl h
    · right
      simp only [hvList_append, hvList_cons, List.mem_append] at h ⊢
      rcases h with h | h
      · exact Or.inl h
      · exact Or.inr (Or.inr h)
  · unfold dropSubtree at h
    rw [cut_of_not_mem hm] at h
    exact h

theorem foldl_dropSubtree_text_inv (xs : List Nat) {g : Forest} (hi : g.Inv)
    (ht : ∀ n ∈ xs, ∀ v, g.value? n = some v → v.isText = true) :
    (xs.foldl (fun acc n => acc.dropSubtree n) g).Inv := by
  induction xs generalizing g with
  | nil => exact hi
  | cons x xs ih =>
    rw [List.foldl_cons]
    have hcut := cutOK_of_text hi (ht x (by simp))
    apply ih (dropSubtree_inv hi hcut)
    intro n hn v hv
    exact ht n (by simp [hn]) v (value?_dropSubtree hi hcut hv)

/-- `remove_insignificant_whitespace` preserves the invariant, for every argument. -/
theorem removeInsignificantWhitespace_inv {f : Forest} (hi : f.Inv) (node : Nat) :
    (f.removeInsignificantWhitespace node).Inv := by
  unfold removeInsignificantWhitespace
  cases f.get? node with
  | none => exact hi
  | some t =>
    simp only
    rw [foldl_remove_consOff]
    have key := foldl_dropSubtree_text_inv
      ((descendantsNormal t).filter f.isInsignificantWhitespace) hi (by
        intro n hn v hv
        rw [List.mem_filter] at hn
        have hw := hn.2
        unfold isInsignificantWhitespace at hw
        cases hto : f.textOf n with
        | none => rw [hto] at hw; cases hw
        | some s =>
          rw [textOf_eq_some_iff, hv] at hto
          cases hto; rfl)
    have hc := consolidation_foldl_dropSubtree
      ((descendantsNormal t).filter f.isInsignificantWhitespace) f
    generalize (List.foldl (fun acc n => acc.dropSubtree n) f
      ((descendantsNormal t).filter f.isInsignificantWhitespace)) = g at key hc
    have : ({ ({ g with consolidation := false } : Forest) with consolidation := f.consolidation } : Forest) = g := by
      cases g; simp at hc; simp [hc]
    rw [this]; exact key

end Forest
end XotModel
