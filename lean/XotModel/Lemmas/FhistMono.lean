/-
  Fhist (extended histories), part 4: handles are never re-used along extended histories
  (`Forest.Le`, Lemmas/FinvMono.lean): for every extended call, all forests and all arguments, without
  any invariant, `next` does not decrease and every handle afterwards is an old one or a fresh one.
  Hence `is_removed` is monotone along every extended history.
-/
import XotModel.Lemmas.FhistExt

namespace XotModel
namespace Forest

theorem le_call (f : Forest) (c : Call) : Le f (c.run f).1 := by
  cases c with
  | append p c => exact le_append f p c
  | prepend p c => exact le_prepend f p c
  | insertAfter r n => exact le_insertAfter f r n
  | insertBefore r n => exact le_insertBefore f r n
  | detach n => exact le_detach f n
  | remove n => exact le_remove f n
  | replace a b => exact le_replace f a b
  | elementWrap n name => exact le_elementWrap f n name
  | elementUnwrap n => exact le_elementUnwrap f n
  | cloneNode n => exact le_cloneNode f n
  | anyAppend p c => exact le_anyAppend f p c
  | appendEntryNode k p c => exact le_appendEntryNode f k p c
  | mapInsert k p e => exact le_mapInsert f k p e
  | mapRemove k p key => exact le_mapRemove f k p key
  | mapClear k p => exact le_mapClear f k p
  | setElementName n name => exact le_setElementName f n name
  | setText n s => exact le_setText f n s
  | setComment n s => exact le_setComment f n s
  | setPiData n d => exact le_setPiData f n d
  | textContentSet n s => exact le_textContentSet f n s

theorem le_runCalls : ∀ (cs : List Call) (f : Forest), Le f (f.runCalls cs).1
  | [], f => Le.refl f
  | c :: cs, f => by
    have h1 := le_call f c
    unfold runCalls
    rcases hc : c.run f with ⟨f', r⟩
    rw [hc] at h1
    cases r with
    | ok => exact h1.trans (le_runCalls cs f')
    | err e => exact h1
    | panic => exact h1

theorem le_repairElementF (env : Env) (f : Forest) (node : Nat) : Le f (f.repairElementF env node).1 := by
  unfold repairElementF
  cases f.repairCalls env node with
  | none => exact Le.refl f
  | some ec => exact le_runCalls ec.2 f

theorem le_repairElementsF : ∀ (es : List Nat) (env : Env) (f : Forest), Le f (repairElementsF es env f).1
  | [], _, f => Le.refl f
  | e :: rest, env, f => by
    have h1 := le_repairElementF env f e
    unfold repairElementsF
    rcases hc : f.repairElementF env e with ⟨f', env', r⟩
    rw [hc] at h1
    cases r with
    | ok => exact h1.trans (le_repairElementsF rest env' f')
    | err e => exact h1
    | panic => exact h1

theorem le_createMissingPrefixes (env : Env) (f : Forest) (node : Nat) :
    Le f (f.createMissingPrefixes env node).1 := by
  unfold createMissingPrefixes
  by_cases hd : f.isDocument node = true
  · rw [if_pos hd]
    cases f.get? node with
    | none => exact Le.refl f
    | some t =>
      simp only
      split
      · exact Le.refl f
      · exact le_repairElementsF _ env f
  · rw [if_neg hd]
    split
    · exact Le.refl f
    · exact le_repairElementF env f node

theorem le_dedupLoop (env : Env) (node : Nat) : ∀ (fuel : Nat) (f : Forest), Le f (dedupLoop env node fuel f).1
  | 0, f => Le.refl f
  | fuel + 1, f => by
    unfold dedupLoop
    dsimp only
    split
    · exact Le.refl f
    · have h1 := le_runCalls (f.dedupCalls env node) f
      rcases hc : f.runCalls (f.dedupCalls env node) with ⟨f', r⟩
      rw [hc] at h1
      cases r with
      | ok => exact h1.trans (le_dedupLoop env node fuel f')
      | err e => exact h1
      | panic => exact h1

theorem le_deduplicateNamespaces (env : Env) (f : Forest) (node : Nat) :
    Le f (f.deduplicateNamespaces env node).1 := le_dedupLoop env node _ f

theorem le_addPrefixes : ∀ (order : List (Nat × Nat)) (f : Forest) (c : Nat), Le f (f.addPrefixes c order).1
  | [], f, _ => Le.refl f
  | (p, ns) :: rest, f, c => by
    unfold addPrefixes
    split
    · exact le_addPrefixes rest f c
    · have h1 := le_mapInsert f .namespaces c (.namespace p ns)
      rcases hm : f.mapInsert .namespaces c (.namespace p ns) with ⟨f', r⟩
      rw [hm] at h1
      cases r with
      | ok => exact h1.trans (le_addPrefixes rest f' c)
      | err e => exact h1
      | panic => exact h1

theorem le_cloneWithPrefixes (f : Forest) (node : Nat) (order : List (Nat × Nat)) :
    Le f (f.cloneWithPrefixes node order).1 := by
  have h1 := le_cloneNode f node
  unfold cloneWithPrefixes
  rcases hc : f.cloneNode node with ⟨f1, oc⟩
  rw [hc] at h1
  cases oc with
  | none => exact h1
  | some c =>
    simp only
    split
    · have h2 := le_addPrefixes order f1 c
      rcases ha : f1.addPrefixes c order with ⟨f2, r⟩
      rw [ha] at h2
      cases r <;> exact h1.trans h2
    · exact h1

/-- One extended call, for all stores and arguments, without any invariant. -/
theorem le_xcall (s : Store) (c : XCall) : Le s.forest (c.run s).1.forest := by
  cases c with
  | call c => exact le_call s.forest c
  | newNode v => exact le_newNode s.forest v
  | setConsolidation b => exact le_setConsolidation s.forest b
  | removeInsignificantWhitespace n => exact le_removeInsignificantWhitespace s.forest n
  | createMissingPrefixes n => exact le_createMissingPrefixes s.env s.forest n
  | deduplicateNamespaces n => exact le_deduplicateNamespaces s.env s.forest n
  | cloneWithPrefixes n order => exact le_cloneWithPrefixes s.forest n order

end Forest

namespace Store
open Forest

theorem le_xrun : ∀ (cs : List XCall) (s : Store), Le s.forest (s.xrun cs).forest
  | [], s => Le.refl s.forest
  | c :: cs, s => (le_xcall s c).trans (le_xrun cs (s.xstep c))

end Store
end XotModel
