/-
  FspecNew — the second half of a move: xot's `add_consolidate_text_nodes` and the indextree
  insertion, unfolded by cases; `mergeRuns` is idempotent and only looks at values.
-/
import XotModel.Lemmas.FspecFar

namespace XotModel
open HTree Spec

namespace Forest

theorem addConsolidate_off {f : Forest} (h : f.consolidation = false) (n : Nat) (a b : Option Nat) :
    f.addConsolidate n a b = (f, false) := by
  rw [addConsolidate_eq_old]; exact addConsolidateOld_off h _ _ _

theorem addConsolidate_not_text {f : Forest} {n : Nat} (h : f.textOf n = none) (a b : Option Nat) :
    f.addConsolidate n a b = (f, false) := by
  rw [addConsolidate_eq_old]; exact addConsolidateOld_not_text h _ _

theorem addConsolidate_prev {f : Forest} {n a : Nat} {added ps : Str} (hc : f.consolidation = true)
    (hn : f.textOf n = some added) (ha : f.textOf a = some ps) (b : Option Nat) (hne : a ≠ n) :
    f.addConsolidate n (some a) b = ((f.setValue a (.text (ps ++ added))).spliceOut n, true) := by
  rw [addConsolidate_eq_old, selfPrev_of_ne (by simpa using hne)]
  unfold addConsolidateOld
  simp [hc, hn, ha]

/-- eccbbb7: the previous neighbour handed in is the node itself; the helper takes the node's own
    previous sibling. -/
theorem addConsolidate_prev_self {f : Forest} {n a : Nat} {added ps : Str} (hc : f.consolidation = true)
    (hn : f.textOf n = some added) (hp : f.prevSibling n = some a) (ha : f.textOf a = some ps)
    (b : Option Nat) :
    f.addConsolidate n (some n) b = ((f.setValue a (.text (ps ++ added))).spliceOut n, true) := by
  rw [addConsolidate_eq_old, selfPrev_self, hp]
  unfold addConsolidateOld
  simp [hc, hn, ha]

theorem addConsolidate_next {f : Forest} {n b : Nat} {added ns : Str} {prev : Option Nat}
    (hc : f.consolidation = true) (hn : f.textOf n = some added)
    (hprev : ∀ a, prev = some a → f.textOf a = none) (hb : f.textOf b = some ns) (hne : b ≠ n) :
    f.addConsolidate n prev (some b) = ((f.setValue b (.text (added ++ ns))).spliceOut n, true) := by
  have h1 : prev ≠ some n := fun h => by rw [hprev n h] at hn; cases hn
  rw [addConsolidate_eq_old_of_ne h1 (by simpa using hne)]
  unfold addConsolidateOld
  cases prev with
  | none => simp [hc, hn, hb]
  | some a => simp [hc, hn, hb, hprev a rfl]

theorem addConsolidate_none {f : Forest} {n : Nat} {prev next : Option Nat}
    (hprev : ∀ a, prev = some a → f.textOf a = none) (hnext : ∀ b, next = some b → f.textOf b = none) :
    f.addConsolidate n prev next = (f, false) := by
  cases hn : f.textOf n with
  | none => rw [addConsolidate_eq_old]; exact addConsolidateOld_not_text hn _ _
  | some added =>
    have h1 : prev ≠ some n := fun h => by rw [hprev n h] at hn; cases hn
    have h2 : next ≠ some n := fun h => by rw [hnext n h] at hn; cases hn
    rw [addConsolidate_eq_old_of_ne h1 h2]
    exact addConsolidateOld_nontext_neighbours hprev hnext

/-- `last_child` from the child list. -/
def lastOf (L : List HTree) : Option Nat :=
  match L.getLast? with
  | none => none
  | some k => if k.value.isNormal then some k.handle else none

theorem lastChild_of_get {f : Forest} {p : Nat} {v : Value} {L : List HTree}
    (e : f.get? p = some (.node p v L)) : f.lastChild p = lastOf L := by
  unfold lastChild lastOf
  rw [e]
  simp only [HTree.kids]
  cases L.getLast? <;> rfl

theorem kidsOf_of_get {f : Forest} {p : Nat} {v : Value} {L : List HTree}
    (e : f.get? p = some (.node p v L)) : f.kidsOf p = L := by
  unfold kidsOf; rw [e]; rfl

/-- A successful `checked_append`. -/
theorem checkedAppend_ok {f : Forest} {p c : Nat} {t : HTree} (nd : f.allHandles.Nodup)
    (hg : f.get? c = some t) (hok : (f.checkedAppend p c).2 = true) :
    (f.checkedAppend p c).1 = (f.editAt (f.parent? c) (dropTop c)).editAt (some p) (insertLast t) := by
  unfold checkedAppend at hok ⊢
  split
  · rename_i h; rw [if_pos h] at hok; cases hok
  · rw [cut_any nd hg]
    rfl

theorem append_unfold (f : Forest) (p c : Nat) :
    f.append p c =
      if !f.structureCheck (some p) c then (f, .err .invalidOperation) else
      if f.lastChild p == some c then (f, .ok) else
      let r1 := f.removeConsolidate (f.prevSibling c) (f.nextSibling c)
      let r2 := r1.1.addConsolidate c (r1.1.lastChild p) none
      if r2.2 then (r2.1, .ok) else
      let r3 := r2.1.checkedAppend p c
      if r3.2 then (r3.1, .ok) else (r3.1, .err .nodeError) := rfl

end Forest

/-! ### `mergeRuns` only looks at values; it is idempotent -/

theorem noAdj_map {φ : HTree → HTree} (hφ : KidMap φ) : ∀ L : List HTree,
    noAdjacentText (L.map φ) = noAdjacentText L
  | [] => rfl
  | [a] => rfl
  | a :: b :: rest => by
    rw [List.map_cons, List.map_cons, noAdj_cons_cons, noAdj_cons_cons, hφ.value, hφ.value,
      ← List.map_cons, noAdj_map hφ (b :: rest)]

theorem noAdj_mergeInto (keep : Keep) : ∀ (rest : List HTree) (cur : HTree),
    noAdjacentText (mergeInto keep cur rest) = true ∧
    ∃ h tl, mergeInto keep cur rest = h :: tl ∧ h.value.isText = cur.value.isText
  | [], cur => ⟨rfl, cur, [], rfl, rfl⟩
  | b :: rest, cur => by
    by_cases h : cur.value.isText = true ∧ b.value.isText = true
    · obtain ⟨x, hx⟩ := isText_iff_textData.1 h.1
      obtain ⟨y, hy⟩ := isText_iff_textData.1 h.2
      rw [mergeInto_cons_text (textData_some hx) (textData_some hy)]
      obtain ⟨i1, hd, tl, i2, i3⟩ := noAdj_mergeInto keep rest (join keep cur b x y)
      refine ⟨i1, hd, tl, i2, ?_⟩
      rw [i3, join_value, h.1]; rfl
    · rw [mergeInto_cons_other h]
      obtain ⟨i1, hd, tl, i2, i3⟩ := noAdj_mergeInto keep rest b
      refine ⟨?_, cur, _, rfl, rfl⟩
      rw [i2, noAdj_cons_cons, ← i2, i1, i3]
      cases hc : cur.value.isText <;> cases hb : b.value.isText <;> simp_all

theorem noAdj_mergeRuns (keep : Keep) (L : List HTree) : noAdjacentText (mergeRuns keep L) = true := by
  cases L with
  | nil => rfl
  | cons a rest => exact (noAdj_mergeInto keep rest a).1

theorem mergeRuns_idem (keep : Keep) (L : List HTree) : mergeRuns keep (mergeRuns keep L) = mergeRuns keep L :=
  mergeRuns_id keep (noAdj_mergeRuns keep L)

end XotModel
