/-
  FspecReplSpec — C05 for `replace`, the edit algebra behind it (no model function involved):
  three identities between specification functions.

    S1  `specMove_after_drop`   : drop `a`, then move `b` after `a`'s previous sibling = `specReplace a b`
    S2  `specMove_first_drop`   : drop `a` (a first normal child), then move `b` to the first normal
                                  place of the parent                               = `specReplace a b`
    S3  `specReplace_adjacent`  : `b` stands directly before / after `a`: `specReplace a b = specRemove a`

  Both insertions are treated through one abstraction (`repl_core`): a list function `ins` and a
  shape `Sh` of child lists with `ins (dropTop a L') = replaceTop a (fun _ => [t]) L'` on every
  list of that shape, the shape being stable under handle/value-preserving maps and under
  `dropTop b`; then the three geometries of `b` (parentless, child of another node, child of
  the same node) are handled once.
-/
import XotModel.Lemmas.FspecRepl2

namespace XotModel
open HTree Spec

/-! ### Lists -/

theorem dropTop_comm (a b : Nat) : ∀ L : List HTree, dropTop a (dropTop b L) = dropTop b (dropTop a L)
  | [] => rfl
  | k :: ks => by
    by_cases ha : k.handle = a
    · by_cases hb : k.handle = b
      · rw [dropTop_cons b, if_pos hb, dropTop_cons a, if_pos ha, dropTop_comm a b ks]
      · rw [dropTop_cons b, if_neg hb, dropTop_cons a, if_pos ha, dropTop_cons a, if_pos ha, dropTop_comm a b ks]
    · by_cases hb : k.handle = b
      · rw [dropTop_cons b, if_pos hb, dropTop_cons a, if_neg ha, dropTop_cons b, if_pos hb, dropTop_comm a b ks]
      · rw [dropTop_cons b, if_neg hb, dropTop_cons a, if_neg ha, dropTop_cons a, if_neg ha, dropTop_cons b,
          if_neg hb, dropTop_comm a b ks]

theorem mem_of_mem_dropTop {n : Nat} {L : List HTree} {k : HTree} (h : k ∈ dropTop n L) : k ∈ L := by
  rw [dropTop_eq_filter] at h
  exact (List.mem_filter.1 h).1

theorem mem_dropTop_of_ne {n : Nat} {L : List HTree} {k : HTree} (h : k ∈ L) (hne : k.handle ≠ n) :
    k ∈ dropTop n L := by
  rw [dropTop_eq_filter]
  exact List.mem_filter.2 ⟨h, by simpa using hne⟩

/-- The child list `l' ++ P :: A :: r'`: the replaced node `a` directly after `p`. -/
def ShapeAfter (p a : Nat) (L : List HTree) : Prop :=
  ∃ l' P A' r', L = l' ++ P :: A' :: r' ∧ P.handle = p ∧ A'.handle = a ∧ p ≠ a ∧
    (∀ k ∈ l', k.handle ≠ p) ∧ (∀ k ∈ l', k.handle ≠ a) ∧ (∀ k ∈ r', k.handle ≠ a)

theorem ShapeAfter.ins {p a : Nat} {L : List HTree} (t : HTree) (h : ShapeAfter p a L) :
    insertAfterTop p t (dropTop a L) = replaceTop a (fun _ => [t]) L := by
  obtain ⟨l', P, A', r', e, hP, hA, hpa, l1, l2, r2⟩ := h
  subst e hP
  have hl : ∀ k ∈ l' ++ [P], k.handle ≠ a := by
    intro k hk
    cases List.mem_append.1 hk with
    | inl h => exact l2 k h
    | inr h =>
      have : k = P := by simpa using h
      rw [this]; exact hpa
  have e1 : l' ++ P :: A' :: r' = (l' ++ [P]) ++ A' :: r' := by simp
  rw [e1, dropTop_mid hA hl r2, replaceTop_mid hA hl]
  have e2 : (l' ++ [P]) ++ r' = l' ++ P :: r' := by simp
  rw [e2, insertAfterTop_mid t l1]
  simp

theorem ShapeAfter.map {p a : Nat} {L : List HTree} {φ : HTree → HTree} (hφ : KidMap φ) (h : ShapeAfter p a L) :
    ShapeAfter p a (L.map φ) := by
  obtain ⟨l', P, A', r', e, hP, hA, hpa, l1, l2, r2⟩ := h
  refine ⟨l'.map φ, φ P, φ A', r'.map φ, by rw [e]; simp, by rw [hφ.handle, hP], by rw [hφ.handle, hA], hpa,
    ?_, ?_, ?_⟩
  · intro k hk
    obtain ⟨k', hk', e'⟩ := List.mem_map.1 hk
    rw [← e', hφ.handle]; exact l1 k' hk'
  · intro k hk
    obtain ⟨k', hk', e'⟩ := List.mem_map.1 hk
    rw [← e', hφ.handle]; exact l2 k' hk'
  · intro k hk
    obtain ⟨k', hk', e'⟩ := List.mem_map.1 hk
    rw [← e', hφ.handle]; exact r2 k' hk'

theorem ShapeAfter.drop {p a b : Nat} {L : List HTree} (hbp : p ≠ b) (hba : a ≠ b) (h : ShapeAfter p a L) :
    ShapeAfter p a (dropTop b L) := by
  obtain ⟨l', P, A', r', e, hP, hA, hpa, l1, l2, r2⟩ := h
  refine ⟨dropTop b l', P, A', dropTop b r', ?_, hP, hA, hpa, fun k hk => l1 k (mem_of_mem_dropTop hk),
    fun k hk => l2 k (mem_of_mem_dropTop hk), fun k hk => r2 k (mem_of_mem_dropTop hk)⟩
  rw [e, dropTop_append, dropTop_cons, if_neg (by rw [hP]; exact hbp), dropTop_cons,
    if_neg (by rw [hA]; exact hba)]

/-- The child list `l' ++ A :: r'`: attribute / namespace nodes, then the replaced node `a`, then
    normal nodes only. -/
def ShapeFirst (a : Nat) (L : List HTree) : Prop :=
  ∃ l' A' r', L = l' ++ A' :: r' ∧ A'.handle = a ∧
    (∀ k ∈ l', k.handle ≠ a) ∧ (∀ k ∈ r', k.handle ≠ a) ∧
    (∀ k ∈ l', k.value.isNormal = false) ∧ (∀ k ∈ r', k.value.isNormal = true)

theorem repl_insertFirstNormal_split (t : HTree) : ∀ (l' r' : List HTree),
    (∀ k ∈ l', k.value.isNormal = false) → (∀ k ∈ r', k.value.isNormal = true) →
    insertFirstNormal t (l' ++ r') = l' ++ t :: r'
  | [], [] => fun _ _ => rfl
  | [], k :: r' => by
    intro _ hr
    simp only [List.nil_append, insertFirstNormal]
    rw [if_pos (hr k List.mem_cons_self)]
  | k :: l', r' => by
    intro hl hr
    simp only [List.cons_append, insertFirstNormal]
    rw [if_neg (by rw [hl k List.mem_cons_self]; exact Bool.false_ne_true),
      repl_insertFirstNormal_split t l' r' (fun k' hk' => hl k' (List.mem_cons_of_mem _ hk')) hr]

theorem ShapeFirst.ins {a : Nat} {L : List HTree} (t : HTree) (h : ShapeFirst a L) :
    insertFirstNormal t (dropTop a L) = replaceTop a (fun _ => [t]) L := by
  obtain ⟨l', A', r', e, hA, l2, r2, ln, rn⟩ := h
  subst e
  rw [dropTop_mid hA l2 r2, replaceTop_mid hA l2, repl_insertFirstNormal_split t l' r' ln rn]
  simp

theorem ShapeFirst.map {a : Nat} {L : List HTree} {φ : HTree → HTree} (hφ : KidMap φ) (h : ShapeFirst a L) :
    ShapeFirst a (L.map φ) := by
  obtain ⟨l', A', r', e, hA, l2, r2, ln, rn⟩ := h
  refine ⟨l'.map φ, φ A', r'.map φ, by rw [e]; simp, by rw [hφ.handle, hA], ?_, ?_, ?_, ?_⟩
  · intro k hk
    obtain ⟨k', hk', e'⟩ := List.mem_map.1 hk
    rw [← e', hφ.handle]; exact l2 k' hk'
  · intro k hk
    obtain ⟨k', hk', e'⟩ := List.mem_map.1 hk
    rw [← e', hφ.handle]; exact r2 k' hk'
  · intro k hk
    obtain ⟨k', hk', e'⟩ := List.mem_map.1 hk
    rw [← e', hφ.value]; exact ln k' hk'
  · intro k hk
    obtain ⟨k', hk', e'⟩ := List.mem_map.1 hk
    rw [← e', hφ.value]; exact rn k' hk'

theorem ShapeFirst.drop {a b : Nat} {L : List HTree} (hba : a ≠ b) (h : ShapeFirst a L) :
    ShapeFirst a (dropTop b L) := by
  obtain ⟨l', A', r', e, hA, l2, r2, ln, rn⟩ := h
  refine ⟨dropTop b l', A', dropTop b r', ?_, hA, fun k hk => l2 k (mem_of_mem_dropTop hk),
    fun k hk => r2 k (mem_of_mem_dropTop hk), fun k hk => ln k (mem_of_mem_dropTop hk),
    fun k hk => rn k (mem_of_mem_dropTop hk)⟩
  rw [e, dropTop_append, dropTop_cons, if_neg (by rw [hA]; exact hba)]

/-! ### The three geometries, once -/

/-- Dropping `a` at `q`, dropping `b` at its own site and inserting `t` at `q` with `ins` is
    dropping `b` and replacing `a` by `t`, whenever `ins ∘ dropTop a` is that replacement on the
    child lists of a shape that survives edits below and the departure of `b`. -/
theorem repl_core {f : Forest} {a b q : Nat} {vq : Value} {L : List HTree} {t : HTree}
    (sq : SiteAt f q vq L) (hgb : f.get? b = some t) (hqt : q ∉ handles t)
    (Sh : List HTree → Prop) (ins : List HTree → List HTree)
    (hins : ∀ L', Sh L' → ins (dropTop a L') = replaceTop a (fun _ => [t]) L')
    (hmap : ∀ φ, KidMap φ → ∀ L', Sh L' → Sh (L'.map φ))
    (hdrop : ∀ L', Sh L' → Sh (dropTop b L'))
    (hL : Sh L) :
    ((f.editAt (some q) (dropTop a)).editAt (f.parent? b) (dropTop b)).editAt (some q) ins =
      (f.editAt (f.parent? b) (dropTop b)).editAt (some q) (replaceTop a (fun _ => [t])) := by
  have nd := sq.nd
  cases hctx : f.ctx? b with
  | none =>
    rw [Forest.parent?_of_no_ctx hctx, Forest.editAt_none_comm, Forest.editAt_editAt]
    exact (sq.dropRoot hgb hqt).congr (hins L hL)
  | some cx =>
    obtain ⟨e0, vo, so⟩ := SiteAt.of_ctx nd hctx
    have hself : cx.self = t := by
      have := Forest.get?_of_ctx nd hctx
      rw [hgb] at this
      exact (Option.some.inj this).symm
    rw [Forest.parent?_of_ctx hctx]
    by_cases hpo : cx.parent = q
    · rw [hpo, Forest.editAt_editAt, Forest.editAt_editAt, Forest.editAt_editAt]
      apply sq.congr
      simp only [Function.comp]
      rw [dropTop_comm b a, hins _ (hdrop L hL)]
    · have hkm := kidMap_editAt cx.parent (dropTop b)
      rw [Forest.editAt_comm f hpo (natFor_dropTop (kidMap_editAt q (dropTop a)) b) (natFor_dropTop hkm a),
        Forest.editAt_editAt]
      have s0 : SiteAt (f.editAt (some cx.parent) (dropTop b)) q vq (L.map (HTree.editAt cx.parent (dropTop b))) := by
        apply so.other sq.kids (fun e => hpo e.symm) (dropTop b) (handlesList_dropTop_sublist b _)
        apply findList?_dropTop
        intro k hk hkb
        have hk' : k = cx.self := by
          obtain ⟨ndL, _⟩ := so.nodupKids
          obtain ⟨tl, tr⟩ := tops_ne_of_nodup ndL
          cases List.mem_append.1 hk with
          | inl h => exact absurd (hkb.trans e0.symm) (tl k h)
          | inr h =>
            cases List.mem_cons.1 h with
            | inl h => exact h
            | inr h => exact absurd (hkb.trans e0.symm) (tr k h)
        rw [hk', hself]; exact hqt
      exact s0.congr (hins _ (hmap _ hkm L hL))

theorem Forest.mergeAt_idem (X : Forest) (keep : Keep) (s : Option Nat) :
    (X.mergeAt keep s).mergeAt keep s = X.mergeAt keep s := by
  cases s with
  | none => rfl
  | some p =>
    rcases Bool.eq_false_or_eq_true X.consolidation with hc | hc
    · rw [mergeAt_on hc, mergeAt_on (by rw [Forest.editAt_consolidation]; exact hc), Forest.editAt_editAt,
        mergeRuns_comp_idem]
    · rw [mergeAt_off hc, mergeAt_off hc]

/-! ### The forest after `remove_subtree(a)` -/

/-- The child of `po` lies in every subtree `po` lies in. -/
theorem child_inside {Z : Forest} {x : Nat} {u : HTree} {po : Nat} {vo : Value} {cl : List HTree} {w : HTree}
    {cr : List HTree} (hgx : Z.get? x = some u) (so : SiteAt Z po vo (cl ++ w :: cr)) (hin : po ∈ handles u) :
    w.handle ∈ handles u := by
  have e1 : find? po u = some (.node po vo (cl ++ w :: cr)) := by
    rw [← findList?_inside Z.roots u so.nd hgx hin, ← Forest.get?_eq]; exact so.kids
  apply (find?_sublist u _ e1).subset
  rw [handles_node]
  exact List.mem_cons_of_mem _ (handle_mem_handlesList (List.mem_append_right _ List.mem_cons_self))

theorem isNormal_iff {v : Value} : v.isNormal = true ↔ v.category = .normal := by
  simp [Value.isNormal]

namespace ReplArgs
variable {f : Forest} {a b q : Nat} {vq : Value} {l : List HTree} {A : HTree} {r : List HTree} {t : HTree}

theorem tops (h : ReplArgs f a b q vq l A r t) : (∀ k ∈ l, k.handle ≠ a) ∧ (∀ k ∈ r, k.handle ≠ a) := by
  obtain ⟨ndL, _⟩ := h.sq.nodupKids
  have := tops_ne_of_nodup ndL
  rw [h.ha] at this
  exact this

theorem hbq (h : ReplArgs f a b q vq l A r t) : b ≠ q := by
  intro e
  apply h.hqt
  rw [← e, ← h.hb]
  exact fs_handle_mem_handles t

/-- The child of `q` that carries the handle `a` is `A`. -/
theorem kid_a (h : ReplArgs f a b q vq l A r t) {k : HTree} (hk : k ∈ l ++ A :: r) (hka : k.handle = a) : k = A := by
  cases List.mem_append.1 hk with
  | inl h' => exact absurd hka (h.tops.1 k h')
  | inr h' =>
    cases List.mem_cons.1 h' with
    | inl h' => exact h'
    | inr h' => exact absurd hka (h.tops.2 k h')

/-- A child of `q` that carries the handle `b` is `t`. -/
theorem kid_b (h : ReplArgs f a b q vq l A r t) {k : HTree} (hk : k ∈ l ++ A :: r) (hkb : k.handle = b) : k = t := by
  obtain ⟨X, Y, e⟩ := List.append_of_mem hk
  have s' : SiteAt f q vq (X ++ k :: Y) := e ▸ h.sq
  have := s'.getKid
  rw [hkb, h.hgb] at this
  exact (Option.some.inj this).symm

theorem cat (h : ReplArgs f a b q vq l A r t) : t.value.category = A.value.category := by
  rw [isNormal_iff.1 h.htn, isNormal_iff.1 h.hAn]

theorem site1 (h : ReplArgs f a b q vq l A r t) : SiteAt (f.editAt (some q) (dropTop a)) q vq (l ++ r) := by
  have := h.sq.edit (dropTop a) (handlesList_dropTop_sublist a _)
  rw [dropTop_mid h.ha h.tops.1 h.tops.2] at this
  exact this

theorem get1 (h : ReplArgs f a b q vq l A r t) : (f.editAt (some q) (dropTop a)).get? b = some t := by
  rw [Forest.get?_editAt_other h.hbq h.sq.nd (by
    intro v' L' e
    rw [h.sq.kids] at e
    have e' := Option.some.inj e
    injection e' with _ _ e3
    subst e3
    apply findList?_dropTop
    intro k hk hka
    rw [h.kid_a hk hka]
    exact h.hbA), h.hgb]
  simp only [Option.map_some]
  rw [editAt_of_not_mem t h.hqt]

theorem parent1 (h : ReplArgs f a b q vq l A r t) :
    (f.editAt (some q) (dropTop a)).parent? b = f.parent? b := by
  have nd := h.sq.nd
  have s1 := h.site1
  cases hctx : f.ctx? b with
  | none =>
    rw [Forest.parent?_of_no_ctx hctx]
    apply Forest.parent?_of_no_ctx
    apply Forest.ctx_none_of_root s1.nd
    have hr : f.isRoot b = true := by
      rcases Forest.root_or_ctx h.hgb with h' | ⟨cx, h'⟩
      · exact h'
      · rw [hctx] at h'; cases h'
    unfold Forest.isRoot at hr ⊢
    rw [Forest.editAt_some_roots, List.any_map]
    simpa [Function.comp, editAt_handle] using hr
  | some cx =>
    obtain ⟨e0, vo, so⟩ := SiteAt.of_ctx nd hctx
    rw [Forest.parent?_of_ctx hctx]
    by_cases hpo : cx.parent = q
    · have eL : l ++ A :: r = cx.left ++ cx.self :: cx.right := by
        have e1 := so.kids
        rw [hpo, h.sq.kids] at e1
        injection (Option.some.inj e1)
      have hmem : cx.self ∈ l ++ r := by
        have : cx.self ∈ dropTop a (l ++ A :: r) := by
          apply mem_dropTop_of_ne
          · rw [eL]; exact List.mem_append_right _ List.mem_cons_self
          · rw [e0]; exact fun e => h.hab e.symm
        rw [dropTop_mid h.ha h.tops.1 h.tops.2] at this
        exact this
      obtain ⟨X, Y, e⟩ := List.append_of_mem hmem
      have s' : SiteAt (f.editAt (some q) (dropTop a)) q vq (X ++ cx.self :: Y) := e ▸ s1
      have := Forest.parent?_of_ctx s'.ctx
      rw [e0] at this
      rw [this, hpo]
    · have s' := h.sq.other so.kids hpo (dropTop a) (handlesList_dropTop_sublist a _) (by
        apply findList?_dropTop
        intro k hk hka hin
        rw [h.kid_a hk hka] at hin
        have := child_inside h.live_a so hin
        rw [e0] at this
        exact h.hbA this)
      rw [List.map_append, List.map_cons] at s'
      have := s'.ctx
      rw [editAt_handle, e0] at this
      rw [Forest.parent?_of_ctx this]

/-- If the right neighbour of `a` carries the handle `b`, it is the next sibling. -/
theorem nextOf_head (h : ReplArgs f a b q vq l A r t) {R : HTree} {r2 : List HTree} (er : r = R :: r2)
    (hR : R.handle = b) : nextOf r A = some b := by
  have : R = t := h.kid_b (by rw [er]; simp) hR
  subst er
  subst this
  simp [nextOf, h.cat, hR]

end ReplArgs

/-! ### S1: the replaced node has a previous sibling -/

set_option linter.unusedVariables false in
theorem specMove_after_drop {f : Forest} {a b q : Nat} {vq : Value} {l : List HTree} {A : HTree} {r : List HTree}
    {t : HTree} (keep : Keep) (inv : f.Inv) (ra : ReplArgs f a b q vq l A r t) {p : Nat}
    (hp : prevOf l A = some p) (h1 : prevOf l A ≠ some b) (h2 : nextOf r A ≠ some b) :
    specMove keep (.after p) b (f.editAt (some q) (dropTop a)) = specReplace keep a b f := by
  have hpb : p ≠ b := fun e => h1 (by rw [hp, e])
  obtain ⟨l2, P, el, hP, _⟩ := prevOf_eq_some hp
  subst el
  have s1 : SiteAt (f.editAt (some q) (dropTop a)) q vq (l2 ++ P :: r) := by
    have := ra.site1
    rw [List.append_assoc] at this
    exact this
  have hctxp : (f.editAt (some q) (dropTop a)).ctx? p = some ⟨q, l2, P, r⟩ := hP ▸ s1.ctx
  have hocc : (Dest.after p).occupiedBy (f.editAt (some q) (dropTop a)) b = false := by
    simp only [Dest.occupiedBy, hctxp]
    cases r with
    | nil => rfl
    | cons R r2 =>
      by_cases hR : R.handle = b
      · exact absurd (ra.nextOf_head rfl hR) h2
      · simp [hR]
  have hsite : Dest.site (f.editAt (some q) (dropTop a)) (.after p) = some q := Forest.parent?_of_ctx hctxp
  -- the shape of the child list of `q`
  obtain ⟨ndL, _⟩ := ra.sq.nodupKids
  have hshape : ShapeAfter p a ((l2 ++ [P]) ++ A :: r) := by
    have e1 : (l2 ++ [P]) ++ A :: r = l2 ++ P :: (A :: r) := by simp
    rw [e1] at ndL
    obtain ⟨tl, _⟩ := tops_ne_of_nodup ndL
    refine ⟨l2, P, A, r, e1, hP, ra.ha, ?_, fun k hk => hP ▸ tl k hk,
      fun k hk => ra.tops.1 k (List.mem_append_left _ hk), ra.tops.2⟩
    rw [← hP]
    exact ra.tops.1 P (List.mem_append_right _ List.mem_cons_self)
  have core := repl_core (a := a) ra.sq ra.hgb ra.hqt (ShapeAfter p a) (insertAfterTop p t)
    (fun _ h => h.ins t) (fun _ hφ _ h => h.map hφ) (fun _ h => h.drop hpb ra.hab) hshape
  rw [specMove_unfold hocc ra.get1 hsite, ra.parent1]
  unfold specReplace
  rw [ra.hgb, Forest.parent?_of_ctx ra.ctx_a]
  simp only [Dest.insert]
  rw [core]

/-! ### S2: the replaced node is the first normal child -/

/-- Without a previous sibling, a normal child of an ordered child list is preceded by attribute
    and namespace nodes only and followed by normal nodes only. -/
theorem ordered_first {l : List HTree} {A : HTree} {r : List HTree} (hord : kidsOrdered (l ++ A :: r) = true)
    (hAn : A.value.isNormal = true) (hp : prevOf l A = none) :
    (∀ k ∈ l, k.value.isNormal = false) ∧ (∀ k ∈ r, k.value.isNormal = true) := by
  have hA2 : A.value.category.rank = 2 := rank_normal.2 (isNormal_iff.1 hAn)
  constructor
  · intro k hk
    cases hkn : k.value.isNormal with
    | false => rfl
    | true =>
      exfalso
      have hk2 : k.value.category.rank = 2 := rank_normal.2 (isNormal_iff.1 hkn)
      cases hl : l.getLast? with
      | none =>
        rw [List.getLast?_eq_none_iff.1 hl] at hk
        cases hk
      | some X =>
        obtain ⟨l2, el⟩ := List.getLast?_eq_some_iff.1 hl
        have hXc : X.value.category ≠ A.value.category := by
          intro e
          simp [prevOf, hl, e] at hp
        have hX2 : X.value.category.rank = 2 := by
          subst el
          cases List.mem_append.1 hk with
          | inr h =>
            have : k = X := by simpa using h
            rw [← this]; exact hk2
          | inl h =>
            obtain ⟨u, w, e⟩ := List.append_of_mem h
            subst e
            have e1 : ((u ++ k :: w) ++ [X]) ++ A :: r = u ++ k :: (w ++ X :: A :: r) := by simp
            rw [e1] at hord
            have := kidsOrdered_rank_le _ (kidsOrdered_drop u hord) X (by simp)
            rw [hk2] at this
            exact Nat.le_antisymm (rank_le_two _) this
        exact hXc ((rank_normal.1 hX2).trans (isNormal_iff.1 hAn).symm)
  · intro k hk
    have := kidsOrdered_rank_le _ (kidsOrdered_drop l hord) k hk
    rw [hA2] at this
    exact isNormal_iff.2 (rank_normal.1 (Nat.le_antisymm (rank_le_two _) this))

theorem specMove_first_drop {f : Forest} {a b q : Nat} {vq : Value} {l : List HTree} {A : HTree} {r : List HTree}
    {t : HTree} (keep : Keep) (inv : f.Inv) (ra : ReplArgs f a b q vq l A r t)
    (hp : prevOf l A = none) (h2 : nextOf r A ≠ some b) :
    specMove keep (.firstNormalChildOf q) b (f.editAt (some q) (dropTop a)) = specReplace keep a b f := by
  have hord : kidsOrdered (l ++ A :: r) = true := (validTree_node (ra.sq.valid inv.valid)).2.1
  obtain ⟨ln, rn⟩ := ordered_first hord ra.hAn hp
  have s1 := ra.site1
  have hocc : (Dest.firstNormalChildOf q).occupiedBy (f.editAt (some q) (dropTop a)) b = false := by
    simp only [Dest.occupiedBy, Forest.kidsOf_of_get s1.kids]
    rw [List.dropWhile_append_of_pos (by intro k hk; simp [ln k hk])]
    cases r with
    | nil => rfl
    | cons R r2 =>
      rw [List.dropWhile_cons_of_neg (by simp [rn R List.mem_cons_self])]
      by_cases hR : R.handle = b
      · exact absurd (ra.nextOf_head rfl hR) h2
      · simp [hR]
  have hsite : Dest.site (f.editAt (some q) (dropTop a)) (.firstNormalChildOf q) = some q := by
    simp only [Dest.site, Forest.isLive_of_get s1.kids, if_true]
  have hshape : ShapeFirst a (l ++ A :: r) := ⟨l, A, r, rfl, ra.ha, ra.tops.1, ra.tops.2, ln, rn⟩
  have core := repl_core (a := a) ra.sq ra.hgb ra.hqt (ShapeFirst a) (insertFirstNormal t)
    (fun _ h => h.ins t) (fun _ hφ _ h => h.map hφ) (fun _ h => h.drop ra.hab) hshape
  rw [specMove_unfold hocc ra.get1 hsite, ra.parent1]
  unfold specReplace
  rw [ra.hgb, Forest.parent?_of_ctx ra.ctx_a]
  simp only [Dest.insert]
  rw [core]

/-! ### S3: the replacing node stands next to the replaced one -/

theorem ReplArgs.adjacent {f : Forest} {a b q : Nat} {vq : Value} {l : List HTree} {A : HTree} {r : List HTree}
    {t : HTree} (ra : ReplArgs f a b q vq l A r t) (hadj : prevOf l A = some b ∨ nextOf r A = some b) :
    f.parent? b = some q ∧
      replaceTop a (fun _ => [t]) (dropTop b (l ++ A :: r)) = dropTop a (l ++ A :: r) := by
  obtain ⟨ndL, _⟩ := ra.sq.nodupKids
  have hba : b ≠ a := fun e => ra.hab e.symm
  rcases hadj with h | h
  · obtain ⟨l2, B, el, hB, _⟩ := prevOf_eq_some h
    subst el
    have hBt : B = t := ra.kid_b (by simp) hB
    subst hBt
    have e1 : (l2 ++ [B]) ++ A :: r = l2 ++ B :: (A :: r) := by simp
    have s' : SiteAt f q vq (l2 ++ B :: (A :: r)) := e1 ▸ ra.sq
    constructor
    · have := Forest.parent?_of_ctx s'.ctx
      rw [hB] at this
      exact this
    · have hl2a : ∀ k ∈ l2, k.handle ≠ a := fun k hk => ra.tops.1 k (List.mem_append_left _ hk)
      rw [dropTop_mid ra.ha ra.tops.1 ra.tops.2, e1]
      rw [e1] at ndL
      obtain ⟨tl, tr⟩ := tops_ne_of_nodup ndL
      rw [hB] at tl tr
      rw [dropTop_mid hB tl tr, replaceTop_mid ra.ha hl2a]
  · obtain ⟨R, r2, er, hR, _⟩ := nextOf_eq_some h
    subst er
    have hRt : R = t := ra.kid_b (by simp) hR
    subst hRt
    have e1 : l ++ A :: R :: r2 = (l ++ [A]) ++ R :: r2 := by simp
    have s' : SiteAt f q vq ((l ++ [A]) ++ R :: r2) := e1 ▸ ra.sq
    constructor
    · have := Forest.parent?_of_ctx s'.ctx
      rw [hR] at this
      exact this
    · rw [dropTop_mid ra.ha ra.tops.1 ra.tops.2]
      have ndL' := ndL
      rw [e1] at ndL'
      obtain ⟨tl, tr⟩ := tops_ne_of_nodup ndL'
      rw [hR] at tl tr
      rw [e1, dropTop_mid hR tl tr]
      have e2 : (l ++ [A]) ++ r2 = l ++ A :: r2 := by simp
      rw [e2, replaceTop_mid ra.ha ra.tops.1]
      simp

set_option linter.unusedVariables false in
theorem specReplace_adjacent {f : Forest} {a b q : Nat} {vq : Value} {l : List HTree} {A : HTree} {r : List HTree}
    {t : HTree} (keep : Keep) (inv : f.Inv) (ra : ReplArgs f a b q vq l A r t)
    (hadj : prevOf l A = some b ∨ nextOf r A = some b) :
    specReplace keep a b f = specRemove keep a f := by
  obtain ⟨hpar, hlist⟩ := ra.adjacent hadj
  unfold specReplace specRemove
  rw [ra.hgb, Forest.parent?_of_ctx ra.ctx_a, hpar]
  simp only
  rw [Forest.editAt_editAt, ra.sq.congr (g := replaceTop a (fun _ => [t]) ∘ dropTop b) (g' := dropTop a) hlist,
    Forest.mergeAt_idem]

/-! ### The statements on a closed example -/

/-- `<e1 a2="a">x<e3>p</e3>y<e4>z<!--c--></e4></e1>`, a parentless text node `w` and a parentless
    element `<e5>u</e5>`: handles 0 (e1), 1 (attribute), 2 (x), 3 (e3), 4 (p), 5 (y), 6 (e4), 7 (z),
    8 (comment), 9 (w), 10 (e5), 11 (u). -/
def replSample : Forest :=
  { roots := [.node 0 (.element 1) [.node 1 (.attribute 2 ['a']) [], .node 2 (.text ['x']) [],
        .node 3 (.element 3) [.node 4 (.text ['p']) []], .node 5 (.text ['y']) [],
        .node 6 (.element 4) [.node 7 (.text ['z']) [], .node 8 (.comment ['c']) []]],
      .node 9 (.text ['w']) [], .node 10 (.element 5) [.node 11 (.text ['u']) []]], next := 12 }

/-- The hypotheses are satisfiable: `replace(3, 9)` (an element between two text nodes by a
    parentless text node; all three text nodes merge). -/
example : specMove (Keep.resident 9) (.after 2) 9 (replSample.editAt (some 0) (dropTop 3)) =
    specReplace (Keep.resident 9) 3 9 replSample :=
  specMove_after_drop (l := [.node 1 (.attribute 2 ['a']) [], .node 2 (.text ['x']) []])
    (A := .node 3 (.element 3) [.node 4 (.text ['p']) []])
    (r := [.node 5 (.text ['y']) [], .node 6 (.element 4) [.node 7 (.text ['z']) [], .node 8 (.comment ['c']) []]])
    (vq := .element 1) (t := .node 9 (.text ['w']) []) _ ((Forest.inv_iff _).1 (by decide))
    ⟨⟨by decide, by decide⟩, rfl, rfl, by decide, by decide, rfl, rfl, by decide, by decide⟩
    (by decide) (by decide) (by decide)

example : (specReplace (Keep.resident 9) 3 9 replSample).get? 0 =
    some (.node 0 (.element 1) [.node 1 (.attribute 2 ['a']) [], .node 2 (.text ['x', 'w', 'y']) [],
      .node 6 (.element 4) [.node 7 (.text ['z']) [], .node 8 (.comment ['c']) []]]) := by decide

/-- S1 for three survivor rules; `b` a parentless tree (9, 10), under another parent (7, 8), a
    non-adjacent sibling (6 for `a = 3`; 2 for `a = 6`). -/
example : ∀ keep ∈ [Keep.earlier, Keep.resident 3, Keep.resident 6, Keep.resident 7, Keep.resident 9],
    ∀ ab ∈ [(3, 9, 2), (3, 10, 2), (3, 7, 2), (3, 8, 2), (3, 6, 2), (6, 2, 5), (6, 9, 5), (5, 9, 3), (5, 7, 3)],
    specMove keep (.after ab.2.2) ab.2.1 (replSample.editAt (some 0) (dropTop ab.1)) =
      specReplace keep ab.1 ab.2.1 replSample := by decide

/-- S2: the replaced node is the first normal child (2 under 0, 7 under 6, 4 under 3). -/
example : ∀ keep ∈ [Keep.earlier, Keep.resident 2, Keep.resident 5, Keep.resident 9],
    ∀ abq ∈ [(2, 9, 0), (2, 10, 0), (2, 7, 0), (2, 5, 0), (2, 6, 0), (7, 9, 6), (7, 2, 6), (4, 9, 3), (4, 8, 3)],
    specMove keep (.firstNormalChildOf abq.2.2) abq.2.1 (replSample.editAt (some abq.2.2) (dropTop abq.1)) =
      specReplace keep abq.1 abq.2.1 replSample := by decide

/-- S3: `b` stands directly before / after `a`. -/
example : ∀ keep ∈ [Keep.earlier, Keep.resident 2, Keep.resident 3, Keep.resident 5],
    ∀ ab ∈ [(3, 2), (3, 5), (2, 3), (5, 3), (5, 6), (6, 5), (7, 8), (8, 7)],
    specReplace keep ab.1 ab.2 replSample = specRemove keep ab.1 replSample := by decide

end XotModel
