/-
  Helper lemmas about the interning tables (Model/IdMap).

  `Inv bits m`: `by_id` has no duplicates and `by_value` is the graph of
  `v ↦ toId bits (index of v in by_id)`.  It holds of the empty table and is preserved by
  `getIdMut`; with at most `2^bits` entries `toId` is the identity on indices, which gives the
  one-to-one statements; `toId (2^bits) = 0` gives the wrap.
-/
import XotModel.Model.IdMap

namespace XotModel

theorem toId_of_lt {bits n : Nat} (h : n < 2 ^ bits) : toId bits n = n := Nat.mod_eq_of_lt h

theorem toId_pow (bits : Nat) : toId bits (2 ^ bits) = 0 := Nat.mod_self _

theorem toId_add_pow (bits n : Nat) : toId bits (n + 2 ^ bits) = toId bits n := by
  simp [toId]

namespace IdMap
variable {α : Type} [DecidableEq α]

/-! ### general list facts -/

theorem idxOf_append_of_mem {l₁ l₂ : List α} {a : α} (h : a ∈ l₁) :
    (l₁ ++ l₂).idxOf a = l₁.idxOf a := by
  rw [List.idxOf_append, if_pos h]

theorem idxOf_inj {l : List α} {a b : α} (ha : a ∈ l) (h : l.idxOf a = l.idxOf b) : a = b := by
  have h1 : l.idxOf a < l.length := List.idxOf_lt_length_of_mem ha
  have h2 : l.idxOf b < l.length := by rw [← h]; exact h1
  have e1 : l[l.idxOf a] = a := List.getElem_idxOf h1
  have e2 : l[l.idxOf b] = b := List.getElem_idxOf h2
  rw [← e1, ← e2]
  congr 1

theorem idxOf_getElem {l : List α} (hnd : l.Nodup) {i : Nat} (hi : i < l.length) :
    l.idxOf l[i] = i := by
  have hm : l[i] ∈ l := List.getElem_mem hi
  have h1 : l.idxOf l[i] < l.length := List.idxOf_lt_length_of_mem hm
  have e1 : l[l.idxOf l[i]] = l[i] := List.getElem_idxOf h1
  exact (List.getElem_inj hnd).1 e1

theorem lookup_none_of_forall_ne {l : List (α × Nat)} {k : α} (h : ∀ p ∈ l, p.1 ≠ k) :
    l.lookup k = none := by
  induction l with
  | nil => rfl
  | cons p ps ih =>
    rw [List.lookup_cons]
    have hne : (k == p.1) = false := by
      apply Bool.eq_false_iff.2
      intro heq
      have : k = p.1 := by simpa using heq
      exact h p (by simp) this.symm
    rw [hne]
    exact ih (fun q hq => h q (by simp [hq]))

/-! ### the invariant -/

/-- `by_id` has no duplicates and `by_value` is the graph of `v ↦ toId (index of v in by_id)`. -/
structure Inv (bits : Nat) (m : IdMap α) : Prop where
  nodup : m.byId.Nodup
  graph : ∀ v, m.byValue.lookup v =
    if v ∈ m.byId then some (toId bits (m.byId.idxOf v)) else none

theorem inv_empty (bits : Nat) : Inv bits (empty : IdMap α) :=
  ⟨List.nodup_nil, fun v => by simp [empty]⟩

theorem getIdMut_of_mem {bits : Nat} {m : IdMap α} (h : Inv bits m) {v : α} (hv : v ∈ m.byId) :
    getIdMut bits m v = (m, toId bits (m.byId.idxOf v)) := by
  unfold getIdMut
  rw [h.graph v, if_pos hv]

theorem getIdMut_of_not_mem {bits : Nat} {m : IdMap α} (h : Inv bits m) {v : α} (hv : v ∉ m.byId) :
    getIdMut bits m v =
      ({ byId := m.byId ++ [v], byValue := (v, toId bits m.byId.length) :: m.byValue },
        toId bits m.byId.length) := by
  unfold getIdMut
  rw [h.graph v, if_neg hv]

/-- `get_id_mut` preserves the invariant. -/
theorem getIdMut_inv {bits : Nat} {m : IdMap α} (h : Inv bits m) (v : α) :
    Inv bits (getIdMut bits m v).1 := by
  by_cases hv : v ∈ m.byId
  · rw [getIdMut_of_mem h hv]; exact h
  · rw [getIdMut_of_not_mem h hv]
    constructor
    · show (m.byId ++ [v]).Nodup
      rw [List.nodup_append]
      refine ⟨h.nodup, by simp, ?_⟩
      intro a ha b hb
      simp at hb
      subst hb
      intro hab
      exact hv (hab ▸ ha)
    · intro w
      show ((v, toId bits m.byId.length) :: m.byValue).lookup w = _
      rw [List.lookup_cons]
      by_cases hwv : w = v
      · subst hwv
        simp [List.idxOf_append, hv]
      · have hne : (w == v) = false := by simpa using hwv
        rw [hne]
        simp only [h.graph w, List.mem_append, List.mem_singleton, hwv, or_false]
        by_cases hw : w ∈ m.byId
        · simp [hw, idxOf_append_of_mem hw]
        · simp [hw]

/-- The id `get_id_mut` returns is the (truncated) index of the value in the table it returns. -/
theorem getIdMut_id {bits : Nat} {m : IdMap α} (h : Inv bits m) (v : α) :
    (getIdMut bits m v).2 = toId bits ((getIdMut bits m v).1.byId.idxOf v) ∧
    v ∈ (getIdMut bits m v).1.byId := by
  by_cases hv : v ∈ m.byId
  · rw [getIdMut_of_mem h hv]; exact ⟨rfl, hv⟩
  · rw [getIdMut_of_not_mem h hv]
    simp [List.idxOf_append, hv]

/-- `by_id` only grows, at the end. -/
theorem getIdMut_prefix (bits : Nat) (m : IdMap α) (v : α) :
    ∃ t, (getIdMut bits m v).1.byId = m.byId ++ t ∧ (t = [] ∨ t = [v]) := by
  unfold getIdMut
  split
  · exact ⟨[], by simp, Or.inl rfl⟩
  · exact ⟨[v], rfl, Or.inr rfl⟩

theorem getIdMut_mem {bits : Nat} {m : IdMap α} (h : Inv bits m) (v w : α) :
    w ∈ (getIdMut bits m v).1.byId ↔ w ∈ m.byId ∨ w = v := by
  by_cases hv : v ∈ m.byId
  · rw [getIdMut_of_mem h hv]
    constructor
    · exact Or.inl
    · rintro (h1 | h1)
      · exact h1
      · exact h1 ▸ hv
  · rw [getIdMut_of_not_mem h hv]; simp

/-! ### monotonicity: nothing already in the table changes (no bound, no invariant needed) -/

theorem getValue_getIdMut_mono {bits : Nat} {m : IdMap α} {id : Nat} {v : α} (w : α)
    (h : getValue m id = some v) : getValue (getIdMut bits m w).1 id = some v := by
  obtain ⟨t, ht, _⟩ := getIdMut_prefix bits m w
  unfold getValue at *
  rw [ht]
  have hlt : id < m.byId.length := by
    have := (List.getElem?_eq_some_iff.1 h).1
    exact this
  rw [List.getElem?_append_left hlt]
  exact h

theorem getId_getIdMut_mono {bits : Nat} {m : IdMap α} {id : Nat} {v : α} (w : α)
    (h : getId m v = some id) : getId (getIdMut bits m w).1 v = some id := by
  unfold getId at *
  unfold getIdMut
  split
  · exact h
  · rename_i hw
    show ((w, _) :: m.byValue).lookup v = some id
    rw [List.lookup_cons]
    have hne : (v == w) = false := by
      apply Bool.eq_false_iff.2
      intro heq
      have : v = w := by simpa using heq
      subst this
      rw [hw] at h
      cases h
    rw [hne]
    exact h

/-! ### histories -/

theorem registerAll_inv {bits : Nat} {m : IdMap α} (h : Inv bits m) (vs : List α) :
    Inv bits (registerAll bits m vs).1 := by
  induction vs generalizing m with
  | nil => exact h
  | cons v vs ih => exact ih (getIdMut_inv h v)

theorem registerAll_length (bits : Nat) (m : IdMap α) (vs : List α) :
    (registerAll bits m vs).2.length = vs.length := by
  induction vs generalizing m with
  | nil => rfl
  | cons v vs ih => simp [registerAll, ih]

theorem registerAll_prefix (bits : Nat) (m : IdMap α) (vs : List α) :
    ∃ t, (registerAll bits m vs).1.byId = m.byId ++ t := by
  induction vs generalizing m with
  | nil => exact ⟨[], by simp [registerAll]⟩
  | cons v vs ih =>
    obtain ⟨t1, h1, _⟩ := getIdMut_prefix bits m v
    obtain ⟨t2, h2⟩ := ih (getIdMut bits m v).1
    exact ⟨t1 ++ t2, by simp only [registerAll]; rw [h2, h1, List.append_assoc]⟩

theorem registerAll_mem {bits : Nat} {m : IdMap α} (h : Inv bits m) (vs : List α) (w : α) :
    w ∈ (registerAll bits m vs).1.byId ↔ w ∈ m.byId ∨ w ∈ vs := by
  induction vs generalizing m with
  | nil => simp [registerAll]
  | cons v vs ih =>
    simp only [registerAll]
    rw [ih (getIdMut_inv h v), getIdMut_mem h]
    simp only [List.mem_cons]
    constructor
    · rintro ((h1 | h1) | h1)
      · exact Or.inl h1
      · exact Or.inr (Or.inl h1)
      · exact Or.inr (Or.inr h1)
    · rintro (h1 | h1 | h1)
      · exact Or.inl (Or.inl h1)
      · exact Or.inl (Or.inr h1)
      · exact Or.inr h1

/-- Every id returned along a history is the truncated index of its value in the *final* table. -/
theorem registerAll_ids {bits : Nat} {m : IdMap α} (h : Inv bits m) (vs : List α) :
    (registerAll bits m vs).2 =
      vs.map (fun v => toId bits ((registerAll bits m vs).1.byId.idxOf v)) := by
  induction vs generalizing m with
  | nil => rfl
  | cons v vs ih =>
    simp only [registerAll, List.map_cons]
    rw [← ih (getIdMut_inv h v)]
    congr 1
    obtain ⟨hid, hmem⟩ := getIdMut_id h v
    obtain ⟨t, ht⟩ := registerAll_prefix bits (getIdMut bits m v).1 vs
    rw [hid, ht, idxOf_append_of_mem hmem]

theorem registerAll_getValue_mono {bits : Nat} {m : IdMap α} {id : Nat} {v : α} (vs : List α)
    (h : getValue m id = some v) : getValue (registerAll bits m vs).1 id = some v := by
  induction vs generalizing m with
  | nil => exact h
  | cons w vs ih => exact ih (getValue_getIdMut_mono w h)

theorem registerAll_getId_mono {bits : Nat} {m : IdMap α} {id : Nat} {v : α} (vs : List α)
    (h : getId m v = some id) : getId (registerAll bits m vs).1 v = some id := by
  induction vs generalizing m with
  | nil => exact h
  | cons w vs ih => exact ih (getId_getIdMut_mono w h)

theorem registerAll_append (bits : Nat) (m : IdMap α) (xs ys : List α) :
    registerAll bits m (xs ++ ys) =
      ((registerAll bits (registerAll bits m xs).1 ys).1,
       (registerAll bits m xs).2 ++ (registerAll bits (registerAll bits m xs).1 ys).2) := by
  induction xs generalizing m with
  | nil => simp [registerAll]
  | cons x xs ih => simp [registerAll, ih]

/-! ### below capacity the table is one-to-one -/

section bounded
variable {bits : Nat} {m : IdMap α}

theorem getId_eq_some_iff (h : Inv bits m) (hb : m.byId.length ≤ 2 ^ bits) (v : α) (id : Nat) :
    getId m v = some id ↔ v ∈ m.byId ∧ id = m.byId.idxOf v := by
  unfold getId
  rw [h.graph v]
  by_cases hv : v ∈ m.byId
  · have hlt : m.byId.idxOf v < 2 ^ bits :=
      Nat.lt_of_lt_of_le (List.idxOf_lt_length_of_mem hv) hb
    simp [hv, toId_of_lt hlt, eq_comm]
  · simp [hv]

theorem getId_isSome_iff (h : Inv bits m) (v : α) : (getId m v).isSome ↔ v ∈ m.byId := by
  unfold getId
  rw [h.graph v]
  by_cases hv : v ∈ m.byId <;> simp [hv]

/-- `get_value` and `get_id` are inverse to each other. -/
theorem getValue_eq_some_iff (h : Inv bits m) (hb : m.byId.length ≤ 2 ^ bits) (v : α) (id : Nat) :
    getValue m id = some v ↔ getId m v = some id := by
  rw [getId_eq_some_iff h hb]
  unfold getValue
  constructor
  · intro hg
    obtain ⟨hlt, hv⟩ := List.getElem?_eq_some_iff.1 hg
    subst hv
    exact ⟨List.getElem_mem hlt, (idxOf_getElem h.nodup hlt).symm⟩
  · rintro ⟨hv, rfl⟩
    have hlt := List.idxOf_lt_length_of_mem hv
    rw [List.getElem?_eq_getElem hlt, List.getElem_idxOf hlt]

theorem getId_inj (h : Inv bits m) (hb : m.byId.length ≤ 2 ^ bits) {v w : α} {id : Nat}
    (hv : getId m v = some id) (hw : getId m w = some id) : v = w := by
  obtain ⟨hv1, hv2⟩ := (getId_eq_some_iff h hb v id).1 hv
  obtain ⟨_, hw2⟩ := (getId_eq_some_iff h hb w id).1 hw
  exact idxOf_inj hv1 (hv2 ▸ hw2)

end bounded

/-! ### fresh values: closed form, and the wrap -/

theorem registerAll_fresh (bits : Nat) (m : IdMap α) (vs : List α) (hnd : vs.Nodup)
    (hfresh : ∀ v ∈ vs, m.byValue.lookup v = none) :
    registerAll bits m vs = registerFresh bits m vs := by
  induction vs generalizing m with
  | nil => simp [registerAll, registerFresh]
  | cons v vs ih =>
    have hv : m.byValue.lookup v = none := hfresh v (by simp)
    rw [List.nodup_cons] at hnd
    have hstep : getIdMut bits m v =
        ({ byId := m.byId ++ [v], byValue := (v, toId bits m.byId.length) :: m.byValue },
          toId bits m.byId.length) := by
      unfold getIdMut; rw [hv]
    simp only [registerAll, hstep]
    rw [ih _ hnd.2]
    · simp only [registerFresh, List.length_cons, List.range_succ_eq_map, List.map_cons,
        List.map_map, List.zip_cons_cons, List.reverse_cons, List.length_append,
        List.length_nil, Nat.add_zero, Nat.zero_add]
      have hf : ((fun i => toId bits (m.byId.length + 1 + i)) : Nat → Nat) =
          (fun i => toId bits (m.byId.length + i)) ∘ Nat.succ := by
        funext i; simp only [Function.comp]; congr 1; omega
      simp [hf]
    · intro w hw
      show ((v, _) :: m.byValue).lookup w = none
      rw [List.lookup_cons]
      have hne : (w == v) = false := by
        apply Bool.eq_false_iff.2
        intro heq
        have : w = v := by simpa using heq
        exact hnd.1 (this ▸ hw)
      rw [hne]
      exact hfresh w (by simp [hw])

omit [DecidableEq α] in
theorem nodup_map_range {f : Nat → α} (hf : ∀ i j, f i = f j → i = j) (n : Nat) :
    ((List.range n).map f).Nodup := by
  rw [List.nodup_iff_pairwise_ne, List.pairwise_map]
  exact List.Pairwise.imp (fun hij h => hij (hf _ _ h)) List.nodup_range

/-- The driver's fast path for the long history computes the model's `registerAll`. -/
theorem registerRange_eq (bits : Nat) (m : IdMap α) (f : Nat → α)
    (hf : ∀ i j, f i = f j → i = j) (n : Nat) :
    registerRange bits m f n = registerAll bits m ((List.range n).map f) := by
  by_cases hall : ((List.range n).map f).all (fun v => (m.byValue.lookup v).isNone) = true
  · simp only [registerRange, hall, if_true]
    rw [registerAll_fresh bits m _ (nodup_map_range hf n)]
    intro v hv
    have := List.all_eq_true.1 hall v hv
    simpa using this
  · simp only [registerRange, hall]
    rfl

/-- Ids of a run of fresh values: consecutive indices, truncated. -/
theorem registerAll_fresh_ids (bits : Nat) (m : IdMap α) (vs : List α) (hnd : vs.Nodup)
    (hfresh : ∀ v ∈ vs, m.byValue.lookup v = none) (k : Nat) (hk : k < vs.length) :
    (registerAll bits m vs).2[k]? = some (toId bits (m.byId.length + k)) := by
  rw [registerAll_fresh bits m vs hnd hfresh]
  simp [registerFresh, hk]

theorem registerAll_fresh_byId (bits : Nat) (m : IdMap α) (vs : List α) (hnd : vs.Nodup)
    (hfresh : ∀ v ∈ vs, m.byValue.lookup v = none) :
    (registerAll bits m vs).1.byId = m.byId ++ vs := by
  rw [registerAll_fresh bits m vs hnd hfresh]; rfl

/-- The wrap: in a table of `n ≤ 2^bits` entries, the `(2^bits - n + 1)`-th fresh value
    registered receives id `0` — the id of the very first entry. -/
theorem wraps_from (bits : Nat) (m : IdMap α) (f : Nat → α) (hf : ∀ i j, f i = f j → i = j)
    (hfresh : ∀ i, m.byValue.lookup (f i) = none) (hlen : m.byId.length ≤ 2 ^ bits) :
    (registerAll bits m ((List.range (2 ^ bits - m.byId.length + 1)).map f)).2[2 ^ bits - m.byId.length]?
      = some 0 := by
  rw [registerAll_fresh_ids bits m _ (nodup_map_range hf _)
    (by intro v hv; obtain ⟨i, _, rfl⟩ := List.mem_map.1 hv; exact hfresh i) _ (by simp)]
  have : m.byId.length + (2 ^ bits - m.byId.length) = 2 ^ bits := by omega
  rw [this, toId_pow]

/-! ### histories below capacity -/

/-- Below capacity the ids of a history are the plain indices in the final table. -/
theorem registerAll_ids_bounded {bits : Nat} {m : IdMap α} (h : Inv bits m) (vs : List α)
    (hb : (registerAll bits m vs).1.byId.length ≤ 2 ^ bits) :
    (registerAll bits m vs).2 = vs.map (fun v => (registerAll bits m vs).1.byId.idxOf v) := by
  conv => lhs; rw [registerAll_ids h vs]
  apply List.map_congr_left
  intro v hv
  apply toId_of_lt
  have hm : v ∈ (registerAll bits m vs).1.byId := (registerAll_mem h vs v).2 (Or.inr hv)
  exact Nat.lt_of_lt_of_le (List.idxOf_lt_length_of_mem hm) hb

/-- Below capacity, every value of the history is found by both lookups under the id it got. -/
theorem registerAll_lookup_bounded {bits : Nat} {m : IdMap α} (h : Inv bits m) (vs : List α)
    (hb : (registerAll bits m vs).1.byId.length ≤ 2 ^ bits) {v : α} (hv : v ∈ vs) :
    getId (registerAll bits m vs).1 v = some ((registerAll bits m vs).1.byId.idxOf v) ∧
    getValue (registerAll bits m vs).1 ((registerAll bits m vs).1.byId.idxOf v) = some v := by
  have hinv := registerAll_inv h vs
  have hm : v ∈ (registerAll bits m vs).1.byId := (registerAll_mem h vs v).2 (Or.inr hv)
  have h1 : getId (registerAll bits m vs).1 v = some ((registerAll bits m vs).1.byId.idxOf v) :=
    (getId_eq_some_iff hinv hb v _).2 ⟨hm, rfl⟩
  exact ⟨h1, (getValue_eq_some_iff hinv hb v _).2 h1⟩

end IdMap

/-! ### the three tables of a `Xot` -/

namespace Interner
open IdMap Gen

/-- All three tables satisfy the invariant at their own id width. -/
structure Inv (x : Interner) : Prop where
  ns : IdMap.Inv namespaceIdBits x.namespaceLookup
  pf : IdMap.Inv prefixIdBits x.prefixLookup
  nm : IdMap.Inv nameIdBits x.nameLookup

theorem step_inv (s : NewState) (r : BuiltinReg)
    (h : IdMap.Inv namespaceIdBits s.ns ∧ IdMap.Inv prefixIdBits s.pf ∧ IdMap.Inv nameIdBits s.nm) :
    IdMap.Inv namespaceIdBits (s.step r).ns ∧ IdMap.Inv prefixIdBits (s.step r).pf ∧
      IdMap.Inv nameIdBits (s.step r).nm := by
  obtain ⟨h1, h2, h3⟩ := h
  unfold NewState.step
  split
  · exact ⟨getIdMut_inv h1 _, h2, h3⟩
  · exact ⟨h1, getIdMut_inv h2 _, h3⟩
  · exact ⟨h1, h2, getIdMut_inv h3 _⟩

theorem foldl_step_inv (regs : List BuiltinReg) (s : NewState)
    (h : IdMap.Inv namespaceIdBits s.ns ∧ IdMap.Inv prefixIdBits s.pf ∧ IdMap.Inv nameIdBits s.nm) :
    IdMap.Inv namespaceIdBits (regs.foldl NewState.step s).ns ∧
      IdMap.Inv prefixIdBits (regs.foldl NewState.step s).pf ∧
      IdMap.Inv nameIdBits (regs.foldl NewState.step s).nm := by
  induction regs generalizing s with
  | nil => exact h
  | cons r rs ih => exact ih _ (step_inv s r h)

/-- `Xot::new()` satisfies the invariant, whatever `builtinRegistrations` says. -/
theorem inv_new : Inv Interner.new := by
  have h := foldl_step_inv builtinRegistrations {}
    ⟨IdMap.inv_empty _, IdMap.inv_empty _, IdMap.inv_empty _⟩
  exact ⟨h.1, h.2.1, h.2.2⟩

theorem inv_addNameNs {x : Interner} (h : Inv x) (l : Str) (ns : Nat) : Inv (x.addNameNs l ns).1 :=
  ⟨h.ns, h.pf, getIdMut_inv h.nm _⟩

theorem inv_addNamespace {x : Interner} (h : Inv x) (s : Str) : Inv (x.addNamespace s).1 :=
  ⟨getIdMut_inv h.ns _, h.pf, h.nm⟩

theorem inv_addPrefix {x : Interner} (h : Inv x) (s : Str) : Inv (x.addPrefix s).1 :=
  ⟨h.ns, getIdMut_inv h.pf _, h.nm⟩

/-- Everything a program can reach from `Xot::new()`: the public registration calls, the
    `get_id_mut` calls `parse` and `html5()` make on the same three tables (the same three
    constructors), and `clone`. -/
inductive Reachable : Interner → Prop where
  | new : Reachable Interner.new
  | addNameNs (x : Interner) (l : Str) (ns : Nat) : Reachable x → Reachable (x.addNameNs l ns).1
  | addNamespace (x : Interner) (s : Str) : Reachable x → Reachable (x.addNamespace s).1
  | addPrefix (x : Interner) (s : Str) : Reachable x → Reachable (x.addPrefix s).1
  | clone (x : Interner) : Reachable x → Reachable x.clone

theorem Reachable.inv {x : Interner} (h : Reachable x) : Inv x := by
  induction h with
  | new => exact inv_new
  | addNameNs x l ns _ ih => exact inv_addNameNs ih l ns
  | addNamespace x s _ ih => exact inv_addNamespace ih s
  | addPrefix x s _ ih => exact inv_addPrefix ih s
  | clone x _ ih => exact ih

end Interner

/-! ### the values of the long history are pairwise distinct -/

theorem bulkValue_inj (p : Str) (i j : Nat) (h : bulkValue p i = bulkValue p j) : i = j := by
  unfold bulkValue at h
  have h' := List.append_cancel_left h
  have hi := Nat.ofDigitChars_toDigits (b := 10) (n := i) (by omega) (by omega)
  have hj := Nat.ofDigitChars_toDigits (b := 10) (n := j) (by omega) (by omega)
  rw [h'] at hi
  omega

end XotModel
