/-
  FspecDetach — C05 for `detach`: the subtree becomes a parentless tree of its own, nothing else
  moves, and the two text nodes it separated are merged into the earlier one.
-/
import XotModel.Lemmas.FspecRemove

namespace XotModel
open HTree Spec

/-! ### Handles after an edit that takes some handles `E` out of one child list -/

mutual
  theorem handles_editAt_perm {p : Nat} {v : Value} {L : List HTree} {g : List HTree → List HTree} {E : List Nat}
      (hg : (handlesList (g L) ++ E).Perm (handlesList L)) : ∀ t : HTree, (handles t).Nodup →
      find? p t = some (.node p v L) → (handles (HTree.editAt p g t) ++ E).Perm (handles t)
    | .node h v' ks => by
      intro nd e
      obtain ⟨n1, n2⟩ := nodup_handles_node nd
      rw [find?_node] at e
      rw [editAt_node]
      by_cases hh : h = p
      · rw [if_pos hh] at e
        have e' := Option.some.inj e
        injection e' with _ _ e3
        subst e3
        rw [if_pos hh, handles_node, handles_node, List.cons_append]
        exact hg.cons h
      · rw [if_neg hh] at e
        rw [if_neg hh, handles_node, handles_node, List.cons_append]
        exact (handlesList_editAt_perm hg ks n2 e).cons h
  theorem handlesList_editAt_perm {p : Nat} {v : Value} {L : List HTree} {g : List HTree → List HTree} {E : List Nat}
      (hg : (handlesList (g L) ++ E).Perm (handlesList L)) : ∀ ks : List HTree, (handlesList ks).Nodup →
      findList? p ks = some (.node p v L) →
      (handlesList (ks.map (HTree.editAt p g)) ++ E).Perm (handlesList ks)
    | [] => by intro _ e; rw [findList?_nil] at e; cases e
    | k :: ks => by
      intro nd e
      obtain ⟨n1, n2, n3⟩ := nodup_handlesList_cons nd
      rw [List.map_cons, handlesList_cons, handlesList_cons]
      cases hk : find? p k with
      | some t =>
        rw [findList?_cons_some hk] at e
        have e' := Option.some.inj e
        subst e'
        have hpn : p ∉ handlesList ks := n3 p (mem_of_find?_some hk)
        rw [map_editAt_of_not_mem ks hpn]
        have ih := handles_editAt_perm hg k n1 hk
        have h1 : (handles (HTree.editAt p g k) ++ handlesList ks ++ E).Perm
            (handles (HTree.editAt p g k) ++ E ++ handlesList ks) := by
          rw [List.append_assoc, List.append_assoc]
          exact List.Perm.append_left _ List.perm_append_comm
        exact h1.trans (ih.append_right _)
      | none =>
        rw [findList?_cons_none hk] at e
        have hpk : p ∉ handles k := by
          intro hm
          have := find?_isSome_of_mem k hm
          rw [hk] at this; cases this
        rw [editAt_of_not_mem k hpk, List.append_assoc]
        exact List.Perm.append_left _ (handlesList_editAt_perm hg ks n2 e)
end

theorem findList?_append_left {h : Nat} {u : HTree} : ∀ (A B : List HTree), findList? h A = some u →
    findList? h (A ++ B) = some u
  | [], _ => by intro e; rw [findList?_nil] at e; cases e
  | k :: A, B => by
    intro e
    rw [List.cons_append]
    cases hk : find? h k with
    | some t =>
      rw [findList?_cons_some hk] at e
      rw [findList?_cons_some hk]; exact e
    | none =>
      rw [findList?_cons_none hk] at e
      rw [findList?_cons_none hk]
      exact findList?_append_left A B e

/-! ### detach -/

theorem detach_spec {f : Forest} {n : Nat} {keep : Keep} (hkeep : ∀ a b, a ≠ n → keep a b = true)
    (inv : f.Inv) (norm : f.Normal) (live : f.isLive n = true) :
    (f.detach n).1 = specDetach keep n f := by
  have nd := inv.nodup
  unfold Forest.isLive at live
  cases hg : f.get? n with
  | none => rw [hg] at live; cases live
  | some u =>
  rcases Forest.root_or_ctx hg with hroot | ⟨c, hctx⟩
  · have hno : f.ctx? n = none := by
      cases hc : f.ctx? n with
      | none => rfl
      | some c => rw [Forest.isRoot_of_ctx nd hc] at hroot; cases hroot
    unfold Forest.detach specDetach
    simp only [Forest.prevSibling_of_no_ctx hno, Forest.nextSibling_of_no_ctx hno,
      Forest.removeConsolidate_none_left]
    unfold Forest.detachRaw Forest.cut Forest.parent?
    rw [hg, hno]
    simp only [hroot, if_true, Option.map_none, Forest.mergeAt, Forest.editAt, Forest.addRoot]
    rw [dropTop_eq_filter]
    rfl
  · obtain ⟨e0, v, s⟩ := SiteAt.of_ctx nd hctx
    obtain ⟨p, l, k, r⟩ := c
    simp only at e0 s
    subst e0
    obtain ⟨ndL, _⟩ := s.nodupKids
    obtain ⟨tl, tr⟩ := tops_ne_of_nodup ndL
    have hpar : f.parent? k.handle = some p := by unfold Forest.parent?; rw [hctx]; rfl
    have hgk : f.get? k.handle = some k := s.getKid
    have hgL : replaceTop k.handle (fun _ => []) (l ++ k :: r) = l ++ r := by
      rw [replaceTop_mid rfl tl]; simp
    have hdrop : dropTop k.handle (l ++ k :: r) = l ++ r := dropTop_mid rfl tl tr
    -- the raw detach
    have hraw : f.detachRaw k.handle =
        (f.editAt (some p) (dropTop k.handle)).editAt none (insertLast k) := by
      unfold Forest.detachRaw
      rw [Forest.cut_of_ctx nd hctx]
      simp only
      rw [s.congr (g := replaceTop k.handle (fun _ => [])) (g' := dropTop k.handle) (by rw [hgL, hdrop])]
      rfl
    -- the site after the raw detach
    have s1 : SiteAt ((f.editAt (some p) (dropTop k.handle)).editAt none (insertLast k)) p v (l ++ ([] ++ r)) := by
      constructor
      · show (handlesList ((f.roots.map (HTree.editAt p (dropTop k.handle))) ++ [k])).Nodup
        rw [fs_handlesList_append, handlesList_cons, handlesList_nil, List.append_nil]
        have hperm := handlesList_editAt_perm (g := dropTop k.handle) (E := handles k)
          (by
            rw [hdrop]
            simp only [fs_handlesList_append, handlesList_cons]
            rw [List.append_assoc]
            exact List.Perm.append_left _ List.perm_append_comm) f.roots nd s.kids
        exact hperm.symm.nodup nd
      · show findList? p ((f.roots.map (HTree.editAt p (dropTop k.handle))) ++ [k]) = _
        apply findList?_append_left
        have := findList?_editAt_self (g := dropTop k.handle) f.roots s.kids
        rw [hdrop] at this
        exact this
    have hvalid := s.valid inv.valid
    have hord := (validTree_node hvalid).2.1
    have hleaf : ∀ t ∈ r, t.value.isText = true → t.kids = [] :=
      fun t ht => s.leaf inv.valid t (List.mem_append_right _ (List.mem_cons_of_mem _ ht))
    have hold := oldSite (k := k) s1 hleaf (hcat_of_ordered hord)
    unfold Forest.detach specDetach
    simp only [Forest.prevSibling_of_ctx hctx, Forest.nextSibling_of_ctx hctx, hpar, hraw, hgk]
    unfold Forest.mergeAt
    simp only [Forest.editAt_consolidation]
    rcases hold with ⟨h1, h2⟩ | ⟨hc, l', a, b, r', x, y, el, er, hx, hy, _, _, h3⟩
    · rw [h1]
      simp only
      rcases Bool.eq_false_or_eq_true f.consolidation with hc | hc
      · rw [hc, if_pos rfl]
        have hstrict := (validTree_node (s.valid (norm hc))).2.2.1 rfl
        obtain ⟨hl, hkr, _⟩ := noAdj_append.1 hstrict
        have hid : mergeRuns keep (l ++ ([] ++ r)) = l ++ ([] ++ r) :=
          mergeRuns_after_leave hl (noAdj_tail hkr)
            (h2 (by simp only [Forest.editAt_consolidation]; exact hc))
        rw [s1.congr (g := mergeRuns keep) (g' := id) hid, Forest.editAt_id]
      · rw [hc]
        simp
    · rw [h3]
      simp only
      simp only [Forest.editAt_consolidation] at hc
      rw [hc, if_pos rfl]
      have hstrict := (validTree_node (s.valid (norm hc))).2.2.1 rfl
      obtain ⟨hl, hkr, _⟩ := noAdj_append.1 hstrict
      subst el er
      have hak : a.handle ≠ k.handle := tl a (List.mem_append_right _ List.mem_cons_self)
      apply s1.congr
      simp only [List.nil_append]
      rw [mergeRuns_after_leave_merge hl (noAdj_tail hkr) hx hy (hkeep _ _ hak)]

end XotModel
