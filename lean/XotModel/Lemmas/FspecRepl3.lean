/-
  FspecRepl3 — C05 for `replace`, part 3: which survivor rule applies (`Spec.replaceKeep`).
-/
import XotModel.Lemmas.FspecRepl2
import XotModel.Model.FspecSpec2

namespace XotModel
open HTree Spec

namespace ReplArgs
variable {f : Forest} {a b q : Nat} {vq : Value} {l : List HTree} {A : HTree} {r : List HTree} {t : HTree}

theorem catA (h : ReplArgs f a b q vq l A r t) : A.value.category = .normal := by
  simpa [Value.isNormal] using h.hAn

theorem catT (h : ReplArgs f a b q vq l A r t) : t.value.category = .normal := by
  simpa [Value.isNormal] using h.htn

/-- A child of `q` with handle `b` is the replacing subtree itself. -/
theorem kid_eq (h : ReplArgs f a b q vq l A r t) {x : HTree} (hx : x ∈ l ++ A :: r) (hb : x.handle = b) :
    x = t := by
  obtain ⟨X, Y, hXY⟩ := List.append_of_mem hx
  have s : SiteAt f q vq (X ++ x :: Y) := hXY ▸ h.sq
  have := s.getKid
  rw [hb, h.hgb] at this
  exact (Option.some.inj this).symm

theorem adjacentTo_eq (h : ReplArgs f a b q vq l A r t) :
    adjacentTo f a b = ((l.getLast?.map (·.handle)) == some b || (r.head?.map (·.handle)) == some b) := by
  unfold adjacentTo
  rw [h.ctx_a]

theorem prevOf_iff (h : ReplArgs f a b q vq l A r t) :
    prevOf l A = some b ↔ (l.getLast?.map (·.handle)) = some b := by
  unfold prevOf
  cases hl : l.getLast? with
  | none => simp
  | some x =>
    simp only [Option.map_some, Option.some.injEq]
    constructor
    · intro e
      split at e
      · exact Option.some.inj e
      · cases e
    · intro e
      have hx : x ∈ l ++ A :: r := List.mem_append_left _ (List.mem_of_getLast? hl)
      have := h.kid_eq hx e
      subst this
      rw [h.catT, h.catA]
      simp [e]

theorem nextOf_iff (h : ReplArgs f a b q vq l A r t) :
    nextOf r A = some b ↔ (r.head?.map (·.handle)) = some b := by
  unfold nextOf
  cases hr : r.head? with
  | none => simp
  | some x =>
    simp only [Option.map_some, Option.some.injEq]
    constructor
    · intro e
      split at e
      · exact Option.some.inj e
      · cases e
    · intro e
      have hx : x ∈ l ++ A :: r :=
        List.mem_append_right _ (List.mem_cons_of_mem _ (List.mem_of_mem_head? hr))
      have := h.kid_eq hx e
      subst this
      rw [h.catT, h.catA]
      simp [e]

/-- Next to the replaced node: the call is `remove`, the earlier node of a merged pair survives. -/
theorem keep_adjacent (h : ReplArgs f a b q vq l A r t) (hadj : prevOf l A = some b ∨ nextOf r A = some b) :
    replaceKeep f a b = Keep.earlier := by
  unfold replaceKeep
  rw [h.adjacentTo_eq]
  rcases hadj with e | e
  · rw [h.prevOf_iff.1 e]; simp
  · rw [h.nextOf_iff.1 e]; simp

/-- Elsewhere: the replacing node is moved and never survives a merge. -/
theorem keep_moved (h : ReplArgs f a b q vq l A r t) (h1 : prevOf l A ≠ some b) (h2 : nextOf r A ≠ some b) :
    replaceKeep f a b = Keep.resident b := by
  unfold replaceKeep
  rw [h.adjacentTo_eq]
  have e1 : ((l.getLast?.map (·.handle)) == some b) = false := by
    cases hh : (l.getLast?.map (·.handle)) == some b with
    | false => rfl
    | true => exact absurd (h.prevOf_iff.2 (by simpa using hh)) h1
  have e2 : ((r.head?.map (·.handle)) == some b) = false := by
    cases hh : (r.head?.map (·.handle)) == some b with
    | false => rfl
    | true => exact absurd (h.nextOf_iff.2 (by simpa using hh)) h2
  rw [e1, e2]
  rfl

end ReplArgs
end XotModel
