/-
  Finv (C04), part 11: cutting a subtree and placing it again — the four indextree
  `checked_*` moves preserve the invariant under stated local conditions.
-/
import XotModel.Lemmas.FinvDist

namespace XotModel
open HTree

/-! ### What `rk c` (removing `c` from a child list) keeps -/

theorem rb_eq (c : Nat) (K : HTree) : rb c K = .node K.handle K.value (rk c K.kids) := by
  cases K; simp [rb, rk, replaceBelow]

@[simp] theorem rb_handle (c : Nat) (K : HTree) : (rb c K).handle = K.handle := by rw [rb_eq]; rfl
@[simp] theorem rb_value (c : Nat) (K : HTree) : (rb c K).value = K.value := by rw [rb_eq]; rfl
@[simp] theorem rb_kids (c : Nat) (K : HTree) : (rb c K).kids = rk c K.kids := by rw [rb_eq]; rfl

theorem rk_cons_ne (c : Nat) (k : HTree) (ks : List HTree) (h : k.handle ≠ c) :
    rk c (k :: ks) = rb c k :: rk c ks := by
  simp only [rk, rb]; rw [replaceKids_cons, if_neg h]

theorem rk_cons_eq (c : Nat) (k : HTree) (ks : List HTree) (h : k.handle = c) :
    rk c (k :: ks) = ks := by
  simp only [rk]; rw [replaceKids_cons, if_pos h]; rfl

theorem mem_rk {c : Nat} {ks : List HTree} {x : HTree} (hx : x ∈ rk c ks) :
    ∃ y ∈ ks, x.value = y.value ∧ x.handle = y.handle := by
  induction ks with
  | nil => simp [rk, replaceKids] at hx
  | cons k ks ih =>
    by_cases hk : k.handle = c
    · rw [rk_cons_eq c k ks hk] at hx
      exact ⟨x, by simp [hx], rfl, rfl⟩
    · rw [rk_cons_ne c k ks hk, List.mem_cons] at hx
      rcases hx with hx | hx
      · exact ⟨k, by simp, by simp [hx], by simp [hx]⟩
      · obtain ⟨y, hy, h1, h2⟩ := ih hx
        exact ⟨y, by simp [hy], h1, h2⟩

theorem headText_rk {c : Nat} {ks : List HTree}
    (h : ∀ n rest, ks = n :: rest → n.handle ≠ c ∧ n.value.isText = false) : headText (rk c ks) = false := by
  cases ks with
  | nil => simp [rk, replaceKids]
  | cons n rest =>
    obtain ⟨h1, h2⟩ := h n rest rfl
    rw [rk_cons_ne c n rest h1]; simp [h2]

theorem getLast?_rk {c : Nat} {ks : List HTree} {n : HTree} (hl : ks.getLast? = some n) (hn : n.handle ≠ c) :
    ∃ n', (rk c ks).getLast? = some n' ∧ n'.value = n.value := by
  induction ks with
  | nil => simp at hl
  | cons k ks ih =>
    cases ks with
    | nil =>
      simp only [List.getLast?_singleton, Option.some.injEq] at hl
      subst hl
      rw [rk_cons_ne c k [] hn]
      exact ⟨rb c k, by simp [rk, replaceKids], by simp⟩
    | cons b rest =>
      rw [List.getLast?_cons_cons] at hl
      by_cases hk : k.handle = c
      · rw [rk_cons_eq c k _ hk]; exact ⟨n, hl, rfl⟩
      · obtain ⟨n', h1, h2⟩ := ih hl
        rw [rk_cons_ne c k _ hk]
        refine ⟨n', ?_, h2⟩
        cases hr : rk c (b :: rest) with
        | nil => rw [hr] at h1; simp at h1
        | cons y ys => rw [hr] at h1; rw [List.getLast?_cons_cons]; exact h1

theorem lastText_rk {c : Nat} {ks : List HTree}
    (h : ∀ n, ks.getLast? = some n → n.handle ≠ c ∧ n.value.isText = false) : lastText (rk c ks) = false := by
  cases hl : ks.getLast? with
  | none =>
    rw [List.getLast?_eq_none_iff] at hl; subst hl; simp [rk, replaceKids]
  | some n =>
    obtain ⟨h1, h2⟩ := h n hl
    obtain ⟨n', e1, e2⟩ := getLast?_rk hl h1
    unfold lastText lastB textFlags
    rw [List.getLast?_map, e1]
    simp [e2, h2]

namespace Forest

/-- In strict mode the neighbours of `c` are not both text, so that `c` may be cut. -/
def CutOK (f : Forest) (c : Nat) : Prop :=
  f.everOff = false → ∀ ctx, f.ctx? c = some ctx → (lastText ctx.left && headText ctx.right) = false

theorem cut_inv {f : Forest} (hi : f.Inv) {c : Nat} {path l C r} (lc : Loc f.roots c path l C r)
    (hcut : f.CutOK c) : ({ f with roots := plug path (l ++ r) } : Forest).Inv := by
  obtain ⟨k1, k2⟩ := hi.kids_at lc.eq
  apply hi.edit (handles C) lc.eq
  · simp only [fi_handlesList_append, fi_handlesList_cons, List.append_assoc]
    exact List.Perm.append_left _ List.perm_append_comm
  · cases hiv : innerValue path with
    | none => rfl
    | some pv =>
      rw [hiv] at k1
      have hne : path ≠ [] := by intro h; subst h; simp at hiv
      obtain ⟨pp, hctx⟩ := ctx?_of_loc_ne lc hne hi.nodup
      refine (kidsOK_iff _ _ _).mpr (((kidsOK_iff _ _ _).mp k1).remove ?_)
      intro hs
      exact hcut (by simpa using hs) _ hctx
  · simp only [validList_append, validList_cons, Bool.and_eq_true] at k2 ⊢
    exact ⟨k2.1, k2.2.2⟩

/-- The invariant from a permutation of the handles and validity of the new roots. -/
theorem Inv.of_perm {f f' : Forest} (hi : f.Inv) (hc : f'.corrupt = f.corrupt) (hn : f'.next = f.next)
    (he : f'.everOff = f.everOff) (hco : f'.consolidation = f.consolidation)
    (hp : f'.allHandles.Perm f.allHandles) (hv : validList (!f.everOff) f'.roots = true) : f'.Inv := by
  obtain ⟨h1, h2, h3, _, h5⟩ := hi
  refine ⟨by rw [hc]; exact h1, hp.symm.nodup h2, ?_, by rw [he]; exact hv, by rw [hco, he]; exact h5⟩
  intro h hh
  rw [hn]; exact h3 h (hp.subset hh)

/-- The state after cutting `c`, seen from another located node `x` that is not inside `c`. -/
theorem place_after_cut {g : Forest} (hi : g.Inv) {c x : Nat} {cv : Value}
    (hcv : g.value? c = some cv) (hcut : g.CutOK c)
    {path lx K rx} (lx' : Loc g.roots x path lx K rx) (hanc : (g.ancestors x).contains c = false) :
    ∃ g' t, g.cut c = (g', some t) ∧ g'.Inv ∧ t.value = cv ∧ validTree (!g.everOff) t = true ∧
      (g'.allHandles ++ handles t).Perm g.allHandles ∧
      g'.roots = plug (cutPath c path) (rk c lx ++ rb c K :: rk c rx) ∧
      g'.corrupt = g.corrupt ∧ g'.next = g.next ∧ g'.everOff = g.everOff ∧
      g'.consolidation = g.consolidation := by
  have hc : c ∈ g.allHandles := mem_allHandles_of_isLive (isLive_of_value? hcv)
  obtain ⟨t, hget, hcutEq⟩ := cut_of_loc_other lx' hi.nodup hc hanc
  obtain ⟨pathc, lc, C, rc, locc⟩ := exists_loc hc
  have e1 := cut_of_loc locc hi.nodup
  have hg := get?_of_loc locc hi.nodup
  rw [hget] at hg; cases hg
  have hinv := cut_inv hi locc hcut
  rw [hcutEq] at e1
  simp only [Prod.mk.injEq, and_true] at e1
  refine ⟨_, t, hcutEq, ?_, ?_, hi.validTree_of_loc locc, cut_perm hi.nodup hcutEq, rfl, rfl, rfl, rfl, rfl⟩
  · rw [e1]; exact hinv
  · have := value?_of_loc locc hi.nodup
    rw [hcv] at this; exact (Option.some.inj this).symm

/-- Finish: new content `ks'` in the hole of the cut state, containing the cut tree `t` again. -/
theorem Inv.place {g g' : Forest} (hi : g.Inv) (hi' : g'.Inv) {t : HTree}
    (hperm : (g'.allHandles ++ handles t).Perm g.allHandles)
    (hc : g'.corrupt = g.corrupt) (hn : g'.next = g.next) (he : g'.everOff = g.everOff)
    (hco : g'.consolidation = g.consolidation)
    {path' : List ZipFrame} {ks ks' : List HTree} (hroots : g'.roots = plug path' ks)
    (hks : (handlesList ks').Perm (handlesList ks ++ handles t))
    (hk : kidsOKopt (!g.everOff) (innerValue path') ks' = true)
    (hl : validList (!g.everOff) ks' = true) : ({ g' with roots := plug path' ks' } : Forest).Inv := by
  refine Inv.of_perm (f' := { g' with roots := plug path' ks' }) hi hc hn he hco ?_ ?_
  · refine List.Perm.trans ?_ hperm
    unfold allHandles
    simp only
    rw [hroots]
    refine (handlesList_plug_perm path' ks').trans
      (List.Perm.trans ?_ ((handlesList_plug_perm path' ks).symm.append_right _))
    rw [List.append_assoc]
    exact List.Perm.append_left _ hks
  · have hv := hi'.valid
    rw [hroots, he] at hv
    exact valid_plug_replace _ path' ks ks' hv hk hl

theorem kidAllowed_of_parent {pv cv : Value} (hp : pv.isElement = true ∨ pv.isDocument = true)
    (hn : cv.category = .normal) (hd : cv.isDocument = false) : kidAllowed pv cv = true := by
  cases pv <;> simp_all [kidAllowed, Value.isElement, Value.isDocument, Value.isNormal]

/-- `checked_append` (cut `c`, make it the last child of `p`). -/
theorem checkedAppend_inv {g : Forest} (hi : g.Inv) {p c : Nat} {cv pv : Value}
    (hcv : g.value? c = some cv) (hcn : cv.category = .normal) (hcd : cv.isDocument = false)
    (hpv : g.value? p = some pv) (hpk : pv.isElement = true ∨ pv.isDocument = true)
    (hcut : g.CutOK c)
    (htext : g.everOff = false → cv.isText = true → ∀ K, g.get? p = some K →
      ∀ n, K.kids.getLast? = some n → n.handle ≠ c ∧ n.value.isText = false) :
    (g.checkedAppend p c).1.Inv := by
  unfold checkedAppend
  split
  · exact hi
  · rename_i hcond
    have hanc : (g.ancestors p).contains c = false := by
      simp only [Bool.or_eq_true, decide_eq_true_eq, not_or, Bool.not_eq_true] at hcond
      exact hcond.2
    obtain ⟨path, lp, K, rp, locp⟩ := exists_loc (mem_allHandles_of_isLive (isLive_of_value? hpv))
    obtain ⟨g', t, hcutEq, hi', htv, htvalid, hperm, hroots, h1, h2, h3, h4⟩ :=
      place_after_cut hi hcv hcut locp hanc
    rw [hcutEq]
    simp only
    have locp' : Loc g'.roots p (cutPath c path) (rk c lp) (rb c K) (rk c rp) :=
      ⟨hroots, by simp [locp.hk]⟩
    rw [placeLast_of_loc t locp' hi'.nodup]
    have hKv : K.value = pv := by
      have := value?_of_loc locp hi.nodup; rw [hpv] at this; exact (Option.some.inj this).symm
    have hroots2 : g'.roots = plug (cutPath c path ++ [⟨rk c lp, p, pv, rk c rp⟩]) (rk c K.kids) := by
      rw [hroots, plug_append, rb_eq, locp.hk, hKv]; rfl
    have hfin : plug (cutPath c path) (rk c lp ++ (rb c K).setKids ((rb c K).kids ++ [t]) :: rk c rp)
        = plug (cutPath c path ++ [⟨rk c lp, p, pv, rk c rp⟩]) (rk c K.kids ++ [t]) := by
      rw [plug_append, rb_eq, locp.hk, hKv]; rfl
    rw [hfin]
    obtain ⟨k1, k2⟩ := hi'.kids_at hroots2
    rw [h3] at k1 k2
    apply hi.place hi' hperm h1 h2 h3 h4 hroots2
    · simp
    · rw [innerValue_snoc] at k1 ⊢
      refine (kidsOK_iff _ _ _).mpr ?_
      have K0 : KidsOK (!g.everOff) pv (rk c K.kids ++ []) := by simpa using (kidsOK_iff _ _ _).mp k1
      refine K0.insert (by rw [htv]; exact kidAllowed_of_parent hpk hcn hcd) ?_ (by simp) (Or.inl (by rw [htv]; exact hcn)) ?_
      · intro y _
        simp only [rankOf, htv, hcn, Category.rank]
        exact fi_rank_le_two _
      · intro hs htt
        refine ⟨?_, rfl⟩
        apply lastText_rk
        exact htext (by simpa using hs) (by rw [← htv]; exact htt) K (get?_of_loc locp hi.nodup)
    · simp [k2, htvalid]

/-- `checked_prepend` (cut `c`, make it the first child of `p`): for a parent whose children are
    all normal. -/
theorem checkedPrepend_inv {g : Forest} (hi : g.Inv) {p c : Nat} {cv pv : Value}
    (hcv : g.value? c = some cv) (hcn : cv.category = .normal) (hcd : cv.isDocument = false)
    (hpv : g.value? p = some pv) (hpk : pv.isElement = true ∨ pv.isDocument = true)
    (hcut : g.CutOK c)
    (hnorm : ∀ K, g.get? p = some K → ∀ y ∈ K.kids, y.value.category = .normal)
    (htext : g.everOff = false → cv.isText = true → ∀ K, g.get? p = some K →
      ∀ n rest, K.kids = n :: rest → n.handle ≠ c ∧ n.value.isText = false) :
    (g.checkedPrepend p c).1.Inv := by
  unfold checkedPrepend
  split
  · exact hi
  · rename_i hcond
    have hanc : (g.ancestors p).contains c = false := by
      simp only [Bool.or_eq_true, decide_eq_true_eq, not_or, Bool.not_eq_true] at hcond
      exact hcond.2
    obtain ⟨path, lp, K, rp, locp⟩ := exists_loc (mem_allHandles_of_isLive (isLive_of_value? hpv))
    obtain ⟨g', t, hcutEq, hi', htv, htvalid, hperm, hroots, h1, h2, h3, h4⟩ :=
      place_after_cut hi hcv hcut locp hanc
    rw [hcutEq]
    simp only
    have locp' : Loc g'.roots p (cutPath c path) (rk c lp) (rb c K) (rk c rp) :=
      ⟨hroots, by simp [locp.hk]⟩
    rw [placeFirst_of_loc t locp' hi'.nodup]
    have hKv : K.value = pv := by
      have := value?_of_loc locp hi.nodup; rw [hpv] at this; exact (Option.some.inj this).symm
    have hroots2 : g'.roots = plug (cutPath c path ++ [⟨rk c lp, p, pv, rk c rp⟩]) (rk c K.kids) := by
      rw [hroots, plug_append, rb_eq, locp.hk, hKv]; rfl
    have hfin : plug (cutPath c path) (rk c lp ++ (rb c K).setKids (t :: (rb c K).kids) :: rk c rp)
        = plug (cutPath c path ++ [⟨rk c lp, p, pv, rk c rp⟩]) ([] ++ t :: rk c K.kids) := by
      rw [plug_append, rb_eq, locp.hk, hKv]; rfl
    rw [hfin]
    obtain ⟨k1, k2⟩ := hi'.kids_at hroots2
    rw [h3] at k1 k2
    apply hi.place hi' hperm h1 h2 h3 h4 hroots2
    · simp only [List.nil_append, fi_handlesList_cons]
      exact List.perm_append_comm
    · rw [innerValue_snoc] at k1 ⊢
      refine (kidsOK_iff _ _ _).mpr ?_
      have K0 : KidsOK (!g.everOff) pv ([] ++ rk c K.kids) := by simpa using (kidsOK_iff _ _ _).mp k1
      refine K0.insert (by rw [htv]; exact kidAllowed_of_parent hpk hcn hcd) (by simp) ?_ (Or.inl (by rw [htv]; exact hcn)) ?_
      · intro y hy
        obtain ⟨z, hz, e1, _⟩ := mem_rk hy
        have := hnorm K (get?_of_loc locp hi.nodup) z hz
        simp [rankOf, htv, hcn, e1, this]
      · intro hs htt
        refine ⟨rfl, ?_⟩
        apply headText_rk
        exact htext (by simpa using hs) (by rw [← htv]; exact htt) K (get?_of_loc locp hi.nodup)
    · simp [k2, htvalid]

/-- All children to the right of a normal child are normal. -/
theorem _root_.XotModel.KidsOK.right_normal {s : Bool} {v : Value} {a : List HTree} {S : HTree} {b : List HTree}
    (h : KidsOK s v (a ++ S :: b)) :
    ∀ y ∈ b, rankOf S ≤ rankOf y := by
  have h2 := h.sorted
  unfold Sorted at h2
  simp only [List.map_append, List.map_cons, List.pairwise_append, List.pairwise_cons,
    List.mem_map, forall_exists_index, and_imp, forall_apply_eq_imp_iff₂] at h2
  intro y hy
  exact h2.2.1.1 y hy

/-- `checked_insert_after` (cut `c`, put it right after the non-root node `ref`, whose right
    siblings are all normal). -/
theorem checkedInsertAfter_inv {g : Forest} (hi : g.Inv) {ref c : Nat} {cv sv : Value}
    (hcv : g.value? c = some cv) (hcn : cv.category = .normal) (hcd : cv.isDocument = false)
    (hsv : g.value? ref = some sv)
    (hright : ∀ ctx, g.ctx? ref = some ctx → ∀ y ∈ ctx.right, y.value.category = .normal)
    (hroot : g.isRoot ref = false) (hanc : (g.ancestors ref).contains c = false)
    (hcut : g.CutOK c)
    (htext : g.everOff = false → cv.isText = true → sv.isText = false ∧
      ∀ ctx, g.ctx? ref = some ctx → ∀ n rest, ctx.right = n :: rest → n.handle ≠ c ∧ n.value.isText = false) :
    (g.checkedInsertAfter ref c).1.Inv := by
  unfold checkedInsertAfter
  split
  · exact hi
  · simp only [hanc, hroot, Bool.or_self, Bool.false_eq_true, if_false]
    obtain ⟨path, lr, S, rr, locr⟩ := exists_loc (mem_allHandles_of_isLive (isLive_of_value? hsv))
    have hne : path ≠ [] := by
      intro h; subst h; rw [isRoot_of_loc_nil locr] at hroot; cases hroot
    obtain ⟨g', t, hcutEq, hi', htv, htvalid, hperm, hroots, h1, h2, h3, h4⟩ :=
      place_after_cut hi hcv hcut locr hanc
    rw [hcutEq]
    simp only
    have locr' : Loc g'.roots ref (cutPath c path) (rk c lr) (rb c S) (rk c rr) :=
      ⟨hroots, by simp [locr.hk]⟩
    have hne' : cutPath c path ≠ [] := by simpa [cutPath] using hne
    rw [placeAfter_of_loc_ne t locr' hne' hi'.nodup]
    have hSv : S.value = sv := by
      have := value?_of_loc locr hi.nodup; rw [hsv] at this; exact (Option.some.inj this).symm
    obtain ⟨k1, k2⟩ := hi'.kids_at hroots
    rw [h3] at k1 k2
    have hfin : rk c lr ++ rb c S :: t :: rk c rr = (rk c lr ++ [rb c S]) ++ t :: rk c rr := by simp
    rw [hfin]
    apply hi.place hi' hperm h1 h2 h3 h4 hroots
    · simp only [fi_handlesList_append, fi_handlesList_cons, fi_handlesList_nil, List.append_nil, List.append_assoc]
      refine List.Perm.append_left _ (List.Perm.append_left _ ?_)
      exact List.perm_append_comm
    · cases hiv : innerValue (cutPath c path) with
      | none =>
        exfalso
        obtain ⟨fr, rest, e⟩ := List.exists_cons_of_ne_nil hne'
        rw [e] at hiv
        simp [innerValue] at hiv
      | some pv =>
        rw [hiv] at k1
        refine (kidsOK_iff _ _ _).mpr ?_
        have K0 := (kidsOK_iff _ _ _).mp k1
        have K1 : KidsOK (!g.everOff) pv ((rk c lr ++ [rb c S]) ++ rk c rr) := by simpa using K0
        have hpk := parent_kind_of_kidsOK K0 (k := rb c S) (by simp)
        obtain ⟨pp, hctx0⟩ := ctx?_of_loc_ne locr hne hi.nodup
        refine K1.insert (by rw [htv]; exact kidAllowed_of_parent hpk hcn hcd) ?_ ?_ (Or.inl (by rw [htv]; exact hcn)) ?_
        · intro y _
          simp only [rankOf, htv, hcn, Category.rank]
          exact fi_rank_le_two _
        · intro y hy
          obtain ⟨z, hz, e1, _⟩ := mem_rk hy
          have := hright _ hctx0 z hz
          simp [rankOf, htv, hcn, e1, this]
        · intro hs htt
          obtain ⟨e1, e2⟩ := htext (by simpa using hs) (by rw [← htv]; exact htt)
          refine ⟨by simp [hSv, e1], ?_⟩
          apply headText_rk
          obtain ⟨pp, hctx⟩ := ctx?_of_loc_ne locr hne hi.nodup
          exact e2 _ hctx
    · simp only [validList_append, validList_cons, validList_nil, Bool.and_true, Bool.and_eq_true] at k2 ⊢
      exact ⟨⟨k2.1, k2.2.1⟩, htvalid, k2.2.2⟩

/-- `checked_insert_before` (cut `c`, put it right before the non-root normal node `ref`). -/
theorem checkedInsertBefore_inv {g : Forest} (hi : g.Inv) {ref c : Nat} {cv sv : Value}
    (hcv : g.value? c = some cv) (hcn : cv.category = .normal) (hcd : cv.isDocument = false)
    (hsv : g.value? ref = some sv) (hsn : sv.category = .normal)
    (hroot : g.isRoot ref = false) (hanc : (g.ancestors ref).contains c = false)
    (hcut : g.CutOK c)
    (htext : g.everOff = false → cv.isText = true → sv.isText = false ∧
      ∀ ctx, g.ctx? ref = some ctx → ∀ n, ctx.left.getLast? = some n → n.handle ≠ c ∧ n.value.isText = false) :
    (g.checkedInsertBefore ref c).1.Inv := by
  unfold checkedInsertBefore
  split
  · exact hi
  · simp only [hanc, hroot, Bool.or_self, Bool.false_eq_true, if_false]
    obtain ⟨path, lr, S, rr, locr⟩ := exists_loc (mem_allHandles_of_isLive (isLive_of_value? hsv))
    have hne : path ≠ [] := by
      intro h; subst h; rw [isRoot_of_loc_nil locr] at hroot; cases hroot
    obtain ⟨g', t, hcutEq, hi', htv, htvalid, hperm, hroots, h1, h2, h3, h4⟩ :=
      place_after_cut hi hcv hcut locr hanc
    rw [hcutEq]
    simp only
    have locr' : Loc g'.roots ref (cutPath c path) (rk c lr) (rb c S) (rk c rr) :=
      ⟨hroots, by simp [locr.hk]⟩
    have hne' : cutPath c path ≠ [] := by simpa [cutPath] using hne
    rw [placeBefore_of_loc_ne t locr' hne' hi'.nodup]
    have hSv : S.value = sv := by
      have := value?_of_loc locr hi.nodup; rw [hsv] at this; exact (Option.some.inj this).symm
    obtain ⟨k1, k2⟩ := hi'.kids_at hroots
    rw [h3] at k1 k2
    apply hi.place hi' hperm h1 h2 h3 h4 hroots
    · simp only [fi_handlesList_append, fi_handlesList_cons, List.append_assoc]
      refine List.Perm.append_left _ ?_
      refine List.perm_append_comm.trans ?_
      simp only [List.append_assoc]
      exact List.Perm.refl _
    · cases hiv : innerValue (cutPath c path) with
      | none =>
        exfalso
        obtain ⟨fr, rest, e⟩ := List.exists_cons_of_ne_nil hne'
        rw [e] at hiv
        simp [innerValue] at hiv
      | some pv =>
        rw [hiv] at k1
        refine (kidsOK_iff _ _ _).mpr ?_
        have K0 := (kidsOK_iff _ _ _).mp k1
        have hpk := parent_kind_of_kidsOK K0 (k := rb c S) (by simp)
        have hSn : (rb c S).value.category = .normal := by rw [rb_value, hSv]; exact hsn
        refine K0.insert (by rw [htv]; exact kidAllowed_of_parent hpk hcn hcd) ?_ ?_ (Or.inl (by rw [htv]; exact hcn)) ?_
        · intro y _
          simp only [rankOf, htv, hcn, Category.rank]
          exact fi_rank_le_two _
        · intro y hy
          rw [List.mem_cons] at hy
          rcases hy with hy | hy
          · subst hy; simp [rankOf, htv, hcn, hSv, hsn]
          · have := K0.right_normal y hy
            rw [rankOf_normal hSn] at this
            simpa [rankOf, htv, hcn, Category.rank] using this
        · intro hs htt
          obtain ⟨e1, e2⟩ := htext (by simpa using hs) (by rw [← htv]; exact htt)
          refine ⟨?_, by simp [hSv, e1]⟩
          apply lastText_rk
          obtain ⟨pp, hctx⟩ := ctx?_of_loc_ne locr hne hi.nodup
          exact e2 _ hctx
    · simp only [validList_append, validList_cons, Bool.and_eq_true] at k2 ⊢
      exact ⟨k2.1, htvalid, k2.2.1, k2.2.2⟩

/-- In a valid forest everything to the right of a normal node is normal. -/
theorem right_normal_of_normal {g : Forest} (hi : g.Inv) {ref : Nat} {sv : Value}
    (hsv : g.value? ref = some sv) (hsn : sv.category = .normal) :
    ∀ ctx, g.ctx? ref = some ctx → ∀ y ∈ ctx.right, y.value.category = .normal := by
  intro ctx hctx y hy
  obtain ⟨path, lr, S, rr, locr⟩ := exists_loc (mem_allHandles_of_isLive (isLive_of_value? hsv))
  have hSv : S.value = sv := by
    have := value?_of_loc locr hi.nodup; rw [hsv] at this; exact (Option.some.inj this).symm
  rcases List.eq_nil_or_concat path with hp0 | ⟨init, fr, hp0⟩
  · subst hp0; rw [ctx?_of_loc_nil locr hi.nodup] at hctx; cases hctx
  rw [List.concat_eq_append] at hp0
  subst hp0
  rw [ctx?_of_loc_snoc locr hi.nodup] at hctx
  cases hctx
  obtain ⟨k1, _⟩ := hi.kids_at locr.eq
  rw [innerValue_snoc] at k1
  have K0 := (kidsOK_iff _ _ _).mp k1
  have hSn : S.value.category = .normal := by rw [hSv]; exact hsn
  have := K0.right_normal y hy
  rw [rankOf_normal hSn] at this
  exact category_normal_of_rank this

end Forest
end XotModel
