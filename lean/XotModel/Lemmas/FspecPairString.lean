/-
  FspecPairString — the moves keep all character data, for EVERY forest with the invariant (no
  `Forest.Normal`): the pair merges of `Model/FspecSpec3.lean` (`mergeAdj`, `mergeNew`) change no
  string value, so the pair reading `specMoveP` of a move assigns to every non-text node exactly
  the string value the unmerged move (`plainMove`: cut, graft, nothing merged) assigns, and — the
  four moves being `specMoveP` (`append_pair`, `prepend_pair`, `insertAfter_pair`,
  `insertBefore_pair`; since xot eccbbb7 also in the corner `Spec.selfMerge`) — so do `append`,
  `prepend`, `insert_after`, `insert_before`.
-/
import XotModel.Lemmas.FspecString
import XotModel.Lemmas.FspecPairBefore4
import XotModel.Lemmas.FspecPairAppend4
import XotModel.Lemmas.FspecPairAfter3

namespace XotModel
open HTree Spec

/-- A function on child lists that keeps the character data, the string values of the non-text
    nodes and the leaf property of text nodes. -/
def TextKeeping (g : List HTree → List HTree) : Prop :=
  ∀ L, klList L = true →
    textList (g L) = textList L ∧ strValuesList (g L) = strValuesList L ∧ klList (g L) = true

theorem textKeeping_id : TextKeeping id := fun _ h => ⟨rfl, rfl, h⟩

mutual
  /-- A text-keeping edit at one site changes no string value. -/
  theorem text_editAt_keep (p : Nat) {g : List HTree → List HTree} (hg : TextKeeping g) :
      ∀ t : HTree, kl t = true →
      HTree.text (HTree.editAt p g t) = HTree.text t ∧ strValues (HTree.editAt p g t) = strValues t
    | .node h v ks => by
      intro hk
      rw [kl_node] at hk
      rw [editAt_node]
      by_cases hh : h = p
      · rw [if_pos hh]
        obtain ⟨i1, i2, _⟩ := hg ks hk
        rw [text_node, text_node, strValues_node, strValues_node, text_node, text_node, i1, i2]
        exact ⟨rfl, rfl⟩
      · rw [if_neg hh]
        obtain ⟨i1, i2⟩ := textList_editAt_keep p hg ks hk
        rw [text_node, text_node, strValues_node, strValues_node, text_node, text_node, i1, i2]
        exact ⟨rfl, rfl⟩
  theorem textList_editAt_keep (p : Nat) {g : List HTree → List HTree} (hg : TextKeeping g) :
      ∀ ks : List HTree, klList ks = true →
      textList (ks.map (HTree.editAt p g)) = textList ks ∧
      strValuesList (ks.map (HTree.editAt p g)) = strValuesList ks
    | [] => fun _ => ⟨rfl, rfl⟩
    | k :: ks => by
      intro hl
      obtain ⟨_, h2⟩ := klList_iff.1 hl
      have hks : klList ks = true := by
        rw [klList_cons, Bool.and_eq_true] at hl; exact hl.2
      obtain ⟨i1, i2⟩ := text_editAt_keep p hg k (h2 k List.mem_cons_self)
      obtain ⟨j1, j2⟩ := textList_editAt_keep p hg ks hks
      rw [List.map_cons, textList_cons, textList_cons, strValuesList_cons, strValuesList_cons, i1, i2, j1, j2]
      exact ⟨rfl, rfl⟩
end

/-! ### The pair merges keep the text -/

theorem klList_tail {k : HTree} {ks : List HTree} (h : klList (k :: ks) = true) : klList ks = true := by
  rw [klList_cons, Bool.and_eq_true] at h; exact h.2

theorem klList_cons_of {k : HTree} {ks : List HTree} (h1 : k.value.isText = true → k.kids = [])
    (h2 : kl k = true) (h3 : klList ks = true) : klList (k :: ks) = true := by
  rw [klList_cons, h2, h3]
  cases ht : k.value.isText with
  | false => rfl
  | true => simp [h1 ht]

/-- Two adjacent text leaves replaced by one text leaf carrying both data. -/
theorem pair_keeps {x y j : HTree} {s u : Str} {rest : List HTree} (hx : x.value = .text s)
    (hy : y.value = .text u) (hjv : j.value = .text (s ++ u)) (hjk : j.kids = [])
    (h : klList (x :: y :: rest) = true) :
    textList (j :: rest) = textList (x :: y :: rest) ∧
    strValuesList (j :: rest) = strValuesList (x :: y :: rest) ∧ klList (j :: rest) = true := by
  obtain ⟨h1, _⟩ := klList_iff.1 h
  have hxt : x.value.isText = true := by rw [hx]; rfl
  have hyt : y.value.isText = true := by rw [hy]; rfl
  have hjt : j.value.isText = true := by rw [hjv]; rfl
  have xk := h1 x (by simp) hxt
  have yk := h1 y (by simp) hyt
  refine ⟨?_, ?_, ?_⟩
  · rw [textList_cons, textList_cons, textList_cons, text_of_text_leaf hjv hjk, text_of_text_leaf hx xk,
      text_of_text_leaf hy yk, List.append_assoc]
  · rw [strValuesList_cons, strValuesList_cons, strValuesList_cons, strValues_of_text_leaf hjt hjk,
      strValues_of_text_leaf hxt xk, strValues_of_text_leaf hyt yk]
    rfl
  · exact klList_cons_of (fun _ => hjk) (kl_of_leaf hjk) (klList_tail (klList_tail h))

theorem joinLeft_keeps {x y : HTree} {rest : List HTree} (h : klList (x :: y :: rest) = true) :
    textList (((joinLeft x y).map (fun j => j :: rest)).getD (x :: y :: rest)) = textList (x :: y :: rest) ∧
    strValuesList (((joinLeft x y).map (fun j => j :: rest)).getD (x :: y :: rest)) =
      strValuesList (x :: y :: rest) ∧
    klList (((joinLeft x y).map (fun j => j :: rest)).getD (x :: y :: rest)) = true := by
  by_cases hb : x.value.isText = true ∧ y.value.isText = true
  · obtain ⟨s, hs⟩ := isText_iff_textData.1 hb.1
    obtain ⟨u, hu⟩ := isText_iff_textData.1 hb.2
    have hx := textData_some hs
    have hy := textData_some hu
    rw [joinLeft_text hx hy]
    simp only [Option.map_some, Option.getD_some]
    have xk := (klList_iff.1 h).1 x (by simp) hb.1
    exact pair_keeps hx hy (setValue_value _ x) (by rw [setValue_kids]; exact xk) h
  · rw [joinLeft_none hb]
    exact ⟨rfl, rfl, h⟩

theorem mergeNewHead_keeps {t : HTree} {rest : List HTree} (h : klList (t :: rest) = true) :
    textList (mergeNewHead t rest) = textList (t :: rest) ∧
    strValuesList (mergeNewHead t rest) = strValuesList (t :: rest) ∧
    klList (mergeNewHead t rest) = true := by
  cases rest with
  | nil => exact ⟨rfl, rfl, h⟩
  | cons z rest =>
    by_cases hb : t.value.isText = true ∧ z.value.isText = true
    · obtain ⟨s, hs⟩ := isText_iff_textData.1 hb.1
      obtain ⟨u, hu⟩ := isText_iff_textData.1 hb.2
      have ht := textData_some hs
      have hz := textData_some hu
      rw [mergeNewHead_text ht hz]
      have zk := (klList_iff.1 h).1 z (by simp) hb.2
      exact pair_keeps ht hz (setValue_value _ z) (by rw [setValue_kids]; exact zk) h
    · rw [mergeNewHead_other hb]
      exact ⟨rfl, rfl, h⟩

theorem cons_keeps {x : HTree} {L L' : List HTree} (hx : klList (x :: L) = true)
    (h : textList L' = textList L ∧ strValuesList L' = strValuesList L ∧ klList L' = true) :
    textList (x :: L') = textList (x :: L) ∧ strValuesList (x :: L') = strValuesList (x :: L) ∧
    klList (x :: L') = true := by
  obtain ⟨h1, h2, h3⟩ := h
  obtain ⟨t1, t2⟩ := klList_iff.1 hx
  refine ⟨?_, ?_, ?_⟩
  · rw [textList_cons, textList_cons, h1]
  · rw [strValuesList_cons, strValuesList_cons, h2]
  · exact klList_cons_of (t1 x (by simp)) (t2 x (by simp)) h3

theorem mergeAdj_keeps (a b : Nat) : TextKeeping (mergeAdj a b)
  | [], h => by rw [mergeAdj_nil]; exact ⟨rfl, rfl, h⟩
  | [x], h => by rw [mergeAdj_single]; exact ⟨rfl, rfl, h⟩
  | x :: y :: rest, h => by
    rw [mergeAdj_cons_cons]
    split
    · exact joinLeft_keeps h
    · exact cons_keeps h (mergeAdj_keeps a b (y :: rest) (klList_tail h))

theorem mergeNew_keeps (n : Nat) : TextKeeping (mergeNew n)
  | [], h => by rw [mergeNew_nil]; exact ⟨rfl, rfl, h⟩
  | [x], h => by rw [mergeNew_single]; exact ⟨rfl, rfl, h⟩
  | x :: y :: rest, h => by
    rw [mergeNew_cons_cons]
    split
    · by_cases hb : x.value.isText = true ∧ y.value.isText = true
      · obtain ⟨s, hs⟩ := isText_iff_textData.1 hb.1
        obtain ⟨u, hu⟩ := isText_iff_textData.1 hb.2
        have hx := textData_some hs
        have hy := textData_some hu
        rw [joinLeft_text hx hy]
        simp only [Option.map_some, Option.getD_some]
        have xk := (klList_iff.1 h).1 x (by simp) hb.1
        exact pair_keeps hx hy (setValue_value _ x) (by rw [setValue_kids]; exact xk) h
      · rw [joinLeft_none hb]
        simp only [Option.map_none, Option.getD_none]
        exact cons_keeps h (mergeNewHead_keeps (klList_tail h))
    · split
      · exact mergeNewHead_keeps h
      · exact cons_keeps h (mergeNew_keeps n (y :: rest) (klList_tail h))

/-! ### The pair merges at a site of the forest -/

theorem strValues_editAt_keep {X : Forest} (p : Nat) {g : List HTree → List HTree} (hg : TextKeeping g)
    (h : klList X.roots = true) : (X.editAt (some p) g).strValues = X.strValues :=
  (textList_editAt_keep p hg X.roots h).2

theorem strValues_mergeLeftAt {X : Forest} (s : Option Nat) (nb : Option Nat × Option Nat)
    (h : klList X.roots = true) : (X.mergeLeftAt s nb).strValues = X.strValues := by
  unfold Forest.mergeLeftAt
  split
  · split
    · exact strValues_editAt_keep _ (mergeAdj_keeps _ _) h
    · rfl
  · rfl

theorem klList_mergeLeftAt {X : Forest} (s : Option Nat) (nb : Option Nat × Option Nat)
    (h : klList X.roots = true) (hs : ∀ p, s = some p → siteOkList p X.roots = true) :
    klList (X.mergeLeftAt s nb).roots = true := by
  unfold Forest.mergeLeftAt
  split
  · rename_i p a b
    split
    · exact klList_editAt (fun L hL => (mergeAdj_keeps a b L hL).2.2) X.roots h (hs p rfl)
    · exact h
  · exact h

theorem strValues_mergeNewAt {X : Forest} (q n : Nat) (h : klList X.roots = true) :
    (X.mergeNewAt q n).strValues = X.strValues := by
  unfold Forest.mergeNewAt
  split
  · exact strValues_editAt_keep _ (mergeNew_keeps _) h
  · rfl

/-- **String values, pair reading**: the specification `specMoveP` of a move assigns to every
    non-text node the string value the unmerged move assigns (same nodes, same document order),
    for every forest with the invariant — adjacent text nodes allowed. -/
theorem specMoveP_strValues {f : Forest} {dest : Dest} {c : Nat} {t : HTree} {q : Nat} {vq : Value}
    {Lq : List HTree} (inv : f.Inv) (hgc : f.get? c = some t) (sq : SiteAt f q vq Lq) (hqt : q ∉ handles t)
    (hvq : vq.isText = false) (hsite : dest.site f = some q) :
    (specMoveP dest c f).strValues = (plainMove dest c f).strValues := by
  have nd := inv.nodup
  let f0 : Forest := { f with consolidation := false }
  have hocc0 : dest.occupiedBy f0 c = dest.occupiedBy f c := by cases dest <;> rfl
  have hsite0 : dest.site f0 = dest.site f := by cases dest <;> rfl
  unfold plainMove
  cases hocc : dest.occupiedBy f c with
  | true =>
    have h1 : specMoveP dest c f = f := by unfold specMoveP; rw [hocc]; rfl
    have h2 : specMove Keep.earlier dest c f0 = f0 := by unfold specMove; rw [hocc0, hocc]; rfl
    rw [h1, h2]; rfl
  | false =>
    rw [specMoveP_unfold hocc hgc hsite]
    have hgc0 : f0.get? c = some t := hgc
    rw [specMove_unfold (f := f0) (by rw [hocc0]; exact hocc) hgc0 (by rw [hsite0]; exact hsite)]
    have hc0 : ∀ (Z : Forest), Z.consolidation = false → ∀ s, Z.mergeAt Keep.earlier s = Z :=
      fun Z h s => mergeAt_off h Keep.earlier s
    have hpar0 : f0.parent? c = f.parent? c := rfl
    rw [hpar0]
    have e0 : (((f0.editAt (f.parent? c) (dropTop c)).editAt (some q) (dest.insert t)).mergeAt Keep.earlier
        (f.parent? c)).mergeAt Keep.earlier (some q) =
          (f0.editAt (f.parent? c) (dropTop c)).editAt (some q) (dest.insert t) := by
      have hX0 : ((f0.editAt (f.parent? c) (dropTop c)).editAt (some q) (dest.insert t)).consolidation = false := by
        rw [Forest.editAt_consolidation, Forest.editAt_consolidation]
      rw [hc0 _ hX0, hc0 _ hX0]
    rw [e0]
    have eroots : ((f0.editAt (f.parent? c) (dropTop c)).editAt (some q) (dest.insert t)).strValues =
        ((f.editAt (f.parent? c) (dropTop c)).editAt (some q) (dest.insert t)).strValues := by
      cases f.parent? c <;> rfl
    rw [eroots]
    -- leaf property and site conditions
    have hklf : klList f.roots = true := klList_of_valid f.roots inv.valid
    have hklt : kl t = true := klList_find f.roots t hklf hgc
    have htl : t.value.isText = true → t.kids = [] := leaf_of_text inv.valid hgc
    have hsq : siteOkList q f.roots = true :=
      siteOkList_of_find (by simpa [HTree.value] using hvq) f.roots nd sq.kids
    -- after the cut
    have hklZ : klList (f.editAt (f.parent? c) (dropTop c)).roots = true ∧
        siteOkList q (f.editAt (f.parent? c) (dropTop c)).roots = true ∧
        (∀ po, f.parent? c = some po → siteOkList po (f.editAt (f.parent? c) (dropTop c)).roots = true ∧
          siteOk po t = true) := by
      cases hpar : f.parent? c with
      | none =>
        refine ⟨klList_dropTop c hklf, siteOkList_dropTop q c hsq, fun po h => by cases h⟩
      | some po =>
        have hctx : ∃ cx, f.ctx? c = some cx := by
          cases h : f.ctx? c with
          | none => rw [Forest.parent?_of_no_ctx h] at hpar; cases hpar
          | some cx => exact ⟨cx, rfl⟩
        obtain ⟨cx, hctx⟩ := hctx
        obtain ⟨e0', vo, so⟩ := SiteAt.of_ctx nd hctx
        have hpo : cx.parent = po := by
          rw [Forest.parent?_of_ctx hctx] at hpar
          exact Option.some.inj hpar
        rw [hpo] at so
        have hvo : vo.isText = false := site_not_text inv so (by simp)
        have hspo : siteOkList po f.roots = true :=
          siteOkList_of_find (by simpa [HTree.value] using hvo) f.roots nd so.kids
        have hpot : po ∉ handles t := by
          intro hin
          have hself : cx.self = t := by
            have := Forest.get?_of_ctx nd hctx
            rw [hgc] at this
            exact (Option.some.inj this).symm
          apply so.nodupKids.2
          rw [fs_handlesList_append, handlesList_cons, hself]
          exact List.mem_append_right _ (List.mem_append_left _ hin)
        refine ⟨klList_editAt (fun L h => klList_dropTop c h) f.roots hklf hspo,
          siteOkList_editAt (fun L h => siteOkList_dropTop q c h) f.roots hsq, ?_⟩
        intro po' h
        have := Option.some.inj h
        subst this
        exact ⟨siteOkList_editAt (fun L h => siteOkList_dropTop _ c h) f.roots hspo, siteOk_of_not_mem t hpot⟩
    obtain ⟨hklZ, hsqZ, hpoZ⟩ := hklZ
    -- after the graft
    have hklX : klList ((f.editAt (f.parent? c) (dropTop c)).editAt (some q) (dest.insert t)).roots = true :=
      klList_editAt (fun L h => klList_insert dest h hklt htl) _ hklZ hsqZ
    have hspoX : ∀ po, f.parent? c = some po →
        siteOkList po ((f.editAt (f.parent? c) (dropTop c)).editAt (some q) (dest.insert t)).roots = true := by
      intro po h
      obtain ⟨h1, h2⟩ := hpoZ po h
      exact siteOkList_editAt (fun L hL => siteOkList_insert po dest hL h2) _ h1
    -- the two pair merges change no string value
    rw [strValues_mergeNewAt q c (klList_mergeLeftAt _ _ hklX hspoX), strValues_mergeLeftAt _ _ hklX]

/-! ### The four moves -/

theorem append_keeps_strValues {f : Forest} {p c : Nat} (inv : f.Inv) (hok : (f.append p c).2 = .ok) :
    (f.append p c).1.strValues = (plainMove (.lastChildOf p) c f).strValues := by
  rw [append_pair inv hok]
  have nd := inv.nodup
  have hsc : f.structureCheck (some p) c = true := by
    cases h : f.structureCheck (some p) c with
    | true => rfl
    | false => rw [Forest.append_unfold] at hok; simp [h] at hok
  obtain ⟨vp, Lp, t, hgp, hgc, hpt, hnorm, hndoc, hvp⟩ := Forest.structureCheck_unpack nd hsc
  have hvq : vp.isText = false := by
    cases hvp with
    | inl h => cases vp <;> simp_all [Value.isElement, Value.isText]
    | inr h => cases vp <;> simp_all [Value.isDocument, Value.isText]
  exact specMoveP_strValues inv hgc ⟨nd, hgp⟩ hpt hvq (by simp [Dest.site, Forest.isLive_of_get hgp])

theorem prepend_keeps_strValues {f : Forest} {p c : Nat} (inv : f.Inv) (hok : (f.prepend p c).2 = .ok) :
    (f.prepend p c).1.strValues = (plainMove (.firstNormalChildOf p) c f).strValues := by
  rw [prepend_pair inv hok]
  have nd := inv.nodup
  have hsc : f.structureCheck (some p) c = true := by
    cases h : f.structureCheck (some p) c with
    | true => rfl
    | false => rw [prepend_unfold] at hok; simp [h] at hok
  obtain ⟨vp, Lp, t, hgp, hgc, hpt, hnorm, hndoc, hvp⟩ := Forest.structureCheck_unpack nd hsc
  have hvq : vp.isText = false := by
    cases hvp with
    | inl h => cases vp <;> simp_all [Value.isElement, Value.isText]
    | inr h => cases vp <;> simp_all [Value.isDocument, Value.isText]
  exact specMoveP_strValues inv hgc ⟨nd, hgp⟩ hpt hvq (by simp [Dest.site, Forest.isLive_of_get hgp])

theorem insertAfter_keeps_strValues {f : Forest} {r c : Nat} (inv : f.Inv)
    (hok : (f.insertAfter r c).2 = .ok) :
    (f.insertAfter r c).1.strValues = (plainMove (.after r) c f).strValues := by
  rw [insertAfter_pair inv hok]
  have nd := inv.nodup
  have hsc : f.structureCheck (f.parent? r) c = true := by
    cases h : f.structureCheck (f.parent? r) c with
    | true => rfl
    | false => rw [insertAfter_unfold] at hok; simp [h] at hok
  have hsr : f.siblingReferenceCheck r c = true := by
    cases h : f.siblingReferenceCheck r c with
    | true => rfl
    | false => rw [insertAfter_unfold] at hok; simp [hsc, h] at hok
  obtain ⟨q, vq, A, kr, B, t, sq, ekr, hkrn, hrc, hgc, hqt, hnorm, hndoc, hvq⟩ := sibling_checks_unpack nd hsc hsr
  subst ekr
  exact specMoveP_strValues inv hgc sq hqt hvq (by simp only [Dest.site]; exact Forest.parent?_of_ctx sq.ctx)

theorem insertBefore_keeps_strValues {f : Forest} {r c : Nat} (inv : f.Inv)
    (hok : (f.insertBefore r c).2 = .ok) :
    (f.insertBefore r c).1.strValues = (plainMove (.before r) c f).strValues := by
  rw [insertBefore_pair inv hok]
  have nd := inv.nodup
  have hsc : f.structureCheck (f.parent? r) c = true := by
    cases h : f.structureCheck (f.parent? r) c with
    | true => rfl
    | false => rw [insertBefore_unfold] at hok; simp [h] at hok
  have hsr : f.siblingReferenceCheck r c = true := by
    cases h : f.siblingReferenceCheck r c with
    | true => rfl
    | false => rw [insertBefore_unfold] at hok; simp [hsc, h] at hok
  obtain ⟨q, vq, A, kr, B, t, sq, ekr, hkrn, hrc, hgc, hqt, hnorm, hndoc, hvq⟩ := sibling_checks_unpack nd hsc hsr
  subst ekr
  exact specMoveP_strValues inv hgc sq hqt hvq (by simp only [Dest.site]; exact Forest.parent?_of_ctx sq.ctx)

end XotModel
