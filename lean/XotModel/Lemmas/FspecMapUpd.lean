/-
  FspecMapUpd — C05 for the attribute / namespace maps: `MutableNodeMap::insert(key, value)`
  and `remove(key)` touch exactly one entry of one view of one element.

  * list level (no forest): what the specification's list functions `updateEntry`, `insertEntry`
    and the filter of `specMapRemove` do to a child list — exactly one child changes / appears /
    disappears, everything else stays in place;
  * forest level: the model (`Forest.mapInsert`, `Forest.mapRemove`, xot's statement order) equals
    the specification (`Spec.specMapInsert`, `Spec.specMapRemove`, one `editAt` of the element's
    child list) on every forest satisfying the invariant — the forest-level work is shared with
    the C11 development (`Fmap.insert_existing`, `Fmap.place_absent`, `Fmap.remove_present`);
  * the frame of the two specifications: every node under another parent keeps parent, value and
    the handles of its left and right siblings; parentless trees stay parentless.
-/
import XotModel.Model.FspecSpec2
import XotModel.Lemmas.FspecFrame
import XotModel.Lemmas.FmapOps3

namespace XotModel
open HTree Spec
open Forest (MapKind entryKey entryUpdate)

/-! ### Ranks, views and entries -/

theorem kidRank_eq (c : HTree) : kidRank c = c.value.category.rank := by
  unfold kidRank
  cases c.value <;> rfl

theorem viewRank_eq (k : MapKind) : viewRank k = (Fmap.kindCat k).rank := by
  cases k <;> rfl

/-- A child belongs to view `k` iff it has the view's rank. -/
theorem matches_iff_rank (k : MapKind) (c : HTree) : k.matches c.value = true ↔ kidRank c = viewRank k := by
  rw [Fmap.matches_iff_cat, kidRank_eq, viewRank_eq]
  constructor
  · intro h; rw [h]
  · intro h
    cases k <;> cases hc : c.value.category <;> rw [hc] at h <;> simp [Category.rank, Fmap.kindCat] at h ⊢

theorem isEntry_of_rank_ne {k : MapKind} {key : Nat} {c : HTree} (h : kidRank c ≠ viewRank k) :
    isEntry k key c = false := by
  unfold isEntry
  cases hm : k.matches c.value with
  | false => rfl
  | true => exact absurd ((matches_iff_rank k c).1 hm) h

theorem isEntry_of_rank_eq {k : MapKind} {key : Nat} {c : HTree} (h : kidRank c = viewRank k) :
    isEntry k key c = (entryKey c.value == key) := by
  unfold isEntry
  rw [(matches_iff_rank k c).2 h, Bool.true_and]

theorem isEntry_rank {k : MapKind} {key : Nat} {c : HTree} (h : isEntry k key c = true) :
    kidRank c = viewRank k := by
  unfold isEntry at h
  rw [Bool.and_eq_true] at h
  exact (matches_iff_rank k c).1 h.1

theorem isEntry_key {k : MapKind} {key : Nat} {c : HTree} (h : isEntry k key c = true) :
    entryKey c.value = key := by
  unfold isEntry at h
  rw [Bool.and_eq_true] at h
  simpa using h.2

/-! ### `updateEntry`: the payload of exactly one child changes -/

theorem updateEntry_nil (k : MapKind) (entry : Value) : updateEntry k entry [] = [] := rfl

theorem updateEntry_cons (k : MapKind) (entry : Value) (c : HTree) (cs : List HTree) :
    updateEntry k entry (c :: cs) =
      if isEntry k (entryKey entry) c then c.setValue (entryUpdate c.value entry) :: cs
      else c :: updateEntry k entry cs := rfl

/-- On a child list split at the first entry with the key: that child gets the new payload
    (`setValue` keeps handle and children), nothing else changes. -/
theorem updateEntry_split {k : MapKind} {entry : Value} {X : List HTree} {n : HTree} {Y : List HTree}
    (hX : ∀ c ∈ X, isEntry k (entryKey entry) c = false) (hn : isEntry k (entryKey entry) n = true) :
    updateEntry k entry (X ++ n :: Y) = X ++ n.setValue (entryUpdate n.value entry) :: Y := by
  induction X with
  | nil => rw [List.nil_append, updateEntry_cons, if_pos hn]; rfl
  | cons a X ih =>
    have ha : ¬ isEntry k (entryKey entry) a = true := by
      rw [hX a List.mem_cons_self]; exact Bool.false_ne_true
    rw [List.cons_append, updateEntry_cons, if_neg ha, ih (fun c hc => hX c (List.mem_cons_of_mem _ hc))]
    rfl

/-- No entry with the key: nothing changes. -/
theorem updateEntry_absent {k : MapKind} {entry : Value} : ∀ {L : List HTree},
    (∀ c ∈ L, isEntry k (entryKey entry) c = false) → updateEntry k entry L = L
  | [], _ => rfl
  | a :: L, h => by
    have ha : ¬ isEntry k (entryKey entry) a = true := by
      rw [h a List.mem_cons_self]; exact Bool.false_ne_true
    rw [updateEntry_cons, if_neg ha, updateEntry_absent (fun c hc => h c (List.mem_cons_of_mem _ hc))]

/-- **updateEntry touches exactly one child**: the first entry `n` of view `k` with the key (if
    there is one) is replaced by `n.setValue (entryUpdate n.value entry)` — same handle, same
    children — and every other child is the child it was, at the place it was. -/
theorem updateEntry_spec (k : MapKind) (entry : Value) (L : List HTree) :
    (∀ n, L.find? (isEntry k (entryKey entry)) = some n →
      ∃ X Y, L = X ++ n :: Y ∧ (∀ c ∈ X, isEntry k (entryKey entry) c = false) ∧
        updateEntry k entry L = X ++ n.setValue (entryUpdate n.value entry) :: Y) ∧
    (L.find? (isEntry k (entryKey entry)) = none → updateEntry k entry L = L) := by
  constructor
  · intro n hf
    obtain ⟨hp, X, Y, hs, hX⟩ := List.find?_eq_some_iff_append.mp hf
    refine ⟨X, Y, hs, fun c hc => by simpa using hX c hc, ?_⟩
    rw [hs]
    exact updateEntry_split (fun c hc => by simpa using hX c hc) hp
  · intro hf
    exact updateEntry_absent (fun c hc => by simpa using List.find?_eq_none.mp hf c hc)

theorem updateEntry_length (k : MapKind) (entry : Value) : ∀ L : List HTree,
    (updateEntry k entry L).length = L.length
  | [] => rfl
  | c :: cs => by
    rw [updateEntry_cons]
    split
    · rfl
    · rw [List.length_cons, List.length_cons, updateEntry_length k entry cs]

/-- Same handles (of the whole subtrees), in the same order. -/
theorem updateEntry_handlesList (k : MapKind) (entry : Value) : ∀ L : List HTree,
    handlesList (updateEntry k entry L) = handlesList L
  | [] => rfl
  | c :: cs => by
    rw [updateEntry_cons]
    split
    · rw [handlesList_cons, handlesList_cons, setValue_handles]
    · rw [handlesList_cons, handlesList_cons, updateEntry_handlesList k entry cs]

/-- Same children's handles, and every child keeps its own children. -/
theorem updateEntry_map_handle (k : MapKind) (entry : Value) : ∀ L : List HTree,
    (updateEntry k entry L).map (·.handle) = L.map (·.handle) ∧
    (updateEntry k entry L).map (·.kids) = L.map (·.kids)
  | [] => ⟨rfl, rfl⟩
  | c :: cs => by
    rw [updateEntry_cons]
    split
    · simp only [List.map_cons, setValue_handle, setValue_kids]
      exact ⟨trivial, trivial⟩
    · obtain ⟨h1, h2⟩ := updateEntry_map_handle k entry cs
      simp only [List.map_cons, h1, h2]
      exact ⟨trivial, trivial⟩

/-! ### `insertEntry`: exactly one child appears -/

theorem insertEntry_nil (k : MapKind) (t : HTree) : insertEntry k t [] = [t] := rfl

theorem insertEntry_cons (k : MapKind) (t c : HTree) (cs : List HTree) :
    insertEntry k t (c :: cs) = if kidRank c ≤ viewRank k then c :: insertEntry k t cs else t :: c :: cs := rfl

/-- The new child goes between the children of rank at most the view's and the rest. -/
theorem insertEntry_split {k : MapKind} {t : HTree} {X Q : List HTree}
    (hX : ∀ c ∈ X, kidRank c ≤ viewRank k) (hQ : ∀ c, Q.head? = some c → viewRank k < kidRank c) :
    insertEntry k t (X ++ Q) = X ++ t :: Q := by
  induction X with
  | nil =>
    cases Q with
    | nil => rfl
    | cons q Q =>
      have := hQ q rfl
      rw [List.nil_append, insertEntry_cons, if_neg (by omega)]
      rfl
  | cons a X ih =>
    rw [List.cons_append, insertEntry_cons, if_pos (hX a List.mem_cons_self),
      ih (fun c hc => hX c (List.mem_cons_of_mem _ hc))]
    rfl

/-- **insertEntry inserts exactly `t`**: the old children, unchanged and in order, with `t`
    between a prefix `A` of children of rank at most the view's and the rest `B`, which starts
    with a child of a higher rank (all of `B` has a higher rank when the list is ordered). -/
theorem insertEntry_spec (k : MapKind) (t : HTree) : ∀ L : List HTree,
    ∃ A B, L = A ++ B ∧ insertEntry k t L = A ++ t :: B ∧ (∀ c ∈ A, kidRank c ≤ viewRank k) ∧
      (∀ c, B.head? = some c → viewRank k < kidRank c)
  | [] => ⟨[], [], rfl, rfl, fun _ h => (by cases h), fun _ h => (by cases h)⟩
  | c :: cs => by
    by_cases hc : kidRank c ≤ viewRank k
    · obtain ⟨A, B, h1, h2, h3, h4⟩ := insertEntry_spec k t cs
      refine ⟨c :: A, B, by rw [h1]; rfl, ?_, ?_, h4⟩
      · rw [insertEntry_cons, if_pos hc, h2]; rfl
      · intro x hx
        cases List.mem_cons.1 hx with
        | inl e => rw [e]; exact hc
        | inr e => exact h3 x e
    · refine ⟨[], c :: cs, rfl, ?_, fun _ h => (by cases h), ?_⟩
      · rw [insertEntry_cons, if_neg hc]; rfl
      · intro x hx
        cases hx
        omega

theorem kidsOrdered_kidRank_le {a : HTree} {rest : List HTree} (h : kidsOrdered (a :: rest) = true) :
    ∀ b ∈ rest, kidRank a ≤ kidRank b := by
  intro b hb
  rw [kidRank_eq, kidRank_eq]
  exact kidsOrdered_rank_le rest h b hb

/-- In an ordered child list everything after the new child has a higher rank than the view. -/
theorem insertEntry_spec_ordered (k : MapKind) (t : HTree) {L : List HTree} (ho : kidsOrdered L = true) :
    ∃ A B, L = A ++ B ∧ insertEntry k t L = A ++ t :: B ∧ (∀ c ∈ A, kidRank c ≤ viewRank k) ∧
      (∀ c ∈ B, viewRank k < kidRank c) := by
  obtain ⟨A, B, h1, h2, h3, h4⟩ := insertEntry_spec k t L
  refine ⟨A, B, h1, h2, h3, ?_⟩
  cases B with
  | nil => intro c hc; cases hc
  | cons b B =>
    have hb := h4 b rfl
    rw [h1] at ho
    have hoB := kidsOrdered_drop A ho
    intro c hc
    cases List.mem_cons.1 hc with
    | inl e => rw [e]; exact hb
    | inr e => exact Nat.lt_of_lt_of_le hb (kidsOrdered_kidRank_le hoB c e)

theorem insertEntry_length (k : MapKind) (t : HTree) (L : List HTree) :
    (insertEntry k t L).length = L.length + 1 := by
  obtain ⟨A, B, h1, h2, _, _⟩ := insertEntry_spec k t L
  rw [h2, h1]
  simp only [List.length_append, List.length_cons]
  omega

/-! ### The filter of `specMapRemove`: at most one child disappears -/

/-- The list function of `specMapRemove`. -/
def removeEntry (k : MapKind) (key : Nat) (L : List HTree) : List HTree :=
  L.filter (fun c => !isEntry k key c)

theorem specMapRemove_eq (k : MapKind) (e key : Nat) (f : Forest) :
    specMapRemove k e key f = f.editAt (some e) (removeEntry k key) := rfl

/-- What remains is the old list, in order, without some children. -/
theorem removeEntry_sublist (k : MapKind) (key : Nat) (L : List HTree) :
    (removeEntry k key L).Sublist L := List.filter_sublist

/-- Every child that is not an entry of view `k` with the key (normal children, entries of the
    other view, entries with another key) is kept. -/
theorem removeEntry_keeps {k : MapKind} {key : Nat} {L : List HTree} {c : HTree} (hc : c ∈ L)
    (hn : isEntry k key c = false) : c ∈ removeEntry k key L := by
  unfold removeEntry
  rw [List.mem_filter]
  exact ⟨hc, by rw [hn]; rfl⟩

/-- An absent key: nothing is removed. -/
theorem removeEntry_absent {k : MapKind} {key : Nat} {L : List HTree}
    (h : ∀ c ∈ L, isEntry k key c = false) : removeEntry k key L = L := by
  unfold removeEntry
  rw [List.filter_eq_self]
  intro c hc
  rw [h c hc]; rfl

theorem removeEntry_split {k : MapKind} {key : Nat} {X : List HTree} {n : HTree} {Y : List HTree}
    (hX : ∀ c ∈ X, isEntry k key c = false) (hn : isEntry k key n = true)
    (hY : ∀ c ∈ Y, isEntry k key c = false) : removeEntry k key (X ++ n :: Y) = X ++ Y := by
  have e1 := removeEntry_absent hX
  have e2 := removeEntry_absent hY
  unfold removeEntry at e1 e2 ⊢
  rw [List.filter_append, List.filter_cons, e1, e2, hn]
  rfl

/-- With unique keys in the view, nothing after the first entry with the key is an entry with
    the key. -/
theorem no_second_entry {k : MapKind} {key : Nat} {X : List HTree} {n : HTree} {Y : List HTree}
    (hu : keysUnique (Fmap.kindCat k) (X ++ n :: Y) = true) (hn : isEntry k key n = true) :
    ∀ c ∈ Y, isEntry k key c = false := by
  intro c hc
  cases h : isEntry k key c with
  | false => rfl
  | true =>
    exfalso
    have hcat : ∀ x : HTree, isEntry k key x = true → (x.value.category == Fmap.kindCat k) = true := by
      intro x hx
      unfold isEntry at hx
      rw [Bool.and_eq_true] at hx
      rw [(Fmap.matches_iff_cat k x.value).1 hx.1]
      exact beq_self_eq_true _
    unfold keysUnique at hu
    simp only [decide_eq_true_eq] at hu
    rw [List.filter_append, List.filter_cons, hcat n hn, if_pos rfl, List.map_append, List.map_cons] at hu
    have h2 := (List.nodup_append.1 hu).2.1
    rw [List.nodup_cons] at h2
    apply h2.1
    rw [isEntry_key hn, ← isEntry_key h]
    exact List.mem_map.2 ⟨c, List.mem_filter.2 ⟨hc, hcat c h⟩, rfl⟩

/-- **The filter of `specMapRemove` removes exactly one child** when the key is present and the
    keys of the view are unique (part of `Forest.Inv`): the entry with the key; every other child
    stays at its place. -/
theorem removeEntry_spec {k : MapKind} {key : Nat} {L : List HTree}
    (hu : keysUnique (Fmap.kindCat k) L = true) :
    (∀ n, L.find? (isEntry k key) = some n →
      ∃ X Y, L = X ++ n :: Y ∧ removeEntry k key L = X ++ Y) ∧
    (L.find? (isEntry k key) = none → removeEntry k key L = L) := by
  constructor
  · intro n hf
    obtain ⟨hp, X, Y, hs, hX⟩ := List.find?_eq_some_iff_append.mp hf
    refine ⟨X, Y, hs, ?_⟩
    rw [hs] at hu ⊢
    exact removeEntry_split (fun c hc => by simpa using hX c hc) hp (no_second_entry hu hp)
  · intro hf
    exact removeEntry_absent (fun c hc => by simpa using List.find?_eq_none.mp hf c hc)

/-- At most one child disappears. -/
theorem removeEntry_length {k : MapKind} {key : Nat} {L : List HTree}
    (hu : keysUnique (Fmap.kindCat k) L = true) :
    L.length ≤ (removeEntry k key L).length + 1 := by
  cases hf : L.find? (isEntry k key) with
  | none => rw [(removeEntry_spec hu).2 hf]; omega
  | some n =>
    obtain ⟨X, Y, h1, h2⟩ := (removeEntry_spec hu).1 n hf
    rw [h2, h1]
    simp only [List.length_append, List.length_cons]
    omega

/-! ### One edit of the element's child list, in the normal form of the C11 development -/

theorem withKids_eq_map (rs : List HTree) (e : Nat) (ks' : List HTree) :
    Fmap.withKids rs e ks' = rs.map (HTree.editAt e (fun _ => ks')) := by
  unfold Fmap.withKids
  rw [mapAtList_eq_map]
  rfl

theorem SiteAt.roots_editAt {f : Forest} {e : Nat} {v : Value} {L : List HTree} (s : SiteAt f e v L)
    (g : List HTree → List HTree) :
    f.roots.map (HTree.editAt e g) = Fmap.withKids f.roots e (g L) := by
  rw [withKids_eq_map]
  exact editAt_congr_list (g := g) (g' := fun _ => g L) rfl f.roots s.nd s.kids

theorem SiteAt.editAt_eq_withKids {f : Forest} {e : Nat} {v : Value} {L : List HTree} (s : SiteAt f e v L)
    (g : List HTree → List HTree) :
    f.editAt (some e) g = { f with roots := Fmap.withKids f.roots e (g L) } := by
  simp only [Forest.editAt]
  rw [s.roots_editAt]

/-! ### The specification on a child list cut at the entry -/

theorem any_isEntry_split {k : MapKind} {key : Nat} {X : List HTree} {n : HTree} {Y : List HTree}
    (hn : isEntry k key n = true) : (X ++ n :: Y).any (isEntry k key) = true := by
  rw [List.any_append, List.any_cons, hn]
  simp

theorem any_isEntry_absent {k : MapKind} {key : Nat} {L : List HTree}
    (h : ∀ c ∈ L, isEntry k key c = false) : L.any (isEntry k key) = false := by
  rw [List.any_eq_false]
  intro c hc
  rw [h c hc]; exact Bool.false_ne_true

/-- An existing key: the specification's forest. -/
theorem specMapInsert_present {f : Forest} {e : Nat} {v : Value} {L : List HTree} (s : SiteAt f e v L)
    {k : MapKind} {entry : Value} {X : List HTree} {n : HTree} {Y : List HTree} (hL : L = X ++ n :: Y)
    (hX : ∀ c ∈ X, isEntry k (entryKey entry) c = false) (hn : isEntry k (entryKey entry) n = true) :
    specMapInsert k e entry f =
      { f with roots := Fmap.withKids f.roots e (X ++ n.setValue (entryUpdate n.value entry) :: Y) } := by
  unfold specMapInsert
  rw [Forest.kidsOf_of_get s.kids, s.editAt_eq_withKids]
  subst hL
  rw [any_isEntry_split hn, if_pos rfl, updateEntry_split hX hn]

/-- A new key: the specification's forest. -/
theorem specMapInsert_absent {f : Forest} {e : Nat} {v : Value} {L : List HTree} (s : SiteAt f e v L)
    {k : MapKind} {entry : Value} {X Q : List HTree} (hL : L = X ++ Q)
    (habs : ∀ c ∈ L, isEntry k (entryKey entry) c = false)
    (hX : ∀ c ∈ X, kidRank c ≤ viewRank k) (hQ : ∀ c ∈ Q, viewRank k < kidRank c) :
    specMapInsert k e entry f =
      { f with roots := Fmap.withKids f.roots e (X ++ .node f.next entry [] :: Q), next := f.next + 1 } := by
  unfold specMapInsert
  rw [Forest.kidsOf_of_get s.kids, any_isEntry_absent habs, if_neg Bool.false_ne_true,
    s.editAt_eq_withKids]
  subst hL
  rw [insertEntry_split hX (fun c hc => hQ c (List.mem_of_mem_head? hc))]

/-- A present key: the specification's forest. -/
theorem specMapRemove_present {f : Forest} {e : Nat} {v : Value} {L : List HTree} (s : SiteAt f e v L)
    {k : MapKind} {key : Nat} {X : List HTree} {n : HTree} {Y : List HTree} (hL : L = X ++ n :: Y)
    (hX : ∀ c ∈ X, isEntry k key c = false) (hn : isEntry k key n = true)
    (hY : ∀ c ∈ Y, isEntry k key c = false) :
    specMapRemove k e key f = { f with roots := Fmap.withKids f.roots e (X ++ Y) } := by
  rw [specMapRemove_eq, s.editAt_eq_withKids]
  subst hL
  rw [removeEntry_split hX hn hY]

/-- An absent key: the specification changes nothing. -/
theorem specMapRemove_absent {f : Forest} {e : Nat} {v : Value} {L : List HTree} (s : SiteAt f e v L)
    {k : MapKind} {key : Nat} (habs : ∀ c ∈ L, isEntry k key c = false) :
    specMapRemove k e key f = f := by
  rw [specMapRemove_eq, s.congr (g' := id) (removeEntry_absent habs), Forest.editAt_id]

/-! ### The sections of an element's child list, by rank -/

theorem pre_rank {ks N A S : List HTree} (h : Fmap.Sect ks N A S) (k : MapKind) :
    ∀ c ∈ Fmap.preK k N, kidRank c < viewRank k := by
  intro c hc
  cases k with
  | attributes =>
    have : c.value.category = .namespace := h.allNs c hc
    rw [kidRank_eq, this]; decide
  | namespaces => cases hc

theorem sec_rank {ks N A S : List HTree} (h : Fmap.Sect ks N A S) (k : MapKind) :
    ∀ c ∈ Fmap.Sect.sec k N A, kidRank c = viewRank k := by
  intro c hc
  rw [kidRank_eq, viewRank_eq, h.sec_cat k c hc]

theorem post_rank {ks N A S : List HTree} (h : Fmap.Sect ks N A S) (k : MapKind) :
    ∀ c ∈ Fmap.postK k A S, viewRank k < kidRank c := by
  intro c hc
  cases k with
  | attributes =>
    have : c.value.category = .normal := h.allNm c hc
    rw [kidRank_eq, this]; decide
  | namespaces =>
    rcases List.mem_append.1 hc with hc | hc
    · have : c.value.category = .attribute := h.allAt c hc
      rw [kidRank_eq, this]; decide
    · have : c.value.category = .normal := h.allNm c hc
      rw [kidRank_eq, this]; decide

/-- In the view's section an entry is recognised by its key alone. -/
theorem isEntry_sec {ks N A S : List HTree} (h : Fmap.Sect ks N A S) (k : MapKind) (key : Nat) {c : HTree}
    (hc : c ∈ Fmap.Sect.sec k N A) : isEntry k key c = (Fmap.keyOf c == key) :=
  isEntry_of_rank_eq (sec_rank h k c hc)

theorem isEntry_pre {ks N A S : List HTree} (h : Fmap.Sect ks N A S) (k : MapKind) (key : Nat) {c : HTree}
    (hc : c ∈ Fmap.preK k N) : isEntry k key c = false :=
  isEntry_of_rank_ne (Nat.ne_of_lt (pre_rank h k c hc))

theorem isEntry_post {ks N A S : List HTree} (h : Fmap.Sect ks N A S) (k : MapKind) (key : Nat) {c : HTree}
    (hc : c ∈ Fmap.postK k A S) : isEntry k key c = false :=
  isEntry_of_rank_ne (Nat.ne_of_gt (post_rank h k c hc))

theorem isEntry_false_of_key {ks N A S : List HTree} (h : Fmap.Sect ks N A S) (k : MapKind) (key : Nat)
    {s : List HTree} (hs : ∀ c ∈ s, c ∈ Fmap.Sect.sec k N A) (hk : ∀ c ∈ s, Fmap.keyOf c ≠ key) :
    ∀ c ∈ s, isEntry k key c = false := by
  intro c hc
  rw [isEntry_sec h k key (hs c hc)]
  exact beq_false_of_ne (hk c hc)

/-! ### The model equals the specification -/

theorem MInv_site {f : Forest} {e nm : Nat} {N A S : List HTree} (h : Fmap.MInv f e nm N A S) :
    SiteAt f e (.element nm) (N ++ A ++ S) := ⟨h.loc.nodup, h.loc.get⟩

/-- **C05, `insert(key, value)` on an attribute / namespace view**: on a forest satisfying the
    invariant the call succeeds and does exactly what the specification says — an existing key
    keeps its node and only its payload changes; a new key is carried by exactly one new node
    (handle `f.next`) placed last in the view. -/
theorem mapInsert_spec {f : Forest} (inv : f.Inv) {k : Forest.MapKind} {e : Nat} {entry : Value}
    (he : f.isElement e = true) (hm : k.matches entry = true) :
    f.mapInsert k e entry = (Spec.specMapInsert k e entry f, .ok) := by
  obtain ⟨nm, N, A, S, h⟩ := Fmap.minv_of_inv f e inv he
  have s := MInv_site h
  unfold Forest.mapInsert
  rw [he]
  simp only [Bool.not_true, Bool.false_eq_true, if_false]
  rw [h.getNode k]
  cases hf : (Fmap.Sect.sec k N A).find? (fun c => entryKey c.value == entryKey entry) with
  | some n =>
    obtain ⟨hkey, s1, s2, hs, hs1⟩ := Fmap.find?_key_split _ _ _ hf
    obtain ⟨heq, _⟩ := Fmap.insert_existing h k entry hm n s1 s2 hs _ hkey hs1
    have hn : isEntry k (entryKey entry) n = true := by
      rw [isEntry_sec h.sect k _ (by rw [hs]; simp)]
      exact beq_iff_eq.2 hkey
    have hX : ∀ c ∈ Fmap.preK k N ++ s1, isEntry k (entryKey entry) c = false := by
      intro c hc
      rcases List.mem_append.1 hc with hc | hc
      · exact isEntry_pre h.sect k _ hc
      · exact isEntry_false_of_key h.sect k _ (fun c hc => by rw [hs]; simp [hc]) hs1 c hc
    simp only
    rw [heq, specMapInsert_present s (Fmap.kids_around k N A S s1 s2 n hs) hX hn]
    simp
  | none =>
    have habs := Fmap.find?_key_none _ _ hf
    obtain ⟨hloc1, hroot1, hne1, hbelow1⟩ := Fmap.located_newNode h.loc h.below entry
    have h1 : Fmap.MInv (f.newNode entry).1 e nm N A S := ⟨hloc1, h.sect, h.uniq, hbelow1, h.leaf⟩
    obtain ⟨hplace, _⟩ := Fmap.place_absent h1 k f.next entry hm hroot1 hne1 habs
    rw [Fmap.rootsWithout_newNode f h.below entry] at hplace
    show (f.newNode entry).1.mapPlace k e f.next = _
    rw [hplace]
    have hL : N ++ A ++ S = (Fmap.preK k N ++ Fmap.Sect.sec k N A) ++ Fmap.postK k A S :=
      Fmap.split_kids k N A S
    have hno : ∀ c ∈ N ++ A ++ S, isEntry k (entryKey entry) c = false := by
      intro c hc
      rw [hL] at hc
      rcases List.mem_append.1 hc with hc | hc
      · rcases List.mem_append.1 hc with hc | hc
        · exact isEntry_pre h.sect k _ hc
        · exact isEntry_false_of_key h.sect k _ (fun _ hc => hc) habs c hc
      · exact isEntry_post h.sect k _ hc
    have hX : ∀ c ∈ Fmap.preK k N ++ Fmap.Sect.sec k N A, kidRank c ≤ viewRank k := by
      intro c hc
      rcases List.mem_append.1 hc with hc | hc
      · exact Nat.le_of_lt (pre_rank h.sect k c hc)
      · exact Nat.le_of_eq (sec_rank h.sect k c hc)
    rw [specMapInsert_absent s hL hno hX (post_rank h.sect k)]
    simp [Fmap.newNode_eq]

/-- **C05, `remove(key)` on an attribute / namespace view**: exactly the entry node with the key
    disappears (nothing at all for an absent key); no text is merged. -/
theorem mapRemove_spec {f : Forest} (inv : f.Inv) {k : Forest.MapKind} {e key : Nat}
    (he : f.isElement e = true) :
    f.mapRemove k e key = (Spec.specMapRemove k e key f, .ok) := by
  obtain ⟨nm, N, A, S, h⟩ := Fmap.minv_of_inv f e inv he
  have s := MInv_site h
  unfold Forest.mapRemove
  rw [he]
  simp only [Bool.not_true, Bool.false_eq_true, if_false]
  rw [h.getNode k]
  cases hf : (Fmap.Sect.sec k N A).find? (fun c => entryKey c.value == key) with
  | some n =>
    obtain ⟨hkey, s1, s2, hs, hs1⟩ := Fmap.find?_key_split _ _ _ hf
    obtain ⟨hrem, _⟩ := Fmap.remove_present h k key n s1 s2 hs hkey hs1
    have hn : isEntry k key n = true := by
      rw [isEntry_sec h.sect k _ (by rw [hs]; simp)]
      exact beq_iff_eq.2 hkey
    have hX : ∀ c ∈ Fmap.preK k N ++ s1, isEntry k key c = false := by
      intro c hc
      rcases List.mem_append.1 hc with hc | hc
      · exact isEntry_pre h.sect k _ hc
      · exact isEntry_false_of_key h.sect k _ (fun c hc => by rw [hs]; simp [hc]) hs1 c hc
    have hs2 : ∀ a ∈ s2, Fmap.keyOf a ≠ key := by
      have hu := h.uniq k
      rw [hs, List.map_append, List.map_cons] at hu
      have h2 := (List.nodup_append.1 hu).2.1
      rw [List.nodup_cons] at h2
      intro a ha hak
      exact h2.1 (by rw [hkey, ← hak]; exact List.mem_map.2 ⟨a, ha, rfl⟩)
    have hY : ∀ c ∈ s2 ++ Fmap.postK k A S, isEntry k key c = false := by
      intro c hc
      rcases List.mem_append.1 hc with hc | hc
      · exact isEntry_false_of_key h.sect k _ (fun c hc => by rw [hs]; simp [hc]) hs2 c hc
      · exact isEntry_post h.sect k _ hc
    simp only
    rw [hrem, specMapRemove_present s (Fmap.kids_around k N A S s1 s2 n hs) hX hn hY]
    simp
  | none =>
    have habs := Fmap.find?_key_none _ _ hf
    have hL : N ++ A ++ S = (Fmap.preK k N ++ Fmap.Sect.sec k N A) ++ Fmap.postK k A S :=
      Fmap.split_kids k N A S
    have hno : ∀ c ∈ N ++ A ++ S, isEntry k key c = false := by
      intro c hc
      rw [hL] at hc
      rcases List.mem_append.1 hc with hc | hc
      · rcases List.mem_append.1 hc with hc | hc
        · exact isEntry_pre h.sect k _ hc
        · exact isEntry_false_of_key h.sect k _ (fun _ hc => hc) habs c hc
      · exact isEntry_post h.sect k _ hc
    simp only
    rw [specMapRemove_absent s hno]

end XotModel
