/-
  The XML serialiser with a normalizer is the XML serialiser without one on the normalised tree
  (`serializeXmlStringWith_norm`), at every level: one `render_output` call, the token stream, the
  pretty token stream, the written bytes, the full parameter set.

  What the identity needs, exactly:
  * `NsWritten N env outs`  — `N` fixes the namespace URIs the `Prefix` events write (the URI of an `xmlns`
    declaration goes through `serialize_attribute(.., normalizer)` too, but is no string of the tree);
  * `SpaceKept N t outs`    — only with indentation: `Pretty::element_space` reads the `xml:space` attribute
    as stored, so `N` must not turn a value into / away from `preserve` / `default`.
  CDATA-section elements, `unescaped_gt`, `has_inline_child`, the suppress list and the doctype look at
  structure and names only.
-/
import XotModel.Lemmas.NormalizerTree

namespace XotModel
open Gen

variable (N : Str → Str)

/-- `Outcome` is a functor in its value. -/
def Outcome.mapOk {ε α β : Type} (f : α → β) : Outcome ε α → Outcome ε β
  | .ok a => .ok (f a)
  | .err e => .err e
  | .panic => .panic

/-- A rendered event of the normalised tree. -/
def tokMapText {τ : Type} (k : Path × Output × τ) : Path × Output × τ := (k.1, k.2.1.mapText N, k.2.2)

theorem normEscapers_id : normEscapers id = xmlEscapers := rfl

/-- `N` fixes the namespace URI a `Prefix` event writes (the `xml` namespace is written as a literal). -/
def Output.nsFixed (env : Env) : Output → Prop
  | .pfx _ ns => ns = Env.xmlNamespace ∨ N (env.namespaceStr ns) = env.namespaceStr ns
  | _ => True

/-- `N` fixes every namespace URI the events `outs` write. -/
def NsWritten (env : Env) (outs : List (Path × Output)) : Prop := ∀ po ∈ outs, po.2.nsFixed N env

/-- `N` does not change what `element_space` reads off the nodes of the events `outs`. -/
def SpaceKept (t : Tree) (outs : List (Path × Output)) : Prop :=
  ∀ po ∈ outs, ∀ n, t.at? po.1 = some n → elementSpace (n.mapText N) = elementSpace n

/-- Sufficient for `NsWritten` on every stream: `N` fixes every string of the namespace table
    (and the empty string, the URI of an id outside the table). -/
theorem nsWritten_of_fixed (env : Env) (h : ∀ ns, N (env.namespaceStr ns) = env.namespaceStr ns)
    (outs : List (Path × Output)) : NsWritten N env outs := by
  intro po _
  cases h2 : po.2 <;> simp [Output.nsFixed, h]

/-- Sufficient for `SpaceKept` on every tree: `N` maps exactly `preserve` to `preserve` and exactly
    `default` to `default`. -/
def SpaceStable : Prop :=
  ∀ v, (N v == spacePreserve) = (v == spacePreserve) ∧ (N v == spaceDefault) = (v == spaceDefault)

theorem elementSpace_mapText (h : SpaceStable N) (n : Tree) : elementSpace (n.mapText N) = elementSpace n := by
  unfold elementSpace
  rw [mapText_getAttribute]
  cases n.getAttribute Env.xmlSpaceName with
  | none => rfl
  | some v => simp only [Option.map_some, (h v).1, (h v).2]

theorem spaceKept_of_stable (h : SpaceStable N) (t : Tree) (outs : List (Path × Output)) :
    SpaceKept N t outs := fun _ _ n _ => elementSpace_mapText N h n

/-! ### One `render_output` call -/

theorem isCdataElement_mapText (pr : TokenParams) (parent : Option Tree) :
    isCdataElement pr (parent.map (Tree.mapText N)) = isCdataElement pr parent := by
  cases parent with
  | none => rfl
  | some par =>
    simp only [Option.map_some, isCdataElement, mapText_value]
    cases par.value <;> rfl

theorem renderXmlWith_norm (env : Env) (pr : TokenParams) (s : FStack) (node : Tree) (parent : Option Tree)
    (o : Output) (h : o.nsFixed N env) :
    renderXmlWith (normEscapers N) env pr s node parent o =
      renderXmlWith xmlEscapers env pr s (node.mapText N) (parent.map (Tree.mapText N)) (o.mapText N) := by
  cases o with
  | pfx p ns =>
    simp only [Output.mapText, renderXmlWith]
    by_cases hx : ns = Env.xmlNamespace
    · simp [hx]
    · have hf : N (env.namespaceStr ns) = env.namespaceStr ns := by
        rcases h with h | h
        · exact absurd h hx
        · exact h
      simp [normEscapers, xmlEscapers, serializeAttributeN, hf]
  | text s =>
    simp only [Output.mapText, renderXmlWith, isCdataElement_mapText]
    rfl
  | _ => first | (simp only [Output.mapText, renderXmlWith]; rfl) | simp [Output.mapText, renderXmlWith]

theorem renderAtWith_norm (env : Env) (pr : TokenParams) (t : Tree) (s : FStack) (path : Path) (o : Output)
    (h : o.nsFixed N env) :
    renderAtWith (normEscapers N) env pr t s path o =
      renderAtWith xmlEscapers env pr (t.mapText N) s path (o.mapText N) := by
  unfold renderAtWith
  rw [mapText_at?, mapText_parentAt?]
  cases t.at? path with
  | none => rfl
  | some node => exact renderXmlWith_norm N env pr s node _ o h

/-! ### Streams -/

theorem renderAllWith_norm (env : Env) (pr : TokenParams) (t : Tree) (s : FStack) (outs : List (Path × Output))
    (h : NsWritten N env outs) :
    renderAllWith xmlEscapers env pr (t.mapText N) s (outs.map (tagMapText N)) =
      (renderAllWith (normEscapers N) env pr t s outs).mapOk (List.map (tokMapText N)) := by
  induction outs generalizing s with
  | nil => rfl
  | cons po rest ih =>
    obtain ⟨p, o⟩ := po
    have h1 : o.nsFixed N env := h (p, o) (by simp)
    have h2 : NsWritten N env rest := fun q hq => h q (by simp [hq])
    simp only [List.map_cons, tagMapText, renderAllWith, ← renderAtWith_norm N env pr t s p o h1]
    cases renderAtWith (normEscapers N) env pr t s p o with
    | err e => rfl
    | panic => rfl
    | ok r =>
      obtain ⟨s', tok⟩ := r
      have := ih s' h2
      simp only [this]
      cases renderAllWith (normEscapers N) env pr t s' rest <;> rfl

theorem writeGoWith_norm (env : Env) (pr : TokenParams) (t : Tree) (s : FStack) (outs : List (Path × Output))
    (h : NsWritten N env outs) :
    writeGoWith xmlEscapers env pr (t.mapText N) s (outs.map (tagMapText N)) =
      writeGoWith (normEscapers N) env pr t s outs := by
  induction outs generalizing s with
  | nil => rfl
  | cons po rest ih =>
    obtain ⟨p, o⟩ := po
    have h1 : o.nsFixed N env := h (p, o) (by simp)
    have h2 : NsWritten N env rest := fun q hq => h q (by simp [hq])
    simp only [List.map_cons, tagMapText, writeGoWith, ← renderAtWith_norm N env pr t s p o h1]
    cases renderAtWith (normEscapers N) env pr t s p o with
    | err e => rfl
    | panic => rfl
    | ok r =>
      obtain ⟨s', tok⟩ := r
      have := ih s' h2
      simp only [this]

/-! ### Pretty -/

theorem hasInlineChild_mapText (n : Tree) : hasInlineChild (n.mapText N) = hasInlineChild n := by
  simp [hasInlineChild, mapText_normalKids, List.any_map, Function.comp_def]

theorem prettify_mapText (sup : List Nat) (ps : PStack) (node : Tree) (o : Output)
    (h : elementSpace (node.mapText N) = elementSpace node) :
    prettify sup ps (node.mapText N) (o.mapText N) = prettify sup ps node o := by
  cases o with
  | startTagClose =>
    simp only [Output.mapText, prettify, mapText_firstChild?_isSome, hasInlineChild_mapText, h, mapText_value]
    cases node.value <;> rfl
  | endTag name => simp [Output.mapText, prettify]
  | _ => simp [Output.mapText, prettify]

theorem prettifyAt_mapText (sup : List Nat) (t : Tree) (ps : PStack) (path : Path) (o : Output)
    (h : ∀ n, t.at? path = some n → elementSpace (n.mapText N) = elementSpace n) :
    prettifyAt sup (t.mapText N) ps path (o.mapText N) = prettifyAt sup t ps path o := by
  unfold prettifyAt
  rw [mapText_at?]
  cases hn : t.at? path with
  | none => rfl
  | some node => exact prettify_mapText N sup ps node o (h node hn)

theorem prettyAllWith_norm (env : Env) (pr : TokenParams) (sup : List Nat) (t : Tree) (ps : PStack) (s : FStack)
    (outs : List (Path × Output)) (h : NsWritten N env outs) (hs : SpaceKept N t outs) :
    prettyAllWith xmlEscapers env pr sup (t.mapText N) ps s (outs.map (tagMapText N)) =
      (prettyAllWith (normEscapers N) env pr sup t ps s outs).mapOk (List.map (tokMapText N)) := by
  induction outs generalizing ps s with
  | nil => rfl
  | cons po rest ih =>
    obtain ⟨p, o⟩ := po
    have h1 : o.nsFixed N env := h (p, o) (by simp)
    have h2 : NsWritten N env rest := fun q hq => h q (by simp [hq])
    have hs1 := prettifyAt_mapText N sup t ps p o (fun n hn => hs (p, o) (by simp) n hn)
    have hs2 : SpaceKept N t rest := fun q hq => hs q (by simp [hq])
    simp only [List.map_cons, tagMapText, prettyAllWith, ← renderAtWith_norm N env pr t s p o h1, hs1]
    cases renderAtWith (normEscapers N) env pr t s p o with
    | err e => rfl
    | panic => rfl
    | ok r =>
      obtain ⟨s', tok⟩ := r
      have := ih (prettifyAt sup t ps p o).1 s' h2 hs2
      simp only [this]
      cases prettyAllWith (normEscapers N) env pr sup t (prettifyAt sup t ps p o).1 s' rest <;> rfl

theorem writePrettyGoWith_norm (env : Env) (pr : TokenParams) (sup : List Nat) (t : Tree) (ps : PStack)
    (s : FStack) (outs : List (Path × Output)) (h : NsWritten N env outs) (hs : SpaceKept N t outs) :
    writePrettyGoWith xmlEscapers env pr sup (t.mapText N) ps s (outs.map (tagMapText N)) =
      writePrettyGoWith (normEscapers N) env pr sup t ps s outs := by
  induction outs generalizing ps s with
  | nil => rfl
  | cons po rest ih =>
    obtain ⟨p, o⟩ := po
    have h1 : o.nsFixed N env := h (p, o) (by simp)
    have h2 : NsWritten N env rest := fun q hq => h q (by simp [hq])
    have hs1 := prettifyAt_mapText N sup t ps p o (fun n hn => hs (p, o) (by simp) n hn)
    have hs2 : SpaceKept N t rest := fun q hq => hs q (by simp [hq])
    simp only [List.map_cons, tagMapText, writePrettyGoWith, ← renderAtWith_norm N env pr t s p o h1, hs1]
    cases renderAtWith (normEscapers N) env pr t s p o with
    | err e => rfl
    | panic => rfl
    | ok r =>
      obtain ⟨s', tok⟩ := r
      have := ih (prettifyAt sup t ps p o).1 s' h2 hs2
      simp only [this]

/-! ### Entry points -/

theorem tokensWith_norm (env : Env) (pr : TokenParams) (t : Tree) (start : Path)
    (h : NsWritten N env (genOutputs t start)) :
    tokens env pr (t.mapText N) start =
      (tokensWith (normEscapers N) env pr t start).mapOk (List.map (tokMapText N)) := by
  unfold tokens tokensWith
  rw [genOutputs_mapText, mapText_initStack, renderAllWith_norm N env pr t _ _ h]
  cases renderAllWith (normEscapers N) env pr t (initStack t start) (genOutputs t start) <;> rfl

theorem prettyTokensWith_norm (env : Env) (pr : TokenParams) (sup : List Nat) (t : Tree) (start : Path)
    (h : NsWritten N env (genOutputs t start)) (hs : SpaceKept N t (genOutputs t start)) :
    prettyTokens env pr sup (t.mapText N) start =
      (prettyTokensWith (normEscapers N) env pr sup t start).mapOk (List.map (tokMapText N)) := by
  unfold prettyTokens prettyTokensWith
  rw [genOutputs_mapText, mapText_initStack, prettyAllWith_norm N env pr sup t _ _ _ h hs]
  cases prettyAllWith (normEscapers N) env pr sup t [] (initStack t start) (genOutputs t start) <;> rfl

theorem serializeWriteWith_norm (env : Env) (pr : TokenParams) (t : Tree) (start : Path)
    (h : NsWritten N env (genOutputs t start)) :
    serializeWriteWith (normEscapers N) env pr t start = serializeWrite env pr (t.mapText N) start := by
  unfold serializeWrite serializeWriteWith
  rw [genOutputs_mapText, mapText_initStack, writeGoWith_norm N env pr t _ _ h]

theorem serializeStringWith_norm (env : Env) (pr : TokenParams) (t : Tree) (start : Path)
    (h : NsWritten N env (genOutputs t start)) :
    serializeStringWith (normEscapers N) env pr t start = serializeString env pr (t.mapText N) start := by
  unfold serializeString serializeStringWith
  rw [serializeWriteWith_norm N env pr t start h]

theorem serializePrettyWriteWith_norm (env : Env) (pr : TokenParams) (sup : List Nat) (t : Tree) (start : Path)
    (h : NsWritten N env (genOutputs t start)) (hs : SpaceKept N t (genOutputs t start)) :
    serializePrettyWriteWith (normEscapers N) env pr sup t start =
      serializePrettyWrite env pr sup (t.mapText N) start := by
  unfold serializePrettyWrite serializePrettyWriteWith
  rw [genOutputs_mapText, mapText_initStack, writePrettyGoWith_norm N env pr sup t _ _ _ h hs]

/-! ### Doctype and the full parameter set -/

theorem firstElementIdx_mapText (n : Tree) : firstElementIdx (n.mapText N) = firstElementIdx n := by
  simp [firstElementIdx, mapText_normalKids, List.findIdx?_map, Function.comp_def]

theorem doctypeName_mapText (env : Env) (t : Tree) (start : Path) :
    doctypeName env (t.mapText N) start = doctypeName env t start := by
  unfold doctypeName
  rw [mapText_at?]
  cases hn : t.at? start with
  | none => rfl
  | some n =>
    simp only [Option.map_some, mapText_value, firstElementIdx_mapText]
    have key : ∀ path, (match (t.mapText N).at? path with
        | some el =>
          (match el.value with
           | .element name =>
             (match (doctypeStack (t.mapText N) path el).elementFullname env name with
              | .ok full => (Outcome.ok full : Outcome XotError Str)
              | .error e => .err e)
           | _ => .panic)
        | none => .panic) =
        (match t.at? path with
        | some el =>
          (match el.value with
           | .element name =>
             (match (doctypeStack t path el).elementFullname env name with
              | .ok full => (Outcome.ok full : Outcome XotError Str)
              | .error e => .err e)
           | _ => .panic)
        | none => .panic) := by
      intro path
      rw [mapText_at?]
      cases t.at? path with
      | none => rfl
      | some el =>
        simp only [Option.map_some, mapText_value, doctypeStack, mapText_namespacesInScope, mapText_nsDecls]
        cases el.value <;> rfl
    cases hv : n.value with
    | document =>
      simp only [Value.mapText]
      cases firstElementIdx n with
      | none => rfl
      | some i => exact key _
    | element name => simp only [Value.mapText]; exact key _
    | _ => rfl

/-- **The normalizer is a pre-map** (write level, full parameter set). -/
theorem serializeXmlWriteWith_norm (env : Env) (p : XmlParams) (t : Tree) (start : Path)
    (h : NsWritten N env (genOutputs t start))
    (hs : p.indentation ≠ none → SpaceKept N t (genOutputs t start)) :
    serializeXmlWriteWith (normEscapers N) env p t start = serializeXmlWrite env p (t.mapText N) start := by
  unfold serializeXmlWrite serializeXmlWriteWith
  rw [doctypeName_mapText]
  cases hi : p.indentation with
  | none =>
    simp only [serializeWriteWith_norm N env p.tokenParams t start h]
  | some sup =>
    have hs' := hs (by simp [hi])
    simp only [serializePrettyWriteWith_norm N env p.tokenParams sup t start h hs']

theorem serializeXmlStringWith_norm (env : Env) (p : XmlParams) (t : Tree) (start : Path)
    (h : NsWritten N env (genOutputs t start))
    (hs : p.indentation ≠ none → SpaceKept N t (genOutputs t start)) :
    serializeXmlStringWith (normEscapers N) env p t start = serializeXmlString env p (t.mapText N) start := by
  unfold serializeXmlString serializeXmlStringWith
  rw [serializeXmlWriteWith_norm N env p t start h hs]

/-! ### The escaping functions never decide about success -/

/-- One `render_output` call: same outcome kind, same error, same next stack for any two sets of escaping
    functions (only the token text depends on them). -/
theorem renderXmlWith_outcome (e1 e2 : Escapers) (env : Env) (pr : TokenParams) (s : FStack) (node : Tree)
    (parent : Option Tree) (o : Output) :
    (renderXmlWith e1 env pr s node parent o).mapOk Prod.fst =
      (renderXmlWith e2 env pr s node parent o).mapOk Prod.fst := by
  cases o with
  | pfx p ns =>
    simp only [renderXmlWith]
    split
    · rfl
    · split <;> rfl
  | text s =>
    simp only [renderXmlWith]
    split <;> rfl
  | startTagOpen name => rfl
  | startTagClose => rfl
  | endTag name => rfl
  | comment s => rfl
  | pi target data => rfl
  | _ =>
    simp only [renderXmlWith]
    rename_i name value
    cases FStack.attributeFullname env s name <;> rfl

theorem renderAtWith_outcome (e1 e2 : Escapers) (env : Env) (pr : TokenParams) (t : Tree) (s : FStack)
    (path : Path) (o : Output) :
    (renderAtWith e1 env pr t s path o).mapOk Prod.fst = (renderAtWith e2 env pr t s path o).mapOk Prod.fst := by
  unfold renderAtWith
  cases t.at? path with
  | none => rfl
  | some node => exact renderXmlWith_outcome e1 e2 env pr s node _ o

theorem writeGoWith_outcome (e1 e2 : Escapers) (env : Env) (pr : TokenParams) (t : Tree) (s : FStack)
    (outs : List (Path × Output)) :
    (writeGoWith e1 env pr t s outs).2 = (writeGoWith e2 env pr t s outs).2 := by
  induction outs generalizing s with
  | nil => rfl
  | cons po rest ih =>
    obtain ⟨p, o⟩ := po
    have h := renderAtWith_outcome e1 e2 env pr t s p o
    simp only [writeGoWith]
    cases h1 : renderAtWith e1 env pr t s p o <;> cases h2 : renderAtWith e2 env pr t s p o <;>
      simp only [h1, h2, Outcome.mapOk, Outcome.ok.injEq, Outcome.err.injEq, reduceCtorEq] at h
    · rename_i r1 r2
      obtain ⟨s1, k1⟩ := r1
      obtain ⟨s2, k2⟩ := r2
      simp only at h
      subst h
      exact ih s1
    · subst h; rfl
    · rfl

theorem writePrettyGoWith_outcome (e1 e2 : Escapers) (env : Env) (pr : TokenParams) (sup : List Nat) (t : Tree)
    (ps : PStack) (s : FStack) (outs : List (Path × Output)) :
    (writePrettyGoWith e1 env pr sup t ps s outs).2 = (writePrettyGoWith e2 env pr sup t ps s outs).2 := by
  induction outs generalizing ps s with
  | nil => rfl
  | cons po rest ih =>
    obtain ⟨p, o⟩ := po
    have h := renderAtWith_outcome e1 e2 env pr t s p o
    simp only [writePrettyGoWith]
    cases h1 : renderAtWith e1 env pr t s p o <;> cases h2 : renderAtWith e2 env pr t s p o <;>
      simp only [h1, h2, Outcome.mapOk, Outcome.ok.injEq, Outcome.err.injEq, reduceCtorEq] at h
    · rename_i r1 r2
      obtain ⟨s1, k1⟩ := r1
      obtain ⟨s2, k2⟩ := r2
      simp only at h
      subst h
      exact ih _ s1
    · subst h; rfl
    · rfl

/-- `serialize_xml_write_with_normalizer` ends as `serialize_xml_write` ends, for every normalizer (any
    escaping functions): success or the same error. -/
theorem serializeXmlWriteWith_outcome (e1 e2 : Escapers) (env : Env) (p : XmlParams) (t : Tree) (start : Path) :
    (serializeXmlWriteWith e1 env p t start).2 = (serializeXmlWriteWith e2 env p t start).2 := by
  unfold serializeXmlWriteWith
  cases p.doctype with
  | none =>
    cases p.indentation with
    | none => exact writeGoWith_outcome e1 e2 env _ t _ _
    | some sup => exact writePrettyGoWith_outcome e1 e2 env _ sup t _ _ _
  | some d =>
    cases doctypeName env t start with
    | err e => rfl
    | panic => rfl
    | ok name =>
      cases p.indentation with
      | none => exact writeGoWith_outcome e1 e2 env _ t _ _
      | some sup => exact writePrettyGoWith_outcome e1 e2 env _ sup t _ _ _
end XotModel
