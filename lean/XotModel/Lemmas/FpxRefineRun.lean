/-
  FpxRefine, part 3: a list of handle-addressed namespace insertions on ELEMENTS, run on a forest with
  the invariant (`Forest.runCalls`):
  * erases to `eraseWithList` of the roots (`fpxr_runCalls_erase`);
  * when every target lies in the subtree `S` of one node, the roots afterwards are the roots with that
    subtree replaced (`mapAtList node (fun _ => S')`), and `S'` has the handles of `S`, in the same
    document order, plus handles that did not exist before (`fpxr_runCalls_graft`).
-/
import XotModel.Lemmas.FpxRefineErase

namespace XotModel
open HTree
open Forest (MapKind entryKey entryUpdate)

namespace HTree

/-! ### Old handles keep their document order -/

theorem handlesList_insertNsKidH_filter (p ns fresh b : Nat) (hb : b ≤ fresh) : ∀ ks : List HTree,
    (handlesList (insertNsKidH p ns fresh ks)).filter (· < b) = (handlesList ks).filter (· < b)
  | [] => by
    have : ¬ fresh < b := by omega
    simp [insertNsKidH, handlesList, handles, this]
  | k :: ks => by
    have ih := handlesList_insertNsKidH_filter p ns fresh b hb ks
    have hf : ¬ fresh < b := by omega
    cases k with
    | node h v kk =>
      by_cases hv : ∃ q x, v = .namespace q x
      · obtain ⟨q, x, rfl⟩ := hv
        by_cases hq : (q == p) = true
        · simp [insertNsKidH, HTree.value, hq, handlesList, handles, HTree.handle, HTree.kids]
        · simp only [insertNsKidH, HTree.value, hq, Bool.false_eq_true, if_false, fi_handlesList_cons,
            List.filter_append, ih]
      · have h1 : insertNsKidH p ns fresh (node h v kk :: ks) =
            node fresh (.namespace p ns) [] :: node h v kk :: ks := by
          cases v <;> first | (exfalso; exact hv ⟨_, _, rfl⟩) | rfl
        rw [h1]
        simp [handlesList, handles, hf]

mutual
  theorem handles_nsEdit_filter (e p ns fresh b : Nat) (hb : b ≤ fresh) : ∀ r : HTree,
      (handles (mapAt e (nsEdit p ns fresh) r)).filter (· < b) = (handles r).filter (· < b)
    | node h v ks => by
      unfold mapAt
      by_cases hh : h = e
      · rw [if_pos hh]
        unfold nsEdit
        by_cases hv : v.isElement = true
        · simp only [HTree.value, hv, if_true, Fmap.atKids, HTree.setKids, HTree.kids, fi_handles_node,
            List.filter_cons, handlesList_insertNsKidH_filter p ns fresh b hb ks]
        · simp only [HTree.value, hv, Bool.false_eq_true, if_false]
      · rw [if_neg hh]
        simp only [fi_handles_node, List.filter_cons, handlesList_nsEdit_filter e p ns fresh b hb ks]
  theorem handlesList_nsEdit_filter (e p ns fresh b : Nat) (hb : b ≤ fresh) : ∀ ks : List HTree,
      (handlesList (mapAtList e (nsEdit p ns fresh) ks)).filter (· < b) = (handlesList ks).filter (· < b)
    | [] => rfl
    | k :: ks => by
      simp only [mapAtList, fi_handlesList_cons, List.filter_append, handles_nsEdit_filter e p ns fresh b hb k,
        handlesList_nsEdit_filter e p ns fresh b hb ks]
end

theorem nsEdit_handle (p ns fresh : Nat) (n : HTree) : (nsEdit p ns fresh n).handle = n.handle := by
  unfold nsEdit; split
  · exact Fmap.atKids_handle _ _
  · rfl

theorem mapAt_handle (e : Nat) (g : HTree → HTree) (hg : ∀ x, (g x).handle = x.handle) (r : HTree) :
    (mapAt e g r).handle = r.handle := by
  cases r with
  | node h v ks =>
    unfold mapAt
    split
    · rw [hg]
    · rfl

/-! ### An edit inside a subtree is a replacement of that subtree -/

theorem find?_none_not_mem {h : Nat} {t : HTree} (hf : find? h t = none) : h ∉ handles t := by
  intro hm
  have := (find?_isSome_iff h t).mpr hm
  rw [hf] at this; cases this

mutual
  theorem mapAt_as_graft (e node : Nat) (g : HTree → HTree) (S : HTree) (he : e ∈ handles S) : ∀ r : HTree,
      (handles r).Nodup → find? node r = some S → mapAt e g r = mapAt node (fun _ => mapAt e g S) r
    | .node h v ks => by
      intro hnd hf
      by_cases hh : h = node
      · subst hh
        have : S = .node h v ks := by simpa [find?] using hf.symm
        subst this
        conv => rhs; unfold mapAt
        rw [if_pos rfl]
      · simp only [find?, if_neg hh] at hf
        simp only [fi_handles_node, List.nodup_cons] at hnd
        have hin : e ∈ handlesList ks := (findList?_sublist node ks S hf).subset he
        have hne : ¬ h = e := fun x => hnd.1 (x ▸ hin)
        unfold mapAt
        rw [if_neg hne, if_neg hh, mapAtList_as_graft e node g S he ks hnd.2 hf]
  theorem mapAtList_as_graft (e node : Nat) (g : HTree → HTree) (S : HTree) (he : e ∈ handles S) :
      ∀ ks : List HTree, (handlesList ks).Nodup → findList? node ks = some S →
        mapAtList e g ks = mapAtList node (fun _ => mapAt e g S) ks
    | [] => fun _ hf => by simp [findList?] at hf
    | k :: ks => by
      intro hnd hf
      simp only [fi_handlesList_cons, List.nodup_append] at hnd
      simp only [findList?] at hf
      cases hk : find? node k with
      | some t =>
        rw [hk] at hf
        simp only [Option.some.injEq] at hf
        subst hf
        have hek : e ∈ handles k := (fa_find?_sublist node k t hk).subset he
        have hnk : node ∈ handles k := (find?_isSome_iff node k).mp (by rw [hk]; rfl)
        have h1 : e ∉ handlesList ks := fun x => hnd.2.2 e hek e x rfl
        have h2 : node ∉ handlesList ks := fun x => hnd.2.2 node hnk node x rfl
        simp only [mapAtList, mapAt_as_graft e node g t he k hnd.1 hk, mapAtList_of_not_mem e g ks h1,
          mapAtList_of_not_mem node _ ks h2]
      | none =>
        rw [hk] at hf
        have hin : e ∈ handlesList ks := (findList?_sublist node ks S hf).subset he
        have h1 : e ∉ handles k := fun x => hnd.2.2 e x e hin rfl
        have h2 : node ∉ handles k := find?_none_not_mem hk
        simp only [mapAtList, mapAt_of_not_mem e g k h1, mapAt_of_not_mem node _ k h2,
          mapAtList_as_graft e node g S he ks hnd.2.1 hf]
end

mutual
  theorem graft_graft (node : Nat) (S1 S' : HTree) (h1 : S1.handle = node) : ∀ r : HTree,
      mapAt node (fun _ => S') (mapAt node (fun _ => S1) r) = mapAt node (fun _ => S') r
    | .node h v ks => by
      by_cases hh : h = node
      · have e1 : mapAt node (fun _ => S1) (.node h v ks) = S1 := by unfold mapAt; rw [if_pos hh]
        have e2 : mapAt node (fun _ => S') (.node h v ks) = S' := by unfold mapAt; rw [if_pos hh]
        rw [e1, e2, Fmap.mapAt_hit node _ S1 h1]
      · have e1 : mapAt node (fun _ => S1) (.node h v ks) = .node h v (mapAtList node (fun _ => S1) ks) := by
          unfold mapAt; rw [if_neg hh]
        have e2 : ∀ ks', mapAt node (fun _ => S') (.node h v ks') = .node h v (mapAtList node (fun _ => S') ks') := by
          intro ks'; unfold mapAt; rw [if_neg hh]
        rw [e1, e2, e2, graftList_graftList node S1 S' h1 ks]
  theorem graftList_graftList (node : Nat) (S1 S' : HTree) (h1 : S1.handle = node) : ∀ ks : List HTree,
      mapAtList node (fun _ => S') (mapAtList node (fun _ => S1) ks) = mapAtList node (fun _ => S') ks
    | [] => rfl
    | k :: ks => by
      simp only [mapAtList, graft_graft node S1 S' h1 k, graftList_graftList node S1 S' h1 ks]
end

mutual
  theorem mapAt_id' (node : Nat) : ∀ r : HTree, mapAt node id r = r
    | .node h v ks => by
      unfold mapAt
      split
      · rfl
      · rw [mapAtList_id' node ks]
  theorem mapAtList_id' (node : Nat) : ∀ ks : List HTree, mapAtList node id ks = ks
    | [] => rfl
    | k :: ks => by simp only [mapAtList, mapAt_id' node k, mapAtList_id' node ks]
end

theorem graftList_self (node : Nat) (S : HTree) (ks : List HTree) (hnd : (handlesList ks).Nodup)
    (hf : findList? node ks = some S) : mapAtList node (fun _ => S) ks = ks := by
  rw [Fmap.mapAtList_congr node (fun _ => S) id ks S hnd hf rfl, mapAtList_id']

end HTree

namespace Forest

/-- A handle-addressed insertion as a `Call`. -/
def nsCallOf (c : Nat × Nat × Nat) : Call := nsInsertCall c.1 c.2

theorem fpxr_get_of_isElement {f : Forest} {e : Nat} (he : f.isElement e = true) :
    ∃ t, f.get? e = some t ∧ t.value.isElement = true := by
  unfold isElement value? at he
  cases hg : f.get? e with
  | none => rw [hg] at he; simp at he
  | some t => rw [hg] at he; exact ⟨t, rfl, by simpa using he⟩

/-- One call: the roots afterwards. -/
theorem fpxr_call_roots {f : Forest} (hi : f.Inv) (c : Nat × Nat × Nat) (he : f.isElement c.1 = true) :
    ((nsCallOf c).run f).1.roots = mapAtList c.1 (nsEdit c.2.1 c.2.2 f.next) f.roots ∧
      f.next ≤ ((nsCallOf c).run f).1.next := by
  obtain ⟨e, p, ns⟩ := c
  obtain ⟨h1, h2⟩ := fpxr_mapInsert_roots hi he p ns
  obtain ⟨t, hg, hv⟩ := fpxr_get_of_isElement he
  refine ⟨?_, h2⟩
  show (f.mapInsert .namespaces e (.namespace p ns)).1.roots = _
  rw [h1]
  exact Fmap.mapAtList_congr e _ _ f.roots t hi.nodup hg (by simp [nsEdit, hv])

theorem fpxr_call_ok {f : Forest} (hi : f.Inv) (c : Nat × Nat × Nat) (he : f.isElement c.1 = true) :
    ((nsCallOf c).run f).2 = .ok ∧ ((nsCallOf c).run f).1.Inv ∧
      ∀ x, ((nsCallOf c).run f).1.isElement x = f.isElement x :=
  fpx_call_ok hi (c := nsCallOf c) he

theorem fpxr_runCalls_cons {f : Forest} (hi : f.Inv) (c : Nat × Nat × Nat) (cs : List Call)
    (he : f.isElement c.1 = true) :
    f.runCalls (nsCallOf c :: cs) = ((nsCallOf c).run f).1.runCalls cs := by
  have h := (fpxr_call_ok hi c he).1
  conv => lhs; unfold runCalls
  rcases hr : (nsCallOf c).run f with ⟨f', r⟩
  rw [hr] at h
  simp only at h
  subst h
  rfl

/-- **The run, erased.** -/
theorem fpxr_runCalls_erase : ∀ (cs : List (Nat × Nat × Nat)) {f : Forest}, f.Inv →
    (∀ c ∈ cs, f.isElement c.1 = true) → ∀ cs' : List (Nat × Nat × Nat),
      eraseWithList cs' (f.runCalls (cs.map nsCallOf)).1.roots = eraseWithList (cs ++ cs') f.roots
  | [], _, _, _, _ => rfl
  | c :: cs, f, hi, hc, cs' => by
    have he := hc c (by simp)
    obtain ⟨_, hi1, hel⟩ := fpxr_call_ok hi c he
    obtain ⟨hroots, _⟩ := fpxr_call_roots hi c he
    rw [List.map_cons, fpxr_runCalls_cons hi c _ he,
      fpxr_runCalls_erase cs hi1 (fun c' h' => by rw [hel]; exact hc c' (by simp [h'])) cs', hroots]
    exact eraseWithList_nsEdit (cs ++ cs') c.1 c.2.1 c.2.2 f.next f.roots hi.nodup

theorem fpxr_runCalls_next : ∀ (cs : List (Nat × Nat × Nat)) {f : Forest}, f.Inv →
    (∀ c ∈ cs, f.isElement c.1 = true) → f.next ≤ (f.runCalls (cs.map nsCallOf)).1.next
  | [], _, _, _ => Nat.le_refl _
  | c :: cs, f, hi, hc => by
    have he := hc c (by simp)
    obtain ⟨_, hi1, hel⟩ := fpxr_call_ok hi c he
    obtain ⟨_, hn⟩ := fpxr_call_roots hi c he
    rw [List.map_cons, fpxr_runCalls_cons hi c _ he]
    exact Nat.le_trans hn (fpxr_runCalls_next cs hi1 (fun c' h' => by rw [hel]; exact hc c' (by simp [h'])))

/-- **The run as a replacement of one subtree**: all targets are elements inside the subtree `S` of
    `nd`. -/
theorem fpxr_runCalls_graft : ∀ (cs : List (Nat × Nat × Nat)) {f : Forest}, f.Inv → ∀ {nd : Nat} {S : HTree},
    f.get? nd = some S → (∀ c ∈ cs, f.isElement c.1 = true ∧ c.1 ∈ handles S) → ∀ b, b ≤ f.next →
    ∃ S', S'.handle = nd ∧
      (f.runCalls (cs.map nsCallOf)).1.roots = mapAtList nd (fun _ => S') f.roots ∧
      (f.runCalls (cs.map nsCallOf)).1.get? nd = some S' ∧
      (handles S').filter (· < b) = (handles S).filter (· < b) ∧
      ∀ cs' : List (Nat × Nat × Nat), eraseWith cs' S' = eraseWith (cs ++ cs') S
  | [], f, hi, nd, S, hg, _, b, _ => by
    refine ⟨S, Fmap.findList?_handle nd _ _ hg, ?_, hg, rfl, fun _ => rfl⟩
    exact (graftList_self nd S f.roots hi.nodup hg).symm
  | c :: cs, f, hi, nd, S, hg, hc, b, hb => by
    obtain ⟨he, hin⟩ := hc c (by simp)
    obtain ⟨_, hi1, hel⟩ := fpxr_call_ok hi c he
    obtain ⟨hroots, hnext⟩ := fpxr_call_roots hi c he
    have hSh : S.handle = nd := Fmap.findList?_handle nd _ _ hg
    let S1 := mapAt c.1 (nsEdit c.2.1 c.2.2 f.next) S
    have hS1h : S1.handle = nd := by
      rw [mapAt_handle _ _ (nsEdit_handle _ _ _), hSh]
    have hroots1 : ((nsCallOf c).run f).1.roots = mapAtList nd (fun _ => S1) f.roots := by
      rw [hroots]
      exact mapAtList_as_graft c.1 nd _ S hin f.roots hi.nodup hg
    have hg1 : ((nsCallOf c).run f).1.get? nd = some S1 := by
      unfold get?
      rw [hroots1]
      exact Fmap.findList?_mapAtList_self nd _ f.roots S hg hS1h
    have hsub : ∀ x ∈ handles S, x ∈ handles S1 := by
      intro x hx
      have hx' : x < f.next := hi.below x ((findList?_sublist nd f.roots S hg).subset hx)
      have h1 := handles_nsEdit_filter c.1 c.2.1 c.2.2 f.next f.next (Nat.le_refl _) S
      have : x ∈ (handles S).filter (· < f.next) := List.mem_filter.mpr ⟨hx, by simpa using hx'⟩
      rw [← h1] at this
      exact (List.mem_filter.mp this).1
    obtain ⟨S', h1, h2, h3, h4, h5⟩ := fpxr_runCalls_graft cs hi1 hg1
      (fun c' h' => ⟨by rw [hel]; exact (hc c' (by simp [h'])).1, hsub _ (hc c' (by simp [h'])).2⟩)
      b (Nat.le_trans hb hnext)
    refine ⟨S', h1, ?_, ?_, ?_, ?_⟩
    · rw [List.map_cons, fpxr_runCalls_cons hi c _ he, h2, hroots1]
      exact graftList_graftList nd S1 S' hS1h f.roots
    · rw [List.map_cons, fpxr_runCalls_cons hi c _ he]; exact h3
    · rw [h4]
      exact handles_nsEdit_filter c.1 c.2.1 c.2.2 f.next b hb S
    · intro cs'
      rw [h5 cs']
      exact eraseWith_nsEdit (cs ++ cs') c.1 c.2.1 c.2.2 f.next S (Fmap.findList?_nodup nd f.roots S hi.nodup hg)

end Forest
end XotModel
