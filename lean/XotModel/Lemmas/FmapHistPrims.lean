/-
  Lemmas for C11 histories, part 2: the primitive forest changes behind every `MapOp2`
  (rewrite of an entry's value, a new last entry, removal, clearing, placement of a parentless
  entry node, detachment), each summarised as a `Touch`: the invariant, the reference meaning of
  the addressed view, what happens to its (key, node) list, the other view, and the frame for
  every other node of the forest.
-/
import XotModel.Lemmas.FmapHistFrame

namespace XotModel
namespace Fmap
open HTree
open Forest (MapKind entryKey mapChildren)

/-- (key, handle) of an entry node. -/
def knOf (c : HTree) : Nat × Nat := (entryKey c.value, c.handle)

theorem MInv.absHV_eq {f : Forest} {e nm : Nat} {N A S : List HTree} (h : MInv f e nm N A S)
    (k : MapKind) : absHV k f e = (Sect.sec k N A).map hv := by
  unfold absHV
  rw [h.loc.get]
  simp only
  rw [mapChildren_eq]
  simp only [HTree.kids]
  rw [h.sect.kidsOf]

theorem MInv.absKN_eq {f : Forest} {e nm : Nat} {N A S : List HTree} (h : MInv f e nm N A S)
    (k : MapKind) : absKN k f e = (Sect.sec k N A).map knOf := by
  rw [absKN_of_absHV, h.absHV_eq k, List.map_map]
  rfl

theorem KNStep.refl (l : List (Nat × Nat)) : KNStep l l := Or.inl (List.Sublist.refl _)

theorem KNStep.of_eq {a b : List (Nat × Nat)} (h : b = a) : KNStep a b := h ▸ KNStep.refl a

/-- Summary of one change of view `k` of the element `e`: the reference meaning `m'` of the view
    afterwards. -/
structure Touch (f f' : Forest) (e : Nat) (k : MapKind) (m' : OMap Payload) : Prop where
  inv : f'.Inv
  elem : f'.isElement e = true
  same : abs k f' e = m'
  kn : KNStep (absKN k f e) (absKN k f' e)
  other : ∀ k', k' ≠ k → absHV k' f' e = absHV k' f e
  frame : ∀ x, x ≠ e → SameViews f f' x

theorem Touch.refl {f : Forest} (hi : f.Inv) {e : Nat} (he : f.isElement e = true) (k : MapKind) :
    Touch f f e k (abs k f e) :=
  ⟨hi, he, rfl, KNStep.refl _, fun _ _ => rfl, fun x _ => SameViews.refl f x⟩

theorem Touch.cast {f f' : Forest} {e : Nat} {k : MapKind} {m' m'' : OMap Payload}
    (t : Touch f f' e k m') (h : m' = m'') : Touch f f' e k m'' := h ▸ t

/-- A change of the forest that no view notices, followed by a `Touch`. -/
theorem Touch.precomp {f f1 f' : Forest} {e : Nat} {k : MapKind} {m' : OMap Payload}
    (s : ∀ x, SameViews f f1 x) (t : Touch f1 f' e k m') : Touch f f' e k m' :=
  ⟨t.inv, t.elem, t.same, by rw [← (s e).kn k]; exact t.kn,
    fun k' hk => (t.other k' hk).trans ((s e).hv k'),
    fun x hx => (s x).trans (t.frame x hx)⟩

theorem sec_flags {f : Forest} {e nm : Nat} {N A S : List HTree} (h : MInv f e nm N A S)
    (k : MapKind) : ∀ c ∈ Sect.sec k N A, c.kids = [] ∧ c.value.isElement = false := by
  intro c hc
  refine ⟨h.leaf k c hc, isElement_false_of_cat _ ?_⟩
  rw [h.sect.sec_cat k c hc]
  exact kindCat_ne_normal k

theorem matches_not_element (k : MapKind) (v : Value) (hm : k.matches v = true) :
    v.isElement = false :=
  isElement_false_of_cat v (by rw [(matches_iff_cat k v).mp hm]; exact kindCat_ne_normal k)

theorem touch_mk {f f' : Forest} {e nm : Nat} {N A S s' : List HTree} {k : MapKind}
    (hi' : f'.Inv) (h : MInv f e nm N A S)
    (h' : MInv f' e nm (setSecN k N s') (setSecA k A s') S)
    (hkn : KNStep ((Sect.sec k N A).map knOf) (s'.map knOf))
    (hframe : ∀ x, x ≠ e → SameViews f f' x) : Touch f f' e k (s'.map entryPair) := by
  refine ⟨hi', h'.isElement, MInv.abs_update h', ?_, ?_, hframe⟩
  · rw [h.absKN_eq k, h'.absKN_eq k, sec_setSec]
    exact hkn
  · intro k' hk
    rw [h'.absHV_eq k', h.absHV_eq k', sec_setSec_other k k' N A s' hk]

/-- The frame of a step that keeps the parentless trees. -/
theorem frame_same_roots {f f' : Forest} {e nm : Nat} {N A S s' : List HTree} {k : MapKind}
    (h : MInv f e nm N A S) (h' : MInv f' e nm (setSecN k N s') (setSecA k A s') S)
    (hr : f'.roots = withKids f.roots e (preK k N ++ s' ++ postK k A S))
    (hnew : ∀ c ∈ s', c.handle ∈ (Sect.sec k N A).map (·.handle) ∨ f.get? c.handle = none)
    (x : Nat) (hx : x ≠ e) : SameViews f f' x := by
  have hl : Located f e (.element nm) (preK k N ++ Sect.sec k N A ++ postK k A S) := by
    rw [← split_kids]; exact h.loc
  have hl' : Located f' e (.element nm) (preK k N ++ s' ++ postK k A S) := by
    rw [← setSec_kids]; exact h'.loc
  have hm' : ∀ c ∈ s', c.kids = [] ∧ c.value.isElement = false := by
    have := sec_flags h' k
    rwa [sec_setSec] at this
  exact frame_withKids _ _ _ _ hl hr hl' (sec_flags h k) hm' hnew x hx

/-! ### P1: the value of an existing entry is rewritten -/

theorem touch_setValue {f : Forest} (hi : f.Inv) {e nm : Nat} {N A S : List HTree}
    (h : MInv f e nm N A S) (k : MapKind) (key : Nat) (n : HTree) (entry : Value)
    (hm : k.matches entry = true) (hf : f.mapGetNode k e key = some n) :
    Touch f (f.setValue n.handle (Forest.entryUpdate n.value entry)) e k
      (omInsert (abs k f e) key (payloadOf entry)) := by
  rw [h.getNode k] at hf
  obtain ⟨hkey, s1, s2, hs, hs1⟩ := find?_key_split _ _ _ hf
  obtain ⟨heq, hinv, hmap, hnodes⟩ := insert_existing h k entry hm n s1 s2 hs key hkey hs1
  rw [heq]
  have st : Step f _ e nm N A S k f.roots _ := ⟨rfl, hinv, Nat.le_refl _⟩
  have hncat : n.value.category = kindCat k := h.sect.sec_cat k n (by rw [hs]; simp)
  have hkn : (s1 ++ n.setValue (Forest.entryUpdate n.value entry) :: s2).map knOf =
      (Sect.sec k N A).map knOf := by
    rw [hs]
    simp only [List.map_append, List.map_cons]
    congr 2
    cases n with
    | node hh vv kk =>
      simp only [knOf, HTree.setValue, HTree.value, HTree.handle]
      rw [(entryUpdate_key k vv entry hncat hm).1]
  have := touch_mk (inv_of_step_same hi h st) h hinv (KNStep.of_eq hkn)
    (frame_same_roots h hinv rfl (fun c hc => Or.inl (by
      rw [← hnodes]; exact List.mem_map.mpr ⟨c, hc, rfl⟩)))
  rw [hmap, ← h.abs_eq k] at this
  exact this

/-! ### P3: an entry is removed -/

theorem touch_remove {f : Forest} (hi : f.Inv) {e nm : Nat} {N A S : List HTree}
    (h : MInv f e nm N A S) (k : MapKind) (key : Nat) (n : HTree)
    (hf : f.mapGetNode k e key = some n) :
    (f.remove n.handle).2 = .ok ∧
    Touch f (f.remove n.handle).1 e k (omRemove (abs k f e) key) := by
  rw [h.getNode k] at hf
  obtain ⟨hkey, s1, s2, hs, hs1⟩ := find?_key_split _ _ _ hf
  obtain ⟨hrem, hinv, hmap⟩ := remove_present h k key n s1 s2 hs hkey hs1
  rw [hrem]
  refine ⟨rfl, ?_⟩
  simp only
  have st : Step f _ e nm N A S k f.roots _ := ⟨rfl, hinv, Nat.le_refl _⟩
  have hkn : ((s1 ++ s2).map knOf).Sublist ((Sect.sec k N A).map knOf) := by
    rw [hs]
    simp only [List.map_append, List.map_cons]
    exact List.Sublist.append (List.Sublist.refl _) (List.sublist_cons_self _ _)
  have := touch_mk (inv_of_step_same hi h st) h hinv (Or.inl hkn)
    (frame_same_roots h hinv rfl (fun c hc => Or.inl (by
      rw [hs]
      simp only [List.mem_append] at hc
      simp only [List.map_append, List.map_cons, List.mem_append, List.mem_cons]
      rcases hc with hc | hc
      · exact Or.inl (List.mem_map.mpr ⟨c, hc, rfl⟩)
      · exact Or.inr (Or.inr (List.mem_map.mpr ⟨c, hc, rfl⟩)))))
  rw [hmap, ← h.abs_eq k] at this
  exact this

/-! ### P4: the view is cleared -/

theorem touch_clear {f : Forest} (hi : f.Inv) {e nm : Nat} {N A S : List HTree}
    (h : MInv f e nm N A S) (k : MapKind) :
    (f.mapClear k e).2 = .ok ∧ Touch f (f.mapClear k e).1 e k [] := by
  obtain ⟨st, hok⟩ := mapClear_step h k
  refine ⟨hok, ?_⟩
  have hr : (f.mapClear k e).1.roots = withKids f.roots e (preK k N ++ [] ++ postK k A S) := by
    have := congrArg Forest.roots st.state
    exact this
  exact touch_mk (s' := []) (inv_of_step_same hi h st) h st.inv (Or.inl (List.nil_sublist _))
    (frame_same_roots h st.inv hr (fun c hc => by cases hc))

/-! ### P7: a new parentless entry node -/

theorem newNode_sameViews (f : Forest) (hi : f.Inv) (v : Value) (hv : v.isElement = false)
    (x : Nat) : SameViews f (f.newNode v).1 x := by
  have hfresh : f.next ∉ f.allHandles := fun hx => Nat.lt_irrefl _ (hi.below _ hx)
  by_cases hx : x = f.next
  · subst hx
    apply sameViews_of_entryish
    · exact entryish_of_none (findList?_none_of_not_mem _ _ hfresh)
    · have hg : (f.newNode v).1.get? f.next = some (.node f.next v []) :=
        findList?_direct _ (newNode_inv f hi v).nodup (.node f.next v []) (by simp [newNode_eq])
      exact entryish_of_get hg rfl hv
  · apply sameViews_of_get
    show findList? x (f.roots ++ [.node f.next v []]) = findList? x f.roots
    rw [findList?_append]
    have : findList? x [HTree.node f.next v []] = none := by
      apply findList?_none_of_not_mem
      simp [handlesList, handles, hx]
    rw [this]
    simp

/-! ### P5: a parentless entry node whose key is absent is placed last -/

theorem touch_place {f : Forest} (hi : f.Inv) {e nm : Nat} {N A S : List HTree}
    (h : MInv f e nm N A S) (k : MapKind) (nd : Nat) (v : Value) (hm : k.matches v = true)
    (hroot : HTree.node nd v [] ∈ f.roots) (habs : f.mapGetNode k e (entryKey v) = none) :
    (f.appendEntryNode k e nd).2 = (.ok, nd) ∧
    Touch f (f.appendEntryNode k e nd).1 e k (omInsert (abs k f e) (entryKey v) (payloadOf v)) ∧
    absKN k (f.appendEntryNode k e nd).1 e = absKN k f e ++ [(entryKey v, nd)] := by
  have hne := leafRoot_ne_elem h k nd v hm hroot
  have hisroot : f.isRoot nd = true := by
    unfold Forest.isRoot
    exact List.any_eq_true.mpr ⟨_, hroot, by simp [HTree.handle]⟩
  have hget := leafRoot_get f hi.nodup nd v hroot
  have hval : f.value? nd = some v := by simp [Forest.value?, hget, HTree.value]
  have hinvF := appendEntryNode_inv f hi k e nd v h.isElement hisroot hval hm
  obtain ⟨hcall, hinv, hmap, _⟩ := appendEntryNode_absent h k nd v hm hroot habs
  rw [hcall] at hinvF ⊢
  simp only at hinvF ⊢
  have hkn : (Sect.sec k N A ++ [HTree.node nd v []]).map knOf =
      (Sect.sec k N A).map knOf ++ [(entryKey v, nd)] := by
    simp [knOf, HTree.value, HTree.handle]
  -- the frame: first forget the parentless node, then replace the children of `e`
  let f0 : Forest := { f with roots := rootsWithout f nd }
  have h0 : Located f0 e (.element nm) (N ++ A ++ S) := located_without h.loc nd v hroot hne
  have hnd0 : f0.get? nd = none :=
    findList?_none_of_not_mem _ _ (not_mem_handlesList_filter_leafRoot f.roots hi.nodup nd v hroot)
  have s0 : ∀ x, SameViews f f0 x := by
    intro x
    by_cases hx : x = nd
    · subst hx
      exact sameViews_of_entryish (entryish_of_get hget rfl (matches_not_element k v hm))
        (entryish_of_none hnd0)
    · exact sameViews_of_get (find?_leafRoot_filter f.roots hi.nodup nd x v hroot hx)
  let ksF := preK k N ++ (Sect.sec k N A ++ [HTree.node nd v []]) ++ postK k A S
  let fF : Forest := { f with roots := withKids (rootsWithout f nd) e ksF }
  have hfr : ∀ x, x ≠ e → SameViews f fF x := by
    intro x hx
    refine (s0 x).trans ?_
    have hl0 : Located f0 e (.element nm) (preK k N ++ Sect.sec k N A ++ postK k A S) := by
      rw [← split_kids]; exact h0
    have hl' := hinv.loc
    rw [setSec_kids] at hl'
    have hm' : ∀ c ∈ Sect.sec k N A ++ [HTree.node nd v []],
        c.kids = [] ∧ c.value.isElement = false := by
      have := sec_flags hinv k
      rwa [sec_setSec] at this
    refine frame_withKids (f := f0) _ _ _ _ hl0 rfl hl' (sec_flags h k) hm' ?_ x hx
    intro c hc
    simp only [List.mem_append, List.mem_singleton] at hc
    rcases hc with hc | hc
    · exact Or.inl (List.mem_map.mpr ⟨c, hc, rfl⟩)
    · right; rw [hc]; exact hnd0
  have t := touch_mk hinvF h hinv (Or.inr ⟨_, hkn⟩) hfr
  rw [hmap, ← h.abs_eq k] at t
  refine ⟨trivial, t, ?_⟩
  rw [hinv.absKN_eq k, sec_setSec, hkn, h.absKN_eq k]

/-! ### P6: an entry node is detached -/

theorem touch_detach {f : Forest} (hi : f.Inv) {e nm : Nat} {N A S : List HTree}
    (h : MInv f e nm N A S) (k : MapKind) (key : Nat) (n : HTree)
    (hf : f.mapGetNode k e key = some n) :
    (f.detach n.handle).2 = .ok ∧
    Touch f (f.detach n.handle).1 e k (omRemove (abs k f e) key) ∧
    HTree.node n.handle n.value [] ∈ (f.detach n.handle).1.roots ∧
    k.matches n.value = true ∧ entryKey n.value = key := by
  have hf' := hf
  rw [h.getNode k] at hf'
  obtain ⟨hkey, s1, s2, hs, hs1⟩ := find?_key_split _ _ _ hf'
  have hn : n ∈ Sect.sec k N A := by rw [hs]; simp
  have hncat : n.value.category = kindCat k := h.sect.sec_cat k n hn
  have hmv : k.matches n.value = true := (matches_iff_cat k _).mpr hncat
  have hloc : Located f e (.element nm) ((preK k N ++ s1) ++ n :: (s2 ++ postK k A S)) := by
    rw [← kids_around k N A S s1 s2 n hs]; exact h.loc
  have a : Attached f e (.element nm) (preK k N ++ s1) (s2 ++ postK k A S) n := ⟨hloc, h.leaf k n hn⟩
  have hdet := detach_child hloc (by rw [hncat]; exact kindCat_ne_normal k)
  have hfd : (f.detach n.handle).1 = a.fd := by rw [hdet]; rfl
  have hnodes : n.handle ∈ absNodes k f e := by
    rw [h.absNodes_eq k]; exact List.mem_map.mpr ⟨n, hn, rfl⟩
  have hinvF := detach_node_inv f hi k e n.handle h.isElement hnodes
  obtain ⟨s', st, hok, hmap, _⟩ := detach_node_step h k n hn
  -- the new section is the old one without `n`
  have hs' : s' = s1 ++ s2 := by
    have g1 := st.inv.loc.get
    have g2 := (located_after_detach hloc).get
    rw [hfd] at g1
    have g2' : a.fd.get? e = _ := g2
    rw [g2'] at g1
    simp only [Option.some.injEq, HTree.node.injEq, true_and] at g1
    rw [setSec_kids] at g1
    have : preK k N ++ (s1 ++ s2) ++ postK k A S = preK k N ++ s' ++ postK k A S := by
      rw [← g1]; simp
    exact (List.append_cancel_left (List.append_cancel_right this)).symm
  subst hs'
  have hkn : ((s1 ++ s2).map knOf).Sublist ((Sect.sec k N A).map knOf) := by
    rw [hs]
    simp only [List.map_append, List.map_cons]
    exact List.Sublist.append (List.Sublist.refl _) (List.sublist_cons_self _ _)
  have hne : n.handle ≠ e := by
    intro hx
    apply hloc.kidsNodup.2
    rw [← hx, handlesList_append]
    simp only [handlesList, List.mem_append]
    exact Or.inr (Or.inl (handle_mem_handles n))
  have hfr : ∀ x, x ≠ e → SameViews f (f.detach n.handle).1 x := by
    intro x hx
    rw [hfd]
    by_cases hxn : n.handle = x
    · subst hxn
      refine sameViews_of_entryish
        (entryish_of_get (hloc.childFound n (by simp)) (h.leaf k n hn) (matches_not_element k _ hmv))
        (entryish_of_get (leafRoot_get a.fd a.fd_nodup n.handle n.value a.root_mem) rfl
          (matches_not_element k _ hmv))
    · exact sameViews_of_shallow (a.shallow_eq x hx hxn)
  have t := touch_mk hinvF h st.inv (Or.inl hkn) hfr
  rw [hmap, ← h.abs_eq k] at t
  have hkey' : keyOf n = key := hkey
  rw [hkey'] at t
  refine ⟨hok, t, ?_, hmv, hkey⟩
  rw [hfd]
  exact a.root_mem

end Fmap
end XotModel
