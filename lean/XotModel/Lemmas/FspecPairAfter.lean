/-
  FspecPairAfter — C05 for `insert_after`, PAIR reading (`Model/FspecSpec3.lean`), for EVERY forest
  with `Forest.Inv` (no `Forest.Normal`: the forest may hold adjacent text nodes).

  Part 1 (this file): list facts (`mergeAdj` commutes with maps over the children, `mergeAdj`
  without a text pair, `nextOf` through a map), the second half of `insert_after`
  (`insertAfterTail`) against "graft into the cut forest, then `mergeNew`" from what the model
  reads (`tail_core`), and its three instances: the moved node is a parentless tree
  (`tail_root`), a child of another node (`tail_kid`), a child of the destination parent
  (`tail_same`).  Only LOCAL facts about the forest are used.
-/
import XotModel.Lemmas.FspecPair
import XotModel.Lemmas.FspecSame
import XotModel.Lemmas.FspecReplGapNF2

namespace XotModel
open HTree Spec

namespace PairAfter

/-! ### List facts -/

theorem joinLeft_map {φ : HTree → HTree} (hφ : KidMap φ) (x y : HTree) :
    joinLeft (φ x) (φ y) = (joinLeft x y).map φ := by
  unfold joinLeft
  rw [hφ.value, hφ.value]
  split
  · simp [hφ.setValue]
  · rfl

theorem natFor_mergeAdj {φ : HTree → HTree} (hφ : KidMap φ) (a b : Nat) : NatFor φ (mergeAdj a b)
  | [] => by simp [mergeAdj_nil]
  | [x] => by simp [mergeAdj_single]
  | x :: y :: rest => by
    have ih := natFor_mergeAdj hφ a b (y :: rest)
    simp only [List.map_cons] at ih ⊢
    rw [mergeAdj_cons_cons, mergeAdj_cons_cons, hφ.handle, hφ.handle]
    by_cases h : x.handle = a ∧ y.handle = b
    · rw [if_pos h, if_pos h, joinLeft_map hφ]
      cases joinLeft x y <;> simp
    · rw [if_neg h, if_neg h, ih]
      simp

/-- No pair of text nodes carrying the two handles: `mergeAdj` changes nothing. -/
theorem mergeAdj_noop {a b : Nat} : ∀ (L : List HTree),
    (∀ x ∈ L, ∀ y ∈ L, x.handle = a → y.handle = b → ¬ (x.value.isText = true ∧ y.value.isText = true)) →
    mergeAdj a b L = L
  | [], _ => mergeAdj_nil a b
  | [x], _ => mergeAdj_single a b x
  | x :: y :: rest, h => by
    rw [mergeAdj_cons_cons]
    by_cases hh : x.handle = a ∧ y.handle = b
    · rw [if_pos hh, joinLeft_none (h x (by simp) y (by simp) hh.1 hh.2)]
      rfl
    · rw [if_neg hh, mergeAdj_noop (y :: rest) (fun x' hx' y' hy' =>
        h x' (List.mem_cons_of_mem _ hx') y' (List.mem_cons_of_mem _ hy'))]

theorem nextOf_map {φ : HTree → HTree} (hφ : KidMap φ) (B : List HTree) (w : HTree) :
    nextOf (B.map φ) (φ w) = nextOf B w := by
  cases B with
  | nil => rfl
  | cons k B2 => simp [nextOf, hφ.value, hφ.handle]

theorem textData_map {φ : HTree → HTree} (hφ : KidMap φ) (k : HTree) : textData (φ k) = textData k := by
  unfold textData; rw [hφ.value]

theorem not_text_of_none {k : HTree} (h : textData k = none) : ¬ k.value.isText = true := by
  intro ht
  obtain ⟨z, hz⟩ := isText_iff_textData.1 ht
  rw [h] at hz; cases hz

theorem isText_of_some {k : HTree} {z : Str} (h : textData k = some z) : k.value.isText = true :=
  isText_iff_textData.2 ⟨z, h⟩

theorem normal_cat {v : Value} (h : v.isNormal = true) : v.category = .normal := by
  simpa [Value.isNormal] using h

theorem text_normal {v : Value} (h : v.isText = true) : v.isNormal = true := by
  cases v <;> simp_all [Value.isText, Value.isNormal, Value.category]

theorem nextOf_cons_normal {w k : HTree} {B : List HTree} (hw : w.value.isNormal = true)
    (hk : k.value.isNormal = true) : nextOf (k :: B) w = some k.handle := by
  simp [nextOf, normal_cat hw, normal_cat hk]

theorem nextOf_cons_some {w k : HTree} {B : List HTree} {x : Nat} (h : nextOf (k :: B) w = some x) :
    x = k.handle := by
  obtain ⟨kb, B2, e, ekb, _⟩ := nextOf_eq_some h
  injection e with e1 _
  rw [← ekb, e1]

/-! ### The second half of `insert_after`, from what the model reads -/

/-- `X` is the forest after the old-place consolidation, `Y` the forest after the cut, in which
    the destination child list is `A ++ w :: B`. -/
theorem tail_core {X Y : Forest} {q : Nat} {vq : Value} {t : HTree} {A : List HTree} {w : HTree}
    {B : List HTree} (sY : SiteAt Y q vq (A ++ w :: B))
    (hcons : X.consolidation = Y.consolidation)
    (hXc : X.textOf t.handle = textData t)
    (hXw : X.textOf w.handle = textData w)
    (hXb : ∀ kb B2, B = kb :: B2 → X.textOf kb.handle = textData kb)
    (hXnext : textData w = none → X.nextSibling w.handle = nextOf B w)
    (hwn : w.value.isNormal = true)
    (hctop : ∀ k ∈ A ++ w :: B, k.handle ≠ t.handle)
    (hplace : X.checkedInsertAfter w.handle t.handle = (Y.editAt (some q) (insertAfterTop w.handle t), true))
    (hflow : t.value.isText = true → ∀ k ∈ A ++ w :: B, k.value.isText = true → ∀ v,
      (X.setValue k.handle v).spliceOut t.handle =
        Y.editAt (some q) (replaceTop k.handle (fun k => [k.setValue v]))) :
    (insertAfterTail X w.handle t.handle).1 =
      (Y.editAt (some q) (insertAfterTop w.handle t)).mergeNewAt q t.handle := by
  obtain ⟨ndL, _⟩ := sY.nodupKids
  obtain ⟨tA, tB⟩ := tops_ne_of_nodup ndL
  have hI : insertAfterTop w.handle t (A ++ w :: B) = A ++ w :: t :: B := insertAfterTop_mid t tA
  have hcA : ∀ k ∈ A, k.handle ≠ t.handle := fun k hk => hctop k (List.mem_append_left _ hk)
  have hcw : w.handle ≠ t.handle := hctop w (by simp)
  have hcB : ∀ k ∈ B, k.handle ≠ t.handle :=
    fun k hk => hctop k (List.mem_append_right _ (List.mem_cons_of_mem _ hk))
  have hYc : (Y.editAt (some q) (insertAfterTop w.handle t)).consolidation = Y.consolidation :=
    Forest.editAt_consolidation _ _ _
  -- nothing is merged at the new place
  have flow1 : X.addConsolidate t.handle (some w.handle) (X.nextSibling w.handle) = (X, false) →
      (Y.consolidation = true → mergeNew t.handle (A ++ w :: t :: B) = A ++ w :: t :: B) →
      (insertAfterTail X w.handle t.handle).1 =
        (Y.editAt (some q) (insertAfterTop w.handle t)).mergeNewAt q t.handle := by
    intro hr2 hl
    unfold insertAfterTail
    rw [hr2]
    simp only [Bool.false_eq_true, if_false]
    rw [hplace]
    simp only [if_true]
    rcases Bool.eq_false_or_eq_true Y.consolidation with hc | hc
    · rw [Forest.mergeNewAt_on (hYc.trans hc), Forest.editAt_editAt]
      apply sY.congr
      simp only [Function.comp]
      rw [hI, hl hc]
    · rw [Forest.mergeNewAt_off (hYc.trans hc)]
  rcases Bool.eq_false_or_eq_true Y.consolidation with hc | hc
  case inr => exact flow1 (Forest.addConsolidate_off (hcons.trans hc) _ _ _) (fun h => by rw [hc] at h; cases h)
  cases htd : textData t with
  | none =>
    have hnt : t.value.isText = false := by
      cases h : t.value.isText with
      | false => rfl
      | true => exact absurd h (not_text_of_none htd)
    refine flow1 (Forest.addConsolidate_not_text (hXc.trans htd) _ _) (fun _ => ?_)
    have e : A ++ w :: t :: B = (A ++ [w]) ++ t :: B := by simp
    rw [e]
    exact mergeNew_nontext hnt _ _ (by
      intro x hx
      cases List.mem_append.1 hx with
      | inl h => exact hcA x h
      | inr h =>
        have : x = w := by simpa using h
        rw [this]; exact hcw) hcB
  | some tc =>
    have htt : t.value.isText = true := isText_of_some htd
    have hflow' := hflow htt
    cases hta : textData w with
    | some ta =>
      -- merged into the reference node
      have hwt : w.value.isText = true := isText_of_some hta
      have hr2 : X.addConsolidate t.handle (some w.handle) (X.nextSibling w.handle) =
          ((X.setValue w.handle (.text (ta ++ tc))).spliceOut t.handle, true) :=
        Forest.addConsolidate_prev (hcons.trans hc) (hXc.trans htd) (hXw.trans hta) _ hcw
      unfold insertAfterTail
      rw [hr2]
      simp only [if_true]
      rw [hflow' w (by simp) hwt, Forest.mergeNewAt_on (hYc.trans hc), Forest.editAt_editAt]
      apply sY.congr
      simp only [Function.comp]
      rw [hI, replaceTop_mid rfl tA, mergeNew_mid_left (textData_some hta) (textData_some htd) A B hcA hcw]
      simp
    | none =>
      have hnw : ¬ w.value.isText = true := not_text_of_none hta
      have hprev : ∀ a, some w.handle = some a → X.textOf a = none := by
        intro a h; cases h; exact hXw.trans hta
      have hnext := hXnext hta
      have hright : mergeNew t.handle (A ++ w :: t :: B) = A ++ w :: mergeNewHead t B :=
        mergeNew_mid_right (fun h => hnw h.1) A B hcA hcw
      cases B with
      | nil =>
        refine flow1 (Forest.addConsolidate_none hprev (by
          intro b h
          rw [hnext] at h
          simp [nextOf] at h)) (fun _ => ?_)
        rw [hright, mergeNewHead_nil]
      | cons kb B2 =>
        have hkbX : X.textOf kb.handle = textData kb := hXb kb B2 rfl
        cases htb : textData kb with
        | none =>
          refine flow1 (Forest.addConsolidate_none hprev (by
            intro b h
            rw [hnext] at h
            rw [nextOf_cons_some h]
            exact hkbX.trans htb)) (fun _ => ?_)
          rw [hright, mergeNewHead_other (fun h => not_text_of_none htb h.2)]
        | some tb =>
          -- merged into the following text node
          have hkbt : kb.value.isText = true := isText_of_some htb
          have hnx : nextOf (kb :: B2) w = some kb.handle := nextOf_cons_normal hwn (text_normal hkbt)
          have hr2 : X.addConsolidate t.handle (some w.handle) (X.nextSibling w.handle) =
              ((X.setValue kb.handle (.text (tc ++ tb))).spliceOut t.handle, true) := by
            rw [hnext, hnx]
            exact Forest.addConsolidate_next (hcons.trans hc) (hXc.trans htd) hprev (hkbX.trans htb)
              (hcB kb (by simp))
          unfold insertAfterTail
          rw [hr2]
          simp only [if_true]
          rw [hflow' kb (by simp) hkbt, Forest.mergeNewAt_on (hYc.trans hc), Forest.editAt_editAt]
          apply sY.congr
          simp only [Function.comp]
          have e1 : A ++ w :: kb :: B2 = (A ++ [w]) ++ kb :: B2 := by simp
          have tKb : ∀ k ∈ A ++ [w], k.handle ≠ kb.handle := (tops_ne_of_nodup (e1 ▸ ndL)).1
          rw [hI, hright, mergeNewHead_text (textData_some htd) (textData_some htb), e1,
            replaceTop_mid rfl tKb]
          simp

/-! ### Instance 1: the moved node is a parentless tree -/

theorem site_split {f : Forest} {p : Nat} {v : Value} {L : List HTree} {k : HTree} (s : SiteAt f p v L)
    (hk : k ∈ L) : ∃ P Q, L = P ++ k :: Q ∧ SiteAt f p v (P ++ k :: Q) := by
  obtain ⟨P, Q, e⟩ := List.append_of_mem hk
  exact ⟨P, Q, e, e ▸ s⟩

theorem site_getKid {f : Forest} {p : Nat} {v : Value} {L : List HTree} {k : HTree} (s : SiteAt f p v L)
    (hk : k ∈ L) : f.get? k.handle = some k := by
  obtain ⟨P, Q, _, s'⟩ := site_split s hk
  exact s'.getKid

theorem site_parent {f : Forest} {p : Nat} {v : Value} {L : List HTree} {k : HTree} (s : SiteAt f p v L)
    (hk : k ∈ L) : f.parent? k.handle = some p := by
  obtain ⟨P, Q, _, s'⟩ := site_split s hk
  exact Forest.parent?_of_ctx s'.ctx

theorem tail_root {X : Forest} {q : Nat} {vq : Value} {t : HTree} {A : List HTree} {w : HTree} {B : List HTree}
    (sq : SiteAt X q vq (A ++ w :: B)) (hgc : X.get? t.handle = some t) (hroot : X.ctx? t.handle = none)
    (hqt : q ∉ handles t) (hwn : w.value.isNormal = true)
    (hleaf : t.value.isText = true → t.kids = []) :
    (insertAfterTail X w.handle t.handle).1 =
      ((X.editAt none (dropTop t.handle)).editAt (some q) (insertAfterTop w.handle t)).mergeNewAt q t.handle := by
  have nd := sq.nd
  have sY := sq.dropRoot hgc hqt
  have hpar : X.parent? t.handle = none := Forest.parent?_of_no_ctx hroot
  have hctop : ∀ k ∈ A ++ w :: B, k.handle ≠ t.handle := by
    intro k hk e
    have := site_parent sq hk
    rw [e, hpar] at this
    cases this
  have hcq : t.handle ≠ q := fun e => hqt (e ▸ fs_handle_mem_handles t)
  refine tail_core sY rfl (Forest.textOf_of_get hgc) (Forest.textOf_of_get sq.getKid) ?_
    (fun _ => Forest.nextSibling_of_ctx sq.ctx) hwn hctop ?_ ?_
  · intro kb B2 e
    exact Forest.textOf_of_get (site_getKid sq (by rw [e]; simp))
  · rw [Forest.checkedInsertAfter_ok hgc sq hqt (hctop w (by simp)), hpar,
      Forest.placeAfter_of_ctx t sY.nd sY.ctx]
  · intro htt k hk _ v
    obtain ⟨P, Q, _, sk⟩ := site_split sq hk
    rw [Forest.setValue_of_ctx v nd sk.ctx]
    have sZ := sq.edit (replaceTop k.handle (fun k => [k.setValue v]))
      (by rw [handlesList_setValTop]; exact List.Sublist.refl _)
    have hZget : (X.editAt (some q) (replaceTop k.handle (fun k => [k.setValue v]))).get? t.handle = some t := by
      rw [Forest.get?_editAt_other hcq nd (by
        intro v' L' _
        exact findList?_setValTop v (fun e' => hctop k hk e'.symm) L'), hgc]
      simp only [Option.map_some]
      rw [editAt_of_not_mem t hqt]
    have hr : X.isRoot t.handle = true := by
      rcases Forest.root_or_ctx hgc with h | ⟨cx, h⟩
      · exact h
      · rw [hroot] at h; cases h
    have hZroot := frame_root (replaceTop k.handle (fun k => [k.setValue v])) sZ.nd hr
    rw [Forest.spliceOut_leaf sZ.nd hZget (hleaf htt), Forest.parent?_of_no_ctx hZroot,
      Forest.editAt_none_comm]

/-! ### Instance 2: the moved node is a child of another node -/

theorem tail_kid {X : Forest} {po q : Nat} {vo vq : Value} {l1 : List HTree} {t : HTree} {r1 A : List HTree}
    {w : HTree} {B : List HTree}
    (so : SiteAt X po vo (l1 ++ t :: r1)) (sq : SiteAt X q vq (A ++ w :: B)) (hne : po ≠ q)
    (hqt : q ∉ handles t) (hwn : w.value.isNormal = true)
    (hleaf : t.value.isText = true → t.kids = [])
    (hleafq : ∀ k ∈ A ++ w :: B, k.value.isText = true → k.kids = []) :
    (insertAfterTail X w.handle t.handle).1 =
      ((X.editAt (some po) (dropTop t.handle)).editAt (some q) (insertAfterTop w.handle t)).mergeNewAt q
        t.handle := by
  have nd := sq.nd
  obtain ⟨ndL, hpoL⟩ := so.nodupKids
  obtain ⟨tl, tr⟩ := tops_ne_of_nodup ndL
  have hgc : X.get? t.handle = some t := so.getKid
  have hpar : X.parent? t.handle = some po := Forest.parent?_of_ctx so.ctx
  have hpot : po ∉ handles t := by
    intro hin
    apply hpoL
    rw [fs_handlesList_append, handlesList_cons]
    exact List.mem_append_right _ (List.mem_append_left _ hin)
  have hctop : ∀ k ∈ A ++ w :: B, k.handle ≠ t.handle := by
    intro k hk e
    have := site_parent sq hk
    rw [e, hpar] at this
    exact hne (Option.some.inj this)
  have honly : ∀ k ∈ l1 ++ t :: r1, k.handle = t.handle → k = t := by
    intro k hk e
    cases List.mem_append.1 hk with
    | inl h => exact absurd e (tl k h)
    | inr h =>
      cases List.mem_cons.1 h with
      | inl h' => exact h'
      | inr h' => exact absurd e (tr k h')
  let φ : HTree → HTree := HTree.editAt po (dropTop t.handle)
  have hφ : KidMap φ := kidMap_editAt _ _
  have sY0 := so.other sq.kids hne.symm (dropTop t.handle) (handlesList_dropTop_sublist _ _)
    (findList?_dropTop _ (by
      intro k hk e
      rw [honly k hk e]; exact hqt))
  have sY : SiteAt (X.editAt (some po) (dropTop t.handle)) q vq (A.map φ ++ φ w :: B.map φ) := by
    simpa using sY0
  have hmem : ∀ k' ∈ A.map φ ++ φ w :: B.map φ, ∃ k ∈ A ++ w :: B, k' = φ k := by
    intro k' hk'
    have : k' ∈ (A ++ w :: B).map φ := by simpa using hk'
    obtain ⟨k, hk, e⟩ := List.mem_map.1 this
    exact ⟨k, hk, e.symm⟩
  have h := tail_core (X := X) (t := t) sY rfl (Forest.textOf_of_get hgc)
    (by rw [hφ.handle, textData_map hφ]; exact Forest.textOf_of_get sq.getKid)
    (by
      intro kb' B2' e
      cases B with
      | nil => cases e
      | cons kb B2 =>
        simp only [List.map_cons] at e
        injection e with e1 _
        rw [← e1, hφ.handle, textData_map hφ]
        exact Forest.textOf_of_get (site_getKid sq (by simp)))
    (by
      intro _
      rw [hφ.handle, nextOf_map hφ]
      exact Forest.nextSibling_of_ctx sq.ctx)
    (by rw [hφ.value]; exact hwn)
    (by
      intro k' hk'
      obtain ⟨k, hk, e⟩ := hmem k' hk'
      rw [e, hφ.handle]; exact hctop k hk)
    (by
      rw [hφ.handle, Forest.checkedInsertAfter_ok hgc sq hqt (hctop w (by simp)), hpar]
      have hctx := sY.ctx
      rw [hφ.handle] at hctx
      rw [Forest.placeAfter_of_ctx t sY.nd hctx])
    (by
      intro htt k' hk' hk't v
      obtain ⟨k, hk, e⟩ := hmem k' hk'
      rw [e, hφ.value] at hk't
      rw [e, hφ.handle]
      obtain ⟨P, Q, _, sk⟩ := site_split sq hk
      have hkleaf := hleafq k hk hk't
      have hpoa : po ≠ k.handle := by
        intro e'
        have := sk.getKid
        rw [← e', so.kids] at this
        have := Option.some.inj this
        rw [← this] at hkleaf
        simp only [HTree.kids] at hkleaf
        cases l1 <;> cases hkleaf
      rw [Forest.setValue_of_ctx v nd sk.ctx]
      have sZo := sq.other so.kids hne (replaceTop k.handle (fun k => [k.setValue v]))
        (by rw [handlesList_setValTop]; exact List.Sublist.refl _)
        (findList?_setValTop v hpoa _)
      rw [List.map_append, List.map_cons,
        editAt_of_not_mem (s := q) (g := replaceTop k.handle (fun k => [k.setValue v])) t hqt] at sZo
      rw [Forest.spliceOut_leaf sZo.nd sZo.getKid (hleaf htt), Forest.parent?_of_ctx sZo.ctx]
      exact Forest.editAt_comm X hne (natFor_dropTop (kidMap_editAt _ _) _)
        (natFor_setValTop (kidMap_editAt _ _) _ _))
  rw [hφ.handle] at h
  exact h

/-! ### Instance 3: the moved node is a child of the destination parent -/

/-- A value update of another child keeps `t` where it is. -/
theorem setValTop_keeps {a : Nat} (v : Value) {t : HTree} (hat : t.handle ≠ a) (L2 : List HTree) :
    ∀ L1 : List HTree, ∃ L1' L2', replaceTop a (fun k => [k.setValue v]) (L1 ++ t :: L2) = L1' ++ t :: L2'
  | [] => ⟨[], replaceTop a (fun k => [k.setValue v]) L2, by
      simp only [List.nil_append]
      rw [replaceTop_cons, if_neg hat]⟩
  | x :: L1 => by
    simp only [List.cons_append]
    rw [replaceTop_cons]
    by_cases hx : x.handle = a
    · rw [if_pos hx]
      exact ⟨x.setValue v :: L1, L2, by simp⟩
    · rw [if_neg hx]
      obtain ⟨L1', L2', e⟩ := setValTop_keeps v hat L2 L1
      exact ⟨x :: L1', L2', by rw [e]; simp⟩

/-- Where the reference sits relative to the moved node. -/
theorem split_around {L1 L2 A B : List HTree} {w : HTree} (h : L1 ++ L2 = A ++ w :: B) :
    (∃ m, L1 = A ++ w :: m ∧ B = m ++ L2) ∨ (∃ m, A = L1 ++ m ∧ L2 = m ++ w :: B) := by
  rcases List.append_eq_append_iff.1 h with ⟨a', h1, h2⟩ | ⟨c', h1, h2⟩
  · -- A = L1 ++ a', L2 = a' ++ w :: B
    exact Or.inr ⟨a', h1, h2⟩
  · -- L1 = A ++ c', w :: B = c' ++ L2
    cases c' with
    | nil =>
      simp only [List.nil_append] at h2
      simp only [List.append_nil] at h1
      exact Or.inr ⟨[], by simp [h1], by simp [h2]⟩
    | cons x c'' =>
      simp only [List.cons_append] at h2
      injection h2 with e1 e2
      subst e1
      exact Or.inl ⟨c'', h1, e2⟩

theorem tail_same {X : Forest} {q : Nat} {vq : Value} {L1 : List HTree} {t : HTree} {L2 A : List HTree}
    {w : HTree} {B : List HTree}
    (sX : SiteAt X q vq (L1 ++ t :: L2)) (hsplit : L1 ++ L2 = A ++ w :: B)
    (hwn : w.value.isNormal = true) (hleaf : t.value.isText = true → t.kids = [])
    (hadj : ∀ A', L1 = A' ++ [w] → w.value.isText = true) :
    (insertAfterTail X w.handle t.handle).1 =
      ((X.editAt (some q) (dropTop t.handle)).editAt (some q) (insertAfterTop w.handle t)).mergeNewAt q
        t.handle := by
  have nd := sX.nd
  obtain ⟨ndL, hqL⟩ := sX.nodupKids
  obtain ⟨tl, tr⟩ := tops_ne_of_nodup ndL
  have hgc : X.get? t.handle = some t := sX.getKid
  have hpar : X.parent? t.handle = some q := Forest.parent?_of_ctx sX.ctx
  have hqt : q ∉ handles t := by
    intro hin
    apply hqL
    rw [fs_handlesList_append, handlesList_cons]
    exact List.mem_append_right _ (List.mem_append_left _ hin)
  have hdrop : dropTop t.handle (L1 ++ t :: L2) = L1 ++ L2 := dropTop_mid rfl tl tr
  have hin : ∀ k ∈ A ++ w :: B, k ∈ L1 ++ t :: L2 := by
    intro k hk
    rw [← hsplit] at hk
    cases List.mem_append.1 hk with
    | inl h => exact List.mem_append_left _ h
    | inr h => exact List.mem_append_right _ (List.mem_cons_of_mem _ h)
  have hctop : ∀ k ∈ A ++ w :: B, k.handle ≠ t.handle := by
    intro k hk
    rw [← hsplit] at hk
    cases List.mem_append.1 hk with
    | inl h => exact tl k h
    | inr h => exact tr k h
  have sY : SiteAt (X.editAt (some q) (dropTop t.handle)) q vq (A ++ w :: B) := by
    have := sX.edit (dropTop t.handle) (handlesList_dropTop_sublist _ _)
    rwa [hdrop, hsplit] at this
  obtain ⟨Pw, Qw, _, sw⟩ := site_split sX (hin w (by simp))
  refine tail_core sY rfl (Forest.textOf_of_get hgc) (Forest.textOf_of_get sw.getKid) ?_ ?_ hwn hctop ?_ ?_
  · intro kb B2 e
    exact Forest.textOf_of_get (site_getKid sX (hin kb (by rw [e]; simp)))
  · intro hta
    rcases split_around hsplit with ⟨m, e1, e2⟩ | ⟨m, e1, e2⟩
    · have s1 : SiteAt X q vq (A ++ w :: (m ++ t :: L2)) := by
        have : A ++ w :: (m ++ t :: L2) = L1 ++ t :: L2 := by rw [e1]; simp
        rw [this]; exact sX
      rw [Forest.nextSibling_of_ctx s1.ctx, e2]
      simp only
      cases m with
      | nil =>
        exact absurd (hadj A (by rw [e1])) (not_text_of_none hta)
      | cons x m' => simp [nextOf]
    · have s1 : SiteAt X q vq ((L1 ++ t :: m) ++ w :: B) := by
        have : (L1 ++ t :: m) ++ w :: B = L1 ++ t :: L2 := by rw [e2]; simp
        rw [this]; exact sX
      rw [Forest.nextSibling_of_ctx s1.ctx]
  · rw [Forest.checkedInsertAfter_ok hgc sw hqt (hctop w (by simp)), hpar,
      Forest.placeAfter_of_ctx t sY.nd sY.ctx]
  · intro htt k hk _ v
    obtain ⟨P, Q, _, sk⟩ := site_split sX (hin k hk)
    have hkt : t.handle ≠ k.handle := fun e => hctop k hk e.symm
    rw [Forest.setValue_of_ctx v nd sk.ctx]
    have sZ := sX.edit (replaceTop k.handle (fun k => [k.setValue v]))
      (by rw [handlesList_setValTop]; exact List.Sublist.refl _)
    obtain ⟨L1', L2', e⟩ := setValTop_keeps v hkt L2 L1
    rw [e] at sZ
    rw [Forest.spliceOut_leaf sZ.nd sZ.getKid (hleaf htt), Forest.parent?_of_ctx sZ.ctx,
      Forest.editAt_editAt, Forest.editAt_editAt]
    apply sX.congr
    simp only [Function.comp]
    exact dropTop_setValTop_comm v (fun e => hkt e.symm) _

end PairAfter
end XotModel
