/-
  Reach, part 1: the BRIDGE from the forest invariant to the structural hypotheses of the tree-level
  theorems, node by node.

  `validTree strict r` (Model/ForestInv.lean, the tree clause of `Forest.Inv`) is a conjunction of
  LOCAL conditions (`Reach.NodeValid`: what may sit under a value, ordering, unique keys, no adjacent
  text) at every node of the handle tree `r`.  `Reach.forall_erase` turns every consequence `P` of the
  local conditions into `(erase r).Forall P` (Model/Valid.lean), by the mutual structural induction
  over `HTree` / `List HTree`; the four instances here are the clauses of `StructValid` and of the
  structural part of `Representable`:

    `orderedKids_erase`   `OrderedKids`  namespace nodes, then attribute nodes, then normal nodes
    `kindsOk_erase`       `KindsOk`      leaves are leaves, attribute / namespace nodes only under
                                         elements, a document node is never a child
    `uniqueKids_erase`    `UniqueKids`   attribute names and declared prefixes unique per node
    `noAdjacentText_erase` `NoAdjacentText`  (strict trees only: consolidation never switched off)

  `structValid_erase`: a valid handle tree whose root is a document erases to a `StructValid` tree.
  `validTree_root` / `validTree_at`: every root of a forest with the invariant, and every subtree of
  it, is valid.  The other Reach files derive the predicates of the single properties (`Axes.wf`,
  `Axes.kidsSorted`, `Tree.valid`, `UniqueDeclsBelow`, …) from these four at the TREE level.
-/
import XotModel.Lemmas.ForestBasic
import XotModel.Model.Valid
import XotModel.Model.FtravSpec

namespace XotModel.Reach
open XotModel HTree

/-! ### The local clauses of `validTree` -/

/-- What `validTree strict` says at one node (value `v`, children `ks`). -/
structure NodeValid (strict : Bool) (v : Value) (ks : List HTree) : Prop where
  allowed : ∀ k ∈ ks, kidAllowed v k.value = true
  ordered : kidsOrdered ks = true
  attrsUnique : keysUnique .attribute ks = true
  nsUnique : keysUnique .namespace ks = true
  noAdj : strict = true → noAdjacentText ks = true

theorem validTree_node {b : Bool} {h : Nat} {v : Value} {ks : List HTree}
    (hv : validTree b (.node h v ks) = true) : NodeValid b v ks ∧ validList b ks = true := by
  simp only [validTree, Bool.and_eq_true, List.all_eq_true, Bool.or_eq_true, Bool.not_eq_true'] at hv
  obtain ⟨⟨⟨⟨⟨h1, h2⟩, h3⟩, h4⟩, h5⟩, h6⟩ := hv
  refine ⟨⟨h1, h2, h3, h4, fun hb => ?_⟩, h6⟩
  rcases h5 with h5 | h5
  · rw [hb] at h5; cases h5
  · exact h5

theorem validList_mem (b : Bool) : ∀ (L : List HTree) (t : HTree), validList b L = true → t ∈ L →
    validTree b t = true
  | [], _, _, ht => by cases ht
  | k :: L, t, hv, ht => by
    simp only [validList, Bool.and_eq_true] at hv
    rcases List.mem_cons.mp ht with rfl | ht'
    · exact hv.1
    · exact validList_mem b L t hv.2 ht'

/-- Every parentless tree of a forest with the invariant is structurally valid — strictly (no
    adjacent text) as long as consolidation was never switched off. -/
theorem validTree_root {f : Forest} (hi : f.Inv) {r : HTree} (hr : r ∈ f.roots) :
    validTree (!f.everOff) r = true := validList_mem _ _ r hi.valid hr

/-- … and so is every subtree of it. -/
theorem validTree_at (b : Bool) : ∀ (p : Path) (r s : HTree), validTree b r = true → r.at? p = some s →
    validTree b s = true
  | [], r, s, hv, hs => by
    simp only [HTree.at?, Option.some.injEq] at hs
    subst hs; exact hv
  | i :: p, .node h v ks, s, hv, hs => by
    simp only [HTree.at?] at hs
    cases hk : ks[i]? with
    | none => rw [hk] at hs; cases hs
    | some k =>
      rw [hk] at hs
      exact validTree_at b p k s (validList_mem b ks k (validTree_node hv).2 (List.mem_of_getElem? hk)) hs

/-! ### The generic induction -/

mutual
  /-- Whatever follows from the local clauses at a node holds at every node of the erased tree. -/
  theorem forall_erase {P : Value → List Tree → Prop} (b : Bool)
      (hP : ∀ v ks, NodeValid b v ks → P v (eraseList ks)) :
      ∀ r : HTree, validTree b r = true → (erase r).Forall P
    | .node h v ks => by
      intro hv
      obtain ⟨hn, hl⟩ := validTree_node hv
      simp only [erase]
      rw [Tree.Forall]
      exact ⟨hP v ks hn, forallList_erase b hP ks hl⟩
  theorem forallList_erase {P : Value → List Tree → Prop} (b : Bool)
      (hP : ∀ v ks, NodeValid b v ks → P v (eraseList ks)) :
      ∀ ks : List HTree, validList b ks = true → Tree.Forall.forallList P (eraseList ks)
    | [] => by intro _; simp [eraseList, Tree.Forall.forallList]
    | k :: ks => by
      intro hv
      simp only [validList, Bool.and_eq_true] at hv
      simp only [eraseList, Tree.Forall.forallList]
      exact ⟨forall_erase b hP k hv.1, forallList_erase b hP ks hv.2⟩
end

/-! ### `Tree.Forall`: monotone, conjunction, subtrees -/

mutual
  theorem forall_mono {p q : Value → List Tree → Prop} (h : ∀ v ks, p v ks → q v ks) :
      ∀ t : Tree, t.Forall p → t.Forall q
    | .node v ks, ht => by
      rw [Tree.Forall] at ht ⊢
      exact ⟨h v ks ht.1, forallList_mono h ks ht.2⟩
  theorem forallList_mono {p q : Value → List Tree → Prop} (h : ∀ v ks, p v ks → q v ks) :
      ∀ ks : List Tree, Tree.Forall.forallList p ks → Tree.Forall.forallList q ks
    | [], _ => trivial
    | k :: ks, hk => ⟨forall_mono h k hk.1, forallList_mono h ks hk.2⟩
end

mutual
  theorem forall_and {p q : Value → List Tree → Prop} :
      ∀ t : Tree, t.Forall p → t.Forall q → t.Forall (fun v ks => p v ks ∧ q v ks)
    | .node v ks, hp, hq => by
      rw [Tree.Forall] at hp hq ⊢
      exact ⟨⟨hp.1, hq.1⟩, forallList_and ks hp.2 hq.2⟩
  theorem forallList_and {p q : Value → List Tree → Prop} :
      ∀ ks : List Tree, Tree.Forall.forallList p ks → Tree.Forall.forallList q ks →
        Tree.Forall.forallList (fun v ks => p v ks ∧ q v ks) ks
    | [], _, _ => trivial
    | k :: ks, hp, hq => ⟨forall_and k hp.1 hq.1, forallList_and ks hp.2 hq.2⟩
end

/-- The subtree at a path inherits `Forall`. -/
theorem forall_sub (p : Value → List Tree → Prop) : ∀ (rel : Path) (t s : Tree), t.Forall p →
    t.at? rel = some s → s.Forall p
  | [], t, s, h, hat => by
    simp only [Tree.at?, Option.some.injEq] at hat
    subst hat; exact h
  | i :: rel, .node v ks, s, h, hat => by
    simp only [Tree.at?] at hat
    cases hk : ks[i]? with
    | none => rw [hk] at hat; cases hat
    | some k =>
      rw [hk] at hat
      exact forall_sub p rel k s (((Tree.forall_node p v ks).mp h).2 k (List.mem_of_getElem? hk)) hat

/-- `Forall p` says `p` at every path. -/
theorem forall_at (p : Value → List Tree → Prop) (rel : Path) (t : Tree) (h : t.Forall p)
    (v : Value) (ks : List Tree) (hat : t.at? rel = some (.node v ks)) : p v ks :=
  ((Tree.forall_node p v ks).mp (forall_sub p rel t _ h hat)).1

/-! ### Erasure, one node -/

theorem erase_value (t : HTree) : (erase t).value = t.value := by cases t; rfl

theorem eraseList_eq_map (ks : List HTree) : eraseList ks = ks.map erase := by
  induction ks with
  | nil => rfl
  | cons k ks ih => simp [eraseList, ih]

theorem mem_eraseList {ks : List HTree} {k : Tree} (h : k ∈ eraseList ks) :
    ∃ k' ∈ ks, erase k' = k := by
  rw [eraseList_eq_map] at h
  exact List.mem_map.mp h

theorem eraseList_getElem? (ks : List HTree) (i : Nat) : (eraseList ks)[i]? = ks[i]?.map erase := by
  rw [eraseList_eq_map, List.getElem?_map]

/-- `at?` commutes with forgetting the handles. -/
theorem at?_erase : ∀ (p : Path) (r : HTree), r.erase.at? p = (r.at? p).map erase
  | [], r => by simp [Tree.at?, HTree.at?]
  | i :: p, .node h v ks => by
    simp only [erase, Tree.at?, HTree.at?, eraseList_getElem?]
    cases hk : ks[i]? with
    | none => rfl
    | some k => simpa using at?_erase p k

theorem phase_eq_rank (v : Value) : v.phase = v.category.rank := by
  cases v <;> rfl

/-- `kidsOrdered` compares neighbours; ranks are ordered, so the first child is below all others. -/
theorem kidsOrdered_cons : ∀ (ks : List HTree) (a : HTree), kidsOrdered (a :: ks) = true →
    (∀ k ∈ ks, a.value.category.rank ≤ k.value.category.rank) ∧ kidsOrdered ks = true
  | [], _, _ => ⟨fun _ h => (by cases h), rfl⟩
  | b :: ks, a, h => by
    simp only [kidsOrdered, Bool.and_eq_true, decide_eq_true_eq] at h
    obtain ⟨hab, hb⟩ := h
    obtain ⟨ih, _⟩ := kidsOrdered_cons ks b hb
    refine ⟨fun k hk => ?_, hb⟩
    rcases List.mem_cons.mp hk with rfl | hk
    · exact hab
    · exact Nat.le_trans hab (ih k hk)

/-- Ordering: namespaces, attributes, normal nodes. -/
theorem orderedKids_eraseList : ∀ ks : List HTree, kidsOrdered ks = true → OrderedKids (eraseList ks)
  | [], _ => by simp [OrderedKids, eraseList]
  | a :: ks, h => by
    obtain ⟨h1, h2⟩ := kidsOrdered_cons ks a h
    unfold OrderedKids
    simp only [eraseList, List.pairwise_cons]
    refine ⟨fun k hk => ?_, orderedKids_eraseList ks h2⟩
    obtain ⟨k', hk', rfl⟩ := mem_eraseList hk
    rw [erase_value, erase_value, phase_eq_rank, phase_eq_rank]
    exact h1 k' hk'

/-- What may sit under what. -/
theorem kindsOk_eraseList {v : Value} {ks : List HTree} (h : ∀ k ∈ ks, kidAllowed v k.value = true) :
    KindsOk v (eraseList ks) := by
  refine ⟨fun hl => ?_, fun he k hk => ?_, fun k hk => ?_⟩
  · cases ks with
    | nil => rfl
    | cons k ks =>
      have := h k (List.mem_cons_self ..)
      cases v <;> simp_all [kidAllowed, Value.isLeafKind]
  · obtain ⟨k', hk', rfl⟩ := mem_eraseList hk
    have := h k' hk'
    rw [erase_value]
    cases v <;> simp_all [kidAllowed, Value.isElement]
  · obtain ⟨k', hk', rfl⟩ := mem_eraseList hk
    have := h k' hk'
    rw [erase_value]
    cases v <;> simp_all [kidAllowed]

theorem attrNames_eraseList : ∀ ks : List HTree,
    attrNames (eraseList ks) =
      (ks.filter (fun k => k.value.category == .attribute)).map (fun k => Forest.entryKey k.value)
  | [] => rfl
  | k :: ks => by
    have ih := attrNames_eraseList ks
    cases k with
    | node h v kk =>
      cases v <;> simp_all [attrNames, eraseList, erase, Tree.value, HTree.value, Value.category,
        Forest.entryKey]

theorem nsPrefixes_eraseList : ∀ ks : List HTree,
    nsPrefixes (eraseList ks) =
      (ks.filter (fun k => k.value.category == .namespace)).map (fun k => Forest.entryKey k.value)
  | [] => rfl
  | k :: ks => by
    have ih := nsPrefixes_eraseList ks
    cases k with
    | node h v kk =>
      cases v <;> simp_all [nsPrefixes, eraseList, erase, Tree.value, HTree.value, Value.category,
        Forest.entryKey]

/-- Unique attribute names and prefixes. -/
theorem uniqueKids_eraseList {ks : List HTree} (ha : keysUnique .attribute ks = true)
    (hn : keysUnique .namespace ks = true) : UniqueKids (eraseList ks) := by
  refine ⟨?_, ?_⟩
  · rw [attrNames_eraseList]; simpa [keysUnique] using ha
  · rw [nsPrefixes_eraseList]; simpa [keysUnique] using hn

/-- No two adjacent text nodes. -/
theorem noAdjText_eraseList : ∀ ks : List HTree, noAdjText (eraseList ks) = noAdjacentText ks
  | [] => rfl
  | [a] => rfl
  | a :: b :: ks => by
    have ih := noAdjText_eraseList (b :: ks)
    simp only [eraseList] at ih ⊢
    simp only [noAdjText, noAdjacentText, erase_value, ih]

/-! ### The four clauses, at every node of the erased tree -/

theorem orderedKids_erase (b : Bool) (r : HTree) (hv : validTree b r = true) :
    (erase r).Forall (fun _ ks => OrderedKids ks) :=
  forall_erase b (fun _ ks hn => orderedKids_eraseList ks hn.ordered) r hv

theorem kindsOk_erase (b : Bool) (r : HTree) (hv : validTree b r = true) : (erase r).Forall KindsOk :=
  forall_erase b (fun _ _ hn => kindsOk_eraseList hn.allowed) r hv

theorem uniqueKids_erase (b : Bool) (r : HTree) (hv : validTree b r = true) :
    (erase r).Forall (fun _ ks => UniqueKids ks) :=
  forall_erase b (fun _ _ hn => uniqueKids_eraseList hn.attrsUnique hn.nsUnique) r hv

/-- Strict trees (consolidation never off) have no adjacent text nodes anywhere. -/
theorem noAdjacentText_erase (r : HTree) (hv : validTree true r = true) : NoAdjacentText (erase r) :=
  forall_erase true (fun _ ks hn => by rw [noAdjText_eraseList]; exact hn.noAdj rfl) r hv

/-- A valid handle tree whose root is a document node erases to a `StructValid` tree. -/
theorem structValid_erase (b : Bool) (r : HTree) (hv : validTree b r = true)
    (hd : r.value.isDocument = true) : StructValid (erase r) :=
  ⟨by rw [erase_value]; exact hd, orderedKids_erase b r hv, kindsOk_erase b r hv, uniqueKids_erase b r hv⟩

/-- The structural part of `StructValid` (everything but "the root is a document"), as one
    predicate on trees: it holds of the erasure of EVERY valid handle tree, fragments (element,
    text, … roots) included, and of every subtree of such a tree. -/
structure Structural (t : Tree) : Prop where
  ordered : t.Forall (fun _ ks => OrderedKids ks)
  kinds : t.Forall KindsOk
  unique : t.Forall (fun _ ks => UniqueKids ks)

theorem structural_erase (b : Bool) (r : HTree) (hv : validTree b r = true) : Structural (erase r) :=
  ⟨orderedKids_erase b r hv, kindsOk_erase b r hv, uniqueKids_erase b r hv⟩

theorem Structural.sub {t s : Tree} (h : Structural t) {p : Path} (hs : t.at? p = some s) : Structural s :=
  ⟨forall_sub _ p t s h.ordered hs, forall_sub _ p t s h.kinds hs, forall_sub _ p t s h.unique hs⟩

theorem Structural.of_structValid {t : Tree} (h : StructValid t) : Structural t := ⟨h.2.1, h.2.2.1, h.2.2.2⟩

theorem Structural.node {v : Value} {ks : List Tree} (h : Structural (.node v ks)) :
    OrderedKids ks ∧ KindsOk v ks ∧ UniqueKids ks ∧ ∀ k ∈ ks, Structural k := by
  obtain ⟨h1, h2, h3⟩ := h
  rw [Tree.forall_node] at h1 h2 h3
  exact ⟨h1.1, h2.1, h3.1, fun k hk => ⟨h1.2 k hk, h2.2 k hk, h3.2 k hk⟩⟩

/-! ### From the forest invariant -/

/-- **Every root of a forest with the invariant erases to a structurally valid tree.** -/
theorem structural_root {f : Forest} (hi : f.Inv) {r : HTree} (hr : r ∈ f.roots) : Structural r.erase :=
  structural_erase _ r (validTree_root hi hr)

/-- … `StructValid` when the root is a document node. -/
theorem structValid_root {f : Forest} (hi : f.Inv) {r : HTree} (hr : r ∈ f.roots)
    (hd : r.value.isDocument = true) : StructValid r.erase :=
  structValid_erase _ r (validTree_root hi hr) hd

/-- … and has no adjacent text nodes while consolidation has never been switched off. -/
theorem noAdjacentText_root {f : Forest} (hi : f.Inv) (hoff : f.everOff = false) {r : HTree}
    (hr : r ∈ f.roots) : NoAdjacentText r.erase := by
  have := validTree_root hi hr
  rw [hoff] at this
  exact noAdjacentText_erase r this

end XotModel.Reach
