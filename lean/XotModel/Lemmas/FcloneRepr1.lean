/-
  Lemmas for C12, part 29 (the clone lies in the round-trip domain when the source's tree does),
  tree level: a tree without adjacent text nodes is a fixed point of `mergeAdjacentText`; inserting
  `valueOK` declaration leaves with new prefixes after the namespace nodes of a `nodeOK` element keeps
  it `nodeOK` and keeps its `xml:id` values; the subtrees on `HTree.pathTo` inherit every per-node
  condition.
-/
import XotModel.Lemmas.FcloneRoundTrip

namespace XotModel
open HTree

variable {env : Env}

/-! ### `mergeAdjacentText` on a tree without adjacent text nodes -/

def noAdjNode (_ : Value) (ks : List Tree) : Bool := noAdjText ks

mutual
  theorem mergeAdjacentText_fix : ∀ t : Tree, t.allNodes noAdjNode = true → mergeAdjacentText t = t
    | .node v ks => by
      intro hv
      rw [allNodes_node, Bool.and_eq_true, List.all_eq_true] at hv
      simp only [mergeAdjacentText]
      rw [mergeInto_fix ks [] hv.2 hv.1 (by intro A' x k ks' h; simp at h)]
      rfl
  theorem mergeInto_fix : ∀ (ks : List Tree) (A : List Tree), (∀ k ∈ ks, k.allNodes noAdjNode = true) →
      noAdjText ks = true →
      (∀ A' x k ks', A = A' ++ [x] → ks = k :: ks' → (x.value.isText && k.value.isText) = false) →
      mergeInto A ks = A ++ ks
    | [], A, _, _, _ => by simp [mergeInto]
    | k :: ks, A, hv, hna, hj => by
      simp only [mergeInto]
      rw [mergeAdjacentText_fix k (hv k (by simp))]
      rw [snocMerge_plain A k (by
        intro A' x hA
        exact hj A' x k ks hA rfl)]
      have hna' : noAdjText ks = true := by
        cases ks with
        | nil => rfl
        | cons b rest =>
          simp only [noAdjText, Bool.and_eq_true] at hna
          exact hna.2
      rw [mergeInto_fix ks (A ++ [k]) (fun k' hk' => hv k' (by simp [hk'])) hna' (by
        intro A' x k' ks' hA hks
        have hx : x = k := by
          have := List.append_inj_right' hA rfl
          simpa using this.symm
        subst hx
        subst hks
        simp only [noAdjText, Bool.and_eq_true, Bool.not_eq_true'] at hna
        exact hna.1)]
      simp
end

theorem nodeOK_noAdjNode (t : Tree) (h : t.allNodes (nodeOK env) = true) : t.allNodes noAdjNode = true := by
  refine allNodes_mono ?_ t h
  intro v ks hv
  exact ((nodeOK_iff env v ks).mp hv).2.2.2.1

theorem expectedClone_of_nodeOK (cons : Bool) (t : Tree) (h : t.allNodes (nodeOK env) = true) :
    expectedClone cons t = t := by
  unfold expectedClone
  cases cons
  · rfl
  · simp [mergeAdjacentText_fix t (nodeOK_noAdjNode t h)]

/-! ### Inserting declaration leaves -/

/-- A leaf carrying a declaration. -/
def IsNsLeafT (x : Tree) : Prop := ∃ p ns, x = .node (.namespace p ns) []

theorem IsNsLeafT.cat {x : Tree} (hx : IsNsLeafT x) : (x.value.category == Category.namespace) = true := by
  obtain ⟨p, ns, rfl⟩ := hx; rfl

theorem fcr_phase0 {x : Tree} (h : (x.value.category == Category.namespace) = true) : x.value.phase = 0 :=
  (category_namespace_iff x.value).mp h

theorem fcr_noAdjText_skip (l b : List Tree) (hl : ∀ x ∈ l, x.value.isText = false) :
    noAdjText (l ++ b) = noAdjText b := by
  induction l with
  | nil => rfl
  | cons x l ih =>
    have ih' := ih (fun y hy => hl y (by simp [hy]))
    have hx := hl x (by simp)
    cases hlb : l ++ b with
    | nil =>
      have hb : b = [] := (List.append_eq_nil_iff.mp hlb).2
      simp [hb, noAdjText] at ih' ⊢
      rw [(List.append_eq_nil_iff.mp hlb).1]
      rfl
    | cons y rest =>
      rw [List.cons_append, hlb, noAdjText, hx, ← hlb, ih']
      simp

theorem fcr_not_text {x : Tree} (h : (x.value.category == Category.namespace) = true) :
    x.value.isText = false := by
  cases hv : x.value <;> simp [hv, Value.category, Value.isText] at h ⊢

theorem fcr_not_doc {x : Tree} (h : (x.value.category == Category.namespace) = true) :
    x.value.isDocument = false := by
  cases hv : x.value <;> simp [hv, Value.category, Value.isDocument] at h ⊢

theorem fcr_attrNames_ns (n : List Tree) (hn : ∀ x ∈ n, (x.value.category == Category.namespace) = true) :
    attrNames n = [] := by
  simp only [attrNames, List.filterMap_eq_nil_iff]
  intro x hx
  have := hn x hx
  cases hv : x.value <;> simp [hv, Value.category] at this ⊢

theorem fcr_attrNames_append (a b : List Tree) : attrNames (a ++ b) = attrNames a ++ attrNames b := by
  simp [attrNames, List.filterMap_append]

theorem fcr_nsPrefixes_append (a b : List Tree) : nsPrefixes (a ++ b) = nsPrefixes a ++ nsPrefixes b := by
  simp [nsPrefixes, List.filterMap_append]

/-- After the first non-namespace child of an ordered list there is no namespace node. -/
theorem fcr_nsPrefixes_tail (a b : List Tree) (hord : OrderedKids (a ++ b))
    (hb : ∀ y, b.head? = some y → (y.value.category == Category.namespace) = false) : nsPrefixes b = [] := by
  cases b with
  | nil => rfl
  | cons y rest =>
    have hy := hb y rfl
    have hy' : y.value.phase ≠ 0 := by
      intro h0
      rw [(category_namespace_iff y.value).mpr h0] at hy
      cases hy
    have hpb : OrderedKids (y :: rest) := (List.pairwise_append.mp hord).2.1
    simp only [nsPrefixes, List.filterMap_eq_nil_iff]
    intro x hx
    have hxp : y.value.phase ≤ x.value.phase := by
      rcases List.mem_cons.mp hx with rfl | hx'
      · exact Nat.le_refl _
      · exact List.rel_of_pairwise_cons hpb hx'
    cases hv : x.value <;> simp only []
    simp [hv, Value.phase] at hxp
    exact absurd hxp hy'

theorem nodeOK_nsLeaf {p ns : Nat} (h : valueOK env (.namespace p ns) = true) :
    (Tree.node (.namespace p ns) []).allNodes (nodeOK env) = true := by
  rw [allNodes_node]
  simp only [List.all_nil, Bool.and_true]
  rw [nodeOK_iff]
  refine ⟨List.Pairwise.nil, ⟨fun _ => rfl, fun _ _ hk => (by cases hk), fun _ hk => (by cases hk)⟩,
    ⟨List.nodup_nil, List.nodup_nil⟩, rfl, h⟩

/-- Inserting `valueOK` declaration leaves with new, pairwise distinct prefixes right after the
    namespace nodes of a `nodeOK` element gives a `nodeOK` element. -/
theorem nodeOK_insert_ns (name : Nat) (a n b : List Tree)
    (hS : (Tree.node (.element name) (a ++ b)).allNodes (nodeOK env) = true)
    (ha : ∀ x ∈ a, (x.value.category == Category.namespace) = true)
    (hb : ∀ y, b.head? = some y → (y.value.category == Category.namespace) = false)
    (hn : ∀ x ∈ n, ∃ p ns, x = .node (.namespace p ns) [] ∧ valueOK env (.namespace p ns) = true)
    (hnd : (nsPrefixes (a ++ n)).Nodup) :
    (Tree.node (.element name) (a ++ n ++ b)).allNodes (nodeOK env) = true := by
  have hnode : nodeOK env (.element name) (a ++ b) = true := by
    rw [allNodes_node, Bool.and_eq_true] at hS; exact hS.1
  obtain ⟨hord, hkinds, huniq, hnoadj, hval⟩ := (nodeOK_iff env _ _).mp hnode
  have hncat : ∀ x ∈ n, (x.value.category == Category.namespace) = true := by
    intro x hx
    obtain ⟨p, ns, rfl, -⟩ := hn x hx
    rfl
  have hancat : ∀ x ∈ a ++ n, (x.value.category == Category.namespace) = true := by
    intro x hx
    rcases List.mem_append.mp hx with h | h
    · exact ha x h
    · exact hncat x h
  rw [allNodes_node, Bool.and_eq_true, List.all_eq_true]
  refine ⟨(nodeOK_iff env _ _).mpr ⟨?_, ?_, ?_, ?_, hval⟩, ?_⟩
  · -- ordered
    unfold OrderedKids
    rw [List.pairwise_append]
    refine ⟨?_, (List.pairwise_append.mp hord).2.1, ?_⟩
    · have : ∀ x ∈ a ++ n, x.value.phase = 0 := fun x hx => fcr_phase0 (hancat x hx)
      exact List.pairwise_of_forall_mem_list (fun x hx y hy => by rw [this x hx, this y hy]; exact Nat.le_refl _)
    · intro x hx y _
      rw [fcr_phase0 (hancat x hx)]
      exact Nat.zero_le _
  · refine ⟨fun h => (by cases h), fun h => (by cases h), ?_⟩
    intro k hk
    rcases List.mem_append.mp hk with h | h
    · rcases List.mem_append.mp h with h | h
      · exact hkinds.2.2 k (by simp [h])
      · exact fcr_not_doc (hncat k h)
    · exact hkinds.2.2 k (by simp [h])
  · constructor
    · rw [fcr_attrNames_append, fcr_attrNames_append, fcr_attrNames_ns n hncat, List.append_nil,
        ← fcr_attrNames_append]
      exact huniq.1
    · rw [fcr_nsPrefixes_append, fcr_nsPrefixes_tail a b hord hb, List.append_nil]
      exact hnd
  · rw [fcr_noAdjText_skip (a ++ n) b (fun x hx => fcr_not_text (hancat x hx))]
    rw [fcr_noAdjText_skip a b (fun x hx => fcr_not_text (ha x hx))] at hnoadj
    exact hnoadj
  · intro k hk
    rcases List.mem_append.mp hk with h | h
    · rcases List.mem_append.mp h with h | h
      · exact allNodes_kid hS (by simp [h])
      · obtain ⟨p, ns, rfl, hv⟩ := hn k h
        exact nodeOK_nsLeaf hv
    · exact allNodes_kid hS (by simp [h])

theorem fcr_idsList_append (a b : List Tree) :
    xmlIdValues.idsList env (a ++ b) = xmlIdValues.idsList env a ++ xmlIdValues.idsList env b := by
  induction a with
  | nil => rfl
  | cons k ks ih => simp [xmlIdValues.idsList, ih]

theorem fcr_idsList_nsLeaves (n : List Tree) (hn : ∀ x ∈ n, IsNsLeafT x) : xmlIdValues.idsList env n = [] := by
  induction n with
  | nil => rfl
  | cons k ks ih =>
    obtain ⟨p, ns, rfl⟩ := hn k (by simp)
    simp [xmlIdValues.idsList, xmlIdValues, ih (fun x hx => hn x (by simp [hx]))]

theorem xmlIdValues_insert_ns (v : Value) (a n b : List Tree) (hn : ∀ x ∈ n, IsNsLeafT x) :
    xmlIdValues env (.node v (a ++ n ++ b)) = xmlIdValues env (.node v (a ++ b)) := by
  simp only [xmlIdValues, fcr_idsList_append, fcr_idsList_nsLeaves n hn, List.append_nil]

/-- The document holding just a `nodeOK` element without repeated `xml:id` values is `Representable`. -/
theorem representable_doc_single (henv : envOK env = true) (name : Nat) (ks : List Tree)
    (hn : (Tree.node (.element name) ks).allNodes (nodeOK env) = true)
    (hids : (xmlIdValues env (.node (.element name) ks)).Nodup) :
    Representable env (.node .document [.node (.element name) ks]) = true := by
  simp only [Representable, Bool.and_eq_true]
  refine ⟨(representableFragment_iff env _).mpr ⟨henv, rfl, ?_, ?_⟩, ?_⟩
  · rw [allNodes_node, Bool.and_eq_true, List.all_eq_true]
    refine ⟨(nodeOK_iff env _ _).mpr ⟨?_, ⟨fun h => (by cases h), ?_, ?_⟩, ⟨?_, ?_⟩, rfl, rfl⟩, ?_⟩
    · exact List.pairwise_singleton _ _
    · intro _ k hk
      simp only [List.mem_singleton] at hk; subst hk; rfl
    · intro k hk
      simp only [List.mem_singleton] at hk; subst hk; rfl
    · simp [attrNames, Tree.value]
    · simp [nsPrefixes, Tree.value]
    · intro k hk
      simp only [List.mem_singleton] at hk; subst hk; exact hn
  · have : xmlIdValues env (.node .document [.node (.element name) ks]) =
        xmlIdValues env (.node (.element name) ks) := by
      simp [xmlIdValues, xmlIdValues.idsList]
    rw [this]; exact hids
  · simp [singleRoot, Tree.kids, Tree.value, Value.isElement, Value.isText]

/-! ### The subtrees on the path to a node -/

mutual
  theorem pathTo_allNodes (p : Value → List Tree → Bool) (h : Nat) : ∀ (t : HTree) (l : List HTree),
      (erase t).allNodes p = true → HTree.pathTo h t = some l → ∀ x ∈ l, (erase x).allNodes p = true
    | .node h' v ks, l => by
      intro hv hl
      unfold HTree.pathTo at hl
      by_cases e : h' = h
      · rw [if_pos e] at hl
        cases hl
        intro x hx
        simp only [List.mem_singleton] at hx
        subst hx
        exact hv
      · rw [if_neg e] at hl
        cases hp : HTree.pathToList h ks with
        | none => rw [hp] at hl; cases hl
        | some l' =>
          rw [hp] at hl
          cases hl
          have hk : ∀ k ∈ ks, (erase k).allNodes p = true := by
            intro k hk
            simp only [erase] at hv
            exact allNodes_kid hv (by rw [eraseList_map]; exact List.mem_map_of_mem hk)
          have ih := pathToList_allNodes p h ks l' hk hp
          intro x hx
          rcases List.mem_append.mp hx with h1 | h1
          · exact ih x h1
          · simp only [List.mem_singleton] at h1; subst h1; exact hv
  theorem pathToList_allNodes (p : Value → List Tree → Bool) (h : Nat) : ∀ (ks : List HTree) (l : List HTree),
      (∀ k ∈ ks, (erase k).allNodes p = true) → HTree.pathToList h ks = some l →
      ∀ x ∈ l, (erase x).allNodes p = true
    | [], l => by intro _ hl; simp [HTree.pathToList] at hl
    | k :: ks, l => by
      intro hv hl
      unfold HTree.pathToList at hl
      cases hp : HTree.pathTo h k with
      | some l' =>
        rw [hp] at hl
        cases hl
        exact pathTo_allNodes p h k _ (hv k (by simp)) hp
      | none =>
        rw [hp] at hl
        exact pathToList_allNodes p h ks l (fun k' hk' => hv k' (by simp [hk'])) hl
end

end XotModel
