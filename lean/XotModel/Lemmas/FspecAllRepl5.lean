/-
  FspecAllRepl5 — C05 for `replace`, pair reading, part 5: the last step.  On the forest
  `(replMid …).mergeNewAt q new` (child list `mergeNew new (lX ++ t :: rX)` at the parent, `PutSite`):

  * xot's last consolidation `remove_consolidate(previous_sibling(next), next)` (609b613) completes
    `mergeNew` to `mergeNew3` in every geometry (`prevStep_noop`, `prevStep_merge` here; `final_next`,
    `final_last` in `FspecAllRepl6.lean`): the model is `specReplaceP`;
  * the pair merge of the two FORMER neighbours of the replaced node,
    `remove_consolidate(previous, next_sibling(previous))` (`final_after`, `final_first`; what xot did
    before 609b613), after `mergeNew` is `mergeNew3` too unless the left neighbour has been merged
    away and the replacing text node now stands between two text nodes (`mergeK_eq_mergeP`) — used
    for the forests without adjacent text nodes (`FspecRepl4.lean`), where the lemmas are stated in
    that form.
-/
import XotModel.Lemmas.FspecAllRepl4
import XotModel.Lemmas.FspecAllUnwrap

namespace XotModel
open HTree Spec

namespace PairAll

/-! ### List facts -/

theorem handlesList_mergeNewHead_sublist (t : HTree) : ∀ (B : List HTree),
    (handlesList (mergeNewHead t B)).Sublist (handlesList (t :: B))
  | [] => List.Sublist.refl _
  | z :: rest => by
    by_cases hb : t.value.isText = true ∧ z.value.isText = true
    · obtain ⟨u, hu⟩ := text_of_isText hb.1
      obtain ⟨w, hw⟩ := text_of_isText hb.2
      rw [mergeNewHead_text hu hw, handlesList_cons, handlesList_cons, handlesList_cons, setValue_handles]
      exact List.sublist_append_right _ _
    · rw [mergeNewHead_other hb]; exact List.Sublist.refl _

theorem handlesList_mergeNew_sublist (n : Nat) : ∀ (L : List HTree),
    (handlesList (mergeNew n L)).Sublist (handlesList L)
  | [] => by rw [mergeNew_nil]; exact List.Sublist.refl _
  | [x] => by rw [mergeNew_single]; exact List.Sublist.refl _
  | x :: y :: rest => by
    rw [mergeNew_cons_cons]
    split
    · cases hj : joinLeft x y with
      | none =>
        simp only [Option.map_none, Option.getD_none]
        rw [handlesList_cons, handlesList_cons (k := x)]
        exact (List.Sublist.refl _).append (handlesList_mergeNewHead_sublist y rest)
      | some j =>
        simp only [Option.map_some, Option.getD_some]
        rw [handlesList_cons, handlesList_cons, handlesList_cons, handlesList_joinLeft hj]
        exact (List.Sublist.refl _).append (List.sublist_append_right _ _)
    · split
      · exact handlesList_mergeNewHead_sublist x (y :: rest)
      · rw [handlesList_cons, handlesList_cons (k := x)]
        exact (List.Sublist.refl _).append (handlesList_mergeNew_sublist n (y :: rest))

/-- If what stands first after `mergeNewHead t …` is a text node, `t` is one. -/
theorem mergeNewHead_head_text {t : HTree} {B : List HTree} {b' : HTree} {r' : List HTree}
    (h : mergeNewHead t B = b' :: r') (hb : b'.value.isText = true) : t.value.isText = true := by
  cases B with
  | nil =>
    rw [mergeNewHead_nil] at h
    injection h with h1 _
    rw [h1]; exact hb
  | cons z rest =>
    by_cases hc : t.value.isText = true ∧ z.value.isText = true
    · exact hc.1
    · rw [mergeNewHead_other hc] at h
      injection h with h1 _
      rw [h1]; exact hb

theorem leaf_mergeNewHead {t : HTree} {B : List HTree} (ht : t.value.isText = true → t.kids = [])
    (hB : ∀ k ∈ B, k.value.isText = true → k.kids = []) :
    ∀ k ∈ mergeNewHead t B, k.value.isText = true → k.kids = [] := by
  cases B with
  | nil =>
    rw [mergeNewHead_nil]
    intro k hk hkt
    have : k = t := by simpa using hk
    rw [this] at hkt ⊢; exact ht hkt
  | cons z rest =>
    by_cases hc : t.value.isText = true ∧ z.value.isText = true
    · obtain ⟨u, hu⟩ := text_of_isText hc.1
      obtain ⟨w, hw⟩ := text_of_isText hc.2
      rw [mergeNewHead_text hu hw]
      intro k hk hkt
      cases List.mem_cons.1 hk with
      | inl e => rw [e, setValue_kids]; exact hB z (by simp) hc.2
      | inr e => exact hB k (by simp [e]) hkt
    · rw [mergeNewHead_other hc]
      intro k hk hkt
      cases List.mem_cons.1 hk with
      | inl e => rw [e] at hkt ⊢; exact ht hkt
      | inr e => exact hB k e hkt

/-- `a` stands in the list; the child behind it, if it is `b`, is not merged with it. -/
theorem mergeAdj_noop_mid {A : HTree} {bh : Nat} (X Y : List HTree) (hX : ∀ x ∈ X, x.handle ≠ A.handle)
    (hY : ∀ x ∈ Y, x.handle ≠ A.handle)
    (h : ∀ B, Y.head? = some B → B.handle = bh → ¬ (A.value.isText = true ∧ B.value.isText = true)) :
    mergeAdj A.handle bh (X ++ A :: Y) = X ++ A :: Y := by
  cases Y with
  | nil => exact mergeAdj_sep [] (fun c hc => by cases hc) hY X hX
  | cons B Y' =>
    by_cases hB : B.handle = bh
    · rw [← hB]
      exact mergeAdj_mid_other (h B rfl hB) Y' hX
    · exact mergeAdj_sep (B :: Y') (fun c hc => by simp at hc; rw [← hc]; exact hB) hY X hX

theorem mergeNew3_cons_cons (n : Nat) (x y : HTree) (rest : List HTree) :
    mergeNew3 n (x :: y :: rest) =
      if y.handle = n then
        ((joinLeft x y).map (fun j => absorbNext j rest)).getD (x :: mergeNewHead y rest)
      else if x.handle = n then mergeNewHead x (y :: rest)
      else x :: mergeNew3 n (y :: rest) := by
  rw [mergeNew3]

theorem mergeNew3_head {T : HTree} (B : List HTree) (hB : ∀ x ∈ B, x.handle ≠ T.handle) :
    mergeNew3 T.handle (T :: B) = mergeNewHead T B := by
  cases B with
  | nil => simp [mergeNew3, mergeNewHead]
  | cons y rest =>
    rw [mergeNew3_cons_cons, if_neg (hB y (by simp)), if_pos rfl]

theorem mergeNew3_mid {T a : HTree} (B : List HTree) :
    ∀ (A : List HTree), (∀ x ∈ A, x.handle ≠ T.handle) → a.handle ≠ T.handle →
      mergeNew3 T.handle (A ++ a :: T :: B) =
        ((joinLeft a T).map (fun j => A ++ absorbNext j B)).getD (A ++ a :: mergeNewHead T B)
  | [], _, ha => by
    simp only [List.nil_append]
    rw [mergeNew3_cons_cons, if_pos rfl]
  | x :: A, h, ha => by
    have hx : x.handle ≠ T.handle := h x (by simp)
    have ih := mergeNew3_mid (T := T) (a := a) B A (fun y hy => h y (List.mem_cons_of_mem _ hy)) ha
    cases A with
    | nil =>
      simp only [List.nil_append, List.cons_append] at ih ⊢
      rw [mergeNew3_cons_cons, if_neg ha, if_neg hx, ih]
      cases joinLeft a T <;> rfl
    | cons x' A' =>
      have hx' : x'.handle ≠ T.handle := h x' (by simp)
      simp only [List.cons_append] at ih ⊢
      rw [mergeNew3_cons_cons, if_neg hx', if_neg hx, ih]
      cases joinLeft a T <;> rfl

theorem absorbNext_nil (j : HTree) : absorbNext j [] = [j] := rfl

theorem absorbNext_cons (j z : HTree) (rest : List HTree) :
    absorbNext j (z :: rest) = ((joinLeft j z).map (fun j' => j' :: rest)).getD (j :: z :: rest) := rfl

/-! ### The last consolidation of `replace` at a site -/

/-- xot's `remove_consolidate(K, next_sibling(K))` against the pair merge of `K` with the node `nr`. -/
theorem final_core {f2 : Forest} {q : Nat} {vq : Value} {l1 : List HTree} {K : HTree} {Y : List HTree}
    (s2 : SiteAt f2 q vq (l1 ++ K :: Y)) (hc2 : f2.consolidation = true)
    (hleafY : ∀ k ∈ Y, k.value.isText = true → k.kids = []) (nr : Option Nat)
    (hnr : ∀ B Y', Y = B :: Y' → K.value.isText = true → B.value.isText = true → nr = some B.handle) :
    (f2.removeConsolidate (some K.handle) (f2.nextSibling K.handle)).1 =
      f2.mergeLeftAt (some q) (some K.handle, nr) := by
  obtain ⟨nd2, _⟩ := s2.nodupKids
  obtain ⟨t1, t2⟩ := tops_ne_of_nodup nd2
  rcases lastStep s2 hc2 hleafY with ⟨h3, h4⟩ | ⟨b, r', x, y, er, hx, hy, h3⟩
  · rw [h3]
    symm
    apply step_noop s2
    intro a' b' ea _
    cases ea
    exact mergeAdj_noop_mid l1 Y t1 t2 (fun B hB _ => h4 B hB)
  · subst er
    rw [h3, hnr b r' rfl (by rw [hx]; rfl) (by rw [hy]; rfl)]
    exact (step_merge s2 hc2 (mergeAdj_mid_text hx hy r' t1)).symm

theorem textOf_none_of_kid {g : Forest} {p : Nat} {v : Value} {X : List HTree} {K : HTree} {Y : List HTree}
    (s : SiteAt g p v (X ++ K :: Y)) (h : K.value.isText = false) : g.textOf K.handle = none := by
  rw [Forest.textOf_of_get s.getKid]
  cases hd : textData K with
  | none => rfl
  | some z => rw [isText_iff_textData.2 ⟨z, hd⟩] at h; cases h

/-- xot's `remove_consolidate(previous_sibling(N), N)` (the last step of `replace` since 609b613)
    when `N` and the child `K` before it are not both text nodes: nothing happens. -/
theorem prevStep_noop {g : Forest} {p : Nat} {v : Value} {X : List HTree} {K N : HTree} {Y : List HTree}
    (s : SiteAt g p v ((X ++ [K]) ++ N :: Y)) (h : ¬ (K.value.isText = true ∧ N.value.isText = true)) :
    (g.removeConsolidate (g.prevSibling N.handle) (some N.handle)).1 = g := by
  rw [Forest.prevSibling_of_ctx s.ctx]
  simp only [prevOf, List.getLast?_concat]
  split
  · have sK : SiteAt g p v (X ++ K :: (N :: Y)) := by
      have : X ++ K :: (N :: Y) = (X ++ [K]) ++ N :: Y := by simp
      rw [this]; exact s
    cases hK : K.value.isText with
    | false => rw [Forest.removeConsolidate_not_text_left (textOf_none_of_kid sK hK)]
    | true =>
      have hN : N.value.isText = false := by
        cases hN : N.value.isText with
        | false => rfl
        | true => exact absurd ⟨hK, hN⟩ h
      rw [Forest.removeConsolidate_not_text_right (textOf_none_of_kid s hN)]
  · rw [Forest.removeConsolidate_none_left]

/-- … and when both are text nodes: `N` is merged into `K`. -/
theorem prevStep_merge {g : Forest} {p : Nat} {v : Value} {X : List HTree} {K N : HTree} {Y : List HTree}
    (s : SiteAt g p v ((X ++ [K]) ++ N :: Y)) (hc : g.consolidation = true) {x y : Str}
    (hK : K.value = .text x) (hN : N.value = .text y)
    (hleaf : ∀ k ∈ N :: Y, k.value.isText = true → k.kids = []) :
    (g.removeConsolidate (g.prevSibling N.handle) (some N.handle)).1 =
      g.editAt (some p) (fun _ => X ++ K.setValue (.text (x ++ y)) :: Y) := by
  have hKn : K.value.isNormal = true := PairAfter.text_normal (by rw [hK]; rfl)
  have hNn : N.value.isNormal = true := PairAfter.text_normal (by rw [hN]; rfl)
  have sK : SiteAt g p v (X ++ K :: (N :: Y)) := by
    have : X ++ K :: (N :: Y) = (X ++ [K]) ++ N :: Y := by simp
    rw [this]; exact s
  have hprev : g.prevSibling N.handle = some K.handle := by
    rw [Forest.prevSibling_of_ctx s.ctx]
    simp [prevOf, PairAfter.normal_cat hKn, PairAfter.normal_cat hNn]
  have hnext : g.nextSibling K.handle = some N.handle := by
    rw [Forest.nextSibling_of_ctx sK.ctx]
    exact PairAfter.nextOf_cons_normal hKn hNn
  rw [hprev, ← hnext]
  rcases lastStep sK hc hleaf with ⟨_, h4⟩ | ⟨b', r', x', y', er, hx, hy, h3⟩
  · exact absurd ⟨by rw [hK]; rfl, by rw [hN]; rfl⟩ (h4 N rfl)
  · injection er with e1 e2
    subst e1 e2
    rw [hK] at hx
    rw [hN] at hy
    injection hx with hx
    injection hy with hy
    subst hx hy
    exact h3

end PairAll

/-! ### The forest after `insert_after` / `prepend`, and the last step -/

theorem replMid_consolidation (f : Forest) (a b q : Nat) (t : HTree) :
    (replMid f a b q t).consolidation = f.consolidation := by
  unfold replMid
  rw [Forest.mergeLeftAt_consolidation, Forest.editAt_consolidation, Forest.editAt_consolidation]

namespace PutSite
variable {f : Forest} {a b q : Nat} {vq : Value} {l r : List HTree} {t : HTree} {lX rX : List HTree}
open PairAll

/-- The child list at `q` after the replacing node has been merged at its new place. -/
theorem site2 (ps : PutSite f a b q vq l r t lX rX) (hc : f.consolidation = true) :
    SiteAt ((replMid f a b q t).mergeNewAt q b) q vq (mergeNew b (lX ++ t :: rX)) := by
  rw [Forest.mergeNewAt_on (by rw [replMid_consolidation]; exact hc)]
  exact ps.site.edit (mergeNew b) (handlesList_mergeNew_sublist b _)

theorem cons2 (f : Forest) (a b q : Nat) (t : HTree) :
    ((replMid f a b q t).mergeNewAt q b).consolidation = f.consolidation := by
  unfold Forest.mergeNewAt
  split
  · rw [Forest.editAt_consolidation, replMid_consolidation]
  · exact replMid_consolidation f a b q t

/-- The right neighbour of the replaced node, read off `rX`. -/
theorem right_handle (ps : PutSite f a b q vq l r t lX rX) {B : HTree} {Y' : List HTree} (e : rX = B :: Y') :
    r.head?.map (·.handle) = some B.handle := by
  rcases ps.right with ⟨_, e2⟩ | ⟨N, r0, N', r1, e1, e2, hN, _⟩
  · rw [e2] at e; cases e
  · rw [e2] at e
    injection e with e3 _
    rw [e1, ← e3, hN]; rfl

/-- The handles of the children of `q` other than `t`. -/
theorem tops (ps : PutSite f a b q vq l r t lX rX) (ht : t.handle = b) :
    (∀ k ∈ lX, k.handle ≠ b) ∧ (∀ k ∈ rX, k.handle ≠ b) := by
  obtain ⟨nd, _⟩ := ps.site.nodupKids
  have := tops_ne_of_nodup nd
  rw [ht] at this
  exact this

/-- **xot's last step when the replaced node had a previous sibling** `P`. -/
theorem final_after (ps : PutSite f a b q vq l r t lX rX) (ht : t.handle = b)
    (hleaft : t.value.isText = true → t.kids = []) {l0 : List HTree} {P : HTree} (el : l = l0 ++ [P]) :
    (((replMid f a b q t).mergeNewAt q b).removeConsolidate (some P.handle)
        (((replMid f a b q t).mergeNewAt q b).nextSibling P.handle)).1 =
      ((replMid f a b q t).mergeNewAt q b).mergeLeftAt (some q) (l.getLast?.map (·.handle), r.head?.map (·.handle)) := by
  subst ht
  have hl : l.getLast?.map (·.handle) = some P.handle := by rw [el]; simp
  rw [hl]
  cases hc : f.consolidation with
  | false =>
    have c2 := cons2 f a t.handle q t
    rw [hc] at c2
    rw [Forest.removeConsolidate_off c2, Forest.mergeLeftAt_off c2]
  | true =>
    have c2 := cons2 f a t.handle q t
    rw [hc] at c2
    have s2 := ps.site2 hc
    obtain ⟨tl, tr⟩ := ps.tops rfl
    rcases ps.left with (⟨e1, _⟩ | ⟨l0', P0, l1, P', e1, e2, hP1, hP2⟩) | ⟨_, u, x, Pc, l1, x', e1, _, _, e2, hx't, _, hgone⟩
    · rw [el] at e1; simp at e1
    · -- the previous sibling is still there
      have eP : P0 = P := by
        rw [el] at e1
        have := (List.append_inj' e1 rfl).2
        simp only [List.cons.injEq, and_true] at this
        exact this.symm
      subst eP
      subst e2
      have hl1 : ∀ k ∈ l1, k.handle ≠ t.handle := fun k hk => tl k (by simp [hk])
      have hP't : P'.handle ≠ t.handle := tl P' (by simp)
      have eM : (l1 ++ [P']) ++ t :: rX = l1 ++ P' :: t :: rX := by simp
      rw [eM] at s2
      rw [← hP1]
      by_cases hb : P'.value.isText = true ∧ t.value.isText = true
      · obtain ⟨s, hs⟩ := text_of_isText hb.1
        obtain ⟨v, hv⟩ := text_of_isText hb.2
        rw [mergeNew_mid_left hs hv l1 rX hl1 hP't] at s2
        have := final_core s2 c2 ps.leafR (r.head?.map (·.handle)) (fun B Y' e _ _ => ps.right_handle e)
        rw [setValue_handle] at this
        exact this
      · rw [mergeNew_mid_right hb l1 rX hl1 hP't] at s2
        have := final_core s2 c2 (leaf_mergeNewHead hleaft ps.leafR) (r.head?.map (·.handle)) (by
          intro B Y' e hPt hBt
          exact absurd ⟨hPt, mergeNewHead_head_text e hBt⟩ hb)
        exact this
    · -- the previous sibling has been merged away
      have eP : Pc = P := by
        rw [el] at e1
        have h' : l0 ++ [P] = (u ++ x :: [t]) ++ [Pc] := by rw [e1]; simp
        have := (List.append_inj' h' rfl).2
        simp only [List.cons.injEq, and_true] at this
        exact this.symm
      subst eP
      have hsub : ((replMid f a t.handle q t).mergeNewAt q t.handle).allHandles.Sublist (replMid f a t.handle q t).allHandles := by
        rw [Forest.mergeNewAt_on (by rw [replMid_consolidation]; exact hc)]
        exact handlesList_editAt_sublist (fun L => handlesList_mergeNew_sublist t.handle L) _
      have hgone2 : Pc.handle ∉ ((replMid f a t.handle q t).mergeNewAt q t.handle).allHandles := fun h => hgone (hsub.subset h)
      have hnx : ((replMid f a t.handle q t).mergeNewAt q t.handle).nextSibling Pc.handle = none :=
        Forest.nextSibling_of_no_ctx (ctx_none_of_not_mem hgone2)
      rw [hnx, Forest.removeConsolidate_none_right]
      symm
      apply step_noop s2
      intro a' b' ea _
      cases ea
      apply mergeAdj_of_not_top
      intro k hk e
      apply hgone2
      obtain ⟨X, Y, hXY⟩ := List.append_of_mem hk
      have s' : SiteAt ((replMid f a t.handle q t).mergeNewAt q t.handle) q vq (X ++ k :: Y) := hXY ▸ s2
      rw [← e]
      exact mem_of_findList?_some s'.getKid

/-- **No last step** when the replaced node had no previous sibling: its raw left neighbour, if
    any, is not a text node, and the pair merge of the specification does nothing. -/
theorem final_first (ps : PutSite f a b q vq l r t lX rX) (ht : t.handle = b)
    (hnt : ∀ P, l.getLast? = some P → P.value.isText = false) :
    ((replMid f a b q t).mergeNewAt q b).mergeLeftAt (some q) (l.getLast?.map (·.handle), r.head?.map (·.handle)) =
      (replMid f a b q t).mergeNewAt q b := by
  subst ht
  cases hc : f.consolidation with
  | false =>
    have c2 := cons2 f a t.handle q t
    rw [hc] at c2
    rw [Forest.mergeLeftAt_off c2]
  | true =>
    have s2 := ps.site2 hc
    obtain ⟨tl, tr⟩ := ps.tops rfl
    rcases ps.left with (⟨e1, _⟩ | ⟨l0', P0, l1, P', e1, e2, hP1, hP2⟩) | ⟨_, u, x, Pc, l1, x', e1, _, hPct, _⟩
    · rw [e1]; exact Forest.mergeLeftAt_left_none _ _ _
    · subst e1 e2
      have hP0 : P0.value.isText = false := hnt P0 (by simp)
      have hP' : P'.value.isText = false := by rw [hP2]; exact hP0
      have hl1 : ∀ k ∈ l1, k.handle ≠ t.handle := fun k hk => tl k (by simp [hk])
      have hP't : P'.handle ≠ t.handle := tl P' (by simp)
      have eM : (l1 ++ [P']) ++ t :: rX = l1 ++ P' :: t :: rX := by simp
      rw [eM, mergeNew_mid_right (fun h => by rw [hP'] at h; cases h.1) l1 rX hl1 hP't] at s2
      apply step_noop s2
      intro a' b' ea _
      simp only [List.getLast?_concat, Option.map_some, Option.some.injEq] at ea
      subst ea
      obtain ⟨nd2, _⟩ := s2.nodupKids
      obtain ⟨t1, t2⟩ := tops_ne_of_nodup nd2
      rw [← hP1]
      exact mergeAdj_noop_mid l1 _ t1 t2 (fun B _ _ h => by rw [hP'] at h; cases h.1)
    · exfalso
      have := hnt Pc (by rw [e1]; simp)
      rw [hPct] at this
      cases this

/-- **The two readings at the parent**: the pair merge of the two former neighbours after `mergeNew`
    is `mergeNew3`, unless the left neighbour was merged away, the replacing node is a text node and
    so is the right neighbour. -/
theorem mergeK_eq_mergeP (ps : PutSite f a b q vq l r t lX rX) (ht : t.handle = b)
    (hcorner : ∀ u x P N r0, l = u ++ x :: t :: [P] → r = N :: r0 → f.consolidation = true →
      x.value.isText = true → P.value.isText = true → ¬ (t.value.isText = true ∧ N.value.isText = true)) :
    adjOpt (l.getLast?.map (·.handle), r.head?.map (·.handle)) (mergeNew b (lX ++ t :: rX)) =
      mergeNew3 b (lX ++ t :: rX) := by
  subst ht
  obtain ⟨tl, tr⟩ := ps.tops rfl
  have htr : ∀ k ∈ rX, k.handle ≠ t.handle := tr
  rcases ps.left with (⟨e1, e2⟩ | ⟨l0', P0, l1, P', e1, e2, hP1, hP2⟩) | ⟨hc, u, x, Pc, l1, x', e1, hxt, hPct, e2, hx't, _, hgone⟩
  · subst e1 e2
    simp only [List.nil_append, List.getLast?_nil, Option.map_none]
    rw [mergeNew_head rX htr, mergeNew3_head rX htr]
    rfl
  · subst e1 e2
    have hl1 : ∀ k ∈ l1, k.handle ≠ t.handle := fun k hk => tl k (by simp [hk])
    have hP't : P'.handle ≠ t.handle := tl P' (by simp)
    have eM : (l1 ++ [P']) ++ t :: rX = l1 ++ P' :: t :: rX := by simp
    obtain ⟨ndX, _⟩ := ps.site.nodupKids
    rw [eM] at ndX
    simp only [List.getLast?_concat, Option.map_some]
    rw [eM, mergeNew_mid rX l1 hl1 hP't, mergeNew3_mid rX l1 hl1 hP't]
    by_cases hb : P'.value.isText = true ∧ t.value.isText = true
    · obtain ⟨s, hs⟩ := text_of_isText hb.1
      obtain ⟨v, hv⟩ := text_of_isText hb.2
      rw [joinLeft_text hs hv]
      simp only [Option.map_some, Option.getD_some]
      rcases ps.right with ⟨er, erX⟩ | ⟨N, r0, N', r1, er, erX, hN, _⟩
      · subst er erX
        rfl
      · subst er erX
        simp only [List.head?_cons, Option.map_some, adjOpt]
        have t1 : ∀ k ∈ l1, k.handle ≠ (P'.setValue (.text (s ++ v))).handle := by
          rw [setValue_handle]
          exact (tops_ne_of_nodup ndX).1
        have := mergeAdj_mid (A := P'.setValue (.text (s ++ v))) (B := N') r1 l1 t1
        rw [setValue_handle, hP1, hN] at this
        rw [this, absorbNext_cons]
        cases joinLeft (P'.setValue (.text (s ++ v))) N' <;> rfl
    · rw [joinLeft_none hb]
      simp only [Option.map_none, Option.getD_none]
      -- nothing for the pair merge to do
      have ndM : (handlesList (l1 ++ P' :: mergeNewHead t rX)).Nodup := by
        have hs : (handlesList (l1 ++ P' :: mergeNewHead t rX)).Sublist (handlesList (l1 ++ P' :: t :: rX)) := by
          simp only [fs_handlesList_append, handlesList_cons (k := P')]
          exact (List.Sublist.refl _).append ((List.Sublist.refl _).append (handlesList_mergeNewHead_sublist t rX))
        exact hs.nodup ndX
      obtain ⟨t1, t2⟩ := tops_ne_of_nodup ndM
      cases hr : r.head? with
      | none => rfl
      | some N =>
        simp only [Option.map_some, adjOpt]
        rw [← hP1]
        exact mergeAdj_noop_mid l1 _ t1 t2 (fun B hB _ h => hb ⟨h.1, by
          obtain ⟨Y', eY⟩ := List.head?_eq_some_iff.1 hB
          exact mergeNewHead_head_text eY h.2⟩)
  · -- the left neighbour is gone
    subst e2
    have hl1 : ∀ k ∈ l1, k.handle ≠ t.handle := fun k hk => tl k (by simp [hk])
    have hx't' : x'.handle ≠ t.handle := tl x' (by simp)
    have eM : (l1 ++ [x']) ++ t :: rX = l1 ++ x' :: t :: rX := by simp
    have hlast : l.getLast?.map (·.handle) = some Pc.handle := by rw [e1]; simp
    -- no child carries the handle of the merged node
    have hnotop : ∀ (M : List HTree), (handlesList M).Sublist (handlesList ((l1 ++ [x']) ++ t :: rX)) →
        ∀ k ∈ M, k.handle ≠ Pc.handle := by
      intro M hM k hk e
      apply hgone
      have h1 : Pc.handle ∈ handlesList ((l1 ++ [x']) ++ t :: rX) := hM.subset (e ▸ handle_mem_handlesList hk)
      exact (findList?_some _ _ ps.site.kids).2 _ (by rw [handles_node]; exact List.mem_cons_of_mem _ h1)
    have hK : ∀ (M : List HTree), (handlesList M).Sublist (handlesList ((l1 ++ [x']) ++ t :: rX)) →
        adjOpt (l.getLast?.map (·.handle), r.head?.map (·.handle)) M = M := by
      intro M hM
      rw [hlast]
      cases hr : r.head? with
      | none => rfl
      | some N => exact mergeAdj_of_not_top M (hnotop M hM)
    rw [hK _ (handlesList_mergeNew_sublist _ _), eM, mergeNew_mid rX l1 hl1 hx't',
      mergeNew3_mid rX l1 hl1 hx't']
    by_cases hb : x'.value.isText = true ∧ t.value.isText = true
    · obtain ⟨s, hs⟩ := text_of_isText hb.1
      obtain ⟨v, hv⟩ := text_of_isText hb.2
      rw [joinLeft_text hs hv]
      simp only [Option.map_some, Option.getD_some]
      rcases ps.right with ⟨er, erX⟩ | ⟨N, r0, N', r1, er, erX, hN, hNt⟩
      · subst er erX
        rfl
      · subst erX
        have hNn : N.value.isText = false := by
          cases hN' : N.value.isText with
          | false => rfl
          | true => exact absurd ⟨hb.2, hN'⟩ (hcorner u x Pc N r0 e1 er hc hxt hPct)
        rw [absorbNext_cons, joinLeft_none (fun h => by rw [hNt, hNn] at h; cases h.2)]
        rfl
    · rw [joinLeft_none hb]
      rfl

end PutSite
end XotModel
