/-
  XotModel.Lemmas.ArenaTraverse — the `traverse` iterator (`NodeEdge::next_traverse` driven by
  `Traverse::next`) on a well-formed arena: from `Start(c)` it yields exactly the edges of the
  subtree of `c` in document order — `Start(c)`, the edges of the children's subtrees, `End(c)` —
  and `descendants` the `Start` edges of that list.
-/
import XotModel.Lemmas.ArenaHistory

namespace XotModel
namespace Arena

/-- An edge at list level: `(true, n)` = `Start(n)`, `(false, n)` = `End(n)`. -/
abbrev Ed := Bool × Nat

def toEdge (a : Arena) (e : Ed) : NodeEdge := if e.1 then .start (a.idAt e.2) else .end (a.idAt e.2)

mutual
/-- The edges of the subtree of `c`, in document order. -/
inductive EdgesOf (g : Shape) : Nat → List Ed → Prop
  | mk {c : Nat} {l : List Ed} : EdgesList g (g.kids c) l → EdgesOf g c ((true, c) :: l ++ [(false, c)])
inductive EdgesList (g : Shape) : List Nat → List Ed → Prop
  | nil : EdgesList g [] []
  | cons {k : Nat} {ks : List Nat} {l1 l2 : List Ed} : EdgesOf g k l1 → EdgesList g ks l2 → EdgesList g (k :: ks) (l1 ++ l2)
end

/-- What follows `End(c)`: `Start` of the next sibling, else `End` of the parent, else nothing. -/
inductive AfterEnd (g : Shape) : Nat → Option Ed → Prop where
  | sib {c q n : Nat} {L R : List Nat} : g.par c = some q → g.kids q = L ++ c :: n :: R → AfterEnd g c (some (true, n))
  | last {c q : Nat} {L : List Nat} : g.par c = some q → g.kids q = L ++ [c] → AfterEnd g c (some (false, q))
  | root {c : Nat} : g.par c = none → AfterEnd g c none

theorem Rep.afterEnd_exists {a : Arena} {g : Shape} (r : Rep a g) (c : Nat) : ∃ o, AfterEnd g c o := by
  cases hp : g.par c with
  | none => exact ⟨none, .root hp⟩
  | some q =>
    obtain ⟨L, R, hk⟩ := List.append_of_mem (r.parKids c q hp).2
    cases R with
    | nil => exact ⟨_, .last hp hk⟩
    | cons n R' => exact ⟨_, .sib hp hk⟩

theorem edgesList_exists {g : Shape} : ∀ (ks : List Nat), (∀ k ∈ ks, ∃ l, EdgesOf g k l) → ∃ L, EdgesList g ks L
  | [], _ => ⟨[], .nil⟩
  | k :: ks, h => by
    obtain ⟨l1, h1⟩ := h k (by simp)
    obtain ⟨l2, h2⟩ := edgesList_exists ks (fun k' hk' => h k' (List.mem_cons_of_mem _ hk'))
    exact ⟨l1 ++ l2, .cons h1 h2⟩

theorem Rep.edges_exists {a : Arena} {g : Shape} (r : Rep a g) (c : Nat) (hc : Live a c) : ∃ l, EdgesOf g c l :=
  r.kids_induction (fun c => ∃ l, EdgesOf g c l) (fun c _ hk => by
    obtain ⟨L, hL⟩ := edgesList_exists (g.kids c) hk
    exact ⟨_, .mk hL⟩) c hc

theorem EdgesList.nil_inv {g : Shape} {ks : List Nat} {l : List Ed} (h : EdgesList g ks l) (e : ks = []) : l = [] := by
  cases h with
  | nil => rfl
  | cons _ _ => cases e

/-- `l` emitted, then the rest of the walk. -/
def emit (a : Arena) (l : List NodeEdge) (s : Step (List NodeEdge)) : Step (List NodeEdge) :=
  s.bind fun _ rest => .done a (l ++ rest)

theorem emit_emit (a : Arena) (l1 l2 : List NodeEdge) (s : Step (List NodeEdge)) :
    emit a l1 (emit a l2 s) = emit a (l1 ++ l2) s := by
  cases s <;> simp [emit, Step.bind]

/-- One step of `Traverse::next` with continuation. -/
theorem traverseGo_succ (a : Arena) (root : NodeId) (limit : Nat) (e : NodeEdge) :
    traverseGo a root (limit + 1) (some e) =
      if e = .end root then emit a [e] (traverseGo a root limit none)
      else nextTraverse a e fun nx => emit a [e] (traverseGo a root limit nx) := by
  rw [traverseGo]
  split <;> rfl

/-- The walk continues after a list of edges has been emitted. -/
def EmitsThen (a : Arena) (root : NodeId) (cur : NodeEdge) (l : List Ed) (o : Option Ed) : Prop :=
  ∀ limit, l.length ≤ limit →
    traverseGo a root limit (some cur) =
      emit a (l.map (toEdge a)) (traverseGo a root (limit - l.length) (o.map (toEdge a)))

mutual
/-- From `Start(c)`: the edges of the subtree of `c`, then what follows `End(c)`. -/
theorem EdgesOf.traverse {a : Arena} {g : Shape} (r : Rep a g) (root : NodeId) {c : Nat} {l : List Ed}
    (h : EdgesOf g c l) (hc : Live a c) (hroot : ∀ n, Reach g.par n c → a.idAt n ≠ root) (o : Option Ed)
    (ho : AfterEnd g c o) : EmitsThen a root (.start (a.idAt c)) l o := by
  match h with
  | @EdgesOf.mk _ _ L hL =>
    intro limit hlim
    obtain ⟨s, hs, h0⟩ := hc
    have P := r.ptrs c s hs h0
    have hsc : a.slot (a.idAt c).index0 = some s := by rw [idAt_index0]; exact hs
    simp only [List.length_cons, List.length_append, List.length_nil] at hlim
    obtain ⟨n, rfl⟩ : ∃ n, limit = n + 1 := ⟨limit - 1, by omega⟩
    rw [traverseGo_succ, if_neg (by simp)]
    unfold nextTraverse
    simp only []
    rw [rd_some _ _ _ _ hsc]
    -- the edge after the children: `End(c)`, then what follows it
    have hend : ∀ m, traverseGo a root (m + 1) (some (.end (a.idAt c))) =
        emit a [.end (a.idAt c)] (traverseGo a root m (o.map (toEdge a))) := by
      intro m
      rw [traverseGo_succ]
      have hne : NodeEdge.end (a.idAt c) ≠ NodeEdge.end root := by
        intro e; cases e; exact hroot c (.refl _) rfl
      rw [if_neg hne]
      unfold nextTraverse
      simp only []
      rw [rd_some _ _ _ _ hsc]
      cases ho with
      | @sib q n' L' R' hp hk =>
        obtain ⟨L1, R1, e1, _, e3⟩ := P.sib q hp
        obtain ⟨_, hR⟩ := split_unique (by rw [← e1]; exact r.kidsNodup q) (e1.symm.trans hk)
        have : s.next = some (a.idAt n') := by rw [e3, hR]; rfl
        simp only [this, Option.map_some, toEdge, if_true]
      | @last q L' hp hk =>
        obtain ⟨L1, R1, e1, _, e3⟩ := P.sib q hp
        obtain ⟨_, hR⟩ := split_unique (by rw [← e1]; exact r.kidsNodup q) (e1.symm.trans (by rw [hk]))
        have h1 : s.next = none := by rw [e3, hR]; rfl
        have h2 : s.parent = some (a.idAt q) := by rw [P.parent, hp]; rfl
        simp only [h1, h2, Option.map_some, toEdge, Bool.false_eq_true, if_false]
      | root hp =>
        have h1 : s.next = none := (P.root hp).2
        have h2 : s.parent = none := by rw [P.parent, hp]; rfl
        simp only [h1, h2, Option.map_none]
    cases hk : g.kids c with
    | nil =>
      have hLnil : L = [] := hL.nil_inv hk
      subst hLnil
      have hf : s.first = none := by rw [P.first, hk]; rfl
      simp only [hf, List.nil_append, List.length_cons, List.length_nil] at hlim ⊢
      obtain ⟨m, rfl⟩ : ∃ m, n = m + 1 := ⟨n - 1, by omega⟩
      rw [hend m, emit_emit]
      simp [toEdge]
    | cons k1 ks =>
      have hf : s.first = some (a.idAt k1) := by rw [P.first, hk]; rfl
      simp only [hf]
      have hkids := EdgesList.traverse r root hL c [] rfl
        (fun n k hk' hn => hroot n (r.reach_of_child hk' hn)) k1 ks hk n (by omega)
      obtain ⟨m, hm⟩ : ∃ m, n - L.length = m + 1 := ⟨n - L.length - 1, by omega⟩
      rw [hkids, hm, hend m, emit_emit, emit_emit]
      have e1 : n + 1 - ((true, c) :: L ++ [(false, c)]).length = m := by
        simp only [List.length_cons, List.length_append, List.length_nil]; omega
      rw [e1]
      simp [toEdge]
/-- From `Start` of the first of a suffix of the children of `c`: their edges, then `End(c)`. -/
theorem EdgesList.traverse {a : Arena} {g : Shape} (r : Rep a g) (root : NodeId) {ks : List Nat} {L : List Ed}
    (h : EdgesList g ks L) (c : Nat) (pre : List Nat) (hk : g.kids c = pre ++ ks)
    (hroot : ∀ n k, k ∈ g.kids c → Reach g.par n k → a.idAt n ≠ root) (k1 : Nat) (rest : List Nat)
    (hks : ks = k1 :: rest) :
    ∀ limit, L.length ≤ limit →
      traverseGo a root limit (some (.start (a.idAt k1))) =
        emit a (L.map (toEdge a)) (traverseGo a root (limit - L.length) (some (.end (a.idAt c)))) := by
  match h with
  | .nil => exact absurd hks (by simp)
  | @EdgesList.cons _ k ks' l1 l2 h1 h2 =>
    have hk1 : k = k1 := (List.cons.inj hks).1
    have hrest' : ks' = rest := (List.cons.inj hks).2
    subst hk1 hrest'
    intro limit hlim
    have hkmem : k ∈ g.kids c := by rw [hk]; simp
    have hpk := (r.kidsLive c k hkmem).2.2
    have hrootk : ∀ n, Reach g.par n k → a.idAt n ≠ root := fun n hn => hroot n k hkmem hn
    simp only [List.length_append] at hlim
    cases hrest : ks' with
    | nil =>
      have hl2 : l2 = [] := h2.nil_inv hrest
      subst hl2
      have := EdgesOf.traverse r root h1 (r.kidsLive c k hkmem).2.1 hrootk (some (false, c))
        (.last hpk (by rw [hk, hrest])) limit (by omega)
      simpa [toEdge] using this
    | cons k2 rest2 =>
      have e1 := EdgesOf.traverse r root h1 (r.kidsLive c k hkmem).2.1 hrootk (some (true, k2))
        (.sib hpk (by rw [hk, hrest])) limit (by omega)
      have e2 := EdgesList.traverse r root h2 c (pre ++ [k]) (by rw [hk]; simp) hroot k2 rest2 hrest
        (limit - l1.length) (by omega)
      rw [e1]
      simp only [Option.map_some, toEdge, if_true]
      rw [e2, emit_emit]
      simp only [List.length_append, List.map_append]
      have : limit - l1.length - l2.length = limit - (l1.length + l2.length) := by omega
      rw [this]
end

/-- `traverse` from a live node: exactly the edges of its subtree, within the limit. -/
theorem Rep.traverse_eq {a : Arena} {g : Shape} (r : Rep a g) {c : Nat} {l : List Ed} (h : EdgesOf g c l)
    (hc : Live a c) (limit : Nat) (hlim : l.length ≤ limit) :
    Arena.traverse a (a.idAt c) limit = .done a (l.map (toEdge a)) := by
  match h with
  | @EdgesOf.mk _ _ L hL =>
    obtain ⟨s, hs, h0⟩ := hc
    have P := r.ptrs c s hs h0
    have hsc : a.slot (a.idAt c).index0 = some s := by rw [idAt_index0]; exact hs
    simp only [List.length_cons, List.length_append, List.length_nil] at hlim
    obtain ⟨n, rfl⟩ : ∃ n, limit = n + 1 := ⟨limit - 1, by omega⟩
    unfold Arena.traverse
    rw [traverseGo_succ, if_neg (by simp)]
    unfold nextTraverse
    simp only []
    rw [rd_some _ _ _ _ hsc]
    have hend : ∀ m, traverseGo a (a.idAt c) (m + 1) (some (.end (a.idAt c))) = .done a [.end (a.idAt c)] := by
      intro m
      rw [traverseGo_succ, if_pos rfl]
      cases m <;> simp [traverseGo, emit]
    cases hk : g.kids c with
    | nil =>
      have hLnil : L = [] := hL.nil_inv hk
      subst hLnil
      have hf : s.first = none := by rw [P.first, hk]; rfl
      simp only [hf, List.nil_append] at hlim ⊢
      obtain ⟨m, rfl⟩ : ∃ m, n = m + 1 := ⟨n - 1, by simp at hlim; omega⟩
      rw [hend m]
      simp [emit, toEdge]
    | cons k1 ks =>
      have hf : s.first = some (a.idAt k1) := by rw [P.first, hk]; rfl
      simp only [hf]
      have hkids := EdgesList.traverse r (a.idAt c) hL c [] rfl (fun n k hk' hn e => by
        have := congrArg NodeId.index0 e
        simp at this; subst this
        exact r.acyclic k n (r.kidsLive n k hk').2.2 hn) k1 ks hk n (by omega)
      obtain ⟨m, hm⟩ : ∃ m, n - L.length = m + 1 := ⟨n - L.length - 1, by omega⟩
      rw [hkids, hm, hend m]
      simp [emit, toEdge]

theorem starts_filterMap (a : Arena) : ∀ (l : List Ed),
    (l.map (toEdge a)).filterMap NodeEdge.startNode? =
      (l.filter (·.1)).map (fun e => a.idAt e.2)
  | [] => rfl
  | (true, n) :: es => by
    have ih := starts_filterMap a es
    simp only [List.map_cons, toEdge, if_true, List.filterMap_cons, NodeEdge.startNode?, List.filter_cons]
    rw [ih]
  | (false, n) :: es => by
    have ih := starts_filterMap a es
    simp only [List.map_cons, toEdge, Bool.false_eq_true, if_false, List.filterMap_cons, NodeEdge.startNode?, List.filter_cons]
    rw [ih]

/-- `descendants` = the `Start` edges of `traverse`. -/
theorem Rep.descendants_eq {a : Arena} {g : Shape} (r : Rep a g) {c : Nat} {l : List Ed} (h : EdgesOf g c l)
    (hc : Live a c) (limit : Nat) (hlim : l.length ≤ limit) :
    Arena.descendants a (a.idAt c) limit = .done a ((l.filter (·.1)).map (fun e => a.idAt e.2)) := by
  unfold Arena.descendants
  rw [r.traverse_eq h hc limit hlim]
  simp only [Step.bind_done]
  rw [starts_filterMap]

end Arena
end XotModel
