/-
  XotModel.Lemmas.ScopeKeep — what the rebuilt tree keeps: values, attributes, and every
  declaration whose namespace is not in `to_remove`.
-/
import XotModel.Lemmas.ScopeSerialise
import XotModel.Lemmas.ScopeDedup

namespace XotModel

/-- `eraseOwn` on the child list. -/
def eraseKids (decls : List (Nat × Nat)) (toRemove : List Nat) (ks : List Tree) : List Tree :=
  (toRemove.map fun ns => (decls.filter (fun kv => kv.2 == ns)).map (·.1)).foldl
    (fun ks pfxs => pfxs.foldl (fun ks p => removeNsKid p ks) ks) ks

theorem eraseOwn_node (decls : List (Nat × Nat)) (toRemove : List Nat) (v : Value) (ks : List Tree) :
    eraseOwn decls toRemove (.node v ks) = .node v (eraseKids decls toRemove ks) := by
  unfold eraseOwn eraseKids
  generalize (toRemove.map fun ns => (decls.filter (fun kv => kv.2 == ns)).map (·.1)) = ll
  induction ll generalizing ks with
  | nil => rfl
  | cons pfxs rest ih =>
    simp only [List.foldl_cons]
    have : ∀ (ps : List Nat) (ks : List Tree),
        ps.foldl (fun n p => removeNsKidsOf p n) (Tree.node v ks) =
          .node v (ps.foldl (fun ks p => removeNsKid p ks) ks) := by
      intro ps
      induction ps with
      | nil => intro ks; rfl
      | cons p ps ih2 =>
        intro ks
        simp only [List.foldl_cons]
        rw [show removeNsKidsOf p (Tree.node v ks) = .node v (removeNsKid p ks) from rfl]
        exact ih2 _
    rw [this, ih]

/-- Every prefix `eraseKids` removes is bound, on the original element, to a namespace of
    `toRemove`. -/
theorem eraseKids_induction {P : List Tree → Prop} (decls : List (Nat × Nat)) (toRemove : List Nat)
    (h : ∀ p ns, ns ∈ toRemove → (p, ns) ∈ decls → ∀ ks, P ks → P (removeNsKid p ks)) :
    ∀ ks, P ks → P (eraseKids decls toRemove ks) := by
  unfold eraseKids
  induction toRemove with
  | nil => intro ks hk; exact hk
  | cons ns rest ih =>
    intro ks hk
    simp only [List.map_cons, List.foldl_cons]
    apply ih (fun p ns' hns' => h p ns' (by simp [hns']))
    have : ∀ (ps : List Nat), (∀ p ∈ ps, (p, ns) ∈ decls) → ∀ ks, P ks →
        P (ps.foldl (fun ks p => removeNsKid p ks) ks) := by
      intro ps
      induction ps with
      | nil => intro _ ks hk; exact hk
      | cons p ps ih2 =>
        intro hps ks hk
        simp only [List.foldl_cons]
        exact ih2 (fun q hq => hps q (by simp [hq])) _
          (h p ns (by simp) (hps p (by simp)) ks hk)
    apply this _ _ ks hk
    intro p hp
    obtain ⟨⟨a, b⟩, hab, rfl⟩ := List.mem_map.1 hp
    simp only [List.mem_filter, beq_iff_eq] at hab
    obtain ⟨hm, rfl⟩ := hab
    exact hm

/-! ### What removing one namespace node keeps -/

theorem dropWhile_removeNsKid (p : Nat) (ks : List Tree) :
    (removeNsKid p ks).dropWhile (fun k => k.value.category == .namespace) =
      ks.dropWhile (fun k => k.value.category == .namespace) := by
  induction ks with
  | nil => rfl
  | cons k rest ih =>
    by_cases hc : (k.value.category == Category.namespace) = true
    · obtain ⟨q, n, hv⟩ := (category_namespace_iff_ex _).1 hc
      simp only [removeNsKid, hv]
      by_cases hp : q = p
      · simp only [hp, beq_self_eq_true, ↓reduceIte]
        rw [List.dropWhile_cons]
        simp [hv, Value.category]
      · have : (q == p) = false := by simpa using hp
        simp only [this, Bool.false_eq_true, ↓reduceIte, List.dropWhile_cons, hc, ih]
    · have : removeNsKid p (k :: rest) = k :: rest := by
        unfold removeNsKid
        split
        · rename_i q n h; exact absurd ((category_namespace_iff_ex _).2 ⟨q, n, h⟩) hc
        · rfl
      rw [this]

theorem attrs_removeNsKid (v : Value) (p : Nat) (ks : List Tree) :
    (Tree.node v (removeNsKid p ks)).attrs = (Tree.node v ks).attrs := by
  simp only [Tree.attrs, Tree.attributeNodes, Tree.kids, dropWhile_removeNsKid]

theorem wrList_removeNsKid (env : Env) (top : List (Nat × Nat)) (p : Nat) (ks : List Tree)
    (h : wr.wrList env top ks = true) : wr.wrList env top (removeNsKid p ks) = true := by
  induction ks with
  | nil => exact h
  | cons k rest ih =>
    simp only [wr.wrList, Bool.and_eq_true] at h
    unfold removeNsKid
    split
    · split
      · exact h.2
      · simp only [wr.wrList, Bool.and_eq_true]; exact ⟨h.1, ih h.2⟩
    · simp only [wr.wrList, Bool.and_eq_true]; exact h

theorem mem_declsOfKids_removeNsKid (p : Nat) (kv : Nat × Nat) (ks : List Tree)
    (h : kv ∈ declsOfKids ks) (hp : kv.1 ≠ p) : kv ∈ declsOfKids (removeNsKid p ks) := by
  induction ks with
  | nil => exact h
  | cons k rest ih =>
    by_cases hc : (k.value.category == Category.namespace) = true
    · obtain ⟨q, n, hv⟩ := (category_namespace_iff_ex _).1 hc
      simp only [declsOfKids, hv, List.mem_cons] at h
      simp only [removeNsKid, hv]
      by_cases hq : q = p
      · simp only [hq, beq_self_eq_true, ↓reduceIte]
        rcases h with h | h
        · subst hq; rw [h] at hp; exact absurd rfl hp
        · exact h
      · have : (q == p) = false := by simpa using hq
        simp only [this, Bool.false_eq_true, ↓reduceIte, declsOfKids, hv, List.mem_cons]
        rcases h with h | h
        · exact .inl h
        · exact .inr (ih h)
    · have : removeNsKid p (k :: rest) = k :: rest := by
        unfold removeNsKid
        split
        · rename_i q n h'; exact absurd ((category_namespace_iff_ex _).2 ⟨q, n, h'⟩) hc
        · rfl
      rw [this]; exact h

/-! ### Values are preserved by the rebuild -/

theorem declsOfKids_congr : ∀ (ks ks' : List Tree), ks.map Tree.value = ks'.map Tree.value →
    declsOfKids ks = declsOfKids ks'
  | [], [], _ => rfl
  | [], _ :: _, h => by simp at h
  | _ :: _, [], h => by simp at h
  | k :: ks, k' :: ks', h => by
    simp only [List.map_cons, List.cons.injEq] at h
    simp only [declsOfKids, h.1, declsOfKids_congr ks ks' h.2]

theorem attrs_congr (v v' : Value) (ks ks' : List Tree) (h : ks.map Tree.value = ks'.map Tree.value) :
    (Tree.node v ks).attrs = (Tree.node v' ks').attrs := by
  have key : ∀ l : List Tree, (Tree.node v l).attrs =
      (((l.map Tree.value).dropWhile (fun x => x.category == .namespace)).takeWhile
        (fun x => x.category == .attribute)).filterMap (fun x => match x with
          | .attribute n s => some (n, s)
          | _ => none) := by
    intro l
    simp only [Tree.attrs, Tree.attributeNodes, Tree.kids, List.dropWhile_map, List.takeWhile_map,
      List.filterMap_map]
    rfl
  have key' : ∀ l : List Tree, (Tree.node v' l).attrs = (Tree.node v l).attrs := fun l => rfl
  rw [key, key', key, h]

theorem eraseKids_value (decls : List (Nat × Nat)) (toRemove : List Nat) (v : Value) (ks : List Tree) :
    (eraseOwn decls toRemove (.node v ks)).value = v := by
  rw [eraseOwn_node]; rfl

mutual
theorem rb_value (env : Env) : ∀ (x : Tree) (top : List (Nat × Nat)) (tr : Tracker),
    (rbWalk env top x tr).2.value = x.value
  | .node v ks, top, tr => by
    cases v with
    | element name => simp only [rbWalk]; exact eraseKids_value _ _ _ _
    | document => rfl
    | text s => rfl
    | pi a b => rfl
    | comment s => rfl
    | «attribute» a b => rfl
    | «namespace» a b => rfl
theorem rb_values (env : Env) : ∀ (ks : List Tree) (top : List (Nat × Nat)) (tr : Tracker),
    (rbWalk.rbList env top ks tr).2.map Tree.value = ks.map Tree.value
  | [], top, tr => by simp [rbWalk.rbList]
  | k :: ks, top, tr => by
    simp [rbWalk.rbList, rb_value env k top tr, rb_values env ks top _]
end

/-! ### Frames under the guard are plain concatenations -/

theorem pushTop_disjoint (W f : List (Nat × Nat))
    (h : ∀ p ∈ f.map Prod.fst, p ∉ W.map Prod.fst) : pushTop W f = W ++ f := by
  unfold pushTop
  cases f with
  | nil => simp
  | cons d rest =>
    simp only [List.isEmpty_cons, Bool.false_eq_true, ↓reduceIte, fullnameInfoNew]
    congr 1
    rw [List.filter_eq_self]
    intro ⟨p, n⟩ hp
    have hk : p ∉ (d :: rest).map Prod.fst := fun hm => h p hm (List.mem_map.2 ⟨(p, n), hp, rfl⟩)
    simp only [any_key_eq, lookup_none_of_not_mem_keys hk, Option.isSome_none, Bool.not_false]

theorem mem_dedupToRemove {top : List (Nat × Nat)} {tracker : Tracker} {decls : List (Nat × Nat)}
    {ns : Nat} : ns ∈ dedupToRemove top tracker decls ↔
      (∃ p, (p, ns) ∈ decls) ∧ ns ≠ Env.noNamespace ∧ knownIn top ns = true ∧
        trackerIsSafeToRemove ns tracker = true := by
  simp only [dedupToRemove, List.mem_filterMap, FStack.isNamespaceKnown, FStack.top,
    List.headD_cons, knownIn]
  constructor
  · rintro ⟨⟨p, n⟩, hm, h⟩
    by_cases hc : (n != Env.noNamespace && (top.any fun x => x.snd == n) &&
        trackerIsSafeToRemove n tracker) = true
    · simp only [hc, ↓reduceIte, Option.some.injEq] at h
      subst h
      simp only [Bool.and_eq_true, bne_iff_ne, ne_eq] at hc
      exact ⟨⟨p, hm⟩, hc.1.1, hc.1.2, hc.2⟩
    · simp [hc] at h
  · rintro ⟨⟨p, hm⟩, h0, h1, h2⟩
    exact ⟨(p, ns), hm, by simp [h0, h1, h2]⟩

/-- What the rebuilt element keeps: its declarations are a sublist of the original ones, every
    declaration whose namespace is not in `toRemove` survives, attributes and the
    writability of the children are untouched. -/
theorem eraseKids_facts (env : Env) (top : List (Nat × Nat)) (v : Value) (ks ks' : List Tree)
    (toRemove : List Nat) (hv : ks'.map Tree.value = ks.map Tree.value)
    (hnd : ((declsOfKids ks).map Prod.fst).Nodup) :
    (declsOfKids (eraseKids (declsOfKids ks) toRemove ks')).Sublist (declsOfKids ks) ∧
    (∀ kv ∈ declsOfKids ks, kv.2 ∉ toRemove →
      kv ∈ declsOfKids (eraseKids (declsOfKids ks) toRemove ks')) ∧
    (Tree.node v (eraseKids (declsOfKids ks) toRemove ks')).attrs = (Tree.node v ks).attrs ∧
    (wr.wrList env top ks' = true →
      wr.wrList env top (eraseKids (declsOfKids ks) toRemove ks') = true) := by
  have hd : declsOfKids ks' = declsOfKids ks := declsOfKids_congr _ _ hv
  refine ⟨?_, ?_, ?_, ?_⟩
  · apply eraseKids_induction (P := fun l => (declsOfKids l).Sublist (declsOfKids ks))
    · intro p ns _ _ l hl; exact (declsOfKids_removeNsKid p l).trans hl
    · rw [hd]; exact List.Sublist.refl _
  · intro kv hkv hnot
    apply eraseKids_induction (P := fun l => kv ∈ declsOfKids l)
    · intro p ns hns hp l hl
      apply mem_declsOfKids_removeNsKid p kv l hl
      intro hkp
      have h1 := (mem_iff_lookup_of_nodup _ hnd kv.1 kv.2).1 hkv
      have h2 := (mem_iff_lookup_of_nodup _ hnd p ns).1 hp
      rw [hkp, h2] at h1
      simp only [Option.some.injEq] at h1
      exact hnot (h1 ▸ hns)
    · rw [hd]; exact hkv
  · apply eraseKids_induction (P := fun l => (Tree.node v l).attrs = (Tree.node v ks).attrs)
    · intro p ns _ _ l hl; rw [attrs_removeNsKid]; exact hl
    · exact attrs_congr v v ks' ks hv
  · intro hw
    apply eraseKids_induction (P := fun l => wr.wrList env top l = true)
    · intro p ns _ _ l hl; exact wrList_removeNsKid env top p l hl
    · exact hw

end XotModel
