/-
  FspecAllRepl6 — C05 for `replace`, pair reading: the theorem, for EVERY forest with `Forest.Inv`
  (adjacent text nodes allowed).

  * `PutSite.final_next`, `PutSite.final_last`: the last step of `replace` on the forest
    `(replMid …).mergeNewAt q new` gives `(replMid …).mergeNew3At q new`;
  * `replace_pair`: a successful `replace(a, b)` is `Spec.specReplaceP a b f`, handle for handle —
    the reading the property demands, on every forest, every geometry (xot 609b613: the last
    consolidation looks from the node that followed the replaced node, so it also finds the text node
    that took in the replacing text when the former left neighbour has been merged away).
  * `PutSite.pairK_eq_pairP`, `replace_last_eq_old`: the consolidation of the two FORMER neighbours
    of the replaced node (what xot did before 609b613, and what the lemmas about `Forest.Normal`
    forests in `FspecReplGap*.lean` are stated with) gives the same forest outside the corner
    `x new p old z` (all text) — in particular on every forest without adjacent text nodes.
-/
import XotModel.Lemmas.FspecAllRepl5

namespace XotModel
open HTree Spec PairAll

/-- A normal child of an ordered child list without a next sibling is the last child. -/
theorem nextOf_none_nil {l : List HTree} {A : HTree} {r : List HTree} (hord : kidsOrdered (l ++ A :: r) = true)
    (hAn : A.value.isNormal = true) (h : nextOf r A = none) : r = [] := by
  cases r with
  | nil => rfl
  | cons R r2 =>
    exfalso
    have hA2 : A.value.category.rank = 2 := rank_normal.2 (isNormal_iff.1 hAn)
    have := kidsOrdered_rank_le _ (kidsOrdered_drop l hord) R List.mem_cons_self
    rw [hA2] at this
    have hR : R.value.category = .normal := rank_normal.1 (Nat.le_antisymm (rank_le_two _) this)
    simp [nextOf, hR, isNormal_iff.1 hAn] at h

namespace PutSite
variable {f : Forest} {a b q : Nat} {vq : Value} {l r : List HTree} {t : HTree} {lX rX : List HTree}

/-- **xot's last step (since 609b613) when the replaced node had a next sibling** `N`: the node `N`
    is consolidated with whatever stands before it now — the text node that took in the replacing
    text, also when that is not the former left neighbour of the replaced node (which may have been
    merged away when the replacing node left).  Together with `mergeNew` that is `mergeNew3`. -/
theorem final_next (ps : PutSite f a b q vq l r t lX rX) (ht : t.handle = b) (hlX : lX ≠ [])
    {N : HTree} {r0 : List HTree} (er : r = N :: r0) :
    (((replMid f a b q t).mergeNewAt q b).removeConsolidate
        (((replMid f a b q t).mergeNewAt q b).prevSibling N.handle) (some N.handle)).1 =
      (replMid f a b q t).mergeNew3At q b := by
  subst ht
  cases hc : f.consolidation with
  | false =>
    have cX : (replMid f a t.handle q t).consolidation = false := by rw [replMid_consolidation]; exact hc
    have c2 := cons2 f a t.handle q t
    rw [hc] at c2
    rw [Forest.removeConsolidate_off c2, Forest.mergeNewAt_off cX]
    unfold Forest.mergeNew3At
    rw [cX]
    rfl
  | true =>
    have cX : (replMid f a t.handle q t).consolidation = true := by rw [replMid_consolidation]; exact hc
    have c2 := cons2 f a t.handle q t
    rw [hc] at c2
    have s2 := ps.site2 hc
    obtain ⟨tl, tr⟩ := ps.tops rfl
    obtain ⟨l1, x', elX⟩ : ∃ l1 x', lX = l1 ++ [x'] := by
      rcases List.eq_nil_or_concat lX with e | ⟨l1, x', e⟩
      · exact absurd e hlX
      · exact ⟨l1, x', by rw [e, List.concat_eq_append]⟩
    rcases ps.right with ⟨e1, _⟩ | ⟨N0, r0', N', r1, e1, erX, hN, hNt⟩
    · rw [er] at e1; cases e1
    · have eN : N0 = N := by
        rw [er] at e1
        injection e1 with h _
        exact h.symm
      subst eN
      subst elX erX
      have hl1 : ∀ k ∈ l1, k.handle ≠ t.handle := fun k hk => tl k (by simp [hk])
      have hx't : x'.handle ≠ t.handle := tl x' (by simp)
      have eM : (l1 ++ [x']) ++ t :: N' :: r1 = l1 ++ x' :: t :: N' :: r1 := by simp
      have hleafN : ∀ k ∈ N' :: r1, k.value.isText = true → k.kids = [] := ps.leafR
      unfold Forest.mergeNew3At
      rw [cX, if_pos rfl, ← hN]
      by_cases hb : x'.value.isText = true ∧ t.value.isText = true
      · -- the replacing text has been merged into the text node before it
        obtain ⟨s, hs⟩ := text_of_isText hb.1
        obtain ⟨v, hv⟩ := text_of_isText hb.2
        rw [eM, mergeNew_mid_left hs hv l1 (N' :: r1) hl1 hx't] at s2
        have s2' : SiteAt ((replMid f a t.handle q t).mergeNewAt q t.handle) q vq
            ((l1 ++ [x'.setValue (.text (s ++ v))]) ++ N' :: r1) := by
          have : (l1 ++ [x'.setValue (.text (s ++ v))]) ++ N' :: r1 = l1 ++ x'.setValue (.text (s ++ v)) :: N' :: r1 := by
            simp
          rw [this]; exact s2
        by_cases hNt' : N'.value.isText = true
        · obtain ⟨w, hw⟩ := text_of_isText hNt'
          rw [prevStep_merge s2' c2 (setValue_value _ _) hw hleafN, Forest.mergeNewAt_on cX, Forest.editAt_editAt]
          apply ps.site.congr
          simp only [Function.comp]
          rw [eM, mergeNew3_mid (N' :: r1) l1 hl1 hx't, joinLeft_text hs hv]
          simp only [Option.map_some, Option.getD_some]
          rw [absorbNext_cons, joinLeft_text (setValue_value _ _) hw]
          rfl
        · rw [prevStep_noop s2' (fun h => hNt' h.2), Forest.mergeNewAt_on cX]
          apply ps.site.congr
          rw [eM, mergeNew_mid (N' :: r1) l1 hl1 hx't, mergeNew3_mid (N' :: r1) l1 hl1 hx't, joinLeft_text hs hv]
          simp only [Option.map_some, Option.getD_some]
          rw [absorbNext_cons, joinLeft_none (fun h => hNt' h.2)]
          rfl
      · -- the replacing node stands behind its left neighbour, unmerged: nothing left to do
        have hspec : (replMid f a t.handle q t).editAt (some q) (mergeNew3 t.handle) =
            (replMid f a t.handle q t).mergeNewAt q t.handle := by
          rw [Forest.mergeNewAt_on cX]
          apply ps.site.congr
          rw [eM, mergeNew_mid (N' :: r1) l1 hl1 hx't, mergeNew3_mid (N' :: r1) l1 hl1 hx't, joinLeft_none hb]
          rfl
        rw [hspec]
        rw [eM, mergeNew_mid_right hb l1 (N' :: r1) hl1 hx't] at s2
        by_cases hb2 : t.value.isText = true ∧ N'.value.isText = true
        · obtain ⟨u, hu⟩ := text_of_isText hb2.1
          obtain ⟨w, hw⟩ := text_of_isText hb2.2
          rw [mergeNewHead_text hu hw] at s2
          have s2' : SiteAt ((replMid f a t.handle q t).mergeNewAt q t.handle) q vq
              ((l1 ++ [x']) ++ N'.setValue (.text (u ++ w)) :: r1) := by
            have : (l1 ++ [x']) ++ N'.setValue (.text (u ++ w)) :: r1 = l1 ++ x' :: N'.setValue (.text (u ++ w)) :: r1 := by
              simp
            rw [this]; exact s2
          have := prevStep_noop s2' (fun h => hb ⟨h.1, hb2.1⟩)
          rw [setValue_handle] at this
          exact this
        · rw [mergeNewHead_other hb2] at s2
          have s2' : SiteAt ((replMid f a t.handle q t).mergeNewAt q t.handle) q vq
              (((l1 ++ [x']) ++ [t]) ++ N' :: r1) := by
            have : ((l1 ++ [x']) ++ [t]) ++ N' :: r1 = l1 ++ x' :: t :: N' :: r1 := by simp
            rw [this]; exact s2
          exact prevStep_noop s2' hb2

/-- The replaced node was the last child: after `mergeNew` nothing is left to do (`mergeNew3`). -/
theorem final_last (ps : PutSite f a b q vq l r t lX rX) (ht : t.handle = b) (er : r = []) :
    (replMid f a b q t).mergeNewAt q b = (replMid f a b q t).mergeNew3At q b := by
  subst ht
  unfold Forest.mergeNew3At Forest.mergeNewAt
  split
  · obtain ⟨tl, tr⟩ := ps.tops rfl
    rcases ps.right with ⟨_, erX⟩ | ⟨N0, r0', N', r1, e1, _, _, _⟩
    · subst erX
      apply ps.site.congr
      rcases List.eq_nil_or_concat lX with e | ⟨l1, x', e⟩
      · subst e
        simp only [List.nil_append]
        rw [mergeNew_head [] (fun _ h => by cases h), mergeNew3_head [] (fun _ h => by cases h)]
      · rw [List.concat_eq_append] at e
        subst e
        have hl1 : ∀ k ∈ l1, k.handle ≠ t.handle := fun k hk => tl k (by simp [hk])
        have hx't : x'.handle ≠ t.handle := tl x' (by simp)
        have eM : (l1 ++ [x']) ++ [t] = l1 ++ x' :: t :: [] := by simp
        rw [eM, mergeNew_mid [] l1 hl1 hx't, mergeNew3_mid [] l1 hl1 hx't]
        cases joinLeft x' t <;> rfl
    · rw [er] at e1; cases e1
  · rfl

/-- The pair merge of the two former neighbours of the replaced node after `mergeNew` is `mergeNew3`
    — outside the corner (`mergeK_eq_mergeP`), as forests. -/
theorem pairK_eq_pairP (ps : PutSite f a b q vq l r t lX rX) (ht : t.handle = b)
    (hcorner : ∀ u x P N r0, l = u ++ x :: t :: [P] → r = N :: r0 → f.consolidation = true →
      x.value.isText = true → P.value.isText = true → ¬ (t.value.isText = true ∧ N.value.isText = true)) :
    ((replMid f a b q t).mergeNewAt q b).mergeLeftAt (some q)
      (l.getLast?.map (·.handle), r.head?.map (·.handle)) = (replMid f a b q t).mergeNew3At q b := by
  cases hc : f.consolidation with
  | false =>
    have cX : (replMid f a b q t).consolidation = false := by rw [replMid_consolidation]; exact hc
    rw [Forest.mergeNewAt_off cX, Forest.mergeLeftAt_off cX]
    unfold Forest.mergeNew3At
    rw [cX]
    rfl
  | true =>
    have cX : (replMid f a b q t).consolidation = true := by rw [replMid_consolidation]; exact hc
    have c2 : ((replMid f a b q t).mergeNewAt q b).consolidation = true := by
      rw [PutSite.cons2]; exact hc
    rw [mergeLeftAt_eq_adjOpt c2, Forest.mergeNewAt_on cX, Forest.editAt_editAt]
    unfold Forest.mergeNew3At
    rw [cX, if_pos rfl]
    apply ps.site.congr
    simp only [Function.comp]
    exact ps.mergeK_eq_mergeP ht hcorner

end PutSite

/-- **replace**, pair reading as the property demands it: every forest with the invariant, every
    geometry. -/
theorem replace_pair {f : Forest} {a b : Nat} (inv : f.Inv) (hok : (f.replace a b).2 = .ok) :
    (f.replace a b).1 = specReplaceP a b f := by
  obtain ⟨q, vq, l, A, r, t, ra, h⟩ := replace_unpack inv hok
  unfold specReplaceP
  rcases h with ⟨hadj, heq⟩ | ⟨⟨h1, h2⟩, heq⟩
  · rw [heq, ra.adjacent_true hadj, if_pos rfl]
    exact remove_pair inv (Forest.isLive_of_get ra.live_a)
  · rw [ra.adjacent_false h1 h2]
    simp only [Bool.false_eq_true, if_false]
    rw [ra.hgb, Forest.parent?_of_ctx ra.ctx_a]
    show (f.replace a b).1 = (replMid f a b q t).mergeNew3At q b
    obtain ⟨lX, rX, ps⟩ := ra.putSite inv h1 h2
    have hord : kidsOrdered (l ++ A :: r) = true := (validTree_node (ra.sq.valid inv.valid)).2.1
    cases hp : prevOf l A with
    | none =>
      rw [hp] at heq
      simp only at heq
      rw [heq] at hok ⊢
      rw [ra.first_eq inv hp h1 h2 hok]
      -- the raw left neighbour, if any, is not a text node: nothing but `mergeNew` happens
      have hnt : ∀ P, l.getLast? = some P → P.value.isText = false := by
        intro P hP
        obtain ⟨ln, _⟩ := ordered_first hord ra.hAn hp
        have hn := ln P (List.mem_of_getLast? hP)
        cases hPt : P.value.isText with
        | false => rfl
        | true => rw [PairAfter.text_normal hPt] at hn; cases hn
      rw [← ps.final_first ra.hb hnt]
      apply ps.pairK_eq_pairP ra.hb
      intro u x P N r0 el _ _ _ hPt _
      have := hnt P (by rw [el]; simp)
      rw [hPt] at this
      cases this
    | some p =>
      rw [hp] at heq
      simp only at heq
      rcases hia : (f.editAt (some q) (dropTop a)).insertAfter p b with ⟨f2, res⟩
      rw [hia] at heq
      have hres : res = .ok := by
        cases res with
        | ok => rfl
        | err e => rw [heq] at hok; cases hok
        | panic => rw [heq] at hok; cases hok
      subst hres
      simp only at heq
      have hok1 : ((f.editAt (some q) (dropTop a)).insertAfter p b).2 = .ok := by rw [hia]
      have hf2 := ra.after_eq inv hp h1 h2 hok1
      rw [hia] at hf2
      simp only at hf2
      subst hf2
      obtain ⟨l2, P, el, _, _⟩ := prevOf_eq_some hp
      have hlX : lX ≠ [] := by
        rcases ps.left with (⟨e1, _⟩ | ⟨_, _, l1, P', _, e2, _, _⟩) | ⟨_, _, _, _, l1, x', _, _, _, e2, _⟩
        · rw [el] at e1; simp at e1
        · rw [e2]; simp
        · rw [e2]; simp
      cases hn : nextOf r A with
      | none =>
        rw [hn] at heq
        simp only at heq
        rw [heq]
        exact ps.final_last ra.hb (nextOf_none_nil hord ra.hAn hn)
      | some n =>
        rw [hn] at heq
        simp only at heq
        rw [heq]
        obtain ⟨N, r0, er, hN, _⟩ := nextOf_eq_some hn
        subst hN
        exact ps.final_next ra.hb hlX er

/-- The last step of `replace` (`remove_consolidate(previous_sibling(next), next)`, xot 609b613) and
    the consolidation of the former left neighbour `p` of the replaced node with its next sibling
    (what xot did before) give the same forest, unless `p` has been merged away and the replacing
    text node stands between two text nodes (the corner of the former finding
    `C05:replace-selfmerge-leaves-adjacent-text`). -/
theorem replace_last_eq_old {f : Forest} {a b q : Nat} {vq : Value} {l : List HTree} {A : HTree}
    {r : List HTree} {t : HTree} (ra : ReplArgs f a b q vq l A r t) (inv : f.Inv)
    (h1 : prevOf l A ≠ some b) (h2 : nextOf r A ≠ some b) {p : Nat} (hp : prevOf l A = some p)
    {f2 : Forest} (hia : (f.editAt (some q) (dropTop a)).insertAfter p b = (f2, .ok))
    (hcorner : ∀ u x P N r0, l = u ++ x :: t :: [P] → r = N :: r0 → f.consolidation = true →
      x.value.isText = true → P.value.isText = true → ¬ (t.value.isText = true ∧ N.value.isText = true)) :
    (match nextOf r A with
     | some n => (f2.removeConsolidate (f2.prevSibling n) (some n)).1
     | none => f2) = (f2.removeConsolidate (some p) (f2.nextSibling p)).1 := by
  obtain ⟨lX, rX, ps⟩ := ra.putSite inv h1 h2
  have hord : kidsOrdered (l ++ A :: r) = true := (validTree_node (ra.sq.valid inv.valid)).2.1
  have hleaft : t.value.isText = true → t.kids = [] := leaf_of_text inv.valid ra.hgb
  have hok1 : ((f.editAt (some q) (dropTop a)).insertAfter p b).2 = .ok := by rw [hia]
  have hf2 := ra.after_eq inv hp h1 h2 hok1
  rw [hia] at hf2
  simp only at hf2
  subst hf2
  obtain ⟨l2, P, el, hP, _⟩ := prevOf_eq_some hp
  subst hP
  have hlX : lX ≠ [] := by
    rcases ps.left with (⟨e1, _⟩ | ⟨_, _, l1, P', _, e2, _, _⟩) | ⟨_, _, _, _, l1, x', _, _, _, e2, _⟩
    · rw [el] at e1; simp at e1
    · rw [e2]; simp
    · rw [e2]; simp
  rw [ps.final_after ra.hb hleaft el, ps.pairK_eq_pairP ra.hb hcorner]
  cases hn : nextOf r A with
  | none => exact ps.final_last ra.hb (nextOf_none_nil hord ra.hAn hn)
  | some n =>
    obtain ⟨N, r0, er, hN, _⟩ := nextOf_eq_some hn
    subst hN
    exact ps.final_next ra.hb hlX er

end XotModel
