/-
  FspecAllRepl6 — C05 for `replace`, pair reading: the theorems, for EVERY forest with `Forest.Inv`
  (adjacent text nodes allowed).

  * `replace_pairK`: a successful `replace(a, b)` is `Spec.specReplaceK a b f`, handle for handle.
  * `specReplaceK_eq_specReplaceP`: outside the corner `Spec.selfMergeReplace` that is the reading
    the property demands, `Spec.specReplaceP a b f`.
  * `replace_pair_partial`: hence `replace(a, b) = specReplaceP a b f` outside the corner.
-/
import XotModel.Lemmas.FspecAllRepl5

namespace XotModel
open HTree Spec PairAll

/-- **replace**, pair reading as xot does it: every forest with the invariant, every geometry. -/
theorem replace_pairK {f : Forest} {a b : Nat} (inv : f.Inv) (hok : (f.replace a b).2 = .ok) :
    (f.replace a b).1 = specReplaceK a b f := by
  obtain ⟨q, vq, l, A, r, t, ra, h⟩ := replace_unpack inv hok
  unfold specReplaceK
  rcases h with ⟨hadj, heq⟩ | ⟨⟨h1, h2⟩, heq⟩
  · rw [heq, ra.adjacent_true hadj, if_pos rfl]
    exact remove_pair inv (Forest.isLive_of_get ra.live_a)
  · rw [ra.adjacent_false h1 h2]
    simp only [Bool.false_eq_true, if_false]
    rw [ra.hgb, Forest.parent?_of_ctx ra.ctx_a]
    simp only
    rw [ra.nb_a]
    show (f.replace a b).1 = ((replMid f a b q t).mergeNewAt q b).mergeLeftAt (some q)
      (l.getLast?.map (·.handle), r.head?.map (·.handle))
    obtain ⟨lX, rX, ps⟩ := ra.putSite inv h1 h2
    have hleaft : t.value.isText = true → t.kids = [] := leaf_of_text inv.valid ra.hgb
    cases hp : prevOf l A with
    | none =>
      rw [hp] at heq
      simp only at heq
      rw [heq] at hok ⊢
      rw [ra.first_eq inv hp h1 h2 hok]
      symm
      apply ps.final_first ra.hb
      intro P hP
      have hord : kidsOrdered (l ++ A :: r) = true := (validTree_node (ra.sq.valid inv.valid)).2.1
      obtain ⟨ln, _⟩ := ordered_first hord ra.hAn hp
      have hn := ln P (List.mem_of_getLast? hP)
      cases hPt : P.value.isText with
      | false => rfl
      | true => rw [PairAfter.text_normal hPt] at hn; cases hn
    | some p =>
      rw [hp] at heq
      simp only at heq
      rcases hia : (f.editAt (some q) (dropTop a)).insertAfter p b with ⟨f2, res⟩
      rw [hia] at heq
      have hres : res = .ok := by
        cases res with
        | ok => rfl
        | err e => rw [heq] at hok; cases hok
        | panic => rw [heq] at hok; cases hok
      subst hres
      simp only at heq
      rw [heq]
      have hok1 : ((f.editAt (some q) (dropTop a)).insertAfter p b).2 = .ok := by rw [hia]
      have hf2 := ra.after_eq inv hp h1 h2 hok1
      rw [hia] at hf2
      simp only at hf2
      subst hf2
      obtain ⟨l2, P, el, hP, _⟩ := prevOf_eq_some hp
      subst hP
      simp only
      exact ps.final_after ra.hb hleaft el

/-- Outside the corner `selfMergeReplace`, what xot does is what the property demands. -/
theorem specReplaceK_eq_specReplaceP {f : Forest} {a b : Nat} (inv : f.Inv) (hok : (f.replace a b).2 = .ok)
    (hcorner : selfMergeReplace f a b = false) : specReplaceK a b f = specReplaceP a b f := by
  obtain ⟨q, vq, l, A, r, t, ra, h⟩ := replace_unpack inv hok
  unfold specReplaceK specReplaceP
  rcases h with ⟨hadj, _⟩ | ⟨⟨h1, h2⟩, _⟩
  · rw [ra.adjacent_true hadj, if_pos rfl, if_pos rfl]
  · rw [ra.adjacent_false h1 h2]
    simp only [Bool.false_eq_true, if_false]
    rw [ra.hgb, Forest.parent?_of_ctx ra.ctx_a]
    simp only
    rw [ra.nb_a]
    show ((replMid f a b q t).mergeNewAt q b).mergeLeftAt (some q)
      (l.getLast?.map (·.handle), r.head?.map (·.handle)) = (replMid f a b q t).mergeNew3At q b
    obtain ⟨lX, rX, ps⟩ := ra.putSite inv h1 h2
    cases hc : f.consolidation with
    | false =>
      have cX : (replMid f a b q t).consolidation = false := by rw [replMid_consolidation]; exact hc
      rw [Forest.mergeNewAt_off cX, Forest.mergeLeftAt_off cX]
      unfold Forest.mergeNew3At
      rw [cX]
      rfl
    | true =>
      have cX : (replMid f a b q t).consolidation = true := by rw [replMid_consolidation]; exact hc
      have c2 : ((replMid f a b q t).mergeNewAt q b).consolidation = true := by
        rw [PutSite.cons2]; exact hc
      rw [mergeLeftAt_eq_adjOpt c2, Forest.mergeNewAt_on cX, Forest.editAt_editAt]
      unfold Forest.mergeNew3At
      rw [cX, if_pos rfl]
      apply ps.site.congr
      simp only [Function.comp]
      apply ps.mergeK_eq_mergeP ra.hb
      intro u x P N r0 el er _ hxt hPt ⟨htt, hNt⟩
      -- the geometry of the corner
      have s' : SiteAt f q vq ((u ++ [x]) ++ t :: (P :: A :: N :: r0)) := by
        have e : (u ++ [x]) ++ t :: (P :: A :: N :: r0) = l ++ A :: r := by rw [el, er]; simp
        rw [e]; exact ra.sq
      have hctx := s'.ctx
      rw [ra.hb] at hctx
      have : selfMergeReplace f a b = true := by
        unfold selfMergeReplace
        rw [hc, hctx]
        simp [htt, hxt, hPt, hNt, ra.ha]
      rw [this] at hcorner
      cases hcorner

/-- **replace**, pair reading as the property demands it — outside the corner `selfMergeReplace`. -/
theorem replace_pair_partial {f : Forest} {a b : Nat} (inv : f.Inv) (hok : (f.replace a b).2 = .ok)
    (hcorner : selfMergeReplace f a b = false) : (f.replace a b).1 = specReplaceP a b f := by
  rw [replace_pairK inv hok, specReplaceK_eq_specReplaceP inv hok hcorner]

end XotModel
