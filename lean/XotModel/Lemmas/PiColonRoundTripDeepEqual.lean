/-
  GENERATED COPY (wt-c17str) of the declarations of XotModel.Lemmas.RoundTripDeepEqual that depend on `valueOK`, restated in the
  namespace `XotModel.PiColon`, where `valueOK` asks of a PI target what the tokenizer's `consume_name` accepts
  (`nameOK`: colons allowed) instead of an NCName (Lemmas/PiColonDefs.lean).  Proof texts unchanged except where noted.
-/
import XotModel.Lemmas.RoundTripDeepEqual
import XotModel.Lemmas.PiColonRoundTripSerialises

namespace XotModel.PiColon

variable {env : Env}

theorem valid_of_nodeOK : ∀ (n : Tree), n.allNodes (nodeOK env) = true → n.valid = true
  | .node v ks, hn => by
    have hnode : nodeOK env v ks = true := by
      rw [allNodes_node, Bool.and_eq_true] at hn; exact hn.1
    obtain ⟨hord, hkinds, huniq, _, _⟩ := (nodeOK_iff env v ks).mp hnode
    have hlist : ∀ (l : List Tree), (∀ k ∈ l, k ∈ ks) → Tree.valid.validList l = true := by
      intro l
      induction l with
      | nil => intro _; rfl
      | cons k l ih =>
        intro hsub
        simp only [Tree.valid.validList, Bool.and_eq_true]
        exact ⟨valid_of_nodeOK k (allNodes_kid hn (hsub k (by simp))), ih (fun k' hk' => hsub k' (by simp [hk']))⟩
    simp only [Tree.valid, Bool.and_eq_true, Bool.or_eq_true]
    refine ⟨⟨⟨orderedKids_of_ordered ks hord, ?_⟩, ?_⟩, hlist ks (fun k hk => hk)⟩
    · simp only [attrNamesNodup, decide_eq_true_eq, attrPairs_eq_kidAttrs]
      have := kidAttrs_fst ks
      simp only [attrNames] at this
      rw [show (kidAttrs ks).map (fun x => x.1) = (kidAttrs ks).map Prod.fst from rfl, kidAttrs_fst]
      exact huniq.1
    · by_cases hnorm : v.isNormal = true
      · exact Or.inl hnorm
      · right
        have := hkinds.1 (abnormal_leafKind (by simpa using hnorm))
        simp [this]
termination_by n => sizeOf n
decreasing_by
  simp_wf
  have := List.sizeOf_lt_of_mem (hsub k (by simp))
  omega

end XotModel.PiColon
