/-
  `NodeEdge::previous` stepping enumerates `reverse_traverse` (well-formed trees, normal start node).
-/
import XotModel.Lemmas.AxesEdges

namespace XotModel.Axes

theorem reverseTraverse_eq (t : Tree) (π : Path) : reverseTraverse t π = (traverse t π).reverse := by
  simp [reverseTraverse, arenaReverseTraverse, traverse, List.filter_reverse]

/-- Continue the backward walk from an optional edge. -/
def contP (t : Tree) (m : Nat) : Option Edge → List Edge
  | none => []
  | some e => edgeWalk (Edge.previous t) m e

@[simp] theorem contP_none (t : Tree) (m : Nat) : contP t m none = [] := rfl

theorem contP_succ (t : Tree) (m : Nat) (e : Edge) :
    contP t (m + 1) (some e) = e :: contP t m (Edge.previous t e) := by
  simp only [contP, edgeWalk]
  cases Edge.previous t e <;> rfl

/-- What the backward walk does from the end edge of a normal node with subtree `s`. -/
def BwdSub (t : Tree) (s : Tree) : Prop :=
  ∀ (π : Path) (m : Nat), t.at? π = some s → s.value.isNormal = true →
    contP t ((traverse t π).length + m) (some (.stop π)) =
      (traverse t π).reverse ++ contP t m (Edge.previous t (.start π))

theorem previous_start_snoc (t : Tree) (π : Path) (i : Nat) :
    Edge.previous t (.start (π ++ [i])) =
      if i = 0 then some (.start π)
      else if categoryAt t (π ++ [i - 1]) == categoryAt t (π ++ [i]) then some (.stop (π ++ [i - 1]))
      else some (.start π) := by
  simp only [Edge.previous, previousSibling_snoc]
  by_cases h0 : i = 0
  · simp [h0]
  · simp only [h0, if_false]
    by_cases hc : (categoryAt t (π ++ [i - 1]) == categoryAt t (π ++ [i])) = true
    · simp [hc]
    · simp [hc]

theorem kidEdges_take_succ {t : Tree} {π : Path} {v : Value} {all : List Tree}
    (h : t.at? π = some (.node v all)) {i : Nat} (hi : i < all.length) :
    kidEdges t π 0 (all.take (i + 1)) = kidEdges t π 0 (all.take i) ++ traverse t (π ++ [i]) := by
  have hk : all[i]? = some all[i] := List.getElem?_eq_getElem hi
  rw [List.take_add_one, hk, kidEdges_append]
  have : (all.take i).length = i := by simp; omega
  simp only [Option.toList_some, this, Nat.zero_add]
  rw [kidEdges_cons h hk]; simp

/-- If child `i` is not normal, the children `0..i` (non-normal leaves) contribute no edge. -/
theorem kidEdges_take_abnormal {t : Tree} {π : Path} {v : Value} {all : List Tree}
    (h : t.at? π = some (.node v all)) (hord : kidsOrdered all = true) (hwl : wfList all = true)
    {i : Nat} (hi : i < all.length) (hab : all[i].value.isNormal = false) :
    kidEdges t π 0 (all.take (i + 1)) = [] := by
  apply kidEdges_abnormal h _ 0
  · intro j k hj
    rw [Nat.zero_add]
    rw [List.getElem?_take] at hj
    split at hj
    · exact hj
    · cases hj
  · intro k hk
    obtain ⟨j, hj, rfl⟩ := List.getElem_of_mem hk
    have hjlt : j < i + 1 := by simp at hj; omega
    have hjall : j < all.length := by omega
    have e : (all.take (i + 1))[j] = all[j] := by simp
    rw [e]
    have hjab : all[j].value.isNormal = false := by
      cases hn : all[j].value.isNormal
      · rfl
      · have := kidsOrdered_mono all hord j i _ _ (by omega) (List.getElem?_eq_getElem hjall)
          (List.getElem?_eq_getElem hi) hn
        rw [hab] at this; cases this
    exact ⟨hjab, abnormal_leaf_of_wf (wfList_mem all _ hwl (List.getElem_mem hjall)) hjab⟩

/-- From the end edge of normal child `i` back through the children `i..0`, then `Start(π)`. -/
theorem bwd_kids {t : Tree} {π : Path} {v : Value} {all : List Tree}
    (h : t.at? π = some (.node v all)) (hord : kidsOrdered all = true) (hwl : wfList all = true)
    (hsub : ∀ k ∈ all, BwdSub t k) : ∀ (i : Nat) (hi : i < all.length) (m : Nat),
    all[i].value.isNormal = true →
    contP t ((kidEdges t π 0 (all.take (i + 1))).length + 1 + m) (some (.stop (π ++ [i]))) =
      (kidEdges t π 0 (all.take (i + 1))).reverse ++ .start π :: contP t m (Edge.previous t (.start π))
  | i, hi, m, hn => by
    have hk : all[i]? = some all[i] := List.getElem?_eq_getElem hi
    have hat : t.at? (π ++ [i]) = some all[i] := by rw [at?_snoc h, hk]
    rw [kidEdges_take_succ h hi, List.length_append, List.reverse_append]
    have := hsub all[i] (List.getElem_mem hi) (π ++ [i])
      ((kidEdges t π 0 (all.take i)).length + 1 + m) hat hn
    rw [show (kidEdges t π 0 (all.take i)).length + (traverse t (π ++ [i])).length + 1 + m =
      (traverse t (π ++ [i])).length + ((kidEdges t π 0 (all.take i)).length + 1 + m) by omega,
      this, previous_start_snoc, List.append_assoc]
    congr 1
    cases i with
    | zero =>
      simp only [if_true, List.take_zero, kidEdges_nil, List.length_nil, Nat.zero_add, List.reverse_nil,
        List.nil_append]
      rw [Nat.add_comm 1 m, contP_succ]
    | succ i =>
      have hi' : i < all.length := by omega
      have hk' : all[i]? = some all[i] := List.getElem?_eq_getElem hi'
      simp only [Nat.add_one_ne_zero, if_false, Nat.add_sub_cancel]
      rw [categoryAt_snoc h hk', categoryAt_snoc h hk]
      by_cases hc : (all[i].value.category == all[i + 1].value.category) = true
      · have hn' : all[i].value.isNormal = true := by
          simp only [Value.isNormal, beq_iff_eq] at hn ⊢
          rw [beq_iff_eq] at hc; rw [hc, hn]
        simp only [hc, if_true]
        exact bwd_kids h hord hwl hsub i hi' m hn'
      · have hab : all[i].value.isNormal = false := by
          cases hn' : all[i].value.isNormal
          · rfl
          · simp only [Value.isNormal, beq_iff_eq] at hn hn'
            rw [hn, hn'] at hc; simp at hc
        simp only [hc, Bool.false_eq_true, if_false]
        rw [kidEdges_take_abnormal h hord hwl hi' hab]
        simp only [List.length_nil, Nat.zero_add, List.reverse_nil, List.nil_append]
        rw [Nat.add_comm 1 m, contP_succ]

theorem kidPaths_concat (p : Path) (i : Nat) (l : List Tree) (x : Tree) :
    kidPaths p i (l ++ [x]) = kidPaths p i l ++ [(p ++ [i + l.length], x)] := by
  rw [kidPaths_append]; rfl

theorem lastChild_of {t : Tree} {π : Path} {v : Value} {l : List Tree} {x : Tree}
    (h : t.at? π = some (.node v (l ++ [x]))) :
    lastChild t π = if x.value.isNormal then some (π ++ [l.length]) else none := by
  unfold lastChild
  rw [allChildren_of_at? h, kidPaths_concat, List.getLast?_concat]
  simp [itemNormal]

theorem lastChild_of_nil {t : Tree} {π : Path} {v : Value}
    (h : t.at? π = some (.node v [])) : lastChild t π = none := by
  unfold lastChild
  rw [allChildren_of_at? h]; rfl

theorem bwdSub_all (t : Tree) (hw : wf t = true) : ∀ (n : Nat) (s : Tree), s.size ≤ n → BwdSub t s
  | 0, s, hs => by cases s; simp [Tree.size] at hs
  | n + 1, .node v all, hs => by
    intro π m h hn
    simp only [Tree.value] at hn
    have hws := wf_at? t π _ hw h
    simp only [wf, Bool.and_eq_true] at hws
    have hsub : ∀ k ∈ all, BwdSub t k := by
      intro k hk
      apply bwdSub_all t hw n k
      obtain ⟨i, hi, rfl⟩ := List.getElem_of_mem hk
      have := size_getElem?_le all i _ (List.getElem?_eq_getElem hi)
      simp [Tree.size] at hs; omega
    rw [traverse_node h hn]
    simp only [List.length_cons, List.length_append, List.length_nil, List.reverse_cons,
      List.reverse_append, List.reverse_nil, List.nil_append, List.cons_append]
    rw [show (kidEdges t π 0 all).length + (0 + 1) + 1 + m = ((kidEdges t π 0 all).length + 1 + m) + 1 by omega,
      contP_succ]
    congr 1
    rcases List.eq_nil_or_concat all with hnil | ⟨l, x, hl⟩
    · subst hnil
      simp only [Edge.previous, lastChild_of_nil h, kidEdges_nil, List.length_nil, Nat.zero_add,
        List.reverse_nil, List.nil_append]
      rw [Nat.add_comm 1 m, contP_succ]
      rfl
    · have hl' : all = l ++ [x] := by simpa using hl
      have hlen : l.length < all.length := by rw [hl']; simp
      have hx : all[l.length] = x := by simp [hl']
      have htake : all.take (l.length + 1) = all := by
        apply List.take_of_length_le; rw [hl']; simp
      have hlc : lastChild t π = if x.value.isNormal then some (π ++ [l.length]) else none := by
        subst hl'; exact lastChild_of h
      by_cases hxn : x.value.isNormal = true
      · have := bwd_kids h hws.1.2 hws.2 hsub l.length hlen m (by rw [hx]; exact hxn)
        rw [htake] at this
        simp only [Edge.previous, hlc, hxn, if_true]
        rw [this]; simp [Edge.previous]
      · have hab : all[l.length].value.isNormal = false := by rw [hx]; simpa using hxn
        have hnil := kidEdges_take_abnormal h hws.1.2 hws.2 hlen hab
        rw [htake] at hnil
        simp only [Edge.previous, hlc, hxn, Bool.false_eq_true, if_false, hnil, List.length_nil,
          Nat.zero_add, List.reverse_nil, List.nil_append]
        rw [Nat.add_comm 1 m, contP_succ]
        rfl

theorem bwdSub (t : Tree) (hw : wf t = true) (s : Tree) : BwdSub t s :=
  bwdSub_all t hw s.size s (Nat.le_refl _)

/-- `NodeEdge::previous` from `End(π)` (normal node of a well-formed tree) runs through
    `reverse_traverse(π)` and goes on with whatever precedes `Start(π)`. -/
theorem edgeWalk_previous_eq {t : Tree} {π : Path} (hw : wf t = true) (h : Valid t π)
    (hn : isNormalAt t π = true) (m : Nat) :
    edgeWalk (Edge.previous t) ((reverseTraverse t π).length + m) (.stop π) =
      reverseTraverse t π ++ contP t m (Edge.previous t (.start π)) := by
  rw [reverseTraverse_eq, List.length_reverse]
  exact bwdSub t hw (subAt t π) π m h.at? hn

theorem edgeWalk_previous_root {t : Tree} (hw : wf t = true) (hn : isNormalAt t [] = true) (m : Nat) :
    edgeWalk (Edge.previous t) ((reverseTraverse t []).length + m) (.stop []) = reverseTraverse t [] := by
  rw [edgeWalk_previous_eq hw (valid_nil t) hn]
  simp [Edge.previous, previousSibling, internalPreviousSibling]

end XotModel.Axes
