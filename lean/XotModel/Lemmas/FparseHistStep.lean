/-
  FparseHist, part 2: one step and whole histories of `PCall` (Model/FparseHist.lean).

    fph_step_inv / fph_run_inv      `Forest.Inv` is kept by every well-kinded step (API call or parse of ANY text)
    fph_step_le / fph_run_le        handles are never reused (`Forest.Le`)
    fph_api_refused / fph_parse_rejected / fph_parse_no_panic      C06: a refusal changes nothing
    fph_store_* / fph_idStore_*     the two older history types embed
    fph_index_below_*, fph_lookup_* the xml:id index along histories (without the uniqueness of keys:
                                    Lemmas/FparseHistIds.lean)
-/
import XotModel.Lemmas.FparseHistValid
import XotModel.Lemmas.FhistAtomic
import XotModel.Lemmas.FhistMono
import XotModel.Lemmas.ParseNoPanic
import XotModel.Lemmas.LexSlice

namespace XotModel
open HTree

namespace PStore

/-! ### Unfolding one step -/

theorem fph_step_api (s : PStore) (c : Forest.XCall) :
    s.step (.api c) = ⟨(s.store.xstep c).forest, (s.store.xstep c).env, s.index⟩ := rfl

theorem fph_store_step_api (s : PStore) (c : Forest.XCall) : (s.step (.api c)).store = s.store.xstep c := rfl

theorem fph_index_step_api (s : PStore) (c : Forest.XCall) : (s.step (.api c)).index = s.index := rfl

theorem fph_idStore_eta (s : PStore) : (⟨s.forest, s.index⟩ : IdStore) = s.idStore := rfl

/-- An accepted text: the tree is installed by `IdStore.parseInto`, the tables are the builder's. -/
theorem fph_run_parse_ok (s : PStore) {m : Mode} {text : Str} {p : Parsed}
    (h : parseString m s.env text = .ok p) :
    (PCall.parse m text).run s =
      (⟨(s.idStore.parseInto p.tree).1.forest, p.env, (s.idStore.parseInto p.tree).1.index⟩,
       .parsed (s.idStore.parseInto p.tree).2) := by
  simp only [PCall.run, h]

/-- A rejected text: forest and index as they were, the tables as the builder left them. -/
theorem fph_run_parse_err (s : PStore) {m : Mode} {text : Str} {e : ParseErr} {env' : Env}
    (h : parseString m s.env text = .err e env') :
    (PCall.parse m text).run s = ({ s with env := env' }, .rejected e) := by
  simp only [PCall.run, h]

theorem fph_step_parse_ok (s : PStore) {m : Mode} {text : Str} {p : Parsed}
    (h : parseString m s.env text = .ok p) :
    s.step (.parse m text) =
      ⟨(s.idStore.parseInto p.tree).1.forest, p.env, (s.idStore.parseInto p.tree).1.index⟩ := by
  unfold step; rw [fph_run_parse_ok s h]

theorem fph_step_parse_err (s : PStore) {m : Mode} {text : Str} {e : ParseErr} {env' : Env}
    (h : parseString m s.env text = .err e env') : s.step (.parse m text) = { s with env := env' } := by
  unfold step; rw [fph_run_parse_err s h]

/-- The parser does not panic (`C03_string_nopanic`). -/
theorem fph_parseString_cases (m : Mode) (env : Env) (text : Str) :
    (∃ p, parseString m env text = .ok p) ∨ (∃ e env', parseString m env text = .err e env') := by
  cases h : parseString m env text with
  | ok p => exact Or.inl ⟨p, rfl⟩
  | err e env' => exact Or.inr ⟨e, env', rfl⟩
  | panic =>
    exfalso
    unfold parseString at h
    have hs : TokenShape (strLen text) (lexMode m text).1 (lexMode m text).2 := by
      cases m
      · exact lexDocument_shape text
      · exact lexFragment_shape text
    exact build_np m (strLen text) env _ _ hs.tags h

/-- What a parse step does to the forest and the index: nothing, or `parseInto` of an accepted tree. -/
theorem fph_step_parse_cases (s : PStore) (m : Mode) (text : Str) :
    (∃ p, parseString m s.env text = .ok p ∧
      (s.step (.parse m text)).idStore = (s.idStore.parseInto p.tree).1 ∧ (s.step (.parse m text)).env = p.env) ∨
    (∃ e env', parseString m s.env text = .err e env' ∧
      (s.step (.parse m text)).idStore = s.idStore ∧ (s.step (.parse m text)).env = env') := by
  rcases fph_parseString_cases m s.env text with ⟨p, h⟩ | ⟨e, env', h⟩
  · exact Or.inl ⟨p, h, by rw [fph_step_parse_ok s h]; rfl, by rw [fph_step_parse_ok s h]⟩
  · exact Or.inr ⟨e, env', h, by rw [fph_step_parse_err s h]; rfl, by rw [fph_step_parse_err s h]⟩

/-! ### The invariant -/

/-- **One step keeps the forest invariant**: an API call (`Store.xstep_inv`) or the parse of any text
    — the tree an accepted text installs is valid (`fph_parseOK`), a rejected one installs nothing. -/
theorem fph_step_inv {s : PStore} (hi : s.forest.Inv) (c : PCall) (hw : c.wellKinded) :
    (s.step c).forest.Inv := by
  cases c with
  | api c => exact Store.xstep_inv (s := s.store) hi c hw
  | parse m text =>
    rcases fph_step_parse_cases s m text with ⟨p, h, h1, _⟩ | ⟨e, env', _, h1, _⟩
    · have : (s.step (.parse m text)).forest = (s.idStore.parseInto p.tree).1.forest := congrArg IdStore.forest h1
      rw [this]
      exact IdStore.inv_parseInto (s := s.idStore) hi p.tree (fph_parseOK s.idStore h)
    · have : (s.step (.parse m text)).forest = s.forest := congrArg IdStore.forest h1
      rw [this]; exact hi

theorem fph_run_cons (s : PStore) (c : PCall) (cs : List PCall) : s.run (c :: cs) = (s.step c).run cs := rfl

theorem fph_run_append (s : PStore) (cs ds : List PCall) : s.run (cs ++ ds) = (s.run cs).run ds := by
  unfold run; rw [List.foldl_append]

/-- **Every history keeps the invariant.** -/
theorem fph_run_inv : ∀ (cs : List PCall) {s : PStore}, s.forest.Inv → (∀ c ∈ cs, c.wellKinded) →
    (s.run cs).forest.Inv
  | [], _, hi, _ => hi
  | c :: cs, s, hi, hw =>
    fph_run_inv cs (s := s.step c) (fph_step_inv hi c (hw c (by simp))) (fun c' h' => hw c' (by simp [h']))

theorem fph_init_inv (env : Env) : (init env).forest.Inv := (Forest.inv_iff Forest.init).mp (by decide)

/-! ### Handles are never reused -/

theorem fph_step_le (s : PStore) (c : PCall) : Forest.Le s.forest (s.step c).forest := by
  cases c with
  | api c => exact Forest.le_xcall s.store c
  | parse m text =>
    rcases fph_step_parse_cases s m text with ⟨p, _, h1, _⟩ | ⟨e, env', _, h1, _⟩
    · have : (s.step (.parse m text)).forest = (s.idStore.parseInto p.tree).1.forest := congrArg IdStore.forest h1
      rw [this]; exact IdStore.le_parseInto s.idStore p.tree
    · have : (s.step (.parse m text)).forest = s.forest := congrArg IdStore.forest h1
      rw [this]; exact Forest.Le.refl _

theorem fph_run_le : ∀ (cs : List PCall) (s : PStore), Forest.Le s.forest (s.run cs).forest
  | [], s => Forest.Le.refl _
  | c :: cs, s => Forest.Le.trans (fph_step_le s c) (fph_run_le cs (s.step c))

/-! ### C06: a refusal changes nothing -/

/-- An API step that answers an error changes nothing at all. -/
theorem fph_api_refused (s : PStore) (c : Forest.XCall) (e : XotError) (hi : s.forest.Inv)
    (hl : c.liveArgs s.forest) (h : ((PCall.api c).run s).2 = .api (.err e)) : ((PCall.api c).run s).1 = s := by
  have h' : (c.run s.store).2 = .err e := by
    simp only [PCall.run] at h; injection h
  have hs : (c.run s.store).1 = s.store := by
    rcases Forest.xcall_clauses (s := s.store) hi c hl with ⟨_, hc⟩ | ⟨_, hc⟩
    · exact hc.atomic e h'
    · rw [hc]
  show (⟨(c.run s.store).1.forest, (c.run s.store).1.env, s.index⟩ : PStore) = s
  rw [hs]; rfl

/-- An API step that panics: the documented panic, nothing changed. -/
theorem fph_api_panic (s : PStore) (c : Forest.XCall) (hi : s.forest.Inv)
    (hl : c.liveArgs s.forest) (h : ((PCall.api c).run s).2 = .api .panic) :
    c.documentedPanic s.forest = true ∧ ((PCall.api c).run s).1 = s := by
  have h' : (c.run s.store).2 = .panic := by
    simp only [PCall.run] at h; injection h
  rcases Forest.xcall_clauses (s := s.store) hi c hl with ⟨_, hc⟩ | ⟨h1, hc⟩
  · exact absurd h' hc.noPanic
  · refine ⟨h1, ?_⟩
    show (⟨(c.run s.store).1.forest, (c.run s.store).1.env, s.index⟩ : PStore) = s
    rw [hc]; rfl

/-- A parse step that answers an error: the text was rejected with that error, forest and index are
    as they were; the interning tables are the ones the builder left. -/
theorem fph_parse_rejected (s : PStore) (m : Mode) (text : Str) (e : ParseErr)
    (h : ((PCall.parse m text).run s).2 = .rejected e) :
    ∃ env', parseString m s.env text = .err e env' ∧ ((PCall.parse m text).run s).1 = { s with env := env' } := by
  rcases fph_parseString_cases m s.env text with ⟨p, hp⟩ | ⟨e', env', hp⟩
  · rw [fph_run_parse_ok s hp] at h; cases h
  · rw [fph_run_parse_err s hp] at h ⊢
    cases h
    exact ⟨env', hp, rfl⟩

/-- A parse step never answers a panic. -/
theorem fph_parse_not_panic (s : PStore) (m : Mode) (text : Str) :
    ¬ (∃ r, ((PCall.parse m text).run s).2 = r ∧ match r with | .parsePanic => True | _ => False) := by
  rintro ⟨r, hr, hm⟩
  rcases fph_parseString_cases m s.env text with ⟨p, hp⟩ | ⟨e', env', hp⟩
  · rw [fph_run_parse_ok s hp] at hr; subst hr; exact hm
  · rw [fph_run_parse_err s hp] at hr; subst hr; exact hm

/-- **Any refused step** (API error, rejected text) leaves forest and index as they were. -/
theorem fph_refused (s : PStore) (c : PCall) (hi : s.forest.Inv) (hl : c.liveArgs s.forest)
    (h : PCall.refused (c.run s).2) : (c.run s).1.forest = s.forest ∧ (c.run s).1.index = s.index := by
  cases c with
  | api c =>
    have hr : ((PCall.api c).run s).2 = .api (c.run s.store).2 := rfl
    rw [hr] at h
    cases hx : (c.run s.store).2 with
    | err e => rw [fph_api_refused s c e hi hl (by rw [hr, hx])]; exact ⟨rfl, rfl⟩
    | ok => rw [hx] at h; exact h.elim
    | panic => rw [hx] at h; exact h.elim
  | parse m text =>
    cases hr : ((PCall.parse m text).run s).2 with
    | rejected e =>
      obtain ⟨env', _, h2⟩ := fph_parse_rejected s m text e hr
      rw [h2]; exact ⟨rfl, rfl⟩
    | api r =>
      exfalso
      rcases fph_parseString_cases m s.env text with ⟨p, hp⟩ | ⟨e', env', hp⟩
      · rw [fph_run_parse_ok s hp] at hr; cases hr
      · rw [fph_run_parse_err s hp] at hr; cases hr
    | parsed d => rw [hr] at h; exact h.elim
    | parsePanic => rw [hr] at h; exact h.elim

/-! ### The older history types embed -/

/-- A history of API calls only is the extended history of `Store.xrun`; the index is not touched. -/
theorem fph_run_api : ∀ (cs : List Forest.XCall) (s : PStore),
    (s.run (cs.map .api)).store = s.store.xrun cs ∧ (s.run (cs.map .api)).index = s.index
  | [], _ => ⟨rfl, rfl⟩
  | c :: cs, s => by
    have ih := fph_run_api cs (s.step (.api c))
    rw [List.map_cons, fph_run_cons]
    exact ⟨ih.1, ih.2⟩

theorem fph_forest_run_api (cs : List Forest.XCall) (s : PStore) :
    (s.run (cs.map .api)).forest = (s.store.xrun cs).forest := congrArg Store.forest (fph_run_api cs s).1

theorem fph_env_run_api (cs : List Forest.XCall) (s : PStore) :
    (s.run (cs.map .api)).env = (s.store.xrun cs).env := congrArg Store.env (fph_run_api cs s).1

/-- A call of the parser histories (`IdOp.call`) is the step `PCall.ofOp`. -/
theorem fph_idStore_step_ofOp (s : PStore) (o : Op) : (s.step (.ofOp o)).idStore = s.idStore.step (.call o) := by
  show (⟨(s.store.xstep (.ofOp o)).forest, s.index⟩ : IdStore) = ⟨s.forest.step o, s.index⟩
  rw [Store.xstep_ofOp]
  rfl

/-- The parse of an accepted text is the step `IdOp.parse` of its tree (when the tree has no
    duplicate ID — Lemmas/FparseHistIds.lean: always, on well-formed tables). -/
theorem fph_idStore_step_parse (s : PStore) {m : Mode} {text : Str} {p : Parsed}
    (h : parseString m s.env text = .ok p) (hn : (Tree.idValues p.tree).Nodup) :
    (s.step (.parse m text)).idStore = s.idStore.step (.parse p.tree) := by
  rw [fph_step_parse_ok s h]
  show _ = (s.idStore.parse p.tree).1
  unfold IdStore.parse
  rw [if_pos hn]
  rfl

/-! ### The xml:id index along histories (keys and entries were handed out earlier) -/

/-- Keys and entries of the index are handles handed out earlier. -/
def fphIndexBelow (s : PStore) : Prop := ∀ e ∈ s.index, e.1.1 < s.forest.next ∧ e.2 < s.forest.next

theorem fph_indexBelow_init (env : Env) : (init env).fphIndexBelow := fun _ he => (by cases he)

theorem fph_indexBelow_parseInto {s : IdStore} (hw : ∀ e ∈ s.index, e.1.1 < s.forest.next ∧ e.2 < s.forest.next)
    (t : Tree) : ∀ e ∈ (s.parseInto t).1.index,
      e.1.1 < (s.parseInto t).1.forest.next ∧ e.2 < (s.parseInto t).1.forest.next := by
  have hpos := Tree.size_pos t
  intro e he
  rw [IdStore.parseInto_next]
  have he' : e ∈ s.index.filter (fun e => e.1.1 != s.forest.next) ++
      (idEntries (ofTree s.forest.next t)).map (fun e => ((s.forest.next, e.1), e.2)) := he
  rw [List.mem_append] at he'
  rcases he' with he' | he'
  · have := hw e (List.mem_filter.mp he').1
    omega
  · rw [List.mem_map] at he'
    obtain ⟨a, ha, rfl⟩ := he'
    have := handles_ofTree s.forest.next t a.2 (idEntries_mem_handles _ a ha)
    simp only
    omega

theorem fph_indexBelow_step {s : PStore} (hw : s.fphIndexBelow) (c : PCall) : (s.step c).fphIndexBelow := by
  cases c with
  | api c =>
    intro e he
    have := hw e he
    have hn := (fph_step_le s (.api c)).next
    exact ⟨Nat.lt_of_lt_of_le this.1 hn, Nat.lt_of_lt_of_le this.2 hn⟩
  | parse m text =>
    rcases fph_parseString_cases m s.env text with ⟨p, hp⟩ | ⟨e', env', hp⟩
    · rw [fph_step_parse_ok s hp]
      exact fph_indexBelow_parseInto (s := s.idStore) hw p.tree
    · rw [fph_step_parse_err s hp]; exact hw

theorem fph_indexBelow_run : ∀ (cs : List PCall) {s : PStore}, s.fphIndexBelow → (s.run cs).fphIndexBelow
  | [], _, hw => hw
  | c :: cs, _, hw => fph_indexBelow_run cs (fph_indexBelow_step hw c)

/-- The index is only written for the document node a parse creates: entries of existing documents
    are never rewritten. -/
theorem fph_lookup_step (s : PStore) (c : PCall) (d : Nat) (v : Str) (hd : d < s.forest.next) :
    (s.step c).idStore.lookup d v = s.idStore.lookup d v := by
  cases c with
  | api c => rfl
  | parse m text =>
    rcases fph_step_parse_cases s m text with ⟨p, _, h1, _⟩ | ⟨e, env', _, h1, _⟩
    · rw [h1]; exact IdStore.lookup_parseInto_other s.idStore p.tree d v (Nat.ne_of_lt hd)
    · rw [h1]

theorem fph_lookup_run : ∀ (cs : List PCall) (s : PStore) (d : Nat) (v : Str), d < s.forest.next →
    (s.run cs).idStore.lookup d v = s.idStore.lookup d v
  | [], _, _, _, _ => rfl
  | c :: cs, s, d, v, hd => by
    rw [fph_run_cons, fph_lookup_run cs (s.step c) d v (Nat.lt_of_lt_of_le hd (fph_step_le s c).next),
      fph_lookup_step s c d v hd]

/-- `xml_id_node` along histories: as long as the element is not removed the answer stays; once it
    is removed the answer is `none` for ever (the index invariant `fphIndexBelow` of the start state is
    what every reachable state has). -/
theorem fph_xmlIdNode_stable (s : PStore) (hw : s.fphIndexBelow) (cs : List PCall) (doc h : Nat) (v : Str)
    (hx : s.xmlIdNode doc v = some h) :
    ((s.run cs).forest.isRemoved h = false → (s.run cs).xmlIdNode doc v = some h) ∧
    ((s.run cs).forest.isRemoved h = true → ∀ more : List PCall, ((s.run cs).run more).xmlIdNode doc v = none) := by
  have hl := ((IdStore.xmlIdNode_eq_some_iff s.idStore doc v h).mp hx).1
  have hlt : doc < s.forest.next ∧ h < s.forest.next := hw _ (fi_mem_of_lookup hl)
  constructor
  · intro hr
    have hn := (fph_run_le cs s).next
    show (s.run cs).idStore.xmlIdNode doc v = some h
    rw [IdStore.xmlIdNode_of_lookup _ _ _ h ((fph_lookup_run cs s doc v hlt.1).trans hl)]
    have : (s.run cs).idStore.forest.isLive h = true := by
      show (s.run cs).forest.isLive h = true
      cases hlv : (s.run cs).forest.isLive h with
      | true => rfl
      | false => simp [Forest.isRemoved, hlv, Nat.lt_of_lt_of_le hlt.2 hn] at hr
    rw [this]; rfl
  · intro hr more
    have hr' := Forest.isRemoved_mono (fph_run_le more (s.run cs)) hr
    rw [← fph_run_append] at hr' ⊢
    show (s.run (cs ++ more)).idStore.xmlIdNode doc v = none
    rw [IdStore.xmlIdNode_of_lookup _ _ _ h ((fph_lookup_run _ s doc v hlt.1).trans hl)]
    have : (s.run (cs ++ more)).idStore.forest.isLive h = false := by
      show (s.run (cs ++ more)).forest.isLive h = false
      simp only [Forest.isRemoved, Bool.and_eq_true, Bool.not_eq_true'] at hr'; exact hr'.2
    rw [this]; rfl

end PStore
end XotModel
