/-
  XotModel.Lemmas.LexFreeBuild — from the tokenizer's layout theorems to `parseString`: the builder
  does not look at byte positions (`build_erase_ok`), and a `Declaration` token of version 1.0 is a
  no-op for it; `parseString_of_ldoc` puts the two together for a whole laid-out document (`LDoc`).
-/
import XotModel.Lemmas.LexFreeTop
import XotModel.Lemmas.ParseErase

namespace XotModel

/-- `Token::Declaration` with version `1.0`: the builder goes on unchanged. -/
theorem build_declaration (m : Mode) (len : Nat) (env : Env) (v : StrSpan) (e : Option StrSpan)
    (s : Option Bool) (sp : StrSpan) (ts : List Token) (lexErr : Option Nat)
    (hv : v.text = ['1', '.', '0']) :
    build m len env (.declaration v e s sp :: ts) lexErr = build m len env ts lexErr := by
  simp [build, Builder.run, Builder.step, hv]

/-- If the tokenizer returns (up to positions, an absent prefix at offset 0) a token list on which
    `build` succeeds, `parseString` succeeds with the same tree, interning tables and id map. -/
theorem parseString_of_lex (m : Mode) (env : Env) (s : Str) (ts : List Token) (len : Nat) (p : Parsed)
    (hlex : ReadAsList (lexMode m s).1 ts ∧ (lexMode m s).2 = none)
    (hb : build m len env ts none = .ok p) :
    ∃ p', parseString m env s = .ok p' ∧ p'.tree = p.tree ∧ p'.env = p.env ∧ p'.ids = p.ids := by
  unfold parseString
  rw [hlex.2]
  exact build_erase_ok m len (strLen s) env ts (lexMode m s).1 hlex.1.1.symm hlex.1.2 p hb

/-- A whole laid-out document (BOM or not, XML declaration of version 1.0 or not, items, trailing
    white space) whose items are — up to positions — a token list on which `build` succeeds:
    `parseString` of its text succeeds with the same tree and interning tables. -/
theorem parseString_of_ldoc (env : Env) (ts : List Token) (p0 : Parsed)
    (hb : build .document 0 env ts none = .ok p0) (d : LDoc)
    (hl : d.items.map (Token.erase ∘ LToken.token) = ts.map Token.erase)
    (hok : d.ok = true) (hver : ∀ x, d.decl = some x → x.minor = ['0']) :
    ∃ p, parseString .document env d.render = .ok p ∧ p.tree = p0.tree ∧ p.env = p0.env := by
  obtain ⟨ts', e, he⟩ := lexDocument_layout_doc d hok
  have hitems : (d.items.map LToken.token).map Token.erase = ts.map Token.erase := by rw [← hl, List.map_map]
  have hlex : ∀ us : List Token, d.tokens.map Token.erase = us.map Token.erase →
      ReadAsList (lexMode .document d.render).1 us ∧
        (lexMode .document d.render).2 = none := by
    intro us hus
    rw [show lexMode .document d.render = (ts', none) from e]
    exact ⟨⟨he.1.trans hus, he.2⟩, rfl⟩
  cases hdec : d.decl with
  | none =>
    obtain ⟨p, hp, ht, hev, _⟩ := parseString_of_lex .document env _ _ 0 p0
      (hlex _ (by simp [LDoc.tokens, hdec, hitems])) hb
    exact ⟨p, hp, ht, hev⟩
  | some x =>
    have hb' : build .document 0 env (x.token :: ts) none = .ok p0 := by
      rw [LDecl.token, build_declaration _ _ _ _ _ _ _ _ _ (by rw [hver x hdec]), hb]
    obtain ⟨p, hp, ht, hev, _⟩ := parseString_of_lex .document env _ _ 0 p0
      (hlex _ (by simp [LDoc.tokens, hdec, hitems])) hb'
    exact ⟨p, hp, ht, hev⟩

end XotModel
