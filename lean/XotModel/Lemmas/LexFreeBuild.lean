/-
  XotModel.Lemmas.LexFreeBuild — from the tokenizer's layout theorems to `parseString`: the builder
  does not look at byte positions (`build_erase_ok`), and a `Declaration` token of version 1.0 is a
  no-op for it.
-/
import XotModel.Lemmas.LexFreeTop
import XotModel.Lemmas.ParseErase

namespace XotModel

/-- `Token::Declaration` with version `1.0`: the builder goes on unchanged. -/
theorem build_declaration (m : Mode) (len : Nat) (env : Env) (v : StrSpan) (e : Option StrSpan)
    (s : Option Bool) (sp : StrSpan) (ts : List Token) (lexErr : Option Nat)
    (hv : v.text = ['1', '.', '0']) :
    build m len env (.declaration v e s sp :: ts) lexErr = build m len env ts lexErr := by
  simp [build, Builder.run, Builder.step, hv]

/-- If the tokenizer returns (up to positions) a token list on which `build` succeeds, `parseString`
    succeeds with the same tree, interning tables and id map. -/
theorem parseString_of_lex (m : Mode) (env : Env) (s : Str) (ts : List Token) (len : Nat) (p : Parsed)
    (hlex : (lexMode m s).1.map Token.erase = ts.map Token.erase ∧ (lexMode m s).2 = none)
    (hb : build m len env ts none = .ok p) :
    ∃ p', parseString m env s = .ok p' ∧ p'.tree = p.tree ∧ p'.env = p.env ∧ p'.ids = p.ids := by
  unfold parseString
  rw [hlex.2]
  exact build_erase_ok m len (strLen s) env ts (lexMode m s).1 hlex.1.symm p hb

end XotModel
