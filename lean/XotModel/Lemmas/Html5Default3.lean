/-
  C19_embedded / C19_unprefixed_end, induction over the tree: the events of one subtree leave the
  serialiser state as they found it, pass the default-namespace replay, and write bare end tags.
-/
import XotModel.Lemmas.Html5Default2

namespace XotModel
open Gen

/-- The subtree at `path ++ [j]` is the `j`-th raw child. -/
theorem kids_at {t : Tree} {path : Path} {v : Value} {ks : List Tree} (hat : t.at? path = some (.node v ks)) :
    ∀ j k, ks[j]? = some k → t.at? (path ++ [0 + j]) = some k := by
  intro j k hk
  rw [at?_append, hat]
  simp [Tree.at?, hk]

/-- What the induction proves about a list of sibling subtrees.  `P` switches the default-namespace
    tracking on (with its hypotheses); the end-tag part holds without it. -/
def KidsOk (P : Prop) (c : HtmlCtx) (t : Tree) (inScope : List (Nat × Nat)) (ks : List Tree) : Prop :=
  ∀ (path : Path) (i : Nat) (S S' : HState) (l : List (Path × Output × OutputToken)) (st : List (Nat × Nat)),
    (∀ j k, ks[j]? = some k → t.at? (path ++ [i + j]) = some k) → S.stack ≠ [] →
    (P → DefaultInv S.stack (dOf st)) →
    runHtml c t S (genNode.genKids inScope path i ks) = some (S', l) →
    S' = S ∧ (P → embeddedReplay c st l = some st) ∧ EndTagsBare c l

/-- One element: start tag, declarations, `>`, children (given), end tag. -/
theorem run_element_default {c : HtmlCtx} (P : Prop) (hxml : P → c.h.mustBeUnprefixed Env.xmlNamespace = false)
    (hsp : P → NoSpaces c.env) (t : Tree) (inScope : List (Nat × Nat)) (name : Nat) (ks : List Tree)
    (kidsOk : KidsOk P c t inScope ks) (isTop : Bool) (path : Path) (S S' : HState)
    (l : List (Path × Output × OutputToken)) (st : List (Nat × Nat))
    (hat : t.at? path = some (.node (.element name) ks)) (hs : S.stack ≠ [])
    (hpre : P → ElemPre inScope isTop path (.node (.element name) ks) (c.env.nsOfName name) S.stack (dOf st))
    (h : runHtml c t S (genNode inScope isTop path (.node (.element name) ks)) = some (S', l)) :
    S' = S ∧ (P → embeddedReplay c st l = some st) ∧ EndTagsBare c l := by
  rw [genNode_element_shape] at h
  obtain ⟨S2, tok, la, hso, hresta, rfl⟩ := runHtml_cons_some h
  obtain ⟨S3, l1, lb, hdecl, hrestb, rfl⟩ := runHtml_append_some hresta
  obtain ⟨S4, tokc, lc, hsc, hrestc, rfl⟩ := runHtml_cons_some hrestb
  obtain ⟨S5, l2, l3, hk, het, rfl⟩ := runHtml_append_some hrestc
  obtain ⟨S6, toke, l5, het1, het2, rfl⟩ := runHtml_cons_some het
  simp only [runHtml, Option.some.injEq, Prod.mk.injEq] at het2
  obtain ⟨rfl, rfl⟩ := het2
  simp only [renderHtmlAt, hat] at hso hsc het1
  obtain ⟨d0, hd0⟩ : ∃ d0, d0 = (if tok.text == fmt fmtHtmlStartTagOpenNs [c.env.localName name,
      serializeAttributeHtml (c.env.namespaceStr (c.env.nsOfName name))] then c.env.nsOfName name else dOf st) :=
    ⟨_, rfl⟩
  obtain ⟨dmid, hdm⟩ : ∃ dmid, dmid = midDefault (c.env.nsOfName name) d0
      (declEvents inScope isTop path (.node (.element name) ks)) := ⟨_, rfl⟩
  obtain ⟨hne2, hend, hinv, hmust, hbare⟩ := startTagOpen_default P hxml hsp inScope isTop path name ks _ S S2 tok
    (dOf st) hs hpre hso (c.env.nsOfName name) d0 dmid rfl hd0 hdm
  obtain ⟨rfl, hrep1, hb1⟩ := run_declEvents hat rfl _ d0 st (declEvents_isDecl inScope isTop path _) hdecl
  rw [← hdm] at hrep1
  have hS4 : S4 = S3 := renderHtml_static rfl hsc
  subst hS4
  obtain ⟨rfl, hrep2, hb2⟩ := kidsOk path 0 S4 S5 l2 ((c.env.nsOfName name, dmid) :: st) (kids_at hat) hne2
    (fun hP => by simpa [dOf] using hinv hP) hk
  -- the end tag
  have hS6 : S6 = S ∧ EndTagsBare c [(path, Output.endTag name, toke)] := by
    simp only [renderHtml] at het1
    split at het1
    · simp only [Outcome.ok.injEq, Prod.mk.injEq] at het1
      obtain ⟨rfl, rfl⟩ := het1
      refine ⟨hend, ?_⟩
      intro k hk nm _ _
      simp only [List.mem_singleton] at hk
      subst hk; left; rfl
    · split at het1
      · rename_i full hfull
        simp only [Outcome.ok.injEq, Prod.mk.injEq] at het1
        obtain ⟨rfl, rfl⟩ := het1
        refine ⟨hend, ?_⟩
        intro k hk nm hnm hb
        simp only [List.mem_singleton] at hk
        subst hk
        simp only [Output.endTag.injEq] at hnm
        subst hnm
        right
        rw [elementFullname_bare c.env _ name hb.2 (hbare hb)] at hfull
        cases hfull
        simp [fmt, fmtHtmlEndTag]
      · cases het1
  obtain ⟨rfl, hb3⟩ := hS6
  refine ⟨rfl, ?_, ?_⟩
  · -- the replay, piece by piece
    intro hP
    simp only [embeddedReplay]
    rw [← hd0, embeddedReplay_append, hrep1]
    simp only [Option.bind_some, embeddedReplay]
    have hchk : (c.h.mustBeUnprefixed (c.env.nsOfName name) && dmid != c.env.nsOfName name) = false := by
      cases hm : c.h.mustBeUnprefixed (c.env.nsOfName name) with
      | false => rfl
      | true => simp [hmust hP hm]
    rw [hchk]
    simp only [Bool.false_eq_true, if_false]
    rw [embeddedReplay_append, hrep2 hP]
    simp [embeddedReplay]
  · intro k hk nm hnm
    rcases List.mem_cons.mp hk with rfl | hk
    · cases hnm
    · rcases List.mem_append.mp hk with hk | hk
      · exact hb1 k hk nm hnm
      · rcases List.mem_cons.mp hk with rfl | hk
        · cases hnm
        · exact (hb2.append hb3) k hk nm hnm

/-- One text / comment / PI event, then the children. -/
theorem run_leaf_default {c : HtmlCtx} (P : Prop) (t : Tree) (inScope : List (Nat × Nat)) (v : Value) (ks : List Tree)
    (kidsOk : KidsOk P c t inScope ks) (path : Path) (o : Output)
    (ho : o.isStatic = true ∧ (∀ p ns, o ≠ .pfx p ns) ∧ o ≠ .startTagClose)
    (S S' : HState) (l : List (Path × Output × OutputToken)) (st : List (Nat × Nat))
    (hat : t.at? path = some (.node v ks)) (hs : S.stack ≠ []) (hinv : P → DefaultInv S.stack (dOf st))
    (h : runHtml c t S ((path, o) :: genNode.genKids inScope path 0 ks) = some (S', l)) :
    S' = S ∧ (P → embeddedReplay c st l = some st) ∧ EndTagsBare c l := by
  obtain ⟨S1, tok, l', hr, hrest, rfl⟩ := runHtml_cons_some h
  simp only [renderHtmlAt, hat] at hr
  have hS : S1 = S := renderHtml_static ho.1 hr
  subst hS
  obtain ⟨rfl, hrep, hb⟩ := kidsOk path 0 S1 S' l' st (kids_at hat) hs hinv hrest
  refine ⟨rfl, ?_, ?_⟩
  · intro hP
    have hrep := hrep hP
    cases o with
    | pfx p ns => exact absurd rfl (ho.2.1 p ns)
    | startTagClose => exact absurd rfl ho.2.2
    | startTagOpen nm => cases ho.1
    | endTag nm => cases ho.1
    | _ => simpa only [embeddedReplay] using hrep
  · intro k hk nm hnm
    rcases List.mem_cons.mp hk with rfl | hk
    · simp only at hnm; subst hnm; cases ho.1
    · exact hb k hk nm hnm

mutual
theorem run_node_default {c : HtmlCtx} (P : Prop) (hxml : P → c.h.mustBeUnprefixed Env.xmlNamespace = false)
    (hsp : P → NoSpaces c.env) (t : Tree) (inScope : List (Nat × Nat)) (n : Tree) (path : Path)
    (S S' : HState) (l : List (Path × Output × OutputToken)) (st : List (Nat × Nat))
    (hat : t.at? path = some n) (hs : S.stack ≠ []) (hinv : P → DefaultInv S.stack (dOf st))
    (h : runHtml c t S (genNode inScope false path n) = some (S', l)) :
    S' = S ∧ (P → embeddedReplay c st l = some st) ∧ EndTagsBare c l := by
  cases n with
  | node v ks =>
    have kidsOk : KidsOk P c t inScope ks := fun path i S S' l st hk hs hinv h =>
      run_kids_default P hxml hsp t inScope ks path i S S' l st hk hs hinv h
    cases v with
    | element name =>
      exact run_element_default P hxml hsp t inScope name ks kidsOk false path S S' l st hat hs
        (fun hP => Or.inl ⟨rfl, hinv hP⟩) h
    | text str =>
      rw [genNode_text] at h
      exact run_leaf_default P t inScope _ ks kidsOk path _ ⟨rfl, ⟨fun p ns hh => (by cases hh), fun hh => (by cases hh)⟩⟩
        S S' l st hat hs hinv h
    | comment str =>
      rw [genNode_comment] at h
      exact run_leaf_default P t inScope _ ks kidsOk path _ ⟨rfl, ⟨fun p ns hh => (by cases hh), fun hh => (by cases hh)⟩⟩
        S S' l st hat hs hinv h
    | pi target data =>
      rw [genNode_pi] at h
      exact run_leaf_default P t inScope _ ks kidsOk path _ ⟨rfl, ⟨fun p ns hh => (by cases hh), fun hh => (by cases hh)⟩⟩
        S S' l st hat hs hinv h
    | document => rw [genNode_document] at h; exact kidsOk path 0 S S' l st (kids_at hat) hs hinv h
    | «attribute» name value => rw [genNode_attribute] at h; exact kidsOk path 0 S S' l st (kids_at hat) hs hinv h
    | «namespace» p ns => rw [genNode_namespace] at h; exact kidsOk path 0 S S' l st (kids_at hat) hs hinv h

theorem run_kids_default {c : HtmlCtx} (P : Prop) (hxml : P → c.h.mustBeUnprefixed Env.xmlNamespace = false)
    (hsp : P → NoSpaces c.env) (t : Tree) (inScope : List (Nat × Nat)) (ks : List Tree) (path : Path) (i : Nat)
    (S S' : HState) (l : List (Path × Output × OutputToken)) (st : List (Nat × Nat))
    (hk : ∀ j k, ks[j]? = some k → t.at? (path ++ [i + j]) = some k) (hs : S.stack ≠ [])
    (hinv : P → DefaultInv S.stack (dOf st))
    (h : runHtml c t S (genNode.genKids inScope path i ks) = some (S', l)) :
    S' = S ∧ (P → embeddedReplay c st l = some st) ∧ EndTagsBare c l := by
  cases ks with
  | nil =>
    simp only [genNode.genKids, runHtml, Option.some.injEq, Prod.mk.injEq] at h
    obtain ⟨rfl, rfl⟩ := h
    exact ⟨rfl, fun _ => rfl, EndTagsBare.nil c⟩
  | cons k ks =>
    simp only [genNode.genKids] at h
    obtain ⟨S1, l1, l2, h1, h2, rfl⟩ := runHtml_append_some h
    obtain ⟨rfl, hr1, hb1⟩ := run_node_default P hxml hsp t inScope k (path ++ [i]) S S1 l1 st
      (by simpa using hk 0 k rfl) hs hinv h1
    obtain ⟨rfl, hr2, hb2⟩ := run_kids_default P hxml hsp t inScope ks path (i + 1) S1 S' l2 st
      (by
        intro j k' hj
        have := hk (j + 1) k' (by simpa using hj)
        have e : i + 1 + j = i + (j + 1) := by omega
        rw [e]; exact this) hs hinv h2
    exact ⟨rfl, fun hP => by rw [embeddedReplay_append, hr1 hP]; exact hr2 hP, hb1.append hb2⟩
end

end XotModel
