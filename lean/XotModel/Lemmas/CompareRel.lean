/-
  Lemmas for C13, part 7: with an arbitrary text comparison and a value-based filter whose dropped
  nodes are leaves, the filtered comparison is `Canon.rel cmp` on the canonical forms of the trees
  with the dropped nodes discarded.
-/
import XotModel.Lemmas.CompareCanon

namespace XotModel

/-! ### `attrsRel` does not depend on the order of either list -/

theorem lookup_perm {B B' : Attrs} (p : B.Perm B') (h : keysNodup B) (k : Nat) : B.lookup k = B'.lookup k := by
  have h' := keysNodup_perm p h
  cases hb : B.lookup k with
  | some v => exact (lookup_of_mem h' (p.subset (mem_of_lookup hb))).symm
  | none =>
    cases hb' : B'.lookup k with
    | none => rfl
    | some v =>
      have := lookup_of_mem h (p.symm.subset (mem_of_lookup hb'))
      rw [hb] at this; cases this

theorem attrsRel_perm {cmp : TextCmp} {A A' B B' : Attrs} (pa : A.Perm A') (pb : B.Perm B') (hB : keysNodup B) :
    attrsRel cmp A B = attrsRel cmp A' B' := by
  unfold attrsRel
  have hf : (fun kv : Nat × Str => cmpFound cmp kv.2 (B.lookup kv.1)) =
      (fun kv : Nat × Str => cmpFound cmp kv.2 (B'.lookup kv.1)) := by
    funext kv; rw [lookup_perm pb hB]
  rw [hf, pa.length_eq, pb.length_eq, pa.all_eq]

theorem attrsRel_sort {cmp : TextCmp} {A B : Attrs} (hB : keysNodup B) :
    attrsRel cmp A B = attrsRel cmp (sortAttrs A) (sortAttrs B) :=
  attrsRel_perm (sortAttrs_perm A).symm (sortAttrs_perm B).symm hB

/-! ### `compareValue cmp` is `CValue.rel cmp` on the canonical values -/

theorem compareAttributes_eq_rel {cmp : TextCmp} {va vb : Value} {ka kb : List Tree}
    (oa : orderedKids ka = true) (ob : orderedKids kb = true) (nb : attrNamesNodup kb = true) :
    compareAttributes cmp (.node va ka) (.node vb kb) =
      attrsRel cmp (sortAttrs (attrPairs ka)) (sortAttrs (attrPairs kb)) := by
  have nb' : keysNodup (attrPairs kb) := by simpa [attrNamesNodup, keysNodup] using nb
  rw [← attrsRel_sort nb']
  unfold compareAttributes attrsRel
  rw [attrLen_of_ordered oa, attrLen_of_ordered ob, attrs_of_ordered oa]
  unfold Tree.getAttribute
  rw [attrs_of_ordered ob]
  by_cases hlen : (attrPairs ka).length = (attrPairs kb).length
  · simp [hlen]
  · have : ((attrPairs ka).length != (attrPairs kb).length) = true := by simpa using hlen
    simp [this, hlen]

theorem compareValue_eq_rel {cmp : TextCmp} {a b : Tree}
    (oa : orderedKids a.kids = true) (ob : orderedKids b.kids = true) (nb : attrNamesNodup b.kids = true) :
    compareValue cmp a b = CValue.rel cmp (cvalue a.value a.kids) (cvalue b.value b.kids) := by
  obtain ⟨va, ka⟩ := a
  obtain ⟨vb, kb⟩ := b
  simp only [Tree.value, Tree.kids] at *
  cases va <;> cases vb <;> simp [compareValue, cvalue, Tree.value, CValue.rel]
  case element.element n m =>
    rw [compareAttributes_eq_rel oa ob nb]
  case pi.pi t d t' d' =>
    by_cases ht : t = t'
    · subst ht; simp
    · simp [ht]

/-! ### Discarding dropped leaves -/

theorem discard_value (g : Value → Bool) (t : Tree) : (discard g t).value = t.value := by
  cases t; simp [discard, Tree.value]

theorem discard_kids (g : Value → Bool) (t : Tree) : (discard g t).kids = discardList g t.kids := by
  cases t; simp [discard, Tree.kids]

theorem attrPairs_discardList (g : Value → Bool) (ks : List Tree) : attrPairs (discardList g ks) = attrPairs ks := by
  induction ks with
  | nil => rfl
  | cons k ks ih =>
    by_cases h : (k.value.isNormal && !g k.value) = true
    · have hn : k.value.isNormal = true := by simp only [Bool.and_eq_true] at h; exact h.1
      have hv : ∀ n s, k.value ≠ .attribute n s := by
        intro n s e; rw [e] at hn; simp [Value.isNormal, Value.category] at hn
      simp only [discardList, h, ↓reduceIte, ih]
      simp only [attrPairs]
    · have h' : (k.value.isNormal && !g k.value) = false := by simpa using h
      simp only [discardList, h', Bool.false_eq_true, ↓reduceIte, attrPairs, discard_value, ih]

theorem cvalue_discardList (g : Value → Bool) (v : Value) (ks : List Tree) :
    cvalue v (discardList g ks) = cvalue v ks := by
  cases v <;> simp [cvalue, attrPairs_discardList]

/-- The filter "normal and `g` of the value". -/
def valueFilter (g : Value → Bool) : NodeFilter := fun t => g t.value
def keptBy (g : Value → Bool) (t : Tree) : Bool := t.value.isNormal && g t.value

theorem canonList_discardList_cons (g : Value → Bool) (k : Tree) (ks : List Tree) :
    canon.canonList (discardList g (k :: ks)) =
      if keptBy g k then canon (discard g k) :: canon.canonList (discardList g ks)
      else canon.canonList (discardList g ks) := by
  by_cases hn : k.value.isNormal = true
  · by_cases hg : g k.value = true
    · simp [discardList, keptBy, hn, hg, canon.canonList, discard_value]
    · simp [discardList, keptBy, hn, hg]
  · simp [discardList, keptBy, hn, canon.canonList, discard_value]

theorem validForList_iff (g : Value → Bool) (ks : List Tree) :
    Tree.validFor.validForList g ks = true ↔ ∀ k ∈ ks, k.validFor g = true := by
  induction ks with
  | nil => simp [Tree.validFor.validForList]
  | cons k ks ih => simp [Tree.validFor.validForList, ih]

theorem validFor_node {g : Value → Bool} {v : Value} {ks : List Tree} (h : (Tree.node v ks).validFor g = true) :
    orderedKids ks = true ∧ attrNamesNodup ks = true ∧ (keptBy g (.node v ks) = true ∨ ks = []) ∧
      ∀ k ∈ ks, k.validFor g = true := by
  simp only [Tree.validFor, Bool.and_eq_true, Bool.or_eq_true, List.isEmpty_iff, validForList_iff] at h
  exact ⟨h.1.1.1, h.1.1.2, by simpa [keptBy, Tree.value] using h.1.2, h.2⟩

theorem proj_kept {g : Value → Bool} {t : Tree} (h : keptBy g t = true) :
    proj (valueFilter g) t = [.mk t (projList (valueFilter g) t.kids)] := by
  obtain ⟨v, ks⟩ := t
  have : keepNode (valueFilter g) (.node v ks) = true := by simpa [keepNode, valueFilter, keptBy] using h
  simp [proj, this, Tree.kids]

theorem proj_dropped {g : Value → Bool} {t : Tree} (hv : t.validFor g = true) (h : ¬ keptBy g t = true) :
    proj (valueFilter g) t = [] := by
  obtain ⟨v, ks⟩ := t
  obtain ⟨_, _, hl, _⟩ := validFor_node hv
  have hk : ¬ keepNode (valueFilter g) (.node v ks) = true := by simpa [keepNode, valueFilter, keptBy] using h
  rcases hl with hl | hl
  · exact absurd hl h
  · subst hl; simp [proj, hk, projList]

/-- What the theorem says about one kept node (against every other kept node). -/
def RelSpec (g : Value → Bool) (cmp : TextCmp) (k : Tree) : Prop :=
  ∀ j : Tree, k.validFor g = true → j.validFor g = true → keptBy g k = true → keptBy g j = true →
    forestEqv cmp (proj (valueFilter g) k) (proj (valueFilter g) j) =
      Canon.rel cmp (canon (discard g k)) (canon (discard g j))

theorem forestEqv_projList_rel (g : Value → Bool) (cmp : TextCmp) (as : List Tree) :
    ∀ (bs : List Tree), (∀ k ∈ as, RelSpec g cmp k) →
      (∀ k ∈ as, k.validFor g = true) → (∀ j ∈ bs, j.validFor g = true) →
      forestEqv cmp (projList (valueFilter g) as) (projList (valueFilter g) bs) =
        Canon.relList cmp (canon.canonList (discardList g as)) (canon.canonList (discardList g bs)) := by
  induction as with
  | nil =>
    intro bs _ _ vb
    induction bs with
    | nil => simp [projList, forestEqv, discardList, canon.canonList, Canon.relList]
    | cons j bs ihb =>
      have vj := vb j List.mem_cons_self
      have vb' : ∀ x ∈ bs, x.validFor g = true := fun x hx => vb x (List.mem_cons_of_mem _ hx)
      rw [canonList_discardList_cons]
      by_cases hj : keptBy g j = true
      · simp [projList, proj_kept hj, forestEqv, hj, discardList, canon.canonList, Canon.relList]
      · have hb := ihb vb'
        simp only [hj, Bool.false_eq_true, ↓reduceIte, ← hb]
        simp [projList, proj_dropped vj hj]
  | cons k as iha =>
    intro bs ih va vb
    have vk := va k List.mem_cons_self
    have va' : ∀ x ∈ as, x.validFor g = true := fun x hx => va x (List.mem_cons_of_mem _ hx)
    have ih' : ∀ x ∈ as, RelSpec g cmp x := fun x hx => ih x (List.mem_cons_of_mem _ hx)
    rw [canonList_discardList_cons g k as]
    by_cases hk : keptBy g k = true
    · simp only [hk, ↓reduceIte]
      induction bs with
      | nil => simp [projList, proj_kept hk, forestEqv, discardList, canon.canonList, Canon.relList]
      | cons j bs ihb =>
        have vj := vb j List.mem_cons_self
        have vb' : ∀ x ∈ bs, x.validFor g = true := fun x hx => vb x (List.mem_cons_of_mem _ hx)
        rw [canonList_discardList_cons g j bs]
        by_cases hj : keptBy g j = true
        · have hkj := ih k List.mem_cons_self j vk vj hk hj
          have hrest := iha bs ih' va' vb'
          rw [proj_kept hk, proj_kept hj] at hkj
          simp only [forestEqv, Bool.and_true] at hkj
          simp only [projList, proj_kept hk, proj_kept hj, List.cons_append, List.nil_append, forestEqv,
            hj, ↓reduceIte, Canon.relList, hkj, hrest]
        · have hb := ihb vb'
          simp only [hj, Bool.false_eq_true, ↓reduceIte, ← hb]
          simp [projList, proj_dropped vj hj]
    · simp only [hk, Bool.false_eq_true, ↓reduceIte, ← iha bs ih' va' vb]
      simp [projList, proj_dropped vk hk]

theorem relSpec (g : Value → Bool) (cmp : TextCmp) (t : Tree) : RelSpec g cmp t := by
  induction t using Tree.induct_mem with
  | h v ks ih =>
    intro j vk vj nk nj
    obtain ⟨w, js⟩ := j
    obtain ⟨oa, _, _, va⟩ := validFor_node vk
    obtain ⟨ob, nb, _, vb⟩ := validFor_node vj
    have hv := compareValue_eq_rel (cmp := cmp) (a := .node v ks) (b := .node w js) oa ob nb
    have hl := forestEqv_projList_rel g cmp ks js ih va vb
    rw [proj_kept nk, proj_kept nj]
    simp only [Tree.value, Tree.kids] at hv
    simp only [forestEqv, nodeEqv, Bool.and_true, Tree.kids, discard, canon, Canon.rel, cvalue_discardList, hv, hl]

/-! ### Instances: no filter, and the XPath filter -/

mutual
theorem discard_true : ∀ t : Tree, discard (fun _ => true) t = t
  | .node v ks => by simp [discard, discardList_true ks]
theorem discardList_true : ∀ ks : List Tree, discardList (fun _ => true) ks = ks
  | [] => rfl
  | k :: ks => by simp [discardList, discard_true k, discardList_true ks]
end

mutual
theorem validFor_true : ∀ t : Tree, t.validFor (fun _ => true) = t.valid
  | .node v ks => by simp [Tree.validFor, Tree.valid, validForList_true ks]
theorem validForList_true : ∀ ks : List Tree,
    Tree.validFor.validForList (fun _ => true) ks = Tree.valid.validList ks
  | [] => rfl
  | k :: ks => by simp [Tree.validFor.validForList, Tree.valid.validList, validFor_true k, validForList_true ks]
end

theorem cvalue_rel_isNormal {cmp : TextCmp} {v w : Value} {ks js : List Tree}
    (h : CValue.rel cmp (cvalue v ks) (cvalue w js) = true) : v.isNormal = w.isNormal := by
  cases v <;> cases w <;> simp [cvalue, CValue.rel, Value.isNormal, Value.category] at h ⊢

/-- No filter, any text comparison, any two nodes of valid trees: the canonical forms are related
    up to `cmp`. -/
theorem advancedDeepEqual_all_rel (cmp : TextCmp) (a b : Tree) (va : a.valid = true) (vb : b.valid = true) :
    advancedDeepEqual (fun _ => true) cmp a b = Canon.rel cmp (canon a) (canon b) := by
  by_cases hn : a.value.isNormal = true ∧ b.value.isNormal = true
  · obtain ⟨na, nb⟩ := hn
    rw [advancedDeepEqual_eq _ _ _ _ na nb]
    have h := relSpec (fun _ => true) cmp a b (by rw [validFor_true]; exact va) (by rw [validFor_true]; exact vb)
      (by simp [keptBy, na]) (by simp [keptBy, nb])
    rw [discard_true, discard_true] at h
    exact h
  · have h' : ¬ a.value.isNormal = true ∨ ¬ b.value.isNormal = true := by
      by_cases ha : a.value.isNormal = true
      · exact Or.inr (fun hb => hn ⟨ha, hb⟩)
      · exact Or.inl ha
    rw [advancedDeepEqual_abnormal _ _ _ _ h']
    obtain ⟨v, ks⟩ := a
    obtain ⟨w, js⟩ := b
    obtain ⟨oa, _, _, _⟩ := valid_node va
    obtain ⟨ob, nb, _, _⟩ := valid_node vb
    rw [compareValue_eq_rel (a := .node v ks) (b := .node w js) oa ob nb]
    simp only [Tree.value, Tree.kids, canon, Canon.rel]
    cases hr : CValue.rel cmp (cvalue v ks) (cvalue w js)
    · rfl
    · have hnm := cvalue_rel_isNormal hr
      simp only [Tree.value] at h'
      have ha : ¬ v.isNormal = true := by rcases h' with h | h; exact h; rw [hnm]; exact h
      have hb : ¬ w.isNormal = true := by rw [← hnm]; exact ha
      have e1 := kids_nil_of_abnormal va (by simpa [Tree.value] using ha)
      have e2 := kids_nil_of_abnormal vb (by simpa [Tree.value] using hb)
      simp only [Tree.kids] at e1 e2
      subst e1 e2; rfl

theorem validFor_of_root {g : Value → Bool} {t : Tree} (h : t.validRootFor g = true) (hk : keptBy g t = true) :
    t.validFor g = true := by
  obtain ⟨v, ks⟩ := t
  simp only [Tree.validRootFor, Tree.kids, Bool.and_eq_true, List.all_eq_true] at h
  simp only [keptBy, Tree.value] at hk
  simp only [Tree.validFor, Bool.and_eq_true, Bool.or_eq_true, validForList_iff]
  exact ⟨⟨⟨h.1.1, h.1.2⟩, Or.inl (by simpa using hk)⟩, h.2⟩

/-- The XPath filter on two elements. -/
theorem xpath_elements_rel (cmp : TextCmp) (a b : Tree) (va : a.validRootFor xpathKeep = true)
    (vb : b.validRootFor xpathKeep = true) (ea : a.value.isElement = true) (eb : b.value.isElement = true) :
    advancedDeepEqual xpathFilter cmp a b =
      Canon.rel cmp (canon (discard xpathKeep a)) (canon (discard xpathKeep b)) := by
  have ka : keptBy xpathKeep a = true := by
    cases a with | node v ks => cases v <;> simp_all [keptBy, xpathKeep, Tree.value, Value.isElement, Value.isNormal, Value.category]
  have kb : keptBy xpathKeep b = true := by
    cases b with | node v ks => cases v <;> simp_all [keptBy, xpathKeep, Tree.value, Value.isElement, Value.isNormal, Value.category]
  have na : a.value.isNormal = true := by simp only [keptBy, Bool.and_eq_true] at ka; exact ka.1
  have nb : b.value.isNormal = true := by simp only [keptBy, Bool.and_eq_true] at kb; exact kb.1
  rw [advancedDeepEqual_eq _ _ _ _ na nb]
  exact relSpec xpathKeep cmp a b (validFor_of_root va ka) (validFor_of_root vb kb) ka kb

/-- The XPath filter on two documents: the document nodes themselves are filtered out, their
    children are compared as forests. -/
theorem xpath_documents_rel (cmp : TextCmp) (a b : Tree) (va : a.validRootFor xpathKeep = true)
    (vb : b.validRootFor xpathKeep = true) (da : a.value = .document) (db : b.value = .document) :
    advancedDeepEqual xpathFilter cmp a b =
      Canon.rel cmp (canon (discard xpathKeep a)) (canon (discard xpathKeep b)) := by
  obtain ⟨v, ks⟩ := a
  obtain ⟨w, js⟩ := b
  simp only [Tree.value] at da db
  subst da db
  simp only [Tree.validRootFor, Tree.kids, Bool.and_eq_true, List.all_eq_true] at va vb
  rw [advancedDeepEqual_eq _ _ _ _ (by rfl) (by rfl)]
  have hl := forestEqv_projList_rel xpathKeep cmp ks js (fun k _ => relSpec xpathKeep cmp k) va.2 vb.2
  have hk : ∀ l : List Tree, keepNode xpathFilter (.node .document l) = false := by
    intro l; simp [keepNode, xpathFilter, Tree.value, Value.isElement, Value.isText]
  have hf : xpathFilter = valueFilter xpathKeep := rfl
  simp only [proj, hk, Bool.false_eq_true, ↓reduceIte, discard, canon, Canon.rel, cvalue, CValue.rel, Bool.true_and]
  rw [hf]; exact hl

end XotModel
