/-
  XotModel.Lemmas.ArenaAbsSibling — refinement theorems for `checked_insert_after` /
  `checked_insert_before` (inside the list semantics): the forest model's `checkedInsertAfter` /
  `checkedInsertBefore` (`cut`, then `placeAfter` / `placeBefore`).
-/
import XotModel.Lemmas.ArenaAbsAppend

namespace XotModel
namespace Arena

/-- Placing the (cut, parentless) tree of `n` next to `ref` by `replaceBelow`. -/
theorem IsTrees.link_replaceBelow {a1 : Arena} {g1 : Shape} {w : View} (x1 : TreeCtx a1 g1 w) {rs1 : List Nat}
    {roots1 : List HTree} (htrees : IsTrees g1 w rs1 roots1) (hrs1 : ∀ k ∈ rs1, Live a1 k ∧ g1.par k = none)
    (ref n p : Nat) (A B : List Nat) (hr : Live a1 ref) (hpar : g1.par ref = some p) (hk : g1.kids p = A ++ ref :: B)
    (hanc : ¬ Reach g1.par p n) (tn : HTree) (htn : IsTree g1 w n tn)
    (L' R' X : List Nat) (F : HTree → List HTree) (hL : L' ++ n :: R' = A ++ X ++ B)
    (himage : ∀ tr, IsTree (g1.link p L' n R') w ref tr → IsTree (g1.link p L' n R') w n tn →
      IsTrees (g1.link p L' n R') w X (F tr)) :
    IsTrees (g1.link p L' n R') w rs1 (roots1.map (HTree.replaceBelow (w.rho ref) F)) := by
  have hkids' : (g1.link p L' n R').kids p = A ++ X ++ B := by simp [Shape.link, hL]
  have hpn : ∀ q, Reach g1.par q ref → q ≠ p := fun q hq e =>
    x1.rep.acyclic ref p hpar (e ▸ hq)
  have htr' : ∀ tr, IsTree g1 w ref tr → IsTree (g1.link p L' n R') w ref tr := by
    intro tr htr
    refine IsTree.congr (fun q => Reach g1.par q ref) ?_ htr (.refl _)
    intro q hq
    exact ⟨Shape.link_kids_ne g1 p L' n R' q (hpn q hq), rfl, rfl,
      fun k' hk'' => .step (x1.rep.kidsLive q k' hk'').2.2 hq⟩
  have htn' : IsTree (g1.link p L' n R') w n tn := by
    refine IsTree.congr (fun q => Reach g1.par q n) ?_ htn (.refl _)
    intro q hq
    have hqp : q ≠ p := fun e => hanc (e ▸ hq)
    exact ⟨Shape.link_kids_ne g1 p L' n R' q hqp, rfl, rfl, fun k' hk'' => .step (x1.rep.kidsLive q k' hk'').2.2 hq⟩
  have ra : ReplaceAt a1 g1 (g1.link p L' n R') w ref p A B X F :=
    ⟨hr, hpar, hk, hkids', fun tr htr => himage tr (htr' tr htr) htn',
     fun q _ hq _ => Shape.link_kids_ne g1 p L' n R' q hq⟩
  refine IsTrees.replaceBelowList x1 ra htrees (fun k hk' => ⟨(hrs1 k hk').1, fun hreach => ?_⟩)
  have hkn := (hrs1 k hk').2
  cases hreach with
  | refl => rw [hpar] at hkn; cases hkn
  | step hp _ => rw [hkn] at hp; cases hp

theorem Abs.checkedInsertAfter_ok {a : Arena} {g : Shape} {w : View} {rs : List Nat} {f : Forest} (h : Abs a g w rs f)
    (ref n p : Nat) (hr : Live a ref) (hn : Live a n) (hrn : ref ≠ n) (hpar : g.par ref = some p)
    (hanc : ¬ Reach g.par ref n) :
    ∃ a' A B, Arena.checkedInsertAfter a (a.idAt ref) (a.idAt n) = .done a' (.ok ()) ∧
      (f.checkedInsertAfter (w.rho ref) (w.rho n)).2 = true ∧
      Abs a' ((g.detach n).link p (A ++ [ref]) n B) w (rs.filter (· ≠ n)) (f.checkedInsertAfter (w.rho ref) (w.rho n)).1 := by
  obtain ⟨a', A, B, hcall, hk1, r', hM⟩ := h.ctx.rep.checkedInsertAfter_ok ref n p hr hn hrn hpar hanc
  obtain ⟨a1, _, r1, hM1⟩ := h.ctx.rep.detach (a.idAt n) (LiveId.idAt hn)
  rw [idAt_index0] at r1
  obtain ⟨tn, f1, hcut, _, htn1, htrees1, hnext, hcorrupt⟩ := h.cut n hn
  have hne : w.rho ref ≠ w.rho n := fun e => hrn (h.ctx.inj ref n hr hn e)
  have hcont : (f.ancestors (w.rho ref)).contains (w.rho n) = false := by
    cases hh : (f.ancestors (w.rho ref)).contains (w.rho n) with
    | false => rfl
    | true => exact absurd ((h.ancestors_contains ref n hr hn).mp hh) hanc
  have hnr : f.isRoot (w.rho ref) = false := by
    cases hroot : f.isRoot (w.rho ref) with
    | false => rfl
    | true =>
      have := ((h.rsMem ref).mp ((h.isRoot_iff ref hr).mp hroot)).2
      rw [hpar] at this; cases this
  have hfa : f.checkedInsertAfter (w.rho ref) (w.rho n) = (f1.placeAfter (w.rho ref) tn, true) := by
    unfold Forest.checkedInsertAfter
    simp only [hne, if_false, hcont, hnr, Bool.or_self, Bool.false_eq_true, hcut]
  rw [hfa]
  refine ⟨a', A, B, hcall, rfl, ?_⟩
  have x1 : TreeCtx a1 (g.detach n) w :=
    ⟨r1, fun u v hu hv => h.ctx.inj u v ((hM1.live u).mp hu) ((hM1.live v).mp hv)⟩
  have hpar1 : (g.detach n).par ref = some p := by rw [Shape.detach_par_ne g n ref hrn]; exact hpar
  have hanc1 : ¬ Reach (g.detach n).par p n := fun hreach =>
    hanc (.step hpar (Reach.mono (Shape.detach_par_le g n) hreach))
  refine ⟨⟨r', fun u v hu hv => h.ctx.inj u v ((hM.live u).mp hu) ((hM.live v).mp hv)⟩, ?_, h.rsNodup.filter _, ?_, ?_, ?_, ?_⟩
  · show IsTrees ((g.detach n).link p (A ++ [ref]) n B) w (rs.filter (· ≠ n)) (f1.roots.map _)
    refine IsTrees.link_replaceBelow x1 htrees1 (fun k hk => ?_) ref n p A B ((hM1.live ref).mpr hr) hpar1 hk1 hanc1 tn htn1
      (A ++ [ref]) B [ref, n] _ (by simp) (fun tr h1 h2 => .cons h1 (.cons h2 .nil))
    obtain ⟨hk1', hk2'⟩ := List.mem_filter.mp hk
    have hkn : k ≠ n := by simpa using hk2'
    exact ⟨(hM1.live k).mpr (h.rsLive k hk1'), by rw [Shape.detach_par_ne g n k hkn]; exact ((h.rsMem k).mp hk1').2⟩
  · intro j; exact h.rsMem_link hM p n _ _ j
  · intro u hu
    show w.rho u < f1.next
    rw [hnext]; exact h.below u ((hM.live u).mp hu)
  · intro j s v hs hd'
    obtain ⟨s0, hs0, _, hdata⟩ := hM.slot_some' hs
    exact h.vals j s0 v hs0 (by rw [← hdata]; exact hd')
  · show f1.corrupt = false
    rw [hcorrupt]; exact h.clean

theorem Abs.checkedInsertBefore_ok {a : Arena} {g : Shape} {w : View} {rs : List Nat} {f : Forest} (h : Abs a g w rs f)
    (ref n p : Nat) (hr : Live a ref) (hn : Live a n) (hrn : ref ≠ n) (hpar : g.par ref = some p)
    (hanc : ¬ Reach g.par ref n) :
    ∃ a' A B, Arena.checkedInsertBefore a (a.idAt ref) (a.idAt n) = .done a' (.ok ()) ∧
      (f.checkedInsertBefore (w.rho ref) (w.rho n)).2 = true ∧
      Abs a' ((g.detach n).link p A n (ref :: B)) w (rs.filter (· ≠ n)) (f.checkedInsertBefore (w.rho ref) (w.rho n)).1 := by
  obtain ⟨a', A, B, hcall, hk1, r', hM⟩ := h.ctx.rep.checkedInsertBefore_ok ref n p hr hn hrn hpar hanc
  obtain ⟨a1, _, r1, hM1⟩ := h.ctx.rep.detach (a.idAt n) (LiveId.idAt hn)
  rw [idAt_index0] at r1
  obtain ⟨tn, f1, hcut, _, htn1, htrees1, hnext, hcorrupt⟩ := h.cut n hn
  have hne : w.rho ref ≠ w.rho n := fun e => hrn (h.ctx.inj ref n hr hn e)
  have hcont : (f.ancestors (w.rho ref)).contains (w.rho n) = false := by
    cases hh : (f.ancestors (w.rho ref)).contains (w.rho n) with
    | false => rfl
    | true => exact absurd ((h.ancestors_contains ref n hr hn).mp hh) hanc
  have hnr : f.isRoot (w.rho ref) = false := by
    cases hroot : f.isRoot (w.rho ref) with
    | false => rfl
    | true =>
      have := ((h.rsMem ref).mp ((h.isRoot_iff ref hr).mp hroot)).2
      rw [hpar] at this; cases this
  have hfa : f.checkedInsertBefore (w.rho ref) (w.rho n) = (f1.placeBefore (w.rho ref) tn, true) := by
    unfold Forest.checkedInsertBefore
    simp only [hne, if_false, hcont, hnr, Bool.or_self, Bool.false_eq_true, hcut]
  rw [hfa]
  refine ⟨a', A, B, hcall, rfl, ?_⟩
  have x1 : TreeCtx a1 (g.detach n) w :=
    ⟨r1, fun u v hu hv => h.ctx.inj u v ((hM1.live u).mp hu) ((hM1.live v).mp hv)⟩
  have hpar1 : (g.detach n).par ref = some p := by rw [Shape.detach_par_ne g n ref hrn]; exact hpar
  have hanc1 : ¬ Reach (g.detach n).par p n := fun hreach =>
    hanc (.step hpar (Reach.mono (Shape.detach_par_le g n) hreach))
  refine ⟨⟨r', fun u v hu hv => h.ctx.inj u v ((hM.live u).mp hu) ((hM.live v).mp hv)⟩, ?_, h.rsNodup.filter _, ?_, ?_, ?_, ?_⟩
  · show IsTrees ((g.detach n).link p A n (ref :: B)) w (rs.filter (· ≠ n)) (f1.roots.map _)
    refine IsTrees.link_replaceBelow x1 htrees1 (fun k hk => ?_) ref n p A B ((hM1.live ref).mpr hr) hpar1 hk1 hanc1 tn htn1
      A (ref :: B) [n, ref] _ (by simp) (fun tr h1 h2 => .cons h2 (.cons h1 .nil))
    obtain ⟨hk1', hk2'⟩ := List.mem_filter.mp hk
    have hkn : k ≠ n := by simpa using hk2'
    exact ⟨(hM1.live k).mpr (h.rsLive k hk1'), by rw [Shape.detach_par_ne g n k hkn]; exact ((h.rsMem k).mp hk1').2⟩
  · intro j; exact h.rsMem_link hM p n _ _ j
  · intro u hu
    show w.rho u < f1.next
    rw [hnext]; exact h.below u ((hM.live u).mp hu)
  · intro j s v hs hd'
    obtain ⟨s0, hs0, _, hdata⟩ := hM.slot_some' hs
    exact h.vals j s0 v hs0 (by rw [← hdata]; exact hd')
  · show f1.corrupt = false
    rw [hcorrupt]; exact h.clean

end Arena
end XotModel
