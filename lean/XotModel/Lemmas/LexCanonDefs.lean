/-
  XotModel.Lemmas.LexCanonDefs — the byte positions the canonical rendering implies:
  `Token.place pos t` = the token `t` as the tokenizer reports it when `renderToken t` is written
  at byte offset `pos`; `placeTokens pos ts` does this for a whole list, one token after the
  other.  Placing changes positions (and the whole-token spans) only: `placeTokens_erase`.
-/
import XotModel.Model.LexOK

namespace XotModel

/-- The prefix and local-name spans of `prefix:local` written at byte `pos`
    (an absent prefix is xmlparser's `"".into()`: empty text, offset 0). -/
def placeQName (pos : Nat) (p l : Str) : StrSpan × StrSpan :=
  if p.isEmpty then (⟨[], 0⟩, ⟨l, pos⟩) else (⟨p, pos⟩, ⟨l, pos + strLen p + 1⟩)

/-- The token as read back from its canonical spelling at byte offset `pos`. -/
def Token.place (pos : Nat) : Token → Token
  | .elementStart p l _ =>
    .elementStart (placeQName (pos + 1) p.text l.text).1 (placeQName (pos + 1) p.text l.text).2
      ⟨'<' :: tokQName p.text l.text, pos⟩
  | .attribute p l v _ =>
    .attribute (placeQName (pos + 1) p.text l.text).1 (placeQName (pos + 1) p.text l.text).2
      ⟨v.text, pos + 1 + strLen (tokQName p.text l.text) + 2⟩
      ⟨tokQName p.text l.text ++ '=' :: '"' :: (v.text ++ ['"']), pos + 1⟩
  | .elementEnd .open _ => .elementEnd .open ⟨['>'], pos⟩
  | .elementEnd .empty _ => .elementEnd .empty ⟨['/', '>'], pos⟩
  | .elementEnd (.close p l) _ =>
    .elementEnd (.close (placeQName (pos + 2) p.text l.text).1 (placeQName (pos + 2) p.text l.text).2)
      ⟨'<' :: '/' :: (tokQName p.text l.text ++ ['>']), pos⟩
  | .text t => .text ⟨t.text, pos⟩
  | .cdata t sp => .cdata ⟨t.text, pos + 9⟩ ⟨renderToken (.cdata t sp), pos⟩
  | .comment t sp => .comment ⟨t.text, pos + 4⟩ ⟨renderToken (.comment t sp), pos⟩
  | .pi t none sp => .pi ⟨t.text, pos + 2⟩ none ⟨renderToken (.pi t none sp), pos⟩
  | .pi t (some c) sp =>
    .pi ⟨t.text, pos + 2⟩ (some ⟨c.text, pos + 2 + strLen t.text + 1⟩)
      ⟨renderToken (.pi t (some c) sp), pos⟩
  | t => t

/-- The token list as read back from `renderTokens ts` written at byte offset `pos`. -/
def placeTokens (pos : Nat) : List Token → List Token
  | [] => []
  | t :: ts => t.place pos :: placeTokens (pos + strLen (renderToken t)) ts

theorem placeQName_erase (pos : Nat) (p l : StrSpan) :
    (placeQName pos p.text l.text).1.erase = p.erase ∧ (placeQName pos p.text l.text).2.erase = l.erase := by
  unfold placeQName
  split
  · next h =>
    have : p.text = [] := by simpa using h
    simp [StrSpan.erase, this]
  · simp [StrSpan.erase]

theorem Token.place_erase (pos : Nat) (t : Token) : (t.place pos).erase = t.erase := by
  cases t with
  | elementStart p l sp =>
    simp only [Token.place, Token.erase, (placeQName_erase (pos + 1) p l).1, (placeQName_erase (pos + 1) p l).2]
  | «attribute» p l v sp =>
    have h1 := (placeQName_erase (pos + 1) p l).1
    have h2 := (placeQName_erase (pos + 1) p l).2
    simp only [Token.place, Token.erase, h1, h2]
    rfl
  | elementEnd e sp =>
    cases e with
    | «open» => rfl
    | empty => rfl
    | close p l =>
      simp only [Token.place, Token.erase, (placeQName_erase (pos + 2) p l).1, (placeQName_erase (pos + 2) p l).2]
  | pi t c sp => cases c <;> rfl
  | _ => rfl

/-- Placing forgets nothing but positions. -/
theorem placeTokens_erase (pos : Nat) (ts : List Token) :
    (placeTokens pos ts).map Token.erase = ts.map Token.erase := by
  induction ts generalizing pos with
  | nil => rfl
  | cons t ts ih => simp [placeTokens, Token.place_erase, ih]

theorem placeTokens_length (pos : Nat) (ts : List Token) : (placeTokens pos ts).length = ts.length := by
  induction ts generalizing pos with
  | nil => rfl
  | cons t ts ih => simp [placeTokens, ih]

/-! ### Placed tokens pass `check_qname` (/repo a5fafb0): an absent prefix is placed at offset 0 -/

theorem placeQName_bareColon (pos : Nat) (p l : Str) : (placeQName pos p l).1.bareColon = false := by
  unfold placeQName
  split
  · rfl
  · next h =>
    cases p with
    | nil => simp at h
    | cons c cs => simp [StrSpan.bareColon]

theorem Token.place_prefixOk (pos : Nat) (t : Token) : (t.place pos).prefixOk = true := by
  cases t with
  | elementStart p l sp => simp [Token.place, Token.prefixOk, placeQName_bareColon]
  | «attribute» p l v sp => simp [Token.place, Token.prefixOk, placeQName_bareColon]
  | elementEnd e sp => cases e <;> simp [Token.place, Token.prefixOk, placeQName_bareColon]
  | pi t c sp => cases c <;> rfl
  | text t => rfl
  | cdata t sp => rfl
  | comment t sp => rfl
  | _ => rfl

theorem placeTokens_prefixOk : ∀ (ts : List Token) (pos : Nat),
    tokensPrefixOk (placeTokens pos ts) = true := by
  intro ts
  induction ts with
  | nil => intro _; rfl
  | cons t r ih =>
    intro pos
    simp only [placeTokens, tokensPrefixOk, List.all_cons, Bool.and_eq_true]
    exact ⟨Token.place_prefixOk pos t, ih _⟩

end XotModel
