/-
  Lemmas for C20 (any construction order), part 8: after the argument checks nothing goes wrong.

  `moveImpl_ok`: on a forest satisfying `Forest.Inv` a move that has passed xot's argument checks is
  answered `ok` — indextree's `checked_append` / `checked_prepend` / `checked_insert_*` cannot refuse
  (no late `NodeError`).  (This is part of C06, `C06_append` …, re-derived here from the C05
  development because C06's lemma family cannot be imported next to C05's.)  With it the
  specification's well-formedness test is EXACTLY "the implementation answers `ok`".
-/
import XotModel.Lemmas.FanyorderMove

namespace XotModel
namespace Prog
open HTree Spec

/-- A refused consolidation attempt leaves the forest alone. -/
theorem addConsolidate_false (f : Forest) (n : Nat) (a b : Option Nat)
    (h : (f.addConsolidate n a b).2 = false) : (f.addConsolidate n a b).1 = f := by
  rw [Forest.addConsolidate_eq_old] at h ⊢
  generalize f.selfPrev n a = a at h ⊢
  generalize f.selfNext n b = b at h ⊢
  unfold Forest.addConsolidateOld at h ⊢
  cases hc : f.consolidation with
  | false => simp
  | true =>
    simp only [hc, Bool.not_true, Bool.false_eq_true, if_false] at h ⊢
    cases ht : f.textOf n with
    | none => simp
    | some added =>
      simp only [ht] at h ⊢
      have tail : ∀ (hb : (match b with
          | some n_1 => (match f.textOf n_1 with
            | some ns => ((f.setValue n_1 (Value.text (added ++ ns))).spliceOut n, true)
            | none => (f, false))
          | none => (f, false)).2 = false),
          (match b with
          | some n_1 => (match f.textOf n_1 with
            | some ns => ((f.setValue n_1 (Value.text (added ++ ns))).spliceOut n, true)
            | none => (f, false))
          | none => (f, false)).1 = f := by
        intro hb
        cases b with
        | none => rfl
        | some nx =>
          cases hn : f.textOf nx with
          | none => simp [hn]
          | some ns => simp [hn] at hb
      cases a with
      | none => exact tail h
      | some p =>
        cases hp : f.textOf p with
        | some ps => simp [hp] at h
        | none =>
          simp only [hp] at h ⊢
          exact tail h

/-- The forest after xot's old-site merge still has distinct handles and still holds the subtree
    that is about to move, unchanged. -/
theorem old_state {f : Forest} {n : Nat} {t : HTree} (inv : f.Inv) (norm : f.Normal)
    (hgc : f.get? n = some t) :
    (f.removeConsolidate (f.prevSibling n) (f.nextSibling n)).1.allHandles.Nodup ∧
    (f.removeConsolidate (f.prevSibling n) (f.nextSibling n)).1.get? n = some t := by
  have nd := inv.nodup
  rcases Forest.root_or_ctx hgc with hroot | ⟨cx, hctx⟩
  · have hno := Forest.ctx_none_of_root nd hroot
    rw [Forest.prevSibling_of_no_ctx hno, Forest.removeConsolidate_none_left]
    exact ⟨nd, hgc⟩
  · obtain ⟨e0, vo, so⟩ := SiteAt.of_ctx nd hctx
    have hself : cx.self = t := by
      have := Forest.get?_of_ctx nd hctx
      rw [hgc] at this
      exact (Option.some.inj this).symm
    obtain ⟨po, l, k, r⟩ := cx
    simp only at e0 so hself
    subst hself
    subst e0
    rw [Forest.prevSibling_of_ctx hctx, Forest.nextSibling_of_ctx hctx]
    simp only
    obtain ⟨l1, r1, sX, _, _, _⟩ := (old_stage inv norm so).site so (so.leaf inv.valid)
    exact ⟨sX.nd, sX.getKid⟩

/-- `checked_append` / `checked_prepend` cannot refuse a node that does not contain the parent. -/
theorem not_self_or_ancestor {X : Forest} {p c : Nat} {t : HTree} (nd : X.allHandles.Nodup)
    (hg : X.get? c = some t) (hpt : p ∉ handles t) :
    (p = c || (X.ancestors p).contains c) = false := by
  have htc : t.handle = c := (findList?_some X.roots t hg).1
  have h1 : p ≠ c := fun e => hpt (e ▸ htc ▸ fs_handle_mem_handles t)
  have h2 : (X.ancestors p).contains c = false := by
    cases h : (X.ancestors p).contains c with
    | false => rfl
    | true =>
      obtain ⟨u, hu, hpu⟩ := (Forest.ancestors_contains_iff nd).1 h
      rw [hg] at hu
      have := Option.some.inj hu
      subst this
      exact absurd hpu hpt
  rw [h2, Bool.or_false]
  exact decide_eq_false h1

theorem checkedAppend_true {X : Forest} {p c : Nat} {t : HTree} (nd : X.allHandles.Nodup)
    (hg : X.get? c = some t) (hpt : p ∉ handles t) : (X.checkedAppend p c).2 = true := by
  unfold Forest.checkedAppend
  rw [not_self_or_ancestor nd hg hpt]
  simp only [Bool.false_eq_true, if_false]
  split <;> rfl

theorem checkedPrepend_true {X : Forest} {p c : Nat} {t : HTree} (nd : X.allHandles.Nodup)
    (hg : X.get? c = some t) (hpt : p ∉ handles t) : (X.checkedPrepend p c).2 = true := by
  unfold Forest.checkedPrepend
  rw [not_self_or_ancestor nd hg hpt]
  simp only [Bool.false_eq_true, if_false]
  split <;> rfl

theorem checkedInsertAfter_true {X : Forest} {r c : Nat} (h : r ≠ c) : (X.checkedInsertAfter r c).2 = true := by
  unfold Forest.checkedInsertAfter
  rw [if_neg h]
  split
  · rfl
  · split <;> rfl

theorem checkedInsertBefore_true {X : Forest} {r c : Nat} (h : r ≠ c) : (X.checkedInsertBefore r c).2 = true := by
  unfold Forest.checkedInsertBefore
  rw [if_neg h]
  split
  · rfl
  · split <;> rfl

/-- The insertion point of `prepend` (an attribute or namespace child) is not the normal node `c`. -/
theorem prependPoint_ne {X : Forest} {p c ip : Nat} {t : HTree} (nd : X.allHandles.Nodup)
    (hg : X.get? c = some t) (hn : t.value.isNormal = true) (hip : X.prependPoint p = some ip) : ip ≠ c := by
  unfold Forest.prependPoint at hip
  cases hp : X.get? p with
  | none => rw [hp] at hip; cases hip
  | some tp =>
    rw [hp] at hip
    simp only [Option.map_eq_some_iff] at hip
    obtain ⟨k, hk, hkh⟩ := hip
    have hkm : k ∈ tp.kids.takeWhile (fun k => k.value.category != .normal) := List.mem_of_getLast? hk
    have hkc : (k.value.category != .normal) = true :=
      (List.all_eq_true.mp (List.all_takeWhile (l := tp.kids) (p := fun k => k.value.category != .normal))) k hkm
    have hkk : k ∈ tp.kids := (List.takeWhile_sublist _).subset hkm
    intro e
    obtain ⟨A, B, hAB⟩ := List.append_of_mem hkk
    cases tp with
    | node h v ks =>
      simp only [HTree.kids] at hAB
      have hh : h = p := (findList?_some X.roots _ hp).1
      subst hh
      rw [hAB] at hp
      have hs : SiteAt X h v (A ++ k :: B) := ⟨nd, hp⟩
      have := hs.getKid
      rw [hkh, e, hg] at this
      have := Option.some.inj this
      subst this
      simp only [Value.isNormal] at hn
      simp [bne, hn] at hkc

/-- The left sibling of a node is not the node. -/
theorem prevSibling_ne {f : Forest} {n : Nat} (nd : f.allHandles.Nodup) : f.prevSibling n ≠ some n := by
  intro h
  cases hctx : f.ctx? n with
  | none => rw [Forest.prevSibling_of_no_ctx hctx] at h; cases h
  | some cx =>
    obtain ⟨e0, vo, so⟩ := SiteAt.of_ctx nd hctx
    rw [Forest.prevSibling_of_ctx hctx] at h
    unfold prevOf at h
    cases hl : cx.left.getLast? with
    | none => rw [hl] at h; cases h
    | some a =>
      rw [hl] at h
      simp only at h
      split at h
      · have ha : a ∈ cx.left := List.mem_of_getLast? hl
        obtain ⟨ndL, _⟩ := so.nodupKids
        obtain ⟨tl, _⟩ := tops_ne_of_nodup ndL
        have := tl a ha
        rw [e0] at this
        exact this (Option.some.inj h)
      · cases h

theorem insertAfterTail_ok (X : Forest) {ref n : Nat} (h : ref ≠ n) : (insertAfterTail X ref n).2 = .ok := by
  unfold insertAfterTail
  simp only
  by_cases h2 : (X.addConsolidate n (some ref) (X.nextSibling ref)).2 = true
  · rw [if_pos h2]
  · rw [if_neg h2, addConsolidate_false _ _ _ _ (Bool.eq_false_iff.2 h2), checkedInsertAfter_true h]
    rfl

theorem insertBeforeTail_ok (X : Forest) {ref n : Nat} (h : ref ≠ n) : (insertBeforeTail X ref n).2 = .ok := by
  unfold insertBeforeTail
  simp only
  by_cases h2 : (X.addConsolidate n (X.prevSibling ref) (some ref)).2 = true
  · rw [if_pos h2]
  · rw [if_neg h2, addConsolidate_false _ _ _ _ (Bool.eq_false_iff.2 h2), checkedInsertBefore_true h]
    rfl

theorem prependTail_ok {X : Forest} {p c : Nat} {t : HTree} (nd : X.allHandles.Nodup) (hg : X.get? c = some t)
    (hpt : p ∉ handles t) (hn : t.value.isNormal = true) : (prependTail X p c).2 = .ok := by
  unfold prependTail
  simp only
  by_cases h2 : (X.addConsolidate c none (X.firstChild p)).2 = true
  · rw [if_pos h2]
  · rw [if_neg h2, addConsolidate_false _ _ _ _ (Bool.eq_false_iff.2 h2)]
    cases hip : X.prependPoint p with
    | some ip =>
      simp only
      rw [checkedInsertAfter_true (prependPoint_ne nd hg hn hip)]
      rfl
    | none =>
      simp only
      rw [checkedPrepend_true nd hg hpt]
      rfl

/-- **After the checks nothing goes wrong**: a move that passes xot's argument checks is `ok`. -/
theorem moveImpl_ok {f : Forest} {d : Dest} {n : Nat} (inv : f.Inv) (norm : f.Normal)
    (hck : implCheck f d n = true) : (moveImpl f d n).2 = .ok := by
  have nd := inv.nodup
  cases d with
  | lastChildOf p =>
    simp only [implCheck] at hck
    obtain ⟨vp, Lp, t, hgp, hgc, hpt, hnorm, hndoc, hvp⟩ := Forest.structureCheck_unpack nd hck
    obtain ⟨xnd, xg⟩ := old_state inv norm hgc
    simp only [moveImpl]
    rw [Forest.append_unfold]
    simp only [hck, Bool.not_true, Bool.false_eq_true, if_false]
    by_cases hs : (f.lastChild p == some n) = true
    · rw [if_pos hs]
    · rw [if_neg hs]
      by_cases h2 : ((f.removeConsolidate (f.prevSibling n) (f.nextSibling n)).1.addConsolidate n
          ((f.removeConsolidate (f.prevSibling n) (f.nextSibling n)).1.lastChild p) none).2 = true
      · rw [if_pos h2]
      · rw [if_neg h2, addConsolidate_false _ _ _ _ (Bool.eq_false_iff.2 h2), checkedAppend_true xnd xg hpt]
        rfl
  | firstNormalChildOf p =>
    simp only [implCheck] at hck
    obtain ⟨vp, Lp, t, hgp, hgc, hpt, hnorm, hndoc, hvp⟩ := Forest.structureCheck_unpack nd hck
    obtain ⟨xnd, xg⟩ := old_state inv norm hgc
    simp only [moveImpl]
    rw [prepend_unfold]
    simp only [hck, Bool.not_true, Bool.false_eq_true, if_false]
    by_cases hs : (f.firstChild p == some n) = true
    · rw [if_pos hs]
    · rw [if_neg hs]
      exact prependTail_ok xnd xg hpt hnorm
  | after r =>
    simp only [implCheck, Bool.and_eq_true] at hck
    obtain ⟨h1, h2⟩ := hck
    have hrn : r ≠ n := by
      simp only [Forest.siblingReferenceCheck, Bool.and_eq_true, bne_iff_ne] at h2; exact h2.1
    simp only [moveImpl]
    rw [insertAfter_unfold]
    simp only [h1, h2, Bool.not_true, Bool.false_eq_true, if_false]
    by_cases hs : (f.nextSibling r == some n) = true
    · rw [if_pos hs]
    · rw [if_neg hs]
      apply insertAfterTail_ok
      split
      · cases hp : f.prevSibling n with
        | none => exact hrn
        | some a =>
          simp only [Option.getD_some]
          intro e
          exact prevSibling_ne (n := n) nd (by rw [hp, e])
      · exact hrn
  | before r =>
    simp only [implCheck, Bool.and_eq_true] at hck
    obtain ⟨h1, h2⟩ := hck
    have hrn : r ≠ n := by
      simp only [Forest.siblingReferenceCheck, Bool.and_eq_true, bne_iff_ne] at h2; exact h2.1
    simp only [moveImpl]
    rw [insertBefore_unfold]
    simp only [h1, h2, Bool.not_true, Bool.false_eq_true, if_false]
    by_cases hs : (f.prevSibling r == some n) = true
    · rw [if_pos hs]
    · rw [if_neg hs]
      exact insertBeforeTail_ok _ hrn

end Prog
end XotModel
