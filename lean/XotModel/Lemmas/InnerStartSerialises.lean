/-
  Round trip for a start node INSIDE a tree, part 3: strings.

  * `serializeString_standalone`: `to_string(node at q)` IS `to_string(root of standalone t q)` — same
    text, same error — for every tree whose declared prefixes have a spelling (`declsNamed`).
  * `serTokensAt_ok_iff`: for a `nodeOK` tree, serialising from `q` succeeds exactly when
    `namesWritable env t q` (the serialiser's own `MissingPrefix` checks, started from
    `namespaces_in_scope(node)`) answers `true`.
-/
import XotModel.Lemmas.InnerStartRepresentable
import XotModel.Lemmas.RoundTripSerialises

namespace XotModel
open XotModel.Repair

variable {env : Env}

/-- **`to_string(inner element)` is `to_string(standalone document)`**, whatever the token parameters
    (no CDATA-section elements). -/
theorem serializeString_standalone (pr : TokenParams) (hcd : pr.cdataSectionElements = []) (t : Tree)
    (q : Path) (name : Nat) (ks : List Tree) (hx : env.prefixStr Env.xmlPrefix ≠ [])
    (ht : t.allNodes (declsNamed env) = true) (hat : t.at? q = some (.node (.element name) ks)) :
    ∃ t', standalone t q = some t' ∧ serializeString env pr t q = serializeString env pr t' [] := by
  obtain ⟨rest, hchain⟩ := ancestorsOrSelf_of_at? t q _ hat
  obtain ⟨t', h1, h2⟩ := serTokensAt_standalone (env := env) pr.unescapedGt t q name ks hat
  refine ⟨t', h1, ?_⟩
  have h3 := standalone_eq t q name ks rest hat hchain
  rw [h1, Option.some.injEq] at h3
  have hd := standalone_declsNamed (env := env) t q name ks rest hat hchain ht
  rw [← h3] at hd
  show serializeStringWith xmlEscapers env pr t q = serializeStringWith xmlEscapers env pr t' []
  rw [serializeString_serTokensAt env pr t hcd q hx ht, serializeString_serTokensAt env pr t' hcd [] hx hd, h2]

/-! ### When does serialisation from an inner node succeed? -/

/-- Whether the start node writes the inherited declarations does not change whether it succeeds. -/
theorem exceptIsOk_serNode_top (ugt : Bool) (I : List (Nat × Nat)) (s : FStack) (n : Tree) :
    exceptIsOk (serNode env ugt I true s n) = exceptIsOk (serNode env ugt I false s n) := by
  cases n with
  | node v ks =>
    cases v with
    | element name =>
      rw [serNode, serNode]
      split
      · rfl
      · split
        · rfl
        · split
          · rfl
          · split
            · rfl
            · rfl
    | document => simp [serNode]
    | text str => rw [serNode, serNode]
    | comment str => rw [serNode, serNode]
    | pi target data => rw [serNode, serNode]
    | «attribute» a b => simp [serNode]
    | «namespace» a b => simp [serNode]

/-- For a tree that is `nodeOK` everywhere (sane tables): serialising from the node at `q` succeeds
    iff `namesWritable env t q` answers `true`. -/
theorem serTokensAt_ok_iff (henv : envOK env = true) (ugt : Bool) (t : Tree) (q : Path) (sub : Tree)
    (hok : t.allNodes (nodeOK env) = true) (hat : t.at? q = some sub) :
    exceptIsOk (serTokensAt env ugt t q) = true ↔ namesWritable env t q = some true := by
  have he := envFacts_of_envOK henv
  obtain ⟨rest, hchain⟩ := ancestorsOrSelf_of_at? t q _ hat
  have hsub : sub.allNodes (nodeOK env) = true := ist_allNodes_at? q t _ hok hat
  have hpi := nodeOK_piOK he _ hsub
  simp only [serTokensAt, hat, namespacesInScope, hchain, Option.map_some, namesWritable,
    namesWritableChain_eq, Option.some.injEq]
  rw [exceptIsOk_serNode_top, serNode_ok_iff ugt _ sub _ hpi]
  rfl

end XotModel
