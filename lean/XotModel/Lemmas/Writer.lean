/-
  XotModel.Lemmas.Writer — the failing writer (`Model/Writer.lean`): a threaded loop is its trace
  replayed; a replay ends `Io` or as the trace ends; what the writer holds is a prefix of the trace's
  bytes; the call budget.
-/
import XotModel.Model.Writer

namespace XotModel

theorem writeCalls_append (P : WriterPolicy) (hist a b : List Str) :
    writeCalls P hist (a ++ b) =
      (match writeCalls P hist a with
       | .ok h => writeCalls P h b
       | .error e => .error e) := by
  induction a generalizing hist with
  | nil => simp [writeCalls]
  | cons c cs ih =>
    simp only [List.cons_append, writeCalls]
    cases P hist c with
    | none => exact ih _
    | some k => rfl

/-- Accepted calls are recorded in order. -/
theorem writeCalls_ok (P : WriterPolicy) (hist cs h : List Str) (hw : writeCalls P hist cs = .ok h) :
    h = hist ++ cs := by
  induction cs generalizing hist with
  | nil => simp [writeCalls] at hw; simp [hw]
  | cons c cs ih =>
    simp only [writeCalls] at hw
    cases hp : P hist c with
    | none => rw [hp] at hw; simp only [] at hw; rw [ih _ hw]; simp
    | some k => rw [hp] at hw; cases hw

/-- At a refusal the writer holds a prefix of what was offered. -/
theorem writeCalls_error (P : WriterPolicy) (hist cs : List Str) (b : Str)
    (hw : writeCalls P hist cs = .error b) : ∃ rest, (hist ++ cs).flatten = b ++ rest := by
  induction cs generalizing hist with
  | nil => simp [writeCalls] at hw
  | cons c cs ih =>
    simp only [writeCalls] at hw
    cases hp : P hist c with
    | none =>
      rw [hp] at hw; simp only [] at hw
      obtain ⟨rest, h⟩ := ih _ hw
      exact ⟨rest, by rw [← h]; simp⟩
    | some k =>
      rw [hp] at hw; simp only [] at hw
      injection hw with hw
      refine ⟨c.drop k ++ cs.flatten, ?_⟩
      rw [← hw]
      simp only [List.flatten_append, List.flatten_cons, List.append_assoc]
      rw [← List.append_assoc (c.take k), List.take_append_drop]

theorem writeCalls_unlimited (hist cs : List Str) :
    writeCalls WriterPolicy.unlimited hist cs = .ok (hist ++ cs) := by
  induction cs generalizing hist with
  | nil => simp [writeCalls]
  | cons c cs ih => simp only [writeCalls, WriterPolicy.unlimited]; rw [ih]; simp

/-- The call budget: everything is accepted while the budget lasts; the call after the last
    budgeted one is refused and the writer holds the calls before it. -/
theorem writeCalls_budget (k : Nat) (hist cs : List Str) (hk : hist.length ≤ k) :
    writeCalls (WriterPolicy.budget (some k)) hist cs =
      if hist.length + cs.length ≤ k then .ok (hist ++ cs)
      else .error (hist ++ cs.take (k - hist.length)).flatten := by
  induction cs generalizing hist with
  | nil =>
    simp only [writeCalls, List.length_nil, Nat.add_zero, List.append_nil, List.take_nil]
    rw [if_pos hk]
  | cons c cs ih =>
    simp only [writeCalls, WriterPolicy.budget]
    by_cases hlt : hist.length < k
    · rw [if_pos hlt]
      simp only []
      have := ih (hist ++ [c]) (by simp; omega)
      simp only [WriterPolicy.budget] at this
      rw [this]
      simp only [List.length_append, List.length_cons, List.length_nil, Nat.zero_add]
      by_cases hle : hist.length + (cs.length + 1) ≤ k
      · have hle' : hist.length + 1 + cs.length ≤ k := by omega
        rw [if_pos hle, if_pos hle']; simp
      · have hle' : ¬ hist.length + 1 + cs.length ≤ k := by omega
        rw [if_neg hle, if_neg hle']
        have e2 : k - hist.length = (k - (hist.length + 1)) + 1 := by omega
        rw [e2, List.take_succ_cons]
        simp
    · rw [if_neg hlt]
      simp only [List.length_cons]
      have hn : ¬ (hist.length + (cs.length + 1) ≤ k) := by omega
      rw [if_neg hn]
      have e2 : k - hist.length = 0 := by omega
      rw [e2]
      simp

/-! ### Replaying a trace -/

theorem replayCalls_append (P : WriterPolicy) (hist a b : List Str) (r : Outcome XotError Unit) :
    replayCalls P hist (a ++ b, r) =
      (match writeCalls P hist a with
       | .ok h => replayCalls P h (b, r)
       | .error e => (e, .err .io)) := by
  simp only [replayCalls, writeCalls_append]
  cases writeCalls P hist a <;> rfl

/-- A threaded loop is its trace replayed against the writer. -/
theorem writeLoopW_eq_replayCalls {σ α : Type} (P : WriterPolicy)
    (step : σ → α → List Str × Outcome XotError σ) (hist : List Str) (s : σ) (items : List α) :
    writeLoopW P step hist s items = replayCalls P hist (callsLoop step s items) := by
  induction items generalizing hist s with
  | nil => simp [writeLoopW, callsLoop, replayCalls, writeCalls]
  | cons a rest ih =>
    simp only [writeLoopW, callsLoop]
    cases hr : (step s a).2 with
    | ok s' =>
      simp only []
      rw [replayCalls_append]
      cases hw : writeCalls P hist (step s a).1 with
      | ok h => simp only []; exact ih h s'
      | error e => rfl
    | err e =>
      simp only [replayCalls]
      cases hw : writeCalls P hist (step s a).1 <;> rfl
    | panic =>
      simp only [replayCalls]
      cases hw : writeCalls P hist (step s a).1 <;> rfl

/-- A replay ends as the trace ends, or `Io`. -/
theorem replayCalls_outcome (P : WriterPolicy) (hist : List Str) (tr : List Str × Outcome XotError Unit) :
    (replayCalls P hist tr = ((hist ++ tr.1).flatten, tr.2)) ∨ (replayCalls P hist tr).2 = .err .io := by
  unfold replayCalls
  cases hw : writeCalls P hist tr.1 with
  | ok h => left; rw [writeCalls_ok P _ _ _ hw]
  | error b => right; rfl

/-- What the writer holds at the end is a prefix of the trace's bytes. -/
theorem replayCalls_prefix (P : WriterPolicy) (hist : List Str) (tr : List Str × Outcome XotError Unit) :
    ∃ rest, (hist ++ tr.1).flatten = (replayCalls P hist tr).1 ++ rest := by
  unfold replayCalls
  cases hw : writeCalls P hist tr.1 with
  | ok h => exact ⟨[], by rw [writeCalls_ok P _ _ _ hw]; simp⟩
  | error b => exact writeCalls_error P _ _ _ hw

/-- A replay never turns into a panic: it panics only if the trace ends in one. -/
theorem replayCalls_panic (P : WriterPolicy) (hist : List Str) (tr : List Str × Outcome XotError Unit)
    (h : (replayCalls P hist tr).2 = .panic) : tr.2 = .panic := by
  rcases replayCalls_outcome P hist tr with h' | h'
  · rw [h'] at h; exact h
  · rw [h'] at h; cases h

theorem replayCalls_unlimited (hist : List Str) (tr : List Str × Outcome XotError Unit) :
    replayCalls WriterPolicy.unlimited hist tr = ((hist ++ tr.1).flatten, tr.2) := by
  simp [replayCalls, writeCalls_unlimited]

/-- Call budget `k`, from an empty history: enough budget gives the trace's own end with all its bytes;
    otherwise `Io`, the writer holding exactly the first `k` calls. -/
theorem replayCalls_budget (k : Nat) (tr : List Str × Outcome XotError Unit) :
    replayCalls (WriterPolicy.budget (some k)) [] tr =
      if tr.1.length ≤ k then (tr.1.flatten, tr.2) else ((tr.1.take k).flatten, .err .io) := by
  simp only [replayCalls, writeCalls_budget k [] tr.1 (Nat.zero_le _), List.length_nil, Nat.zero_add,
    List.nil_append, Nat.sub_zero]
  by_cases h : tr.1.length ≤ k
  · rw [if_pos h, if_pos h]
  · rw [if_neg h, if_neg h]

end XotModel
