/-
  FspecInsertBefore — C05 for `insert_before`.
-/
import XotModel.Lemmas.FspecInsertAfter

namespace XotModel
open HTree Spec

def insertBeforeTail (X : Forest) (ref c : Nat) : Forest × Res :=
  let r2 := X.addConsolidate c (X.prevSibling ref) (some ref)
  if r2.2 then (r2.1, .ok) else
  let r3 := r2.1.checkedInsertBefore ref c
  if r3.2 then (r3.1, .ok) else (r3.1, .err .nodeError)

theorem insertBefore_unfold (f : Forest) (ref new : Nat) :
    f.insertBefore ref new =
      if !f.structureCheck (f.parent? ref) new then (f, .err .invalidOperation) else
      if !f.siblingReferenceCheck ref new then (f, .err .invalidOperation) else
      if f.prevSibling ref == some new then (f, .ok) else
      insertBeforeTail (f.removeConsolidate (f.prevSibling new) (f.nextSibling new)).1 ref new := rfl

/-- The second half of `insert_before` against the specification, given the package `Far` and
    what the model reads off the destination list (`View`). -/
theorem insertBeforeTail_core {f : Forest} {c : Nat} {t : HTree} {q : Nat} {vq : Value} {A : List HTree}
    {kr : HTree} {B : List HTree} {X Y : Forest} {φ : HTree → HTree} (inv : f.Inv)
    (F : Far f (Keep.resident c) c t q vq (A ++ kr :: B) X Y φ) (V : View f (A ++ kr :: B))
    (hpar : f.parent? kr.handle = some q)
    (hprevV : X = f → f.prevSibling kr.handle = prevOf A kr)
    (hplace : X.checkedInsertBefore kr.handle c = (Y.editAt (some q) (insertBeforeTop kr.handle t), true))
    (hgc : f.get? c = some t) (hX : X = f ∨ textData t = none) (hrc : kr.handle ≠ c)
    (hkrn : kr.value.isNormal = true)
    (hsame : ¬ prevOf A kr = some c)
    (hocc : Dest.occupiedBy f c (.before kr.handle) = false) :
    (insertBeforeTail X kr.handle c).1 = specMove (Keep.resident c) (.before kr.handle) c f := by
  have htc : t.handle = c := (findList?_some f.roots t hgc).1
  have hsite : Dest.site f (.before kr.handle) = some q := by
    simp only [Dest.site]; exact hpar
  have hspec := F.spec (.before kr.handle) hocc hsite (fun ψ hk hψ => natFor_insertBeforeTop hk _ hψ)
  simp only [Dest.insert] at hspec
  rw [hspec]
  have hYc : (Y.editAt (some q) (insertBeforeTop kr.handle t)).consolidation = f.consolidation := by
    rw [Forest.editAt_consolidation, F.ycons]
  have hXtext : X.textOf c = textData t := Forest.textOf_of_get F.xget
  have hmapL : (A ++ kr :: B).map φ = A.map φ ++ φ kr :: B.map φ := by simp
  have sY : SiteAt Y q vq (A.map φ ++ φ kr :: B.map φ) := hmapL ▸ F.ysite
  obtain ⟨ndLY, _⟩ := sY.nodupKids
  have htopsA : ∀ k ∈ A.map φ, k.handle ≠ kr.handle := by
    have := (tops_ne_of_nodup ndLY).1
    rw [F.kid.handle] at this
    exact this
  have hI : insertBeforeTop kr.handle t (A.map φ ++ φ kr :: B.map φ) = A.map φ ++ t :: φ kr :: B.map φ := by
    have := insertBeforeTop_mid (A := A.map φ) (w := φ kr) (B := B.map φ) t (by rw [F.kid.handle]; exact htopsA)
    rw [F.kid.handle] at this
    exact this
  have hstrictY : f.consolidation = true → noAdjacentText (A.map φ ++ φ kr :: B.map φ) = true := by
    intro hc
    rw [← hmapL, noAdj_map F.kid]
    exact V.noadj hc
  have flow1 : X.addConsolidate c (X.prevSibling kr.handle) (some kr.handle) = (X, false) →
      (f.consolidation = true → ∀ ka, A.getLast? = some ka → ¬ (ka.value.isText = true ∧ t.value.isText = true)) →
      (f.consolidation = true → ¬ (t.value.isText = true ∧ kr.value.isText = true)) →
      (insertBeforeTail X kr.handle c).1 =
        (Y.editAt (some q) (insertBeforeTop kr.handle t)).mergeAt (Keep.resident c) (some q) := by
    intro hr2 hs1 hs2
    unfold insertBeforeTail
    rw [hr2]
    simp only [Bool.false_eq_true, if_false]
    rw [hplace]
    simp only [if_true]
    rcases Bool.eq_false_or_eq_true f.consolidation with hc | hc
    · rw [mergeAt_on (hYc.trans hc), Forest.editAt_editAt]
      apply sY.congr
      simp only [Function.comp]
      rw [hI]
      symm
      apply mergeRuns_id
      apply noAdj_insert (hstrictY hc)
      · intro a ha
        rw [List.getLast?_map] at ha
        cases hA : A.getLast? with
        | none => rw [hA] at ha; cases ha
        | some ka =>
          rw [hA] at ha
          simp only [Option.map_some, Option.some.injEq] at ha
          subst ha
          rw [F.kid.value]; exact hs1 hc ka hA
      · intro b hb
        simp only [List.head?_cons, Option.some.injEq] at hb
        subst hb
        rw [F.kid.value]; exact hs2 hc
    · rw [mergeAt_off (hYc.trans hc)]
  rcases Bool.eq_false_or_eq_true f.consolidation with hc | hc
  case inr =>
    exact flow1 (Forest.addConsolidate_off (F.xcons.trans hc) _ _ _)
      (fun h => by rw [hc] at h; cases h) (fun h => by rw [hc] at h; cases h)
  cases htd : textData t with
  | none =>
    have hnt : ¬ t.value.isText = true := by
      intro h
      obtain ⟨z, hz⟩ := isText_iff_textData.1 h
      rw [htd] at hz; cases hz
    exact flow1 (Forest.addConsolidate_not_text (hXtext.trans htd) _ _)
      (fun _ _ _ h => hnt h.2) (fun _ h => hnt h.1)
  | some tc =>
    have hXf : X = f := by
      cases hX with
      | inl h => exact h
      | inr h => rw [htd] at h; cases h
    subst hXf
    have htt : t.value.isText = true := isText_iff_textData.2 ⟨tc, htd⟩
    have hleaf_t : t.kids = [] := leaf_of_text inv.valid hgc htt
    have hkr_get : X.get? kr.handle = some kr := V.get kr (by simp)
    have hprevS : X.prevSibling kr.handle = prevOf A kr := hprevV rfl
    have hleafL := V.leaf
    have ndL := V.nd
    obtain ⟨tA, tB⟩ := tops_ne_of_nodup ndL
    -- is there a text node directly before the reference?
    have prevCase : (∃ A2 ka ta, A = A2 ++ [ka] ∧ textData ka = some ta) ∨
        (∀ a, prevOf A kr = some a → X.textOf a = none) ∧
          (∀ ka, A.getLast? = some ka → ¬ ka.value.isText = true) := by
      cases hA : A.getLast? with
      | none =>
        right
        refine ⟨?_, fun ka h => by cases h⟩
        intro a h; simp [prevOf, hA] at h
      | some ka =>
        obtain ⟨A2, eA⟩ := List.getLast?_eq_some_iff.1 hA
        cases hta : textData ka with
        | some ta => exact Or.inl ⟨A2, ka, ta, eA, hta⟩
        | none =>
          right
          refine ⟨?_, ?_⟩
          · intro a h
            obtain ⟨A2', ka', eA', eka', _⟩ := prevOf_eq_some h
            rw [eA] at eA'
            have := List.append_inj' eA' rfl
            have hk : ka = ka' := by simpa using this.2
            subst hk
            subst eA
            rw [← eka', Forest.textOf_of_get (V.get ka (by simp))]; exact hta
          · intro ka' h hx
            cases h
            obtain ⟨z, hz⟩ := isText_iff_textData.1 hx
            rw [hta] at hz; cases hz
    rcases prevCase with ⟨A2, ka, ta, eA, hta⟩ | ⟨hprevNone, hprevNT⟩
    · -- merged into the text node before the reference: the earlier node survives
      subst eA
      have hka_get : X.get? ka.handle = some ka := V.get ka (by simp)
      have hkat : ka.value.isText = true := isText_iff_textData.2 ⟨ta, hta⟩
      have hcat : (ka.value.category == kr.value.category) = true := by
        have h1 : ka.value.category = .normal := text_category hkat
        have h2 : kr.value.category = .normal := by simpa [Value.isNormal] using hkrn
        rw [h1, h2]; rfl
      have hpv : prevOf (A2 ++ [ka]) kr = some ka.handle := by simp [prevOf, hcat]
      have hkac : ka.handle ≠ c := fun e => hsame (by rw [hpv, e])
      have hr2 : X.addConsolidate c (X.prevSibling kr.handle) (some kr.handle) =
          ((X.setValue ka.handle (.text (ta ++ tc))).spliceOut c, true) := by
        rw [hprevS, hpv]
        exact Forest.addConsolidate_prev hc (hXtext.trans htd) ((Forest.textOf_of_get hka_get).trans hta) _ hkac
      have hflow := F.flow2 rfl ka.handle (.text (ta ++ tc)) ⟨ka, by simp, rfl⟩ hkac hleaf_t (by
        intro k' hk' e
        have ndL2 : (handlesList (A2 ++ ka :: (kr :: B))).Nodup := by
          have := V.nd
          rwa [show (A2 ++ [ka]) ++ kr :: B = A2 ++ ka :: (kr :: B) by simp] at this
        obtain ⟨tA2, tB2⟩ := tops_ne_of_nodup ndL2
        have : k' = ka := by
          have hk'' : k' ∈ A2 ++ ka :: (kr :: B) := by simpa using hk'
          cases List.mem_append.1 hk'' with
          | inl h => exact absurd e (tA2 k' h)
          | inr h =>
            cases List.mem_cons.1 h with
            | inl h' => exact h'
            | inr h' => exact absurd e (tB2 k' h')
        rw [this]
        exact hleafL ka (by simp) hkat)
      unfold insertBeforeTail
      rw [hr2]
      simp only [if_true]
      rw [hflow, mergeAt_on (hYc.trans hc), Forest.editAt_editAt]
      apply sY.congr
      simp only [Function.comp]
      rw [hI]
      simp only [List.map_append, List.map_cons, List.map_nil, List.append_assoc, List.singleton_append]
      have hstr := hstrictY hc
      simp only [List.map_append, List.map_cons, List.map_nil, List.append_assoc, List.singleton_append] at hstr
      obtain ⟨ndLY2, _⟩ := (show SiteAt Y q vq (A2.map φ ++ φ ka :: (φ kr :: B.map φ)) by
        simpa using sY).nodupKids
      have htopsA2 := (tops_ne_of_nodup ndLY2).1
      rw [replaceTop_mid (F.kid.handle ka) (by rw [F.kid.handle] at htopsA2; exact htopsA2)]
      have hvka : (φ ka).value = .text ta := by rw [F.kid.value]; exact textData_some hta
      have e1 : A2.map φ ++ φ ka :: (φ kr :: B.map φ) = (A2.map φ ++ [φ ka]) ++ (φ kr :: B.map φ) := by simp
      rw [e1] at hstr
      obtain ⟨hAka, hkrB, hseam⟩ := noAdj_append.1 hstr
      have hnkr : ¬ (φ kr).value.isText = true := by
        intro h
        exact hseam (φ ka) (φ kr) (List.getLast?_concat) rfl ⟨by rw [hvka]; rfl, h⟩
      have htkr : noAdjacentText (t :: φ kr :: B.map φ) = true := by
        rw [noAdj_cons_cons, Bool.and_eq_true]
        refine ⟨?_, hkrB⟩
        cases h : (φ kr).value.isText with
        | false => simp
        | true => exact absurd h hnkr
      rw [mergeRuns_seam _ hvka (textData_some htd) hAka htkr]
      simp [join, Keep.resident, F.kid.handle, hkac]
    · cases htb : textData kr with
      | none =>
        refine flow1 (Forest.addConsolidate_none (by rw [hprevS]; exact hprevNone) (by
          intro b h; cases h
          exact (Forest.textOf_of_get hkr_get).trans htb))
          (fun _ ka hka h => hprevNT ka hka h.1) ?_
        intro _ ⟨_, h2⟩
        obtain ⟨z, hz⟩ := isText_iff_textData.1 h2
        rw [htb] at hz; cases hz
      | some tb =>
        -- merged into the reference node: the LATER node survives
        have hr2 : X.addConsolidate c (X.prevSibling kr.handle) (some kr.handle) =
            ((X.setValue kr.handle (.text (tc ++ tb))).spliceOut c, true) := by
          rw [hprevS]
          exact Forest.addConsolidate_next hc (hXtext.trans htd) hprevNone
            ((Forest.textOf_of_get hkr_get).trans htb) hrc
        have hkrt : kr.value.isText = true := isText_iff_textData.2 ⟨tb, htb⟩
        have hflow := F.flow2 rfl kr.handle (.text (tc ++ tb)) ⟨kr, by simp, rfl⟩ hrc hleaf_t (by
          intro k' hk' e
          have : k' = kr := by
            cases List.mem_append.1 hk' with
            | inl h => exact absurd e (tA k' h)
            | inr h =>
              cases List.mem_cons.1 h with
              | inl h' => exact h'
              | inr h' => exact absurd e (tB k' h')
          rw [this]
          exact hleafL kr (by simp) hkrt)
        unfold insertBeforeTail
        rw [hr2]
        simp only [if_true]
        rw [hflow, mergeAt_on (hYc.trans hc), Forest.editAt_editAt]
        apply sY.congr
        simp only [Function.comp]
        rw [hI, replaceTop_mid (F.kid.handle kr) htopsA]
        have hstr := hstrictY hc
        obtain ⟨hA, hkrB, _⟩ := noAdj_append.1 hstr
        have hvkr : (φ kr).value = .text tb := by rw [F.kid.value]; exact textData_some htb
        have hAt : noAdjacentText (A.map φ ++ [t]) = true := by
          apply noAdj_append.2
          refine ⟨hA, rfl, ?_⟩
          intro a b ha _ ⟨h1, _⟩
          rw [List.getLast?_map] at ha
          cases hAl : A.getLast? with
          | none => rw [hAl] at ha; cases ha
          | some ka =>
            rw [hAl] at ha
            simp only [Option.map_some, Option.some.injEq] at ha
            subst ha
            rw [F.kid.value] at h1
            exact hprevNT ka hAl h1
        rw [mergeRuns_seam _ (textData_some htd) hvkr hAt hkrB]
        simp [join, Keep.resident, htc]

/-- The far geometry. -/
theorem insertBeforeTail_far {f : Forest} {c : Nat} {t : HTree} {q : Nat} {vq : Value} {A : List HTree}
    {kr : HTree} {B : List HTree} {X Y : Forest} {φ : HTree → HTree} (inv : f.Inv) (norm : f.Normal)
    (F : Far f (Keep.resident c) c t q vq (A ++ kr :: B) X Y φ) (sq : SiteAt f q vq (A ++ kr :: B))
    (hxs : ∃ φ', KidMap φ' ∧ SiteAt X q vq ((A ++ kr :: B).map φ'))
    (hgc : f.get? c = some t) (hX : X = f ∨ textData t = none) (hrc : kr.handle ≠ c)
    (hkrn : kr.value.isNormal = true) (hq : q ∉ handles t)
    (hsame : ¬ prevOf A kr = some c)
    (hocc : Dest.occupiedBy f c (.before kr.handle) = false) :
    (insertBeforeTail X kr.handle c).1 = specMove (Keep.resident c) (.before kr.handle) c f := by
  have hplace : (X.checkedInsertBefore kr.handle c) =
      (Y.editAt (some q) (insertBeforeTop kr.handle t), true) := by
    obtain ⟨φ', hk', sXq⟩ := hxs
    have hm : (A ++ kr :: B).map φ' = A.map φ' ++ φ' kr :: B.map φ' := by simp
    rw [hm] at sXq
    have := Forest.checkedInsertBefore_ok F.xget sXq hq (by rw [hk'.handle]; exact hrc)
    rw [hk'.handle] at this
    rw [this, F.xcut]
    have hmapL : (A ++ kr :: B).map φ = A.map φ ++ φ kr :: B.map φ := by simp
    have sY : SiteAt Y q vq (A.map φ ++ φ kr :: B.map φ) := hmapL ▸ F.ysite
    have hctx := sY.ctx
    rw [F.kid.handle] at hctx
    rw [Forest.placeBefore_of_ctx t sY.nd hctx]
  exact insertBeforeTail_core inv F (View.of_site inv norm sq) (Forest.parent?_of_ctx sq.ctx)
    (fun _ => Forest.prevSibling_of_ctx sq.ctx) hplace hgc hX hrc hkrn hsame hocc

theorem occupied_before {f : Forest} {c : Nat} {t : HTree} {q : Nat} {vq : Value} {A : List HTree} {kr : HTree}
    {B : List HTree} (sq : SiteAt f q vq (A ++ kr :: B)) (hgc : f.get? c = some t)
    (hnorm : t.value.isNormal = true) (hkrn : kr.value.isNormal = true) :
    Dest.occupiedBy f c (.before kr.handle) = true ↔ prevOf A kr = some c := by
  simp only [Dest.occupiedBy, sq.ctx, beq_iff_eq]
  constructor
  · intro h
    cases hA : A.getLast? with
    | none => rw [hA] at h; cases h
    | some ka =>
      rw [hA] at h
      simp only [Option.map_some, Option.some.injEq] at h
      obtain ⟨A2, e⟩ := List.getLast?_eq_some_iff.1 hA
      subst e
      have ska : SiteAt f q vq (A2 ++ ka :: (kr :: B)) := by
        have : A2 ++ ka :: (kr :: B) = (A2 ++ [ka]) ++ kr :: B := by simp
        rw [this]; exact sq
      have := ska.getKid
      rw [h, hgc] at this
      have := Option.some.inj this
      subst this
      have h1 : t.value.category = .normal := by simpa [Value.isNormal] using hnorm
      have h2 : kr.value.category = .normal := by simpa [Value.isNormal] using hkrn
      simp [prevOf, h1, h2, h]
  · intro h
    obtain ⟨A2, ka, e, eka, _⟩ := prevOf_eq_some h
    subst e
    simp [eka]

/-- **insert_before**, when the moved node is not already a child of the reference's parent. -/
theorem insertBefore_spec_far {f : Forest} {ref c : Nat} (inv : f.Inv) (norm : f.Normal)
    (hfar : f.parent? c ≠ f.parent? ref) (hok : (f.insertBefore ref c).2 = .ok) :
    (f.insertBefore ref c).1 = specMove (Keep.resident c) (.before ref) c f := by
  have nd := inv.nodup
  have hsc : f.structureCheck (f.parent? ref) c = true := by
    cases h : f.structureCheck (f.parent? ref) c with
    | true => rfl
    | false => rw [insertBefore_unfold] at hok; simp [h] at hok
  have hsr : f.siblingReferenceCheck ref c = true := by
    cases h : f.siblingReferenceCheck ref c with
    | true => rfl
    | false => rw [insertBefore_unfold] at hok; simp [hsc, h] at hok
  obtain ⟨q, vq, A, kr, B, t, sq, ekr, hkrn, hrc, hgc, hqt, hnorm, hndoc, hvq⟩ := sibling_checks_unpack nd hsc hsr
  subst ekr
  have htc : t.handle = c := (findList?_some f.roots t hgc).1
  have hprev : f.prevSibling kr.handle = prevOf A kr := Forest.prevSibling_of_ctx sq.ctx
  have hparref : f.parent? kr.handle = some q := Forest.parent?_of_ctx sq.ctx
  have hoccIff := occupied_before sq hgc hnorm hkrn
  by_cases hsame : prevOf A kr = some c
  · have hocc := hoccIff.2 hsame
    rw [insertBefore_unfold]
    unfold specMove
    simp [hsc, hsr, hprev, hsame, hocc]
  · have hocc : Dest.occupiedBy f c (.before kr.handle) = false := by
      cases h : Dest.occupiedBy f c (.before kr.handle) with
      | false => rfl
      | true => exact absurd (hoccIff.1 h) hsame
    rw [insertBefore_unfold]
    simp only [hsc, hsr, hprev, Bool.not_true, Bool.false_eq_true, if_false, beq_iff_eq, hsame]
    rcases Forest.root_or_ctx hgc with hroot | ⟨cx, hctx⟩
    · have hno := Forest.ctx_none_of_root nd hroot
      rw [Forest.prevSibling_of_no_ctx hno, Forest.removeConsolidate_none_left]
      exact insertBeforeTail_far inv norm (far_root hgc hno sq hqt) sq ⟨id, kidMap_id, by rw [List.map_id]; exact sq⟩
        hgc (Or.inl rfl) hrc hkrn hqt hsame hocc
    · obtain ⟨e0, vo, so⟩ := SiteAt.of_ctx nd hctx
      have hself : cx.self = t := by
        have := Forest.get?_of_ctx nd hctx
        rw [hgc] at this
        exact (Option.some.inj this).symm
      obtain ⟨po, l, k, r⟩ := cx
      simp only at e0 so hself
      subst hself
      subst htc
      have hpo : po ≠ q := by
        intro e
        apply hfar
        rw [Forest.parent?_of_ctx hctx, hparref, e]
      rw [Forest.prevSibling_of_ctx hctx, Forest.nextSibling_of_ctx hctx]
      simp only
      obtain ⟨⟨φ, F⟩, hxs⟩ := far_kid (keep := Keep.resident k.handle) inv norm (Keep.resident_spec k.handle)
        so sq hpo hqt hvq
      exact insertBeforeTail_far inv norm F sq hxs hgc (old_stage inv norm so).same_or_not_text hrc hkrn hqt hsame hocc

end XotModel
