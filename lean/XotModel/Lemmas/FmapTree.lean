/-
  Lemmas for C11, part 1: lookups (`find?`), handle lists, and the two rewriting traversals
  (`mapAt`, `replaceKids`) on handle-labelled trees.
-/
import XotModel.Lemmas.ForestBasic
import XotModel.Model.FmapSpec

namespace XotModel
namespace Fmap
open HTree

/-! ### `find?` -/

theorem find?_self (t : HTree) : find? t.handle t = some t := by
  cases t with
  | node h v ks => simp [find?, HTree.handle]

mutual
  theorem find?_handle (h : Nat) : ∀ (t s : HTree), find? h t = some s → s.handle = h
    | .node h' v ks, s => by
      intro hf
      simp only [find?] at hf
      split at hf
      · cases hf; simpa [HTree.handle]
      · exact findList?_handle h ks s hf
  theorem findList?_handle (h : Nat) : ∀ (ks : List HTree) (s : HTree),
      findList? h ks = some s → s.handle = h
    | [], s => by simp [findList?]
    | k :: ks, s => by
      intro hf
      simp only [findList?] at hf
      split at hf
      · rename_i t ht
        cases hf; exact find?_handle h k _ ht
      · exact findList?_handle h ks s hf
end

mutual
  /-- Everything below a found subtree is below the tree searched. -/
  theorem find?_sub (h : Nat) : ∀ (t s : HTree), find? h t = some s →
      ∀ x, x ∈ handles s → x ∈ handles t
    | .node h' v ks, s => by
      intro hf x hx
      simp only [find?] at hf
      split at hf
      · cases hf; exact hx
      · simp only [handles, List.mem_cons]
        exact Or.inr (findList?_sub h ks s hf x hx)
  theorem findList?_sub (h : Nat) : ∀ (ks : List HTree) (s : HTree), findList? h ks = some s →
      ∀ x, x ∈ handles s → x ∈ handlesList ks
    | [], s => by simp [findList?]
    | k :: ks, s => by
      intro hf x hx
      simp only [findList?] at hf
      simp only [handlesList, List.mem_append]
      split at hf
      · rename_i t ht
        cases hf; exact Or.inl (find?_sub h k _ ht x hx)
      · exact Or.inr (findList?_sub h ks s hf x hx)
end

theorem handle_mem_handles (t : HTree) : t.handle ∈ handles t := by
  cases t with
  | node h v ks => simp [handles, HTree.handle]

theorem handles_eq (t : HTree) : handles t = t.handle :: handlesList t.kids := by
  cases t with
  | node h v ks => simp [handles, HTree.handle, HTree.kids]

theorem find?_mem (h : Nat) (t s : HTree) (hf : find? h t = some s) : h ∈ handles t := by
  have := find?_sub h t s hf s.handle (handle_mem_handles s)
  rwa [find?_handle h t s hf] at this

theorem findList?_mem (h : Nat) (ks : List HTree) (s : HTree) (hf : findList? h ks = some s) :
    h ∈ handlesList ks := by
  have := findList?_sub h ks s hf s.handle (handle_mem_handles s)
  rwa [findList?_handle h ks s hf] at this

mutual
  theorem find?_none_of_not_mem (h : Nat) : ∀ t : HTree, h ∉ handles t → find? h t = none
    | .node h' v ks => by
      intro hn
      simp only [handles, List.mem_cons, not_or] at hn
      simp only [find?]
      rw [if_neg (fun e => hn.1 e.symm)]
      exact findList?_none_of_not_mem h ks hn.2
  theorem findList?_none_of_not_mem (h : Nat) : ∀ ks : List HTree, h ∉ handlesList ks →
      findList? h ks = none
    | [] => by simp [findList?]
    | k :: ks => by
      intro hn
      simp only [handlesList, List.mem_append, not_or] at hn
      simp only [findList?]
      rw [find?_none_of_not_mem h k hn.1]
      exact findList?_none_of_not_mem h ks hn.2
end

theorem find?_kids_sub (h : Nat) (t s : HTree) (hf : find? h t = some s) (hne : t.handle ≠ h) :
    ∀ x, x ∈ handles s → x ∈ handlesList t.kids := by
  cases t with
  | node h' v ks =>
    simp only [find?] at hf
    simp only [HTree.handle] at hne
    rw [if_neg hne] at hf
    exact findList?_sub h ks s hf

/-- A direct child is found by its handle when handles are distinct. -/
theorem findList?_direct (ks : List HTree) (hnd : (handlesList ks).Nodup) :
    ∀ x ∈ ks, findList? x.handle ks = some x := by
  induction ks with
  | nil => simp
  | cons k ks ih =>
    intro x hx
    simp only [handlesList] at hnd
    have hnd' := List.nodup_append.mp hnd
    simp only [findList?]
    rcases List.mem_cons.mp hx with rfl | hx
    · rw [find?_self]
    · have hxm : x.handle ∈ handlesList ks :=
        findList?_mem _ _ _ (ih hnd'.2.1 x hx)
      have : x.handle ∉ handles k := fun hc => hnd'.2.2 _ hc _ hxm rfl
      rw [find?_none_of_not_mem _ _ this]
      exact ih hnd'.2.1 x hx

mutual
  /-- Lookups compose. -/
  theorem find?_trans (e c : Nat) : ∀ (k t s : HTree), (handles k).Nodup →
      find? e k = some t → find? c t = some s → find? c k = some s
    | .node h' v ks, t, s => by
      intro hnd he hc
      simp only [find?] at he
      split at he
      · cases he; exact hc
      · have hcm : c ∈ handlesList ks := findList?_sub e ks t he c (find?_mem c t s hc)
        simp only [handles, List.nodup_cons] at hnd
        have : h' ≠ c := fun hh => hnd.1 (hh ▸ hcm)
        simp only [find?]
        rw [if_neg this]
        exact findList?_trans e c ks t s hnd.2 he hc
  theorem findList?_trans (e c : Nat) : ∀ (ks : List HTree) (t s : HTree), (handlesList ks).Nodup →
      findList? e ks = some t → find? c t = some s → findList? c ks = some s
    | [], t, s => by simp [findList?]
    | k :: ks, t, s => by
      intro hnd he hc
      simp only [handlesList] at hnd
      have hnd' := List.nodup_append.mp hnd
      simp only [findList?] at he ⊢
      split at he
      · rename_i t' ht'
        cases he
        rw [find?_trans e c k _ s hnd'.1 ht' hc]
      · have hcm : c ∈ handlesList ks := findList?_sub e ks t he c (find?_mem c t s hc)
        have : c ∉ handles k := fun hx => hnd'.2.2 _ hx _ hcm rfl
        rw [find?_none_of_not_mem c k this]
        exact findList?_trans e c ks t s hnd'.2.1 he hc
end

mutual
  /-- Handles of a found subtree are distinct when those of the whole are. -/
  theorem find?_nodup (h : Nat) : ∀ (t s : HTree), (handles t).Nodup → find? h t = some s →
      (handles s).Nodup
    | .node h' v ks, s => by
      intro hnd hf
      simp only [find?] at hf
      split at hf
      · cases hf; exact hnd
      · simp only [handles, List.nodup_cons] at hnd
        exact findList?_nodup h ks s hnd.2 hf
  theorem findList?_nodup (h : Nat) : ∀ (ks : List HTree) (s : HTree), (handlesList ks).Nodup →
      findList? h ks = some s → (handles s).Nodup
    | [], s => by simp [findList?]
    | k :: ks, s => by
      intro hnd hf
      simp only [handlesList] at hnd
      have hnd' := List.nodup_append.mp hnd
      simp only [findList?] at hf
      split at hf
      · rename_i t ht
        cases hf; exact find?_nodup h k _ hnd'.1 ht
      · exact findList?_nodup h ks s hnd'.2.1 hf
end

mutual
  theorem not_mem_of_find?_none (h : Nat) : ∀ t : HTree, find? h t = none → h ∉ handles t
    | .node h' v ks => by
      intro hf
      simp only [find?] at hf
      split at hf
      · cases hf
      · rename_i hh
        simp only [handles, List.mem_cons, not_or]
        exact ⟨fun e => hh e.symm, not_mem_of_findList?_none h ks hf⟩
  theorem not_mem_of_findList?_none (h : Nat) : ∀ ks : List HTree, findList? h ks = none →
      h ∉ handlesList ks
    | [] => by simp [handlesList]
    | k :: ks => by
      intro hf
      simp only [findList?] at hf
      simp only [handlesList, List.mem_append, not_or]
      cases hk : find? h k with
      | some t => rw [hk] at hf; cases hf
      | none =>
        rw [hk] at hf
        exact ⟨not_mem_of_find?_none h k hk, not_mem_of_findList?_none h ks hf⟩
end

/-! ### `mapAt` / `replaceKids` away from the handle -/

mutual
  theorem mapAt_not_mem (c : Nat) (g : HTree → HTree) : ∀ t : HTree, c ∉ handles t → mapAt c g t = t
    | .node h' v ks => by
      intro hn
      simp only [handles, List.mem_cons, not_or] at hn
      simp only [mapAt]
      rw [if_neg (fun e => hn.1 e.symm), mapAtList_not_mem c g ks hn.2]
  theorem mapAtList_not_mem (c : Nat) (g : HTree → HTree) : ∀ ks : List HTree,
      c ∉ handlesList ks → mapAtList c g ks = ks
    | [] => by simp [mapAtList]
    | k :: ks => by
      intro hn
      simp only [handlesList, List.mem_append, not_or] at hn
      simp only [mapAtList]
      rw [mapAt_not_mem c g k hn.1, mapAtList_not_mem c g ks hn.2]
end

mutual
  theorem replaceBelow_not_mem (c : Nat) (fn : HTree → List HTree) : ∀ t : HTree,
      c ∉ handlesList t.kids → replaceBelow c fn t = t
    | .node h' v ks => by
      intro hn
      simp only [replaceBelow]
      rw [replaceKids_not_mem c fn ks hn]
  theorem replaceKids_not_mem (c : Nat) (fn : HTree → List HTree) : ∀ ks : List HTree,
      c ∉ handlesList ks → replaceKids c fn ks = ks
    | [] => by simp [replaceKids]
    | k :: ks => by
      intro hn
      simp only [handlesList, List.mem_append, not_or] at hn
      simp only [replaceKids]
      have h1 : k.handle ≠ c := fun e => hn.1 (e ▸ handle_mem_handles k)
      rw [if_neg h1]
      have h2 : c ∉ handlesList k.kids := fun hx => hn.1 (by rw [handles_eq]; exact List.mem_cons_of_mem _ hx)
      rw [replaceBelow_not_mem c fn k h2, replaceKids_not_mem c fn ks hn.2]
end

/-! ### Lookup of the rewritten node itself -/

mutual
  /-- After `mapAt e g`, looking `e` up gives `g` of what was there. -/
  theorem find?_mapAt_self (e : Nat) (g : HTree → HTree) : ∀ (k t : HTree),
      find? e k = some t → (g t).handle = e → find? e (mapAt e g k) = some (g t)
    | .node h' v ks, t => by
      intro hf hg
      simp only [find?] at hf
      simp only [mapAt]
      split at hf
      · rename_i hh
        cases hf
        rw [if_pos hh]
        have := find?_self (g (.node h' v ks))
        rwa [hg] at this
      · rename_i hh
        rw [if_neg hh]
        simp only [find?]
        rw [if_neg hh]
        exact findList?_mapAtList_self e g ks t hf hg
  theorem findList?_mapAtList_self (e : Nat) (g : HTree → HTree) : ∀ (ks : List HTree) (t : HTree),
      findList? e ks = some t → (g t).handle = e →
      findList? e (mapAtList e g ks) = some (g t)
    | [], t => by simp [findList?]
    | k :: ks, t => by
      intro hf hg
      simp only [findList?] at hf
      simp only [mapAtList, findList?]
      cases hk : find? e k with
      | some t' =>
        rw [hk] at hf
        cases hf
        rw [find?_mapAt_self e g k _ hk hg]
      | none =>
        rw [hk] at hf
        have : e ∉ handles k := not_mem_of_find?_none e k hk
        rw [mapAt_not_mem e g k this, hk]
        exact findList?_mapAtList_self e g ks t hf hg
end

end Fmap
end XotModel
