/-
  Tree-level lemmas for C20: how lookup (`find?`, `ctxBelow`, `ancestorsOf`) and the update
  primitives (`mapAt`, `replaceBelow`) behave on trees that do not contain the handle, the list of
  all subtrees, and `find?` as a search in that list (so that distinct handles give unique lookup).
-/
import XotModel.Lemmas.ForestBasic

namespace XotModel
open HTree

theorem ffx_takeWhile_all {α : Type} (p : α → Bool) (l : List α) (h : ∀ a ∈ l, p a = true) :
    l.takeWhile p = l := by
  induction l with
  | nil => rfl
  | cons a as ih =>
    simp [List.takeWhile, h a (List.mem_cons_self ..), ih (fun b hb => h b (List.mem_cons_of_mem _ hb))]

theorem ffx_dropWhile_all {α : Type} (p : α → Bool) (l : List α) (h : ∀ a ∈ l, p a = true) :
    l.dropWhile p = [] := by
  induction l with
  | nil => rfl
  | cons a as ih =>
    simp [List.dropWhile, h a (List.mem_cons_self ..), ih (fun b hb => h b (List.mem_cons_of_mem _ hb))]

theorem handlesList_append_ff (a b : List HTree) :
    handlesList (a ++ b) = handlesList a ++ handlesList b := by
  induction a with
  | nil => simp [handlesList]
  | cons k ks ih => simp [handlesList, ih]

theorem handle_mem_handles_ff (t : HTree) : t.handle ∈ handles t := by
  cases t; simp [handles, HTree.handle]

theorem ff_handles_eq (t : HTree) : handles t = t.handle :: handlesList t.kids := by
  cases t; simp [handles, HTree.handle, HTree.kids]

theorem mem_handlesList_ff {h : Nat} {ts : List HTree} :
    h ∈ handlesList ts ↔ ∃ t ∈ ts, h ∈ handles t := by
  induction ts with
  | nil => simp [handlesList]
  | cons k ks ih => simp [handlesList, ih]

mutual
  theorem ffx_find?_none_of_not_mem (h : Nat) : ∀ t : HTree, h ∉ handles t → find? h t = none
    | .node h' v ks => by
      intro hn
      simp only [handles, List.mem_cons, not_or] at hn
      unfold find?
      rw [if_neg (fun e => hn.1 e.symm)]
      exact ffx_findList?_none_of_not_mem h ks hn.2
  theorem ffx_findList?_none_of_not_mem (h : Nat) : ∀ ks : List HTree, h ∉ handlesList ks → findList? h ks = none
    | [] => by intro _; rfl
    | k :: ks => by
      intro hn
      simp only [handlesList, List.mem_append, not_or] at hn
      unfold findList?
      rw [ffx_find?_none_of_not_mem h k hn.1]
      exact ffx_findList?_none_of_not_mem h ks hn.2
end

theorem find?_self_ff (t : HTree) : find? t.handle t = some t := by
  cases t; simp [find?, HTree.handle]

theorem findList?_append_of_none (h : Nat) (a b : List HTree) (hn : findList? h a = none) :
    findList? h (a ++ b) = findList? h b := by
  induction a with
  | nil => rfl
  | cons k ks ih =>
    unfold findList? at hn
    split at hn
    · cases hn
    · rename_i hk
      simp only [List.cons_append]
      conv => lhs; unfold findList?
      rw [hk]
      exact ih hn

theorem ffx_findList?_append_of_not_mem (h : Nat) (a b : List HTree) (hn : h ∉ handlesList a) :
    findList? h (a ++ b) = findList? h b :=
  findList?_append_of_none h a b (ffx_findList?_none_of_not_mem h a hn)

theorem ffx_findList?_cons_self (t : HTree) (b : List HTree) : findList? t.handle (t :: b) = some t := by
  unfold findList?; rw [find?_self_ff]

theorem ffx_findList?_cons_of_not_mem (h : Nat) (t : HTree) (b : List HTree) (hn : h ∉ handles t) :
    findList? h (t :: b) = findList? h b := by
  conv => lhs; unfold findList?
  rw [ffx_find?_none_of_not_mem h t hn]

mutual
  theorem ffx_ctxBelow_none_of_not_mem (h : Nat) : ∀ t : HTree, h ∉ handlesList t.kids → ctxBelow h t = none
    | .node p v ks => by
      intro hn
      unfold ctxBelow
      exact ffx_ctxKids_none_of_not_mem h p [] ks hn
  theorem ffx_ctxKids_none_of_not_mem (h p : Nat) : ∀ (left ks : List HTree), h ∉ handlesList ks →
      ctxKids h p left ks = none
    | _, [] => by intro _; rfl
    | left, k :: ks => by
      intro hn
      simp only [handlesList, List.mem_append, not_or] at hn
      unfold ctxKids
      have hk : k.handle ≠ h := fun e => hn.1 (e ▸ handle_mem_handles_ff k)
      rw [if_neg hk]
      have : h ∉ handlesList k.kids := by
        intro hm; apply hn.1; rw [ff_handles_eq]; exact List.mem_cons_of_mem _ hm
      rw [ffx_ctxBelow_none_of_not_mem h k this]
      exact ffx_ctxKids_none_of_not_mem h p (left ++ [k]) ks hn.2
end

theorem ffx_ctxBelow_none_of_not_mem' (h : Nat) (t : HTree) (hn : h ∉ handles t) : ctxBelow h t = none := by
  apply ffx_ctxBelow_none_of_not_mem
  intro hm; apply hn; rw [ff_handles_eq]; exact List.mem_cons_of_mem _ hm

mutual
  theorem mapAt_of_not_mem_ff (h : Nat) (g : HTree → HTree) : ∀ t : HTree, h ∉ handles t → mapAt h g t = t
    | .node h' v ks => by
      intro hn
      simp only [handles, List.mem_cons, not_or] at hn
      unfold mapAt
      rw [if_neg (fun e => hn.1 e.symm), mapAtList_of_not_mem_ff h g ks hn.2]
  theorem mapAtList_of_not_mem_ff (h : Nat) (g : HTree → HTree) : ∀ ks : List HTree, h ∉ handlesList ks →
      mapAtList h g ks = ks
    | [] => by intro _; rfl
    | k :: ks => by
      intro hn
      simp only [handlesList, List.mem_append, not_or] at hn
      unfold mapAtList
      rw [mapAt_of_not_mem_ff h g k hn.1, mapAtList_of_not_mem_ff h g ks hn.2]
end

theorem ffx_map_mapAt_of_not_mem (h : Nat) (g : HTree → HTree) (ks : List HTree) (hn : h ∉ handlesList ks) :
    ks.map (mapAt h g) = ks := by
  rw [← mapAtList_eq_map, mapAtList_of_not_mem_ff h g ks hn]

mutual
  theorem replaceBelow_of_not_mem_ff (h : Nat) (g : HTree → List HTree) : ∀ t : HTree,
      h ∉ handlesList t.kids → replaceBelow h g t = t
    | .node p v ks => by
      intro hn
      unfold replaceBelow
      rw [replaceKids_of_not_mem_ff h g ks hn]
  theorem replaceKids_of_not_mem_ff (h : Nat) (g : HTree → List HTree) : ∀ ks : List HTree,
      h ∉ handlesList ks → replaceKids h g ks = ks
    | [] => by intro _; rfl
    | k :: ks => by
      intro hn
      simp only [handlesList, List.mem_append, not_or] at hn
      unfold replaceKids
      have hk : k.handle ≠ h := fun e => hn.1 (e ▸ handle_mem_handles_ff k)
      rw [if_neg hk]
      have : h ∉ handlesList k.kids := by
        intro hm; apply hn.1; rw [ff_handles_eq]; exact List.mem_cons_of_mem _ hm
      rw [replaceBelow_of_not_mem_ff h g k this, replaceKids_of_not_mem_ff h g ks hn.2]
end

theorem ffx_map_replaceBelow_of_not_mem (h : Nat) (g : HTree → List HTree) (ks : List HTree)
    (hn : h ∉ handlesList ks) : ks.map (replaceBelow h g) = ks := by
  induction ks with
  | nil => rfl
  | cons k ks ih =>
    simp only [handlesList, List.mem_append, not_or] at hn
    have : h ∉ handlesList k.kids := by
      intro hm; apply hn.1; rw [ff_handles_eq]; exact List.mem_cons_of_mem _ hm
    simp [replaceBelow_of_not_mem_ff h g k this, ih hn.2]

mutual
  theorem ffx_ancestorsOf_none_of_not_mem (h : Nat) : ∀ t : HTree, h ∉ handles t → ancestorsOf h t = none
    | .node h' v ks => by
      intro hn
      simp only [handles, List.mem_cons, not_or] at hn
      unfold ancestorsOf
      rw [if_neg (fun e => hn.1 e.symm), ffx_ancestorsOfList_none_of_not_mem h ks hn.2]
  theorem ffx_ancestorsOfList_none_of_not_mem (h : Nat) : ∀ ks : List HTree, h ∉ handlesList ks →
      ancestorsOfList h ks = none
    | [] => by intro _; rfl
    | k :: ks => by
      intro hn
      simp only [handlesList, List.mem_append, not_or] at hn
      unfold ancestorsOfList
      rw [ffx_ancestorsOf_none_of_not_mem h k hn.1]
      exact ffx_ancestorsOfList_none_of_not_mem h ks hn.2
end

mutual
  /-- Every handle `ancestorsOf` reports lies in the tree. -/
  theorem ancestorsOf_subset (h : Nat) : ∀ (t : HTree) (l : List Nat), ancestorsOf h t = some l →
      ∀ x ∈ l, x ∈ handles t
    | .node h' v ks, l => by
      intro hl x hx
      unfold ancestorsOf at hl
      split at hl
      · cases hl; simp at hx; simp [handles, hx]
      · split at hl
        · rename_i l' hl'
          cases hl
          simp only [List.mem_append, List.mem_singleton] at hx
          cases hx with
          | inl hx => simp [handles, ancestorsOfList_subset h ks l' hl' x hx]
          | inr hx => simp [handles, hx]
        · cases hl
  theorem ancestorsOfList_subset (h : Nat) : ∀ (ks : List HTree) (l : List Nat),
      ancestorsOfList h ks = some l → ∀ x ∈ l, x ∈ handlesList ks
    | [], l => by intro hl; cases hl
    | k :: ks, l => by
      intro hl x hx
      unfold ancestorsOfList at hl
      cases hk : ancestorsOf h k with
      | some l' =>
        rw [hk] at hl
        cases hl
        simp [handlesList, ancestorsOf_subset h k l hk x hx]
      | none =>
        rw [hk] at hl
        simp [handlesList, ancestorsOfList_subset h ks l hl x hx]
end

end XotModel
