/-
  Lemmas for C12, part 13 (locality): where the handles of the results of the primitives and of
  the navigation queries come from.
-/
import XotModel.Lemmas.FcloneBasic

namespace XotModel
open HTree

/-! ### lookups return subtrees -/

mutual
  theorem find?_sub (h : Nat) : ∀ (t s : HTree), find? h t = some s →
      s.handle = h ∧ ∀ a ∈ handles s, a ∈ handles t
    | .node h' v ks, s => by
      intro hs
      unfold find? at hs
      by_cases e : h' = h
      · rw [if_pos e] at hs
        cases hs
        exact ⟨e, fun a ha => ha⟩
      · rw [if_neg e] at hs
        obtain ⟨h1, h2⟩ := findList?_sub h ks s hs
        exact ⟨h1, fun a ha => by simp [handles, h2 a ha]⟩
  theorem findList?_sub (h : Nat) : ∀ (ks : List HTree) (s : HTree), findList? h ks = some s →
      s.handle = h ∧ ∀ a ∈ handles s, a ∈ handlesList ks
    | [], s => by intro hs; simp [findList?] at hs
    | k :: ks, s => by
      intro hs
      unfold findList? at hs
      cases hk : find? h k with
      | some t =>
        rw [hk] at hs
        cases hs
        obtain ⟨h1, h2⟩ := find?_sub h k _ hk
        exact ⟨h1, fun a ha => by simp [handlesList, h2 a ha]⟩
      | none =>
        rw [hk] at hs
        obtain ⟨h1, h2⟩ := findList?_sub h ks s hs
        exact ⟨h1, fun a ha => by simp [handlesList, h2 a ha]⟩
end

/-- The root in which a lookup succeeded. -/
theorem fc_findList?_root (h : Nat) : ∀ (L : List HTree) (s : HTree), findList? h L = some s →
    ∃ t ∈ L, find? h t = some s
  | [], s => by intro hs; simp [findList?] at hs
  | k :: ks, s => by
    intro hs
    unfold findList? at hs
    cases hk : find? h k with
    | some t =>
      rw [hk] at hs
      cases hs
      exact ⟨k, by simp, hk⟩
    | none =>
      rw [hk] at hs
      obtain ⟨t, ht, h2⟩ := fc_findList?_root h ks s hs
      exact ⟨t, by simp [ht], h2⟩

theorem kids_handles_sub (t : HTree) : ∀ k ∈ t.kids, ∀ a ∈ handles k, a ∈ handles t := by
  cases t with
  | node h v ks =>
    intro k hk a ha
    simp only [handles, List.mem_cons]
    exact Or.inr (handles_subset_handlesList hk a ha)

/-! ### contexts -/

mutual
  theorem ctxBelow_sub (h : Nat) : ∀ (t : HTree) (c : Ctx), ctxBelow h t = some c →
      c.self.handle = h ∧ (∀ a ∈ handlesList c.left, a ∈ handles t) ∧
      (∀ a ∈ handles c.self, a ∈ handles t) ∧ (∀ a ∈ handlesList c.right, a ∈ handles t)
    | .node p v ks, c => by
      intro hc
      unfold ctxBelow at hc
      obtain ⟨h1, h2, h3, h4⟩ := ctxKids_sub h p ks [] c hc
      refine ⟨h1, ?_, ?_, ?_⟩
      · intro a ha
        rcases h2 a ha with x | x
        · simp [handlesList] at x
        · simp [handles, x]
      · intro a ha; simp [handles, h3 a ha]
      · intro a ha; simp [handles, h4 a ha]
  theorem ctxKids_sub (h p : Nat) : ∀ (ks left : List HTree) (c : Ctx), ctxKids h p left ks = some c →
      c.self.handle = h ∧ (∀ a ∈ handlesList c.left, a ∈ handlesList left ∨ a ∈ handlesList ks) ∧
      (∀ a ∈ handles c.self, a ∈ handlesList ks) ∧ (∀ a ∈ handlesList c.right, a ∈ handlesList ks)
    | [], left, c => by intro hc; simp [ctxKids] at hc
    | k :: ks, left, c => by
      intro hc
      unfold ctxKids at hc
      by_cases e : k.handle = h
      · rw [if_pos e] at hc
        cases hc
        refine ⟨e, fun a ha => Or.inl ha, ?_, ?_⟩
        · intro a ha; simp [handlesList, ha]
        · intro a ha; simp [handlesList, ha]
      · rw [if_neg e] at hc
        cases hb : ctxBelow h k with
        | some c' =>
          rw [hb] at hc
          cases hc
          obtain ⟨h1, h2, h3, h4⟩ := ctxBelow_sub h k _ hb
          refine ⟨h1, ?_, ?_, ?_⟩
          · intro a ha; right; simp [handlesList, h2 a ha]
          · intro a ha; simp [handlesList, h3 a ha]
          · intro a ha; simp [handlesList, h4 a ha]
        | none =>
          rw [hb] at hc
          obtain ⟨h1, h2, h3, h4⟩ := ctxKids_sub h p ks (left ++ [k]) c hc
          refine ⟨h1, ?_, ?_, ?_⟩
          · intro a ha
            rcases h2 a ha with x | x
            · rw [handlesList_append, handlesList_singleton, List.mem_append] at x
              rcases x with x | x
              · exact Or.inl x
              · right; simp [handlesList, x]
            · right; simp [handlesList, x]
          · intro a ha; simp [handlesList, h3 a ha]
          · intro a ha; simp [handlesList, h4 a ha]
end

theorem findSome?_root {β} (F : HTree → Option β) : ∀ (L : List HTree) (c : β),
    L.findSome? F = some c → ∃ t ∈ L, F t = some c
  | [], c => by intro h; simp at h
  | k :: ks, c => by
    intro h
    rw [List.findSome?_cons] at h
    cases hk : F k with
    | some x =>
      rw [hk] at h
      cases h
      exact ⟨k, by simp, hk⟩
    | none =>
      rw [hk] at h
      obtain ⟨t, ht, h2⟩ := findSome?_root F ks c h
      exact ⟨t, by simp [ht], h2⟩

/-! ### handles after the tree surgery primitives -/

mutual
  theorem mapAt_handles (h : Nat) (g : HTree → HTree) (E : List Nat)
      (hg : ∀ x a, a ∈ handles (g x) → a ∈ handles x ∨ a ∈ E) :
      ∀ (t : HTree) (a : Nat), a ∈ handles (mapAt h g t) → a ∈ handles t ∨ a ∈ E
    | .node h' v ks, a => by
      intro ha
      unfold mapAt at ha
      by_cases e : h' = h
      · rw [if_pos e] at ha
        exact hg _ a ha
      · rw [if_neg e] at ha
        simp only [handles, List.mem_cons] at ha ⊢
        rcases ha with x | x
        · exact Or.inl (Or.inl x)
        · rcases mapAtList_handles h g E hg ks a x with y | y
          · exact Or.inl (Or.inr y)
          · exact Or.inr y
  theorem mapAtList_handles (h : Nat) (g : HTree → HTree) (E : List Nat)
      (hg : ∀ x a, a ∈ handles (g x) → a ∈ handles x ∨ a ∈ E) :
      ∀ (ks : List HTree) (a : Nat), a ∈ handlesList (mapAtList h g ks) → a ∈ handlesList ks ∨ a ∈ E
    | [], a => by intro ha; simp [mapAtList, handlesList] at ha
    | k :: ks, a => by
      intro ha
      simp only [mapAtList, handlesList, List.mem_append] at ha ⊢
      rcases ha with x | x
      · rcases mapAt_handles h g E hg k a x with y | y
        · exact Or.inl (Or.inl y)
        · exact Or.inr y
      · rcases mapAtList_handles h g E hg ks a x with y | y
        · exact Or.inl (Or.inr y)
        · exact Or.inr y
end

mutual
  theorem replaceBelow_handles (h : Nat) (f : HTree → List HTree) (E : List Nat)
      (hf : ∀ x a, a ∈ handlesList (f x) → a ∈ handles x ∨ a ∈ E) :
      ∀ (t : HTree) (a : Nat), a ∈ handles (replaceBelow h f t) → a ∈ handles t ∨ a ∈ E
    | .node h' v ks, a => by
      intro ha
      unfold replaceBelow at ha
      simp only [handles, List.mem_cons] at ha ⊢
      rcases ha with x | x
      · exact Or.inl (Or.inl x)
      · rcases replaceKids_handles h f E hf ks a x with y | y
        · exact Or.inl (Or.inr y)
        · exact Or.inr y
  theorem replaceKids_handles (h : Nat) (f : HTree → List HTree) (E : List Nat)
      (hf : ∀ x a, a ∈ handlesList (f x) → a ∈ handles x ∨ a ∈ E) :
      ∀ (ks : List HTree) (a : Nat), a ∈ handlesList (replaceKids h f ks) → a ∈ handlesList ks ∨ a ∈ E
    | [], a => by intro ha; simp [replaceKids, handlesList] at ha
    | k :: ks, a => by
      intro ha
      unfold replaceKids at ha
      by_cases e : k.handle = h
      · rw [if_pos e, handlesList_append, List.mem_append] at ha
        simp only [handlesList, List.mem_append]
        rcases ha with x | x
        · rcases hf k a x with y | y
          · exact Or.inl (Or.inl y)
          · exact Or.inr y
        · exact Or.inl (Or.inr x)
      · rw [if_neg e] at ha
        simp only [handlesList, List.mem_append] at ha ⊢
        rcases ha with x | x
        · rcases replaceBelow_handles h f E hf k a x with y | y
          · exact Or.inl (Or.inl y)
          · exact Or.inr y
        · rcases replaceKids_handles h f E hf ks a x with y | y
          · exact Or.inl (Or.inr y)
          · exact Or.inr y
end

end XotModel
