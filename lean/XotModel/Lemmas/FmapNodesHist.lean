/-
  Lemmas for C11 with the nodes that carry the entries, part 2: for every update and every call,
  a view that grows gets its new entry carried by the node the update gives (`grow_all`,
  `call_grow`); hence the (key, node) list of every view of every node after a call is the
  reference's (`call_nodes`).
-/
import XotModel.Lemmas.FmapNodes

namespace XotModel
namespace Fmap
open HTree
open Forest (MapKind entryKey mapChildren MapEntry)

/-- `append_*_node(e, get_node(e2, key))`: only the move makes a view grow — view `k` of `e`,
    by the node of `e2`. -/
theorem grow_appendRef {f : Forest} (hi : f.Inv) (k : MapKind) (e e2 key : Nat)
    (he : f.isElement e = true) (he2 : f.isElement e2 = true) {x : Nat} {k' : MapKind}
    {p : Nat × Nat}
    (hg : Grows f (match f.mapGetNode k e2 key with
        | some n => res3 (f.appendEntryNode k e n.handle)
        | none => (f, .ok)).1 x k' p) :
    e ≠ e2 ∧ p.2 = ((absKN k f e2).lookup key).getD f.next := by
  by_cases hne : e = e2
  · subst hne
    cases hn : f.mapGetNode k e key with
    | none => simp only [hn] at hg; exact hg.not_refl.elim
    | some n =>
      simp only [hn, res3] at hg
      rw [appendOwn_eq hi k e key n he hn] at hg
      exact hg.not_refl.elim
  · refine ⟨hne, ?_⟩
    cases hn : f.mapGetNode k e2 key with
    | none => simp only [hn] at hg; exact hg.not_refl.elim
    | some n =>
      simp only [hn, res3] at hg
      obtain ⟨hval, hmv, hkey⟩ := getNode_value hi k e2 key n he2 hn
      have hlk : (absKN k f e2).lookup key = some n.handle := by rw [← getN_lookup, getN_some hn]
      rw [hlk]
      show p.2 = n.handle
      cases hn0 : f.mapGetNode k e key with
      | some n0 =>
        exfalso
        obtain ⟨nm, N, A, S, h⟩ := minv_of_inv f e hi he
        have hn0' : f.mapGetNode k e (entryKey n.value) = some n0 := by rw [hkey]; exact hn0
        obtain ⟨_, _, heq, _, _⟩ := appendEntryNode_existing h k n.handle n.value hval hmv n0 hn0'
        rw [heq] at hg
        have t := touch_setValue hi h k key n0 n.value hmv hn0
        have s := t.stepOK (g := fun m => omInsert m key (payloadOf n.value)) (F := famOf f)
          (fun _ _ => rfl) he
        refine no_grow_upd (F := famOf f) (fun _ _ => rfl) s.agree ?_ hg
        show (omInsert (abs k f e) key _).length ≤ (abs k f e).length
        rw [omInsert_length_contains _ _ _ (contains_of_getNode hn0)]
        exact Nat.le_refl _
      | none =>
        have habs' : f.mapGetNode k e (entryKey n.value) = none := by rw [hkey]; exact hn0
        rw [appendEntryNode_moved hi k e e2 key n he he2 hne hn habs'] at hg
        obtain ⟨nm2, N2, A2, S2, h2⟩ := minv_of_inv f e2 hi he2
        obtain ⟨_, t2, hroot, _, _⟩ := touch_detach hi h2 k key n hn
        have s2 := t2.stepOK (g := fun m => omRemove m key) (F := famOf f) (fun _ _ => rfl) he2
        have hefd : (f.detach n.handle).1.isElement e = true := by
          rw [(t2.frame e hne).elem]; exact he
        obtain ⟨nm, N, A, S, h⟩ := minv_of_inv _ e t2.inv hefd
        have habs2 : (f.detach n.handle).1.mapGetNode k e (entryKey n.value) = none := by
          rw [getNode_none_iff, (t2.frame e hne).abs k, ← getNode_none_iff]
          exact habs'
        obtain ⟨_, t1, hkn⟩ := touch_place t2.inv h k n.handle n.value hmv hroot habs2
        by_cases hx : x = e
        · subst hx
          by_cases hk : k' = k
          · subst hk
            unfold Grows at hg
            rw [hkn, (t2.frame x hne).kn k'] at hg
            have := List.append_cancel_left hg
            simp only [List.cons.injEq, and_true] at this
            rw [← this]
          · exfalso
            apply hg.absurd_of_kn
            rw [absKN_of_absHV, t1.other k' hk, ← absKN_of_absHV]
            exact (t2.frame x hne).kn k'
        · exfalso
          have hg2 : Grows f (f.detach n.handle).1 x k' p := by
            unfold Grows at hg ⊢
            rw [← (t1.frame x hx).kn k']
            exact hg
          exact no_grow_upd (F := famOf f) (fun _ _ => rfl) s2.agree (omRemove_length_le _ _) hg2

theorem opOccInsert_length (v : Value) (m : OMap Payload) : (opOccInsert v m).length ≤ m.length := by
  unfold opOccInsert
  cases hc : omContainsKey m (entryKey v) with
  | true =>
    simp only [if_true]
    unfold opInsert
    rw [omInsert_length_contains _ _ _ hc]
    exact Nat.le_refl _
  | false => simp

/-- Every update: a view that grows gets its new entry carried by the node the update gives. -/
theorem grow_all {f : Forest} {F : Fam} (hi : f.Inv) (hF : Agree f F) (op : MapOp2)
    (hok : op.ok f = true) {x : Nat} {k' : MapKind} {p : Nat × Nat}
    (hg : Grows f (op.run f).1 x k' p) : p.2 = op.given (nfamOf f) f.next := by
  have s := (step_all hi hF op hok).2
  cases op with
  | insert k e v =>
    simp only [MapOp2.ok, Bool.and_eq_true] at hok
    obtain ⟨hx, hk⟩ := grow_upd (e := e) (k := k) (g := opInsert v) hF s.agree hg
    subst hx; subst hk
    exact grow_mapInsert hi k' x v hok.1 hok.2 p hg
  | remove k e key =>
    exact (no_grow_upd (e := e) (k := k) (g := fun m => omRemove m key) hF s.agree
      (omRemove_length_le _ _) hg).elim
  | clear k e =>
    exact (no_grow_upd (e := e) (k := k) (g := omClear) hF s.agree (Nat.zero_le _) hg).elim
  | getMutSet k e key new =>
    exact (no_grow_upd (e := e) (k := k) (g := fun m => omModify m key (fun _ => payloadOf new)) hF
      s.agree (Nat.le_of_eq (omModify_length _ _ _)) hg).elim
  | entryOrInsert k e d =>
    simp only [MapOp2.ok, Bool.and_eq_true] at hok
    obtain ⟨hx, hk⟩ := grow_upd (e := e) (k := k) (g := opOrInsert d) hF s.agree hg
    subst hx; subst hk
    have hg' : Grows f (f.entryOrInsert k' x d).1 x k' p := hg
    rw [entryOrInsert_fst f k' x d hok.1] at hg'
    exact grow_ite_insert hi k' x d hok.1 hok.2 _ p hg'
  | entryOrDefault e name =>
    simp only [MapOp2.ok] at hok
    obtain ⟨hx, hk⟩ := grow_upd (e := e) (k := .attributes) (g := opOrInsert (.attribute name []))
      hF s.agree hg
    subst hx; subst hk
    have hg' : Grows f (f.entryOrInsert .attributes x (.attribute name [])).1 x .attributes p := hg
    rw [entryOrInsert_fst f .attributes x _ hok] at hg'
    exact grow_ite_insert hi .attributes x _ hok rfl _ p hg'
  | entryAndModify k e key g =>
    exact (no_grow_upd (e := e) (k := k) (g := fun m => omModify m key (modP k key g)) hF s.agree
      (Nat.le_of_eq (omModify_length _ _ _)) hg).elim
  | entryAndModifyOrInsert k e d g =>
    simp only [MapOp2.ok, Bool.and_eq_true] at hok
    obtain ⟨hx, hk⟩ := grow_upd (e := e) (k := k) (g := opModifyOrInsert k d g) hF s.agree hg
    subst hx; subst hk
    cases hn : f.mapGetNode k' x (entryKey d) with
    | some n =>
      exfalso
      refine no_grow_upd (e := x) (k := k') (g := opModifyOrInsert k' d g) hF s.agree ?_ hg
      unfold opModifyOrInsert
      rw [← hF, contains_of_getNode hn]
      simp only [if_true]
      exact Nat.le_of_eq (omModify_length _ _ _)
    | none =>
      have hg' : Grows f (f.entryAndModifyOrInsert k' x d (liftP k' g)).1 x k' p := hg
      unfold Forest.entryAndModifyOrInsert at hg'
      rw [entryAndModify_absent f k' x _ _ hok.1 hn] at hg'
      simp only at hg'
      rw [vacInsert_fst] at hg'
      exact grow_mapInsert hi k' x d hok.1 hok.2 p hg'
  | entryInsert k e v =>
    simp only [MapOp2.ok, Bool.and_eq_true] at hok
    obtain ⟨hx, hk⟩ := grow_upd (e := e) (k := k) (g := opInsert v) hF s.agree hg
    subst hx; subst hk
    have hg' : Grows f (f.entryInsert k' x v).1 x k' p := hg
    rw [entryInsert_fst f k' x v hok.1] at hg'
    exact grow_mapInsert hi k' x v hok.1 hok.2 p hg'
  | occupiedInsert k e v =>
    exact (no_grow_upd (e := e) (k := k) (g := opOccInsert v) hF s.agree
      (opOccInsert_length _ _) hg).elim
  | vacantInsert k e v =>
    simp only [MapOp2.ok, Bool.and_eq_true] at hok
    obtain ⟨hx, hk⟩ := grow_upd (e := e) (k := k) (g := opOrInsert v) hF s.agree hg
    subst hx; subst hk
    have hg' : Grows f (f.vacantInsert k' x v).1 x k' p := hg
    rw [vacantInsert_fst f k' x v hok.1] at hg'
    exact grow_ite_insert hi k' x v hok.1 hok.2 _ p hg'
  | entryRemove k e key =>
    exact (no_grow_upd (e := e) (k := k) (g := fun m => omRemove m key) hF s.agree
      (omRemove_length_le _ _) hg).elim
  | setAttribute e name value =>
    simp only [MapOp2.ok] at hok
    obtain ⟨hx, hk⟩ := grow_upd (e := e) (k := .attributes) (g := opInsert (.attribute name value))
      hF s.agree hg
    subst hx; subst hk
    exact grow_mapInsert hi .attributes x _ hok rfl p hg
  | removeAttribute e name =>
    exact (no_grow_upd (e := e) (k := .attributes) (g := fun m => omRemove m name) hF s.agree
      (omRemove_length_le _ _) hg).elim
  | setNamespace e pfx ns =>
    simp only [MapOp2.ok] at hok
    obtain ⟨hx, hk⟩ := grow_upd (e := e) (k := .namespaces) (g := opInsert (.namespace pfx ns))
      hF s.agree hg
    subst hx; subst hk
    exact grow_mapInsert hi .namespaces x _ hok rfl p hg
  | removeNamespace e pfx =>
    exact (no_grow_upd (e := e) (k := .namespaces) (g := fun m => omRemove m pfx) hF s.agree
      (omRemove_length_le _ _) hg).elim
  | appendNewNode k e v =>
    simp only [MapOp2.ok, Bool.and_eq_true] at hok
    obtain ⟨hx, hk⟩ := grow_upd (e := e) (k := k) (g := opInsert v) hF s.agree hg
    subst hx; subst hk
    exact grow_appendNew hi k' x v hok.1 hok.2 p hg
  | appendDetachedNode k e nd v =>
    simp only [MapOp2.ok, Bool.and_eq_true] at hok
    obtain ⟨hroot, hm, _⟩ := isDetachedEntry_root hi k nd v hok.2
    obtain ⟨hx, hk⟩ := grow_upd (e := e) (k := k) (g := opInsert v) hF s.agree hg
    subst hx; subst hk
    exact grow_appendLeafRoot hi k' x nd v hok.1 hm hroot p hg
  | appendOwnNode k e key =>
    simp only [MapOp2.ok] at hok
    exact ((grow_appendRef hi k e e key hok hok hg).1 rfl).elim
  | appendAttachedNode k e e2 key =>
    simp only [MapOp2.ok, Bool.and_eq_true] at hok
    exact (grow_appendRef hi k e e2 key hok.1.1 hok.1.2 hg).2
  | anyAppend e r =>
    cases r with
    | new v =>
      simp only [MapOp2.ok, Bool.and_eq_true] at hok
      cases hk : kindOf? v with
      | none => rw [hk] at hok; simp at hok
      | some k =>
        have hm := kindOf_matches v k hk
        have hi1 := newNode_inv f hi v
        have hgt : (f.newNode v).1.get? f.next = some (.node f.next v []) :=
          findList?_direct _ hi1.nodup (.node f.next v []) (by simp [newNode_eq])
        have hval : (f.newNode v).1.value? f.next = some v := by
          simp [Forest.value?, hgt, HTree.value]
        have hrun : (MapOp2.anyAppend e (.new v)).run f =
            res3 ((f.newNode v).1.appendEntryNode k e f.next) := by
          show res3 ((f.newNode v).1.anyAppend e f.next) = _
          rw [anyAppend_entry _ k e f.next v hval hm]
        have hspec : specStep F (.anyAppend e (.new v)) = F.upd e k (opInsert v) := by
          simp only [specStep, hk]
        rw [hrun] at hg s
        rw [hspec] at s
        obtain ⟨hx, hk'⟩ := grow_upd (e := e) (k := k) (g := opInsert v) hF s.agree hg
        subst hx; subst hk'
        exact grow_appendNew hi k' x v hok.1 hm p hg
    | detached nd v =>
      simp only [MapOp2.ok, Bool.and_eq_true] at hok
      cases hk : kindOf? v with
      | none => rw [hk] at hok; simp at hok
      | some k =>
        rw [hk] at hok
        obtain ⟨hroot, hm, hval⟩ := isDetachedEntry_root hi k nd v hok.2
        have hrun : (MapOp2.anyAppend e (.detached nd v)).run f = res3 (f.appendEntryNode k e nd) := by
          show res3 (f.anyAppend e nd) = _
          rw [anyAppend_entry _ k e nd v hval hm]
        have hspec : specStep F (.anyAppend e (.detached nd v)) = F.upd e k (opInsert v) := by
          simp only [specStep, hk]
        rw [hrun] at hg s
        rw [hspec] at s
        obtain ⟨hx, hk'⟩ := grow_upd (e := e) (k := k) (g := opInsert v) hF s.agree hg
        subst hx; subst hk'
        exact grow_appendLeafRoot hi k' x nd v hok.1 hm hroot p hg
    | entry k e2 key =>
      simp only [MapOp2.ok, Bool.and_eq_true] at hok
      rw [run_anyAppend_entry hi k e e2 key hok.2] at hg
      exact (grow_appendRef hi k e e2 key hok.1 hok.2 hg).2
  | detachEntryNode k e key =>
    exact (no_grow_upd (e := e) (k := k) (g := fun m => omRemove m key) hF s.agree
      (omRemove_length_le _ _) hg).elim
  | removeEntryNode k e key =>
    exact (no_grow_upd (e := e) (k := k) (g := fun m => omRemove m key) hF s.agree
      (omRemove_length_le _ _) hg).elim

/-- The same for every call. -/
theorem call_grow {f : Forest} {F : Fam} (hi : f.Inv) (hF : Agree f F) (c : MapCall)
    (hok : c.ok f = true) {x : Nat} {k' : MapKind} {p : Nat × Nat}
    (hg : Grows f (c.run f).1 x k' p) : p.2 = c.given (nfamOf f) f.next := by
  have s := (call_step hi hF c hok).2.2
  have same : c.spec F = F → False := fun h => by
    apply hg.absurd_of_le
    rw [s.agree x k', h, hF x k']
    exact Nat.le_refl _
  cases c with
  | base op => exact grow_all hi hF op hok hg
  | entryOrInsertWith k e key call =>
    simp only [MapCall.ok, Bool.and_eq_true, beq_iff_eq] at hok
    obtain ⟨⟨he, hm⟩, hk⟩ := hok
    obtain ⟨hx, hk'⟩ := grow_upd (e := e) (k := k) (g := opOrInsert (call ())) hF s.agree hg
    subst hx; subst hk'
    have hg' : Grows f (f.entryOrInsertWith k' x key call).1 x k' p := hg
    rw [(entryOrInsertWith_eq f k' x key call hk).1, entryOrInsert_fst f k' x _ he] at hg'
    exact grow_ite_insert hi k' x _ he hm _ p hg'
  | occupiedIntoMutSet k e key new =>
    exact (no_grow_upd (e := e) (k := k) (g := fun m => omModify m key (fun _ => payloadOf new)) hF
      s.agree (Nat.le_of_eq (omModify_length _ _ _)) hg).elim
  | occupiedGetMutSet k e key new =>
    exact (no_grow_upd (e := e) (k := k) (g := fun m => omModify m key (fun _ => payloadOf new)) hF
      s.agree (Nat.le_of_eq (omModify_length _ _ _)) hg).elim
  | peekKey k e key => exact (same rfl).elim
  | occupiedGet k e key => exact (same rfl).elim
  | get k e key => exact (same rfl).elim
  | getNode k e key => exact (same rfl).elim
  | containsKey k e key => exact (same rfl).elim

theorem absKN_keys_nodup {f : Forest} (hi : f.Inv) (k : MapKind) (x : Nat) :
    ((absKN k f x).map (·.1)).Nodup := by
  rw [absKN_fst]
  exact unique_keys_of_inv f hi k x

/-- After a call the (key, node) list of every view of every node is the reference's. -/
theorem call_nodes {f : Forest} {F : Fam} (hi : f.Inv) (hF : Agree f F) (c : MapCall)
    (hok : c.ok f = true) (x : Nat) (k : MapKind) :
    absKN k (c.run f).1 x = c.specN (c.spec F) (nfamOf f) f.next x k := by
  have s := (call_step hi hF c hok).2.2
  have := knFollow_of_step (s.kn x k) (absKN_keys_nodup hi k x) (absKN_keys_nodup s.inv k x)
    (c.given (nfamOf f) f.next) (fun p hp => call_grow hi hF c hok hp)
  rw [absKN_fst, s.agree x k] at this
  exact this

end Fmap
end XotModel
