/-
  FparseVals, part 5: parse, then edit — the values of every tree of the resulting store are in the XML domain
  when the parsed text was accepted outside the two guards and the values handed to the API are in the
  domain (of the tables at the time of each call).
-/
import XotModel.Lemmas.FparseValsDomain
import XotModel.Lemmas.FparseHistReach

namespace XotModel
open HTree Repair

/-- The store right after the accepted parse satisfies `Store.FpvdOK`. -/
theorem fpvd_parse_VOK {env : Env} {text : Str} {p : Parsed} (henv : envOK env = true)
    (h : parseString .document env text = .ok p) (hg : NoReservedDecls p.env p.tree = true)
    (hpi : PlainPiTargets p.env p.tree = true) (htab : nameTableOK p.env = true) :
    ((PStore.init env).run [.parse .document text]).store.FpvdOK := by
  obtain ⟨h1, _, h3⟩ := PStore.fph_parse_init env h
  obtain ⟨c1, c2, _, _, _⟩ := fph_accepted_value_conditions henv h hg hpi
  have hinv : ((PStore.init env).run [.parse .document text]).forest.Inv :=
    PStore.fph_run_inv _ (PStore.fph_init_inv env) (fun c hc => by
      rcases List.mem_singleton.mp hc with rfl; trivial)
  refine ⟨hinv, ?_, ?_, ?_⟩
  · show envOK ((PStore.init env).run [.parse .document text]).env = true
    rw [h3]; exact c1
  · show nameTableOK ((PStore.init env).run [.parse .document text]).env = true
    rw [h3]; exact htab
  · show Forest.fpvQF (fpvdVal ((PStore.init env).run [.parse .document text]).env)
      ((PStore.init env).run [.parse .document text]).forest
    rw [fpvd_QF_iff, h1, h3]
    intro r hr
    rcases List.mem_singleton.mp hr with rfl
    rw [fph_erase_ofTree]; exact c2

/-- **Parse, then edit: every value of every tree of the resulting store is in the XML domain of the
    tables the store has then**, and those tables are well formed — only the prefix table has grown
    since the parse. -/
theorem fpvd_parse_then_edit {env : Env} {text : Str} {p : Parsed} (henv : envOK env = true)
    (h : parseString .document env text = .ok p) (hg : NoReservedDecls p.env p.tree = true)
    (hpi : PlainPiTargets p.env p.tree = true) (htab : nameTableOK p.env = true)
    (cs : List Forest.XCall) (hw : ∀ c ∈ cs, c.wellKinded)
    (ha : ((PStore.init env).run [.parse .document text]).store.argValuesOKAlong cs) :
    envOK ((PStore.init env).run (.parse .document text :: cs.map .api)).env = true ∧
    PrefixExt p.env ((PStore.init env).run (.parse .document text :: cs.map .api)).env ∧
    ∀ r ∈ ((PStore.init env).run (.parse .document text :: cs.map .api)).forest.roots,
      r.erase.allNodes
        (fun v _ => valueOK ((PStore.init env).run (.parse .document text :: cs.map .api)).env v) = true := by
  have h0 := fpvd_parse_VOK henv h hg hpi htab
  obtain ⟨hv, hext⟩ := Store.fpvd_xrun cs h0 hw ha
  have hrun : (PStore.init env).run (.parse .document text :: cs.map .api) =
      ((PStore.init env).run [.parse .document text]).run (cs.map .api) := rfl
  have hst := (PStore.fph_run_api cs ((PStore.init env).run [.parse .document text])).1
  have he : ((PStore.init env).run (.parse .document text :: cs.map .api)).env =
      (((PStore.init env).run [.parse .document text]).store.xrun cs).env := by
    rw [hrun]; exact congrArg Store.env hst
  have hf : ((PStore.init env).run (.parse .document text :: cs.map .api)).forest =
      (((PStore.init env).run [.parse .document text]).store.xrun cs).forest := by
    rw [hrun]; exact congrArg Store.forest hst
  have h3 := (PStore.fph_parse_init env h).2.2
  refine ⟨by rw [he]; exact hv.tables, ?_, ?_⟩
  · rw [he]
    have : ((PStore.init env).run [.parse .document text]).store.env = p.env := h3
    rw [← this]; exact hext
  · rw [he, hf]
    exact (fpvd_QF_iff _ _).mp hv.values

end XotModel
