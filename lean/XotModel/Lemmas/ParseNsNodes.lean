/-
  C02_spelled_ns, part 3: what the builder does on the tokens of one spelled node with prefixes,
  given what it does on the node's children — `open_element`, the empty-element tag, the end tag,
  character-data runs.
-/
import XotModel.Lemmas.ParseNsStart
import XotModel.Lemmas.ParseSpell

namespace XotModel

/-- The state between two nodes, `frames` being the declarations of the open elements. -/
structure ReadyNs (b : Builder) (frames : List (List (Str × Str))) : Prop where
  eb : b.eb = none
  base : EnvBaseNs b.env
  stack : b.nsStack = frames.map (idFrame b.env)
  frames : FramesIn b.env frames

/-- The builder after some finished nodes `trees` (in document order) were added to the current
    frame, with the tables `env'`, the IDs seen `seen`, some id map and some span map. -/
def Builder.emitNs (b : Builder) (env' : Env) (trees : List Tree) (seen : List Str) (idn : List (Str × Path))
    (sp : SpanMap) : Builder :=
  { b with env := env', cur := { b.cur with rkids := trees.reverse ++ b.cur.rkids }, seenIds := seen,
           idNodes := idn, spans := sp }

theorem emitNs_emitNs (b : Builder) (e1 e2 : Env) (t1 t2 : List Tree) (s1 s2 : List Str) (i1 i2 : List (Str × Path))
    (p1 p2 : SpanMap) :
    (b.emitNs e1 t1 s1 i1 p1).emitNs e2 t2 s2 i2 p2 = b.emitNs e2 (t1 ++ t2) s2 i2 p2 := by
  simp [Builder.emitNs, List.reverse_append, List.append_assoc]

theorem emit_eq_emitNs (b : Builder) (e : Env) (t : List Tree) (sp : SpanMap) :
    b.emit e t sp = b.emitNs e t b.seenIds b.idNodes sp := rfl

theorem ReadyNs.emitNs {b : Builder} {frames : List (List (Str × Str))} (h : ReadyNs b frames) {e' : Env}
    (hx : EnvApp b.env e') (trees : List Tree) (seen : List Str) (idn : List (Str × Path)) (sp : SpanMap) :
    ReadyNs (b.emitNs e' trees seen idn sp) frames :=
  ⟨h.eb, h.base.app hx, by
    show b.nsStack = frames.map (idFrame e')
    rw [idFrames_app hx h.frames]; exact h.stack, h.frames.app hx⟩

/-! ### `encode` only appends to the tables -/

theorem encodeDecls_app (env : Env) (ds : List (Str × Str)) : EnvApp env (encodeDecls env ds).1 := declIds_app ds env

theorem encodeNsAttrs_app : ∀ (attrs : List ((Str × Str) × Str)) (env : Env), EnvApp env (encodeNsAttrs env attrs).1
  | [], env => EnvApp.refl env
  | ((ns, a), v) :: rest, env => by
    simp only [encodeNsAttrs]
    exact ((internNamespace_app env ns).trans (internName_app _ a _)).trans (encodeNsAttrs_app rest _)

mutual
theorem encodeNs_app : ∀ (n : NPNode) (env : Env), EnvApp env (n.encode env).1
  | .elem ns loc decls attrs kids, env => by
    simp only [NPNode.encode]
    exact ((((encodeDecls_app env decls).trans (internNamespace_app _ ns)).trans (internName_app _ loc _)).trans
      (encodeNsAttrs_app attrs _)).trans (encodeNsList_app kids _)
  | .text s, env => EnvApp.refl env
  | .comment s, env => EnvApp.refl env
  | .pi t d, env => by simp only [NPNode.encode]; exact internName_app env t Env.noNamespace
theorem encodeNsList_app : ∀ (ns : List NPNode) (env : Env), EnvApp env (NPNode.encode.encodeList env ns).1
  | [], env => EnvApp.refl env
  | k :: ks, env => by
    simp only [NPNode.encode.encodeList]
    exact (encodeNs_app k env).trans (encodeNsList_app ks _)
end

theorem encodeNsList_append (env : Env) : ∀ (l1 l2 : List NPNode),
    NPNode.encode.encodeList env (l1 ++ l2) =
      ((NPNode.encode.encodeList (NPNode.encode.encodeList env l1).1 l2).1,
       (NPNode.encode.encodeList env l1).2 ++ (NPNode.encode.encodeList (NPNode.encode.encodeList env l1).1 l2).2) := by
  intro l1
  induction l1 generalizing env with
  | nil => intro l2; simp [NPNode.encode.encodeList]
  | cons k ks ih =>
    intro l2
    simp only [List.cons_append, NPNode.encode.encodeList]
    rw [ih]

theorem encodeNsList_single (env : Env) (n : NPNode) :
    NPNode.encode.encodeList env [n] = ((n.encode env).1, [(n.encode env).2]) := by
  simp [NPNode.encode.encodeList]

theorem encodeDecls_notText (env : Env) (ds : List (Str × Str)) :
    ∀ k ∈ (encodeDecls env ds).2, k.value.isText = false := by
  intro k hk
  simp only [encodeDecls, List.mem_map] at hk
  obtain ⟨d, _, rfl⟩ := hk
  rfl

theorem encodeNsAttrs_notText : ∀ (attrs : List ((Str × Str) × Str)) (env : Env),
    ∀ k ∈ (encodeNsAttrs env attrs).2, k.value.isText = false
  | [], _, k, hk => by simp [encodeNsAttrs] at hk
  | ((ns, a), v) :: rest, env, k, hk => by
    simp only [encodeNsAttrs, List.mem_cons] at hk
    rcases hk with rfl | hk
    · rfl
    · exact encodeNsAttrs_notText rest _ k hk

/-! ### `open_element` -/

/-- The builder right after the start tag of an element written with the prefix `wp`, with
    expanded name (`ns`, `loc`), declarations `decls` and attributes `nattrs`. -/
def Builder.openedNs (b : Builder) (wp ns loc : Str) (decls : List (Str × Str)) (nattrs : List ((Str × Str) × Str))
    (idn : List (Str × Path)) (sp : SpanMap) : Builder :=
  { env := (encodeNsAttrs (((encodeDecls b.env decls).1.internNamespace ns).1.internName loc
        ((encodeDecls b.env decls).1.internNamespace ns).2).1 nattrs).1,
    cur := ⟨.element (((encodeDecls b.env decls).1.internNamespace ns).1.internName loc
        ((encodeDecls b.env decls).1.internNamespace ns).2).2,
      ((encodeDecls b.env decls).2 ++ (encodeNsAttrs (((encodeDecls b.env decls).1.internNamespace ns).1.internName loc
        ((encodeDecls b.env decls).1.internNamespace ns).2).1 nattrs).2).reverse⟩,
    parents := b.cur :: b.parents, nsStack := (declIds b.env decls).2 :: b.nsStack, eb := none,
    seenIds := (attrIds nattrs).reverse ++ b.seenIds, idNodes := idn, spans := sp,
    openPrefixes := wp :: b.openPrefixes }

theorem openedNs_app (b : Builder) (wp ns loc : Str) (decls : List (Str × Str)) (nattrs : List ((Str × Str) × Str))
    (idn : List (Str × Path)) (sp : SpanMap) : EnvApp b.env (b.openedNs wp ns loc decls nattrs idn sp).env :=
  (((encodeDecls_app b.env decls).trans (internNamespace_app _ ns)).trans (internName_app _ loc _)).trans
    (encodeNsAttrs_app nattrs _)

/-- The frames inside the element. -/
theorem frames_push {b : Builder} {frames : List (List (Str × Str))} (hr : ReadyNs b frames) (decls : List (Str × Str))
    {e : Env} (hx : EnvApp (declIds b.env decls).1 e) :
    FramesIn e (decls :: frames) ∧
      (declIds b.env decls).2 :: b.nsStack = (decls :: frames).map (idFrame e) := by
  obtain ⟨hf1, hf2⟩ := declIds_frame decls b.env
  have happ := declIds_app decls b.env
  constructor
  · intro f hf
    simp only [List.mem_cons] at hf
    rcases hf with rfl | hf
    · exact hf2.app hx
    · exact (hr.frames f hf).app (happ.trans hx)
  · simp only [List.map_cons]
    rw [hf1, idFrame_app hx hf2, hr.stack, idFrames_app (happ.trans hx) hr.frames]

theorem readyNs_opened {b : Builder} {frames : List (List (Str × Str))} (hr : ReadyNs b frames) (wp ns loc : Str)
    (decls : List (Str × Str)) (nattrs : List ((Str × Str) × Str)) (idn : List (Str × Path)) (sp : SpanMap) :
    ReadyNs (b.openedNs wp ns loc decls nattrs idn sp) (decls :: frames) := by
  have hx : EnvApp (declIds b.env decls).1 (b.openedNs wp ns loc decls nattrs idn sp).env :=
    ((internNamespace_app _ ns).trans (internName_app _ loc _)).trans (encodeNsAttrs_app nattrs _)
  obtain ⟨h1, h2⟩ := frames_push hr decls hx
  exact ⟨rfl, hr.base.app (openedNs_app b wp ns loc decls nattrs idn sp), h2, h1⟩

theorem headOk_openedNs (b : Builder) (wp ns loc : Str) (decls : List (Str × Str)) (nattrs : List ((Str × Str) × Str))
    (idn : List (Str × Path)) (sp : SpanMap) : HeadOk (b.openedNs wp ns loc decls nattrs idn sp) := by
  intro s ks more heq
  simp only [Builder.openedNs] at heq
  have hm : Tree.node (.text s) ks ∈ ((encodeDecls b.env decls).2 ++
      (encodeNsAttrs (((encodeDecls b.env decls).1.internNamespace ns).1.internName loc
        ((encodeDecls b.env decls).1.internNamespace ns).2).1 nattrs).2) := by
    rw [← List.mem_reverse, heq]; simp
  rcases List.mem_append.mp hm with h | h
  · exact absurd (encodeDecls_notText _ _ _ h) (by simp [Tree.value, Value.isText])
  · exact absurd (encodeNsAttrs_notText _ _ _ h) (by simp [Tree.value, Value.isText])

/-- `open_element` after the start tag's items were read. -/
theorem openElement_ns {b : Builder} {frames : List (List (Str × Str))} (hr : ReadyNs b frames) (pfx loc : StrSpan)
    (attrs : List NSAttr)
    (hw : attrsWellNs ((flatScope frames).push (declsOf attrs)) attrs)
    (hp : (((flatScope frames).push (declsOf attrs)).lookup pfx.text).isSome = true)
    (hidn : (attrIds (attrsOf ((flatScope frames).push (declsOf attrs)) attrs)).Nodup)
    (hidd : ∀ x ∈ attrIds (attrsOf ((flatScope frames).push (declsOf attrs)) attrs), x ∉ b.seenIds) :
    ∃ idn sp, ({ b with
        env := (declIds b.env (declsOf attrs)).1,
        eb := some { (ElementBuilder.new pfx loc) with
          namespaces := (declIds b.env (declsOf attrs)).2,
          attributes := (ordinary attrs).map NSAttr.builder } } : Builder).openElement =
      .ok (b.openedNs pfx.text (((flatScope frames).push (declsOf attrs)).resolve pfx.text) loc.text (declsOf attrs)
        (attrsOf ((flatScope frames).push (declsOf attrs)) attrs) idn sp) := by
  obtain ⟨u, hu⟩ := Option.isSome_iff_exists.mp hp
  have hres : ((flatScope frames).push (declsOf attrs)).resolve pfx.text = u := by simp [Scope.resolve, hu]
  rw [hres]
  obtain ⟨hF, hS⟩ := frames_push hr (declsOf attrs) (EnvApp.refl _)
  have hbase : EnvBaseNs (declIds b.env (declsOf attrs)).1 := hr.base.app (declIds_app _ _)
  have hname : elementNameId (declIds b.env (declsOf attrs)).1 ((declIds b.env (declsOf attrs)).2 :: b.nsStack)
      pfx.text loc.text pfx.span =
      .ok (((declIds b.env (declsOf attrs)).1.internNamespace u).1.internName loc.text
        ((declIds b.env (declsOf attrs)).1.internNamespace u).2) := by
    rw [hS]; exact elementNameId_ns hF hu loc.text pfx.span
  have happ1 : EnvApp (declIds b.env (declsOf attrs)).1
      (((declIds b.env (declsOf attrs)).1.internNamespace u).1.internName loc.text
        ((declIds b.env (declsOf attrs)).1.internNamespace u).2).1 :=
    (internNamespace_app _ u).trans (internName_app _ loc.text _)
  obtain ⟨hw1, _, hw2, hw3, hw4, _⟩ := hw
  obtain ⟨st', hst, he, hk, hs⟩ := addAttributes_ns (declsOf attrs :: frames)
    (b.curPath ++ [b.cur.rkids.length]) (ordinary attrs)
    { env := (((declIds b.env (declsOf attrs)).1.internNamespace u).1.internName loc.text
        ((declIds b.env (declsOf attrs)).1.internNamespace u).2).1,
      seenIds := b.seenIds, idNodes := b.idNodes, seenNames := [],
      rkids := namespaceKids (declIds b.env (declsOf attrs)).2, aspans := [] }
    (hbase.app happ1) (hF.app happ1) hw4 (by intro n hn; simp at hn)
    (by
      have : (ordinary attrs).map (fun a => (NSAttr.denote (flatScope (declsOf attrs :: frames)) a).1) =
          (attrsOf ((flatScope frames).push (declsOf attrs)) attrs).map Prod.fst := by
        simp only [attrsOf, List.map_map]; rfl
      rw [this]; exact hw3) hidn hidd
  simp only at hst he hk hs
  rw [idFrames_app happ1 hF, ← hS] at hst
  refine ⟨st'.idNodes, (b.spans.add ⟨b.curPath ++ [b.cur.rkids.length], .elementStart⟩
      (Span.fromPrefixName pfx loc)).addAttributeSpans (b.curPath ++ [b.cur.rkids.length]) st'.aspans, ?_⟩
  unfold Builder.openElement
  dsimp only [ElementBuilder.new]
  rw [hname]
  dsimp only [Builder.curPath]
  dsimp only [Builder.curPath] at hst
  rw [hst]
  dsimp only
  simp only [Builder.openedNs, he, hk, hs, encodeDecls, namespaceKids, attrsOf, List.reverse_append]
  rfl

/-! ### End tags -/

/-- The empty-element tag `/>` right after the start tag was read. -/
theorem closeImmediate_openedNs (b : Builder) (he : b.eb = none) (wp ns loc : Str) (decls : List (Str × Str))
    (nattrs : List ((Str × Str) × Str)) (idn : List (Str × Path)) (sp0 : SpanMap) (endSp : StrSpan) :
    (b.openedNs wp ns loc decls nattrs idn sp0).closeImmediate endSp =
      .ok (b.emitNs (NPNode.encode b.env (.elem ns loc decls nattrs [])).1
        [(NPNode.encode b.env (.elem ns loc decls nattrs [])).2] ((attrIds nattrs).reverse ++ b.seenIds) idn
        (sp0.add ⟨(b.openedNs wp ns loc decls nattrs idn sp0).curPath, .elementEnd⟩ endSp.span)) := by
  simp only [Builder.closeImmediate, Builder.openedNs, Value.isElement, if_true, Builder.leave, Builder.toParent,
    Frame.close, Builder.emitNs, Builder.curPath, List.reverse_reverse, List.reverse_cons, List.reverse_nil,
    List.nil_append, List.singleton_append, List.tail_cons, he, NPNode.encode, NPNode.encode.encodeList,
    List.append_nil]

/-- The end tag `</cpfx:cloc>` after the children were added. -/
theorem run_close_ns {b : Builder} {frames : List (List (Str × Str))} (hr : ReadyNs b frames) (wp ns loc : Str)
    (decls : List (Str × Str)) (nattrs : List ((Str × Str) × Str)) (idn0 : List (Str × Path)) (sp0 : SpanMap)
    (ek : Env) (tk : List Tree) (seenk : List Str) (idnk : List (Str × Path)) (spk : SpanMap)
    (hext : EnvApp (b.openedNs wp ns loc decls nattrs idn0 sp0).env ek)
    (cpfx cloc : StrSpan) (closeSp : StrSpan) (hcp : cpfx.text = wp) (hc : cloc.text = loc)
    (hl : ((flatScope frames).push decls).lookup cpfx.text = some ns) (hbc : cpfx.bareColon = false)
    (rest : List Token) (lexErr : Option Nat) :
    ∃ sp, ((b.openedNs wp ns loc decls nattrs idn0 sp0).emitNs ek tk seenk idnk spk).run
        (.elementEnd (.close cpfx cloc) closeSp :: rest) lexErr =
      (b.emitNs ek [.node (.element (((encodeDecls b.env decls).1.internNamespace ns).1.internName loc
          ((encodeDecls b.env decls).1.internNamespace ns).2).2)
        ((encodeDecls b.env decls).2 ++ ((encodeNsAttrs (((encodeDecls b.env decls).1.internNamespace ns).1.internName loc
          ((encodeDecls b.env decls).1.internNamespace ns).2).1 nattrs).2 ++ tk))] seenk idnk sp).run rest lexErr := by
  have hx0 : EnvApp (declIds b.env decls).1 ek :=
    (((internNamespace_app _ ns).trans (internName_app _ loc _)).trans (encodeNsAttrs_app nattrs _)).trans hext
  obtain ⟨hF, hS⟩ := frames_push hr decls hx0
  have hname : elementNameId ek ((declIds b.env decls).2 :: b.nsStack) cpfx.text cloc.text cpfx.span =
      .ok (ek, (((encodeDecls b.env decls).1.internNamespace ns).1.internName loc
          ((encodeDecls b.env decls).1.internNamespace ns).2).2) := by
    rw [hS, elementNameId_ns hF hl cloc.text cpfx.span, hc]
    -- the namespace is interned already, in the tables after the declarations
    obtain ⟨hF0, _⟩ := frames_push hr decls (EnvApp.refl _)
    obtain ⟨_, hu0, _⟩ := resolve_ok hF0 hl
    have hrn0 : (declIds b.env decls).1.internNamespace ns =
        ((declIds b.env decls).1, (declIds b.env decls).1.namespaces.idxOf ns) := internNamespace_of_mem hu0
    have hrnk : ek.internNamespace ns = (ek, ek.namespaces.idxOf ns) := internNamespace_of_mem (mem_ext hx0.2.1 hu0)
    simp only [encodeDecls]
    rw [hrnk, hrn0]
    simp only
    rw [idxOf_app hx0.2.1 hu0]
    apply congrArg Step.ok
    apply internName_again_app
    have := ((encodeNsAttrs_app nattrs _).trans hext)
    simp only [encodeDecls, hrn0] at this
    exact this
  refine ⟨spk.add ⟨(b.openedNs wp ns loc decls nattrs idn0 sp0).curPath, .elementEnd⟩ closeSp.span, ?_⟩
  simp only [Builder.run, Builder.step, hbc, Bool.false_eq_true, if_false]
  have hstep : ((b.openedNs wp ns loc decls nattrs idn0 sp0).emitNs ek tk seenk idnk spk).closeElement cpfx cloc closeSp =
      .ok (b.emitNs ek [.node (.element (((encodeDecls b.env decls).1.internNamespace ns).1.internName loc
          ((encodeDecls b.env decls).1.internNamespace ns).2).2)
        ((encodeDecls b.env decls).2 ++ ((encodeNsAttrs (((encodeDecls b.env decls).1.internNamespace ns).1.internName loc
          ((encodeDecls b.env decls).1.internNamespace ns).2).1 nattrs).2 ++ tk))] seenk idnk
        (spk.add ⟨(b.openedNs wp ns loc decls nattrs idn0 sp0).curPath, .elementEnd⟩ closeSp.span)) := by
    unfold Builder.closeElement
    simp only [Builder.emitNs, Builder.openedNs] at hname ⊢
    rw [hname]
    simp only [List.isEmpty_cons, Bool.false_eq_true, if_false, bne_self_eq_false, samePrefix, List.head?_cons,
      hcp, BEq.rfl, Bool.not_true, Bool.or_false]
    simp only [Builder.leave, Builder.toParent, Frame.close, Builder.curPath, List.reverse_append, List.reverse_reverse,
      List.reverse_cons, List.reverse_nil, List.nil_append, List.singleton_append, List.tail_cons, hr.eb,
      List.append_assoc]
  rw [hstep]

/-! ### Character data (as in the namespace-free development, without its `Ready` hypothesis) -/

theorem run_parts_ns (b : Builder) (hh : HeadOk b) (rest : List Token) (lexErr : Option Nat) :
    ∀ (parts : List SPart) (acc : Str) (sp : SpanMap), (∀ p ∈ parts, p.Well) →
      ∃ sp', (b.fed acc sp).run (parts.map SPart.token ++ rest) lexErr =
        (b.fed (acc ++ partsValue parts) sp').run rest lexErr := by
  intro parts
  induction parts with
  | nil => intro acc sp _; exact ⟨sp, by simp [partsValue]⟩
  | cons p ps ih =>
    intro acc sp hw
    have hwp := hw p (by simp)
    have hws : ∀ q ∈ ps, q.Well := fun q hq => hw q (by simp [hq])
    simp only [List.map_cons, List.cons_append, Builder.run]
    have hval : partsValue (p :: ps) = p.value ++ partsValue ps := by simp [partsValue]
    cases p with
    | txt pcs start =>
      obtain ⟨hne, hwell⟩ := hwp
      have hparse := parse_pieces false start pcs 0 hwell
      have hv := valueOf_ne_nil false hne hwell
      simp only [SPart.token, Builder.step, Builder.text, hparse]
      rcases fed_addText hh acc (valueOf false pcs) sp
          (((b.fed acc sp).addText (valueOf false pcs)).1.spans.extendText ((b.fed acc sp).addText (valueOf false pcs)).2
            (⟨renderPieces pcs, start⟩ : StrSpan).span) with h | h
      · rw [h]
        obtain ⟨sp', h'⟩ := ih (acc ++ valueOf false pcs) _ hws
        exact ⟨sp', by rw [h', hval, List.append_assoc]; rfl⟩
      · exact absurd h hv
    | cd t junk =>
      simp only [SPart.token, Builder.step, Builder.cdata]
      by_cases ht : t.text = []
      · simp only [ht, List.isEmpty_nil, if_true]
        obtain ⟨sp', h'⟩ := ih acc sp hws
        refine ⟨sp', ?_⟩
        rw [h', hval]
        simp [SPart.value, ht, replaceCrLf, replaceCr]
      · have hemp : t.text.isEmpty = false := by cases h : t.text <;> simp_all
        simp only [hemp, Bool.false_eq_true, if_false]
        rcases fed_addText hh acc (replaceCr (replaceCrLf t.text)) sp
            (((b.fed acc sp).addText (replaceCr (replaceCrLf t.text))).1.spans.extendText
              ((b.fed acc sp).addText (replaceCr (replaceCrLf t.text))).2 t.span) with h | h
        · rw [h]
          obtain ⟨sp', h'⟩ := ih (acc ++ replaceCr (replaceCrLf t.text)) _ hws
          exact ⟨sp', by rw [h', hval, List.append_assoc]; rfl⟩
        · exact absurd h (cdataValue_ne_nil ht)

/-- A run of character data: one text node with the concatenated value, or nothing. -/
theorem run_chars_ns (b : Builder) (hh : HeadOk b) (parts : List SPart) (hw : ∀ p ∈ parts, p.Well)
    (rest : List Token) (lexErr : Option Nat) :
    ∃ sp, b.run (parts.map SPart.token ++ rest) lexErr =
      (b.emit b.env (if partsValue parts = [] then [] else [.node (.text (partsValue parts)) []]) sp).run rest lexErr := by
  obtain ⟨sp', h⟩ := run_parts_ns b hh rest lexErr parts [] b.spans hw
  have h0 : b.fed [] b.spans = b := by simp [Builder.fed]
  rw [h0, List.nil_append] at h
  refine ⟨sp', ?_⟩
  rw [h]
  congr 1
  unfold Builder.fed Builder.emit
  by_cases hv : partsValue parts = []
  · simp [hv]
  · simp only [hv, if_false, List.reverse_cons, List.reverse_nil, List.nil_append, List.singleton_append]
    rw [addText_headOk hh]

end XotModel
