/-
  GENERATED COPY (wt-c17str) of the declarations of XotModel.Lemmas.SerTokensShape that depend on `valueOK`, restated in the
  namespace `XotModel.PiColon`, where `valueOK` asks of a PI target what the tokenizer's `consume_name` accepts
  (`nameOK`: colons allowed) instead of an NCName (Lemmas/PiColonDefs.lean).  Proof texts unchanged except where noted.
-/
import XotModel.Lemmas.SerTokensShape
import XotModel.Lemmas.PiColonDefs

namespace XotModel.PiColon

variable (env : Env)

/-! ### Inversion -/

/-! ### What `nodeOK` everywhere gives -/

theorem nodeOK_iff (v : Value) (ks : List Tree) :
    nodeOK env v ks = true ↔
      OrderedKids ks ∧ KindsOk v ks ∧ UniqueKids ks ∧ noAdjText ks = true ∧ valueOK env v = true := by
  simp [nodeOK, and_assoc]

theorem allNodes_value {n : Tree} (h : n.allNodes (nodeOK env) = true) : valueOK env n.value = true := by
  cases n with
  | node v ks =>
    rw [allNodes_node, Bool.and_eq_true] at h
    exact ((nodeOK_iff env v ks).mp h.1).2.2.2.2

/-- A leaf kind below a valid node has no children. -/
theorem allNodes_leaf {v : Value} {ks : List Tree} (h : (Tree.node v ks).allNodes (nodeOK env) = true)
    (hl : v.isLeafKind = true) : ks = [] := by
  rw [allNodes_node, Bool.and_eq_true] at h
  exact ((nodeOK_iff env v ks).mp h.1).2.1.1 hl

theorem nsDecls_valueOK {v : Value} {ks : List Tree} (h : (Tree.node v ks).allNodes (nodeOK env) = true)
    {d : Nat × Nat} (hd : d ∈ (Tree.node v ks).nsDecls) : valueOK env (.namespace d.1 d.2) = true := by
  obtain ⟨k, hk, hv⟩ := mem_nsDecls hd
  rw [← hv]
  exact allNodes_value env (allNodes_kid h hk)

theorem attrs_valueOK {v : Value} {ks : List Tree} (h : (Tree.node v ks).allNodes (nodeOK env) = true)
    {a : Nat × Str} (ha : a ∈ (Tree.node v ks).attrs) : valueOK env (.attribute a.1 a.2) = true := by
  obtain ⟨k, hk, hv⟩ := mem_attrs ha
  rw [← hv]
  exact allNodes_value env (allNodes_kid h hk)

/-- A declared prefix other than the empty one is a non-empty NCName. -/
theorem valueOK_namespace_prefix {p ns : Nat} (h : valueOK env (.namespace p ns) = true)
    (hp : p ≠ Env.emptyPrefix) : ncNameNE (env.prefixStr p) = true := by
  simp only [valueOK, Bool.and_eq_true, Bool.or_eq_true, beq_iff_eq] at h
  rcases h.1.1.2 with h1 | h1
  · exact absurd h1 hp
  · exact h1.1.1

theorem valueOK_namespace_uri {p ns : Nat} (h : valueOK env (.namespace p ns) = true) :
    (env.namespaceStr ns).all isXmlChar = true := by
  simp only [valueOK, Bool.and_eq_true] at h
  exact h.2

/-- `nodeOK` everywhere implies the side condition of `toXmlString_serTokensTop`. -/
theorem nodeOK_declsNamed (n : Tree) (h : n.allNodes (nodeOK env) = true) :
    n.allNodes (declsNamed env) = true := by
  have key : ∀ (m : Tree), m.allNodes (nodeOK env) = true →
      m.allNodes (fun v ks => (Tree.node v ks).allNodes (nodeOK env)) = true := by
    intro m
    induction m using Tree.rec (motive_2 := fun ks => ∀ k ∈ ks, k.allNodes (nodeOK env) = true →
        k.allNodes (fun v ks => (Tree.node v ks).allNodes (nodeOK env)) = true) with
    | node v ks ih =>
      intro hm
      rw [allNodes_node, Bool.and_eq_true, List.all_eq_true]
      exact ⟨hm, fun k hk => ih k hk (allNodes_kid hm hk)⟩
    | nil => rename_i hk _; cases hk
    | cons k ks ih1 ih2 =>
      rename_i k' hk' hk2
      rcases List.mem_cons.mp hk' with rfl | hk'
      · exact ih1 hk2
      · exact ih2 k' hk' hk2
  refine allNodes_mono ?_ n (key n h)
  intro v ks hv
  simp only [declsNamed, List.all_eq_true, Bool.or_eq_true, beq_iff_eq, Bool.not_eq_true',
    List.isEmpty_eq_false_iff]
  intro d hd
  by_cases hp : d.1 = Env.emptyPrefix
  · exact Or.inl hp
  · right
    have := valueOK_namespace_prefix env (nsDecls_valueOK env hv hd) hp
    simp only [ncNameNE, Bool.and_eq_true, Bool.not_eq_true', List.isEmpty_eq_false_iff] at this
    exact this.2

end XotModel.PiColon
