/-
  XotModel.Lemmas.ArenaRmsNode — one node of the `remove_subtree` loop: free it, go to its first
  child / next sibling / climb; hence (induction from the children) the loop over a whole subtree.
-/
import XotModel.Lemmas.ArenaRmsLoop

namespace XotModel
namespace Arena

theorem removeSubtreeLoop_succ (f : Nat) (b : Arena) (id : NodeId) :
    removeSubtreeLoop (f + 1) b (some id) =
      (freeNode b id).bind fun a1 _ =>
        rd a1 id fun node =>
          match node.first.or node.next with
          | some c => removeSubtreeLoop f a1 (some c)
          | none => (findAncestorWithNext a1.fuel a1 node.parent).bind (climbK (removeSubtreeLoop f)) := by
  rw [removeSubtreeLoop]
  rfl

theorem Rep.subtreeOk_step {a : Arena} {g : Shape} (r : Rep a g) (c : Nat) (hc : Live a c)
    (hP : ∀ k ∈ g.kids c, SubtreeOk a g k) : SubtreeOk a g c := by
  obtain ⟨L, hLnd, hLmem, hLloop⟩ := r.kidsSeq c hP (g.kids c) [] rfl
  have hcL : c ∉ L := by
    intro hm
    obtain ⟨k, hk, hr⟩ := (hLmem c).mp hm
    exact r.acyclic k c (r.kidsLive c k hk).2.2 hr
  refine ⟨c :: L, List.nodup_cons.mpr ⟨hcL, hLnd⟩, ?_, ?_⟩
  · intro u
    simp only [List.mem_cons]
    constructor
    · rintro (e | h)
      · subst e; exact .refl _
      · obtain ⟨k, hk, hr⟩ := (hLmem u).mp h
        exact r.reach_of_child hk hr
    · intro h
      rcases r.reach_child h with e | ⟨k, hk, hr⟩
      · exact Or.inl e
      · exact Or.inr ((hLmem u).mpr ⟨k, hk, hr⟩)
  · intro o ho fl F b fuel m hF hlen
    obtain ⟨s, hs, h0⟩ := hc
    have P := r.ptrs c s hs h0
    have hcF : c ∉ F := hF c (by simp)
    obtain ⟨s', hs', hpt, hst⟩ := m.slot_other hcF hs
    obtain ⟨_, hhi⟩ := r.stampRange c s hs
    obtain ⟨hfree, st⟩ := freeStep m.free c s' hs' (by omega) (by omega) (a.idAt c) (by simp)
    have m1 := m.snoc st hcF
    obtain ⟨s1, hs1, hpt1⟩ := m1.slot_of hs
    obtain ⟨hpa, _, hnx, hfi, _⟩ := Slot.ptrs_eq hpt1
    obtain ⟨f, rfl⟩ : ∃ f, fuel = f + 1 := ⟨fuel - 1, by simp at hlen; omega⟩
    have hsb1 : (free1 b c).slot (a.idAt c).index0 = some s1 := by rw [idAt_index0]; exact hs1
    rw [removeSubtreeLoop_succ, hfree]
    simp only [Step.bind_done]
    rw [rd_some _ _ _ _ hsb1]
    have hlenL : L.length ≤ f := by simp at hlen; omega
    cases hk : g.kids c with
    | cons k1 ks =>
      have hfirst : s1.first = some (a.idAt k1) := by rw [hfi, P.first, hk]; rfl
      simp only [hfirst, Option.some_or]
      obtain ⟨b', e, m'⟩ := hLloop k1 ks hk o ho fl (F ++ [c]) (free1 b c) f m1 (by
        intro u hu hm
        rcases List.mem_append.mp hm with h | h
        · exact hF u (List.mem_cons_of_mem _ hu) h
        · simp at h; subst h; exact hcL hu) hlenL
      refine ⟨b', ?_, by simpa using m'⟩
      rw [e]
      congr 1
      simp
    | nil =>
      have hLnil : L = [] := by
        apply List.eq_nil_iff_forall_not_mem.mpr
        intro u hu
        obtain ⟨k, hk', _⟩ := (hLmem u).mp hu
        rw [hk] at hk'; cases hk'
      subst hLnil
      have hfirst : s1.first = none := by rw [hfi, P.first, hk]; rfl
      simp only [hfirst, Option.none_or]
      cases ho with
      | @sib _ q n L' R' hp hkq =>
        obtain ⟨L1, R1, e1, _, e3⟩ := P.sib q hp
        obtain ⟨_, hR⟩ := split_unique (by rw [← e1]; exact r.kidsNodup q) (e1.symm.trans hkq)
        have hnext : s1.next = some (a.idAt n) := by rw [hnx, e3, hR]; rfl
        simp only [hnext]
        exact ⟨_, rfl, m1⟩
      | @up _ q L' _ hp hkq hq =>
        obtain ⟨L1, R1, e1, _, e3⟩ := P.sib q hp
        obtain ⟨_, hR⟩ := split_unique (by rw [← e1]; exact r.kidsNodup q) (e1.symm.trans (by rw [hkq]))
        have hnext : s1.next = none := by rw [hnx, e3, hR]; rfl
        have hparent : s1.parent = some (a.idAt q) := by rw [hpa, P.parent, hp]; rfl
        simp only [hnext, hparent]
        obtain ⟨lq, hlq, hlqlen⟩ := r.upChain q (r.live_of_par hp).2
        have hfuel : (free1 b c).fuel = a.fuel := by unfold fuel; rw [m1.length]
        have := r.climb m1 (fun b2 o' => removeSubtreeLoop f b2 o') q o hq (r.live_of_par hp).2 lq hlq
          (free1 b c).fuel (by rw [hfuel]; unfold fuel; omega)
        rw [this]
        exact ⟨_, rfl, m1⟩
      | @root _ hp =>
        have hnext : s1.next = none := by rw [hnx]; exact (P.root hp).2
        have hparent : s1.parent = none := by rw [hpa, P.parent, hp]; rfl
        simp only [hnext, hparent]
        have hfuel : ∃ n, (free1 b c).fuel = n + 1 := ⟨(free1 b c).nodes.length, rfl⟩
        obtain ⟨n, hn⟩ := hfuel
        rw [hn]
        unfold findAncestorWithNext
        simp only [Step.bind_done]
        exact ⟨_, rfl, m1⟩

/-- Every live node: the loop started there frees exactly its subtree. -/
theorem Rep.subtreeOk {a : Arena} {g : Shape} (r : Rep a g) (c : Nat) (hc : Live a c) : SubtreeOk a g c :=
  r.kids_induction (SubtreeOk a g) (fun c hc hk => r.subtreeOk_step c hc hk) c hc

end Arena
end XotModel
