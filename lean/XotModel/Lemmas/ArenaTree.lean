/-
  XotModel.Lemmas.ArenaTree — from the list-level content of an arena (`Arena.Shape`, keyed by slot
  index) to the handle trees of the forest model (`HTree`): `IsTree g w c t` says that `t` is the
  subtree at slot `c`, with the handle numbering and values of the view `w`.  Lookup in such a
  tree (`HTree.find?`) finds exactly the descendants.
-/
import XotModel.Lemmas.ArenaHistory
import XotModel.Model.Forest

namespace XotModel
namespace Arena

/-- How slots are read as forest nodes: handle numbering and value. -/
structure View where
  rho : Nat → Nat
  val : Nat → Value

mutual
/-- `t` is the subtree at slot `c`. -/
inductive IsTree (g : Shape) (w : View) : Nat → HTree → Prop
  | mk {c : Nat} {ts : List HTree} : IsTrees g w (g.kids c) ts → IsTree g w c (.node (w.rho c) (w.val c) ts)
/-- `ts` are the subtrees at the slots `cs`, in order. -/
inductive IsTrees (g : Shape) (w : View) : List Nat → List HTree → Prop
  | nil : IsTrees g w [] []
  | cons {c : Nat} {cs : List Nat} {t : HTree} {ts : List HTree} :
      IsTree g w c t → IsTrees g w cs ts → IsTrees g w (c :: cs) (t :: ts)
end

theorem IsTree.handle {g : Shape} {w : View} {c : Nat} {t : HTree} (h : IsTree g w c t) : t.handle = w.rho c := by
  cases h with
  | mk _ => rfl

theorem IsTree.kids {g : Shape} {w : View} {c : Nat} {t : HTree} (h : IsTree g w c t) : IsTrees g w (g.kids c) t.kids := by
  cases h with
  | mk hk => exact hk

theorem IsTree.value {g : Shape} {w : View} {c : Nat} {t : HTree} (h : IsTree g w c t) : t.value = w.val c := by
  cases h with
  | mk _ => rfl

mutual
theorem IsTree.unique {g : Shape} {w : View} {c : Nat} {t1 t2 : HTree} (h1 : IsTree g w c t1) (h2 : IsTree g w c t2) :
    t1 = t2 := by
  match h1, h2 with
  | .mk k1, .mk k2 => rw [IsTrees.unique k1 k2]
theorem IsTrees.unique {g : Shape} {w : View} {cs : List Nat} {ts1 ts2 : List HTree} (h1 : IsTrees g w cs ts1)
    (h2 : IsTrees g w cs ts2) : ts1 = ts2 := by
  match h1, h2 with
  | .nil, .nil => rfl
  | .cons a1 b1, .cons a2 b2 => rw [IsTree.unique a1 a2, IsTrees.unique b1 b2]
end

theorem IsTrees.append {g : Shape} {w : View} : ∀ {cs1 cs2 : List Nat} {ts1 ts2 : List HTree},
    IsTrees g w cs1 ts1 → IsTrees g w cs2 ts2 → IsTrees g w (cs1 ++ cs2) (ts1 ++ ts2)
  | _, _, _, _, .nil, h2 => h2
  | _, _, _, _, .cons a b, h2 => .cons a (IsTrees.append b h2)

theorem IsTrees.split {g : Shape} {w : View} : ∀ {cs1 cs2 : List Nat} {ts : List HTree},
    IsTrees g w (cs1 ++ cs2) ts → ∃ ts1 ts2, ts = ts1 ++ ts2 ∧ IsTrees g w cs1 ts1 ∧ IsTrees g w cs2 ts2
  | [], _, ts, h => ⟨[], ts, rfl, .nil, h⟩
  | c :: cs1, cs2, _, .cons a b => by
    obtain ⟨ts1, ts2, e, h1, h2⟩ := IsTrees.split (cs1 := cs1) b
    exact ⟨_ :: ts1, ts2, by rw [e]; rfl, .cons a h1, h2⟩

theorem IsTrees.length {g : Shape} {w : View} : ∀ {cs : List Nat} {ts : List HTree}, IsTrees g w cs ts → ts.length = cs.length
  | _, _, .nil => rfl
  | _, _, .cons _ b => by simp [IsTrees.length b]

theorem IsTrees.handles_map {g : Shape} {w : View} : ∀ {cs : List Nat} {ts : List HTree}, IsTrees g w cs ts →
    ts.map HTree.handle = cs.map w.rho
  | _, _, .nil => rfl
  | _, _, .cons a b => by simp [a.handle, IsTrees.handles_map b]

/-- The hypotheses under which trees are read: a well-formed arena and a numbering that is
    injective on its live slots. -/
structure TreeCtx (a : Arena) (g : Shape) (w : View) : Prop where
  rep : Rep a g
  inj : ∀ u v, Live a u → Live a v → w.rho u = w.rho v → u = v

mutual
/-- A node outside the subtree is not found. -/
theorem IsTree.find_none {a : Arena} {g : Shape} {w : View} (x : TreeCtx a g w) {c : Nat} {t : HTree}
    (h : IsTree g w c t) (hc : Live a c) (u : Nat) (hu : Live a u) (hn : ¬ Reach g.par u c) :
    HTree.find? (w.rho u) t = none := by
  match h with
  | .mk hk =>
    unfold HTree.find?
    have : w.rho c ≠ w.rho u := fun e => hn (by rw [x.inj c u hc hu e]; exact .refl _)
    rw [if_neg this]
    exact IsTrees.find_none x hk (fun k hk' => (x.rep.kidsLive c k hk').2.1) u hu
      (fun k hk' hr => hn (x.rep.reach_of_child hk' hr))
theorem IsTrees.find_none {a : Arena} {g : Shape} {w : View} (x : TreeCtx a g w) {cs : List Nat} {ts : List HTree}
    (h : IsTrees g w cs ts) (hc : ∀ k ∈ cs, Live a k) (u : Nat) (hu : Live a u) (hn : ∀ k ∈ cs, ¬ Reach g.par u k) :
    HTree.findList? (w.rho u) ts = none := by
  match h with
  | .nil => rfl
  | .cons h1 h2 =>
    unfold HTree.findList?
    rw [IsTree.find_none x h1 (hc _ (by simp)) u hu (hn _ (by simp))]
    exact IsTrees.find_none x h2 (fun k hk => hc k (List.mem_cons_of_mem _ hk)) u hu
      (fun k hk => hn k (List.mem_cons_of_mem _ hk))
end

mutual
/-- A descendant is found, and what is found is its subtree. -/
theorem IsTree.find_some {a : Arena} {g : Shape} {w : View} (x : TreeCtx a g w) {c : Nat} {t : HTree}
    (h : IsTree g w c t) (hc : Live a c) (u : Nat) (hu : Live a u) (hr : Reach g.par u c) :
    ∃ tu, IsTree g w u tu ∧ HTree.find? (w.rho u) t = some tu := by
  match h with
  | .mk hk =>
    unfold HTree.find?
    by_cases e : w.rho c = w.rho u
    · have := x.inj c u hc hu e
      subst this
      exact ⟨_, .mk hk, by rw [if_pos rfl]⟩
    · rw [if_neg e]
      rcases x.rep.reach_child hr with e' | ⟨k, hk', hr'⟩
      · subst e'; exact absurd rfl e
      · exact IsTrees.find_some x hk (fun k hk'' => (x.rep.kidsLive c k hk'').2.1) u hu k hk' hr'
          (fun k' hk'' hr'' => x.rep.child_unique hk'' hk' hr'' hr')
theorem IsTrees.find_some {a : Arena} {g : Shape} {w : View} (x : TreeCtx a g w) {cs : List Nat} {ts : List HTree}
    (h : IsTrees g w cs ts) (hc : ∀ k ∈ cs, Live a k) (u : Nat) (hu : Live a u) (k : Nat) (hk : k ∈ cs)
    (hr : Reach g.par u k) (huniq : ∀ k' ∈ cs, Reach g.par u k' → k' = k) :
    ∃ tu, IsTree g w u tu ∧ HTree.findList? (w.rho u) ts = some tu := by
  match h with
  | .nil => cases hk
  | @IsTrees.cons _ _ c0 cs0 t0 ts0 h1 h2 =>
    unfold HTree.findList?
    by_cases e : c0 = k
    · subst e
      obtain ⟨tu, h3, h4⟩ := IsTree.find_some x h1 (hc _ (by simp)) u hu hr
      exact ⟨tu, h3, by rw [h4]⟩
    · have hn : ¬ Reach g.par u c0 := fun hr' => e (huniq c0 (by simp) hr')
      rw [IsTree.find_none x h1 (hc _ (by simp)) u hu hn]
      have hk' : k ∈ cs0 := by
        rcases List.mem_cons.mp hk with h | h
        · exact absurd h.symm e
        · exact h
      exact IsTrees.find_some x h2 (fun k' hk'' => hc k' (List.mem_cons_of_mem _ hk'')) u hu k hk' hr
        (fun k' hk'' => huniq k' (List.mem_cons_of_mem _ hk''))
end

end Arena
end XotModel
