/-
  Structure of the output-event stream (`genOutputs`, Model/Output): per node kind what is
  emitted, tagging of every event with the node it belongs to, document order.
-/
import XotModel.Model.Output

namespace XotModel

/-- Events that open a node: one per normal non-document node. -/
def Output.isOpening : Output → Bool
  | .startTagOpen _ => true
  | .text _ => true
  | .comment _ => true
  | .pi _ _ => true
  | _ => false

/-- The opening event of a node, from its value alone. -/
def openingEvent (n : Tree) : Option Output :=
  match n.value with
  | .element name => some (.startTagOpen name)
  | .text s => some (.text s)
  | .comment s => some (.comment s)
  | .pi target data => some (.pi target data)
  | _ => none

/-- Normal nodes at and below a node with their paths, in document order (pre-order over the raw
    child lists; an abnormal node contributes only what lies below it — nothing in a sound tree). -/
def normalPreorder (path : Path) : Tree → List (Path × Tree)
  | .node v ks => (if v.isNormal then [(path, .node v ks)] else []) ++ kids path 0 ks
where
  kids (path : Path) : Nat → List Tree → List (Path × Tree)
    | _, [] => []
    | i, k :: ks => normalPreorder (path ++ [i]) k ++ kids path (i + 1) ks

/-! ### What each node kind emits -/

theorem genNode_element (inScope : List (Nat × Nat)) (isTop : Bool) (path : Path) (name : Nat)
    (ks : List Tree) :
    genNode inScope isTop path (.node (.element name) ks) =
      [(path, Output.startTagOpen name)]
        ++ (if isTop then extraPrefixes inScope (.node (.element name) ks) else []).map (fun o => (path, o))
        ++ (Tree.node (.element name) ks).nsDecls.map (fun d => (path, Output.pfx d.1 d.2))
        ++ (Tree.node (.element name) ks).attrs.map (fun a => (path, Output.attribute a.1 a.2))
        ++ [(path, Output.startTagClose)]
        ++ genNode.genKids inScope path 0 ks
        ++ [(path, Output.endTag name)] := by
  simp [genNode, Value.isNormal, Value.category, edgeStart, edgeEnd, Tree.value, List.map_append,
    Function.comp_def]

theorem genNode_text (inScope : List (Nat × Nat)) (isTop : Bool) (path : Path) (s : Str) (ks : List Tree) :
    genNode inScope isTop path (.node (.text s) ks) =
      (path, Output.text s) :: genNode.genKids inScope path 0 ks := by
  simp [genNode, Value.isNormal, Value.category, edgeStart, edgeEnd, Tree.value]

theorem genNode_comment (inScope : List (Nat × Nat)) (isTop : Bool) (path : Path) (s : Str) (ks : List Tree) :
    genNode inScope isTop path (.node (.comment s) ks) =
      (path, Output.comment s) :: genNode.genKids inScope path 0 ks := by
  simp [genNode, Value.isNormal, Value.category, edgeStart, edgeEnd, Tree.value]

theorem genNode_pi (inScope : List (Nat × Nat)) (isTop : Bool) (path : Path) (target : Nat)
    (data : Option Str) (ks : List Tree) :
    genNode inScope isTop path (.node (.pi target data) ks) =
      (path, Output.pi target data) :: genNode.genKids inScope path 0 ks := by
  simp [genNode, Value.isNormal, Value.category, edgeStart, edgeEnd, Tree.value]

theorem genNode_document (inScope : List (Nat × Nat)) (isTop : Bool) (path : Path) (ks : List Tree) :
    genNode inScope isTop path (.node .document ks) = genNode.genKids inScope path 0 ks := by
  simp [genNode, Value.isNormal, Value.category, edgeStart, edgeEnd, Tree.value]

theorem genNode_attribute (inScope : List (Nat × Nat)) (isTop : Bool) (path : Path) (name : Nat)
    (v : Str) (ks : List Tree) :
    genNode inScope isTop path (.node (.attribute name v) ks) = genNode.genKids inScope path 0 ks := by
  simp [genNode, Value.isNormal, Value.category]

theorem genNode_namespace (inScope : List (Nat × Nat)) (isTop : Bool) (path : Path) (p ns : Nat)
    (ks : List Tree) :
    genNode inScope isTop path (.node (.namespace p ns) ks) = genNode.genKids inScope path 0 ks := by
  simp [genNode, Value.isNormal, Value.category]

/-- A leaf attribute / namespace node as start node produces no event at all. -/
theorem genNode_abnormal_leaf (inScope : List (Nat × Nat)) (isTop : Bool) (path : Path) (v : Value)
    (h : v.isNormal = false) : genNode inScope isTop path (.node v []) = [] := by
  simp [genNode, h, genNode.genKids]

/-- The children are traversed in raw order, the `j`-th one under the path extended by its index. -/
theorem genKids_eq (inScope : List (Nat × Nat)) (path : Path) (i : Nat) (ks : List Tree) :
    genNode.genKids inScope path i ks =
      (ks.zipIdx i).flatMap (fun kj => genNode inScope false (path ++ [kj.2]) kj.1) := by
  induction ks generalizing i with
  | nil => simp [genNode.genKids]
  | cons k ks ih => simp [genNode.genKids, List.zipIdx_cons, ih]

/-! ### Own events of a node -/

theorem at?_cons (v : Value) (ks : List Tree) (i : Nat) (p : Path) :
    (Tree.node v ks).at? (i :: p) = ks[i]?.bind (fun k => k.at? p) := by
  simp only [Tree.at?]
  cases ks[i]? <;> rfl

/-- `o` is one of the events `gen_edge_start` / `gen_edge_end` emit for the node `n`. -/
def OwnEvent (inScope : List (Nat × Nat)) (isTop : Bool) (n : Tree) (o : Output) : Prop :=
  o ∈ edgeStart inScope isTop n ∨ o ∈ edgeEnd n

mutual
theorem genNode_tagged (inScope : List (Nat × Nat)) (isTop : Bool) (path : Path) (n : Tree)
    (p : Path) (o : Output) (h : (p, o) ∈ genNode inScope isTop path n) :
    ∃ rel n', p = path ++ rel ∧ n.at? rel = some n' ∧ n'.value.isNormal = true ∧
      OwnEvent inScope (isTop && rel.isEmpty) n' o := by
  cases n with
  | node v ks =>
    unfold genNode at h
    by_cases hv : v.isNormal = true
    · simp only [hv, if_true, List.mem_append, List.mem_map] at h
      rcases h with (⟨o', ho', heq⟩ | hk) | ⟨o', ho', heq⟩
      · cases heq
        exact ⟨[], .node v ks, by simp, rfl, hv, by simp [OwnEvent, ho']⟩
      · obtain ⟨i, rel, n', hp, hat, _, hn, hown⟩ := genKids_tagged inScope path 0 ks p o hk
        refine ⟨i :: rel, n', by simp [hp], ?_, hn, by simpa using hown⟩
        rw [at?_cons]; simpa using hat
      · cases heq
        exact ⟨[], .node v ks, by simp, rfl, hv, by simp [OwnEvent, ho']⟩
    · simp only [hv] at h
      obtain ⟨i, rel, n', hp, hat, _, hn, hown⟩ := genKids_tagged inScope path 0 ks p o h
      refine ⟨i :: rel, n', by simp [hp], ?_, hn, by simpa using hown⟩
      rw [at?_cons]; simpa using hat

theorem genKids_tagged (inScope : List (Nat × Nat)) (path : Path) (i : Nat) (ks : List Tree)
    (p : Path) (o : Output) (h : (p, o) ∈ genNode.genKids inScope path i ks) :
    ∃ j rel n', p = path ++ j :: rel ∧
      ks[j - i]?.bind (fun k => k.at? rel) = some n' ∧ i ≤ j ∧
      n'.value.isNormal = true ∧ OwnEvent inScope false n' o := by
  cases ks with
  | nil => simp [genNode.genKids] at h
  | cons k ks =>
    unfold genNode.genKids at h
    rcases List.mem_append.mp h with h | h
    · obtain ⟨rel, n', hp, hat, hn, hown⟩ := genNode_tagged inScope false (path ++ [i]) k p o h
      exact ⟨i, rel, n', by simp [hp], by simpa using hat, Nat.le_refl _, hn, by simpa using hown⟩
    · obtain ⟨j, rel, n', hp, hat, hij, hn, hown⟩ := genKids_tagged inScope path (i + 1) ks p o h
      refine ⟨j, rel, n', hp, ?_, by omega, hn, hown⟩
      have : j - i = (j - (i + 1)) + 1 := by omega
      rw [this]
      simpa using hat
end

theorem at?_append (t : Tree) (p q : Path) :
    t.at? (p ++ q) = (match t.at? p with | some n => n.at? q | none => none) := by
  induction p generalizing t with
  | nil => simp [Tree.at?]
  | cons i p ih =>
    cases t with
    | node v ks =>
      simp only [List.cons_append, Tree.at?]
      cases ks[i]? with
      | none => rfl
      | some k => exact ih k

/-! ### Document order -/

@[simp] theorem isOpening_so (n : Nat) : (Output.startTagOpen n).isOpening = true := rfl
@[simp] theorem isOpening_sc : Output.startTagClose.isOpening = false := rfl
@[simp] theorem isOpening_et (n : Nat) : (Output.endTag n).isOpening = false := rfl
@[simp] theorem isOpening_pfx (p n : Nat) : (Output.pfx p n).isOpening = false := rfl
@[simp] theorem isOpening_at (n : Nat) (v : Str) : (Output.attribute n v).isOpening = false := rfl
@[simp] theorem isOpening_tx (s : Str) : (Output.text s).isOpening = true := rfl
@[simp] theorem isOpening_cm (s : Str) : (Output.comment s).isOpening = true := rfl
@[simp] theorem isOpening_pi (t : Nat) (d : Option Str) : (Output.pi t d).isOpening = true := rfl
@[simp] theorem openingEvent_element (n : Nat) (ks : List Tree) :
    openingEvent (.node (.element n) ks) = some (.startTagOpen n) := rfl
@[simp] theorem openingEvent_text (s : Str) (ks : List Tree) :
    openingEvent (.node (.text s) ks) = some (.text s) := rfl
@[simp] theorem openingEvent_comment (s : Str) (ks : List Tree) :
    openingEvent (.node (.comment s) ks) = some (.comment s) := rfl
@[simp] theorem openingEvent_pi (t : Nat) (d : Option Str) (ks : List Tree) :
    openingEvent (.node (.pi t d) ks) = some (.pi t d) := rfl
@[simp] theorem openingEvent_document (ks : List Tree) : openingEvent (.node .document ks) = none := rfl

theorem filter_const_false {α : Type} (l : List α) : l.filter (fun _ => false) = [] := by
  induction l <;> simp_all

mutual
theorem genNode_opening (inScope : List (Nat × Nat)) (isTop : Bool) (path : Path) (n : Tree) :
    (genNode inScope isTop path n).filter (fun po => po.2.isOpening) =
      (normalPreorder path n).filterMap (fun pn => (openingEvent pn.2).map (fun o => (pn.1, o))) := by
  cases n with
  | node v ks =>
    have hk := genKids_opening inScope path 0 ks
    cases v with
    | document =>
      rw [genNode_document]
      simp [normalPreorder, Value.isNormal, Value.category, hk, List.filterMap_cons]
    | element name =>
      rw [genNode_element]
      simp only [List.filter_append, hk]
      simp only [normalPreorder, Value.isNormal, Value.category, extraPrefixes]
      split <;>
        simp [List.filter_map, Function.comp_def, filter_const_false, List.filter_cons]
    | text s =>
      rw [genNode_text]
      simp [normalPreorder, Value.isNormal, Value.category, hk, List.filter_cons]
    | pi target data =>
      rw [genNode_pi]
      simp [normalPreorder, Value.isNormal, Value.category, hk, List.filter_cons]
    | comment s =>
      rw [genNode_comment]
      simp [normalPreorder, Value.isNormal, Value.category, hk, List.filter_cons]
    | «attribute» name value =>
      rw [genNode_attribute]
      simp [normalPreorder, Value.isNormal, Value.category, hk]
    | «namespace» p ns =>
      rw [genNode_namespace]
      simp [normalPreorder, Value.isNormal, Value.category, hk]

theorem genKids_opening (inScope : List (Nat × Nat)) (path : Path) (i : Nat) (ks : List Tree) :
    (genNode.genKids inScope path i ks).filter (fun po => po.2.isOpening) =
      (normalPreorder.kids path i ks).filterMap (fun pn => (openingEvent pn.2).map (fun o => (pn.1, o))) := by
  cases ks with
  | nil => simp [genNode.genKids, normalPreorder.kids]
  | cons k ks =>
    simp only [genNode.genKids, normalPreorder.kids, List.filter_append, List.filterMap_append]
    rw [genNode_opening inScope false (path ++ [i]) k, genKids_opening inScope path (i + 1) ks]
end

end XotModel
