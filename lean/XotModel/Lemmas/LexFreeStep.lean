/-
  XotModel.Lemmas.LexFreeStep — one iteration of the tokenizer loop on a token written with any
  layout (`renderLT`), in each tokenizer state; skipping the white space between top-level items
  of a document.  The tokens with no layout freedom (start-tag name, text, CDATA, comment) are
  covered by the canonical step lemmas (Lemmas/LexCanonStep.lean).
-/
import XotModel.Lemmas.LexFreeParse

namespace XotModel.Lex.Free

open XotModel.Lex XotModel.Lex.Stream XotModel.Lex.Canon

theorem atEnd_app_cons (p : Nat) (a : Str) (c : Char) (r : Str) :
    (Stream.mk p (a ++ c :: r)).atEnd = false := by
  cases a <;> rfl

/-! ### `State::Attributes` -/

theorem step_attr_attrL (tk : Tokenizer) (pos : Nat) (lt : LToken) (p l v sp : StrSpan) (r : Str)
    (ht : lt.token = .attribute p l v sp) (hok : lt.okL = true) (hlead : lt.lead ≠ [])
    (hst : tk.state = .attributes) (hs : tk.stream = ⟨pos, renderLT lt ++ r⟩) :
    ∃ t' pos', parseNextImpl tk = .token t' { tk with stream := ⟨pos', r⟩ } ∧
      t'.ReadAs lt.token := by
  obtain ⟨tok, w, e1, e2, b⟩ := lt
  simp only at ht hlead
  subst ht
  simp only [LToken.okL, Bool.and_eq_true] at hok
  obtain ⟨hw, ⟨⟨hq, h1⟩, h2⟩, hv⟩ := hok
  obtain ⟨p', l', v', sp', pos', hp, he⟩ := parseAttribute_attrL pos p l v sp w e1 e2 b r hq hw hlead h1 h2 hv
  have hs' : tk.stream = ⟨pos, w ++ (tokQName p.text l.text ++
      (e1 ++ '=' :: (e2 ++ quoteChar b :: (v.text ++ quoteChar b :: r))))⟩ := by
    rw [hs]; simp [renderLT, LToken.body]
  have hend : tk.stream.atEnd = false := by
    rw [hs']; obtain ⟨c, cs, rfl⟩ := List.exists_cons_of_ne_nil hlead; rfl
  refine ⟨_, pos', ?_, he⟩
  unfold parseNextImpl
  simp only [hend, Bool.false_eq_true, if_false, hst]
  rw [hs', hp]

theorem step_attr_openL (tk : Tokenizer) (pos : Nat) (lt : LToken) (sp : StrSpan) (r : Str)
    (ht : lt.token = .elementEnd .open sp) (hok : lt.okL = true)
    (hst : tk.state = .attributes) (hs : tk.stream = ⟨pos, renderLT lt ++ r⟩) :
    ∃ t' pos', parseNextImpl tk = .token t'
        { tk with stream := ⟨pos', r⟩, depth := tk.depth + 1, state := .elements } ∧
      t'.ReadAs lt.token := by
  obtain ⟨tok, w, e1, e2, b⟩ := lt
  simp only at ht
  subst ht
  simp only [LToken.okL, Bool.and_eq_true] at hok
  obtain ⟨sp', pos', hp⟩ := parseAttribute_openL pos w r hok.1
  have hs' : tk.stream = ⟨pos, w ++ '>' :: r⟩ := by
    rw [hs]; simp [renderLT, LToken.body, renderToken]
  have hend : tk.stream.atEnd = false := by rw [hs']; exact atEnd_app_cons _ _ _ _
  refine ⟨.elementEnd .open sp', pos', ?_, rfl, rfl⟩
  unfold parseNextImpl
  simp only [hend, Bool.false_eq_true, if_false, hst]
  rw [hs', hp]
  simp [stateAfterTag]

theorem step_attr_emptyL (tk : Tokenizer) (pos : Nat) (lt : LToken) (sp : StrSpan) (r : Str)
    (ht : lt.token = .elementEnd .empty sp) (hok : lt.okL = true)
    (hst : tk.state = .attributes) (hs : tk.stream = ⟨pos, renderLT lt ++ r⟩) :
    ∃ t' pos', parseNextImpl tk = .token t'
        { tk with stream := ⟨pos', r⟩, state := stateAfterTag tk.depth tk.fragment } ∧
      t'.ReadAs lt.token := by
  obtain ⟨tok, w, e1, e2, b⟩ := lt
  simp only at ht
  subst ht
  simp only [LToken.okL, Bool.and_eq_true] at hok
  obtain ⟨sp', pos', hp⟩ := parseAttribute_emptyL pos w r hok.1
  have hs' : tk.stream = ⟨pos, w ++ '/' :: '>' :: r⟩ := by
    rw [hs]; simp [renderLT, LToken.body, renderToken]
  have hend : tk.stream.atEnd = false := by rw [hs']; exact atEnd_app_cons _ _ _ _
  refine ⟨.elementEnd .empty sp', pos', ?_, rfl, rfl⟩
  unfold parseNextImpl
  simp only [hend, Bool.false_eq_true, if_false, hst]
  rw [hs', hp]
  simp

/-! ### `State::Elements`: end tags -/

theorem step_el_closeL (tk : Tokenizer) (pos : Nat) (lt : LToken) (p l sp : StrSpan) (r : Str)
    (ht : lt.token = .elementEnd (.close p l) sp) (hok : lt.okL = true)
    (hst : tk.state = .elements) (hs : tk.stream = ⟨pos, lt.body ++ r⟩) :
    ∃ t' pos', parseNextImpl tk = .token t'
        { tk with stream := ⟨pos', r⟩, depth := tk.depth - 1,
                  state := stateAfterTag (tk.depth - 1) tk.fragment } ∧
      t'.ReadAs lt.token := by
  obtain ⟨tok, w, e1, e2, b⟩ := lt
  simp only at ht
  subst ht
  simp only [LToken.okL, Bool.and_eq_true] at hok
  obtain ⟨t', pos', hp, he⟩ := parseCloseElement_L pos p l sp e1 r hok.2.1 hok.2.2
  have hs' : tk.stream = ⟨pos, '<' :: '/' :: (tokQName p.text l.text ++ (e1 ++ '>' :: r))⟩ := by
    rw [hs]; simp [LToken.body]
  have hend : tk.stream.atEnd = false := by rw [hs']; rfl
  have h1 : tk.stream.curr? = some '<' := by rw [hs']; rfl
  have h2 : tk.stream.next? = some '/' := by rw [hs']; rfl
  have hd : (if tk.depth > 0 then tk.depth - 1 else tk.depth) = tk.depth - 1 := by
    split <;> omega
  refine ⟨t', pos', ?_, he⟩
  unfold parseNextImpl
  simp only [hend, Bool.false_eq_true, if_false, hst, h1, h2, beq_self_eq_true, if_true,
    show ('/' == '!') = false from by decide, show ('/' == '?') = false from by decide, hd]
  rw [hs', hp]
  rfl

/-! ### Processing instructions -/

/-- A PI body begins with `<?`; what follows is the target and then white space or `?>`. -/
theorem pi_body (lt : LToken) (t : StrSpan) (c : Option StrSpan) (sp : StrSpan)
    (ht : lt.token = .pi t c sp) (hok : lt.okL = true) :
    ∃ rest, lt.body = '<' :: '?' :: (t.text ++ rest) ∧ nameOK t.text = true ∧ Stops isNameChar rest ∧
      (t.text ≠ ['x', 'm', 'l'] ∨ rest.head? ≠ some ' ') ∧ rest ≠ [] := by
  obtain ⟨tok, w, e1, e2, b⟩ := lt
  simp only at ht
  subst ht
  cases c with
  | none =>
    simp only [LToken.okL, Bool.and_eq_true, Bool.or_eq_true, List.isEmpty_iff, bne_iff_ne, ne_eq] at hok
    obtain ⟨_, ⟨hn, hw⟩, hx⟩ := hok
    refine ⟨e1 ++ ['?', '>'], by simp [LToken.body], hn,
      stops_ws_app (fun _ => space_not_nameChar) hw (Stops.cons _ (by decide)), ?_, by simp⟩
    rcases hx with rfl | hx
    · exact .inr (by simp)
    · exact .inl hx
  | some c =>
    simp only [LToken.okL, Token.lexOK, Bool.and_eq_true, bne_iff_ne, ne_eq, Bool.not_eq_true',
      List.isEmpty_eq_false_iff] at hok
    obtain ⟨_, ⟨⟨⟨⟨⟨⟨hn, hx⟩, _⟩, _⟩, _⟩, _⟩, hw⟩, hne⟩ := hok
    obtain ⟨wc, ws, rfl⟩ := List.exists_cons_of_ne_nil hne
    exact ⟨(wc :: ws) ++ (c.text ++ ['?', '>']), by simp [LToken.body], hn,
      Stops.cons _ (space_not_nameChar (isWs_cons hw).1), .inl hx, by simp⟩

theorem parsePI_L (pos : Nat) (lt : LToken) (t : StrSpan) (c : Option StrSpan) (sp : StrSpan) (r : Str)
    (ht : lt.token = .pi t c sp) (hok : lt.okL = true) :
    ∃ t' pos', parsePI ⟨pos, lt.body ++ r⟩ = some (t', ⟨pos', r⟩) ∧ t'.erase = lt.token.erase := by
  obtain ⟨tok, w, e1, e2, b⟩ := lt
  simp only at ht
  subst ht
  cases c with
  | none =>
    simp only [LToken.okL, Bool.and_eq_true] at hok
    obtain ⟨t', pos', hp, he⟩ := parsePI_noneL pos t sp e1 r hok.2.1.1 hok.2.1.2
    exact ⟨t', pos', by simpa [LToken.body] using hp, he⟩
  | some c =>
    simp only [LToken.okL, Bool.and_eq_true, Bool.not_eq_true', List.isEmpty_eq_false_iff] at hok
    obtain ⟨t', pos', hp, he⟩ := parsePI_someL pos t c sp e1 r hok.2.1.1 hok.2.1.2 hok.2.2
    exact ⟨t', pos', by simpa [LToken.body] using hp, he⟩

theorem pi_not_xmldeclL (lt : LToken) (t : StrSpan) (c : Option StrSpan) (sp : StrSpan) (r : Str)
    (ht : lt.token = .pi t c sp) (hok : lt.okL = true) :
    litXmlDecl.isPrefixOf (lt.body ++ r) = false := by
  obtain ⟨rest, hb, hn, hr, hx, hne⟩ := pi_body lt t c sp ht hok
  obtain ⟨rc, rs, rfl⟩ := List.exists_cons_of_ne_nil hne
  rw [hb]
  have := not_xmldecl (t := t.text) (rest := (rc :: rs) ++ r) hn
    (Stops.cons _ (hr rc rfl)) (by simpa using hx)
  simpa using this

theorem step_el_piL (tk : Tokenizer) (pos : Nat) (lt : LToken) (t : StrSpan) (c : Option StrSpan)
    (sp : StrSpan) (r : Str) (ht : lt.token = .pi t c sp) (hok : lt.okL = true)
    (hst : tk.state = .elements) (hs : tk.stream = ⟨pos, lt.body ++ r⟩) :
    ∃ t' pos', parseNextImpl tk = .token t' { tk with stream := ⟨pos', r⟩ } ∧
      t'.ReadAs lt.token := by
  have hx := pi_not_xmldeclL lt t c sp r ht hok
  obtain ⟨t', pos', hp, he⟩ := parsePI_L pos lt t c sp r ht hok
  obtain ⟨rest, hb, _⟩ := pi_body lt t c sp ht hok
  have hend : tk.stream.atEnd = false := by rw [hs, hb]; rfl
  have h1 : tk.stream.curr? = some '<' := by rw [hs, hb]; rfl
  have h2 : tk.stream.next? = some '?' := by rw [hs, hb]; rfl
  refine ⟨t', pos', ?_, Token.readAs_of_erase he (by rw [ht]; rfl)⟩
  unfold parseNextImpl
  simp only [hend, Bool.false_eq_true, if_false, hst, h1, h2, beq_self_eq_true, if_true,
    show ('?' == '!') = false from by decide, startsWith]
  rw [hs]
  simp only [hx, Bool.not_false, if_true, hp, Step.ofParse, hst]

theorem miscStep_piL (tk : Tokenizer) (pos : Nat) (lt : LToken) (t : StrSpan)
    (c : Option StrSpan) (sp : StrSpan) (r : Str) (ht : lt.token = .pi t c sp) (hok : lt.okL = true)
    (hs : tk.stream = ⟨pos, lt.body ++ r⟩) :
    ∃ t' pos', t'.erase = lt.token.erase ∧
      ∀ other, miscStep tk other = .token t' { tk with stream := ⟨pos', r⟩ } := by
  have hx := pi_not_xmldeclL lt t c sp r ht hok
  obtain ⟨t', pos', hp, he⟩ := parsePI_L pos lt t c sp r ht hok
  obtain ⟨rest, hb, _⟩ := pi_body lt t c sp ht hok
  have h1 : litCommentOpen.isPrefixOf (lt.body ++ r) = false := by
    rw [hb]; simp [litCommentOpen, List.isPrefixOf_cons_cons]
  have h2 : litPiOpen.isPrefixOf (lt.body ++ r) = true := by
    rw [hb]; simp [litPiOpen]
  refine ⟨t', pos', he, fun other => ?_⟩
  unfold miscStep
  rw [hs]
  dsimp only
  simp only [startsWith, h1, h2, hx, Bool.false_eq_true, if_false, if_true, hp, Step.ofParse]

theorem step_misc_piL (tk : Tokenizer) (pos : Nat) (lt : LToken) (t : StrSpan) (c : Option StrSpan)
    (sp : StrSpan) (r : Str) (ht : lt.token = .pi t c sp) (hok : lt.okL = true)
    (hst : MiscState tk.state) (hs : tk.stream = ⟨pos, lt.body ++ r⟩) :
    ∃ t' pos', parseNextImpl tk = .token t' { tk with stream := ⟨pos', r⟩ } ∧
      t'.ReadAs lt.token := by
  obtain ⟨rest, hb, _⟩ := pi_body lt t c sp ht hok
  have hend : tk.stream.atEnd = false := by rw [hs, hb]; rfl
  have hd : tk.stream.startsWith litDoctype = false := by
    rw [hs, hb]; simp [startsWith, litDoctype, List.isPrefixOf_cons_cons]
  obtain ⟨t', pos', he, hm⟩ := miscStep_piL tk pos lt t c sp r ht hok hs
  refine ⟨t', pos', ?_, Token.readAs_of_erase he (by rw [ht]; rfl)⟩
  unfold parseNextImpl
  rcases hst with h | h | h <;>
    simp only [hend, Bool.false_eq_true, if_false, h, hd, hm]

/-! ### White space between the top-level items of a document -/

/-- In `AfterDeclaration`, `AfterDtd` and `AfterElements` the tokenizer skips white space without a
    token. -/
theorem step_misc_space (tk : Tokenizer) (pos : Nat) (w r : Str) (hst : MiscState tk.state)
    (hs : tk.stream = ⟨pos, w ++ r⟩) (hw : isWs w = true) (hne : w ≠ []) (hr : Stops isXmlSpace r) :
    parseNextImpl tk = .skip { tk with stream := ⟨pos + strLen w, r⟩ } := by
  obtain ⟨c, cs, rfl⟩ := List.exists_cons_of_ne_nil hne
  have hc := (isWs_cons hw).1
  have hend : tk.stream.atEnd = false := by rw [hs]; rfl
  have hsp : tk.stream.startsWithSpace = true := by rw [hs]; exact startsWithSpace_ws pos hw hne
  have hsk : tk.stream.skipSpaces = ⟨pos + strLen (c :: cs), r⟩ := by rw [hs]; exact skipSpaces_ws pos hw hr
  have hlt : c ≠ '<' := by intro e; rw [e] at hc; revert hc; decide
  have hnot : ∀ lit : Str, lit.head? = some '<' → tk.stream.startsWith lit = false := by
    intro lit hl
    cases lit with
    | nil => simp at hl
    | cons a as =>
      simp only [List.head?_cons, Option.some.injEq] at hl
      subst hl
      rw [hs]
      simp [startsWith, List.isPrefixOf_cons_cons, Ne.symm hlt]
  have hm : ∀ other : Step, miscStep tk other = other := by
    intro other
    unfold miscStep
    simp only [hnot litCommentOpen rfl, hnot litPiOpen rfl, Bool.false_eq_true, if_false]
  unfold parseNextImpl
  rcases hst with h | h | h <;>
    simp only [hend, Bool.false_eq_true, if_false, h, hnot litDoctype rfl, hnot litBang rfl,
      hnot litLt rfl, hm, hsp, if_true, hsk]

end XotModel.Lex.Free
