/-
  XotModel.Lemmas.SpanDescStep — the C17 description invariant `DInv` through every arm of `_parse`,
  the token loop, and the epilogues: an accepted tree is described, node by node, by the tokens.
-/
import XotModel.Lemmas.ParseQName
import XotModel.Lemmas.SpanDescOpen

namespace XotModel

theorem mem_of_snoc_prefix {α : Type} {done ts : List α} {t : α} (h : done ++ [t] <+: ts) : t ∈ ts := by
  obtain ⟨r, hr⟩ := h
  rw [← hr]; simp

theorem prefix_of_snoc_prefix {α : Type} {done ts : List α} {t : α} (h : done ++ [t] <+: ts) : done <+: ts :=
  (List.prefix_append done [t]).trans h

/-- A token that changes neither the tree nor the spans. -/
theorem passive_dinv {ts done : List Token} {b b' : Builder} {t : Token} (h : DInv ts done b)
    (hpre : done ++ [t] <+: ts) (ht : t.passive = true) (hc : b'.cur = b.cur) (hp : b'.parents = b.parents)
    (hs : b'.spans = b.spans) (hns : b'.nsStack = b.nsStack) (hop : b'.openPrefixes = b.openPrefixes)
    (he : SdEnvApp b.env b'.env)
    (heb : ∀ e, b'.eb = some e → EbFacts ts e) : DInv ts (done ++ [t]) b' := by
  refine ⟨hpre, ?_, ?_, heb, ?_, ?_⟩
  · rw [hc, hp, hs, hns]
    exact stackDesc_mono he _ _ (fun _ _ => rfl) h.stack
  · rw [hc, hp, hs, hop]
    exact pfxDesc_mono he _ _ (fun _ _ => rfl) h.pfx
  · intro s ks more hr
    rw [hc] at hr
    have : b'.curPath = b.curPath := by simp only [Builder.curPath, hp]
    rw [this, hs]
    exact (h.opn s ks more hr).skip ht
  · intro k hk
    rw [hc, hp]
    rw [hs] at hk
    exact h.seen k hk

/-- `DocumentBuilder::text` / `cdata_text` + `extend_text_span` for a token with content. -/
theorem addText_dinv {ts done : List Token} {b : Builder} (h : DInv ts done b) {t : Token} {tsp : StrSpan}
    {content : Str} (hpre : done ++ [t] <+: ts) (hreal : t.isReal = true) (hspan : t.textSpan? = some tsp)
    (hval : runValue [t] = some content) :
    DInv ts (done ++ [t])
      { (b.addText content).1 with
        spans := (b.addText content).1.spans.extendText (b.addText content).2 tsp.span } := by
  unfold Builder.addText
  split
  · next s ks more hr =>
    exact mergeText_dinv h hpre hreal hspan hval hr rfl rfl rfl rfl rfl rfl rfl
  · -- a new text node
    have hnone : b.spans.get ⟨b.curPath ++ [b.cur.rkids.length], .text⟩ = none := by
      apply get_none_of_not_hasKey
      intro hk
      have := h.seen _ hk
      rw [← nextPath_eq] at this
      exact not_seen_next _ _ this
    have hm : b.spans.extendText (b.curPath ++ [b.cur.rkids.length]) tsp.span =
        b.spans.add ⟨b.curPath ++ [b.cur.rkids.length], .text⟩ tsp.span := extendText_none hnone
    have hopen : OpenText (done ++ [t])
        (b.spans.extendText (b.curPath ++ [b.cur.rkids.length]) tsp.span).get
        (b.curPath ++ [b.cur.rkids.length]) content :=
      ⟨[t], [], tsp.span, ⟨done, by simp⟩, (fun x hx => by cases hx), runOk_single hreal hspan, hval,
        by rw [hm]; exact get_add_self _ _ _⟩
    exact addLeaf_dinv (done' := done ++ [t]) h hpre (.text content) _ b.env (SdEnvApp.refl _)
      (by intro n w hh; cases hh) (by intro p n hh; cases hh)
      (fun k hk => by rw [hm]; exact get_add_other _ _ _ _ (fun he => hk (by rw [he])))
      (fun k hk => by
        rw [hm] at hk
        rcases hasKey_add_cases hk with rfl | hk
        · exact .inr rfl
        · exact .inl hk)
      (hopen.toFacts hpre)
      (fun s hs => by
        simp only [Value.text.injEq] at hs
        subst hs
        exact hopen)

theorem openElement_cur {b b1 : Builder} (hr : b.openElement = .ok b1) : ∃ id, b1.cur.value = .element id := by
  unfold Builder.openElement at hr
  split at hr
  · cases hr
  · dsimp only at hr
    split at hr
    · cases hr
    · cases hr
    · split at hr
      · cases hr
      · cases hr
      · simp only [Step.ok.injEq] at hr; subst hr; exact ⟨_, rfl⟩

theorem step_dinv {ts done : List Token} {b b' : Builder} (t : Token) (hok : BuilderOk b) (h : DInv ts done b)
    (hpre : done ++ [t] <+: ts) (hr : b.step t = .ok b') : DInv ts (done ++ [t]) b' := by
  replace hr := Builder.step_ok_core hr
  have htok : t ∈ ts := mem_of_snoc_prefix hpre
  have helem : b.parents ≠ [] → ∃ id, b.cur.value = .element id := by
    intro hne
    have hs := hok.2.2.1
    cases hp : b.parents with
    | nil => exact absurd hp hne
    | cons g gs =>
      rw [hp] at hs
      simp only [ShapeOk] at hs
      cases hv : b.cur.value <;> simp_all [Value.isElement]
  cases t with
  | «attribute» pfx loc value sp =>
    simp only [Builder.stepCore] at hr
    have hprefix : ∀ p u s, b.prefix p u s = .ok b' → DInv ts (done ++ [.attribute pfx loc value sp]) b' := by
      intro p u s hr
      unfold Builder.prefix at hr
      split at hr
      · cases hr
      · split at hr
        · cases hr
        dsimp only at hr
        cases heb : b.eb with
        | none => rw [heb] at hr; cases hr
        | some eb =>
          rw [heb] at hr
          simp only at hr
          split at hr
          · cases hr
          · simp only [Step.ok.injEq] at hr
            subst hr
            refine passive_dinv h hpre rfl rfl rfl rfl rfl rfl
              ((sd_internPrefix_app _ _).trans (sd_internNamespace_app _ _)) ?_
            intro e he
            simp only [Option.some.injEq] at he
            subst he
            exact h.eb eb heb
    split at hr
    · exact hprefix _ _ _ hr
    · split at hr
      · exact hprefix _ _ _ hr
      · unfold Builder.attribute at hr
        cases heb : b.eb with
        | none => rw [heb] at hr; cases hr
        | some eb =>
          rw [heb] at hr
          simp only at hr
          split at hr
          · cases hr
          · split at hr
            · cases hr
            · next v hv =>
              simp only [Step.ok.injEq] at hr
              subst hr
              refine passive_dinv h hpre rfl rfl rfl rfl rfl rfl (SdEnvApp.refl _) ?_
              intro e he
              simp only [Option.some.injEq] at he
              subst he
              obtain ⟨h1, h2⟩ := h.eb eb heb
              refine ⟨h1, fun ab hab => ?_⟩
              simp only [List.mem_append, List.mem_singleton] at hab
              rcases hab with hab | rfl
              · exact h2 ab hab
              · exact ⟨pfx, loc, value, sp, htok, rfl, rfl, rfl, rfl, hv⟩
  | text t =>
    simp only [Builder.stepCore, Builder.text] at hr
    split at hr
    · cases hr
    · next content hc =>
      simp only [Step.ok.injEq] at hr
      subst hr
      refine addText_dinv h hpre rfl rfl ?_
      simp only [runValue, hc, List.append_nil]
  | cdata t sp =>
    simp only [Builder.stepCore, Builder.cdata] at hr
    split at hr
    · next hemp =>
      simp only [Step.ok.injEq] at hr
      subst hr
      exact passive_dinv h hpre (by simpa [Token.passive] using hemp) rfl rfl rfl rfl rfl (SdEnvApp.refl _) h.eb
    · next hemp =>
      simp only [Step.ok.injEq] at hr
      subst hr
      refine addText_dinv h hpre (by simpa [Token.isReal] using hemp) rfl ?_
      simp only [runValue, Option.map_some, List.append_nil]
  | elementStart pfx loc sp =>
    simp only [Builder.stepCore, Builder.element, Step.ok.injEq] at hr
    subst hr
    refine passive_dinv h hpre rfl rfl rfl rfl rfl rfl (SdEnvApp.refl _) ?_
    intro e he
    simp only [Option.some.injEq] at he
    subst he
    exact ⟨⟨pfx, loc, sp, htok, rfl, rfl, rfl⟩, fun ab hab => by simp [ElementBuilder.new] at hab⟩
  | elementEnd e sp =>
    cases e with
    | «open» => exact openElement_dinv h hpre hr
    | close pfx loc =>
      simp only [Builder.stepCore] at hr
      unfold Builder.closeElement at hr
      cases hn : elementNameId b.env b.nsStack pfx.text loc.text pfx.span with
      | panic => rw [hn] at hr; cases hr
      | err e env => rw [hn] at hr; cases hr
      | ok r =>
        obtain ⟨env1, nameId⟩ := r
        rw [hn] at hr
        simp only at hr
        have happ := (elementNameId_facts hn).1
        split at hr
        · cases hr
        · next hpe =>
          have hne : b.parents ≠ [] := by intro hnil; rw [hnil] at hpe; simp at hpe
          obtain ⟨id, hid⟩ := helem hne
          rw [hid] at hr
          simp only at hr
          split at hr
          · cases hr
          · next hcond =>
            have hcond' : id = nameId ∧ samePrefix b.openPrefixes pfx.text = true := by
              simpa using hcond
            refine leave_dinv (b1 := { b with env := env1, nsStack := b.nsStack.tail, openPrefixes := b.openPrefixes.tail })
              h hpre hid htok (by intro hh; cases hh) rfl rfl rfl rfl rfl rfl happ ?_ hr
            intro q l hql
            simp only [ElementEnd.close.injEq] at hql
            obtain ⟨rfl, rfl⟩ := hql
            refine ⟨by simpa [samePrefix] using hcond'.2, ?_⟩
            obtain ⟨_, ns, hns, _⟩ := (elementNameId_facts hn).2
            exact ⟨ns, by rw [hcond'.1]; exact hns⟩
    | empty =>
      simp only [Builder.stepCore] at hr
      cases hb : b.openElement with
      | ok b1 =>
        rw [hb] at hr
        have h1 : DInv ts (done ++ [.elementEnd .empty sp]) b1 := openElement_dinv h hpre hb
        obtain ⟨id, hid⟩ := openElement_cur hb
        unfold Builder.closeImmediate at hr
        have hel : b1.cur.value.isElement = true := by rw [hid]; rfl
        simp only [hel, if_true] at hr
        exact leave_dinv (b1 := { b1 with nsStack := b1.nsStack.tail, openPrefixes := b1.openPrefixes.tail })
          h1 hpre hid htok (by intro hh; cases hh) rfl rfl rfl rfl rfl rfl (SdEnvApp.refl _)
          (fun _ _ hh => by cases hh) hr
      | err e env => rw [hb] at hr; cases hr
      | panic => rw [hb] at hr; cases hr
  | comment t sp =>
    simp only [Builder.stepCore, Builder.comment, Step.ok.injEq] at hr
    subst hr
    exact addLeaf_dinv (done' := done ++ [.comment t sp]) h hpre (.comment (normalizeLineEnds t.text)) _ b.env (SdEnvApp.refl _)
      (by intro n w hh; cases hh) (by intro p n hh; cases hh)
      (fun k hk => get_add_other _ _ _ _ (fun he => hk (by rw [he])))
      (fun k hk => by
        rcases hasKey_add_cases hk with rfl | hk
        · exact .inr rfl
        · exact .inl hk)
      ⟨t, sp, htok, get_add_self _ _ _, rfl⟩
      (fun s hs => by cases hs)
  | pi target content sp =>
    simp only [Builder.stepCore] at hr
    split at hr
    · cases hr
    rename_i hres
    simp only [Builder.processingInstruction, Step.ok.injEq] at hr
    subst hr
    refine addLeaf_dinv (done' := done ++ [.pi target content sp]) h hpre
      (.pi (b.env.internName target.text Env.noNamespace).2 (content.map (fun c => normalizeLineEnds c.text))) _
      (b.env.internName target.text Env.noNamespace).1 (sd_internName_app _ _ _)
      (by intro n w hh; cases hh) (by intro p n hh; cases hh) ?_ ?_ ?_ (fun s hs => by cases hs)
    · intro k hk
      cases content with
      | none => exact get_add_other _ _ _ _ (fun he => hk (by rw [he]; rfl))
      | some c =>
        exact (get_add_other _ _ _ _ (fun he => hk (by rw [he]; rfl))).trans
          (get_add_other _ _ _ _ (fun he => hk (by rw [he]; rfl)))
    · intro k hk
      cases content with
      | none =>
        rcases hasKey_add_cases hk with rfl | hk
        · exact .inr rfl
        · exact .inl hk
      | some c =>
        rcases hasKey_add_cases hk with rfl | hk
        · exact .inr rfl
        · rcases hasKey_add_cases hk with rfl | hk
          · exact .inr rfl
          · exact .inl hk
    · refine ⟨target, content, sp, htok, ?_, internName_get _ _ _, rfl, ?_, by simpa using hres⟩
      · cases content with
        | none => exact get_add_self _ _ _
        | some c =>
          exact (get_add_other _ _ _ _ (by intro hh; cases hh)).trans (get_add_self _ _ _)
      · intro c hc
        subst hc
        exact get_add_self _ _ _
  | declaration v e s sp =>
    simp only [Builder.stepCore] at hr
    split at hr
    · cases hr
    · simp only [Step.ok.injEq] at hr
      subst hr
      exact passive_dinv h hpre rfl rfl rfl rfl rfl rfl (SdEnvApp.refl _) h.eb
  | dtdStart sp => simp [Builder.stepCore] at hr
  | dtdEnd sp => simp [Builder.stepCore] at hr
  | emptyDtd sp => simp [Builder.stepCore] at hr
  | entityDecl sp => simp [Builder.stepCore] at hr

theorem dinv_new (ts : List Token) (env : Env) : DInv ts [] (Builder.new env) := by
  refine ⟨List.nil_prefix, ⟨⟨trivial, rfl⟩, trivial⟩, ?_, (fun e he => by cases he), ?_, ?_⟩
  · simp [Builder.new, PfxDesc]
  · intro s ks more hr; cases hr
  · intro k hk; simp [HasKey, Builder.new, SpanMap.get] at hk

theorem run_dinv (ts : List Token) (lexErr : Option Nat) :
    ∀ (rest done : List Token) (b b' : Builder), done ++ rest = ts → BuilderOk b → DInv ts done b →
      b.run rest lexErr = .ok b' → DInv ts ts b' := by
  intro rest
  induction rest with
  | nil =>
    intro done b b' hd _ h hr
    simp only [List.append_nil] at hd
    subst hd
    cases lexErr with
    | none =>
      simp only [Builder.run] at hr
      split at hr
      · cases hr
      · simp only [Step.ok.injEq] at hr; subst hr; exact h
    | some p => simp [Builder.run] at hr
  | cons t rest ih =>
    intro done b b' hd hok h hr
    simp only [Builder.run] at hr
    cases hb : b.step t with
    | ok b1 =>
      rw [hb] at hr
      have hpre : done ++ [t] <+: ts := ⟨rest, by rw [← hd]; simp⟩
      exact ih (done ++ [t]) b1 b' (by rw [← hd]; simp) (step_ok t hok hb) (step_dinv t hok h hpre hb) hr
    | err e env => rw [hb] at hr; cases hr
    | panic => rw [hb] at hr; cases hr

/-- Every node of an accepted tree is described by a token of the input. -/
theorem build_desc {m : Mode} {len : Nat} {env : Env} {ts : List Token} {lexErr : Option Nat} {p : Parsed}
    (h : build m len env ts lexErr = .ok p) : Desc ts p.spans.get p.env baseStack [] p.tree := by
  unfold build at h
  cases hb : (Builder.new env).run ts lexErr with
  | panic => rw [hb] at h; cases h
  | err e env' => rw [hb] at h; cases h
  | ok b =>
    rw [hb] at h
    have hok := run_ok ts lexErr (builderOk_new env) hb
    have hd := run_dinv ts lexErr ts [] _ b (by simp) (builderOk_new env) (dinv_new ts env) hb
    obtain ⟨hdoc, hp⟩ := finish_ok_parsed (b := b) (len := len) (m := m) (p := p) (by cases m <;> exact h)
    subst hp
    have hpar : b.parents = [] := by
      cases hq : b.parents with
      | nil => rfl
      | cons q rest =>
        have hs := hok.2.2.1
        rw [hq] at hs
        simp only [ShapeOk] at hs
        have := hs.1
        simp only [Builder.isCurrentDocument] at hdoc
        cases hv : b.cur.value <;> simp_all [Value.isElement, Value.isDocument]
    obtain ⟨hc, _⟩ := hd.stack
    rw [hpar] at hc
    have hval : b.cur.value = .document := by
      simp only [Builder.isCurrentDocument] at hdoc
      cases hv : b.cur.value <;> simp_all [Value.isDocument]
    have htree : b.parsed.tree = .node .document b.cur.rkids.reverse := by
      simp [Builder.parsed, Builder.root, hpar, zipInto, Frame.close, hval]
    have hstack : b.nsStack = baseStack := by
      have := hc.2
      rw [hval] at this
      exact this
    rw [htree, Desc]
    refine ⟨trivial, ?_⟩
    show Desc.descList ts b.spans.get b.env baseStack [] 0 b.cur.rkids.reverse
    rw [← hstack]
    exact descList_of_R _ _ _ (by simpa [framesPath] using hc.1)

/-! ### From the whole tree to one node -/

/-- The declarations in force inside the node at path `q` of `t` (`stack` = those around `t`). -/
def scopeAt : Tree → NsStack → Path → NsStack
  | .node v ks, stack, [] => innerStack v ks stack
  | .node v ks, stack, i :: rest =>
    match ks[i]? with
    | some k => scopeAt k (innerStack v ks stack) rest
    | none => innerStack v ks stack

theorem descList_get {ts : List Token} {g : SpanKey → Option Span} {env : Env} {stack : NsStack} {path : Path} :
    ∀ (ks : List Tree) (j i : Nat) (k : Tree), Desc.descList ts g env stack path j ks → ks[i]? = some k →
      Desc ts g env stack (path ++ [j + i]) k := by
  intro ks
  induction ks with
  | nil => intro j i k _ hk; simp at hk
  | cons x xs ih =>
    intro j i k h hk
    cases i with
    | zero =>
      simp only [List.getElem?_cons_zero, Option.some.injEq] at hk
      subst hk
      exact h.1
    | succ i' =>
      simp only [List.getElem?_cons_succ] at hk
      have := ih (j + 1) i' k h.2 hk
      have e : j + 1 + i' = j + (i' + 1) := by omega
      rw [e] at this
      exact this

theorem desc_at {ts : List Token} {g : SpanKey → Option Span} {env : Env} :
    ∀ (q : Path) (t : Tree) (stack : NsStack) (path : Path) (v : Value) (ks : List Tree),
      Desc ts g env stack path t → t.at? q = some (.node v ks) →
      NodeFacts ts g env (scopeAt t stack q) (path ++ q) v ks := by
  intro q
  induction q with
  | nil =>
    intro t stack path v ks h hat
    simp only [Tree.at?, Option.some.injEq] at hat
    subst hat
    rw [Desc] at h
    simpa [scopeAt] using h.1
  | cons i rest ih =>
    intro t stack path v ks h hat
    cases t with
    | node v0 ks0 =>
      simp only [Tree.at?] at hat
      cases hk : ks0[i]? with
      | none => rw [hk] at hat; cases hat
      | some k =>
        rw [hk] at hat
        simp only at hat
        rw [Desc] at h
        have hd := descList_get ks0 0 i k h.2 hk
        rw [Nat.zero_add] at hd
        have := ih k _ _ v ks hd hat
        simp only [scopeAt, hk]
        rw [List.append_assoc] at this
        exact this

end XotModel
