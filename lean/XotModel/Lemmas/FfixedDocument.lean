/-
  `Document::xotify`: the document element, `new_document_with_element`, the `before` items
  inserted before the element in the given order, the `after` items appended to the document.
-/
import XotModel.Lemmas.FfixedXotify2
import XotModel.Lemmas.FfixedInsert

namespace XotModel
open HTree

def docVal : FDocContent → Value
  | .comment s => .comment s
  | .pi t d => .pi t d

theorem docVal_normal (c : FDocContent) :
    (docVal c).isNormal = true ∧ (docVal c).isDocument = false ∧ (docVal c).isText = false := by
  cases c <;> simp [docVal, Value.isNormal, Value.category, Value.isDocument, Value.isText]

theorem count_insert_leaf (A k1 k2 : List HTree) (d n a : Nat) (v e : Value) :
    (handlesList (A ++ [HTree.node d v (k1 ++ HTree.node n e [] :: k2)])).count a =
      (handlesList (A ++ [HTree.node d v (k1 ++ k2)])).count a + (if a = n then 1 else 0) := by
  simp only [handlesList_append_ff, handlesList, handles, List.count_append, List.count_cons,
    List.append_nil, List.count_nil, beq_iff_eq]
  by_cases e : a = n
  · subst e; simp; omega
  · have : ¬ (n = a) := fun e' => e e'.symm
    simp [e, this]

namespace Forest

theorem createDocContent_eq (f : Forest) (c : FDocContent) :
    f.createDocContent c = f.newNode (docVal c) := by
  cases c <;> rfl

/-- The `before` loop. -/
theorem insertAllBefore_spec {A k2 : List HTree} {d : Nat} {r : HTree} (hrn : r.value.isNormal = true) :
    ∀ (bs : List FDocContent) (f : Forest) (k1 : List HTree),
      f.roots = A ++ [HTree.node d .document (k1 ++ r :: k2)] → Good f →
      f.insertAllBefore r.handle bs =
        some { f with roots := A ++ [HTree.node d .document
                                  (k1 ++ leavesFrom f.next (bs.map docVal) ++ r :: k2)],
                      next := f.next + bs.length }
  | [], f, k1, hroots, _ => by
    simp [insertAllBefore, leavesFrom, ← hroots]
  | c :: bs, f, k1, hroots, hg => by
    let leaf : HTree := .node f.next (docVal c) []
    let f1 : Forest := { f with roots := f.roots ++ [leaf], next := f.next + 1 }
    have hg1 : Good f1 := hg.newNode (docVal c)
    have hR : RootAt f1 (A ++ [HTree.node d .document (k1 ++ r :: k2)]) leaf [] :=
      ⟨by simp [f1, hroots], hg1.nodup⟩
    have hXY : (A ++ [HTree.node d .document (k1 ++ r :: k2)]) ++ [] =
        A ++ HTree.node d .document (k1 ++ r :: k2) :: [] := by simp
    have hins := hR.insertBefore_kid hXY (Or.inr rfl) (docVal_normal c).1 (docVal_normal c).2.1 hrn
      (by intro _ ht; rw [show leaf.value = docVal c from rfl, (docVal_normal c).2.2] at ht; cases ht)
    unfold insertAllBefore
    rw [createDocContent_eq]
    show (match f1.insertBefore r.handle f.next with
      | (f2, .ok) => insertAllBefore f2 r.handle bs
      | _ => none) = _
    rw [show f.next = leaf.handle from rfl, hins]
    simp only
    have hg2 : Good { f1 with roots := A ++ [HTree.node d .document ((k1 ++ [leaf]) ++ r :: k2)] } := by
      refine Good.of_count_new (f' := { f1 with roots := A ++ [HTree.node d .document ((k1 ++ [leaf]) ++ r :: k2)] })
        hg rfl ?_
      intro a
      show (handlesList (A ++ [HTree.node d .document ((k1 ++ [leaf]) ++ r :: k2)])).count a = _
      rw [hroots, List.append_assoc k1, List.singleton_append, count_insert_leaf]
    have := insertAllBefore_spec hrn bs
      { f1 with roots := A ++ [HTree.node d .document ((k1 ++ [leaf]) ++ r :: k2)] } (k1 ++ [leaf]) rfl hg2
    simp only [List.append_assoc, List.singleton_append] at this
    rw [this]
    simp [f1, leaf, leavesFrom, Nat.add_assoc, Nat.add_comm 1, HTree.handle]

/-- The `after` loop. -/
theorem appendAllAfter_spec {A : List HTree} {d : Nat} :
    ∀ (as : List FDocContent) (f : Forest) (ks : List HTree),
      f.roots = A ++ [HTree.node d .document ks] → Good f →
      f.appendAllAfter d as =
        some { f with roots := A ++ [HTree.node d .document (ks ++ leavesFrom f.next (as.map docVal))],
                      next := f.next + as.length }
  | [], f, ks, hroots, _ => by
    simp [appendAllAfter, leavesFrom, ← hroots]
  | c :: as, f, ks, hroots, hg => by
    let leaf : HTree := .node f.next (docVal c) []
    let f1 : Forest := { f with roots := f.roots ++ [leaf], next := f.next + 1 }
    have hg1 : Good f1 := hg.newNode (docVal c)
    have hR : RootAt f1 (A ++ [HTree.node d .document ks]) leaf [] :=
      ⟨by simp [f1, hroots], hg1.nodup⟩
    have hXY : (A ++ [HTree.node d .document ks]) ++ [] = A ++ HTree.node d .document ks :: [] := by simp
    have happ := hR.append_root hXY (Or.inr rfl) (docVal_normal c).1 (docVal_normal c).2.1
      (by intro _ ht; rw [show leaf.value = docVal c from rfl, (docVal_normal c).2.2] at ht; cases ht)
    unfold appendAllAfter
    rw [createDocContent_eq]
    show (match f1.appendOk d f.next with
      | some f2 => appendAllAfter f2 d as
      | none => none) = _
    rw [show f.next = leaf.handle from rfl, appendOk_eq happ]
    simp only
    have hg2 : Good { f1 with roots := A ++ [HTree.node d .document (ks ++ [leaf])] } := by
      refine Good.of_count_new (f' := { f1 with roots := A ++ [HTree.node d .document (ks ++ [leaf])] })
        hg rfl ?_
      intro a
      show (handlesList (A ++ [HTree.node d .document (ks ++ [leaf])])).count a = _
      have := count_insert_leaf A ks [] d f.next a .document (docVal c)
      simp only [List.append_nil] at this
      rw [hroots, this]
    rw [appendAllAfter_spec as { f1 with roots := A ++ [HTree.node d .document (ks ++ [leaf])] }
      (ks ++ [leaf]) rfl hg2]
    simp [f1, leaf, leavesFrom, Nat.add_assoc, Nat.add_comm 1, HTree.handle]

end Forest
end XotModel
