/-
  XotModel.Lemmas.LexCanonStream — the stream primitives of the reference tokenizer evaluated on
  text of a known shape `a ++ r` (the piece they are meant to consume, then anything that stops
  them).  `Stops f r`: the text `r` does not begin with a character satisfying `f`.
-/
import XotModel.Model.Lex
import XotModel.Lemmas.LexCanonDefs

namespace XotModel.Lex.Canon

open XotModel.Lex XotModel.Lex.Stream

/-- `r` is empty or begins with a character on which `f` is false. -/
def Stops (f : Char → Bool) (r : Str) : Prop := ∀ c, r.head? = some c → f c = false

theorem Stops.nil (f : Char → Bool) : Stops f [] := by intro c h; simp at h

theorem Stops.cons {f : Char → Bool} {c : Char} (r : Str) (h : f c = false) : Stops f (c :: r) := by
  intro d hd; simp at hd; subst hd; exact h

theorem adv_app (pos : Nat) (a r : Str) (k : Nat) (hk : k = a.length) :
    (Stream.mk pos (a ++ r)).adv k = ⟨pos + strLen a, r⟩ := by
  subst hk; simp [adv]

theorem adv_one (pos : Nat) (c : Char) (r : Str) :
    (Stream.mk pos (c :: r)).adv 1 = ⟨pos + utf8Len c, r⟩ := by
  simp [adv, strLen]

theorem sliceBack_app (p q : Nat) (a r : Str) : sliceBack ⟨p, a ++ r⟩ ⟨q, r⟩ = ⟨a, p⟩ := by
  simp [sliceBack]

theorem takeWhile_app_stop {f : Char → Bool} {a r : Str} (ha : a.all f = true) (hr : Stops f r) :
    (a ++ r).takeWhile f = a := by
  induction a with
  | nil =>
    cases r with
    | nil => rfl
    | cons c cs => simp [hr c rfl]
  | cons c cs ih =>
    simp only [List.all_cons, Bool.and_eq_true] at ha
    simp [ha.1, ih ha.2]

theorem skipBytes_app {f : Char → Bool} (pos : Nat) {a r : Str} (ha : a.all f = true)
    (hr : Stops f r) : skipBytes f ⟨pos, a ++ r⟩ = ⟨pos + strLen a, r⟩ := by
  simp only [skipBytes, takeWhile_app_stop ha hr]
  exact adv_app pos a r _ rfl

theorem skipSpaces_stop (pos : Nat) {r : Str} (hr : Stops isXmlSpace r) :
    skipSpaces ⟨pos, r⟩ = ⟨pos, r⟩ := by
  have := skipBytes_app (f := isXmlSpace) pos (a := []) (by simp) hr
  simpa [skipSpaces, strLen] using this

/-! ### `skip_chars` -/

/-- `skip_chars(|_, c| g c)` over characters that all pass, up to a stopper. -/
theorem scanChars_simple {g : Char → Bool} {a r : Str}
    (ha : a.all (fun c => isXmlChar c && g c) = true)
    (hr : r = [] ∨ ∃ c cs, r = c :: cs ∧ isXmlChar c = true ∧ g c = false) :
    scanChars (fun _ c => g c) (a ++ r) = some a.length := by
  induction a with
  | nil =>
    rcases hr with rfl | ⟨c, cs, rfl, hx, hg⟩
    · simp [scanChars]
    · simp [scanChars, hx, hg]
  | cons c cs ih =>
    simp only [List.all_cons, Bool.and_eq_true] at ha
    simp [scanChars, ha.1.1, ha.1.2, ih ha.2]

/-- The comment body: no `--` inside, no `-` at the end; stops at the `-->` that follows. -/
theorem scanChars_comment {a r : Str} (ha : a.all isXmlChar = true)
    (h1 : hasInfix litDashDash a = false) (h2 : a.getLast? ≠ some '-') :
    scanChars (fun r c => !(c == '-' && litCommentClose.isPrefixOf r)) (a ++ '-' :: '-' :: '>' :: r)
      = some a.length := by
  induction a with
  | nil => simp [scanChars, litCommentClose, isXmlChar]
  | cons c cs ih =>
    simp only [List.all_cons, Bool.and_eq_true] at ha
    simp only [hasInfix, Bool.or_eq_false_iff] at h1
    have h2' : cs.getLast? ≠ some '-' := by
      cases cs with
      | nil => simp
      | cons d ds => simpa [List.getLast?_cons_cons] using h2
    have hf : (!(c == '-' && litCommentClose.isPrefixOf (c :: (cs ++ '-' :: '-' :: '>' :: r)))) = true := by
      cases cs with
      | nil =>
        have : c ≠ '-' := by simpa using h2
        simp [this]
      | cons d ds =>
        have := h1.1
        simp only [litDashDash, List.isPrefixOf_cons_cons, List.isPrefixOf_nil_left,
          Bool.and_true] at this
        simp only [litCommentClose, List.cons_append, List.isPrefixOf_cons_cons]
        cases hc : c == '-' <;> simp_all
    simp only [List.cons_append, scanChars, ha.1, Bool.not_true, Bool.false_eq_true, if_false, hf,
      if_true, ih ha.2 h1.2 h2', Option.map_some, List.length_cons]

/-- The CDATA body: no `]]>` inside; stops at the `]]>` that follows. -/
theorem scanChars_cdata {a r : Str} (ha : a.all isXmlChar = true)
    (h1 : hasInfix litCdataClose a = false) :
    scanChars (fun r c => !(c == ']' && litCdataClose.isPrefixOf r)) (a ++ ']' :: ']' :: '>' :: r)
      = some a.length := by
  induction a with
  | nil => simp [scanChars, litCdataClose, isXmlChar]
  | cons c cs ih =>
    simp only [List.all_cons, Bool.and_eq_true] at ha
    simp only [hasInfix, Bool.or_eq_false_iff] at h1
    have hf : (!(c == ']' && litCdataClose.isPrefixOf (c :: (cs ++ ']' :: ']' :: '>' :: r)))) = true := by
      have := h1.1
      cases cs with
      | nil => simp [litCdataClose, List.isPrefixOf_cons_cons]
      | cons d ds =>
        cases ds with
        | nil => simp [litCdataClose, List.isPrefixOf_cons_cons]
        | cons e es =>
          simp only [litCdataClose, List.cons_append, List.isPrefixOf_cons_cons, List.isPrefixOf_nil_left,
            Bool.and_true] at this ⊢
          cases hc : c == ']' <;> simp_all
          by_cases hd : ']' = d
          · exact .inr (this hd)
          · exact .inl hd
    simp only [List.cons_append, scanChars, ha.1, Bool.not_true, Bool.false_eq_true, if_false, hf,
      if_true, ih ha.2 h1.2, Option.map_some, List.length_cons]

/-- The PI content: no `?>` inside; stops at the `?>` that follows. -/
theorem scanChars_pi {a r : Str} (ha : a.all isXmlChar = true)
    (h1 : hasInfix litPiClose a = false) :
    scanChars (fun r c => !(c == '?' && litPiClose.isPrefixOf r)) (a ++ '?' :: '>' :: r)
      = some a.length := by
  induction a with
  | nil => simp [scanChars, litPiClose, isXmlChar]
  | cons c cs ih =>
    simp only [List.all_cons, Bool.and_eq_true] at ha
    simp only [hasInfix, Bool.or_eq_false_iff] at h1
    have hf : (!(c == '?' && litPiClose.isPrefixOf (c :: (cs ++ '?' :: '>' :: r)))) = true := by
      have := h1.1
      cases cs with
      | nil => simp [litPiClose, List.isPrefixOf_cons_cons]
      | cons d ds =>
        simp only [litPiClose, List.cons_append, List.isPrefixOf_cons_cons, List.isPrefixOf_nil_left,
          Bool.and_true] at this ⊢
        cases hc : c == '?' <;> simp_all
    simp only [List.cons_append, scanChars, ha.1, Bool.not_true, Bool.false_eq_true, if_false, hf,
      if_true, ih ha.2 h1.2, Option.map_some, List.length_cons]

theorem skipChars_of_scan {f : Str → Char → Bool} (pos : Nat) {a r : Str}
    (h : scanChars f (a ++ r) = some a.length) :
    skipChars f ⟨pos, a ++ r⟩ = some ⟨pos + strLen a, r⟩ := by
  simp only [skipChars, h, Option.map_some]
  rw [adv_app pos a r _ rfl]

/-! ### Names -/

theorem isNameChar_colon : isNameChar ':' = true := by decide
theorem utf8Len_colon : utf8Len ':' = 1 := by decide

theorem qnameLoop_nc {x r : Str} {k : Nat} {sp : Option Nat}
    (hx : x.all (fun c => isNameChar c && c != ':') = true) :
    qnameLoop (x ++ r) k sp = qnameLoop r (k + x.length) sp := by
  induction x generalizing k with
  | nil => simp
  | cons c cs ih =>
    simp only [List.all_cons, Bool.and_eq_true, bne_iff_ne, ne_eq] at hx
    have hc : (c == ':') = false := by simpa using hx.1.2
    simp only [List.cons_append, qnameLoop, hc, Bool.false_eq_true, if_false, hx.1.1, if_true,
      List.length_cons]
    rw [ih (by simpa using hx.2)]
    congr 1; omega

theorem qnameLoop_stop {r : Str} {k : Nat} {sp : Option Nat} (hr : Stops isNameChar r) :
    qnameLoop r k sp = some (k, sp) := by
  cases r with
  | nil => rfl
  | cons c cs =>
    have h := hr c rfl
    have hc : (c == ':') = false := by
      cases hcc : c == ':'
      · rfl
      · have : c = ':' := by simpa using hcc
        rw [this, isNameChar_colon] at h; cases h
    simp [qnameLoop, hc, h]

theorem ncNameOK_all {s : Str} (h : ncNameOK s = true) :
    s.all (fun c => isNameChar c && c != ':') = true := by
  simp only [ncNameOK, Bool.and_eq_true] at h; exact h.1

theorem ncNameOK_start {c : Char} {cs : Str} (h : ncNameOK (c :: cs) = true) : isNameStart c = true := by
  simp only [ncNameOK, Bool.and_eq_true] at h; exact h.2

/-- `consume_qname` on a canonical `prefix:local` followed by a non-name character. -/
theorem consumeQName_app (pos : Nat) {p l r : Str} (h : qnameOK p l = true)
    (hr : Stops isNameChar r) :
    consumeQName ⟨pos, tokQName p l ++ r⟩ =
      some ((placeQName pos p l).1, (placeQName pos p l).2, ⟨pos + strLen (tokQName p l), r⟩) := by
  simp only [qnameOK, Bool.and_eq_true, Bool.not_eq_true', List.isEmpty_eq_false_iff] at h
  obtain ⟨⟨hp, hl⟩, hne⟩ := h
  obtain ⟨lc, ls, rfl⟩ := List.exists_cons_of_ne_nil hne
  have hls := ncNameOK_start hl
  cases p with
  | nil =>
    have e : qnameLoop ((lc :: ls) ++ r) 0 none = some ((lc :: ls).length, none) := by
      rw [qnameLoop_nc (ncNameOK_all hl), qnameLoop_stop hr]; simp
    simp only [tokQName, List.isEmpty_nil, if_true, placeQName]
    unfold consumeQName
    simp only [e]
    rw [adv_app pos (lc :: ls) r _ rfl, sliceBack_app]
    simp [startsName, emptySpan, hls]
  | cons pc ps =>
    have hps := ncNameOK_start hp
    have e : qnameLoop ((pc :: ps) ++ (':' :: ((lc :: ls) ++ r))) 0 none =
        some ((pc :: ps).length + 1 + (lc :: ls).length, some (pc :: ps).length) := by
      rw [qnameLoop_nc (ncNameOK_all hp)]
      simp only [qnameLoop, beq_self_eq_true, if_true, Nat.zero_add]
      rw [qnameLoop_nc (ncNameOK_all hl), qnameLoop_stop hr]
    have sh : tokQName (pc :: ps) (lc :: ls) ++ r = (pc :: ps) ++ (':' :: ((lc :: ls) ++ r)) := by
      simp [tokQName]
    have sh2 : (pc :: ps) ++ (':' :: ((lc :: ls) ++ r)) = ((pc :: ps) ++ [':']) ++ ((lc :: ls) ++ r) := by
      simp
    have len1 : strLen ((pc :: ps) ++ [':']) = strLen (pc :: ps) + 1 := by
      rw [strLen_app]; simp [strLen, utf8Len_colon]
    have len2 : strLen (tokQName (pc :: ps) (lc :: ls)) = strLen (pc :: ps) + 1 + strLen (lc :: ls) := by
      have : tokQName (pc :: ps) (lc :: ls) = ((pc :: ps) ++ [':']) ++ (lc :: ls) := by simp [tokQName]
      rw [this, strLen_app, len1]
    rw [sh]
    unfold consumeQName
    simp only [e]
    have a1 : (Stream.mk pos ((pc :: ps) ++ (':' :: ((lc :: ls) ++ r)))).adv (pc :: ps).length =
        ⟨pos + strLen (pc :: ps), ':' :: ((lc :: ls) ++ r)⟩ := adv_app _ _ _ _ rfl
    have a2 : (Stream.mk pos ((pc :: ps) ++ (':' :: ((lc :: ls) ++ r)))).adv ((pc :: ps).length + 1) =
        ⟨pos + strLen (pc :: ps) + 1, (lc :: ls) ++ r⟩ := by
      rw [sh2, adv_app pos _ _ _ (by simp), len1]; rfl
    have a3 : (Stream.mk pos ((pc :: ps) ++ (':' :: ((lc :: ls) ++ r)))).adv
        ((pc :: ps).length + 1 + (lc :: ls).length) = ⟨pos + strLen (tokQName (pc :: ps) (lc :: ls)), r⟩ := by
      rw [← sh, adv_app pos _ _ _ (by simp [tokQName]; omega)]
    rw [a1, a2, a3, sliceBack_app, sliceBack_app]
    simp [startsName, hps, hls, placeQName]

theorem nameOK_cons {s : Str} (h : nameOK s = true) :
    ∃ c cs, s = c :: cs ∧ isNameStart c = true ∧ cs.all isNameChar = true := by
  cases s with
  | nil => simp [nameOK] at h
  | cons c cs =>
    simp only [nameOK, Bool.and_eq_true] at h
    exact ⟨c, cs, rfl, h.1, h.2⟩

/-- `consume_name` on a name followed by a non-name character. -/
theorem consumeName_app (pos : Nat) {t r : Str} (h : nameOK t = true) (hr : Stops isNameChar r) :
    consumeName ⟨pos, t ++ r⟩ = some (⟨t, pos⟩, ⟨pos + strLen t, r⟩) := by
  obtain ⟨c, cs, rfl, hc, hcs⟩ := nameOK_cons h
  have e : skipName ⟨pos, (c :: cs) ++ r⟩ = some ⟨pos + strLen (c :: cs), r⟩ := by
    simp only [skipName, List.cons_append, hc, if_true, takeWhile_app_stop hcs hr]
    rw [show c :: (cs ++ r) = (c :: cs) ++ r from rfl, adv_app pos (c :: cs) r _ (by simp; omega)]
  unfold consumeName
  simp only [e, sliceBack_app]
  simp

end XotModel.Lex.Canon
