/-
  FspecContent — which handle survives a merge does not matter once handles are forgotten:
  `Forest.content` of the specification is the same for every survivor rule.
-/
import XotModel.Lemmas.FspecPrepend

namespace XotModel
open HTree Spec

theorem erase_node (h : Nat) (v : Value) (ks : List HTree) : erase (.node h v ks) = .node v (eraseList ks) := by
  simp [erase]

theorem eraseList_nil : eraseList [] = [] := by simp [eraseList]
theorem eraseList_cons (k : HTree) (ks : List HTree) : eraseList (k :: ks) = erase k :: eraseList ks := by
  simp [eraseList]

theorem fs_eraseList_append (a b : List HTree) : eraseList (a ++ b) = eraseList a ++ eraseList b := by
  induction a with
  | nil => simp [eraseList_nil]
  | cons k ks ih => simp [eraseList_cons, ih]

theorem erase_setValue (t : HTree) (v : Value) : erase (t.setValue v) = .node v (eraseList t.kids) := by
  cases t; simp [HTree.setValue, erase_node, HTree.kids]

theorem erase_eq_of {a b : HTree} (hv : a.value = b.value) (hk : eraseList a.kids = eraseList b.kids) :
    erase a = erase b := by
  cases a; cases b
  simp only [HTree.value, HTree.kids] at hv hk
  rw [erase_node, erase_node, hv, hk]

/-- Merged text nodes erase to the same tree whichever handle they keep. -/
theorem erase_mergeInto_keep (keep keep' : Keep) : ∀ (rest : List HTree) (cur cur' : HTree),
    erase cur = erase cur' → cur.value = cur'.value →
    (cur.value.isText = true → cur.kids = [] ∧ cur'.kids = []) →
    (∀ k ∈ rest, k.value.isText = true → k.kids = []) →
    eraseList (mergeInto keep cur rest) = eraseList (mergeInto keep' cur' rest)
  | [], cur, cur', he, _, _, _ => by
    rw [mergeInto_nil, mergeInto_nil, eraseList_cons, eraseList_cons, he]
  | b :: rest, cur, cur', he, hv, hl, hr => by
    by_cases h : cur.value.isText = true ∧ b.value.isText = true
    · obtain ⟨x, hx⟩ := isText_iff_textData.1 h.1
      obtain ⟨y, hy⟩ := isText_iff_textData.1 h.2
      have hx' := textData_some hx
      have hy' := textData_some hy
      rw [mergeInto_cons_text hx' hy', mergeInto_cons_text (hv ▸ hx') hy']
      have hbl : b.kids = [] := hr b List.mem_cons_self h.2
      obtain ⟨hcl, hcl'⟩ := hl h.1
      have hj : ∀ (kp : Keep) (u : HTree), u.kids = [] → (join kp u b x y).kids = [] := by
        intro kp u hu
        unfold join
        split
        · rw [setValue_kids]; exact hu
        · rw [setValue_kids]; exact hbl
      apply erase_mergeInto_keep keep keep' rest
      · apply erase_eq_of
        · rw [join_value, join_value]
        · rw [hj keep cur hcl, hj keep' cur' hcl']
      · rw [join_value, join_value]
      · intro _; exact ⟨hj keep cur hcl, hj keep' cur' hcl'⟩
      · intro k hk; exact hr k (List.mem_cons_of_mem _ hk)
    · have h' : ¬ (cur'.value.isText = true ∧ b.value.isText = true) := by rw [← hv]; exact h
      rw [mergeInto_cons_other h, mergeInto_cons_other h', eraseList_cons, eraseList_cons, he]
      congr 1
      apply erase_mergeInto_keep keep keep' rest b b rfl rfl
      · intro hb; exact ⟨hr b List.mem_cons_self hb, hr b List.mem_cons_self hb⟩
      · intro k hk; exact hr k (List.mem_cons_of_mem _ hk)

theorem erase_mergeRuns_keep (keep keep' : Keep) {L : List HTree}
    (hl : ∀ k ∈ L, k.value.isText = true → k.kids = []) :
    eraseList (mergeRuns keep L) = eraseList (mergeRuns keep' L) := by
  cases L with
  | nil => rfl
  | cons a rest =>
    apply erase_mergeInto_keep keep keep' rest a a rfl rfl
    · intro ha; exact ⟨hl a List.mem_cons_self ha, hl a List.mem_cons_self ha⟩
    · intro k hk; exact hl k (List.mem_cons_of_mem _ hk)

mutual
  theorem erase_editAt_const (p : Nat) {A B : List HTree} (h : eraseList A = eraseList B) : ∀ t : HTree,
      erase (HTree.editAt p (fun _ => A) t) = erase (HTree.editAt p (fun _ => B) t)
    | .node hh v ks => by
      rw [editAt_node, editAt_node]
      by_cases e : hh = p
      · rw [if_pos e, if_pos e, erase_node, erase_node, h]
      · rw [if_neg e, if_neg e, erase_node, erase_node, eraseList_editAt_const p h ks]
  theorem eraseList_editAt_const (p : Nat) {A B : List HTree} (h : eraseList A = eraseList B) : ∀ ks : List HTree,
      eraseList (ks.map (HTree.editAt p (fun _ => A))) = eraseList (ks.map (HTree.editAt p (fun _ => B)))
    | [] => rfl
    | k :: ks => by
      rw [List.map_cons, List.map_cons, eraseList_cons, eraseList_cons, erase_editAt_const p h k,
        eraseList_editAt_const p h ks]
end

/-- Two edits of one site whose results erase to the same list give the same content. -/
theorem SiteAt.content_congr {f : Forest} {p : Nat} {v : Value} {L : List HTree} (s : SiteAt f p v L)
    {g g' : List HTree → List HTree} (h : eraseList (g L) = eraseList (g' L)) :
    (f.editAt (some p) g).content = (f.editAt (some p) g').content := by
  rw [s.congr (g := g) (g' := fun _ => g L) rfl, s.congr (g := g') (g' := fun _ => g' L) rfl]
  exact eraseList_editAt_const p h f.roots

end XotModel

namespace XotModel
open HTree Spec

theorem mem_replaceTop {h : Nat} {F : HTree → List HTree} {k : HTree} : ∀ {L : List HTree},
    k ∈ replaceTop h F L → k ∈ L ∨ ∃ w ∈ L, k ∈ F w
  | [], hk => by cases hk
  | a :: L, hk => by
    rw [replaceTop_cons] at hk
    split at hk
    · cases List.mem_append.1 hk with
      | inl e => exact Or.inr ⟨a, List.mem_cons_self, e⟩
      | inr e => exact Or.inl (List.mem_cons_of_mem _ e)
    · cases List.mem_cons.1 hk with
      | inl e => exact Or.inl (e ▸ List.mem_cons_self)
      | inr e =>
        cases mem_replaceTop e with
        | inl e' => exact Or.inl (List.mem_cons_of_mem _ e')
        | inr e' =>
          obtain ⟨w, hw, hkw⟩ := e'
          exact Or.inr ⟨w, List.mem_cons_of_mem _ hw, hkw⟩

/-- What an insertion puts into the list: the old children and `t`. -/
theorem mem_insert {dest : Dest} {t k : HTree} {L : List HTree} (hk : k ∈ dest.insert t L) : k = t ∨ k ∈ L := by
  cases dest with
  | lastChildOf p =>
    simp only [Dest.insert, insertLast, List.mem_append, List.mem_singleton] at hk
    exact hk.symm
  | firstNormalChildOf p =>
    simp only [Dest.insert] at hk
    rw [insertFirstNormal_eq] at hk
    cases List.mem_append.1 hk with
    | inl e => exact Or.inr ((List.takeWhile_sublist _).subset e)
    | inr e =>
      cases List.mem_cons.1 e with
      | inl e' => exact Or.inl e'
      | inr e' => exact Or.inr ((List.dropWhile_sublist _).subset e')
  | after r =>
    simp only [Dest.insert, insertAfterTop] at hk
    cases mem_replaceTop hk with
    | inl e => exact Or.inr e
    | inr e =>
      obtain ⟨w, hw, hkw⟩ := e
      simp only [List.mem_cons, List.not_mem_nil, or_false] at hkw
      cases hkw with
      | inl e' => exact Or.inr (e' ▸ hw)
      | inr e' => exact Or.inl e'
  | before r =>
    simp only [Dest.insert, insertBeforeTop] at hk
    cases mem_replaceTop hk with
    | inl e => exact Or.inr e
    | inr e =>
      obtain ⟨w, hw, hkw⟩ := e
      simp only [List.mem_cons, List.not_mem_nil, or_false] at hkw
      cases hkw with
      | inl e' => exact Or.inl e'
      | inr e' => exact Or.inr (e' ▸ hw)

theorem natFor_insert {ψ : HTree → HTree} (hk : KidMap ψ) {t : HTree} (ht : ψ t = t) (dest : Dest) :
    NatFor ψ (dest.insert t) := by
  cases dest with
  | lastChildOf p => exact natFor_insertLast ht
  | firstNormalChildOf p => exact natFor_insertFirstNormal hk ht
  | after r => exact natFor_insertAfterTop hk r ht
  | before r => exact natFor_insertBeforeTop hk r ht

/-- Far geometry: the content of the specification does not depend on the survivor rule. -/
theorem Far.content_keep {f : Forest} {keep1 keep2 : Keep} {c : Nat} {t : HTree} {q : Nat} {vq : Value}
    {Lq : List HTree} {X Y1 Y2 : Forest} {φ1 φ2 : HTree → HTree}
    (F1 : Far f keep1 c t q vq Lq X Y1 φ1) (F2 : Far f keep2 c t q vq Lq X Y2 φ2)
    (hleafL : ∀ k ∈ Lq, k.value.isText = true → k.kids = []) (hleaft : t.value.isText = true → t.kids = [])
    (dest : Dest) (hocc : dest.occupiedBy f c = false) (hsite : dest.site f = some q) :
    (specMove keep1 dest c f).content = (specMove keep2 dest c f).content := by
  rw [F1.spec dest hocc hsite (fun ψ hk hψ => natFor_insert hk hψ dest),
    F2.spec dest hocc hsite (fun ψ hk hψ => natFor_insert hk hψ dest)]
  have hY : Y2 = Y1 := by rw [← F1.xcut, ← F2.xcut]
  subst hY
  have hYc : (Y2.editAt (some q) (dest.insert t)).consolidation = f.consolidation := by
    rw [Forest.editAt_consolidation, F1.ycons]
  rcases Bool.eq_false_or_eq_true f.consolidation with hc | hc
  · rw [mergeAt_on (hYc.trans hc), mergeAt_on (hYc.trans hc), Forest.editAt_editAt, Forest.editAt_editAt]
    apply F1.ysite.content_congr
    simp only [Function.comp]
    apply erase_mergeRuns_keep
    intro k hk htx
    cases mem_insert hk with
    | inl e => rw [e] at htx ⊢; exact hleaft htx
    | inr e => exact F1.yleaf hleafL k e htx
  · rw [mergeAt_off (hYc.trans hc), mergeAt_off (hYc.trans hc)]

/-- The content of a far move's specification is the same for both survivor rules. -/
theorem specMove_content_keep_far {f : Forest} {c : Nat} {t : HTree} {q : Nat} {vq : Value} {Lq : List HTree}
    (inv : f.Inv) (norm : f.Normal) (hgc : f.get? c = some t) (sq : SiteAt f q vq Lq) (hqt : q ∉ handles t)
    (hvq : vq.isText = false) (hfar : f.parent? c ≠ some q)
    (dest : Dest) (hocc : dest.occupiedBy f c = false) (hsite : dest.site f = some q) :
    (specMove (Keep.resident c) dest c f).content = (specMove Keep.earlier dest c f).content := by
  have nd := inv.nodup
  have hleafL := sq.leaf inv.valid
  have hleaft : t.value.isText = true → t.kids = [] := leaf_of_text inv.valid hgc
  rcases Forest.root_or_ctx hgc with hroot | ⟨cx, hctx⟩
  · have hno := Forest.ctx_none_of_root nd hroot
    exact (far_root (keep := Keep.resident c) hgc hno sq hqt).content_keep
      (far_root (keep := Keep.earlier) hgc hno sq hqt) hleafL hleaft dest hocc hsite
  · obtain ⟨e0, vo, so⟩ := SiteAt.of_ctx nd hctx
    have hself : cx.self = t := by
      have := Forest.get?_of_ctx nd hctx
      rw [hgc] at this
      exact (Option.some.inj this).symm
    obtain ⟨po, l, k, r⟩ := cx
    simp only at e0 so hself
    subst hself
    have htc : k.handle = c := e0
    subst htc
    have hpo : po ≠ q := by
      intro e
      apply hfar
      rw [Forest.parent?_of_ctx hctx, e]
    obtain ⟨⟨φ1, F1⟩, _⟩ := far_kid (keep := Keep.resident k.handle) inv norm (Keep.resident_spec k.handle)
      so sq hpo hqt hvq
    obtain ⟨⟨φ2, F2⟩, _⟩ := far_kid (keep := Keep.earlier) inv norm (Keep.earlier_spec k.handle) so sq hpo hqt hvq
    exact F1.content_keep F2 hleafL hleaft dest hocc hsite

end XotModel

namespace XotModel
open HTree Spec

theorem specMove_content_keep_far' {f : Forest} {c : Nat} {t : HTree} {q : Nat} {vq : Value} {Lq : List HTree}
    (inv : f.Inv) (norm : f.Normal) (hgc : f.get? c = some t) (sq : SiteAt f q vq Lq) (hqt : q ∉ handles t)
    (hvq : vq.isText = false) (hfar : f.parent? c ≠ some q)
    (dest : Dest) (hsite : dest.site f = some q) :
    (specMove (Keep.resident c) dest c f).content = (specMove Keep.earlier dest c f).content := by
  cases hocc : dest.occupiedBy f c with
  | true => unfold specMove; rw [hocc]; rfl
  | false => exact specMove_content_keep_far inv norm hgc sq hqt hvq hfar dest hocc hsite

theorem insertAfter_content_far {f : Forest} {ref c : Nat} (inv : f.Inv) (norm : f.Normal)
    (hfar : f.parent? c ≠ f.parent? ref) (hok : (f.insertAfter ref c).2 = .ok) :
    (f.insertAfter ref c).1.content = (specMove Keep.earlier (.after ref) c f).content := by
  rw [insertAfter_spec_far inv norm hfar hok]
  have nd := inv.nodup
  have hsc : f.structureCheck (f.parent? ref) c = true := by
    cases h : f.structureCheck (f.parent? ref) c with
    | true => rfl
    | false => rw [insertAfter_unfold] at hok; simp [h] at hok
  have hsr : f.siblingReferenceCheck ref c = true := by
    cases h : f.siblingReferenceCheck ref c with
    | true => rfl
    | false => rw [insertAfter_unfold] at hok; simp [hsc, h] at hok
  obtain ⟨q, vq, A, kr, B, t, sq, ekr, hkrn, hrc, hgc, hqt, hnorm, hndoc, hvq⟩ := sibling_checks_unpack nd hsc hsr
  subst ekr
  have hpr : f.parent? kr.handle = some q := Forest.parent?_of_ctx sq.ctx
  exact specMove_content_keep_far' inv norm hgc sq hqt hvq (by rw [← hpr]; exact hfar) _ (by
    simp only [Dest.site]; exact hpr)

theorem insertBefore_content_far {f : Forest} {ref c : Nat} (inv : f.Inv) (norm : f.Normal)
    (hfar : f.parent? c ≠ f.parent? ref) (hok : (f.insertBefore ref c).2 = .ok) :
    (f.insertBefore ref c).1.content = (specMove Keep.earlier (.before ref) c f).content := by
  rw [insertBefore_spec_far inv norm hfar hok]
  have nd := inv.nodup
  have hsc : f.structureCheck (f.parent? ref) c = true := by
    cases h : f.structureCheck (f.parent? ref) c with
    | true => rfl
    | false => rw [insertBefore_unfold] at hok; simp [h] at hok
  have hsr : f.siblingReferenceCheck ref c = true := by
    cases h : f.siblingReferenceCheck ref c with
    | true => rfl
    | false => rw [insertBefore_unfold] at hok; simp [hsc, h] at hok
  obtain ⟨q, vq, A, kr, B, t, sq, ekr, hkrn, hrc, hgc, hqt, hnorm, hndoc, hvq⟩ := sibling_checks_unpack nd hsc hsr
  subst ekr
  have hpr : f.parent? kr.handle = some q := Forest.parent?_of_ctx sq.ctx
  exact specMove_content_keep_far' inv norm hgc sq hqt hvq (by rw [← hpr]; exact hfar) _ (by
    simp only [Dest.site]; exact hpr)

theorem prepend_content_far {f : Forest} {p c : Nat} (inv : f.Inv) (norm : f.Normal)
    (hfar : f.parent? c ≠ some p) (hok : (f.prepend p c).2 = .ok) :
    (f.prepend p c).1.content = (specMove Keep.earlier (.firstNormalChildOf p) c f).content := by
  rw [prepend_spec_far inv norm hfar hok]
  have nd := inv.nodup
  have hsc : f.structureCheck (some p) c = true := by
    cases h : f.structureCheck (some p) c with
    | true => rfl
    | false => rw [prepend_unfold] at hok; simp [h] at hok
  obtain ⟨vp, Lp, t, hgp, hgc, hpt, hnorm, hndoc, hvp⟩ := Forest.structureCheck_unpack nd hsc
  have sp : SiteAt f p vp Lp := ⟨nd, hgp⟩
  have hvq : vp.isText = false := by
    cases hvp with
    | inl h => cases vp <;> simp_all [Value.isElement, Value.isText]
    | inr h => cases vp <;> simp_all [Value.isDocument, Value.isText]
  exact specMove_content_keep_far' inv norm hgc sp hpt hvq hfar _ (by
    simp [Dest.site, Forest.isLive_of_get hgp])

end XotModel
