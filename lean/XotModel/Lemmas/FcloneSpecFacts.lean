/-
  Lemmas for C12, part 10: facts about the structural copy itself — every handle it uses is new,
  and forgetting the handles gives the source with adjacent text merged (consolidation on) or the
  source itself (off).
-/
import XotModel.Lemmas.FcloneNode

namespace XotModel
open HTree

/-! ### handles -/

mutual
  theorem copyInto_handles (cons : Bool) : ∀ (t : HTree) (K : List HTree) (n : Nat),
      n ≤ (copyInto cons K n t).2 ∧
      ∀ h ∈ handlesList (copyInto cons K n t).1,
        h ∈ handlesList K ∨ (n ≤ h ∧ h < (copyInto cons K n t).2)
    | .node h0 v ks, K, n => by
      by_cases hd : v = .document
      · subst hd
        simpa [copyInto] using copyKids_handles cons ks K n
      · by_cases hel : v.isElement = true
        · cases v with
          | element e =>
            obtain ⟨h1, h2⟩ := copyKids_handles cons ks [] (n + 1)
            simp only [copyInto]
            refine ⟨by omega, ?_⟩
            intro h hh
            simp only [handlesList_append, handlesList_singleton, handles, List.mem_append,
              List.mem_cons] at hh
            rcases hh with hK | rfl | hr
            · exact Or.inl hK
            · exact Or.inr ⟨Nat.le_refl _, by omega⟩
            · rcases h2 h hr with h3 | h3
              · simp [handlesList] at h3
              · exact Or.inr ⟨by omega, h3.2⟩
          | _ => simp [Value.isElement] at hel
        · have hel' : v.isElement = false := by simpa using hel
          have hd' : v.isDocument = false := by cases v <;> simp_all [Value.isDocument]
          rw [copyInto_leaf _ _ _ _ _ _ hel' hd']
          refine ⟨by simp, ?_⟩
          intro h hh
          rcases handlesList_snocClone cons K n v with e | e
          · rw [e] at hh
            simp only [List.mem_append, List.mem_singleton] at hh
            rcases hh with hK | rfl
            · exact Or.inl hK
            · exact Or.inr ⟨Nat.le_refl _, by simp⟩
          · rw [e] at hh; exact Or.inl hh
  theorem copyKids_handles (cons : Bool) : ∀ (ks : List HTree) (K : List HTree) (n : Nat),
      n ≤ (copyKids cons K n ks).2 ∧
      ∀ h ∈ handlesList (copyKids cons K n ks).1,
        h ∈ handlesList K ∨ (n ≤ h ∧ h < (copyKids cons K n ks).2)
    | [], K, n => by
      simp only [copyKids]
      exact ⟨Nat.le_refl _, fun h hh => Or.inl hh⟩
    | k :: ks, K, n => by
      obtain ⟨a1, a2⟩ := copyInto_handles cons k K n
      obtain ⟨b1, b2⟩ := copyKids_handles cons ks (copyInto cons K n k).1 (copyInto cons K n k).2
      simp only [copyKids]
      refine ⟨by omega, ?_⟩
      intro h hh
      rcases b2 h hh with h1 | h1
      · rcases a2 h h1 with h2 | h2
        · exact Or.inl h2
        · exact Or.inr ⟨h2.1, by omega⟩
      · exact Or.inr ⟨by omega, h1.2⟩
end

/-- Every handle of the clone lies between the old and the new `next`. -/
theorem copyRoot_handles (cons : Bool) (n : Nat) (src : HTree) :
    ∀ h ∈ handles (copyRoot cons n src).1, n ≤ h ∧ h < (copyRoot cons n src).2 := by
  cases src with
  | node h0 v ks =>
    cases v with
    | document =>
      obtain ⟨h1, h2⟩ := copyKids_handles cons ks [] (n + 1)
      intro h hh
      simp only [copyRoot, handles, List.mem_cons] at hh ⊢
      rcases hh with rfl | hr
      · omega
      · rcases h2 h hr with h3 | h3
        · simp [handlesList] at h3
        · omega
    | element e =>
      obtain ⟨h1, h2⟩ := copyKids_handles cons ks [] (n + 2)
      intro h hh
      simp only [copyRoot, handles, List.mem_cons] at hh ⊢
      rcases hh with rfl | hr
      · omega
      · rcases h2 h hr with h3 | h3
        · simp [handlesList] at h3
        · omega
    | text s => intro h hh; simp [copyRoot, handles, handlesList] at hh ⊢; omega
    | pi t d => intro h hh; simp [copyRoot, handles, handlesList] at hh ⊢; omega
    | comment s => intro h hh; simp [copyRoot, handles, handlesList] at hh ⊢; omega
    | «attribute» a s => intro h hh; simp [copyRoot, handles, handlesList] at hh ⊢; omega
    | «namespace» p ns => intro h hh; simp [copyRoot, handles, handlesList] at hh ⊢; omega

/-! ### erase -/

theorem eraseList_append (A B : List HTree) : eraseList (A ++ B) = eraseList A ++ eraseList B := by
  induction A with
  | nil => rfl
  | cons a A ih => simp [eraseList, ih]

theorem snocMerge_nil (t : Tree) : snocMerge [] t = [t] := by
  unfold snocMerge
  cases t with
  | node v ks => cases v <;> rfl

theorem snocMerge_nontext (A : List Tree) (t : Tree) (h : t.value.isText = false) :
    snocMerge A t = A ++ [t] := by
  unfold snocMerge
  cases t with
  | node v ks => cases v <;> simp_all [Value.isText, Tree.value]

theorem snocMerge_merge (A : List Tree) (ps s : Str) (pk k : List Tree) :
    snocMerge (A ++ [.node (.text ps) pk]) (.node (.text s) k) = A ++ [.node (.text (ps ++ s)) pk] := by
  simp [snocMerge]

theorem snocMerge_last_nontext (A : List Tree) (x t : Tree) (h : x.value.isText = false) :
    snocMerge (A ++ [x]) t = A ++ [x, t] := by
  unfold snocMerge
  cases x with
  | node vx kx =>
    cases t with
    | node v ks => cases v <;> cases vx <;> simp_all [Value.isText, Tree.value]

/-- The erased `snocClone` is `snocMerge`. -/
theorem erase_snocClone_on (K : List HTree) (n : Nat) (v : Value) :
    eraseList (snocClone true K (.node n v [])) = snocMerge (eraseList K) (.node v []) := by
  rcases List.eq_nil_or_concat K with rfl | ⟨K', x, rfl⟩
  · rw [snocClone_nomerge _ _ _ (by intro K' x h; simp at h)]
    simp [eraseList, erase, snocMerge_nil]
  · rw [List.concat_eq_append]
    cases x with
    | node m vm mk =>
      by_cases hx : vm.isText = true
      · cases vm with
        | text ps =>
          by_cases hv : v.isText = true
          · cases v with
            | text s =>
              rw [snocClone_merge]
              simp [eraseList_append, eraseList, erase, snocMerge_merge]
            | _ => simp [Value.isText] at hv
          · have hv' : v.isText = false := by simpa using hv
            rw [snocClone_nontext _ _ _ (by simpa [HTree.value] using hv'),
              snocMerge_nontext _ _ (by simpa [Tree.value] using hv')]
            simp [eraseList_append, eraseList, erase]
        | _ => simp [Value.isText] at hx
      · have hx' : vm.isText = false := by simpa using hx
        rw [snocClone_nomerge]
        · have e1 : eraseList (K' ++ [HTree.node m vm mk]) = eraseList K' ++ [Tree.node vm (eraseList mk)] := by
            simp [eraseList_append, eraseList, erase]
          rw [eraseList_append, e1,
            snocMerge_last_nontext (eraseList K') (Tree.node vm (eraseList mk)) _ (by simpa [Tree.value] using hx')]
          simp [eraseList, erase]
        · intro K'' y hy
          have := List.append_inj_right' hy rfl
          cases this
          simpa [HTree.value] using hx'

theorem erase_snocClone_off (K : List HTree) (n : Nat) (v : Value) :
    eraseList (snocClone false K (.node n v [])) = eraseList K ++ [.node v []] := by
  rw [snocClone_off]
  simp [eraseList_append, eraseList, erase]

mutual
  theorem erase_copyInto_on (b : Bool) : ∀ (t : HTree) (K : List HTree) (n : Nat),
      validTree b t = true → t.value.isDocument = false →
      eraseList (copyInto true K n t).1 = snocMerge (eraseList K) (mergeAdjacentText (erase t))
    | .node h0 v ks, K, n, hv, hd => by
      by_cases hel : v.isElement = true
      · cases v with
        | element e =>
          have hkd : ∀ k ∈ ks, k.value.isDocument = false := by
            simp only [validTree, Bool.and_eq_true, List.all_eq_true] at hv
            intro k hk
            have := hv.1.1.1.1.1 k hk
            simpa [kidAllowed] using this
          have ih := erase_copyKids_on b ks [] (n + 2 - 1) (validTree_kids b h0 _ ks hv) hkd
          simp only [copyInto, eraseList_append, eraseList, erase, mergeAdjacentText]
          rw [snocMerge_nontext _ _ rfl]
          have : n + 2 - 1 = n + 1 := by omega
          rw [this] at ih
          rw [ih]
          rfl
        | _ => simp [Value.isElement] at hel
      · have hel' : v.isElement = false := by simpa using hel
        have hd' : v.isDocument = false := by simpa [HTree.value] using hd
        have hk := valid_leaf b h0 v ks hv hel' hd'
        subst hk
        rw [copyInto_leaf _ _ _ _ _ _ hel' hd', erase_snocClone_on]
        simp [erase, eraseList, mergeAdjacentText, mergeInto]
  theorem erase_copyKids_on (b : Bool) : ∀ (ks : List HTree) (K : List HTree) (n : Nat),
      validList b ks = true → (∀ k ∈ ks, k.value.isDocument = false) →
      eraseList (copyKids true K n ks).1 = mergeInto (eraseList K) (eraseList ks)
    | [], K, n, _, _ => by simp [copyKids, eraseList, mergeInto]
    | k :: ks, K, n, hv, hd => by
      obtain ⟨h1, h2⟩ := fc_validList_cons b k ks hv
      simp only [copyKids, eraseList, mergeInto]
      rw [erase_copyKids_on b ks _ _ h2 (fun x hx => hd x (by simp [hx])),
        erase_copyInto_on b k K n h1 (hd k (by simp))]
end

mutual
  theorem erase_copyInto_off (b : Bool) : ∀ (t : HTree) (K : List HTree) (n : Nat),
      validTree b t = true → t.value.isDocument = false →
      eraseList (copyInto false K n t).1 = eraseList K ++ [erase t]
    | .node h0 v ks, K, n, hv, hd => by
      by_cases hel : v.isElement = true
      · cases v with
        | element e =>
          have hkd : ∀ k ∈ ks, k.value.isDocument = false := by
            simp only [validTree, Bool.and_eq_true, List.all_eq_true] at hv
            intro k hk
            have := hv.1.1.1.1.1 k hk
            simpa [kidAllowed] using this
          have ih := erase_copyKids_off b ks [] (n + 1) (validTree_kids b h0 _ ks hv) hkd
          simp only [copyInto, eraseList_append, eraseList, erase]
          rw [ih]
          rfl
        | _ => simp [Value.isElement] at hel
      · have hel' : v.isElement = false := by simpa using hel
        have hd' : v.isDocument = false := by simpa [HTree.value] using hd
        have hk := valid_leaf b h0 v ks hv hel' hd'
        subst hk
        rw [copyInto_leaf _ _ _ _ _ _ hel' hd', erase_snocClone_off]
        simp [erase, eraseList]
  theorem erase_copyKids_off (b : Bool) : ∀ (ks : List HTree) (K : List HTree) (n : Nat),
      validList b ks = true → (∀ k ∈ ks, k.value.isDocument = false) →
      eraseList (copyKids false K n ks).1 = eraseList K ++ eraseList ks
    | [], K, n, _, _ => by simp [copyKids, eraseList]
    | k :: ks, K, n, hv, hd => by
      obtain ⟨h1, h2⟩ := fc_validList_cons b k ks hv
      simp only [copyKids, eraseList]
      rw [erase_copyKids_off b ks _ _ h2 (fun x hx => hd x (by simp [hx])),
        erase_copyInto_off b k K n h1 (hd k (by simp))]
      simp
end

theorem valid_kids_not_document (b : Bool) (h : Nat) (v : Value) (ks : List HTree)
    (hv : validTree b (.node h v ks) = true) : ∀ k ∈ ks, k.value.isDocument = false := by
  simp only [validTree, Bool.and_eq_true, List.all_eq_true] at hv
  intro k hk
  have := hv.1.1.1.1.1 k hk
  cases v <;> simp_all [kidAllowed]

/-- Forgetting the handles of the clone gives the expected clone of the source. -/
theorem erase_copyRoot (b cons : Bool) (n : Nat) (src : HTree) (hv : validTree b src = true) :
    erase (copyRoot cons n src).1 = expectedClone cons (erase src) := by
  cases src with
  | node h v ks =>
    have hkd := valid_kids_not_document b h v ks hv
    have hks := validTree_kids b h v ks hv
    cases cons with
    | true =>
      simp only [expectedClone, if_true]
      cases v with
      | document =>
        simp only [copyRoot, erase, mergeAdjacentText]
        rw [erase_copyKids_on b ks [] _ hks hkd]; rfl
      | element e =>
        simp only [copyRoot, erase, mergeAdjacentText]
        rw [erase_copyKids_on b ks [] _ hks hkd]; rfl
      | text s => have := valid_leaf b h _ ks hv rfl rfl; subst this; rfl
      | pi t d => have := valid_leaf b h _ ks hv rfl rfl; subst this; rfl
      | comment s => have := valid_leaf b h _ ks hv rfl rfl; subst this; rfl
      | «attribute» a s => have := valid_leaf b h _ ks hv rfl rfl; subst this; rfl
      | «namespace» p ns => have := valid_leaf b h _ ks hv rfl rfl; subst this; rfl
    | false =>
      simp only [expectedClone, Bool.false_eq_true, if_false]
      cases v with
      | document =>
        simp only [copyRoot, erase]
        rw [erase_copyKids_off b ks [] _ hks hkd]; rfl
      | element e =>
        simp only [copyRoot, erase]
        rw [erase_copyKids_off b ks [] _ hks hkd]; rfl
      | text s => have := valid_leaf b h _ ks hv rfl rfl; subst this; rfl
      | pi t d => have := valid_leaf b h _ ks hv rfl rfl; subst this; rfl
      | comment s => have := valid_leaf b h _ ks hv rfl rfl; subst this; rfl
      | «attribute» a s => have := valid_leaf b h _ ks hv rfl rfl; subst this; rfl
      | «namespace» p ns => have := valid_leaf b h _ ks hv rfl rfl; subst this; rfl

end XotModel
