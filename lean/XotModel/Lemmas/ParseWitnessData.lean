/-
  Token lists of the closed witnesses used in Props/C02, C03, C17: exactly what xmlparser 0.13.6
  returns for the quoted source texts (dumped by the `build` suite; the same texts are in the
  suite's corpus, so every witness is replayed on the implementation on every run).
-/
import XotModel.Lemmas.ParseWitness

namespace XotModel.Witness
open XotModel

/-- `</a>` (4 bytes; fragment tokenizer) -/
def strayClose : List Token :=
  [.elementEnd (.close ⟨[], 0⟩ ⟨['a'], 2⟩) ⟨['<', '/', 'a', '>'], 0⟩]
def strayCloseLen : Nat := 4

/-- `<a/></a>` (8 bytes; fragment tokenizer) -/
def emptyThenClose : List Token :=
  [.elementStart ⟨[], 0⟩ ⟨['a'], 1⟩ ⟨['<', 'a'], 0⟩,
   .elementEnd .empty ⟨['/', '>'], 2⟩,
   .elementEnd (.close ⟨[], 0⟩ ⟨['a'], 6⟩) ⟨['<', '/', 'a', '>'], 4⟩]
def emptyThenCloseLen : Nat := 8

/-- `<a xmlns:p='u' xmlns:q='u' p:x='' q:x=''/>` (42 bytes; fragment tokenizer) -/
def dupExpanded : List Token :=
  [.elementStart ⟨[], 0⟩ ⟨['a'], 1⟩ ⟨['<', 'a'], 0⟩,
   .attribute ⟨['x', 'm', 'l', 'n', 's'], 3⟩ ⟨['p'], 9⟩ ⟨['u'], 12⟩ ⟨['x', 'm', 'l', 'n', 's', ':', 'p', '=', '\'', 'u', '\''], 3⟩,
   .attribute ⟨['x', 'm', 'l', 'n', 's'], 15⟩ ⟨['q'], 21⟩ ⟨['u'], 24⟩ ⟨['x', 'm', 'l', 'n', 's', ':', 'q', '=', '\'', 'u', '\''], 15⟩,
   .attribute ⟨['p'], 27⟩ ⟨['x'], 29⟩ ⟨[], 32⟩ ⟨['p', ':', 'x', '=', '\'', '\''], 27⟩,
   .attribute ⟨['q'], 34⟩ ⟨['x'], 36⟩ ⟨[], 39⟩ ⟨['q', ':', 'x', '=', '\'', '\''], 34⟩,
   .elementEnd .empty ⟨['/', '>'], 40⟩]
def dupExpandedLen : Nat := 42

/-- `<a xmlns:p='u' xmlns:p='v'/>` (28 bytes; fragment tokenizer) -/
def prefixTwice : List Token :=
  [.elementStart ⟨[], 0⟩ ⟨['a'], 1⟩ ⟨['<', 'a'], 0⟩,
   .attribute ⟨['x', 'm', 'l', 'n', 's'], 3⟩ ⟨['p'], 9⟩ ⟨['u'], 12⟩ ⟨['x', 'm', 'l', 'n', 's', ':', 'p', '=', '\'', 'u', '\''], 3⟩,
   .attribute ⟨['x', 'm', 'l', 'n', 's'], 15⟩ ⟨['p'], 21⟩ ⟨['v'], 24⟩ ⟨['x', 'm', 'l', 'n', 's', ':', 'p', '=', '\'', 'v', '\''], 15⟩,
   .elementEnd .empty ⟨['/', '>'], 26⟩]
def prefixTwiceLen : Nat := 28

/-- `<a><![CDATA[x\r\ny]]></a>` (23 bytes; fragment tokenizer) -/
def cdataCrLf : List Token :=
  [.elementStart ⟨[], 0⟩ ⟨['a'], 1⟩ ⟨['<', 'a'], 0⟩,
   .elementEnd .open ⟨['>'], 2⟩,
   .cdata ⟨['x', '\r', '\n', 'y'], 12⟩ ⟨['<', '!', '[', 'C', 'D', 'A', 'T', 'A', '[', 'x', '\r', '\n', 'y', ']', ']', '>'], 3⟩,
   .elementEnd (.close ⟨[], 0⟩ ⟨['a'], 21⟩) ⟨['<', '/', 'a', '>'], 19⟩]
def cdataCrLfLen : Nat := 23

/-- `<a xmlns:p='x&amp;y'/>` (22 bytes; fragment tokenizer) -/
def uriRef : List Token :=
  [.elementStart ⟨[], 0⟩ ⟨['a'], 1⟩ ⟨['<', 'a'], 0⟩,
   .attribute ⟨['x', 'm', 'l', 'n', 's'], 3⟩ ⟨['p'], 9⟩ ⟨['x', '&', 'a', 'm', 'p', ';', 'y'], 12⟩ ⟨['x', 'm', 'l', 'n', 's', ':', 'p', '=', '\'', 'x', '&', 'a', 'm', 'p', ';', 'y', '\''], 3⟩,
   .elementEnd .empty ⟨['/', '>'], 20⟩]
def uriRefLen : Nat := 22

/-- `<x` (2 bytes; fragment tokenizer) -/
def truncatedTag : List Token :=
  [.elementStart ⟨[], 0⟩ ⟨['x'], 1⟩ ⟨['<', 'x'], 0⟩]
def truncatedTagLen : Nat := 2

/-- `<a xmlns:p='u' p:xmlns='v'/>` (28 bytes; fragment tokenizer) -/
def localXmlns : List Token :=
  [.elementStart ⟨[], 0⟩ ⟨['a'], 1⟩ ⟨['<', 'a'], 0⟩,
   .attribute ⟨['x', 'm', 'l', 'n', 's'], 3⟩ ⟨['p'], 9⟩ ⟨['u'], 12⟩ ⟨['x', 'm', 'l', 'n', 's', ':', 'p', '=', '\'', 'u', '\''], 3⟩,
   .attribute ⟨['p'], 15⟩ ⟨['x', 'm', 'l', 'n', 's'], 17⟩ ⟨['v'], 24⟩ ⟨['p', ':', 'x', 'm', 'l', 'n', 's', '=', '\'', 'v', '\''], 15⟩,
   .elementEnd .empty ⟨['/', '>'], 26⟩]
def localXmlnsLen : Nat := 28

/-- `<a><![CDATA[]]></a>` (19 bytes; fragment tokenizer) -/
def emptyCdata : List Token :=
  [.elementStart ⟨[], 0⟩ ⟨['a'], 1⟩ ⟨['<', 'a'], 0⟩,
   .elementEnd .open ⟨['>'], 2⟩,
   .cdata ⟨[], 12⟩ ⟨['<', '!', '[', 'C', 'D', 'A', 'T', 'A', '[', ']', ']', '>'], 3⟩,
   .elementEnd (.close ⟨[], 0⟩ ⟨['a'], 17⟩) ⟨['<', '/', 'a', '>'], 15⟩]
def emptyCdataLen : Nat := 19

/-- `<p:a xmlns:p='u' b=''><!--c--><![CDATA[t]]></p:a>` (49 bytes; fragment tokenizer) -/
def goodDoc : List Token :=
  [.elementStart ⟨['p'], 1⟩ ⟨['a'], 3⟩ ⟨['<', 'p', ':', 'a'], 0⟩,
   .attribute ⟨['x', 'm', 'l', 'n', 's'], 5⟩ ⟨['p'], 11⟩ ⟨['u'], 14⟩ ⟨['x', 'm', 'l', 'n', 's', ':', 'p', '=', '\'', 'u', '\''], 5⟩,
   .attribute ⟨[], 0⟩ ⟨['b'], 17⟩ ⟨[], 20⟩ ⟨['b', '=', '\'', '\''], 17⟩,
   .elementEnd .open ⟨['>'], 21⟩,
   .comment ⟨['c'], 26⟩ ⟨['<', '!', '-', '-', 'c', '-', '-', '>'], 22⟩,
   .cdata ⟨['t'], 39⟩ ⟨['<', '!', '[', 'C', 'D', 'A', 'T', 'A', '[', 't', ']', ']', '>'], 30⟩,
   .elementEnd (.close ⟨['p'], 45⟩ ⟨['a'], 47⟩) ⟨['<', '/', 'p', ':', 'a', '>'], 43⟩]
def goodDocLen : Nat := 49

/-- `<a/><b/>` (8 bytes; fragment tokenizer) -/
def twoRoots : List Token :=
  [.elementStart ⟨[], 0⟩ ⟨['a'], 1⟩ ⟨['<', 'a'], 0⟩,
   .elementEnd .empty ⟨['/', '>'], 2⟩,
   .elementStart ⟨[], 0⟩ ⟨['b'], 5⟩ ⟨['<', 'b'], 4⟩,
   .elementEnd .empty ⟨['/', '>'], 6⟩]
def twoRootsLen : Nat := 8

/-- `<a></b>` (7 bytes; fragment tokenizer) -/
def mismatch : List Token :=
  [.elementStart ⟨[], 0⟩ ⟨['a'], 1⟩ ⟨['<', 'a'], 0⟩,
   .elementEnd .open ⟨['>'], 2⟩,
   .elementEnd (.close ⟨[], 0⟩ ⟨['b'], 5⟩) ⟨['<', '/', 'b', '>'], 3⟩]
def mismatchLen : Nat := 7

end XotModel.Witness
