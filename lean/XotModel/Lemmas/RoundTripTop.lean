/-
  Round trip, whole documents: Lemmas B and C for `spellTop` of a `RepresentableFragment` tree the
  serialiser accepts, and the top-level shape (`AbstractTopNs`) of a `Representable` one.
-/
import XotModel.Lemmas.RoundTripIds

namespace XotModel

variable {env : Env}

theorem kids_normal_none (ks : List Tree) (h : ∀ k ∈ ks, k.value.isNormal = true) :
    kidDecls ks = [] ∧ kidAttrs ks = [] := by
  constructor
  · simp only [kidDecls, List.filterMap_eq_nil_iff]
    intro k hk
    have := h k hk
    cases hv : k.value <;> simp [hv, Value.isNormal, Value.category] at this <;> rfl
  · simp only [kidAttrs, List.filterMap_eq_nil_iff]
    intro k hk
    have := h k hk
    cases hv : k.value <;> simp [hv, Value.isNormal, Value.category] at this <;> rfl

/-- What `RepresentableFragment` and a successful serialisation give, for the tree induction. -/
structure TopFacts (env : Env) (ks : List Tree) (ts : List Token) : Prop where
  he : EnvFacts env
  hkids : ∀ k ∈ ks, k.allNodes (nodeOK env) = true
  hord : OrderedKids ks
  hnoadj : noAdjText ks = true
  hnormal : ∀ k ∈ ks, k.value.isNormal = true
  hdocs : ∀ k ∈ ks, k.value.isDocument = false
  hids : (xmlIdValues.idsList env ks).Nodup
  hser : serNode.serKids env false basePrefixes (FStack.new basePrefixes) ks = .ok ts
  hspell : spellTop env (.node .document ks) =
    spellNode.spellKids env basePrefixes (FStack.new basePrefixes) ks

theorem inScope_document (ks : List Tree) (hord : OrderedKids ks) (hnormal : ∀ k ∈ ks, k.value.isNormal = true) :
    namespacesInScopeChain [.node .document ks] = basePrefixes := by
  have h0 : (Tree.node .document ks).nsDecls = [] := by
    rw [nsDecls_eq_kidDecls _ ks hord]; exact (kids_normal_none ks hnormal).1
  simp [namespacesInScopeChain, traverseChain, traverseDecls, h0, basePrefixes]

theorem topFacts {t : Tree} (hr : RepresentableFragment env t = true) {ts : List Token}
    (h : serTokensTop env t = .ok ts) : ∃ ks, t = .node .document ks ∧ TopFacts env ks ts := by
  obtain ⟨henv, hdocv, hn, hids⟩ := (representableFragment_iff env t).mp hr
  cases t with
  | node v ks =>
    cases v <;> simp [Tree.value, Value.isDocument] at hdocv
    refine ⟨ks, rfl, ?_⟩
    have hnode : nodeOK env .document ks = true := by
      rw [allNodes_node, Bool.and_eq_true] at hn; exact hn.1
    obtain ⟨hord, hkinds, _, hnoadj, _⟩ := (nodeOK_iff env _ ks).mp hnode
    have hnormal := hkinds.2.1 rfl
    have hin := inScope_document ks hord hnormal
    rw [serTokensTop_document, hin] at h
    refine ⟨envFacts_of_envOK henv, fun k hk => allNodes_kid hn hk, hord, hnoadj, hnormal, hkinds.2.2, ?_, h, ?_⟩
    · simpa [xmlIdValues] using hids
    · simp [spellTop, spellAt, Tree.at?, namespacesInScope, Tree.ancestorsOrSelf, hin, spellNode]

theorem mapM_node_of_normal : ∀ (items : List NItem), items.filterMap NItem.decl? = [] →
    items.filterMap NItem.attr? = [] → items.mapM NItem.node? = some (items.filterMap NItem.node?)
  | [], _, _ => rfl
  | .decl d :: items, h, _ => by simp [NItem.decl?] at h
  | .attr a :: items, _, h => by simp [NItem.attr?] at h
  | .node d :: items, h1, h2 => by
    have ih := mapM_node_of_normal items (by simpa [NItem.decl?] using h1) (by simpa [NItem.attr?] using h2)
    simp [List.mapM_cons, ih, NItem.node?]

/-- **Lemma B** for a whole document or fragment: what the spelling denotes in the base scope is what
    the tree reads back as. -/
theorem spellTop_denote {ks : List Tree} {ts : List Token} (hf : TopFacts env ks ts) :
    decodeNs env ks = some (NSNode.denote.denoteList baseScope (spellTop env (.node .document ks))) ∧
      ∃ items, decodeNsTree.decodeItems env ks = some items ∧
        NSNode.denote.denoteList baseScope (spellTop env (.node .document ks)) = items.filterMap NItem.node? ∧
        items.filterMap NItem.attr? = [] := by
  obtain ⟨items, h1, h2, h3, h4⟩ := spellKids_denote hf.he basePrefixes ks _ _ _ (ScopeRel.base hf.he)
    hf.hkids hf.hdocs ts hf.hser
  obtain ⟨k1, k2⟩ := kids_normal_none ks hf.hnormal
  rw [k1] at h2
  rw [k2] at h3
  refine ⟨?_, items, h1, by rw [hf.hspell, h4], h3⟩
  unfold decodeNs
  rw [h1, hf.hspell, h4]
  exact mapM_node_of_normal items h2 h3

/-- **Lemma C** for a whole document or fragment. -/
theorem spellTop_well {ks : List Tree} {ts : List Token} (hf : TopFacts env ks ts) :
    WellNsDoc (spellTop env (.node .document ks)) := by
  have hrel := ScopeRel.base hf.he
  refine ⟨?_, ?_, ?_⟩
  · rw [hf.hspell]
    exact spellKids_well hf.he basePrefixes ks _ _ _ hrel hf.hkids hf.hdocs ts hf.hser
  · rw [hf.hspell]
    exact spellKids_noAdj basePrefixes _ ks hf.hkids hf.hdocs hf.hord hf.hnoadj
  · obtain ⟨_, items, h1, h2, h3⟩ := spellTop_denote hf
    rw [h2]
    have hv := serKids_nsInterned hf.he basePrefixes ks _ _ _ hrel hf.hkids ts hf.hser
    have hperm := decode_ids_kids hf.he ks items h1 hv (by
      rw [(kids_normal_none ks hf.hnormal).2]; intro a ha; cases ha)
    have hsplit := ids_split items
    rw [h3] at hsplit
    simp only [attrIds, List.filter_nil, List.map_nil, List.nil_append] at hsplit
    exact (hsplit.trans hperm).nodup_iff.mpr hf.hids

/-! ### Top-level shape -/

theorem decode_kind {k : Tree} {d : NPNode} (h : decodeNsTree env k = some (.node d)) :
    d.isElem = k.value.isElement ∧ d.isText = k.value.isText := by
  cases k with
  | node v kk =>
    cases v with
    | document => simp [decodeNsTree] at h
    | «attribute» a b => cases kk <;> simp [decodeNsTree] at h
    | «namespace» a b => cases kk <;> simp [decodeNsTree] at h
    | text str =>
      cases kk <;> simp [decodeNsTree] at h
      subst h; exact ⟨rfl, rfl⟩
    | comment str =>
      cases kk <;> simp [decodeNsTree] at h
      subst h; exact ⟨rfl, rfl⟩
    | pi target data =>
      cases kk <;> simp [decodeNsTree] at h
      subst h; exact ⟨rfl, rfl⟩
    | element name =>
      simp only [decodeNsTree] at h
      cases hitems : decodeNsTree.decodeItems env kk with
      | none => simp [hitems] at h
      | some items =>
        simp only [hitems, Option.some.injEq, NItem.node.injEq] at h
        subst h; exact ⟨rfl, rfl⟩

theorem decodeItems_top : ∀ (ks : List Tree) (items : List NItem),
    decodeNsTree.decodeItems env ks = some items → items.filterMap NItem.decl? = [] →
    items.filterMap NItem.attr? = [] →
    ((items.filterMap NItem.node?).filter NPNode.isElem).length =
        (ks.filter (fun k => k.value.isElement)).length ∧
      ((∀ k ∈ ks, k.value.isText = false) → ∀ d ∈ items.filterMap NItem.node?, d.isText = false)
  | [], items, h, _, _ => by
    simp only [decodeNsTree.decodeItems, Option.some.injEq] at h
    subst h
    exact ⟨rfl, fun _ d hd => by cases hd⟩
  | k :: ks, items, h, h1, h2 => by
    obtain ⟨a, as, hk, hks, rfl⟩ := decodeItems_cons_some h
    cases a with
    | decl d => simp [NItem.decl?] at h1
    | attr x => simp [NItem.attr?] at h2
    | node d =>
      obtain ⟨i1, i2⟩ := decodeItems_top ks as hks (by simpa [NItem.decl?] using h1)
        (by simpa [NItem.attr?] using h2)
      obtain ⟨e1, e2⟩ := decode_kind hk
      constructor
      · simp only [List.filterMap_cons, NItem.node?, List.filter_cons, e1]
        split <;> simp [i1]
      · intro hall x hx
        simp only [List.filterMap_cons, NItem.node?, List.mem_cons] at hx
        rcases hx with rfl | hx
        · rw [e2]; exact hall k (by simp)
        · exact i2 (fun k' hk' => hall k' (by simp [hk'])) x hx

/-- Document mode: the abstract document has exactly one top-level element and no top-level text. -/
theorem spellTop_abstractTop {ks : List Tree} {ts : List Token} (hf : TopFacts env ks ts)
    (hsingle : singleRoot (.node .document ks) = true) :
    AbstractTopNs (NSNode.denote.denoteList baseScope (spellTop env (.node .document ks))) := by
  obtain ⟨_, items, h1, h2, h3⟩ := spellTop_denote hf
  have hd : items.filterMap NItem.decl? = [] := by
    obtain ⟨items', h1', h2', _, _⟩ := spellKids_denote hf.he basePrefixes ks _ _ _ (ScopeRel.base hf.he)
      hf.hkids hf.hdocs ts hf.hser
    rw [h1] at h1'
    cases h1'
    rw [h2', (kids_normal_none ks hf.hnormal).1]; rfl
  obtain ⟨t1, t2⟩ := decodeItems_top ks items h1 hd h3
  simp only [singleRoot, Tree.kids, Bool.and_eq_true, beq_iff_eq, List.all_eq_true, Bool.not_eq_true'] at hsingle
  rw [h2]
  exact ⟨t1.trans hsingle.1, t2 hsingle.2⟩

end XotModel
