/-
  FparseVals, part 1: VALUE PROVENANCE for the forest primitives.

  `Forest.fpvQF Q f`: every node of every tree of `f` has a value satisfying `Q`.  The primitives of
  Model/Forest.lean move, drop or re-attach whole subtrees, create a node with a given value or overwrite
  one value: `fpvQF Q` is kept, given `Q` of the value handed in.  No invariant is needed.  (Same shape as
  the handle containment lemmas of Lemmas/FinvMono.lean.)  Used for `Q = valueOK env` (Props/C01.lean,
  `C01_edited_values`): the values of an edited tree are in the XML domain when the values handed to the
  API are.
-/
import XotModel.Lemmas.FinvMono2

namespace XotModel
open HTree

namespace HTree

mutual
  /-- The values of all nodes, in document order. -/
  def fpvVals : HTree → List Value
    | .node _ v ks => v :: fpvValsList ks
  def fpvValsList : List HTree → List Value
    | [] => []
    | k :: ks => fpvVals k ++ fpvValsList ks
end

/-- Every node of the tree has a value satisfying `Q`. -/
def fpvQT (Q : Value → Prop) (t : HTree) : Prop := ∀ v ∈ fpvVals t, Q v
/-- … of the trees of the list. -/
def fpvQL (Q : Value → Prop) (ks : List HTree) : Prop := ∀ v ∈ fpvValsList ks, Q v

end HTree

variable {Q : Value → Prop}

theorem fpv_QL_nil : fpvQL Q [] := fun _ h => by simp [fpvValsList] at h

theorem fpv_QL_cons {k : HTree} {ks : List HTree} : fpvQL Q (k :: ks) ↔ fpvQT Q k ∧ fpvQL Q ks := by
  unfold fpvQL fpvQT
  simp only [fpvValsList, List.mem_append]
  exact ⟨fun h => ⟨fun v hv => h v (Or.inl hv), fun v hv => h v (Or.inr hv)⟩,
    fun h v hv => hv.elim (h.1 v) (h.2 v)⟩

theorem fpv_QT_node {h : Nat} {v : Value} {ks : List HTree} : fpvQT Q (.node h v ks) ↔ Q v ∧ fpvQL Q ks := by
  unfold fpvQL fpvQT
  simp only [fpvVals, List.mem_cons]
  exact ⟨fun hh => ⟨hh v (Or.inl rfl), fun w hw => hh w (Or.inr hw)⟩,
    fun hh w hw => hw.elim (fun e => e ▸ hh.1) (hh.2 w)⟩

theorem fpv_QL_append {a b : List HTree} : fpvQL Q (a ++ b) ↔ fpvQL Q a ∧ fpvQL Q b := by
  induction a with
  | nil => simp [fpv_QL_nil]
  | cons k ks ih => rw [List.cons_append, fpv_QL_cons, fpv_QL_cons, ih, and_assoc]

theorem fpv_QL_iff {ks : List HTree} : fpvQL Q ks ↔ ∀ k ∈ ks, fpvQT Q k := by
  induction ks with
  | nil => simp [fpv_QL_nil]
  | cons k ks ih => rw [fpv_QL_cons, ih]; simp

theorem fpv_QL_mem {ks : List HTree} (h : fpvQL Q ks) {k : HTree} (hk : k ∈ ks) : fpvQT Q k := fpv_QL_iff.mp h k hk

theorem fpv_QL_single {k : HTree} : fpvQL Q [k] ↔ fpvQT Q k := by rw [fpv_QL_cons]; simp [fpv_QL_nil]

theorem fpv_QT_value {t : HTree} (h : fpvQT Q t) : Q t.value := by
  cases t with | node hh v ks => exact (fpv_QT_node.mp h).1

theorem fpv_QT_kids {t : HTree} (h : fpvQT Q t) : fpvQL Q t.kids := by
  cases t with | node hh v ks => exact (fpv_QT_node.mp h).2

theorem fpv_QT_eq {t : HTree} : fpvQT Q t ↔ Q t.value ∧ fpvQL Q t.kids := by
  cases t with | node hh v ks => exact fpv_QT_node

theorem fpv_QL_filter {ks : List HTree} (h : fpvQL Q ks) (p : HTree → Bool) : fpvQL Q (ks.filter p) :=
  fpv_QL_iff.mpr fun k hk => fpv_QL_mem h (List.mem_filter.mp hk).1

theorem fpv_QL_sublist {a b : List HTree} (hs : ∀ k ∈ a, k ∈ b) (h : fpvQL Q b) : fpvQL Q a :=
  fpv_QL_iff.mpr fun k hk => fpv_QL_mem h (hs k hk)

theorem fpv_QT_setValue {t : HTree} (h : fpvQT Q t) {v : Value} (hv : Q v) : fpvQT Q (t.setValue v) := by
  cases t with | node hh w ks => exact fpv_QT_node.mpr ⟨hv, (fpv_QT_node.mp h).2⟩

theorem fpv_QT_setKids {t : HTree} (h : fpvQT Q t) {ks : List HTree} (hk : fpvQL Q ks) : fpvQT Q (t.setKids ks) := by
  cases t with | node hh w kk => exact fpv_QT_node.mpr ⟨(fpv_QT_node.mp h).1, hk⟩

/-! ### The tree edits -/

mutual
  theorem fpv_replaceBelow (h : Nat) (g : HTree → List HTree) (hg : ∀ k, fpvQT Q k → fpvQL Q (g k)) :
      ∀ t : HTree, fpvQT Q t → fpvQT Q (replaceBelow h g t)
    | .node h' v ks => by
      intro ht
      rw [replaceBelow]
      exact fpv_QT_node.mpr ⟨(fpv_QT_node.mp ht).1, fpv_replaceKids h g hg ks (fpv_QT_node.mp ht).2⟩
  theorem fpv_replaceKids (h : Nat) (g : HTree → List HTree) (hg : ∀ k, fpvQT Q k → fpvQL Q (g k)) :
      ∀ ks : List HTree, fpvQL Q ks → fpvQL Q (replaceKids h g ks)
    | [] => by intro _; simp [replaceKids, fpv_QL_nil]
    | k :: ks => by
      intro hk
      rw [replaceKids_cons]
      obtain ⟨h1, h2⟩ := fpv_QL_cons.mp hk
      split
      · exact fpv_QL_append.mpr ⟨hg k h1, h2⟩
      · exact fpv_QL_cons.mpr ⟨fpv_replaceBelow h g hg k h1, fpv_replaceKids h g hg ks h2⟩
end

mutual
  theorem fpv_mapAt (h : Nat) (g : HTree → HTree) (hg : ∀ k, fpvQT Q k → fpvQT Q (g k)) :
      ∀ t : HTree, fpvQT Q t → fpvQT Q (mapAt h g t)
    | .node h' v ks => by
      intro ht
      rw [mapAt]
      split
      · exact hg _ ht
      · exact fpv_QT_node.mpr ⟨(fpv_QT_node.mp ht).1, fpv_mapAtList h g hg ks (fpv_QT_node.mp ht).2⟩
  theorem fpv_mapAtList (h : Nat) (g : HTree → HTree) (hg : ∀ k, fpvQT Q k → fpvQT Q (g k)) :
      ∀ ks : List HTree, fpvQL Q ks → fpvQL Q (mapAtList h g ks)
    | [] => by intro _; simp [mapAtList, fpv_QL_nil]
    | k :: ks => by
      intro hk
      rw [mapAtList]
      obtain ⟨h1, h2⟩ := fpv_QL_cons.mp hk
      exact fpv_QL_cons.mpr ⟨fpv_mapAt h g hg k h1, fpv_mapAtList h g hg ks h2⟩
end

theorem fpv_map_replaceBelow (h : Nat) (g : HTree → List HTree) (hg : ∀ k, fpvQT Q k → fpvQL Q (g k))
    {ks : List HTree} (hk : fpvQL Q ks) : fpvQL Q (ks.map (replaceBelow h g)) :=
  fpv_QL_iff.mpr fun k hm => by
    obtain ⟨k0, hk0, rfl⟩ := List.mem_map.mp hm
    exact fpv_replaceBelow h g hg k0 (fpv_QL_mem hk hk0)

theorem fpv_map_mapAt (h : Nat) (g : HTree → HTree) (hg : ∀ k, fpvQT Q k → fpvQT Q (g k))
    {ks : List HTree} (hk : fpvQL Q ks) : fpvQL Q (ks.map (mapAt h g)) :=
  fpv_QL_iff.mpr fun k hm => by
    obtain ⟨k0, hk0, rfl⟩ := List.mem_map.mp hm
    exact fpv_mapAt h g hg k0 (fpv_QL_mem hk hk0)

mutual
  theorem fpv_find? (h : Nat) : ∀ t s : HTree, find? h t = some s → fpvQT Q t → fpvQT Q s
    | .node h' v ks, s => by
      intro hf ht
      rw [find?] at hf
      split at hf
      · cases hf; exact ht
      · exact fpv_findList? h ks s hf (fpv_QT_node.mp ht).2
  theorem fpv_findList? (h : Nat) : ∀ (ks : List HTree) (s : HTree), findList? h ks = some s → fpvQL Q ks → fpvQT Q s
    | [], s => by intro hf; simp [findList?] at hf
    | k :: ks, s => by
      intro hf hk
      rw [fi_findList?_cons] at hf
      obtain ⟨h1, h2⟩ := fpv_QL_cons.mp hk
      cases hk' : find? h k with
      | some t' =>
        rw [hk'] at hf; simp only [Option.some_or, Option.some.injEq] at hf
        subst hf
        exact fpv_find? h k t' hk' h1
      | none =>
        rw [hk'] at hf; simp only [Option.none_or] at hf
        exact fpv_findList? h ks s hf h2
end

namespace Forest

/-- Every node of the forest has a value satisfying `Q`. -/
def fpvQF (Q : Value → Prop) (f : Forest) : Prop := fpvQL Q f.roots

theorem fpv_get? {f : Forest} (hq : fpvQF Q f) {h : Nat} {t : HTree} (hg : f.get? h = some t) : fpvQT Q t :=
  fpv_findList? h f.roots t hg hq

theorem fpv_value? {f : Forest} (hq : fpvQF Q f) {h : Nat} {v : Value} (hv : f.value? h = some v) : Q v := by
  unfold value? at hv
  cases hg : f.get? h with
  | none => rw [hg] at hv; cases hv
  | some t =>
    rw [hg] at hv
    simp only [Option.map_some, Option.some.injEq] at hv
    rw [← hv]; exact fpv_QT_value (fpv_get? hq hg)

theorem fpv_textOf {f : Forest} (hq : fpvQF Q f) {h : Nat} {s : Str} (ht : f.textOf h = some s) : Q (.text s) := by
  unfold textOf at ht
  cases hv : f.value? h with
  | none => rw [hv] at ht; cases ht
  | some v =>
    rw [hv] at ht
    cases v <;> simp at ht
    subst ht
    exact fpv_value? hq hv

/-- Flags and the counter do not matter. -/
theorem fpv_QF_roots {f g : Forest} (h : g.roots = f.roots) : fpvQF Q g ↔ fpvQF Q f := by
  unfold fpvQF; rw [h]

/-! ### The primitives -/

theorem fpv_newNode {f : Forest} (hq : fpvQF Q f) {v : Value} (hv : Q v) : fpvQF Q (f.newNode v).1 := by
  show fpvQL Q (f.roots ++ [.node f.next v []])
  exact fpv_QL_append.mpr ⟨hq, fpv_QL_single.mpr (fpv_QT_node.mpr ⟨hv, fpv_QL_nil⟩)⟩

theorem fpv_setValue {f : Forest} (hq : fpvQF Q f) (h : Nat) {v : Value} (hv : Q v) : fpvQF Q (f.setValue h v) :=
  fpv_map_mapAt h _ (fun _ hk => fpv_QT_setValue hk hv) hq

theorem fpv_cut {f : Forest} (hq : fpvQF Q f) (h : Nat) :
    fpvQF Q (f.cut h).1 ∧ ∀ t, (f.cut h).2 = some t → fpvQT Q t := by
  unfold cut
  cases hg : f.get? h with
  | none => exact ⟨hq, fun t ht => by cases ht⟩
  | some t =>
    simp only
    refine ⟨?_, ?_⟩
    · split
      · exact fpv_QL_filter hq _
      · exact fpv_map_replaceBelow h _ (fun _ _ => fpv_QL_nil) hq
    · intro t' ht'
      have : t' = t := by split at ht' <;> (cases ht'; rfl)
      subst this
      exact fpv_get? hq hg

theorem fpv_dropSubtree {f : Forest} (hq : fpvQF Q f) (h : Nat) : fpvQF Q (f.dropSubtree h) := (fpv_cut hq h).1

theorem fpv_addRoot {f : Forest} (hq : fpvQF Q f) {t : HTree} (ht : fpvQT Q t) : fpvQF Q (f.addRoot t) :=
  fpv_QL_append.mpr ⟨hq, fpv_QL_single.mpr ht⟩

theorem fpv_detachRaw {f : Forest} (hq : fpvQF Q f) (h : Nat) : fpvQF Q (f.detachRaw h) := by
  unfold detachRaw
  have := fpv_cut hq h
  cases hc : f.cut h with
  | mk f' o =>
    rw [hc] at this
    cases o with
    | none => exact this.1
    | some t => exact fpv_addRoot this.1 (this.2 t rfl)

theorem fpv_spliceOut {f : Forest} (hq : fpvQF Q f) (h : Nat) : fpvQF Q (f.spliceOut h) := by
  unfold spliceOut
  cases hg : f.get? h with
  | none => exact hq
  | some t =>
    simp only
    have hk : fpvQL Q t.kids := fpv_QT_kids (fpv_get? hq hg)
    have key : fpvQL Q (f.roots.filter (fun r => r.handle != h) ++ t.kids) :=
      fpv_QL_append.mpr ⟨fpv_QL_filter hq _, hk⟩
    split
    · split
      · exact key
      · exact key
    · exact fpv_map_replaceBelow h _ (fun _ hk' => fpv_QT_kids hk') hq

theorem fpv_place {f : Forest} (hq : fpvQF Q f) {t : HTree} (ht : fpvQT Q t) (ref : Nat) :
    fpvQF Q (f.placeAfter ref t) ∧ fpvQF Q (f.placeBefore ref t) ∧ fpvQF Q (f.placeLast ref t) ∧
      fpvQF Q (f.placeFirst ref t) := by
  refine ⟨?_, ?_, ?_, ?_⟩
  · exact fpv_map_replaceBelow ref _ (fun k hk => fpv_QL_cons.mpr ⟨hk, fpv_QL_single.mpr ht⟩) hq
  · exact fpv_map_replaceBelow ref _ (fun k hk => fpv_QL_cons.mpr ⟨ht, fpv_QL_single.mpr hk⟩) hq
  · exact fpv_map_mapAt ref _ (fun k hk => fpv_QT_setKids hk
      (fpv_QL_append.mpr ⟨fpv_QT_kids hk, fpv_QL_single.mpr ht⟩)) hq
  · exact fpv_map_mapAt ref _ (fun k hk => fpv_QT_setKids hk (fpv_QL_cons.mpr ⟨ht, fpv_QT_kids hk⟩)) hq

theorem fpv_corrupt {f : Forest} (hq : fpvQF Q f) : fpvQF Q { f with corrupt := true } := hq

/-- Cut, then place: the four indextree `checked_*` calls. -/
theorem fpv_checked {f : Forest} (hq : fpvQF Q f) (a b : Nat) :
    fpvQF Q (f.checkedAppend a b).1 ∧ fpvQF Q (f.checkedPrepend a b).1 ∧
    fpvQF Q (f.checkedInsertAfter a b).1 ∧ fpvQF Q (f.checkedInsertBefore a b).1 := by
  have hc := fpv_cut hq b
  have key : ∀ ref, (match f.cut b with
      | (f', some t) => fpvQF Q (f'.placeAfter ref t) ∧ fpvQF Q (f'.placeBefore ref t) ∧
          fpvQF Q (f'.placeLast ref t) ∧ fpvQF Q (f'.placeFirst ref t)
      | (f', none) => fpvQF Q { f' with corrupt := true }) := by
    intro ref
    cases hcut : f.cut b with
    | mk f' o =>
      rw [hcut] at hc
      cases o with
      | none => exact hc.1
      | some t => exact fpv_place hc.1 (hc.2 t rfl) ref
  refine ⟨?_, ?_, ?_, ?_⟩
  · unfold checkedAppend
    split
    · exact hq
    · have := key a
      cases hcut : f.cut b with
      | mk f' o => rw [hcut] at this; cases o with
        | none => exact this
        | some t => exact this.2.2.1
  · unfold checkedPrepend
    split
    · exact hq
    · have := key a
      cases hcut : f.cut b with
      | mk f' o => rw [hcut] at this; cases o with
        | none => exact this
        | some t => exact this.2.2.2
  · unfold checkedInsertAfter
    split
    · exact hq
    · split
      · exact hq
      · have := key a
        cases hcut : f.cut b with
        | mk f' o => rw [hcut] at this; cases o with
          | none => exact this
          | some t => exact this.1
  · unfold checkedInsertBefore
    split
    · exact hq
    · split
      · exact hq
      · have := key a
        cases hcut : f.cut b with
        | mk f' o => rw [hcut] at this; cases o with
          | none => exact this
          | some t => exact this.2.1

end Forest
end XotModel
