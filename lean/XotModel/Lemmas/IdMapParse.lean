/-
  C08 and parsing, part 1: THE BRIDGE between the two models of `IdMap::get_id_mut`.

  `Model/IdMap.lean` has the interning table as the code has it (vector + hash map, the id cut to
  the id width); the parser model (`Model/ParseTypes.lean`) threads the bare `by_id` lists and
  interns with `internIn` (no width).  Under the table invariant (`IdMap.Inv`) both leave the same
  `by_id` vector, at every size, and return the same id as long as the table reached has at most
  `2^bits` entries.  Lifted to single calls (`Reg`) and sequences of calls on the three tables.
-/
import XotModel.Model.IdMapParse
import XotModel.Lemmas.IdMap
import XotModel.Lemmas.CompareNames
import XotModel.Lemmas.ParseScope
namespace XotModel
namespace IdParse

theorem beq_inst_eq {α : Type} (i1 i2 : BEq α) [h1 : @LawfulBEq α i1] [h2 : @LawfulBEq α i2] : i1 = i2 := by
  cases i1 with | mk f1 => cases i2 with | mk f2 =>
  congr
  funext a b
  by_cases h : a = b
  · subst h
    have e1 : f1 a a = true := @BEq.rfl α ⟨f1⟩ (@LawfulBEq.toReflBEq α ⟨f1⟩ h1) a
    have e2 : f2 a a = true := @BEq.rfl α ⟨f2⟩ (@LawfulBEq.toReflBEq α ⟨f2⟩ h2) a
    rw [e1, e2]
  · have e1 : f1 a b = false := by
      cases hh : f1 a b with
      | false => rfl
      | true => exact absurd (@LawfulBEq.eq_of_beq α ⟨f1⟩ h1 a b hh) h
    have e2 : f2 a b = false := by
      cases hh : f2 a b with
      | false => rfl
      | true => exact absurd (@LawfulBEq.eq_of_beq α ⟨f2⟩ h2 a b hh) h
    rw [e1, e2]

/-- `internIn` does not depend on which (lawful) equality test is used. -/
theorem internIn_inst {α : Type} (i1 i2 : BEq α) [@LawfulBEq α i1] [@LawfulBEq α i2] (l : List α) (v : α) :
    @internIn α i1 l v = @internIn α i2 l v := by
  rw [beq_inst_eq i1 i2]

variable {α : Type} [DecidableEq α]
open IdMap

/-- THE BRIDGE, table: `get_id_mut` of the interner (hash map + vector, id cut to `bits`) leaves the
    `by_id` vector that `internIn` of the parser model leaves — at every size. -/
theorem getIdMut_byId {bits : Nat} {m : IdMap α} (h : Inv bits m) (v : α) :
    (getIdMut bits m v).1.byId = (internIn m.byId v).1 := by
  by_cases hv : v ∈ m.byId
  · rw [getIdMut_of_mem h hv, internIn_of_mem hv]
  · rw [getIdMut_of_not_mem h hv]
    unfold internIn
    simp [hv]

/-- THE BRIDGE, id: the ids agree as long as the table reached has at most `2^bits` entries. -/
theorem getIdMut_id_eq {bits : Nat} {m : IdMap α} (h : Inv bits m) (v : α)
    (hb : (internIn m.byId v).1.length ≤ 2 ^ bits) : (getIdMut bits m v).2 = (internIn m.byId v).2 := by
  by_cases hv : v ∈ m.byId
  · rw [getIdMut_of_mem h hv, internIn_of_mem hv]
    rw [internIn_of_mem hv] at hb
    exact toId_of_lt (Nat.lt_of_lt_of_le (List.idxOf_lt_length_of_mem hv) hb)
  · rw [getIdMut_of_not_mem h hv]
    have e : (internIn m.byId v) = (m.byId ++ [v], m.byId.length) := by
      unfold internIn; simp [hv, List.idxOf_eq_length hv]
    rw [e] at hb ⊢
    simp at hb
    exact toId_of_lt (by omega)

/-! ### The three tables -/

theorem internIn_str (l : List Str) (v : Str) :
    internIn l v = @internIn Str instBEqOfDecidableEq l v := internIn_inst _ instBEqOfDecidableEq l v

theorem internIn_key (l : List NameKey) (v : NameKey) :
    internIn l v = @internIn NameKey instBEqOfDecidableEq l v := internIn_inst _ instBEqOfDecidableEq l v

end IdParse

open IdParse IdMap Gen

/-- No table has outgrown its id type: at most `2^bits` entries each (`bits` = the width read off
    the source, 32 today), so that `index as uN` loses nothing. -/
structure Env.Cap (e : Env) : Prop where
  namespaces : e.namespaces.length ≤ 2 ^ namespaceIdBits
  prefixes : e.prefixes.length ≤ 2 ^ prefixIdBits
  names : e.names.length ≤ 2 ^ nameIdBits

/-- Every table of `e'` starts with the table of `e`: every id of `e` is an id of `e'` with the
    same value. -/
structure Env.PrefixOf (e e' : Env) : Prop where
  namespaces : e.namespaces <+: e'.namespaces
  prefixes : e.prefixes <+: e'.prefixes
  names : e.names <+: e'.names

theorem Env.PrefixOf.refl (e : Env) : e.PrefixOf e := ⟨List.prefix_rfl, List.prefix_rfl, List.prefix_rfl⟩

theorem Env.PrefixOf.trans {a b c : Env} (h1 : a.PrefixOf b) (h2 : b.PrefixOf c) : a.PrefixOf c :=
  ⟨h1.namespaces.trans h2.namespaces, h1.prefixes.trans h2.prefixes, h1.names.trans h2.names⟩

theorem Env.Cap.of_prefix {e e' : Env} (h : e.PrefixOf e') (hc : e'.Cap) : e.Cap :=
  ⟨Nat.le_trans h.namespaces.length_le hc.namespaces, Nat.le_trans h.prefixes.length_le hc.prefixes,
   Nat.le_trans h.names.length_le hc.names⟩

namespace IdParse

theorem internIn_prefix {α : Type} [BEq α] (l : List α) (v : α) : l <+: (internIn l v).1 := by
  obtain ⟨ext, h⟩ := internIn_ext l v
  rw [h]; exact List.prefix_append l ext

theorem internIn_length_le_succ {α : Type} [BEq α] (l : List α) (v : α) :
    (internIn l v).1.length ≤ l.length + 1 := by
  unfold internIn
  split <;> simp

theorem prefix_get {α : Type} {l l' : List α} (h : l <+: l') {i : Nat} {x : α} (hx : l[i]? = some x) :
    l'[i]? = some x := by
  obtain ⟨t, rfl⟩ := h
  exact getElem?_ext hx

end IdParse

theorem Env.reg_prefixOf (e : Env) (r : Reg) : e.PrefixOf (e.reg r).1 := by
  cases r with
  | pfx p => exact ⟨List.prefix_rfl, internIn_prefix _ _, List.prefix_rfl⟩
  | ns u => exact ⟨internIn_prefix _ _, List.prefix_rfl, List.prefix_rfl⟩
  | name l n => exact ⟨List.prefix_rfl, List.prefix_rfl, internIn_prefix _ _⟩

theorem Env.regAll_prefixOf (rs : List Reg) : ∀ (e : Env), e.PrefixOf (e.regAll rs).1 := by
  induction rs with
  | nil => intro e; exact Env.PrefixOf.refl e
  | cons r rs ih => intro e; exact (e.reg_prefixOf r).trans (ih _)

theorem Env.regAll_append (a b : List Reg) : ∀ (e : Env),
    e.regAll (a ++ b) = (((e.regAll a).1.regAll b).1, (e.regAll a).2 ++ ((e.regAll a).1.regAll b).2) := by
  induction a with
  | nil => intro e; rfl
  | cons r rs ih => intro e; simp only [List.cons_append, Env.regAll, ih]

theorem Env.regAll_length (rs : List Reg) : ∀ (e : Env), (e.regAll rs).2.length = rs.length := by
  induction rs with
  | nil => intro e; rfl
  | cons r rs ih => intro e; simp [Env.regAll, ih]

theorem Interner.regAll_append (a b : List Reg) : ∀ (x : Interner),
    x.regAll (a ++ b) = (((x.regAll a).1.regAll b).1, (x.regAll a).2 ++ ((x.regAll a).1.regAll b).2) := by
  induction a with
  | nil => intro x; rfl
  | cons r rs ih => intro x; simp only [List.cons_append, Interner.regAll, ih]

/-! ### One call: interner vs. plain tables -/

theorem Interner.env_eq_ofInterner (x : Interner) : x.env = Env.ofInterner x := rfl

theorem Interner.reg_inv {x : Interner} (h : x.Inv) (r : Reg) : (x.reg r).1.Inv := by
  cases r with
  | pfx p => exact Interner.inv_addPrefix h p
  | ns u => exact Interner.inv_addNamespace h u
  | name l n => exact Interner.inv_addNameNs h l n

/-- THE BRIDGE for one call, tables: whatever the sizes. -/
theorem Interner.reg_env {x : Interner} (h : x.Inv) (r : Reg) : (x.reg r).1.env = (x.env.reg r).1 := by
  cases r with
  | pfx p =>
    simp only [Interner.reg, Interner.addPrefix, Interner.env, Env.reg, Env.internPrefix]
    rw [getIdMut_byId h.pf, internIn_str]
  | ns u =>
    simp only [Interner.reg, Interner.addNamespace, Interner.env, Env.reg, Env.internNamespace]
    rw [getIdMut_byId h.ns, internIn_str]
  | name l n =>
    simp only [Interner.reg, Interner.addNameNs, Interner.env, Env.reg, Env.internName]
    rw [getIdMut_byId h.nm, internIn_key]

/-- THE BRIDGE for one call, id: the same id as long as the table reached is within capacity. -/
theorem Interner.reg_id {x : Interner} (h : x.Inv) (r : Reg) (hc : (x.env.reg r).1.Cap) :
    (x.reg r).2 = (x.env.reg r).2 := by
  cases r with
  | pfx p =>
    have hb := hc.prefixes
    simp only [Env.reg, Env.internPrefix, Interner.env, internIn_str] at hb
    simp only [Interner.reg, Interner.addPrefix, Interner.env, Env.reg, Env.internPrefix, internIn_str]
    exact getIdMut_id_eq h.pf p hb
  | ns u =>
    have hb := hc.namespaces
    simp only [Env.reg, Env.internNamespace, Interner.env, internIn_str] at hb
    simp only [Interner.reg, Interner.addNamespace, Interner.env, Env.reg, Env.internNamespace, internIn_str]
    exact getIdMut_id_eq h.ns u hb
  | name l n =>
    have hb := hc.names
    simp only [Env.reg, Env.internName, Interner.env, internIn_key] at hb
    simp only [Interner.reg, Interner.addNameNs, Interner.env, Env.reg, Env.internName, internIn_key]
    exact getIdMut_id_eq h.nm (l, n) hb

/-- … in particular while the table is below `2^bits` before the call. -/
theorem Interner.addPrefix_id {x : Interner} (h : x.Inv) (p : Str)
    (hb : x.prefixLookup.byId.length < 2 ^ prefixIdBits) : (x.addPrefix p).2 = (x.env.internPrefix p).2 := by
  show (getIdMut prefixIdBits x.prefixLookup p).2 = (internIn x.prefixLookup.byId p).2
  rw [internIn_str]
  apply getIdMut_id_eq h.pf
  have := @internIn_length_le_succ Str instBEqOfDecidableEq x.prefixLookup.byId p
  omega

theorem Interner.addNamespace_id {x : Interner} (h : x.Inv) (u : Str)
    (hb : x.namespaceLookup.byId.length < 2 ^ namespaceIdBits) :
    (x.addNamespace u).2 = (x.env.internNamespace u).2 := by
  show (getIdMut namespaceIdBits x.namespaceLookup u).2 = (internIn x.namespaceLookup.byId u).2
  rw [internIn_str]
  apply getIdMut_id_eq h.ns
  have := @internIn_length_le_succ Str instBEqOfDecidableEq x.namespaceLookup.byId u
  omega

theorem Interner.addNameNs_id {x : Interner} (h : x.Inv) (l : Str) (n : Nat)
    (hb : x.nameLookup.byId.length < 2 ^ nameIdBits) : (x.addNameNs l n).2 = (x.env.internName l n).2 := by
  show (getIdMut nameIdBits x.nameLookup (l, n)).2 = (internIn x.nameLookup.byId (l, n)).2
  rw [internIn_key]
  apply getIdMut_id_eq h.nm
  have := @internIn_length_le_succ NameKey instBEqOfDecidableEq x.nameLookup.byId (l, n)
  omega

/-- The read-only lookup finds what `get_id_mut` just returned. -/
theorem IdMap.getId_getIdMut_self {α : Type} [DecidableEq α] {bits : Nat} {m : IdMap α} (h : IdMap.Inv bits m)
    (v : α) : getId (getIdMut bits m v).1 v = some (getIdMut bits m v).2 := by
  have hi := getIdMut_inv h v
  obtain ⟨h1, h2⟩ := getIdMut_id h v
  unfold getId
  rw [hi.graph v, if_pos h2, h1]

/-- The built-in id fields are never touched. -/
theorem Interner.reg_consts (x : Interner) (r : Reg) :
    (x.reg r).1.noNamespaceId = x.noNamespaceId ∧ (x.reg r).1.emptyPrefixId = x.emptyPrefixId ∧
    (x.reg r).1.xmlNamespaceId = x.xmlNamespaceId ∧ (x.reg r).1.xmlPrefixId = x.xmlPrefixId ∧
    (x.reg r).1.xmlSpaceId = x.xmlSpaceId ∧ (x.reg r).1.xmlIdId = x.xmlIdId := by
  cases r <;> exact ⟨rfl, rfl, rfl, rfl, rfl, rfl⟩

/-! ### Sequences of calls -/

theorem Interner.regAll_inv (rs : List Reg) : ∀ {x : Interner}, x.Inv → (x.regAll rs).1.Inv := by
  induction rs with
  | nil => intro x h; exact h
  | cons r rs ih => intro x h; exact ih (Interner.reg_inv h r)

theorem Interner.regAll_env (rs : List Reg) : ∀ {x : Interner}, x.Inv →
    (x.regAll rs).1.env = (x.env.regAll rs).1 := by
  induction rs with
  | nil => intro x _; rfl
  | cons r rs ih =>
    intro x h
    simp only [Interner.regAll, Env.regAll]
    rw [ih (Interner.reg_inv h r), Interner.reg_env h r]

theorem Interner.regAll_ids (rs : List Reg) : ∀ {x : Interner}, x.Inv → (x.env.regAll rs).1.Cap →
    (x.regAll rs).2 = (x.env.regAll rs).2 := by
  induction rs with
  | nil => intro x _ _; rfl
  | cons r rs ih =>
    intro x h hc
    simp only [Interner.regAll, Env.regAll] at hc ⊢
    have hc1 : (x.env.reg r).1.Cap := Env.Cap.of_prefix (Env.regAll_prefixOf rs _) hc
    rw [Interner.reg_id h r hc1]
    rw [← Interner.reg_env h r] at hc
    rw [ih (Interner.reg_inv h r) hc, Interner.reg_env h r]

theorem Interner.regAll_consts (rs : List Reg) : ∀ (x : Interner),
    (x.regAll rs).1.noNamespaceId = x.noNamespaceId ∧ (x.regAll rs).1.emptyPrefixId = x.emptyPrefixId ∧
    (x.regAll rs).1.xmlNamespaceId = x.xmlNamespaceId ∧ (x.regAll rs).1.xmlPrefixId = x.xmlPrefixId ∧
    (x.regAll rs).1.xmlSpaceId = x.xmlSpaceId ∧ (x.regAll rs).1.xmlIdId = x.xmlIdId := by
  induction rs with
  | nil => intro x; exact ⟨rfl, rfl, rfl, rfl, rfl, rfl⟩
  | cons r rs ih =>
    intro x
    obtain ⟨a1, a2, a3, a4, a5, a6⟩ := ih (x.reg r).1
    obtain ⟨b1, b2, b3, b4, b5, b6⟩ := x.reg_consts r
    exact ⟨a1.trans b1, a2.trans b2, a3.trans b3, a4.trans b4, a5.trans b5, a6.trans b6⟩

end XotModel
