/-
  C06 lemmas: outcome of the four moves under the weak invariant.
-/
import XotModel.Lemmas.FatomMoves

namespace XotModel
open HTree

theorem mem_takeWhile_imp' {α : Type} (p : α → Bool) : ∀ (l : List α) (x : α),
    x ∈ l.takeWhile p → p x = true
  | [], x, h => by cases h
  | a :: l, x, h => by
    rw [List.takeWhile_cons] at h
    cases hp : p a with
    | false => rw [hp] at h; cases h
    | true =>
      rw [hp] at h
      rcases List.mem_cons.1 h with e | e
      · rw [e]; exact hp
      · exact mem_takeWhile_imp' p l x e

namespace Forest

theorem Checked.textNone {f : Forest} {p c : Nat} (h : Checked f p c) : f.textOf p = none := h.noText

/-- `append` once the structure check has passed. -/
theorem append_ok {f : Forest} (w : f.W) {p c : Nat} (hs : f.structureCheck (some p) c = true) :
    MoveOk f (f.append p c) c := by
  have ck := structureCheck_some hs
  unfold append
  simp only [hs, Bool.not_true, Bool.false_eq_true, if_false]
  cases hlc : (f.lastChild p == some c) with
  | true => simp only [if_true]; exact moveOk_same w c
  | false =>
    simp only [Bool.false_eq_true, if_false]
    obtain ⟨P, os⟩ := oldSite w c
    generalize (f.removeConsolidate (f.prevSibling c) (f.nextSibling c)).1 = f1 at os ⊢
    obtain ⟨w2, hsame, fr2, _⟩ := addConsolidate_spec os.w c (f1.lastChild p) none
    cases hc2 : (f1.addConsolidate c (f1.lastChild p) none).2 with
    | true => simp only [if_true]; exact moveOk_of_added w os ck.liveC w2 fr2
    | false =>
      simp only [Bool.false_eq_true, if_false]
      rw [hsame hc2]
      have hpP := os.notText ck.noText
      obtain ⟨k1, _, k3⟩ := os.keep w ck.liveP hpP
      have hc1 : f1.isElement p = true ∨ f1.isDocument p = true := by
        rw [os.fr.isElement hpP, os.fr.isDocument hpP]; exact ck.container
      have := (checkedUnder_ok os.w (ck.ne w) (by rw [k1]; exact ck.notAnc)
        (os.keep w ck.liveC (os.cP w)).2.2 k3 hc1).1
      simp only [this.ok, if_true]
      exact moveOk_of_checked w os ck.liveC this

theorem prependPoint_abnormal {f : Forest} (w : f.W) {p c : Nat} (e : f.prependPoint p = some c) :
    ∃ v, f.value? c = some v ∧ v.category ≠ .normal := by
  unfold prependPoint at e
  cases hg : f.get? p with
  | none => rw [hg] at e; cases e
  | some t =>
    rw [hg] at e
    simp only at e
    cases hl : (t.kids.takeWhile (fun k => k.value.category != .normal)).getLast? with
    | none => rw [hl] at e; cases e
    | some k =>
      rw [hl] at e
      simp only [Option.map_some, Option.some.injEq] at e
      have hm := List.mem_of_getLast? hl
      have : k ∈ t.kids := (List.takeWhile_sublist _).subset hm
      have hp := mem_takeWhile_imp' _ _ _ hm
      refine ⟨k.value, ?_, by simpa using hp⟩
      unfold value?
      rw [← e, (kid_spec w hg this).1]; rfl

/-- `prepend` once the structure check has passed. -/
theorem prepend_ok {f : Forest} (w : f.W) {p c : Nat} (hs : f.structureCheck (some p) c = true) :
    MoveOk f (f.prepend p c) c := by
  have ck := structureCheck_some hs
  unfold prepend
  simp only [hs, Bool.not_true, Bool.false_eq_true, if_false]
  cases hlc : (f.firstChild p == some c) with
  | true => simp only [if_true]; exact moveOk_same w c
  | false =>
    simp only [Bool.false_eq_true, if_false]
    obtain ⟨P, os⟩ := oldSite w c
    generalize (f.removeConsolidate (f.prevSibling c) (f.nextSibling c)).1 = f1 at os ⊢
    obtain ⟨w2, hsame, fr2, _⟩ := addConsolidate_spec os.w c none (f1.firstChild p)
    cases hc2 : (f1.addConsolidate c none (f1.firstChild p)).2 with
    | true => simp only [if_true]; exact moveOk_of_added w os ck.liveC w2 fr2
    | false =>
      simp only [Bool.false_eq_true, if_false]
      rw [hsame hc2]
      have hpP := os.notText ck.noText
      obtain ⟨k1, _, k3⟩ := os.keep w ck.liveP hpP
      have hlc1 : f1.isLive c = true := (os.keep w ck.liveC (os.cP w)).2.2
      cases hpp : f1.prependPoint p with
      | none =>
        have hc1 : f1.isElement p = true ∨ f1.isDocument p = true := by
          rw [os.fr.isElement hpP, os.fr.isDocument hpP]; exact ck.container
        have := (checkedUnder_ok os.w (ck.ne w) (by rw [k1]; exact ck.notAnc) hlc1 k3 hc1).2
        simp only [this.ok, if_true]
        exact moveOk_of_checked w os ck.liveC this
      | some ip =>
        have hip := prependPoint_parent os.w hpp
        obtain ⟨v, hv, hcat⟩ := prependPoint_abnormal os.w hpp
        have hne : ip ≠ c := by
          intro e; subst e
          obtain ⟨v', hv', hn', _⟩ := ck.normal
          have := os.fr.category (os.cP w)
          rw [hv, hv'] at this
          simp only [Option.map_some, Option.some.injEq] at this
          exact hcat (this.trans hn')
        have hanc : c ∉ f1.ancestors ip := by
          rw [ancestors_step os.w hip, k1]
          intro h'
          rcases List.mem_cons.1 h' with e | e
          · exact hne e.symm
          · exact ck.notAnc e
        have := (checkedBeside_ok os.w hne hanc (isRoot_false_of_parent os.w hip) hlc1
          (parent?_live hip).1).1
        simp only [this.ok, if_true]
        exact moveOk_of_checked w os ck.liveC this

theorem removeConsolidate_true {f : Forest} {prev next : Option Nat}
    (h : (f.removeConsolidate prev next).2 = true) : ∃ p n, prev = some p ∧ next = some n := by
  cases prev with
  | none => unfold removeConsolidate at h; split at h <;> simp at h
  | some p =>
    cases next with
    | none => unfold removeConsolidate at h; split at h <;> simp at h
    | some n => exact ⟨p, n, rfl, rfl⟩

theorem siblingReferenceCheck_ne {f : Forest} {r n : Nat} (h : f.siblingReferenceCheck r n = true) :
    r ≠ n := by
  unfold siblingReferenceCheck at h
  simp only [Bool.and_eq_true, bne_iff_ne] at h
  exact h.1

/-- The reference node actually used by `insert_after` after the old-site consolidation is a live
    child of the same parent, and is not the node being moved. -/
theorem insertAfter_ref {f : Forest} (w : f.W) {r n q : Nat} (hpr : f.parent? r = some q)
    (hrn : r ≠ n) :
    (f.removeConsolidate (f.prevSibling n) (f.nextSibling n)).1.parent?
      (if ((f.removeConsolidate (f.prevSibling n) (f.nextSibling n)).2 &&
            f.nextSibling n == some r) = true
        then (f.prevSibling n).getD r else r) = some q ∧
    (if ((f.removeConsolidate (f.prevSibling n) (f.nextSibling n)).2 &&
            f.nextSibling n == some r) = true
        then (f.prevSibling n).getD r else r) ≠ n := by
  obtain ⟨w1, _, P, hP, fr⟩ := removeConsolidate_spec w (f.prevSibling n) (f.nextSibling n)
  cases hcase : ((f.removeConsolidate (f.prevSibling n) (f.nextSibling n)).2 &&
      f.nextSibling n == some r) with
  | true =>
    simp only [if_true]
    rw [Bool.and_eq_true] at hcase
    have hnx : f.nextSibling n = some r := by simpa using hcase.2
    obtain ⟨pv, nx, hpv, _⟩ := removeConsolidate_true hcase.1
    have hgd : (f.prevSibling n).getD r = pv := by rw [hpv]; rfl
    rw [hgd]
    have s1 := prevSibling_sib w hpv
    have s2 := nextSibling_sib w hnx
    obtain ⟨q1, a1, b1⟩ := s1.parent
    obtain ⟨q2, a2, b2⟩ := s2.parent
    have hq : q1 = q :=
      (Option.some.inj (a1.symm.trans a2)).trans (Option.some.inj (b2.symm.trans hpr))
    have hpvP : pv ∉ P := by
      intro h'
      have := (hP pv h').1
      rw [hnx] at this
      injection this with this
      exact prev_ne_next w hpv hnx this.symm
    exact ⟨by rw [fr.parent pv hpvP, b1, hq], s1.ne⟩
  | false =>
    simp only [Bool.false_eq_true, if_false]
    have hrP : r ∉ P := by
      intro h'
      obtain ⟨h1, _, h3, _⟩ := hP r h'
      rw [h3, h1] at hcase
      simp at hcase
    exact ⟨by rw [fr.parent r hrP, hpr], hrn⟩

/-- `insert_after` once both checks have passed. -/
theorem insertAfter_ok {f : Forest} (w : f.W) {r n q : Nat} (hpr : f.parent? r = some q)
    (hs : f.structureCheck (some q) n = true) (hsr : f.siblingReferenceCheck r n = true) :
    MoveOk f (f.insertAfter r n) n := by
  have ck := structureCheck_some hs
  have hrn := siblingReferenceCheck_ne hsr
  unfold insertAfter
  simp only [hpr, hs, hsr, Bool.not_true, Bool.false_eq_true, if_false]
  cases hns : (f.nextSibling r == some n) with
  | true => simp only [if_true]; exact moveOk_same w n
  | false =>
    simp only [Bool.false_eq_true, if_false]
    obtain ⟨P, os⟩ := oldSite w n
    obtain ⟨href, hrefne⟩ := insertAfter_ref w hpr hrn
    generalize (if ((f.removeConsolidate (f.prevSibling n) (f.nextSibling n)).2 &&
      f.nextSibling n == some r) = true then (f.prevSibling n).getD r else r) = ref'
      at href hrefne ⊢
    generalize (f.removeConsolidate (f.prevSibling n) (f.nextSibling n)).1 = f1 at os href ⊢
    obtain ⟨w2, hsame, fr2, _⟩ := addConsolidate_spec os.w n (some ref') (f1.nextSibling ref')
    cases hc2 : (f1.addConsolidate n (some ref') (f1.nextSibling ref')).2 with
    | true => simp only [if_true]; exact moveOk_of_added w os ck.liveC w2 fr2
    | false =>
      simp only [Bool.false_eq_true, if_false]
      rw [hsame hc2]
      obtain ⟨k1, _, _⟩ := os.keep w ck.liveP (os.notText ck.noText)
      have hanc : n ∉ f1.ancestors ref' := by
        rw [ancestors_step os.w href, k1]
        intro h'
        rcases List.mem_cons.1 h' with e | e
        · exact hrefne e.symm
        · exact ck.notAnc e
      have := (checkedBeside_ok os.w hrefne hanc (isRoot_false_of_parent os.w href)
        (os.keep w ck.liveC (os.cP w)).2.2 (parent?_live href).1).1
      simp only [this.ok, if_true]
      exact moveOk_of_checked w os ck.liveC this

/-- `insert_before` once both checks have passed. -/
theorem insertBefore_ok {f : Forest} (w : f.W) {r n q : Nat} (hpr : f.parent? r = some q)
    (hs : f.structureCheck (some q) n = true) (hsr : f.siblingReferenceCheck r n = true) :
    MoveOk f (f.insertBefore r n) n := by
  have ck := structureCheck_some hs
  have hrn := siblingReferenceCheck_ne hsr
  unfold insertBefore
  simp only [hpr, hs, hsr, Bool.not_true, Bool.false_eq_true, if_false]
  cases hns : (f.prevSibling r == some n) with
  | true => simp only [if_true]; exact moveOk_same w n
  | false =>
    simp only [Bool.false_eq_true, if_false]
    obtain ⟨P, os⟩ := oldSite w n
    have hrP : r ∉ P := by
      intro h'
      have := prevSibling_of_nextSibling w (os.next r h').1
      rw [this] at hns
      simp at hns
    have href : (f.removeConsolidate (f.prevSibling n) (f.nextSibling n)).1.parent? r = some q := by
      rw [os.fr.parent r hrP, hpr]
    generalize (f.removeConsolidate (f.prevSibling n) (f.nextSibling n)).1 = f1 at os href ⊢
    obtain ⟨w2, hsame, fr2, _⟩ := addConsolidate_spec os.w n (f1.prevSibling r) (some r)
    cases hc2 : (f1.addConsolidate n (f1.prevSibling r) (some r)).2 with
    | true => simp only [if_true]; exact moveOk_of_added w os ck.liveC w2 fr2
    | false =>
      simp only [Bool.false_eq_true, if_false]
      rw [hsame hc2]
      obtain ⟨k1, _, _⟩ := os.keep w ck.liveP (os.notText ck.noText)
      have hanc : n ∉ f1.ancestors r := by
        rw [ancestors_step os.w href, k1]
        intro h'
        rcases List.mem_cons.1 h' with e | e
        · exact hrn e.symm
        · exact ck.notAnc e
      have := (checkedBeside_ok os.w hrn hanc (isRoot_false_of_parent os.w href)
        (os.keep w ck.liveC (os.cP w)).2.2 (parent?_live href).1).2
      simp only [this.ok, if_true]
      exact moveOk_of_checked w os ck.liveC this

/-! ### Refused or carried out -/

/-- Outcome of a move: refused by the argument checks with nothing changed, or carried out
    (never a late `NodeError`, never a panic, `corrupt` untouched, invariant kept). -/
def MoveOutcome (f : Forest) (r : Forest × Res) (c : Nat) : Prop :=
  r = (f, .err .invalidOperation) ∨ MoveOk f r c

theorem append_outcome {f : Forest} (w : f.W) (p c : Nat) : MoveOutcome f (f.append p c) c := by
  cases hs : f.structureCheck (some p) c with
  | false => left; simp [append, hs]
  | true => exact Or.inr (append_ok w hs)

theorem prepend_outcome {f : Forest} (w : f.W) (p c : Nat) : MoveOutcome f (f.prepend p c) c := by
  cases hs : f.structureCheck (some p) c with
  | false => left; simp [prepend, hs]
  | true => exact Or.inr (prepend_ok w hs)

theorem insertAfter_outcome {f : Forest} (w : f.W) (r n : Nat) :
    MoveOutcome f (f.insertAfter r n) n := by
  cases hpr : f.parent? r with
  | none => left; simp [insertAfter, hpr, structureCheck]
  | some q =>
    cases hs : f.structureCheck (some q) n with
    | false => left; simp [insertAfter, hpr, hs]
    | true =>
      cases hsr : f.siblingReferenceCheck r n with
      | false => left; simp [insertAfter, hpr, hs, hsr]
      | true => exact Or.inr (insertAfter_ok w hpr hs hsr)

theorem insertBefore_outcome {f : Forest} (w : f.W) (r n : Nat) :
    MoveOutcome f (f.insertBefore r n) n := by
  cases hpr : f.parent? r with
  | none => left; simp [insertBefore, hpr, structureCheck]
  | some q =>
    cases hs : f.structureCheck (some q) n with
    | false => left; simp [insertBefore, hpr, hs]
    | true =>
      cases hsr : f.siblingReferenceCheck r n with
      | false => left; simp [insertBefore, hpr, hs, hsr]
      | true => exact Or.inr (insertBefore_ok w hpr hs hsr)

theorem MoveOutcome.atomic {f : Forest} {r : Forest × Res} {c : Nat} (m : MoveOutcome f r c)
    {e : XotError} (h : r.2 = .err e) : r.1 = f := by
  rcases m with m | m
  · rw [m]
  · rw [m.ok] at h; cases h

theorem MoveOutcome.noPanic {f : Forest} {r : Forest × Res} {c : Nat} (m : MoveOutcome f r c) :
    r.2 ≠ .panic := by
  rcases m with m | m
  · rw [m]; simp
  · rw [m.ok]; simp

theorem MoveOutcome.corrupt {f : Forest} {r : Forest × Res} {c : Nat} (m : MoveOutcome f r c) :
    r.1.corrupt = f.corrupt := by
  rcases m with m | m
  · rw [m]
  · exact m.corrupt

theorem MoveOutcome.w {f : Forest} {r : Forest × Res} {c : Nat} (m : MoveOutcome f r c)
    (w : f.W) : r.1.W := by
  rcases m with m | m
  · rw [m]; exact w
  · exact m.w

end Forest
end XotModel
