/-
  C06 lemmas: outcome of the four moves under the weak invariant.
-/
import XotModel.Lemmas.FatomMoves

namespace XotModel
open HTree

theorem mem_takeWhile_imp' {α : Type} (p : α → Bool) : ∀ (l : List α) (x : α),
    x ∈ l.takeWhile p → p x = true
  | [], x, h => by cases h
  | a :: l, x, h => by
    rw [List.takeWhile_cons] at h
    cases hp : p a with
    | false => rw [hp] at h; cases h
    | true =>
      rw [hp] at h
      rcases List.mem_cons.1 h with e | e
      · rw [e]; exact hp
      · exact mem_takeWhile_imp' p l x e

namespace Forest

/-- Outcome of a move: refused by the argument checks with nothing changed, or carried out
    (never a late `NodeError`, never a panic, `corrupt` untouched). -/
def MoveOutcome (f : Forest) (r : Forest × Res) : Prop :=
  r = (f, .err .invalidOperation) ∨ (r.2 = .ok ∧ r.1.corrupt = f.corrupt)

theorem append_outcome {f : Forest} (w : f.W) (p c : Nat) : MoveOutcome f (f.append p c) := by
  unfold append
  cases hs : f.structureCheck (some p) c with
  | false => left; simp
  | true =>
    right
    have ck := structureCheck_some hs
    simp only [Bool.not_true, Bool.false_eq_true, if_false]
    cases hlc : (f.lastChild p == some c) with
    | true => simp
    | false =>
      simp only [Bool.false_eq_true, if_false]
      have os := oldSite w c
      generalize (f.removeConsolidate (f.prevSibling c) (f.nextSibling c)).1 = f1 at os ⊢
      obtain ⟨w2, hsame, fr2⟩ := addConsolidate_spec os.w c (f1.lastChild p) none
      cases hc2 : (f1.addConsolidate c (f1.lastChild p) none).2 with
      | true => simp only [if_true]; exact ⟨trivial, by rw [fr2.corrupt, os.corrupt]⟩
      | false =>
        simp only [Bool.false_eq_true, if_false]
        rw [hsame hc2]
        obtain ⟨k1, _, _⟩ := os.keep p ck.liveP ck.noText
        have := checkedAppend_ok os.w (ck.ne w) (by rw [k1]; exact ck.notAnc)
          (by rw [os.liveC]; exact ck.liveC)
        simp only [this.1, if_true]
        exact ⟨trivial, by rw [this.2, os.corrupt]⟩

theorem prependPoint_abnormal {f : Forest} (w : f.W) {p c : Nat} (e : f.prependPoint p = some c) :
    ∃ v, f.value? c = some v ∧ v.category ≠ .normal := by
  unfold prependPoint at e
  cases hg : f.get? p with
  | none => rw [hg] at e; cases e
  | some t =>
    rw [hg] at e
    simp only at e
    cases hl : (t.kids.takeWhile (fun k => k.value.category != .normal)).getLast? with
    | none => rw [hl] at e; cases e
    | some k =>
      rw [hl] at e
      simp only [Option.map_some, Option.some.injEq] at e
      have hm := List.mem_of_getLast? hl
      have : k ∈ t.kids := (List.takeWhile_sublist _).subset hm
      have hp := mem_takeWhile_imp' _ _ _ hm
      refine ⟨k.value, ?_, by simpa using hp⟩
      unfold value?
      rw [← e, (kid_spec w hg this).1]; rfl

theorem prepend_outcome {f : Forest} (w : f.W) (p c : Nat) : MoveOutcome f (f.prepend p c) := by
  unfold prepend
  cases hs : f.structureCheck (some p) c with
  | false => left; simp
  | true =>
    right
    have ck := structureCheck_some hs
    simp only [Bool.not_true, Bool.false_eq_true, if_false]
    cases hlc : (f.firstChild p == some c) with
    | true => simp
    | false =>
      simp only [Bool.false_eq_true, if_false]
      have os := oldSite w c
      generalize (f.removeConsolidate (f.prevSibling c) (f.nextSibling c)).1 = f1 at os ⊢
      obtain ⟨w2, hsame, fr2⟩ := addConsolidate_spec os.w c none (f1.firstChild p)
      cases hc2 : (f1.addConsolidate c none (f1.firstChild p)).2 with
      | true => simp only [if_true]; exact ⟨trivial, by rw [fr2.corrupt, os.corrupt]⟩
      | false =>
        simp only [Bool.false_eq_true, if_false]
        rw [hsame hc2]
        obtain ⟨k1, _, _⟩ := os.keep p ck.liveP ck.noText
        have hlc1 : f1.isLive c = true := by rw [os.liveC]; exact ck.liveC
        cases hpp : f1.prependPoint p with
        | none =>
          have := checkedPrepend_ok os.w (ck.ne w) (by rw [k1]; exact ck.notAnc) hlc1
          simp only [this.1, if_true]
          exact ⟨trivial, by rw [this.2, os.corrupt]⟩
        | some ip =>
          have hip := prependPoint_parent os.w hpp
          obtain ⟨v, hv, hcat⟩ := prependPoint_abnormal os.w hpp
          have hne : ip ≠ c := by
            intro e; subst e
            obtain ⟨v', hv', hn', _⟩ := ck.normal
            have := os.catC
            rw [hv, hv'] at this
            simp only [Option.map_some, Option.some.injEq] at this
            exact hcat (this.trans hn')
          have hanc : c ∉ f1.ancestors ip := by
            rw [ancestors_step os.w hip, k1]
            intro h'
            rcases List.mem_cons.1 h' with e | e
            · exact hne e.symm
            · exact ck.notAnc e
          have := checkedInsertAfter_ok os.w hne hanc (isRoot_false_of_parent os.w hip) hlc1
          simp only [this.1, if_true]
          exact ⟨trivial, by rw [this.2, os.corrupt]⟩

theorem removeConsolidate_true {f : Forest} {prev next : Option Nat}
    (h : (f.removeConsolidate prev next).2 = true) : ∃ p n, prev = some p ∧ next = some n := by
  cases prev with
  | none => unfold removeConsolidate at h; split at h <;> simp at h
  | some p =>
    cases next with
    | none => unfold removeConsolidate at h; split at h <;> simp at h
    | some n => exact ⟨p, n, rfl, rfl⟩

theorem siblingReferenceCheck_ne {f : Forest} {r n : Nat} (h : f.siblingReferenceCheck r n = true) :
    r ≠ n := by
  unfold siblingReferenceCheck at h
  simp only [Bool.and_eq_true, bne_iff_ne] at h
  exact h.1

/-- The reference node actually used by `insert_after` after the old-site consolidation is a live
    child of the same parent, and is not the node being moved. -/
theorem insertAfter_ref {f : Forest} (w : f.W) {r n q : Nat} (hpr : f.parent? r = some q)
    (hrn : r ≠ n) :
    (f.removeConsolidate (f.prevSibling n) (f.nextSibling n)).1.parent?
      (if ((f.removeConsolidate (f.prevSibling n) (f.nextSibling n)).2 &&
            f.nextSibling n == some r) = true
        then (f.prevSibling n).getD r else r) = some q ∧
    (if ((f.removeConsolidate (f.prevSibling n) (f.nextSibling n)).2 &&
            f.nextSibling n == some r) = true
        then (f.prevSibling n).getD r else r) ≠ n := by
  obtain ⟨w1, _, P, hP, fr⟩ := removeConsolidate_spec w (f.prevSibling n) (f.nextSibling n)
  cases hcase : ((f.removeConsolidate (f.prevSibling n) (f.nextSibling n)).2 &&
      f.nextSibling n == some r) with
  | true =>
    simp only [if_true]
    rw [Bool.and_eq_true] at hcase
    have hnx : f.nextSibling n = some r := by simpa using hcase.2
    obtain ⟨pv, nx, hpv, _⟩ := removeConsolidate_true hcase.1
    have hgd : (f.prevSibling n).getD r = pv := by rw [hpv]; rfl
    rw [hgd]
    have s1 := prevSibling_sib w hpv
    have s2 := nextSibling_sib w hnx
    obtain ⟨q1, a1, b1⟩ := s1.parent
    obtain ⟨q2, a2, b2⟩ := s2.parent
    have hq : q1 = q :=
      (Option.some.inj (a1.symm.trans a2)).trans (Option.some.inj (b2.symm.trans hpr))
    have hpvP : pv ∉ P := by
      intro h'
      have := (hP pv h').1
      rw [hnx] at this
      injection this with this
      exact prev_ne_next w hpv hnx this.symm
    exact ⟨by rw [fr.parent pv hpvP, b1, hq], s1.ne⟩
  | false =>
    simp only [Bool.false_eq_true, if_false]
    have hrP : r ∉ P := by
      intro h'
      obtain ⟨h1, _, h3, _⟩ := hP r h'
      rw [h3, h1] at hcase
      simp at hcase
    exact ⟨by rw [fr.parent r hrP, hpr], hrn⟩

theorem insertAfter_outcome {f : Forest} (w : f.W) (r n : Nat) :
    MoveOutcome f (f.insertAfter r n) := by
  unfold insertAfter
  cases hs : f.structureCheck (f.parent? r) n with
  | false => left; simp
  | true =>
    cases hpr : f.parent? r with
    | none => rw [hpr] at hs; cases hs
    | some q =>
      rw [hpr] at hs
      have ck := structureCheck_some hs
      cases hsr : f.siblingReferenceCheck r n with
      | false => left; simp
      | true =>
        right
        have hrn := siblingReferenceCheck_ne hsr
        simp only [Bool.not_true, Bool.false_eq_true, if_false]
        cases hns : (f.nextSibling r == some n) with
        | true => simp
        | false =>
          simp only [Bool.false_eq_true, if_false]
          have os := oldSite w n
          obtain ⟨href, hrefne⟩ := insertAfter_ref w hpr hrn
          generalize (if ((f.removeConsolidate (f.prevSibling n) (f.nextSibling n)).2 &&
            f.nextSibling n == some r) = true then (f.prevSibling n).getD r else r) = ref'
            at href hrefne ⊢
          generalize (f.removeConsolidate (f.prevSibling n) (f.nextSibling n)).1 = f1 at os href ⊢
          obtain ⟨w2, hsame, fr2⟩ := addConsolidate_spec os.w n (some ref') (f1.nextSibling ref')
          cases hc2 : (f1.addConsolidate n (some ref') (f1.nextSibling ref')).2 with
          | true => simp only [if_true]; exact ⟨trivial, by rw [fr2.corrupt, os.corrupt]⟩
          | false =>
            simp only [Bool.false_eq_true, if_false]
            rw [hsame hc2]
            obtain ⟨k1, _, _⟩ := os.keep q ck.liveP ck.noText
            have hanc : n ∉ f1.ancestors ref' := by
              rw [ancestors_step os.w href, k1]
              intro h'
              rcases List.mem_cons.1 h' with e | e
              · exact hrefne e.symm
              · exact ck.notAnc e
            have := checkedInsertAfter_ok os.w hrefne hanc (isRoot_false_of_parent os.w href)
              (by rw [os.liveC]; exact ck.liveC)
            simp only [this.1, if_true]
            exact ⟨trivial, by rw [this.2, os.corrupt]⟩

theorem insertBefore_outcome {f : Forest} (w : f.W) (r n : Nat) :
    MoveOutcome f (f.insertBefore r n) := by
  unfold insertBefore
  cases hs : f.structureCheck (f.parent? r) n with
  | false => left; simp
  | true =>
    cases hpr : f.parent? r with
    | none => rw [hpr] at hs; cases hs
    | some q =>
      rw [hpr] at hs
      have ck := structureCheck_some hs
      cases hsr : f.siblingReferenceCheck r n with
      | false => left; simp
      | true =>
        right
        have hrn := siblingReferenceCheck_ne hsr
        simp only [Bool.not_true, Bool.false_eq_true, if_false]
        cases hns : (f.prevSibling r == some n) with
        | true => simp
        | false =>
          simp only [Bool.false_eq_true, if_false]
          have os := oldSite w n
          have href : (f.removeConsolidate (f.prevSibling n) (f.nextSibling n)).1.parent? r = some q := by
            obtain ⟨w1, _, P, hP, fr⟩ := removeConsolidate_spec w (f.prevSibling n) (f.nextSibling n)
            have hrP : r ∉ P := by
              intro h'
              have := prevSibling_of_nextSibling w (hP r h').1
              rw [this] at hns
              simp at hns
            rw [fr.parent r hrP, hpr]
          generalize (f.removeConsolidate (f.prevSibling n) (f.nextSibling n)).1 = f1 at os href ⊢
          obtain ⟨w2, hsame, fr2⟩ := addConsolidate_spec os.w n (f1.prevSibling r) (some r)
          cases hc2 : (f1.addConsolidate n (f1.prevSibling r) (some r)).2 with
          | true => simp only [if_true]; exact ⟨trivial, by rw [fr2.corrupt, os.corrupt]⟩
          | false =>
            simp only [Bool.false_eq_true, if_false]
            rw [hsame hc2]
            obtain ⟨k1, _, _⟩ := os.keep q ck.liveP ck.noText
            have hanc : n ∉ f1.ancestors r := by
              rw [ancestors_step os.w href, k1]
              intro h'
              rcases List.mem_cons.1 h' with e | e
              · exact hrn e.symm
              · exact ck.notAnc e
            have := checkedInsertBefore_ok os.w hrn hanc (isRoot_false_of_parent os.w href)
              (by rw [os.liveC]; exact ck.liveC)
            simp only [this.1, if_true]
            exact ⟨trivial, by rw [this.2, os.corrupt]⟩

end Forest
end XotModel
