/-
  XotModel.Lemmas.SpanSliceRun — the run of tokens behind a text node, on a tokenizer's output:
  it consists of character-data tokens only, they are adjacent in the source, and the recorded
  `Text` span (first part's text start … last part's text end) slices the source to `runSlice run`:
  text parts as written, CDATA parts as `<![CDATA[` … `]]>` — except that the `<![CDATA[` of a
  FIRST part and the `]]>` of a LAST part lie outside the span.
-/
import XotModel.Lemmas.LexSpell
import XotModel.Lemmas.SpanDescDefs

namespace XotModel

/-! ### Chains -/

theorem AdjChain.tail {R : Token → Token → Prop} : ∀ {a : Token} {l : List Token}, AdjChain R (a :: l) → AdjChain R l
  | _, [], _ => trivial
  | _, _ :: _, h => h.2

theorem AdjChain.drop {R : Token → Token → Prop} : ∀ (pre : List Token) {l : List Token},
    AdjChain R (pre ++ l) → AdjChain R l
  | [], _, h => h
  | _ :: pre, _, h => AdjChain.drop pre (AdjChain.tail h)

theorem AdjChain.take {R : Token → Token → Prop} : ∀ (l post : List Token), AdjChain R (l ++ post) → AdjChain R l
  | [], _, _ => trivial
  | [_], _, _ => trivial
  | a :: b :: l, post, h => ⟨h.1, AdjChain.take (b :: l) post h.2⟩

theorem AdjChain.infix {R : Token → Token → Prop} {run ts : List Token} (h : AdjChain R ts) (hi : run <:+: ts) :
    AdjChain R run := by
  obtain ⟨pre, post, rfl⟩ := hi
  rw [List.append_assoc] at h
  exact AdjChain.take run post (AdjChain.drop pre h)

theorem AdjChain.and {R S : Token → Token → Prop} : ∀ {l : List Token}, AdjChain R l → AdjChain S l →
    AdjChain (fun a b => R a b ∧ S a b) l
  | [], _, _ => trivial
  | [_], _, _ => trivial
  | _ :: _ :: _, h1, h2 => ⟨⟨h1.1, h2.1⟩, AdjChain.and h1.2 h2.2⟩

/-- From the tag bookkeeping: character data never follows an element start or an attribute. -/
def TagAdj (a b : Token) : Prop :=
  b.isCharData = true → (∀ p l sp, a ≠ .elementStart p l sp) ∧ (∀ p l v sp, a ≠ .attribute p l v sp)

theorem tagsOk_adj : ∀ (ts : List Token) (inTag : Bool), TagsOk inTag ts → AdjChain TagAdj ts
  | [], _, _ => trivial
  | [_], _, _ => trivial
  | a :: b :: rest, inTag, h => by
    have key : ∀ inTag', TagsOk inTag' (b :: rest) → TagAdj a b → AdjChain TagAdj (a :: b :: rest) :=
      fun inTag' h' hab => ⟨hab, tagsOk_adj (b :: rest) inTag' h'⟩
    have other : (∀ p l sp, a ≠ .elementStart p l sp) → (∀ p l v sp, a ≠ .attribute p l v sp) → TagAdj a b :=
      fun h1 h2 _ => ⟨h1, h2⟩
    have intag : TagsOk true (b :: rest) → TagAdj a b := by
      intro hb hcd
      cases b <;> simp [Token.isCharData] at hcd <;> simp [TagsOk] at hb
    cases inTag with
    | false =>
      cases a with
      | elementStart p l sp => simp only [TagsOk] at h; exact key true h (intag h)
      | «attribute» p l v sp => simp [TagsOk] at h
      | elementEnd e sp =>
        cases e with
        | «open» => simp [TagsOk] at h
        | empty => simp [TagsOk] at h
        | close p l => simp only [TagsOk] at h; exact key false h (other (by simp) (by simp))
      | _ => simp only [TagsOk] at h; exact key false h (other (by simp) (by simp))
    | true =>
      cases a with
      | «attribute» p l v sp => simp only [TagsOk] at h; exact key true h (intag h)
      | elementEnd e sp =>
        cases e with
        | «open» => simp only [TagsOk] at h; exact key false h (other (by simp) (by simp))
        | empty => simp only [TagsOk] at h; exact key false h (other (by simp) (by simp))
        | close p l => simp [TagsOk] at h
      | _ => simp [TagsOk] at h

/-! ### A run consists of character data only -/

theorem run_charData : ∀ (run : List Token),
    AdjChain (fun a b => CharAdj a b ∧ TagAdj a b) run → (∀ t ∈ run, t.isRunTok = true) →
    (∃ pre t, run = pre ++ [t] ∧ t.isCharData = true) → ∀ t ∈ run, t.isCharData = true
  | [], _, _, _ => fun t ht => by cases ht
  | [x], _, _, hl => by
    obtain ⟨pre, t, he, ht⟩ := hl
    have : x = t := by
      cases pre with
      | nil => simpa using he
      | cons y ys => cases ys <;> simp at he
    intro t' ht'
    simp only [List.mem_singleton] at ht'
    subst ht'
    rw [this]; exact ht
  | a :: b :: rest, hc, htoks, hl => by
    have ih := run_charData (b :: rest) hc.2 (fun t ht => htoks t (by simp [ht])) (by
      obtain ⟨pre, t, he, ht⟩ := hl
      cases pre with
      | nil => simp at he
      | cons y ys =>
        simp only [List.cons_append, List.cons.injEq] at he
        exact ⟨ys, t, he.2, ht⟩)
    have hb := ih b (by simp)
    obtain ⟨hdecl, htag⟩ := hc.1
    obtain ⟨hd, _⟩ := hdecl hb
    obtain ⟨hs, hat⟩ := htag hb
    have ha : a.isCharData = true := by
      have hrt := htoks a (by simp)
      cases a with
      | text _ => rfl
      | cdata _ _ => rfl
      | declaration v e sa sp => simp [Token.isDecl] at hd
      | elementStart p l sp => exact absurd rfl (hs p l sp)
      | «attribute» p l v sp => exact absurd rfl (hat p l v sp)
      | _ => simp [Token.isRunTok, Token.isReal, Token.passive] at hrt
    intro t ht
    simp only [List.mem_cons] at ht
    rcases ht with rfl | ht
    · exact ha
    · exact ih t (by simpa using ht)

theorem Token.isCharData_of_isReal {t : Token} (h : t.isReal = true) : t.isCharData = true := by
  cases t <;> simp_all [Token.isReal, Token.isCharData]

/-! ### The source of a run -/

/-- The run as written in the source, from inside the first part to inside the last part:
    `skipOpen` = the `<![CDATA[` of the first token is not included. -/
def runSliceAux : Bool → List Token → Str
  | _, [] => []
  | _, .text t :: rest => t.text ++ runSliceAux false rest
  | skipOpen, .cdata t _ :: rest =>
    (if skipOpen then [] else Lex.litCdataOpen) ++ t.text ++
      (if rest.isEmpty then [] else Lex.litCdataClose ++ runSliceAux false rest)
  | _, _ :: rest => runSliceAux false rest

def runSlice (run : List Token) : Str := runSliceAux true run

/-- The whole-token texts of the run, concatenated. -/
def runWhole (run : List Token) : Str := run.flatMap (fun t => t.wholeSpan.text)

def Token.isCdataTok : Token → Bool
  | .cdata _ _ => true
  | _ => false

def openOf (t : Token) : Str := if t.isCdataTok then Lex.litCdataOpen else []
def closeOf (t : Token) : Str := if t.isCdataTok then Lex.litCdataClose else []

/-- Equal byte length of two prefixes of one text ⇒ equal prefixes. -/
theorem prefix_eq_of_strLen : ∀ (a a' x x' : Str), a ++ x = a' ++ x' → strLen a = strLen a' → a = a'
  | [], [], _, _, _, _ => rfl
  | [], c :: cs, _, _, _, h => by
    have := utf8Len_pos c
    simp only [strLen] at h; omega
  | c :: cs, [], _, _, _, h => by
    have := utf8Len_pos c
    simp only [strLen] at h; omega
  | c :: cs, d :: ds, x, x', he, h => by
    simp only [List.cons_append, List.cons.injEq] at he
    obtain ⟨rfl, he⟩ := he
    simp only [strLen] at h
    rw [prefix_eq_of_strLen cs ds x x' he (by omega)]

/-- `runWhole`, for a run of spelled character-data tokens, in terms of `runSliceAux`. -/
theorem runWhole_eq {src : Str} : ∀ (run : List Token) (t0 : Token) (r0 : List Token), run = t0 :: r0 →
    (∀ t ∈ run, t.isCharData = true ∧ t.Spelled src) →
    ∃ tl, (∃ pre, run = pre ++ [tl]) ∧ runWhole run = runSliceAux false run ++ closeOf tl := by
  intro run
  induction run with
  | nil => intro t0 r0 h; cases h
  | cons a rest ih =>
    intro t0 r0 _ hall
    have ha := hall a (by simp)
    cases rest with
    | nil =>
      refine ⟨a, ⟨[], rfl⟩, ?_⟩
      cases a with
      | text t => simp [runWhole, runSliceAux, closeOf, Token.isCdataTok, Token.wholeSpan]
      | cdata t sp =>
        obtain ⟨hsp, _, _⟩ := ha.2
        simp [runWhole, runSliceAux, closeOf, Token.isCdataTok, Token.wholeSpan, hsp]
      | _ => simp [Token.isCharData] at ha
    | cons b rest' =>
      obtain ⟨tl, ⟨pre, hpre⟩, hw⟩ := ih b rest' rfl (fun t ht => hall t (by simp [ht]))
      refine ⟨tl, ⟨a :: pre, by rw [hpre]; rfl⟩, ?_⟩
      have hrw : runWhole (a :: b :: rest') = a.wholeSpan.text ++ runWhole (b :: rest') := by
        simp [runWhole]
      rw [hrw, hw]
      cases a with
      | text t => simp [runSliceAux, Token.wholeSpan]
      | cdata t sp =>
        obtain ⟨hsp, _, _⟩ := ha.2
        simp [runSliceAux, Token.wholeSpan, hsp]
      | _ => simp [Token.isCharData] at ha

theorem runSliceAux_open : ∀ (run : List Token) (t0 : Token) (r0 : List Token), run = t0 :: r0 →
    t0.isCharData = true → runSliceAux false run = openOf t0 ++ runSliceAux true run := by
  intro run t0 r0 h hc
  subst h
  cases t0 <;> simp_all [Token.isCharData, runSliceAux, openOf, Token.isCdataTok]

/-- Adjacent character-data tokens, each a slice of the source: their concatenation is the slice
    from the first one's start to the last one's end. -/
theorem runWhole_slice {src : Str} : ∀ (run : List Token) (t0 : Token) (r0 : List Token), run = t0 :: r0 →
    (∀ t ∈ run, t.isCharData = true ∧ t.wholeSpan.SliceOf src) → AdjChain CharAdj run →
    ∃ a b, src = a ++ runWhole run ++ b ∧ t0.wholeSpan.start = strLen a ∧
      ∀ pre tl, run = pre ++ [tl] → tl.wholeSpan.stop = strLen a + strLen (runWhole run) := by
  intro run
  induction run with
  | nil => intro t0 r0 h; cases h
  | cons x rest ih =>
    intro t0 r0 he hall hadj
    simp only [List.cons.injEq] at he
    obtain ⟨rfl, he2⟩ := he
    subst he2
    obtain ⟨hxc, a, b, hsrc, hst⟩ := hall x (by simp)
    cases rest with
    | nil =>
      refine ⟨a, b, by simpa [runWhole] using hsrc, hst, ?_⟩
      intro pre tl hl
      have : tl = x := by
        cases pre with
        | nil => simpa using hl.symm
        | cons y ys => cases ys <;> simp at hl
      subst this
      simp [runWhole, StrSpan.stop, hst]
    | cons y r1 =>
      obtain ⟨a', b', hsrc', hst', hlast⟩ := ih y r1 rfl (fun t ht => hall t (by simp [ht])) hadj.2
      have hyc := (hall y (by simp)).1
      have hadjxy := (hadj.1 hyc).2.1 hxc
      -- `a'` is `a ++ x`
      have hlen : strLen a' = strLen (a ++ x.wholeSpan.text) := by
        rw [strLen_append, ← hst', ← hadjxy, StrSpan.stop, hst]
      have ha' : a' = a ++ x.wholeSpan.text := by
        refine prefix_eq_of_strLen a' (a ++ x.wholeSpan.text) (runWhole (y :: r1) ++ b') b ?_ hlen
        rw [← List.append_assoc, ← hsrc', hsrc]
      refine ⟨a, b', ?_, hst, ?_⟩
      · rw [hsrc', ha']
        simp [runWhole]
      · intro pre tl hl
        cases pre with
        | nil => simp at hl
        | cons z zs =>
          simp only [List.cons_append, List.cons.injEq] at hl
          rw [hlast zs tl hl.2, ha']
          have : runWhole (x :: y :: r1) = x.wholeSpan.text ++ runWhole (y :: r1) := by simp [runWhole]
          rw [this, strLen_append, strLen_append]
          omega

theorem strLen_cdataOpen : strLen Lex.litCdataOpen = 9 := by decide
theorem strLen_cdataClose : strLen Lex.litCdataClose = 3 := by decide

/-- The recorded `Text` span slices the source to `runSlice run`. -/
theorem run_slice {src : Str} {run : List Token} {sp : Span}
    (hall : ∀ t ∈ run, t.isCharData = true ∧ t.Spelled src ∧ t.wholeSpan.SliceOf src)
    (hadj : AdjChain CharAdj run) (hok : RunOk run sp) :
    (⟨runSlice run, sp.start⟩ : StrSpan).SliceOf src ∧ sp.stop = sp.start + strLen (runSlice run) := by
  obtain ⟨t0, r0, f, hrun, _, hf, hstart⟩ := hok.first
  obtain ⟨pre, tl, l, hrun', _, hl, hstop⟩ := hok.last
  have h0 := hall t0 (by rw [hrun]; simp)
  have hL := hall tl (by rw [hrun']; simp)
  obtain ⟨a, b, hsrc, hst, hlast⟩ := runWhole_slice run t0 r0 hrun (fun t ht => ⟨(hall t ht).1, (hall t ht).2.2⟩) hadj
  obtain ⟨tl', ⟨pre', hpre'⟩, hw⟩ := runWhole_eq (src := src) run t0 r0 hrun (fun t ht => ⟨(hall t ht).1, (hall t ht).2.1⟩)
  have htl : tl' = tl := by
    rw [hrun'] at hpre'
    exact (List.append_inj' hpre' rfl).2 |> fun h => (List.singleton_inj.mp h).symm
  subst htl
  rw [runSliceAux_open run t0 r0 hrun h0.1] at hw
  have hstop' := hlast pre tl' hrun'
  -- start of the first part's text, end of the last part's text
  have hfs : f.start = t0.wholeSpan.start + strLen (openOf t0) := by
    cases t0 with
    | text t => simp only [Token.textSpan?, Option.some.injEq] at hf; subst hf; simp [openOf, Token.isCdataTok, Token.wholeSpan, strLen]
    | cdata t sp0 =>
      simp only [Token.textSpan?, Option.some.injEq] at hf; subst hf
      obtain ⟨_, hs9, _⟩ := h0.2.1
      simp [openOf, Token.isCdataTok, Token.wholeSpan, strLen_cdataOpen, hs9]
    | _ => simp [Token.isCharData] at h0
  have hls : l.stop + strLen (closeOf tl') = tl'.wholeSpan.stop := by
    cases tl' with
    | text t => simp only [Token.textSpan?, Option.some.injEq] at hl; subst hl; simp [closeOf, Token.isCdataTok, Token.wholeSpan, strLen]
    | cdata t sp0 =>
      simp only [Token.textSpan?, Option.some.injEq] at hl; subst hl
      obtain ⟨htx, hs9, _⟩ := hL.2.1
      simp only [closeOf, Token.isCdataTok, Token.wholeSpan, if_true, strLen_cdataClose, StrSpan.stop, htx,
        strLen_append, strLen_cdataOpen, hs9]
      omega
    | _ => simp [Token.isCharData] at hL
  refine ⟨⟨a ++ openOf t0, closeOf tl' ++ b, ?_, ?_⟩, ?_⟩
  · show src = a ++ openOf t0 ++ runSlice run ++ (closeOf tl' ++ b)
    rw [hsrc, hw, runSlice]
    simp [List.append_assoc]
  · show sp.start = strLen (a ++ openOf t0)
    rw [hstart, hfs, hst, strLen_append]
  · rw [hstop, hstart, hfs, hst]
    rw [hw, strLen_append, strLen_append] at hstop'
    simp only [runSlice]
    omega

end XotModel
