/-
  Lemmas for C20 (any construction order), part 5: the three list functions of a move
  (`dropTop`, `Dest.insert`, `mergeRuns`) keep the local validity conditions of a child list.

  The non-strict local condition is a property of the list of the children's SHAPES (value with
  the text data forgotten): closed under sublists, and under insertion of a normal node in front
  of normal nodes.  `dropTop` and `mergeRuns` shorten the shape list.
-/
import XotModel.Lemmas.FanyorderValid
import XotModel.Lemmas.FspecPrepend
import XotModel.Lemmas.FspecContent
import XotModel.Lemmas.FspecNew

namespace XotModel
namespace Prog
open HTree Spec Fmap
open Forest (entryKey)

/-- Forget the character data. -/
def nv : Value → Value
  | .text _ => .text []
  | v => v

def shape (k : HTree) : Value := nv k.value

theorem nv_category (v : Value) : (nv v).category = v.category := by cases v <;> rfl
theorem nv_isDocument (v : Value) : (nv v).isDocument = v.isDocument := by cases v <;> rfl
theorem nv_isNormal (v : Value) : (nv v).isNormal = v.isNormal := by cases v <;> rfl
theorem nv_entryKey (v : Value) : entryKey (nv v) = entryKey v := by cases v <;> rfl
theorem nv_kidAllowed (v k : Value) : kidAllowed v (nv k) = kidAllowed v k := by
  cases v <;> simp [kidAllowed, nv_isDocument, nv_isNormal]

def rankV (v : Value) : Nat := v.category.rank

/-- The non-strict local condition on a list of shapes. -/
structure LocalV (v : Value) (S : List Value) : Prop where
  allowed : ∀ s ∈ S, kidAllowed v s = true
  ordered : S.Pairwise (fun a b => rankV a ≤ rankV b)
  attrs : ((S.filter (fun s => s.category == .attribute)).map entryKey).Nodup
  nss : ((S.filter (fun s => s.category == .namespace)).map entryKey).Nodup

theorem keys_shape (c : Category) (L : List HTree) :
    ((L.map shape).filter (fun s => s.category == c)).map entryKey =
      (L.filter (fun k => k.value.category == c)).map (fun k => entryKey k.value) := by
  induction L with
  | nil => rfl
  | cons k ks ih =>
    simp only [List.map_cons, List.filter_cons, shape, nv_category]
    split
    · simp only [List.map_cons, nv_entryKey]
      rw [← ih]
    · exact ih

theorem localOK_false_iff (v : Value) (L : List HTree) :
    localOK false v L = true ↔ LocalV v (L.map shape) := by
  simp only [localOK, Bool.and_eq_true, Bool.not_false, Bool.true_or, and_true, List.all_eq_true,
    keysUnique, decide_eq_true_eq]
  constructor
  · intro ⟨⟨⟨h1, h2⟩, h3⟩, h4⟩
    refine ⟨?_, ?_, by rw [keys_shape]; exact h3, by rw [keys_shape]; exact h4⟩
    · intro s hs
      obtain ⟨k, hk, e⟩ := List.mem_map.1 hs
      rw [← e, shape, nv_kidAllowed]
      exact h1 k hk
    · rw [List.pairwise_map]
      have := (kidsOrdered_iff L).1 h2
      exact this.imp (fun h => by simpa [rankV, shape, nv_category, rankLe] using h)
  · intro ⟨h1, h2, h3, h4⟩
    refine ⟨⟨⟨?_, ?_⟩, by rw [← keys_shape]; exact h3⟩, by rw [← keys_shape]; exact h4⟩
    · intro k hk
      have := h1 (shape k) (List.mem_map_of_mem hk)
      rw [shape, nv_kidAllowed] at this
      exact this
    · rw [kidsOrdered_iff]
      rw [List.pairwise_map] at h2
      exact h2.imp (fun h => by simpa [rankV, shape, nv_category, rankLe] using h)

theorem LocalV.sublist {v : Value} {S S' : List Value} (h : LocalV v S) (hs : S'.Sublist S) : LocalV v S' :=
  ⟨fun s hs' => h.allowed s (hs.subset hs'), h.ordered.sublist hs,
    h.attrs.sublist ((hs.filter _).map _), h.nss.sublist ((hs.filter _).map _)⟩

/-- A normal shape may be inserted in front of normal shapes. -/
theorem LocalV.insert {v s : Value} {A B : List Value} (h : LocalV v (A ++ B)) (hal : kidAllowed v s = true)
    (hs : s.category = .normal) (hB : ∀ b ∈ B, b.category = .normal) : LocalV v (A ++ s :: B) := by
  have hrs : rankV s = 2 := by simp [rankV, hs, Category.rank]
  refine ⟨?_, ?_, ?_, ?_⟩
  · intro x hx
    rcases List.mem_append.1 hx with e | e
    · exact h.allowed x (List.mem_append_left _ e)
    · rcases List.mem_cons.1 e with e | e
      · rw [e]; exact hal
      · exact h.allowed x (List.mem_append_right _ e)
  · have ho := List.pairwise_append.1 h.ordered
    rw [List.pairwise_append]
    refine ⟨ho.1, ?_, ?_⟩
    · rw [List.pairwise_cons]
      refine ⟨?_, ho.2.1⟩
      intro b hb
      simp [rankV, hs, hB b hb]
    · intro a ha b hb
      rcases List.mem_cons.1 hb with e | e
      · rw [e, hrs]
        simp only [rankV]
        cases a.category <;> simp [Category.rank]
      · exact ho.2.2 a ha b e
  · have : (A ++ s :: B).filter (fun s => s.category == .attribute) = (A ++ B).filter (fun s => s.category == .attribute) := by
      simp [List.filter_append, List.filter_cons, hs]
    rw [this]; exact h.attrs
  · have : (A ++ s :: B).filter (fun s => s.category == .namespace) = (A ++ B).filter (fun s => s.category == .namespace) := by
      simp [List.filter_append, List.filter_cons, hs]
    rw [this]; exact h.nss

/-! ### `dropTop` -/

theorem dropTop_sublist (n : Nat) (L : List HTree) : (dropTop n L).Sublist L := by
  rw [dropTop_eq_filter]; exact List.filter_sublist

theorem localOK_dropTop {v : Value} {L : List HTree} (n : Nat) (h : localOK false v L = true) :
    localOK false v (dropTop n L) = true := by
  rw [localOK_false_iff] at h ⊢
  exact h.sublist ((dropTop_sublist n L).map _)

theorem validXList_dropTop {sx : Nat → Bool} {L : List HTree} (n : Nat) (h : validXList sx L = true) :
    validXList sx (dropTop n L) = true :=
  validXList_sublist (dropTop_sublist n L) h

/-! ### `mergeRuns` -/

theorem shape_join (keep : Keep) (a b : HTree) (x y : Str) : shape (join keep a b x y) = .text [] := by
  unfold join
  split <;> (cases a <;> cases b <;> rfl)

theorem shape_mergeInto (keep : Keep) : ∀ (rest : List HTree) (cur : HTree),
    ((mergeInto keep cur rest).map shape).Sublist ((cur :: rest).map shape)
  | [], cur => by rw [mergeInto_nil]; exact List.Sublist.refl _
  | b :: rest, cur => by
    by_cases h : cur.value.isText = true ∧ b.value.isText = true
    · obtain ⟨h1, h2⟩ := h
      obtain ⟨x, hx⟩ : ∃ x, cur.value = .text x := by
        cases hc : cur.value <;> simp_all [Value.isText]
      obtain ⟨y, hy⟩ : ∃ y, b.value = .text y := by
        cases hc : b.value <;> simp_all [Value.isText]
      rw [mergeInto_cons_text hx hy]
      have ih := shape_mergeInto keep rest (join keep cur b x y)
      have hb : shape b = .text [] := by simp [shape, hy, nv]
      simp only [List.map_cons] at ih ⊢
      rw [shape_join] at ih
      rw [hb]
      exact ih.cons _
    · rw [mergeInto_cons_other h]
      have ih := shape_mergeInto keep rest b
      simp only [List.map_cons] at ih ⊢
      exact ih.cons_cons _

theorem shape_mergeRuns (keep : Keep) (L : List HTree) :
    ((mergeRuns keep L).map shape).Sublist (L.map shape) := by
  cases L with
  | nil => exact List.Sublist.refl _
  | cons a rest => exact shape_mergeInto keep rest a

/-- After the merge the child list is locally fine in the strict sense. -/
theorem localOK_mergeRuns {v : Value} {L : List HTree} (keep : Keep) (h : localOK false v L = true) :
    localOK true v (mergeRuns keep L) = true := by
  apply localOK_strict
  · rw [localOK_false_iff] at h ⊢
    exact h.sublist (shape_mergeRuns keep L)
  · exact noAdj_mergeRuns keep L

/-- Every member of a merged list is a member of the list, or a text leaf with new data. -/
theorem mem_mergeInto (keep : Keep) : ∀ (rest : List HTree) (cur k : HTree), k ∈ mergeInto keep cur rest →
    k ∈ cur :: rest ∨ ∃ a ∈ cur :: rest, a.value.isText = true ∧ ∃ s, k = a.setValue (.text s)
  | [], cur, k => by
    intro hk
    rw [mergeInto_nil] at hk
    exact Or.inl hk
  | b :: rest, cur, k => by
    intro hk
    by_cases h : cur.value.isText = true ∧ b.value.isText = true
    · obtain ⟨h1, h2⟩ := h
      obtain ⟨x, hx⟩ : ∃ x, cur.value = .text x := by
        cases hc : cur.value <;> simp_all [Value.isText]
      obtain ⟨y, hy⟩ : ∃ y, b.value = .text y := by
        cases hc : b.value <;> simp_all [Value.isText]
      rw [mergeInto_cons_text hx hy] at hk
      have hj : ∃ a ∈ [cur, b], a.value.isText = true ∧ join keep cur b x y = a.setValue (.text (x ++ y)) := by
        unfold join
        split
        · exact ⟨cur, by simp, h1, rfl⟩
        · exact ⟨b, by simp, h2, rfl⟩
      obtain ⟨a0, ha0, ha0t, hja⟩ := hj
      have ha0m : a0 ∈ cur :: b :: rest := by
        rcases List.mem_cons.1 ha0 with e | e
        · rw [e]; exact List.mem_cons_self
        · rw [List.mem_singleton.1 e]; exact List.mem_cons_of_mem _ List.mem_cons_self
      rcases mem_mergeInto keep rest (join keep cur b x y) k hk with e | ⟨a, ha, hat, s, hs⟩
      · rcases List.mem_cons.1 e with e | e
        · exact Or.inr ⟨a0, ha0m, ha0t, x ++ y, by rw [e, hja]⟩
        · exact Or.inl (List.mem_cons_of_mem _ (List.mem_cons_of_mem _ e))
      · rcases List.mem_cons.1 ha with e | e
        · refine Or.inr ⟨a0, ha0m, ha0t, s, ?_⟩
          rw [hs, e, hja]
          cases a0; rfl
        · exact Or.inr ⟨a, List.mem_cons_of_mem _ (List.mem_cons_of_mem _ e), hat, s, hs⟩
    · rw [mergeInto_cons_other h] at hk
      rcases List.mem_cons.1 hk with e | e
      · exact Or.inl (e ▸ List.mem_cons_self)
      · rcases mem_mergeInto keep rest b k e with e' | ⟨a, ha, hat, s, hs⟩
        · exact Or.inl (List.mem_cons_of_mem _ e')
        · exact Or.inr ⟨a, List.mem_cons_of_mem _ ha, hat, s, hs⟩

theorem validXList_mergeRuns {sx : Nat → Bool} {L : List HTree} (keep : Keep) (h : validXList sx L = true) :
    validXList sx (mergeRuns keep L) = true := by
  cases L with
  | nil => exact h
  | cons a rest =>
    apply validXList_of_mem
    intro k hk
    rcases mem_mergeInto keep rest a k hk with e | ⟨a', ha', hat, s, hs⟩
    · exact validXList_mem h k e
    · have hv := validXList_mem h a' ha'
      have hleaf : a'.kids = [] := by
        apply kids_nil_of_validX hv
        · cases hc : a'.value <;> simp_all [Value.isText, Value.isElement]
        · cases hc : a'.value <;> simp_all [Value.isText, Value.isDocument]
      rw [hs]
      cases a' with
      | node h' v' ks' =>
        simp only [HTree.kids] at hleaf
        subst hleaf
        exact validX_leaf sx h' _

/-! ### `Dest.insert` -/

/-- In an ordered child list everything after a normal node is normal. -/
theorem normal_after {L : List HTree} (ho : kidsOrdered L = true) {A B : List HTree} {k : HTree}
    (e : L = A ++ k :: B) (hk : k.value.isNormal = true) : ∀ b ∈ B, b.value.isNormal = true := by
  intro b hb
  have hp := (kidsOrdered_iff L).1 ho
  rw [e] at hp
  have := (List.pairwise_append.1 hp).2.1
  have hkb := (List.pairwise_cons.1 this).1 b hb
  simp only [rankLe] at hkb
  have hkn : k.value.category = .normal := by simpa [Value.isNormal] using hk
  rw [hkn] at hkb
  cases hc : b.value.category <;> simp_all [Category.rank, Value.isNormal]

theorem dropWhile_head_false {α : Type} (p : α → Bool) : ∀ (l : List α) {k : α} {B : List α},
    l.dropWhile p = k :: B → p k = false
  | [], _, _, h => by cases h
  | a :: l, k, B, h => by
    rw [List.dropWhile_cons] at h
    cases ha : p a with
    | true => rw [ha] at h; exact dropWhile_head_false p l h
    | false =>
      rw [ha] at h
      simp only [Bool.false_eq_true, if_false] at h
      injection h with e1 _
      rw [← e1]; exact ha

theorem replaceTop_split (r : Nat) (F : HTree → List HTree) : ∀ L : List HTree,
    replaceTop r F L = L ∨ ∃ A k B, L = A ++ k :: B ∧ k.handle = r ∧ replaceTop r F L = A ++ F k ++ B
  | [] => Or.inl rfl
  | k :: ks => by
    rw [replaceTop_cons]
    by_cases hk : k.handle = r
    · rw [if_pos hk]
      exact Or.inr ⟨[], k, ks, rfl, hk, by simp⟩
    · rw [if_neg hk]
      rcases replaceTop_split r F ks with e | ⟨A, k', B, e1, e2, e3⟩
      · rw [e]; exact Or.inl rfl
      · exact Or.inr ⟨k :: A, k', B, by rw [e1]; rfl, e2, by rw [e3]; rfl⟩

/-- Where an insertion puts `t`: nowhere (the reference node is not in the list), or in front of
    normal nodes only. -/
theorem insert_split {L : List HTree} (ho : kidsOrdered L = true) (dest : Dest) (t : HTree)
    (href : ∀ r, (dest = .after r ∨ dest = .before r) → ∀ k ∈ L, k.handle = r → k.value.isNormal = true) :
    dest.insert t L = L ∨
      ∃ A B, L = A ++ B ∧ dest.insert t L = A ++ t :: B ∧ ∀ b ∈ B, b.value.isNormal = true := by
  cases dest with
  | lastChildOf p =>
    exact Or.inr ⟨L, [], by simp, by simp [Dest.insert, insertLast], by intro b hb; cases hb⟩
  | firstNormalChildOf p =>
    refine Or.inr ⟨L.takeWhile abn, L.dropWhile abn, (List.takeWhile_append_dropWhile).symm, ?_, ?_⟩
    · simp only [Dest.insert]; exact insertFirstNormal_eq t L
    · intro b hb
      cases hd : L.dropWhile abn with
      | nil => rw [hd] at hb; cases hb
      | cons k B =>
        have hk : k.value.isNormal = true := by
          have := dropWhile_head_false abn L hd
          simpa [abn] using this
        rw [hd] at hb
        rcases List.mem_cons.1 hb with e | e
        · rw [e]; exact hk
        · have hL : L = L.takeWhile abn ++ k :: B := by
            rw [← hd]; exact (List.takeWhile_append_dropWhile).symm
          exact normal_after ho hL hk b e
  | after r =>
    simp only [Dest.insert, insertAfterTop]
    rcases replaceTop_split r (fun k => [k, t]) L with e | ⟨A, k, B, e1, e2, e3⟩
    · exact Or.inl e
    · have hk := href r (Or.inl rfl) k (by rw [e1]; simp) e2
      refine Or.inr ⟨A ++ [k], B, by rw [e1]; simp, by rw [e3]; simp, normal_after ho e1 hk⟩
  | before r =>
    simp only [Dest.insert, insertBeforeTop]
    rcases replaceTop_split r (fun k => [t, k]) L with e | ⟨A, k, B, e1, e2, e3⟩
    · exact Or.inl e
    · have hk := href r (Or.inr rfl) k (by rw [e1]; simp) e2
      refine Or.inr ⟨A, k :: B, e1, by rw [e3]; simp, ?_⟩
      intro b hb
      rcases List.mem_cons.1 hb with e | e
      · rw [e]; exact hk
      · exact normal_after ho e1 hk b e

theorem kidsOrdered_of_localOK {b : Bool} {v : Value} {L : List HTree} (h : localOK b v L = true) :
    kidsOrdered L = true := by
  simp only [localOK, Bool.and_eq_true] at h
  exact h.1.1.1.2

/-- Inserting a normal node the parent accepts keeps the child list locally fine. -/
theorem localOK_insert {v : Value} {L : List HTree} (dest : Dest) (t : HTree) (h : localOK false v L = true)
    (hal : kidAllowed v t.value = true) (hn : t.value.isNormal = true)
    (href : ∀ r, (dest = .after r ∨ dest = .before r) → ∀ k ∈ L, k.handle = r → k.value.isNormal = true) :
    localOK false v (dest.insert t L) = true := by
  rcases insert_split (kidsOrdered_of_localOK h) dest t href with e | ⟨A, B, e1, e2, e3⟩
  · rw [e]; exact h
  · rw [e2]
    rw [localOK_false_iff] at h ⊢
    rw [e1, List.map_append] at h
    rw [List.map_append, List.map_cons]
    apply h.insert
    · rw [shape, nv_kidAllowed]; exact hal
    · rw [shape, nv_category]; simpa [Value.isNormal] using hn
    · intro b hb
      obtain ⟨k, hk, e⟩ := List.mem_map.1 hb
      rw [← e, shape, nv_category]
      simpa [Value.isNormal] using e3 k hk

theorem validXList_insert {sx : Nat → Bool} {L : List HTree} (dest : Dest) (t : HTree)
    (h : validXList sx L = true) (ht : validX sx t = true) : validXList sx (dest.insert t L) = true := by
  apply validXList_of_mem
  intro k hk
  rcases mem_insert hk with e | e
  · rw [e]; exact ht
  · exact validXList_mem h k e

end Prog
end XotModel
