/-
  C10 and the round trip, part 4: `create_missing_prefixes` on a PARENTLESS element (a clone, a freshly
  built subtree): the document holding just the repaired element is in the C01 domain, and the
  serialiser's check on the wrapped document is the check on the element itself.
-/
import XotModel.Lemmas.RepairRoundTripDoc
import XotModel.Lemmas.RoundTripElement

namespace XotModel.Repair
open XotModel

/-- `to_string` finds a prefix for every name of the document holding just `T` iff it does for the
    parentless element `T` serialised on its own. -/
theorem namesWritable_wrap (env : Env) (name : Nat) (ks : List Tree) :
    namesWritable env (.node .document [.node (.element name) ks]) [] =
      namesWritable env (.node (.element name) ks) [] := by
  have h1 := pushTop_inScope_child (.node .document [.node (.element name) ks]) []
  have h2 := pushTop_inScope_child (.node (.element name) ks) []
  have hd : (Tree.node .document [.node (.element name) ks]).nsDecls = [] := by
    simp [Tree.nsDecls, Tree.namespaceNodes, Tree.kids, Tree.value, Value.category]
  rw [hd] at h1
  simp only [pushTop, List.isEmpty_nil, if_true] at h1
  simp only [namesWritable, Tree.ancestorsOrSelf, Tree.at?, namesWritableChain_eq, h1, Option.some.injEq]
  rw [okRec_other _ _ .document _ rfl]
  simp only [okKids, Bool.and_true, okRec, h2]

theorem stripNs_wrap {a b : Tree} (ha : a.value.isElement = true) (hb : b.value.isElement = true)
    (h : stripNs a = stripNs b) : stripNs (.node .document [a]) = stripNs (.node .document [b]) := by
  have ca : (a.value.category == Category.namespace) = false := by
    cases hv : a.value <;> simp [hv, Value.isElement, Value.category] at ha ⊢
  have cb : (b.value.category == Category.namespace) = false := by
    cases hv : b.value <;> simp [hv, Value.isElement, Value.category] at hb ⊢
  simp only [stripNs, stripNsKids, ca, cb, Bool.false_eq_true, if_false, h]

/-- The call on a parentless element whose one-element document is representable: the repaired
    element's one-element document is representable in the new tables. -/
theorem createMissingPrefixes_root_element_keeps (env : Env) (name : Nat) (ks : List Tree)
    (hr : Representable env (.node .document [.node (.element name) ks]) = true)
    (htab : nameTableOK env = true) (env' : Env) (T' : Tree)
    (h : createMissingPrefixes env (.node (.element name) ks) [] = .ok (env', T')) :
    PrefixExt env env' ∧ Keeps env' T' (.node (.element name) ks) ∧
      Representable env' (.node .document [T']) = true := by
  have hr0 := hr
  simp only [Representable, Bool.and_eq_true] at hr0
  obtain ⟨he, _, hok⟩ := allNodes_of_representableFragment hr0.1
  have hokT : (Tree.node (.element name) ks).allNodes (nodeOK env) = true := allNodes_kid hok (by simp)
  obtain ⟨e, k⟩ := createMissingPrefixes_element_keeps env he htab _ hokT [] name ks rfl env' T' h
  have hr1 := representable_ext e hr
  have hr1' := hr1
  simp only [Representable, Bool.and_eq_true] at hr1'
  obtain ⟨_, _, hok1⟩ := allNodes_of_representableFragment hr1'.1
  have kd : Keeps env' (.node .document [T']) (.node .document [.node (.element name) ks]) :=
    keeps_node .document (.cons k .nil) (nodeOK_of_allNodes hok1)
  exact ⟨e, k, representable_of_keeps hr1 kd⟩

end XotModel.Repair
