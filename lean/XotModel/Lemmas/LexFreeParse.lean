/-
  XotModel.Lemmas.LexFreeParse — one token with its layout: the token parsers of the reference
  tokenizer on `LToken.body` (any quote, any white space where the grammar allows it).  Byte
  positions are not tracked here (`∃ pos'`): the conclusions are about the tokens up to
  `Token.erase`; the canonical lemmas (Lemmas/LexCanonParse.lean) are the instances that also
  give the positions.
-/
import XotModel.Lemmas.LexFreeDefs

namespace XotModel.Lex.Free

open XotModel.Lex XotModel.Lex.Stream XotModel.Lex.Canon

/-! ### White space and quotes -/

theorem isWs_cons {c : Char} {w : Str} (h : isWs (c :: w) = true) : isXmlSpace c = true ∧ isWs w = true := by
  simpa [isWs] using h

theorem space_not_nameChar {c : Char} (h : isXmlSpace c = true) : isNameChar c = false := by
  simp only [isXmlSpace, Bool.or_eq_true, beq_iff_eq] at h
  rcases h with ((rfl | rfl) | rfl) | rfl <;> decide

/-- White space, then something that stops `f`, stops `f` when `f` rejects white space. -/
theorem stops_ws_app {f : Char → Bool} {w r : Str} (hf : ∀ c, isXmlSpace c = true → f c = false)
    (hw : isWs w = true) (hr : Stops f r) : Stops f (w ++ r) := by
  cases w with
  | nil => exact hr
  | cons c cs => exact Stops.cons _ (hf c (isWs_cons hw).1)

theorem skipSpaces_ws (pos : Nat) {w r : Str} (hw : isWs w = true) (hr : Stops isXmlSpace r) :
    skipSpaces ⟨pos, w ++ r⟩ = ⟨pos + strLen w, r⟩ :=
  skipBytes_app pos hw hr

theorem startsWithSpace_ws (pos : Nat) {w r : Str} (hw : isWs w = true) (hne : w ≠ []) :
    startsWithSpace ⟨pos, w ++ r⟩ = true := by
  cases w with
  | nil => exact absurd rfl hne
  | cons c cs => simpa [startsWithSpace] using (isWs_cons hw).1

theorem quote_cases (b : Bool) : quoteChar b = '"' ∨ quoteChar b = '\'' := by
  cases b <;> simp [quoteChar]

theorem quote_not_space (b : Bool) : isXmlSpace (quoteChar b) = false := by cases b <;> decide
theorem quote_xmlChar (b : Bool) : isXmlChar (quoteChar b) = true := by cases b <;> decide
theorem quote_not_nameChar (b : Bool) : isNameChar (quoteChar b) = false := by cases b <;> decide
theorem utf8Len_quote (b : Bool) : utf8Len (quoteChar b) = 1 := by cases b <;> decide

theorem consumeQuote_q (b : Bool) (p : Nat) (r : Str) :
    consumeQuote ⟨p, quoteChar b :: r⟩ = some (quoteChar b, ⟨p + 1, r⟩) := by
  cases b <;> simp [consumeQuote, curr?, adv_one, quoteChar, utf8Len]

theorem consumeEq_ws (p : Nat) {e1 e2 r : Str} (h1 : isWs e1 = true) (h2 : isWs e2 = true)
    (hr : Stops isXmlSpace r) :
    consumeEq ⟨p, e1 ++ '=' :: (e2 ++ r)⟩ = some ⟨p + strLen e1 + 1 + strLen e2, r⟩ := by
  have hs1 : Stops isXmlSpace ('=' :: (e2 ++ r)) := Stops.cons _ (by decide)
  simp [consumeEq, skipSpaces_ws _ h1 hs1, consumeByte_self, skipSpaces_ws _ h2 hr,
    show utf8Len '=' = 1 from by decide]

/-! ### Start tags -/

/-- An attribute: white space, name, `=` with white space around it, either quote. -/
theorem parseAttribute_attrL (pos : Nat) (p l v sp : StrSpan) (w e1 e2 : Str) (b : Bool) (r : Str)
    (h : qnameOK p.text l.text = true) (hw : isWs w = true) (hne : w ≠ [])
    (h1 : isWs e1 = true) (h2 : isWs e2 = true)
    (hv : v.text.all (fun c => isXmlChar c && c != quoteChar b && c != '<') = true) :
    ∃ p' l' v' sp' pos', parseAttribute ⟨pos, w ++ (tokQName p.text l.text ++
        (e1 ++ '=' :: (e2 ++ quoteChar b :: (v.text ++ quoteChar b :: r))))⟩ =
          some (.attribute p' l' v' sp', ⟨pos', r⟩) ∧
      (Token.attribute p' l' v' sp').ReadAs (Token.attribute p l v sp) := by
  obtain ⟨qc, qs, hq, hqc⟩ := tokQName_head h
  have hrest : Stops isXmlSpace (tokQName p.text l.text ++
      (e1 ++ '=' :: (e2 ++ quoteChar b :: (v.text ++ quoteChar b :: r)))) := by
    rw [hq]; exact Stops.cons _ (nameStart_not_space hqc)
  have es := skipSpaces_ws pos hw hrest
  have hsp := startsWithSpace_ws pos (r := tokQName p.text l.text ++
      (e1 ++ '=' :: (e2 ++ quoteChar b :: (v.text ++ quoteChar b :: r)))) hw hne
  have hc1 : ((Stream.mk (pos + strLen w) (tokQName p.text l.text ++
      (e1 ++ '=' :: (e2 ++ quoteChar b :: (v.text ++ quoteChar b :: r))))).curr? == some '/') = false := by
    rw [hq]; simp [curr?, nameStart_ne hqc (d := '/') (by decide)]
  have hc2 : ((Stream.mk (pos + strLen w) (tokQName p.text l.text ++
      (e1 ++ '=' :: (e2 ++ quoteChar b :: (v.text ++ quoteChar b :: r))))).curr? == some '>') = false := by
    rw [hq]; simp [curr?, nameStart_ne hqc (d := '>') (by decide)]
  have heq : Stops isNameChar (e1 ++ '=' :: (e2 ++ quoteChar b :: (v.text ++ quoteChar b :: r))) :=
    stops_ws_app (fun _ => space_not_nameChar) h1 (Stops.cons _ (by decide))
  have hs3 : Stops isXmlSpace (quoteChar b :: (v.text ++ quoteChar b :: r)) :=
    Stops.cons _ (quote_not_space b)
  have hv' : v.text.all (fun c => isXmlChar c && (fun c => c != quoteChar b && c != '<') c) = true := by
    simpa [Bool.and_assoc] using hv
  have hscan := scanChars_simple (g := fun c => c != quoteChar b && c != '<') (a := v.text)
    (r := quoteChar b :: r) hv' (.inr ⟨quoteChar b, r, rfl, quote_xmlChar b, by simp⟩)
  have e5 := fun q => skipChars_of_scan (f := fun _ c => c != quoteChar b && c != '<') q hscan
  simp only [parseAttribute, hsp, es, hc1, hc2, Bool.false_eq_true, if_false, Bool.not_true,
    Option.bind_eq_bind, consumeQName_app _ h heq, Option.bind_some, consumeEq_ws _ h1 h2 hs3,
    consumeQuote_q, e5, consumeByte_self]
  refine ⟨_, _, _, _, _, rfl, ?_, by simp [Token.prefixOk, placeQName_bareColon]⟩
  simp only [Token.erase, (placeQName_erase _ p l).1, (placeQName_erase _ p l).2]
  rw [sliceBack_eq v.text rfl]
  rfl

/-- `>` after any white space. -/
theorem parseAttribute_openL (pos : Nat) (w r : Str) (hw : isWs w = true) :
    ∃ sp' pos', parseAttribute ⟨pos, w ++ '>' :: r⟩ = some (.elementEnd .open sp', ⟨pos', r⟩) := by
  have hsp : Stops isXmlSpace ('>' :: r) := Stops.cons r (by decide)
  simp only [parseAttribute, skipSpaces_ws _ hw hsp, curr?_cons, adv_one]
  exact ⟨_, _, rfl⟩

/-- `/>` after any white space. -/
theorem parseAttribute_emptyL (pos : Nat) (w r : Str) (hw : isWs w = true) :
    ∃ sp' pos', parseAttribute ⟨pos, w ++ '/' :: '>' :: r⟩ = some (.elementEnd .empty sp', ⟨pos', r⟩) := by
  have hsp : Stops isXmlSpace ('/' :: '>' :: r) := Stops.cons _ (by decide)
  simp only [parseAttribute, skipSpaces_ws _ hw hsp, curr?_cons, adv_one, consumeByte_self,
    Option.bind_eq_bind, Option.bind_some, beq_self_eq_true, if_true]
  exact ⟨_, _, rfl⟩

/-! ### End tags -/

theorem parseCloseElement_L (pos : Nat) (p l sp : StrSpan) (w r : Str)
    (h : qnameOK p.text l.text = true) (hw : isWs w = true) :
    ∃ t' pos', parseCloseElement ⟨pos, '<' :: '/' :: (tokQName p.text l.text ++ (w ++ '>' :: r))⟩ =
        some (t', ⟨pos', r⟩) ∧ t'.ReadAs (Token.elementEnd (.close p l) sp) := by
  have hgt : Stops isNameChar (w ++ '>' :: r) :=
    stops_ws_app (fun _ => space_not_nameChar) hw (Stops.cons r (by decide))
  have hsp : Stops isXmlSpace ('>' :: r) := Stops.cons r (by decide)
  have e2 : (Stream.mk pos ('<' :: '/' :: (tokQName p.text l.text ++ (w ++ '>' :: r)))).adv 2 =
      ⟨pos + 2, tokQName p.text l.text ++ (w ++ '>' :: r)⟩ := by
    rw [show '<' :: '/' :: (tokQName p.text l.text ++ (w ++ '>' :: r)) =
      ['<', '/'] ++ (tokQName p.text l.text ++ (w ++ '>' :: r)) from rfl, adv_app pos _ _ 2 rfl]
    rfl
  simp only [parseCloseElement, Option.bind_eq_bind, e2, consumeQName_app (pos + 2) h hgt,
    Option.bind_some, skipSpaces_ws _ hw hsp, consumeByte_self]
  refine ⟨_, _, rfl, ?_, by simp [Token.prefixOk, placeQName_bareColon]⟩
  simp only [Token.erase, (placeQName_erase _ p l).1, (placeQName_erase _ p l).2]

/-! ### Processing instructions -/

theorem adv_two (pos : Nat) (a b : Char) (r : Str) :
    (Stream.mk pos (a :: b :: r)).adv 2 = ⟨pos + strLen [a, b], r⟩ :=
  adv_app pos [a, b] r 2 rfl

/-- A PI without content: any white space before `?>`. -/
theorem parsePI_noneL (pos : Nat) (t sp : StrSpan) (w r : Str) (h : nameOK t.text = true)
    (hw : isWs w = true) :
    ∃ t' pos', parsePI ⟨pos, '<' :: '?' :: (t.text ++ (w ++ '?' :: '>' :: r))⟩ = some (t', ⟨pos', r⟩) ∧
      t'.erase = (Token.pi t none sp).erase := by
  have hq : Stops isNameChar (w ++ '?' :: '>' :: r) :=
    stops_ws_app (fun _ => space_not_nameChar) hw (Stops.cons _ (by decide))
  have hs : Stops isXmlSpace ('?' :: '>' :: r) := Stops.cons _ (by decide)
  have hscan := scanChars_pi (a := []) (r := r) (by simp) (by simp [hasInfix, litPiClose])
  have e := fun q => skipChars_of_scan (a := []) q hscan
  simp only [List.nil_append, strLen, Nat.add_zero] at e
  simp only [parsePI, Option.bind_eq_bind, adv_two, consumeName_app _ h hq, Option.bind_some,
    skipSpaces_ws _ hw hs, e]
  rw [show '?' :: '>' :: r = litPiClose ++ r from rfl, skipString_app]
  simp only [Option.bind_some]
  rw [sliceBack_eq [] rfl]
  exact ⟨_, _, rfl, rfl⟩

/-- A PI with content: at least one white-space character between target and content. -/
theorem parsePI_someL (pos : Nat) (t c sp : StrSpan) (w r : Str)
    (h : (Token.pi t (some c) sp).lexOK = true) (hw : isWs w = true) (hne : w ≠ []) :
    ∃ t' pos', parsePI ⟨pos, '<' :: '?' :: (t.text ++ (w ++ (c.text ++ '?' :: '>' :: r)))⟩ =
        some (t', ⟨pos', r⟩) ∧ t'.erase = (Token.pi t (some c) sp).erase := by
  simp only [Token.lexOK, Bool.and_eq_true, Bool.not_eq_true', List.isEmpty_eq_false_iff] at h
  obtain ⟨⟨⟨⟨⟨hname, _⟩, hcne⟩, hhead⟩, hall⟩, hinf⟩ := h
  obtain ⟨cc, cs, hc⟩ := List.exists_cons_of_ne_nil hcne
  have hcc : isXmlSpace cc = false := by simpa [hc] using hhead
  have hs : Stops isXmlSpace (c.text ++ '?' :: '>' :: r) := by
    rw [hc]; exact Stops.cons _ hcc
  have hq : Stops isNameChar (w ++ (c.text ++ '?' :: '>' :: r)) := by
    obtain ⟨wc, ws, rfl⟩ := List.exists_cons_of_ne_nil hne
    exact Stops.cons _ (space_not_nameChar (isWs_cons hw).1)
  have hscan := scanChars_pi (r := r) hall hinf
  have e := fun q => skipChars_of_scan q hscan
  simp only [parsePI, Option.bind_eq_bind, adv_two, consumeName_app _ hname hq, Option.bind_some,
    skipSpaces_ws _ hw hs, e]
  rw [show '?' :: '>' :: r = litPiClose ++ r from rfl, skipString_app]
  simp only [Option.bind_some]
  rw [sliceBack_eq c.text rfl]
  have hce : c.text.isEmpty = false := by simp [hc]
  simp only [hce, Bool.false_eq_true, if_false]
  exact ⟨_, _, rfl, rfl⟩

/-- `<?xml ` does not begin a PI whose target is not `xml`, nor `<?xml?>`. -/
theorem not_xmldecl {t rest : Str} (h : nameOK t = true) (hr : Stops isNameChar rest)
    (hx : t ≠ ['x', 'm', 'l'] ∨ rest.head? ≠ some ' ') :
    litXmlDecl.isPrefixOf ('<' :: '?' :: (t ++ rest)) = false := by
  obtain ⟨a, as, rfl, _, h2⟩ := nameOK_cons h
  apply Bool.eq_false_iff.mpr
  intro hp
  simp only [litXmlDecl, List.cons_append, List.isPrefixOf_cons_cons, beq_self_eq_true, Bool.true_and,
    Bool.and_eq_true, beq_iff_eq] at hp
  rcases as with _ | ⟨b, _ | ⟨c, _ | ⟨d, ds⟩⟩⟩
  · cases rest with
    | nil => simp at hp
    | cons r1 rs =>
      have := hr r1 rfl
      simp only [List.nil_append, List.isPrefixOf_cons_cons, Bool.and_eq_true, beq_iff_eq] at hp
      rw [← hp.2.1] at this; revert this; decide
  · cases rest with
    | nil => simp at hp
    | cons r1 rs =>
      have := hr r1 rfl
      simp only [List.cons_append, List.nil_append, List.isPrefixOf_cons_cons, Bool.and_eq_true,
        beq_iff_eq] at hp
      rw [← hp.2.2.1] at this; revert this; decide
  · cases rest with
    | nil => simp at hp
    | cons r1 rs =>
      simp only [List.cons_append, List.nil_append, List.isPrefixOf_cons_cons, Bool.and_eq_true,
        beq_iff_eq] at hp
      obtain ⟨h1, h2', h3, h4, _⟩ := hp
      subst h1 h2' h3 h4
      simp at hx
  · simp only [List.cons_append, List.isPrefixOf_cons_cons, Bool.and_eq_true, beq_iff_eq] at hp
    simp only [List.all_cons, Bool.and_eq_true] at h2
    have := h2.2.2.1
    rw [← hp.2.2.2.1] at this; revert this; decide

end XotModel.Lex.Free
