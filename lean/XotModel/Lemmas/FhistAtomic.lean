/-
  Fhist (extended histories), part 2: C06 for every extended call (`Forest.XCall`,
  Model/FhistSpec.lean): an error leaves forest AND interning tables as they were, the only panics
  are the documented ones of `Forest.Call`, no indextree primitive is used outside its list
  semantics; what exactly the composites answer.
-/
import XotModel.Lemmas.FhistExt
import XotModel.Lemmas.FatomAll
import XotModel.Lemmas.FpxDedup

namespace XotModel
namespace Forest

/-- C06 for one extended call with result `r` from state `s`. -/
structure XClauses (s : Store) (r : Store × Res) : Prop where
  atomic : ∀ e, r.2 = .err e → r.1 = s
  noPanic : r.2 ≠ .panic
  notCorrupt : r.1.forest.corrupt = false

/-- The three cases of `create_missing_prefixes` are exhaustive: `Ok`, or one of the two refusals with
    NOTHING changed. -/
theorem fpx_createMissingPrefixes_cases {f : Forest} (hi : f.Inv) (env : Env) (node : Nat) :
    (f.createMissingPrefixes env node).2.2 = .ok ∨
    (f.isDocument node = false ∧ f.isElement node = false ∧
      f.createMissingPrefixes env node = (f, env, .err .notElement)) ∨
    (f.isDocument node = true ∧ (∀ t, f.get? node = some t → ∀ k ∈ t.kids, k.value.isElement = false) ∧
      f.createMissingPrefixes env node = (f, env, .err .noElementAtTopLevel)) := by
  obtain ⟨h1, h2, h3⟩ := fpx_createMissingPrefixes hi env node
  cases hd : f.isDocument node with
  | false =>
    cases he : f.isElement node with
    | false => exact Or.inr (Or.inl ⟨rfl, rfl, h1 hd he⟩)
    | true => exact Or.inl (h3 (Or.inl he))
  | true =>
    by_cases hk : ∃ t k, f.get? node = some t ∧ k ∈ t.kids ∧ k.value.isElement = true
    · exact Or.inl (h3 (Or.inr ⟨hd, hk⟩))
    · have hno : ∀ t, f.get? node = some t → ∀ k ∈ t.kids, k.value.isElement = false := by
        intro t hg k hkm
        cases hv : k.value.isElement with
        | false => rfl
        | true => exact absurd ⟨t, k, hg, hkm, hv⟩ hk
      exact Or.inr (Or.inr ⟨rfl, hno, h2 hd hno⟩)

/-- The insertion loop of `clone_with_prefixes` on an ELEMENT of a forest with the invariant runs to its
    end: every `namespaces_mut(clone).insert` answers `Ok`. -/
theorem addPrefixes_ok : ∀ (order : List (Nat × Nat)) {f : Forest}, f.Inv → ∀ c : Nat,
    f.isElement c = true → (f.addPrefixes c order).2 = .ok
  | [], _, _, _, _ => rfl
  | (p, ns) :: rest, f, hi, c, he => by
    unfold addPrefixes
    split
    · exact addPrefixes_ok rest hi c he
    · obtain ⟨h1, h2, h3⟩ := fpx_call_ok hi (c := .mapInsert .namespaces c (.namespace p ns)) he
      change (f.mapInsert .namespaces c (.namespace p ns)).2 = .ok at h1
      change (f.mapInsert .namespaces c (.namespace p ns)).1.Inv at h2
      change ∀ x, (f.mapInsert .namespaces c (.namespace p ns)).1.isElement x = f.isElement x at h3
      rcases hm : f.mapInsert .namespaces c (.namespace p ns) with ⟨f', r⟩
      rw [hm] at h1 h2 h3
      simp only at h1 h2 h3
      subst h1
      exact addPrefixes_ok rest h2 c (by rw [h3]; exact he)

/-- `clone_with_prefixes` of a live node returns a node: `clone_node` does (`cloneNode_spec`), and the
    insertions are made on the clone only if it is an element. -/
theorem cloneWithPrefixes_isSome {f : Forest} (hi : f.Inv) {node : Nat} (hl : f.isLive node = true)
    (order : List (Nat × Nat)) : (f.cloneWithPrefixes node order).2.isSome = true := by
  have h0 := (cloneNode_spec hi hl).1
  have h1 : (f.cloneNode node).1.Inv := step_inv hi (.cloneNode node) rfl
  unfold cloneWithPrefixes
  rcases hc : f.cloneNode node with ⟨f1, oc⟩
  rw [hc] at h0 h1
  cases oc with
  | none => exact absurd rfl h0
  | some c =>
    simp only
    split
    · rename_i he
      have h2 := addPrefixes_ok order h1 c he
      rcases ha : f1.addPrefixes c order with ⟨f2, r⟩
      rw [ha] at h2
      simp only at h2
      subst h2
      rfl
    · rfl

/-- The three clauses, or the documented panic with nothing changed. -/
theorem xcall_clauses {s : Store} (hi : s.forest.Inv) (c : XCall) (hl : c.liveArgs s.forest) :
    (c.documentedPanic s.forest = false ∧ XClauses s (c.run s)) ∨
    (c.documentedPanic s.forest = true ∧ c.run s = (s, .panic)) := by
  cases c with
  | call c =>
    rcases call_clauses hi c hl with ⟨h1, h2⟩ | ⟨h1, h2⟩
    · refine Or.inl ⟨h1, ⟨fun e he => ?_, h2.noPanic, h2.notCorrupt⟩⟩
      have : (c.run s.forest).1 = s.forest := h2.atomic e he
      show (⟨(c.run s.forest).1, s.env⟩ : Store) = s
      rw [this]
    · refine Or.inr ⟨h1, ?_⟩
      show ((⟨(c.run s.forest).1, s.env⟩ : Store), (c.run s.forest).2) = (s, .panic)
      rw [h2]
  | newNode v =>
    exact Or.inl ⟨rfl, ⟨fun e he => (by cases he), fun h => (by cases h), (newNode_inv hi v).notCorrupt⟩⟩
  | setConsolidation b =>
    exact Or.inl ⟨rfl, ⟨fun e he => (by cases he), fun h => (by cases h), (setConsolidation_inv hi b).notCorrupt⟩⟩
  | removeInsignificantWhitespace n =>
    exact Or.inl ⟨rfl, ⟨fun e he => (by cases he), fun h => (by cases h),
      (removeInsignificantWhitespace_inv hi n).notCorrupt⟩⟩
  | createMissingPrefixes n =>
    refine Or.inl ⟨rfl, ⟨fun e he => ?_, fun h => ?_, (createMissingPrefixes_inv hi s.env n).notCorrupt⟩⟩
    · change (s.forest.createMissingPrefixes s.env n).2.2 = .err e at he
      show (⟨(s.forest.createMissingPrefixes s.env n).1, (s.forest.createMissingPrefixes s.env n).2.1⟩ : Store) = s
      rcases fpx_createMissingPrefixes_cases hi s.env n with h1 | ⟨_, _, h1⟩ | ⟨_, _, h1⟩
      · rw [h1] at he; cases he
      · rw [h1]
      · rw [h1]
    · change (s.forest.createMissingPrefixes s.env n).2.2 = .panic at h
      rcases fpx_createMissingPrefixes_cases hi s.env n with h1 | ⟨_, _, h1⟩ | ⟨_, _, h1⟩ <;>
        rw [h1] at h <;> cases h
  | deduplicateNamespaces n =>
    have h1 := (fpx_deduplicateNamespaces hi s.env n).1
    refine Or.inl ⟨rfl, ⟨fun e he => ?_, fun h => ?_, (deduplicateNamespaces_inv hi s.env n).notCorrupt⟩⟩
    · change (s.forest.deduplicateNamespaces s.env n).2 = .err e at he
      rw [h1] at he; cases he
    · change (s.forest.deduplicateNamespaces s.env n).2 = .panic at h
      rw [h1] at h; cases h
  | cloneWithPrefixes n order =>
    have h1 := cloneWithPrefixes_isSome hi (hl n (by simp [XCall.args])) order
    refine Or.inl ⟨rfl, ⟨fun e he => ?_, fun h => ?_, (cloneWithPrefixes_inv hi n order).notCorrupt⟩⟩
    · change (if (s.forest.cloneWithPrefixes n order).2.isSome then Res.ok else Res.panic) = .err e at he
      rw [h1] at he; cases he
    · change (if (s.forest.cloneWithPrefixes n order).2.isSome then Res.ok else Res.panic) = .panic at h
      rw [h1] at h; cases h

/-- What the steps that are not calls of `Forest.Call` answer, exactly: node creation,
    `set_text_consolidation`, `remove_insignificant_whitespace` and `deduplicate_namespaces` answer
    `Ok` for EVERY argument (live or not); `clone_with_prefixes` answers `Ok` on a live node;
    `create_missing_prefixes` answers `Ok` or refuses with `NotElement` (node neither element nor
    document) / `NoElementAtTopLevel` (document without element child) — for every argument, live or
    not — with forest and interning tables returned as they were. -/
theorem xcall_outcomes {s : Store} (hi : s.forest.Inv) :
    (∀ v, ((XCall.newNode v).run s).2 = .ok) ∧
    (∀ b, ((XCall.setConsolidation b).run s).2 = .ok) ∧
    (∀ n, ((XCall.removeInsignificantWhitespace n).run s).2 = .ok) ∧
    (∀ n, ((XCall.deduplicateNamespaces n).run s).2 = .ok ∧
      ((XCall.deduplicateNamespaces n).run s).1.env = s.env) ∧
    (∀ n order, s.forest.isLive n = true → ((XCall.cloneWithPrefixes n order).run s).2 = .ok ∧
      ((XCall.cloneWithPrefixes n order).run s).1.env = s.env) ∧
    (∀ n, ((XCall.createMissingPrefixes n).run s).2 = .ok ∨
      (s.forest.isDocument n = false ∧ s.forest.isElement n = false ∧
        (XCall.createMissingPrefixes n).run s = (s, .err .notElement)) ∨
      (s.forest.isDocument n = true ∧
        (∀ t, s.forest.get? n = some t → ∀ k ∈ t.kids, k.value.isElement = false) ∧
        (XCall.createMissingPrefixes n).run s = (s, .err .noElementAtTopLevel))) := by
  refine ⟨fun _ => rfl, fun _ => rfl, fun _ => rfl,
    fun n => ⟨(fpx_deduplicateNamespaces hi s.env n).1, rfl⟩, fun n order hl => ⟨?_, rfl⟩, fun n => ?_⟩
  · show (if (s.forest.cloneWithPrefixes n order).2.isSome then Res.ok else Res.panic) = .ok
    rw [cloneWithPrefixes_isSome hi hl order]; rfl
  · rcases fpx_createMissingPrefixes_cases hi s.env n with h1 | ⟨h0, h0', h1⟩ | ⟨h0, h0', h1⟩
    · exact Or.inl h1
    · refine Or.inr (Or.inl ⟨h0, h0', ?_⟩)
      show ((⟨(s.forest.createMissingPrefixes s.env n).1, (s.forest.createMissingPrefixes s.env n).2.1⟩ : Store),
        (s.forest.createMissingPrefixes s.env n).2.2) = _
      rw [h1]
    · refine Or.inr (Or.inr ⟨h0, h0', ?_⟩)
      show ((⟨(s.forest.createMissingPrefixes s.env n).1, (s.forest.createMissingPrefixes s.env n).2.1⟩ : Store),
        (s.forest.createMissingPrefixes s.env n).2.2) = _
      rw [h1]

end Forest
end XotModel
