/-
  Locality for every call (C12), part 1: a separated root `r` whose handles were all handed out
  already (`Below`) is left exactly as it is by `replace`, `element_wrap`, `element_unwrap`, the
  node-map calls, `any_append`, `text_content_mut().set` and `remove_insignificant_whitespace`
  when none of their node arguments lies in `r`.  No invariant is needed: the statements hold for
  all forests and all arguments, whatever the call answers.
-/
import XotModel.Lemmas.FlocalNext

namespace XotModel
open HTree

/-- `r` is a separated root of `f` and all its handles are below `f.next`. -/
structure SepB (r : HTree) (f : Forest) : Prop where
  sep : Sep r f
  below : Below r f

theorem Below.le {r : HTree} {f f' : Forest} (hb : Below r f) (hle : Forest.NLe f f') : Below r f' :=
  fun a ha => Nat.lt_of_lt_of_le (hb a ha) hle

mutual
  theorem ctxBelow_parent_mem (h : Nat) : ∀ (t : HTree) (c : Ctx), ctxBelow h t = some c →
      c.parent ∈ handles t
    | .node p v ks, c => by
      intro hc
      unfold ctxBelow at hc
      rcases ctxKids_parent_mem h p ks [] c hc with e | e
      · simp [handles, e]
      · simp [handles, e]
  theorem ctxKids_parent_mem (h p : Nat) : ∀ (ks left : List HTree) (c : Ctx),
      ctxKids h p left ks = some c → c.parent = p ∨ c.parent ∈ handlesList ks
    | [], left, c => by intro hc; simp [ctxKids] at hc
    | k :: ks, left, c => by
      intro hc
      unfold ctxKids at hc
      by_cases e : k.handle = h
      · rw [if_pos e] at hc
        cases hc
        exact Or.inl rfl
      · rw [if_neg e] at hc
        cases hb : ctxBelow h k with
        | some c' =>
          rw [hb] at hc
          cases hc
          right
          simp [handlesList, ctxBelow_parent_mem h k _ hb]
        | none =>
          rw [hb] at hc
          rcases ctxKids_parent_mem h p ks (left ++ [k]) c hc with x | x
          · exact Or.inl x
          · right; simp [handlesList, x]
end

mutual
  theorem descendantsNormal_mem : ∀ (t : HTree) (x : Nat), x ∈ Forest.descendantsNormal t → x ∈ handles t
    | .node h v ks, x => by
      intro hx
      unfold Forest.descendantsNormal at hx
      rw [List.mem_append] at hx
      simp only [handles, List.mem_cons]
      rcases hx with hx | hx
      · split at hx
        · simp only [List.mem_singleton] at hx; exact Or.inl hx
        · cases hx
      · exact Or.inr (descendantsNormalList_mem ks x hx)
  theorem descendantsNormalList_mem : ∀ (ks : List HTree) (x : Nat),
      x ∈ Forest.descendantsNormalList ks → x ∈ handlesList ks
    | [], x => by intro hx; simp [Forest.descendantsNormalList] at hx
    | k :: ks, x => by
      intro hx
      unfold Forest.descendantsNormalList at hx
      rw [List.mem_append] at hx
      simp only [handlesList, List.mem_append]
      rcases hx with hx | hx
      · exact Or.inl (descendantsNormal_mem k x hx)
      · exact Or.inr (descendantsNormalList_mem ks x hx)
end

namespace Sep

variable {r : HTree} {f : Forest}

theorem parent?_disj (s : Sep r f) {h p : Nat} (hn : h ∉ handles r) (hp : f.parent? h = some p) :
    p ∉ handles r := by
  unfold Forest.parent? at hp
  cases hc : f.ctx? h with
  | none => simp [hc] at hp
  | some c =>
    rw [hc] at hp
    simp only [Option.map_some, Option.some.injEq] at hp
    subst hp
    obtain ⟨t, ht, hb⟩ := findSome?_root (ctxBelow h) f.roots c hc
    obtain ⟨h1, _, h3, _⟩ := ctxBelow_sub h t c hb
    have hmem : h ∈ handles t := h3 h (h1 ▸ fc_handle_mem_handles c.self)
    have htr : t ≠ r := fun e => hn (e ▸ hmem)
    intro har
    exact s.disj t ht htr _ har (ctxBelow_parent_mem h t c hb)

/-- A list of `remove` calls on handles outside `r`. -/
theorem foldl_remove {α : Type} (g : α → Nat) : ∀ (xs : List α) {f : Forest}, Sep r f →
    (∀ x ∈ xs, g x ∉ handles r) → Sep r (xs.foldl (fun acc c => (acc.remove (g c)).1) f)
  | [], _, s, _ => s
  | x :: xs, f, s, h => by
    simp only [List.foldl_cons]
    exact foldl_remove g xs (s.remove (h x (by simp))) (fun y hy => h y (by simp [hy]))

theorem foldl_spliceOut : ∀ (xs : List HTree) {f : Forest}, Sep r f →
    (∀ x ∈ xs, x.handle ∉ handles r) → Sep r (xs.foldl (fun acc k => acc.spliceOut k.handle) f)
  | [], _, s, _ => s
  | x :: xs, f, s, h => by
    simp only [List.foldl_cons]
    exact foldl_spliceOut xs (s.spliceOut (h x (by simp))) (fun y hy => h y (by simp [hy]))

/-- The children of a node outside `r` lie outside `r`. -/
theorem kids_disj (s : Sep r f) {h : Nat} (hn : h ∉ handles r) {t0 : HTree} (hg : f.get? h = some t0) :
    ∀ k ∈ t0.kids, ∀ a ∈ handles k, a ∉ handles r :=
  fun k hk a ha har => s.get?_disj hn hg a har (kids_handles_sub t0 k hk a ha)

theorem mapRemove (s : Sep r f) {k : Forest.MapKind} {p : Nat} (hp : p ∉ handles r) (key : Nat) :
    Sep r (f.mapRemove k p key).1 := by
  unfold Forest.mapRemove
  split
  · exact s
  · cases hg : f.mapGetNode k p key with
    | some n => exact s.remove (s.mapGetNode_disj hp hg)
    | none => exact s

theorem mapClear (s : Sep r f) {k : Forest.MapKind} {p : Nat} (hp : p ∉ handles r) :
    Sep r (f.mapClear k p).1 := by
  unfold Forest.mapClear
  split
  · exact s
  · cases hg : f.get? p with
    | none => exact s
    | some t0 =>
      simp only
      apply foldl_remove (fun c : HTree => c.handle) _ s
      intro x hx
      exact s.kids_disj hp hg x (mapChildren_sub k t0 x hx) _ (fc_handle_mem_handles x)

theorem mapInsertNode (s : Sep r f) (hb : Below r f) {k : Forest.MapKind} {p n : Nat}
    (hp : p ∉ handles r) (hn : n ∉ handles r) : Sep r (f.mapInsertNode k p n).1 := by
  unfold Forest.mapInsertNode
  cases f.value? n with
  | none => exact s
  | some v =>
    simp only
    split
    · exact s
    · cases hg : f.mapGetNode k p (Forest.entryKey v) with
      | some e => exact s.setValue (s.mapGetNode_disj hp hg) _
      | none => exact (s.mapPlace hb hp hn).1

theorem appendEntryNode (s : Sep r f) (hb : Below r f) {k : Forest.MapKind} {p n : Nat}
    (hp : p ∉ handles r) (hn : n ∉ handles r) : Sep r (f.appendEntryNode k p n).1 := by
  unfold Forest.appendEntryNode
  split
  · exact s
  · cases f.value? n with
    | none => exact s
    | some v =>
      simp only
      split
      · exact s
      · exact s.mapInsertNode hb hp hn

theorem anyAppend (s : Sep r f) (hb : Below r f) {p n : Nat}
    (hp : p ∉ handles r) (hn : n ∉ handles r) : Sep r (f.anyAppend p n).1 := by
  unfold Forest.anyAppend
  split
  · exact s.appendEntryNode hb hp hn
  · exact s.appendEntryNode hb hp hn
  · exact s.append hp hn

theorem setConsolidation (s : Sep r f) (b : Bool) : Sep r (f.setConsolidation b) := s.of_roots rfl

theorem textContentSet (s : Sep r f) (hb : Below r f) {n : Nat} (hn : n ∉ handles r) (str : Str) :
    Sep r (f.textContentSet n str).1 := by
  unfold Forest.textContentSet
  cases hfc : f.firstChild n with
  | some child =>
    simp only
    split
    · exact s
    · split
      · exact s.setValue (s.firstChild_disj hn hfc) _
      · exact s
  | none =>
    simp only
    split
    · obtain ⟨s1, b1, h1⟩ := s.newNode hb (.text [])
      unfold Forest.newText
      generalize f.newNode (.text []) = nn at s1 b1 h1 ⊢
      obtain ⟨f1, t⟩ := nn
      simp only at s1 b1 h1 ⊢
      have s2 := s1.append hn h1
      generalize f1.append n t = ap at s2 ⊢
      obtain ⟨f2, res⟩ := ap
      simp only at s2 ⊢
      cases res with
      | ok =>
        simp only
        cases hfc2 : f2.firstChild n with
        | some c =>
          simp only
          split
          · exact s2.setValue (s2.firstChild_disj hn hfc2) _
          · exact s2
        | none => exact s2
      | err e => exact s2
      | panic => exact s2
    · exact s

theorem removeInsignificantWhitespace (s : Sep r f) {n : Nat} (hn : n ∉ handles r) :
    Sep r (f.removeInsignificantWhitespace n) := by
  unfold Forest.removeInsignificantWhitespace
  cases hg : f.get? n with
  | none => exact s
  | some t0 =>
    simp only
    have s0 : Sep r ({ f with consolidation := false } : Forest) := s.of_roots rfl
    have hd := s.get?_disj hn hg
    have s1 := foldl_remove (fun x : Nat => x)
      ((Forest.descendantsNormal t0).filter f.isInsignificantWhitespace) s0 (by
        intro x hx har
        have hx' := (List.mem_filter.mp hx).1
        exact hd x har (descendantsNormal_mem t0 x hx'))
    exact s1.of_roots rfl

end Sep
end XotModel
