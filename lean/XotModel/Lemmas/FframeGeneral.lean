/-
  FframeGeneral — the general child-list frame (`C05_frame_general`, Props/C05.lean): a live node that is not in
  `XCall.writtenParents` and not inside a removed subtree keeps its value, the handles of its children (in order)
  and its parent.  Constructor by constructor over the domain `XCall.framed` (Model/FframeSpec.lean).
-/
import XotModel.Model.FframeSpec
import XotModel.Lemmas.FspecSet2

namespace XotModel
open HTree Spec

/-- What the frame says of one node: still live, same value, same children (handles, in order). -/
structure Forest.FrameAt (f f' : Forest) (h : Nat) : Prop where
  live : f'.isLive h = true
  value : f'.value? h = f.value? h
  kids : f'.kidHandles h = f.kidHandles h

theorem Forest.FrameAt.of_get {f f' : Forest} {h : Nat} {t t' : HTree} (hg : f.get? h = some t)
    (hg' : f'.get? h = some t') (hv : t'.value = t.value)
    (hk : t'.kids.map (·.handle) = t.kids.map (·.handle)) : Forest.FrameAt f f' h := by
  refine ⟨?_, ?_, ?_⟩
  · unfold Forest.isLive; rw [hg']; rfl
  · unfold Forest.value?; rw [hg, hg', Option.map_some, Option.map_some, hv]
  · unfold Forest.kidHandles; rw [hg, hg']; exact hk

theorem Forest.FrameAt.refl {f : Forest} {h : Nat} (hl : f.isLive h = true) : Forest.FrameAt f f h :=
  ⟨hl, rfl, rfl⟩

theorem Forest.get_of_live {f : Forest} {h : Nat} (hl : f.isLive h = true) : ∃ t, f.get? h = some t := by
  unfold Forest.isLive at hl
  cases hg : f.get? h with
  | none => rw [hg] at hl; cases hl
  | some t => exact ⟨t, rfl⟩

/-! ### Setters -/

theorem fg_handle_mapAt_setValue (n : Nat) (v : Value) : ∀ t : HTree,
    (mapAt n (HTree.setValue v) t).handle = t.handle
  | .node h w ks => by
    rw [mapAt_node]
    by_cases hh : h = n
    · rw [if_pos hh]; rfl
    · rw [if_neg hh]; rfl

/-- Away from its root handle, `mapAt n (setValue v)` keeps value and child handles of the top node. -/
theorem fg_mapAt_setValue_top {n : Nat} (v : Value) : ∀ t : HTree, t.handle ≠ n →
    (mapAt n (HTree.setValue v) t).value = t.value ∧
      (mapAt n (HTree.setValue v) t).kids.map (·.handle) = t.kids.map (·.handle)
  | .node h w ks, hne => by
    have hne' : h ≠ n := hne
    rw [mapAt_node, if_neg hne', mapAtList_eq_map]
    refine ⟨rfl, ?_⟩
    show (ks.map (mapAt n (HTree.setValue v))).map (·.handle) = ks.map (·.handle)
    rw [List.map_map]
    apply List.map_congr_left
    intro k _
    exact fg_handle_mapAt_setValue n v k

theorem frameAt_specSetValue {f : Forest} (nd : f.allHandles.Nodup) {n h : Nat} (v : Value)
    (hl : f.isLive h = true) (hne : h ≠ n) : Forest.FrameAt f (specSetValue n v f) h := by
  obtain ⟨t, hg⟩ := Forest.get_of_live hl
  have hth : t.handle = h := (findList?_some f.roots t hg).1
  have hg' : (specSetValue n v f).get? h = some (mapAt n (HTree.setValue v) t) := by
    rw [specSetValue_get nd n h v, hg]; rfl
  obtain ⟨a, b⟩ := fg_mapAt_setValue_top v t (by rw [hth]; exact hne)
  exact Forest.FrameAt.of_get hg hg' a b

/-! ### Node creation, `set_text_consolidation` -/

theorem get?_newNode_live {f : Forest} {h : Nat} {t : HTree} (v : Value) (hg : f.get? h = some t) :
    (f.newNode v).1.get? h = some t := by
  show findList? h (f.roots ++ [.node f.next v []]) = some t
  rw [findList?_append]
  have : findList? h f.roots = some t := hg
  rw [this]; rfl

theorem parent?_newNode (f : Forest) (v : Value) (h : Nat) : (f.newNode v).1.parent? h = f.parent? h := by
  unfold Forest.parent? Forest.ctx?
  show ((f.roots ++ [HTree.node f.next v []]).findSome? (ctxBelow h)).map _ = _
  rw [List.findSome?_append]
  simp [ctxBelow, ctxKids]

theorem frameAt_newNode {f : Forest} {h : Nat} (v : Value) (hl : f.isLive h = true) :
    Forest.FrameAt f (f.newNode v).1 h := by
  obtain ⟨t, hg⟩ := Forest.get_of_live hl
  exact Forest.FrameAt.of_get hg (get?_newNode_live v hg) rfl rfl

/-! ### The setters: unchanged forest or `specSetValue` -/

theorem setText_forest (f : Forest) (n : Nat) (s : Str) :
    (f.setText n s).1 = f ∨ (f.setText n s).1 = specSetValue n (.text s) f := by
  by_cases h : (f.setText n s).2 = .ok
  · exact Or.inr (setText_spec h).1
  · left
    unfold Forest.setText at h ⊢
    split
    · rename_i e; rw [if_pos e] at h; exact absurd rfl h
    · rfl

theorem setElementName_forest (f : Forest) (n name : Nat) :
    (f.setElementName n name).1 = f ∨ (f.setElementName n name).1 = specSetValue n (.element name) f := by
  by_cases h : (f.setElementName n name).2 = .ok
  · exact Or.inr (setElementName_spec h).1
  · left
    unfold Forest.setElementName at h ⊢
    split
    · rename_i e; rw [if_pos e] at h; exact absurd rfl h
    · rfl

theorem setComment_forest (f : Forest) (n : Nat) (s : Str) :
    (f.setComment n s).1 = f ∨ (f.setComment n s).1 = specSetValue n (.comment s) f := by
  by_cases h : (f.setComment n s).2 = .ok
  · exact Or.inr (setComment_spec h).1
  · left
    revert h
    unfold Forest.setComment
    split
    · split
      · intro _; rfl
      · intro h; exact absurd rfl h
    · intro _; rfl

theorem setPiData_forest (f : Forest) (n : Nat) (d : Option Str) :
    (f.setPiData n d).1 = f ∨ ∃ w, (f.setPiData n d).1 = specSetValue n w f := by
  by_cases h : (f.setPiData n d).2 = .ok
  · obtain ⟨t, old, _, e⟩ := setPiData_spec h
    exact Or.inr ⟨_, e⟩
  · left
    revert h
    unfold Forest.setPiData
    split
    · intro h; exact absurd rfl h
    · intro _; rfl

/-- The setters, node creation and `set_text_consolidation`. -/
def simpleCall : Forest.XCall → Bool
  | .call (.setElementName _ _) | .call (.setText _ _) | .call (.setComment _ _) | .call (.setPiData _ _) => true
  | .newNode _ => true
  | .setConsolidation _ => true
  | _ => false

theorem framed_of_simpleCall {c : Forest.XCall} (h : simpleCall c = true) : c.framed = true := by
  cases c with
  | call k => cases k <;> first | rfl | cases h
  | newNode v => rfl
  | setConsolidation b => rfl
  | _ => cases h

/-- A simple call leaves the forest alone, or adds a parentless leaf on a new handle, or flips the consolidation
    flag, or sets the value of the one node in `writtenParents`. -/
inductive FramedShape (f : Forest) (c : Forest.XCall) (f' : Forest) : Prop
  | same (h : f' = f)
  | flag (b : Bool) (h : f' = f.setConsolidation b)
  | fresh (v : Value) (h : f' = (f.newNode v).1)
  | setv (n : Nat) (v : Value) (hw : c.writtenParents f = [n]) (h : f' = specSetValue n v f)

theorem framedShape (s : Store) (c : Forest.XCall) (hf : simpleCall c = true) :
    FramedShape s.forest c (c.run s).1.forest := by
  cases c with
  | call k =>
    cases k with
    | setElementName n name =>
      rcases setElementName_forest s.forest n name with h | h
      · exact .same h
      · exact .setv n _ rfl h
    | setText n t =>
      rcases setText_forest s.forest n t with h | h
      · exact .same h
      · exact .setv n _ rfl h
    | setComment n t =>
      rcases setComment_forest s.forest n t with h | h
      · exact .same h
      · exact .setv n _ rfl h
    | setPiData n d =>
      rcases setPiData_forest s.forest n d with h | ⟨w, h⟩
      · exact .same h
      · exact .setv n w rfl h
    | _ => cases hf
  | newNode v => exact .fresh v rfl
  | setConsolidation b => exact .flag b rfl
  | _ => cases hf

/-- **The general frame on the framed domain** (whatever the call answers). -/
theorem frame_general_framed {s : Store} {c : Forest.XCall} (inv : s.forest.Inv) (hf : simpleCall c = true)
    {h : Nat} (hl : s.forest.isLive h = true) (hnw : h ∉ c.writtenParents s.forest) :
    Forest.FrameAt s.forest (c.run s).1.forest h ∧ (c.run s).1.forest.parent? h = s.forest.parent? h := by
  rcases framedShape s c hf with e | ⟨b, e⟩ | ⟨v, e⟩ | ⟨n, v, hw, e⟩
  · rw [e]; exact ⟨.refl hl, rfl⟩
  · rw [e]; exact ⟨⟨hl, rfl, rfl⟩, rfl⟩
  · rw [e]; exact ⟨frameAt_newNode v hl, parent?_newNode _ v h⟩
  · rw [e]
    have hne : h ≠ n := by
      intro eq; apply hnw; rw [hw, eq]; exact List.mem_singleton.2 rfl
    exact ⟨frameAt_specSetValue inv.nodup v hl hne, specSetValue_parent _ n h v⟩

end XotModel
