/-
  Lemmas for C11, part 13: reference-map meaning of `get_mut` and of the entry API
  (`Model/FmapEntry.lean`).
-/
import XotModel.Lemmas.FmapReads
import XotModel.Lemmas.FmapRef
import XotModel.Model.FmapEntry

namespace XotModel
namespace Fmap
open HTree
open Forest (MapKind entryKey mapChildren MapEntry)

/-- One call on view `k` of `e` took `f` to `f'` and the view's content to `m'`; the other
    view, the normal children and the rest of the forest are untouched (`Step`). -/
def Refines (f f' : Forest) (e nm : Nat) (N A S : List HTree) (k : MapKind)
    (m' : OMap Payload) : Prop :=
  ∃ roots0 s', Step f f' e nm N A S k roots0 s' ∧ s'.map entryPair = m'

theorem Refines.refl {f : Forest} {e nm : Nat} {N A S : List HTree} (h : MInv f e nm N A S)
    (k : MapKind) : Refines f f e nm N A S k (abs k f e) :=
  ⟨_, _, Step.refl h k, (h.abs_eq k).symm⟩

theorem Refines.abs_same {f f' : Forest} {e nm : Nat} {N A S : List HTree} {k : MapKind}
    {m' : OMap Payload} (r : Refines f f' e nm N A S k m') : abs k f' e = m' := by
  obtain ⟨_, _, st, hm⟩ := r
  rw [st.abs_same, hm]

theorem Refines.abs_other {f f' : Forest} {e nm : Nat} {N A S : List HTree} {k k' : MapKind}
    {m' : OMap Payload} (h : MInv f e nm N A S) (r : Refines f f' e nm N A S k m') (hk : k' ≠ k) :
    abs k' f' e = abs k' f e := by
  obtain ⟨_, _, st, _⟩ := r
  exact st.abs_other h hk

theorem Refines.minv {f f' : Forest} {e nm : Nat} {N A S : List HTree} {k : MapKind}
    {m' : OMap Payload} (r : Refines f f' e nm N A S k m') : ∃ N' A', MInv f' e nm N' A' S := by
  obtain ⟨_, _, st, _⟩ := r
  exact ⟨_, _, st.inv⟩

theorem mapInsert_refines {f : Forest} {e nm : Nat} {N A S : List HTree} (h : MInv f e nm N A S)
    (k : MapKind) (entry : Value) (hm : k.matches entry = true) :
    Refines f (f.mapInsert k e entry).1 e nm N A S k
      (omInsert (abs k f e) (entryKey entry) (payloadOf entry)) ∧
    (f.mapInsert k e entry).2 = .ok := by
  obtain ⟨s', st, hok, hmap, _⟩ := mapInsert_step h k entry hm
  exact ⟨⟨_, _, st, by rw [hmap, h.abs_eq k]⟩, hok⟩

theorem mapRemove_refines {f : Forest} {e nm : Nat} {N A S : List HTree} (h : MInv f e nm N A S)
    (k : MapKind) (key : Nat) :
    Refines f (f.mapRemove k e key).1 e nm N A S k (omRemove (abs k f e) key) ∧
    (f.mapRemove k e key).2 = .ok := by
  obtain ⟨s', st, hok, hmap, _⟩ := mapRemove_step h k key
  exact ⟨⟨_, _, st, by rw [hmap, h.abs_eq k]⟩, hok⟩

/-! ### `entry(key)` -/

theorem mapEntry_eq (f : Forest) (k : MapKind) (e key : Nat) :
    f.mapEntry k e key = if omContainsKey (abs k f e) key then .occupied key else .vacant key := by
  rw [← containsKey_eq]
  unfold Forest.mapEntry Forest.mapGet
  cases f.mapGetNode k e key <;> rfl

theorem occGetMut_eq (f : Forest) (k : MapKind) (e key : Nat) :
    f.occGetMut k e key = if omContainsKey (abs k f e) key then .ok else .panic := by
  rw [← containsKey_eq]
  unfold Forest.occGetMut
  cases f.mapGetNode k e key <;> rfl

theorem contains_insert_self (m : OMap Payload) (key : Nat) (p : Payload) :
    omContainsKey (omInsert m key p) key = true := by
  simp [omContainsKey, omGet_insert_self]

/-! ### `VacantEntry::insert`, `OccupiedEntry::insert`, `OccupiedEntry::remove` -/

theorem vacInsert_refines {f : Forest} {e nm : Nat} {N A S : List HTree} (h : MInv f e nm N A S)
    (k : MapKind) (entry : Value) (hm : k.matches entry = true) :
    Refines f (f.vacInsert k e entry).1 e nm N A S k
      (omInsert (abs k f e) (entryKey entry) (payloadOf entry)) ∧
    (f.vacInsert k e entry).2 = .ok := by
  obtain ⟨hr, hok⟩ := mapInsert_refines h k entry hm
  unfold Forest.vacInsert
  cases hres : f.mapInsert k e entry with
  | mk f1 r =>
    rw [hres] at hr hok
    simp only at hr hok
    subst hok
    simp only
    rw [occGetMut_eq, hr.abs_same, contains_insert_self]
    exact ⟨hr, rfl⟩

theorem occInsert_refines {f : Forest} {e nm : Nat} {N A S : List HTree} (h : MInv f e nm N A S)
    (k : MapKind) (entry : Value) (hm : k.matches entry = true)
    (hocc : omContainsKey (abs k f e) (entryKey entry) = true) :
    Refines f (f.occInsert k e entry).1 e nm N A S k
      (omInsert (abs k f e) (entryKey entry) (payloadOf entry)) ∧
    (f.occInsert k e entry).2 = .ok := by
  obtain ⟨hr, hok⟩ := mapInsert_refines h k entry hm
  unfold Forest.occInsert
  rw [containsKey_eq, hocc]
  cases hres : f.mapInsert k e entry with
  | mk f1 r =>
    rw [hres] at hr hok
    simp only at hr hok
    subst hok
    exact ⟨hr, rfl⟩

theorem occRemove_refines {f : Forest} {e nm : Nat} {N A S : List HTree} (h : MInv f e nm N A S)
    (k : MapKind) (key : Nat) (hocc : omContainsKey (abs k f e) key = true) :
    Refines f (f.occRemove k e key).1 e nm N A S k (omRemove (abs k f e) key) ∧
    (f.occRemove k e key).2 = .ok := by
  obtain ⟨hr, hok⟩ := mapRemove_refines h k key
  unfold Forest.occRemove
  rw [containsKey_eq, hocc]
  cases hres : f.mapRemove k e key with
  | mk f1 r =>
    rw [hres] at hr hok
    simp only at hr hok
    subst hok
    exact ⟨hr, rfl⟩

/-! ### The entry API -/

theorem entryOrInsert_refines {f : Forest} {e nm : Nat} {N A S : List HTree}
    (h : MInv f e nm N A S) (k : MapKind) (default : Value) (hm : k.matches default = true) :
    Refines f (f.entryOrInsert k e default).1 e nm N A S k
      (if omContainsKey (abs k f e) (entryKey default) then abs k f e
       else omInsert (abs k f e) (entryKey default) (payloadOf default)) ∧
    (f.entryOrInsert k e default).2 = .ok := by
  unfold Forest.entryOrInsert
  rw [h.isElement, mapEntry_eq]
  simp only [Bool.not_true, Bool.false_eq_true, if_false]
  cases hc : omContainsKey (abs k f e) (entryKey default) with
  | true =>
    simp only [if_true]
    rw [occGetMut_eq, hc]
    exact ⟨Refines.refl h k, rfl⟩
  | false =>
    simp only [Bool.false_eq_true, if_false]
    exact vacInsert_refines h k default hm

theorem entryInsert_refines {f : Forest} {e nm : Nat} {N A S : List HTree}
    (h : MInv f e nm N A S) (k : MapKind) (entry : Value) (hm : k.matches entry = true) :
    Refines f (f.entryInsert k e entry).1 e nm N A S k
      (omInsert (abs k f e) (entryKey entry) (payloadOf entry)) ∧
    (f.entryInsert k e entry).2 = .ok := by
  unfold Forest.entryInsert
  rw [h.isElement, mapEntry_eq]
  simp only [Bool.not_true, Bool.false_eq_true, if_false]
  cases hc : omContainsKey (abs k f e) (entryKey entry) with
  | true => simp only [if_true]; exact occInsert_refines h k entry hm hc
  | false => simp only [Bool.false_eq_true, if_false]; exact vacInsert_refines h k entry hm

theorem omRemove_of_not_contains (m : OMap Payload) (key : Nat)
    (h : omContainsKey m key = false) : omRemove m key = m := by
  have hn : omGet m key = none := by
    unfold omContainsKey at h
    cases hg : omGet m key with
    | none => rfl
    | some _ => rw [hg] at h; cases h
  rw [omGet_none_iff] at hn
  apply omRemove_absent
  intro a ha hk
  exact hn (hk ▸ List.mem_map.mpr ⟨a, ha, rfl⟩)

theorem entryRemove_refines {f : Forest} {e nm : Nat} {N A S : List HTree}
    (h : MInv f e nm N A S) (k : MapKind) (key : Nat) :
    Refines f (f.entryRemove k e key).1 e nm N A S k (omRemove (abs k f e) key) ∧
    (f.entryRemove k e key).2 = .ok := by
  unfold Forest.entryRemove
  rw [h.isElement, mapEntry_eq]
  simp only [Bool.not_true, Bool.false_eq_true, if_false]
  cases hc : omContainsKey (abs k f e) key with
  | true => simp only [if_true]; exact occRemove_refines h k key hc
  | false =>
    simp only [Bool.false_eq_true, if_false]
    rw [omRemove_of_not_contains _ _ hc]
    exact ⟨Refines.refl h k, by first | rfl | trivial⟩

/-! ### Writing through `get_mut` / `and_modify` -/

theorem mkEntry_self (k : MapKind) (v : Value) (hc : v.category = kindCat k) :
    mkEntry k (entryKey v) (payloadOf v) = v := by
  cases k <;> cases v <;> simp_all [Value.category, kindCat, mkEntry, entryKey, payloadOf]

/-- Overwrite the payload of the entry found under `key` with that of `new`. -/
theorem modify_found {f : Forest} {e nm : Nat} {N A S : List HTree} (h : MInv f e nm N A S)
    (k : MapKind) (key : Nat) (n : HTree) (new : Value) (hm : k.matches new = true)
    (hf : f.mapGetNode k e key = some n) :
    Refines f (f.setValue n.handle (Forest.entryUpdate n.value new)) e nm N A S k
      (omModify (abs k f e) key (fun _ => payloadOf new)) ∧
    n.value.category = kindCat k ∧ entryKey n.value = key := by
  rw [h.getNode k] at hf
  obtain ⟨hkey, s1, s2, hs, hs1⟩ := find?_key_split _ _ _ hf
  obtain ⟨heq, hinv, hmap, _⟩ := insert_existing h k new hm n s1 s2 hs key hkey hs1
  have hncat : n.value.category = kindCat k := h.sect.sec_cat k n (by rw [hs]; simp)
  refine ⟨⟨f.roots, s1 ++ n.setValue (Forest.entryUpdate n.value new) :: s2, ⟨?_, ?_, ?_⟩, ?_⟩, hncat, hkey⟩
  · rw [heq]
  · rw [heq]; exact hinv
  · rw [heq]; exact Nat.le_refl _
  · rw [hmap, h.abs_eq k, hs]
    simp only [List.map_append, List.map_cons]
    have e1 : entryPair n = (key, payloadOf n.value) := by
      simp only [entryPair]; rw [← hkey]; rfl
    have hs1' : ∀ a ∈ s1.map entryPair, a.1 ≠ key := by
      intro a ha
      obtain ⟨x, hx, rfl⟩ := List.mem_map.mp ha
      exact hs1 x hx
    rw [e1, omInsert_split _ _ _ _ _ hs1', omModify_split _ _ _ _ _ hs1']

theorem omModify_congr_found (m : OMap Payload) (key : Nat) (g g' : Payload → Payload)
    (h : ∀ p, omGet m key = some p → g p = g' p) : omModify m key g = omModify m key g' := by
  induction m with
  | nil => rfl
  | cons a m ih =>
    obtain ⟨ka, va⟩ := a
    simp only [omModify]
    by_cases hk : ka = key
    · subst hk
      simp only [if_true]
      rw [h va (by simp [omGet, List.lookup])]
    · simp only [if_neg hk]
      rw [ih]
      intro p hp
      apply h
      have : (key == ka) = false := by simpa using fun hh : key = ka => hk hh.symm
      simp only [omGet, List.lookup, this]
      exact hp

theorem mapGetMutSet_refines {f : Forest} {e nm : Nat} {N A S : List HTree}
    (h : MInv f e nm N A S) (k : MapKind) (key : Nat) (new : Value) (hm : k.matches new = true) :
    Refines f (f.mapGetMutSet k e key new).1 e nm N A S k
      (omModify (abs k f e) key (fun _ => payloadOf new)) ∧
    (f.mapGetMutSet k e key new).2.1 = .ok ∧
    (f.mapGetMutSet k e key new).2.2 = omContainsKey (abs k f e) key := by
  unfold Forest.mapGetMutSet
  rw [h.isElement]
  simp only [Bool.not_true, Bool.false_eq_true, if_false]
  have hc := containsKey_eq f k e key
  cases hf : f.mapGetNode k e key with
  | some n =>
    rw [hf] at hc
    simp only
    exact ⟨(modify_found h k key n new hm hf).1, (by first | rfl | trivial), hc⟩
  | none =>
    rw [hf] at hc
    simp only
    refine ⟨?_, (by first | rfl | trivial), hc⟩
    rw [omModify_of_get_none]
    · exact Refines.refl h k
    · unfold omContainsKey at hc
      cases hg : omGet (abs k f e) key with
      | none => rfl
      | some _ => rw [hg] at hc; cases hc

theorem entryAndModify_refines {f : Forest} {e nm : Nat} {N A S : List HTree}
    (h : MInv f e nm N A S) (k : MapKind) (key : Nat) (g : Value → Value)
    (hg : ∀ v, k.matches v = true → k.matches (g v) = true) :
    Refines f (f.entryAndModify k e key g).1 e nm N A S k
      (omModify (abs k f e) key (fun p => payloadOf (g (mkEntry k key p)))) ∧
    (f.entryAndModify k e key g).2.1 = .ok ∧
    (f.entryAndModify k e key g).2.2 =
      (if omContainsKey (abs k f e) key then .occupied key else .vacant key) := by
  unfold Forest.entryAndModify
  rw [h.isElement, mapEntry_eq]
  simp only [Bool.not_true, Bool.false_eq_true, if_false]
  cases hc : omContainsKey (abs k f e) key with
  | true =>
    simp only [if_true]
    have hc' := containsKey_eq f k e key
    rw [hc] at hc'
    cases hf : f.mapGetNode k e key with
    | none => rw [hf] at hc'; cases hc'
    | some n =>
      simp only
      have hncat : n.value.category = kindCat k := by
        have := h.getNode k key ▸ hf
        exact h.sect.sec_cat k n (List.mem_of_find?_eq_some this)
      have hmn : k.matches (g n.value) = true := hg _ ((matches_iff_cat k _).mpr hncat)
      obtain ⟨hr, _, hkey⟩ := modify_found h k key n (g n.value) hmn hf
      refine ⟨?_, (by first | rfl | trivial), (by first | rfl | trivial)⟩
      have hget : omGet (abs k f e) key = some (payloadOf n.value) := by
        rw [← get_eq, hf]; rfl
      rw [omModify_congr_found (abs k f e) key _ (fun _ => payloadOf (g n.value))]
      · exact hr
      · intro p hp
        rw [hget] at hp
        cases hp
        rw [← hkey, mkEntry_self k n.value hncat]
  | false =>
    simp only [Bool.false_eq_true, if_false]
    refine ⟨?_, (by first | rfl | trivial), (by first | rfl | trivial)⟩
    rw [omModify_of_get_none]
    · exact Refines.refl h k
    · unfold omContainsKey at hc
      cases hg' : omGet (abs k f e) key with
      | none => rfl
      | some _ => rw [hg'] at hc; cases hc

end Fmap
end XotModel

namespace XotModel
namespace Fmap
open HTree
open Forest (MapKind entryKey mapChildren MapEntry)

theorem omContainsKey_modify (m : OMap Payload) (key : Nat) (g : Payload → Payload) (k' : Nat) :
    omContainsKey (omModify m key g) k' = omContainsKey m k' := by
  have h1 := omGet_none_iff (omModify m key g) k'
  have h2 := omGet_none_iff m k'
  rw [omKeys_modify] at h1
  unfold omContainsKey
  cases ha : omGet (omModify m key g) k' with
  | none =>
    have := h2.mpr (h1.mp ha)
    rw [this]
  | some x =>
    cases hb : omGet m k' with
    | none => exact absurd (h1.mpr (h2.mp hb)) (by rw [ha]; simp)
    | some y => rfl

/-- `entry(key).and_modify(g).or_insert(default)`: in terms of the views. -/
theorem entryAndModifyOrInsert_spec {f : Forest} {e nm : Nat} {N A S : List HTree}
    (h : MInv f e nm N A S) (k : MapKind) (default : Value) (g : Value → Value)
    (hm : k.matches default = true) (hg : ∀ v, k.matches v = true → k.matches (g v) = true) :
    (∃ N' A', MInv (f.entryAndModifyOrInsert k e default g).1 e nm N' A' S) ∧
    (f.entryAndModifyOrInsert k e default g).2 = .ok ∧
    abs k (f.entryAndModifyOrInsert k e default g).1 e =
      (if omContainsKey (abs k f e) (entryKey default)
       then omModify (abs k f e) (entryKey default)
              (fun p => payloadOf (g (mkEntry k (entryKey default) p)))
       else omInsert (abs k f e) (entryKey default) (payloadOf default)) ∧
    ∀ k', k' ≠ k → abs k' (f.entryAndModifyOrInsert k e default g).1 e = abs k' f e := by
  obtain ⟨hr, hok, hent⟩ := entryAndModify_refines h k (entryKey default) g hg
  unfold Forest.entryAndModifyOrInsert
  cases hres : f.entryAndModify k e (entryKey default) g with
  | mk f1 rest =>
    cases rest with
    | mk r ent =>
      rw [hres] at hr hok hent
      simp only at hr hok hent
      subst hok
      cases hc : omContainsKey (abs k f e) (entryKey default) with
      | true =>
        rw [hc] at hent
        simp only [if_true] at hent
        subst hent
        simp only [if_true]
        rw [occGetMut_eq, hr.abs_same, omContainsKey_modify, hc]
        exact ⟨hr.minv, rfl, rfl, fun k' hk' => hr.abs_other h hk'⟩
      | false =>
        rw [hc] at hent
        simp only [Bool.false_eq_true, if_false] at hent
        subst hent
        simp only [Bool.false_eq_true, if_false]
        obtain ⟨N1, A1, h1⟩ := hr.minv
        obtain ⟨hr2, hok2⟩ := vacInsert_refines h1 k default hm
        have hsame : abs k f1 e = abs k f e := by
          rw [hr.abs_same, omModify_of_get_none]
          unfold omContainsKey at hc
          cases hg' : omGet (abs k f e) (entryKey default) with
          | none => rfl
          | some _ => rw [hg'] at hc; cases hc
        refine ⟨hr2.minv, hok2, ?_, ?_⟩
        · rw [hr2.abs_same, hsame]
        · intro k' hk'
          rw [hr2.abs_other h1 hk', hr.abs_other h hk']

end Fmap
end XotModel
