/-
  Lemmas for C11, part 12: the reference map is a map — lookups after updates, keys stay
  distinct, `omRemove` drops every entry of the key.  (Pure list facts, no forest.)
-/
import XotModel.Model.FmapSpec

namespace XotModel
namespace Fmap

variable {β : Type}

theorem omKeys_insert_mem (m : OMap β) (k : Nat) (v : β) (x : Nat) :
    x ∈ omKeys (omInsert m k v) ↔ x ∈ omKeys m ∨ x = k := by
  induction m with
  | nil => simp [omInsert, omKeys]
  | cons a m ih =>
    obtain ⟨ka, va⟩ := a
    simp only [omInsert]
    split
    · rename_i h
      simp only [omKeys, List.map_cons, List.mem_cons]
      constructor
      · intro hx; exact Or.inl hx
      · intro hx
        rcases hx with hx | hx
        · exact hx
        · exact Or.inl (by rw [hx, h])
    · simp only [omKeys, List.map_cons, List.mem_cons] at ih ⊢
      rw [ih]
      constructor
      · rintro (h | h | h)
        · exact Or.inl (Or.inl h)
        · exact Or.inl (Or.inr h)
        · exact Or.inr h
      · rintro ((h | h) | h)
        · exact Or.inl h
        · exact Or.inr (Or.inl h)
        · exact Or.inr (Or.inr h)

theorem omWf_insert (m : OMap β) (k : Nat) (v : β) (h : omWf m) : omWf (omInsert m k v) := by
  induction m with
  | nil => simp [omInsert, omWf, omKeys]
  | cons a m ih =>
    obtain ⟨ka, va⟩ := a
    simp only [omWf, omKeys, List.map_cons, List.nodup_cons] at h
    simp only [omInsert]
    split
    · simp only [omWf, omKeys, List.map_cons, List.nodup_cons]; exact h
    · rename_i hne
      simp only [omWf, omKeys, List.map_cons, List.nodup_cons]
      refine ⟨?_, ih h.2⟩
      intro hx
      rcases (omKeys_insert_mem m k v ka).mp hx with hx | hx
      · exact h.1 hx
      · exact hne hx

theorem omKeys_remove_sublist (m : OMap β) (k : Nat) :
    (omKeys (omRemove m k)).Sublist (omKeys m) := by
  induction m with
  | nil => simp [omRemove, omKeys]
  | cons a m ih =>
    obtain ⟨ka, va⟩ := a
    simp only [omRemove]
    split
    · simp only [omKeys, List.map_cons]; exact List.sublist_cons_self _ _
    · simp only [omKeys, List.map_cons]; exact List.Sublist.cons_cons _ ih

theorem omWf_remove (m : OMap β) (k : Nat) (h : omWf m) : omWf (omRemove m k) :=
  List.Nodup.sublist (omKeys_remove_sublist m k) h

/-- With distinct keys, removing a key drops every entry carrying it. -/
theorem omRemove_eq_filter (m : OMap β) (k : Nat) (h : omWf m) :
    omRemove m k = m.filter (fun p => p.1 != k) := by
  induction m with
  | nil => rfl
  | cons a m ih =>
    obtain ⟨ka, va⟩ := a
    simp only [omWf, omKeys, List.map_cons, List.nodup_cons] at h
    simp only [omRemove, List.filter_cons]
    split
    · rename_i hk
      subst hk
      simp only [bne_self_eq_false, Bool.false_eq_true, if_false]
      symm
      apply List.filter_eq_self.mpr
      intro p hp
      have : p.1 ≠ ka := fun hh => h.1 (hh ▸ List.mem_map.mpr ⟨p, hp, rfl⟩)
      simpa using this
    · rename_i hk
      have : (ka != k) = true := by simpa using hk
      simp only [this, if_true]
      rw [ih h.2]

theorem omGet_insert_self (m : OMap β) (k : Nat) (v : β) : omGet (omInsert m k v) k = some v := by
  induction m with
  | nil => simp [omInsert, omGet]
  | cons a m ih =>
    obtain ⟨ka, va⟩ := a
    simp only [omInsert]
    split
    · rename_i h; subst h; simp [omGet, List.lookup]
    · rename_i h
      have : (k == ka) = false := by simpa using fun hh : k = ka => h hh.symm
      simp only [omGet, List.lookup, this] at ih ⊢
      exact ih

theorem omGet_insert_other (m : OMap β) (k k' : Nat) (v : β) (hne : k' ≠ k) :
    omGet (omInsert m k v) k' = omGet m k' := by
  induction m with
  | nil =>
    have : (k' == k) = false := by simpa using hne
    simp [omInsert, omGet, List.lookup, this]
  | cons a m ih =>
    obtain ⟨ka, va⟩ := a
    simp only [omInsert]
    split
    · rename_i h
      subst h
      have : (k' == ka) = false := by simpa using hne
      simp [omGet, List.lookup, this]
    · simp only [omGet, List.lookup] at ih ⊢
      split
      · rfl
      · exact ih

theorem omGet_remove_other (m : OMap β) (k k' : Nat) (hne : k' ≠ k) :
    omGet (omRemove m k) k' = omGet m k' := by
  induction m with
  | nil => rfl
  | cons a m ih =>
    obtain ⟨ka, va⟩ := a
    simp only [omRemove]
    split
    · rename_i h
      subst h
      have : (k' == ka) = false := by simpa using hne
      simp [omGet, List.lookup, this]
    · simp only [omGet, List.lookup] at ih ⊢
      split
      · rfl
      · exact ih

theorem omGet_none_iff (m : OMap β) (k : Nat) : omGet m k = none ↔ k ∉ omKeys m := by
  induction m with
  | nil => simp [omGet, omKeys]
  | cons a m ih =>
    obtain ⟨ka, va⟩ := a
    simp only [omGet, List.lookup, omKeys, List.map_cons, List.mem_cons, not_or] at ih ⊢
    by_cases h : k = ka
    · subst h; simp
    · have : (k == ka) = false := by simpa using h
      simp only [this]
      rw [ih]
      exact ⟨fun hx => ⟨h, hx⟩, fun hx => hx.2⟩

theorem omGet_remove_self (m : OMap β) (k : Nat) (h : omWf m) : omGet (omRemove m k) k = none := by
  rw [omGet_none_iff, omRemove_eq_filter m k h]
  simp [omKeys]

/-- Inserting an absent key appends it. -/
theorem omInsert_of_get_none (m : OMap β) (k : Nat) (v : β) (h : omGet m k = none) :
    omInsert m k v = m ++ [(k, v)] := by
  induction m with
  | nil => rfl
  | cons a m ih =>
    obtain ⟨ka, va⟩ := a
    simp only [omGet, List.lookup] at h ih
    simp only [omInsert]
    by_cases hk : k = ka
    · subst hk; simp at h
    · have hb : (k == ka) = false := by simpa using hk
      rw [hb] at h
      rw [if_neg (fun hh => hk hh.symm), ih h]
      rfl

theorem omModify_of_get_none (m : OMap β) (k : Nat) (g : β → β) (h : omGet m k = none) :
    omModify m k g = m := by
  induction m with
  | nil => rfl
  | cons a m ih =>
    obtain ⟨ka, va⟩ := a
    simp only [omGet, List.lookup] at h ih
    simp only [omModify]
    by_cases hk : k = ka
    · subst hk; simp at h
    · have hb : (k == ka) = false := by simpa using hk
      rw [hb] at h
      rw [if_neg (fun hh => hk hh.symm), ih h]

theorem omKeys_modify (m : OMap β) (k : Nat) (g : β → β) : omKeys (omModify m k g) = omKeys m := by
  induction m with
  | nil => rfl
  | cons a m ih =>
    obtain ⟨ka, va⟩ := a
    simp only [omModify]
    split
    · rfl
    · simp only [omKeys, List.map_cons] at ih ⊢; rw [ih]

end Fmap
end XotModel
