/-
  Lemmas for the xml:id index (`Model/FidIndex.lean`, C04): the handles `ofTree` hands out are the
  interval `[n, n + size)`, the builder's table points at the elements that carry the IDs, list
  lookups through `parseInto`, and the index along histories (`IdStore.run`).
-/
import XotModel.Model.FidIndex
import XotModel.Lemmas.FinvReach2
import XotModel.Lemmas.FinvReads

namespace XotModel
open HTree

/-! ### `ofTree`: fresh handles in document order -/

theorem Tree.size_pos (t : Tree) : 0 < t.size := by
  cases t; rw [Tree.size]; omega

theorem HTree.value_ofTree (n : Nat) (t : Tree) : (ofTree n t).value = t.value := by
  cases t; rw [ofTree]; rfl

theorem HTree.handle_ofTree (n : Nat) (t : Tree) : (ofTree n t).handle = n := by
  cases t; rw [ofTree]; rfl

mutual
  theorem handles_ofTree (n : Nat) : ∀ t : Tree, ∀ x ∈ handles (ofTree n t), n ≤ x ∧ x < n + t.size
    | .node v ks => by
      intro x hx
      rw [ofTree, fi_handles_node, List.mem_cons] at hx
      rw [Tree.size]
      rcases hx with rfl | hx
      · omega
      · have := handlesList_ofTreeList (n + 1) ks x hx; omega
  theorem handlesList_ofTreeList (n : Nat) : ∀ ks : List Tree,
      ∀ x ∈ handlesList (ofTreeList n ks), n ≤ x ∧ x < n + Tree.size.sizeList ks
    | [] => by intro x hx; simp [ofTreeList] at hx
    | k :: ks => by
      intro x hx
      rw [ofTreeList, fi_handlesList_cons, List.mem_append] at hx
      rw [Tree.size.sizeList]
      rcases hx with hx | hx
      · have := handles_ofTree n k x hx; omega
      · have := handlesList_ofTreeList (n + k.size) ks x hx; omega
end

mutual
  theorem nodup_handles_ofTree (n : Nat) : ∀ t : Tree, (handles (ofTree n t)).Nodup
    | .node v ks => by
      rw [ofTree, fi_handles_node, List.nodup_cons]
      refine ⟨fun hx => ?_, nodup_handlesList_ofTreeList (n + 1) ks⟩
      have := handlesList_ofTreeList (n + 1) ks n hx; omega
  theorem nodup_handlesList_ofTreeList (n : Nat) : ∀ ks : List Tree, (handlesList (ofTreeList n ks)).Nodup
    | [] => by simp [ofTreeList]
    | k :: ks => by
      rw [ofTreeList, fi_handlesList_cons, List.nodup_append]
      refine ⟨nodup_handles_ofTree n k, nodup_handlesList_ofTreeList (n + k.size) ks, ?_⟩
      intro a ha b hb hab
      have h1 := handles_ofTree n k a ha
      have h2 := handlesList_ofTreeList (n + k.size) ks b hb
      omega
end

/-! ### The builder's table -/

theorem idAttrValues_ofTreeList (n m : Nat) (ks : List Tree) :
    idAttrValues (ofTreeList n ks) = idAttrValues (ofTreeList m ks) := by
  induction ks generalizing n m with
  | nil => rfl
  | cons k ks ih =>
    rw [ofTreeList, ofTreeList, idAttrValues, idAttrValues, value_ofTree, value_ofTree]
    rw [ih (n + k.size) (m + k.size)]

mutual
  theorem idEntries_ofTree_fst (n m : Nat) : ∀ t : Tree,
      (idEntries (ofTree n t)).map (·.1) = (idEntries (ofTree m t)).map (·.1)
    | .node v ks => by
      rw [ofTree, ofTree, idEntries, idEntries, List.map_append, List.map_append,
        idEntriesList_ofTreeList_fst (n + 1) (m + 1) ks, idAttrValues_ofTreeList (n + 1) (m + 1) ks]
      cases v.isElement <;> simp [List.map_map, Function.comp_def]
  theorem idEntriesList_ofTreeList_fst (n m : Nat) : ∀ ks : List Tree,
      (idEntriesList (ofTreeList n ks)).map (·.1) = (idEntriesList (ofTreeList m ks)).map (·.1)
    | [] => by simp [ofTreeList, idEntriesList]
    | k :: ks => by
      rw [ofTreeList, ofTreeList, idEntriesList, idEntriesList, List.map_append, List.map_append,
        idEntries_ofTree_fst n m k, idEntriesList_ofTreeList_fst (n + k.size) (m + k.size) ks]
end

mutual
  /-- Every entry points at a node of the tree. -/
  theorem idEntries_mem_handles : ∀ t : HTree, ∀ e ∈ idEntries t, e.2 ∈ handles t
    | .node h v ks => by
      intro e he
      rw [idEntries, List.mem_append] at he
      rw [fi_handles_node, List.mem_cons]
      rcases he with he | he
      · left
        cases hv : v.isElement with
        | false => rw [hv] at he; simp at he
        | true =>
          rw [hv] at he
          simp only [if_true, List.mem_map] at he
          obtain ⟨_, _, rfl⟩ := he; rfl
      · exact Or.inr (idEntriesList_mem_handlesList ks e he)
  theorem idEntriesList_mem_handlesList : ∀ ks : List HTree, ∀ e ∈ idEntriesList ks, e.2 ∈ handlesList ks
    | [] => by intro e he; simp [idEntriesList] at he
    | k :: ks => by
      intro e he
      rw [idEntriesList, List.mem_append] at he
      rw [fi_handlesList_cons, List.mem_append]
      rcases he with he | he
      · exact Or.inl (idEntries_mem_handles k e he)
      · exact Or.inr (idEntriesList_mem_handlesList ks e he)
end

mutual
  /-- Every entry `(v, h)` of the table of a freshly numbered tree: `h` is an element of the tree
      that has an xml:id attribute with value `v` among its children. -/
  theorem idEntries_ofTree_find (n : Nat) : ∀ t : Tree, ∀ e ∈ idEntries (ofTree n t),
      ∃ name ks, find? e.2 (ofTree n t) = some (.node e.2 (.element name) ks) ∧ e.1 ∈ idAttrValues ks
    | .node v ks => by
      intro e he
      rw [ofTree] at he ⊢
      rw [idEntries, List.mem_append] at he
      rcases he with he | he
      · cases v with
        | element name =>
          simp only [Value.isElement, if_true, List.mem_map] at he
          obtain ⟨s, hs, rfl⟩ := he
          exact ⟨name, _, by simp [find?], hs⟩
        | _ => simp [Value.isElement] at he
      · obtain ⟨name, ks', hf, hm⟩ := idEntriesList_ofTreeList_find (n + 1) ks e he
        refine ⟨name, ks', ?_, hm⟩
        have := handlesList_ofTreeList (n + 1) ks e.2 (idEntriesList_mem_handlesList _ e he)
        rw [find?, if_neg (by omega)]; exact hf
  theorem idEntriesList_ofTreeList_find (n : Nat) : ∀ ts : List Tree, ∀ e ∈ idEntriesList (ofTreeList n ts),
      ∃ name ks, findList? e.2 (ofTreeList n ts) = some (.node e.2 (.element name) ks) ∧
        e.1 ∈ idAttrValues ks
    | [] => by intro e he; simp [ofTreeList, idEntriesList] at he
    | k :: ks => by
      intro e he
      rw [ofTreeList] at he ⊢
      rw [idEntriesList, List.mem_append] at he
      rw [fi_findList?_cons]
      rcases he with he | he
      · obtain ⟨name, ks', hf, hm⟩ := idEntries_ofTree_find n k e he
        exact ⟨name, ks', by rw [hf]; rfl, hm⟩
      · obtain ⟨name, ks', hf, hm⟩ := idEntriesList_ofTreeList_find (n + k.size) ks e he
        refine ⟨name, ks', ?_, hm⟩
        have h2 := handlesList_ofTreeList (n + k.size) ks e.2 (idEntriesList_mem_handlesList _ e he)
        have hn : e.2 ∉ handles (ofTree n k) := fun hx => by
          have := handles_ofTree n k e.2 hx; omega
        rw [find?_of_not_mem _ _ hn, Option.none_or]; exact hf
end

/-! ### List lookups -/

abbrev IdIndexList := List ((Nat × Str) × Nat)

theorem fi_lookup_filter_ne (l : IdIndexList) (doc d : Nat) (v : Str) (hne : d ≠ doc) :
    (l.filter (fun e => e.1.1 != doc)).lookup (d, v) = l.lookup (d, v) := by
  induction l with
  | nil => rfl
  | cons e es ih =>
    obtain ⟨⟨d', v'⟩, h'⟩ := e
    by_cases hd : d' = doc
    · subst hd
      have : ((d, v) == (d', v')) = false := by simp [hne]
      simp [List.lookup_cons, this, ih]
    · by_cases hk : ((d, v) == (d', v')) = true
      · simp [List.lookup_cons, hd, hk]
      · simp only [Bool.not_eq_true] at hk
        simp [List.lookup_cons, hd, hk, ih]

theorem lookup_filter_eq (l : IdIndexList) (doc : Nat) (v : Str) :
    (l.filter (fun e => e.1.1 != doc)).lookup (doc, v) = none := by
  rw [List.lookup_eq_none_iff]
  intro p hp
  rw [List.mem_filter] at hp
  have h := hp.2
  simp only [bne_iff_ne, ne_eq] at h
  simp only [bne_iff_ne, ne_eq]
  intro he; exact h (by rw [← he])

theorem lookup_map_doc (L : List (Str × Nat)) (doc : Nat) (v : Str) :
    (L.map (fun e => ((doc, e.1), e.2))).lookup (doc, v) = L.lookup v := by
  induction L with
  | nil => rfl
  | cons e es ih =>
    obtain ⟨w, h⟩ := e
    by_cases hk : v = w
    · subst hk; simp
    · have h1 : (v == w) = false := by simp [hk]
      have h2 : ((doc, v) == (doc, w)) = false := by simp [hk]
      simp only [List.map_cons, List.lookup_cons, h1, h2]; exact ih

theorem lookup_map_ne (L : List (Str × Nat)) (doc d : Nat) (v : Str) (hne : d ≠ doc) :
    (L.map (fun e => ((doc, e.1), e.2))).lookup (d, v) = none := by
  rw [List.lookup_eq_none_iff]
  intro p hp
  rw [List.mem_map] at hp
  obtain ⟨e, _, rfl⟩ := hp
  simp [hne]

theorem fi_lookup_of_mem_nodup (L : List (Str × Nat)) (hn : (L.map (·.1)).Nodup) (e : Str × Nat)
    (he : e ∈ L) : L.lookup e.1 = some e.2 := by
  induction L with
  | nil => cases he
  | cons a as ih =>
    obtain ⟨w, h⟩ := a
    rw [List.map_cons, List.nodup_cons] at hn
    rcases List.mem_cons.mp he with rfl | he'
    · simp
    · have hne : (e.1 == w) = false := by
        simp only [beq_eq_false_iff_ne, ne_eq]
        intro h'; exact hn.1 (h' ▸ List.mem_map_of_mem (f := fun x => x.1) he')
      simp only [List.lookup_cons, hne]; exact ih hn.2 he'

theorem fi_mem_of_lookup {α β : Type} [BEq α] [LawfulBEq α] {l : List (α × β)} {k : α} {b : β}
    (h : l.lookup k = some b) : (k, b) ∈ l := by
  obtain ⟨l₁, l₂, rfl, _⟩ := List.lookup_eq_some_iff.mp h
  simp

theorem lookup_none_of_not_mem (L : List (Str × Nat)) (v : Str) (h : v ∉ L.map (·.1)) :
    L.lookup v = none := by
  rw [List.lookup_eq_none_iff]
  intro p hp
  simp only [bne_iff_ne, ne_eq]
  intro he; exact h (by rw [he]; exact List.mem_map_of_mem hp)

theorem nodup_map_pair (doc : Nat) (L : List Str) (hn : L.Nodup) : (L.map (fun v => (doc, v))).Nodup := by
  induction L with
  | nil => simp
  | cons a as ih =>
    rw [List.nodup_cons] at hn
    rw [List.map_cons, List.nodup_cons]
    refine ⟨fun hm => ?_, ih hn.2⟩
    rw [List.mem_map] at hm
    obtain ⟨b, hb, he⟩ := hm
    have : b = a := by injection he
    exact hn.1 (this ▸ hb)

/-! ### The store with index -/

namespace IdStore

theorem xmlIdNode_eq_some_iff (s : IdStore) (doc : Nat) (v : Str) (h : Nat) :
    s.xmlIdNode doc v = some h ↔ s.lookup doc v = some h ∧ s.forest.isLive h = true := by
  unfold xmlIdNode; rw [Option.filter_eq_some_iff]

theorem xmlIdNode_of_lookup (s : IdStore) (doc : Nat) (v : Str) (h : Nat) (hl : s.lookup doc v = some h) :
    s.xmlIdNode doc v = if s.forest.isLive h then some h else none := by
  unfold xmlIdNode; rw [hl]; cases hlv : s.forest.isLive h <;> simp [Option.filter, hlv]

theorem xmlIdNode_of_lookup_none (s : IdStore) (doc : Nat) (v : Str) (hl : s.lookup doc v = none) :
    s.xmlIdNode doc v = none := by
  unfold xmlIdNode; rw [hl]; rfl

theorem parseInto_next (s : IdStore) (t : Tree) :
    (s.parseInto t).1.forest.next = s.forest.next + t.size := rfl

theorem parseInto_allHandles (s : IdStore) (t : Tree) :
    (s.parseInto t).1.forest.allHandles = s.forest.allHandles ++ handles (ofTree s.forest.next t) := by
  unfold parseInto Forest.allHandles; simp

theorem le_parseInto (s : IdStore) (t : Tree) : Forest.Le s.forest (s.parseInto t).1.forest := by
  refine ⟨by rw [parseInto_next]; omega, ?_⟩
  intro h hh
  rw [parseInto_allHandles, List.mem_append] at hh
  rcases hh with hh | hh
  · exact Or.inl hh
  · exact Or.inr (handles_ofTree _ t h hh).1

/-- Handles handed out before the parse: live afterwards iff live before. -/
theorem isLive_parseInto_old (s : IdStore) (t : Tree) (h : Nat) (hh : h < s.forest.next) :
    (s.parseInto t).1.forest.isLive h = s.forest.isLive h := by
  cases hl : s.forest.isLive h with
  | true =>
    apply Forest.isLive_of_mem_allHandles
    rw [parseInto_allHandles]
    exact List.mem_append_left _ (Forest.mem_allHandles_of_isLive hl)
  | false =>
    cases hl' : (s.parseInto t).1.forest.isLive h with
    | false => rfl
    | true =>
      exfalso
      have hm := Forest.mem_allHandles_of_isLive hl'
      rw [parseInto_allHandles, List.mem_append] at hm
      rcases hm with hm | hm
      · rw [Forest.isLive_of_mem_allHandles hm] at hl; cases hl
      · have := (handles_ofTree _ t h hm).1; omega

/-- What `get?` finds for a node of the parsed tree. -/
theorem get?_parseInto_new (s : IdStore) (hb : ∀ x ∈ s.forest.allHandles, x < s.forest.next) (t : Tree)
    (h : Nat) (hh : s.forest.next ≤ h) :
    (s.parseInto t).1.forest.get? h = find? h (ofTree s.forest.next t) := by
  show findList? h (s.forest.roots ++ [ofTree s.forest.next t]) = _
  rw [fi_findList?_append_of_not_mem h _ _ (fun hm => by have := hb h hm; omega), fi_findList?_cons]
  cases find? h (ofTree s.forest.next t) <;> rfl

theorem lookup_parseInto_other (s : IdStore) (t : Tree) (d : Nat) (v : Str) (hne : d ≠ s.forest.next) :
    (s.parseInto t).1.lookup d v = s.lookup d v := by
  unfold lookup parseInto
  simp only
  rw [List.lookup_append, fi_lookup_filter_ne _ _ _ _ hne, lookup_map_ne _ _ _ _ hne, Option.or_none]

theorem lookup_parseInto_new (s : IdStore) (t : Tree) (v : Str) :
    (s.parseInto t).1.lookup s.forest.next v = (idEntries (ofTree s.forest.next t)).lookup v := by
  unfold lookup parseInto
  simp only
  rw [List.lookup_append, lookup_filter_eq, Option.none_or, lookup_map_doc]

theorem le_step (s : IdStore) (o : IdOp) : Forest.Le s.forest (s.step o).forest := by
  cases o with
  | call o => exact Forest.le_step s.forest o
  | parse t =>
    show Forest.Le s.forest (s.parse t).1.forest
    unfold parse
    split
    · exact le_parseInto s t
    · exact Forest.Le.refl _

theorem le_run (s : IdStore) (ops : List IdOp) : Forest.Le s.forest (s.run ops).forest := by
  induction ops generalizing s with
  | nil => exact Forest.Le.refl _
  | cons o os ih => exact Forest.Le.trans (le_step s o) (ih (s.step o))

/-- The index is only written for the document node a parse creates: entries of existing
    documents are never rewritten. -/
theorem lookup_step (s : IdStore) (o : IdOp) (d : Nat) (v : Str) (hd : d < s.forest.next) :
    (s.step o).lookup d v = s.lookup d v := by
  cases o with
  | call o => rfl
  | parse t =>
    show (s.parse t).1.lookup d v = _
    unfold parse
    split
    · exact lookup_parseInto_other s t d v (Nat.ne_of_lt hd)
    · rfl

theorem lookup_run (s : IdStore) (ops : List IdOp) (d : Nat) (v : Str) (hd : d < s.forest.next) :
    (s.run ops).lookup d v = s.lookup d v := by
  induction ops generalizing s with
  | nil => rfl
  | cons o os ih =>
    show ((s.step o).run os).lookup d v = _
    rw [ih (s.step o) (Nat.lt_of_lt_of_le hd (le_step s o).next), lookup_step s o d v hd]

theorem run_append (s : IdStore) (a b : List IdOp) : s.run (a ++ b) = (s.run a).run b := by
  unfold run; rw [List.foldl_append]

/-! #### The reachable-state invariant of the index -/

theorem wf_init : init.Wf := ⟨fun e he => (by cases he), (by simp [init])⟩

theorem wf_call {s : IdStore} (hw : s.Wf) (o : Op) : (s.call o).Wf := by
  refine ⟨fun e he => ?_, hw.keys⟩
  have := hw.below e he
  have hn := (Forest.le_step s.forest o).next
  exact ⟨Nat.lt_of_lt_of_le this.1 hn, Nat.lt_of_lt_of_le this.2 hn⟩

theorem wf_parseInto {s : IdStore} (hw : s.Wf) (t : Tree) (hn : (Tree.idValues t).Nodup) :
    (s.parseInto t).1.Wf := by
  have hpos := Tree.size_pos t
  refine ⟨?_, ?_⟩
  · intro e he
    rw [parseInto_next]
    have he' : e ∈ s.index.filter (fun e => e.1.1 != s.forest.next) ++
        (idEntries (ofTree s.forest.next t)).map (fun e => ((s.forest.next, e.1), e.2)) := he
    rw [List.mem_append] at he'
    rcases he' with he' | he'
    · have := hw.below e (List.mem_filter.mp he').1
      omega
    · rw [List.mem_map] at he'
      obtain ⟨a, ha, rfl⟩ := he'
      have := handles_ofTree s.forest.next t a.2 (idEntries_mem_handles _ a ha)
      simp only
      omega
  · show ((s.index.filter (fun e => e.1.1 != s.forest.next) ++
        (idEntries (ofTree s.forest.next t)).map (fun e => ((s.forest.next, e.1), e.2))).map (·.1)).Nodup
    rw [List.map_append, List.nodup_append]
    refine ⟨hw.keys.sublist (List.Sublist.map _ List.filter_sublist), ?_, ?_⟩
    · rw [List.map_map]
      have : ((fun x : (Nat × Str) × Nat => x.1) ∘ fun e : Str × Nat => ((s.forest.next, e.1), e.2)) =
          (fun v => (s.forest.next, v)) ∘ (fun e : Str × Nat => e.1) := rfl
      rw [this, ← List.map_map]
      apply nodup_map_pair
      rw [idEntries_ofTree_fst s.forest.next 0 t]
      exact hn
    · intro a ha b hb hab
      rw [List.mem_map] at ha hb
      obtain ⟨x, hx, rfl⟩ := ha
      obtain ⟨y, hy, rfl⟩ := hb
      rw [List.mem_map] at hy
      obtain ⟨z, _, rfl⟩ := hy
      have := (List.mem_filter.mp hx).2
      simp only [bne_iff_ne, ne_eq] at this
      exact this (by rw [hab])

theorem wf_step {s : IdStore} (hw : s.Wf) (o : IdOp) : (s.step o).Wf := by
  cases o with
  | call o => exact wf_call hw o
  | parse t =>
    show (s.parse t).1.Wf
    unfold parse
    split
    · next hn => exact wf_parseInto hw t hn
    · exact hw

theorem wf_run {s : IdStore} (hw : s.Wf) (ops : List IdOp) : (s.run ops).Wf := by
  induction ops generalizing s with
  | nil => exact hw
  | cons o os ih => exact ih (wf_step hw o)

/-- With the index invariant, what a successful lookup finds was created earlier. -/
theorem lookup_below {s : IdStore} (hw : s.Wf) {d : Nat} {v : Str} {h : Nat} (hl : s.lookup d v = some h) :
    d < s.forest.next ∧ h < s.forest.next :=
  hw.below _ (fi_mem_of_lookup hl)

/-! #### Parsing into an existing store keeps the forest invariant -/

theorem inv_parseInto {s : IdStore} (hi : s.forest.Inv) (t : Tree) (hv : s.parseOK t) :
    (s.parseInto t).1.forest.Inv := by
  refine ⟨hi.notCorrupt, ?_, ?_, ?_, hi.consOn⟩
  · rw [parseInto_allHandles, List.nodup_append]
    refine ⟨hi.nodup, nodup_handles_ofTree _ t, ?_⟩
    intro a ha b hb hab
    have h1 := hi.below a ha
    have h2 := handles_ofTree _ t b hb
    omega
  · intro h hh
    rw [parseInto_allHandles, List.mem_append] at hh
    rw [parseInto_next]
    rcases hh with hh | hh
    · have := hi.below h hh; omega
    · exact (handles_ofTree _ t h hh).2
  · show validList (!s.forest.everOff) (s.forest.roots ++ [ofTree s.forest.next t]) = true
    rw [validList_append, validList_cons, validList_nil, hi.valid]
    unfold parseOK at hv
    simp [hv]

theorem inv_step {s : IdStore} (hi : s.forest.Inv) (o : IdOp) (hok : s.stepOK o) : (s.step o).forest.Inv := by
  cases o with
  | call o => exact Forest.step_inv hi o (by cases o <;> rfl)
  | parse t =>
    show (s.parse t).1.forest.Inv
    unfold parse
    split
    · exact inv_parseInto hi t hok
    · exact hi

theorem inv_run {s : IdStore} (hi : s.forest.Inv) (ops : List IdOp) (hok : s.runOK ops) :
    (s.run ops).forest.Inv := by
  induction ops generalizing s with
  | nil => exact hi
  | cons o os ih => exact ih (inv_step hi o hok.1) hok.2

end IdStore
end XotModel
