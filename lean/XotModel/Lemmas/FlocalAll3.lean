/-
  Locality for every call (C12), part 3: every constructor of `Forest.Call`, the steps of
  `Forest.HStep`, histories, and the two sides of a clone.
-/
import XotModel.Lemmas.FlocalAll2
import XotModel.Model.FlocalSpec

namespace XotModel
open HTree

namespace Forest

/-- `next` never decreases, call by call. -/
theorem nle_call (f : Forest) (c : Call) : NLe f (c.run f).1 := by
  cases c with
  | append p c => exact nle_append f p c
  | prepend p c => exact nle_prepend f p c
  | insertAfter a b => exact nle_insertAfter f a b
  | insertBefore a b => exact nle_insertBefore f a b
  | detach n => exact nle_detach f n
  | remove n => exact nle_remove f n
  | replace a b => exact nle_replace f a b
  | elementWrap n name => exact nle_elementWrap f n name
  | elementUnwrap n => exact nle_elementUnwrap f n
  | cloneNode n => exact nle_cloneNode f n
  | anyAppend p c => exact nle_anyAppend f p c
  | appendEntryNode k p c => exact nle_appendEntryNode f k p c
  | mapInsert k p e => exact nle_mapInsert f k p e
  | mapRemove k p key => exact nle_mapRemove f k p key
  | mapClear k p => exact nle_mapClear f k p
  | setElementName n name => exact nle_setElementName f n name
  | setText n s => exact nle_setText f n s
  | setComment n s => exact nle_setComment f n s
  | setPiData n d => exact nle_setPiData f n d
  | textContentSet n s => exact nle_textContentSet f n s

theorem nle_stepAll (f : Forest) (s : HStep) : NLe f (f.stepAll s) := by
  cases s with
  | call c => exact nle_call f c
  | newNode v => exact nle_newNode f v
  | setConsolidation b => exact nle_setConsolidation f b
  | removeInsignificantWhitespace n => exact nle_removeInsignificantWhitespace f n

end Forest

namespace SepB

variable {r : HTree} {f : Forest}

/-- One call none of whose node arguments lies in `r` (for `clone_node` the source may lie anywhere). -/
theorem call (s : SepB r f) (c : Forest.Call)
    (h : ∀ a ∈ c.args, a ∉ handles r) : SepB r (c.run f).1 := by
  refine ⟨?_, s.below.le (Forest.nle_call f c)⟩
  have s0 := s.sep
  have b0 := s.below
  cases c with
  | append p c => exact s0.append (h p (by simp [Forest.Call.args])) (h c (by simp [Forest.Call.args]))
  | prepend p c => exact s0.prepend (h p (by simp [Forest.Call.args])) (h c (by simp [Forest.Call.args]))
  | insertAfter a b => exact s0.insertAfter (h a (by simp [Forest.Call.args])) (h b (by simp [Forest.Call.args]))
  | insertBefore a b => exact s0.insertBefore (h a (by simp [Forest.Call.args])) (h b (by simp [Forest.Call.args]))
  | detach n => exact s0.detach (h n (by simp [Forest.Call.args]))
  | remove n => exact s0.remove (h n (by simp [Forest.Call.args]))
  | replace a b => exact s0.replace (h a (by simp [Forest.Call.args])) (h b (by simp [Forest.Call.args]))
  | elementWrap n name => exact s0.elementWrap b0 (h n (by simp [Forest.Call.args])) name
  | elementUnwrap n => exact s0.elementUnwrap (h n (by simp [Forest.Call.args]))
  | cloneNode n => exact (s.cloneNode n).sep
  | anyAppend p c => exact s0.anyAppend b0 (h p (by simp [Forest.Call.args])) (h c (by simp [Forest.Call.args]))
  | appendEntryNode k p c =>
    exact s0.appendEntryNode b0 (h p (by simp [Forest.Call.args])) (h c (by simp [Forest.Call.args]))
  | mapInsert k p e => exact (s0.mapInsert b0 (h p (by simp [Forest.Call.args])) e).1
  | mapRemove k p key => exact s0.mapRemove (h p (by simp [Forest.Call.args])) key
  | mapClear k p => exact s0.mapClear (h p (by simp [Forest.Call.args]))
  | setElementName n name => exact s0.setElementName (h n (by simp [Forest.Call.args])) name
  | setText n x => exact s0.setText (h n (by simp [Forest.Call.args])) x
  | setComment n x => exact s0.setComment (h n (by simp [Forest.Call.args])) x
  | setPiData n d => exact s0.setPiData (h n (by simp [Forest.Call.args])) d
  | textContentSet n x => exact s0.textContentSet b0 (h n (by simp [Forest.Call.args])) x

/-- One step of a history. -/
theorem stepAll (s : SepB r f) (st : Forest.HStep)
    (h : ∀ a ∈ st.args, a ∉ handles r) : SepB r (f.stepAll st) := by
  cases st with
  | call c => exact s.call c h
  | newNode v => exact (s.newNode v).1
  | setConsolidation b => exact ⟨s.sep.setConsolidation b, s.below⟩
  | removeInsignificantWhitespace n =>
    exact ⟨s.sep.removeInsignificantWhitespace (h n (by simp [Forest.HStep.args])),
      s.below.le (Forest.nle_removeInsignificantWhitespace f n)⟩

/-- Any history. -/
theorem runAll : ∀ (ss : List Forest.HStep) {f : Forest}, SepB r f →
    (∀ st ∈ ss, ∀ a ∈ st.args, a ∉ handles r) → SepB r (f.runAll ss)
  | [], _, s, _ => s
  | st :: ss, f, s, h => by
    have s1 := s.stepAll st (h st (by simp))
    exact runAll ss s1 (fun o ho => h o (by simp [ho]))

/-- Every root of a forest with the invariant is a separated root below `next`. -/
theorem of_inv {f : Forest} (inv : f.Inv) {r : HTree} (hr : r ∈ f.roots) : SepB r f :=
  ⟨Sep.of_inv inv hr, fun a ha => inv.below a (handles_subset_handlesList hr a ha)⟩

end SepB

/-- Right after `clone_node`: the clone and every old root are separated roots below `next`. -/
theorem sepB_after_clone (f : Forest) (inv : f.Inv) (C : HTree) (f' : Forest)
    (h2 : f'.roots = f.roots ++ [C]) (h4 : ∀ a ∈ handles C, f.next ≤ a ∧ a < f'.next) :
    SepB C f' ∧ ∀ r ∈ f.roots, SepB r f' := by
  obtain ⟨g3, g4⟩ := sep_after_clone f inv C f' h2 (fun a ha => (h4 a ha).1)
  refine ⟨⟨g3, fun a ha => (h4 a ha).2⟩, fun r hr => ⟨g4 r hr, ?_⟩⟩
  intro a ha
  have h1 := inv.below a (handles_subset_handlesList hr a ha)
  have hC := h4 C.handle (fc_handle_mem_handles C)
  omega

end XotModel

namespace XotModel

/-- The C04 history type `Op` is the sub-language of `HStep` histories the public API can issue. -/
theorem Forest.step_eq_stepAll (f : Forest) (o : Op) : f.step o = f.stepAll o.toStep := by
  cases o <;> rfl

theorem Forest.run_eq_runAll (f : Forest) (ops : List Op) : f.run ops = f.runAll (ops.map Op.toStep) := by
  unfold Forest.run Forest.runAll
  induction ops generalizing f with
  | nil => rfl
  | cons o ops ih => simp only [List.foldl_cons, List.map_cons]; rw [Forest.step_eq_stepAll]; exact ih _

end XotModel
