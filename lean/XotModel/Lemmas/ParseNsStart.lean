/-
  C02_spelled_ns, part 2: the items of a start tag (namespace declarations and ordinary attributes
  mixed, as written) fill the `ElementBuilder`; the attribute loop of `open_element`.
-/
import XotModel.Lemmas.ParseNsEnv

namespace XotModel

/-! ### Splitting the items of a start tag -/

theorem declsOf_cons_decl {a : NSAttr} {p : Str} (h : a.declares = some p) (as : List NSAttr) :
    declsOf (a :: as) = (p, valueOf true a.pieces) :: declsOf as := by
  simp [declsOf, h]

theorem declsOf_cons_ord {a : NSAttr} (h : a.declares = none) (as : List NSAttr) :
    declsOf (a :: as) = declsOf as := by
  simp [declsOf, h]

theorem ordinary_cons_decl {a : NSAttr} {p : Str} (h : a.declares = some p) (as : List NSAttr) :
    ordinary (a :: as) = ordinary as := by
  simp [ordinary, NSAttr.isDecl, h]

theorem ordinary_cons_ord {a : NSAttr} (h : a.declares = none) (as : List NSAttr) :
    ordinary (a :: as) = a :: ordinary as := by
  simp [ordinary, NSAttr.isDecl, h]

theorem nodup_of_map {α β : Type} (f : α → β) : ∀ {l : List α}, (l.map f).Nodup → l.Nodup
  | [], _ => List.nodup_nil
  | x :: xs, h => by
    simp only [List.map_cons] at h
    obtain ⟨h1, h2⟩ := List.nodup_cons.mp h
    exact List.nodup_cons.mpr ⟨fun hm => h1 (List.mem_map.mpr ⟨x, hm, rfl⟩), nodup_of_map f h2⟩

/-- Different by expanded name implies different as written. -/
theorem written_nodup {scope : Scope} {attrs : List NSAttr} (h : ((attrsOf scope attrs).map Prod.fst).Nodup) :
    ((ordinary attrs).map fun a => (a.pfx.text, a.loc.text)).Nodup := by
  apply nodup_of_map (fun w : Str × Str => (scope.attrNs w.1, w.2))
  have : ((ordinary attrs).map fun a => (a.pfx.text, a.loc.text)).map
      (fun w : Str × Str => (scope.attrNs w.1, w.2)) = (attrsOf scope attrs).map Prod.fst := by
    simp only [attrsOf, List.map_map]; rfl
  rw [this]; exact h

/-! ### Declarations -/

theorem declIds_app : ∀ (ds : List (Str × Str)) (env : Env), EnvApp env (declIds env ds).1
  | [], env => EnvApp.refl env
  | (p, u) :: rest, env => by
    simp only [declIds]
    exact ((internPrefix_app env p).trans (internNamespace_app _ u)).trans (declIds_app rest _)

/-- The ids the declarations get are the ids of their strings in the tables afterwards. -/
theorem declIds_frame : ∀ (ds : List (Str × Str)) (env : Env),
    (declIds env ds).2 = idFrame (declIds env ds).1 ds ∧ FrameIn (declIds env ds).1 ds
  | [], env => ⟨rfl, fun _ h => by simp at h⟩
  | (p, u) :: rest, env => by
    obtain ⟨ih1, ih2⟩ := declIds_frame rest ((env.internPrefix p).1.internNamespace u).1
    have happ := declIds_app rest ((env.internPrefix p).1.internNamespace u).1
    have hp1 : p ∈ ((env.internPrefix p).1.internNamespace u).1.prefixes :=
      mem_ext (internNamespace_app _ u).1 (internPrefix_mem env p)
    have hu1 : u ∈ ((env.internPrefix p).1.internNamespace u).1.namespaces := internNamespace_mem _ u
    simp only [declIds]
    constructor
    · simp only [idFrame, List.map_cons, List.cons.injEq, Prod.mk.injEq]
      refine ⟨⟨?_, ?_⟩, ih1⟩
      · rw [idxOf_app happ.1 hp1, idxOf_app (internNamespace_app _ u).1 (internPrefix_mem env p)]
        exact (internPrefix_idx env p).symm
      · rw [idxOf_app happ.2.1 hu1]
        exact (internNamespace_idx _ u).symm
    · intro pu hpu
      simp only [List.mem_cons] at hpu
      rcases hpu with rfl | hpu
      · exact ⟨mem_ext happ.1 hp1, mem_ext happ.2.1 hu1⟩
      · exact ih2 pu hpu

/-! ### The attribute tokens of a start tag -/

def NSAttr.builder (a : NSAttr) : AttributeBuilder :=
  { pfx := a.pfx.text, name := a.loc.text, value := valueOf true a.pieces,
    nameSpan := Span.fromPrefixName a.pfx a.loc,
    valueSpan := (⟨renderPieces a.pieces, a.vstart⟩ : StrSpan).span,
    prefixSpan := a.pfx.span }

/-- A namespace declaration item: both strings are interned, the pair of ids is recorded. -/
theorem step_decl {b : Builder} {eb : ElementBuilder} (heb : b.eb = some eb) (a : NSAttr) {p : Str}
    (hd : a.declares = some p) (hw : WellSpelled a.pieces)
    (hres : reservedDecl p (valueOf true a.pieces) = false)
    (hnew : (eb.namespaces.any fun d => d.1 == (b.env.internPrefix p).2) = false)
    (hbc : a.pfx.bareColon = false) :
    b.step a.token = .ok { b with
      env := ((b.env.internPrefix p).1.internNamespace (valueOf true a.pieces)).1,
      eb := some { eb with namespaces := eb.namespaces ++
        [((b.env.internPrefix p).2, ((b.env.internPrefix p).1.internNamespace (valueOf true a.pieces)).2)] } } := by
  have hparse := parse_pieces true a.vstart a.pieces 0 hw
  have hpref : ∀ sp, b.prefix p ⟨renderPieces a.pieces, a.vstart⟩ sp = .ok { b with
      env := ((b.env.internPrefix p).1.internNamespace (valueOf true a.pieces)).1,
      eb := some { eb with namespaces := eb.namespaces ++
        [((b.env.internPrefix p).2, ((b.env.internPrefix p).1.internNamespace (valueOf true a.pieces)).2)] } } := by
    intro sp
    unfold Builder.prefix
    simp only [hparse, hres, heb, hnew, Bool.false_eq_true, if_false]
  unfold NSAttr.declares at hd
  simp only [NSAttr.token, Builder.step, hbc, Bool.false_eq_true, if_false]
  by_cases h1 : (a.pfx.text == xmlnsStr) = true
  · simp only [h1, if_true, Option.some.injEq] at hd
    subst hd
    have h1' : (a.pfx.text == ['x', 'm', 'l', 'n', 's']) = true := h1
    simp only [h1', if_true]
    exact hpref _
  · have h1f : (a.pfx.text == xmlnsStr) = false := by simpa using h1
    simp only [h1f, Bool.false_eq_true, if_false] at hd
    by_cases h2 : (a.pfx.text.isEmpty && a.loc.text == xmlnsStr) = true
    · simp only [h2, if_true, Option.some.injEq] at hd
      subst hd
      have h1' : (a.pfx.text == ['x', 'm', 'l', 'n', 's']) = false := h1f
      have h2' : (a.pfx.text.isEmpty && a.loc.text == ['x', 'm', 'l', 'n', 's']) = true := h2
      simp only [h1', Bool.false_eq_true, if_false, h2', if_true]
      exact hpref _
    · simp only [h2] at hd
      cases hd

/-- An ordinary attribute item: decoded, normalised as an attribute value, collected. -/
theorem step_ord {b : Builder} {eb : ElementBuilder} (heb : b.eb = some eb) (a : NSAttr)
    (hd : a.declares = none) (hw : WellSpelled a.pieces)
    (hnew : (eb.attributes.any fun ab => ab.pfx == a.pfx.text && ab.name == a.loc.text) = false)
    (hbc : a.pfx.bareColon = false) :
    b.step a.token = .ok { b with eb := some { eb with attributes := eb.attributes ++ [a.builder] } } := by
  have hparse := parse_pieces true a.vstart a.pieces 0 hw
  unfold NSAttr.declares at hd
  have h1 : (a.pfx.text == ['x', 'm', 'l', 'n', 's']) = false := by
    by_cases h : (a.pfx.text == xmlnsStr) = true
    · simp [h] at hd
    · simpa [xmlnsStr] using h
  have h2 : (a.pfx.text.isEmpty && a.loc.text == ['x', 'm', 'l', 'n', 's']) = false := by
    have h1' : (a.pfx.text == xmlnsStr) = false := h1
    simp only [h1', Bool.false_eq_true, if_false] at hd
    by_cases h : (a.pfx.text.isEmpty && a.loc.text == xmlnsStr) = true
    · simp [h] at hd
    · simpa [xmlnsStr] using h
  simp only [NSAttr.token, Builder.step, hbc, h1, Bool.false_eq_true, if_false, h2]
  unfold Builder.attribute
  simp only [heb, hnew, Bool.false_eq_true, if_false, hparse]
  rfl

/-- The attribute tokens of a start tag: the declarations are interned in order and recorded, the
    ordinary attributes are collected. -/
theorem run_attrs_ns (rest : List Token) (lexErr : Option Nat) : ∀ (attrs : List NSAttr) (b : Builder)
    (eb : ElementBuilder), b.eb = some eb → (∀ a ∈ attrs, WellSpelled a.pieces) →
    (∀ d ∈ declsOf attrs, reservedDecl d.1 d.2 = false) →
    (∀ d ∈ eb.namespaces, ∃ q, q ∈ b.env.prefixes ∧ d.1 = b.env.prefixes.idxOf q ∧
      q ∉ (declsOf attrs).map Prod.fst) →
    ((declsOf attrs).map Prod.fst).Nodup →
    (eb.attributes.map (fun ab => (ab.pfx, ab.name)) ++
      (ordinary attrs).map (fun a => (a.pfx.text, a.loc.text))).Nodup →
    (∀ a ∈ attrs, a.pfx.bareColon = false) →
    b.run (attrs.map NSAttr.token ++ rest) lexErr =
      Builder.run { b with
        env := (declIds b.env (declsOf attrs)).1,
        eb := some { eb with
          namespaces := eb.namespaces ++ (declIds b.env (declsOf attrs)).2,
          attributes := eb.attributes ++ (ordinary attrs).map NSAttr.builder } } rest lexErr := by
  intro attrs
  induction attrs with
  | nil =>
    intro b eb heb _ _ _ _ _ _
    simp only [List.map_nil, List.nil_append, declsOf, ordinary, List.filterMap_nil, List.filter_nil, declIds,
      List.append_nil]
    congr 1
    cases b; simp_all
  | cons a as ih =>
    intro b eb heb hw hres hns hnd hna hbc
    have hbca := hbc a (by simp)
    have hbcs : ∀ x ∈ as, x.pfx.bareColon = false := fun x hx => hbc x (by simp [hx])
    have hwa := hw a (by simp)
    have hws : ∀ x ∈ as, WellSpelled x.pieces := fun x hx => hw x (by simp [hx])
    simp only [List.map_cons, List.cons_append, Builder.run]
    cases hd : a.declares with
    | some p =>
      rw [declsOf_cons_decl hd] at hns hnd hres ⊢
      rw [ordinary_cons_decl hd] at hna ⊢
      have hresa : reservedDecl p (valueOf true a.pieces) = false :=
        hres (p, valueOf true a.pieces) (List.mem_cons_self ..)
      have hress : ∀ d ∈ declsOf as, reservedDecl d.1 d.2 = false := fun d hd' => hres d (List.mem_cons_of_mem _ hd')
      simp only [List.map_cons] at hns hnd
      obtain ⟨hpn, hnd'⟩ := List.nodup_cons.mp hnd
      have hnew : (eb.namespaces.any fun d => d.1 == (b.env.internPrefix p).2) = false := by
        rw [List.any_eq_false]
        intro d hdm
        obtain ⟨q, hq, hdq, hqn⟩ := hns d hdm
        simp only [beq_iff_eq]
        intro he
        have : b.env.prefixes.idxOf q = b.env.prefixes.idxOf p := by rw [← hdq]; exact he
        exact hqn (by rw [idxOf_inj hq this]; simp)
      rw [step_decl heb a hd hwa hresa hnew hbca]
      simp only
      have happ : EnvApp b.env ((b.env.internPrefix p).1.internNamespace (valueOf true a.pieces)).1 :=
        (internPrefix_app b.env p).trans (internNamespace_app _ _)
      rw [ih { b with
          env := ((b.env.internPrefix p).1.internNamespace (valueOf true a.pieces)).1,
          eb := some { eb with namespaces := eb.namespaces ++
            [((b.env.internPrefix p).2, ((b.env.internPrefix p).1.internNamespace (valueOf true a.pieces)).2)] } }
        { eb with namespaces := eb.namespaces ++
            [((b.env.internPrefix p).2, ((b.env.internPrefix p).1.internNamespace (valueOf true a.pieces)).2)] }
        rfl hws hress ?_ hnd' hna hbcs]
      · simp only [declIds, List.append_assoc, List.singleton_append]
      · intro d hdm
        simp only [List.mem_append, List.mem_singleton] at hdm
        rcases hdm with hdm | rfl
        · obtain ⟨q, hq, hdq, hqn⟩ := hns d hdm
          refine ⟨q, mem_ext happ.1 hq, ?_, fun hm => hqn (by simp [hm])⟩
          rw [idxOf_app happ.1 hq]; exact hdq
        · refine ⟨p, mem_ext (internNamespace_app _ _).1 (internPrefix_mem b.env p), ?_, hpn⟩
          simp only
          rw [idxOf_app (internNamespace_app _ _).1 (internPrefix_mem b.env p)]
          exact (internPrefix_idx b.env p).symm
    | none =>
      rw [declsOf_cons_ord hd] at hns hnd hres ⊢
      rw [ordinary_cons_ord hd] at hna ⊢
      have hnew : (eb.attributes.any fun ab => ab.pfx == a.pfx.text && ab.name == a.loc.text) = false := by
        rw [List.any_eq_false]
        intro ab hab
        simp only [Bool.and_eq_true, beq_iff_eq, not_and]
        intro h1 h2
        have hdis := (List.nodup_append.mp hna).2.2
        exact hdis (ab.pfx, ab.name) (List.mem_map.mpr ⟨ab, hab, rfl⟩) (a.pfx.text, a.loc.text) (by simp)
          (by rw [h1, h2])
      rw [step_ord heb a hd hwa hnew hbca]
      simp only
      rw [ih { b with eb := some { eb with attributes := eb.attributes ++ [a.builder] } }
        { eb with attributes := eb.attributes ++ [a.builder] } rfl hws hres hns hnd ?_ hbcs]
      · simp only [List.map_cons, List.append_assoc, List.singleton_append]
      · simpa [NSAttr.builder, List.map_append, List.append_assoc] using hna

/-! ### The attribute loop of `open_element` -/

/-- The id-level test for `xml:id` is the string-level test on the expanded name. -/
theorem isId_iff {env : Env} (hb : EnvBaseNs env) {u : Str} (hu : u ∈ env.namespaces) (name : Str) :
    ((name, env.namespaces.idxOf u) == ((['i', 'd'], 1) : Str × Nat)) = ((u, name) == (xmlNsUri, ['i', 'd'])) := by
  have hx := hb.ns_xml
  by_cases hn : name = ['i', 'd']
  · subst hn
    by_cases hux : u = xmlNsUri
    · subst hux; simp [hx.2]
    · have h1 : ((u, ['i', 'd']) == (xmlNsUri, ['i', 'd'])) = false := by simpa using hux
      rw [h1, beq_eq_false_iff_ne]
      intro he
      simp only [Prod.mk.injEq, true_and] at he
      exact hux (idxOf_inj hu (by rw [he, hx.2]))
  · have h1 : ((u, name) == (xmlNsUri, ['i', 'd'])) = false := by simp [hn]
    have h2 : ((name, env.namespaces.idxOf u) == ((['i', 'd'], 1) : Str × Nat)) = false := by simp [hn]
    rw [h1, h2]

theorem addAttributes_ns (frames' : List (List (Str × Str))) (node : Path) :
    ∀ (ords : List NSAttr) (st : AttrLoop),
      EnvBaseNs st.env → FramesIn st.env frames' →
      (∀ a ∈ ords, a.pfx.text ≠ [] → ((flatScope frames').lookup a.pfx.text).isSome = true) →
      (∀ n ∈ st.seenNames, ∃ key : Str × Str,
        key ∉ ords.map (fun a => (a.denote (flatScope frames')).1) ∧ key.1 ∈ st.env.namespaces ∧
        st.env.names[n]? = some (key.2, st.env.namespaces.idxOf key.1)) →
      (ords.map (fun a => (a.denote (flatScope frames')).1)).Nodup →
      (attrIds (ords.map (NSAttr.denote (flatScope frames')))).Nodup →
      (∀ x ∈ attrIds (ords.map (NSAttr.denote (flatScope frames'))), x ∉ st.seenIds) →
      ∃ st', addAttributes (frames'.map (idFrame st.env)) node st (ords.map NSAttr.builder) = .ok st' ∧
        st'.env = (encodeNsAttrs st.env (ords.map (NSAttr.denote (flatScope frames')))).1 ∧
        st'.rkids = (encodeNsAttrs st.env (ords.map (NSAttr.denote (flatScope frames')))).2.reverse ++ st.rkids ∧
        st'.seenIds = (attrIds (ords.map (NSAttr.denote (flatScope frames')))).reverse ++ st.seenIds := by
  intro ords
  induction ords with
  | nil =>
    intro st _ _ _ _ _ _ _
    exact ⟨st, rfl, rfl, by simp [encodeNsAttrs], by simp [attrIds]⟩
  | cons a rest ih =>
    intro st hb hf hpre hseen hnd hidn hidd
    obtain ⟨hname, hu⟩ := attributeNameId_ns hb hf (hpre a (by simp)) a.loc.text a.pfx.span
    generalize hU : (flatScope frames').attrNs a.pfx.text = u at hname hu
    have hrn : st.env.internNamespace u = (st.env, st.env.namespaces.idxOf u) := internNamespace_of_mem hu
    rw [hrn] at hname
    simp only at hname
    have hden : a.denote (flatScope frames') = ((u, a.loc.text), a.value (flatScope frames')) := by
      simp [NSAttr.denote, hU]
    have hvalue : a.value (flatScope frames') =
        if ((u, a.loc.text) == (xmlNsUri, ['i', 'd'])) = true then normalizeXmlId (valueOf true a.pieces)
        else valueOf true a.pieces := by
      simp only [NSAttr.value, hU]
    generalize a.value (flatScope frames') = av at hden hvalue
    have happ := internName_app st.env a.loc.text (st.env.namespaces.idxOf u)
    have hget := internName_get st.env a.loc.text (st.env.namespaces.idxOf u)
    simp only [List.map_cons, hden] at hnd hseen hidn hidd ⊢
    obtain ⟨hknew, hnd'⟩ := List.nodup_cons.mp hnd
    -- the new id is none of the ids seen so far
    have hnew : (st.seenNames.contains (st.env.internName a.loc.text (st.env.namespaces.idxOf u)).2) = false := by
      rw [Bool.eq_false_iff]
      intro hc
      have hm : (st.env.internName a.loc.text (st.env.namespaces.idxOf u)).2 ∈ st.seenNames := by simpa using hc
      obtain ⟨key, hk, hkm, hkg⟩ := hseen _ hm
      have := happ.names_get hkg
      rw [hget] at this
      simp only [Option.some.injEq, Prod.mk.injEq] at this
      have h1 : key.1 = u := (idxOf_inj hkm this.2.symm)
      apply hk
      have : key = (u, a.loc.text) := by rw [← h1, this.1]
      rw [this]; simp
    have hidtest := internName_eq_xmlId hb a.loc.text (st.env.namespaces.idxOf u)
    rw [isId_iff hb hu] at hidtest
    have hE : EnvBaseNs (st.env.internName a.loc.text (st.env.namespaces.idxOf u)).1 := hb.app happ
    have hF : FramesIn (st.env.internName a.loc.text (st.env.namespaces.idxOf u)).1 frames' := hf.app happ
    have hstack := idFrames_app happ hf
    have hseen' : ∀ n ∈ st.seenNames ++ [(st.env.internName a.loc.text (st.env.namespaces.idxOf u)).2],
        ∃ key : Str × Str, key ∉ rest.map (fun a => (a.denote (flatScope frames')).1) ∧
          key.1 ∈ (st.env.internName a.loc.text (st.env.namespaces.idxOf u)).1.namespaces ∧
          (st.env.internName a.loc.text (st.env.namespaces.idxOf u)).1.names[n]? =
            some (key.2, (st.env.internName a.loc.text (st.env.namespaces.idxOf u)).1.namespaces.idxOf key.1) := by
      intro n hn
      simp only [List.mem_append, List.mem_singleton] at hn
      rcases hn with hn | rfl
      · obtain ⟨key, hk, hkm, hkg⟩ := hseen n hn
        refine ⟨key, fun hmem => hk (by simp [hmem]), mem_ext happ.2.1 hkm, ?_⟩
        rw [idxOf_app happ.2.1 hkm]; exact happ.names_get hkg
      · refine ⟨(u, a.loc.text), hknew, mem_ext happ.2.1 hu, ?_⟩
        rw [idxOf_app happ.2.1 hu]; exact hget
    simp only [addAttributes, NSAttr.builder, xmlIdValue, hname, hnew, Bool.false_eq_true, if_false, hidtest]
    cases hid : ((u, a.loc.text) == (xmlNsUri, ['i', 'd'])) with
    | true =>
      simp only [hid, if_true] at hvalue
      rw [← hvalue]
      have hids : attrIds (((u, a.loc.text), av) :: rest.map (NSAttr.denote (flatScope frames'))) =
          av :: attrIds (rest.map (NSAttr.denote (flatScope frames'))) := by
        simp [attrIds, hid]
      rw [hids] at hidn hidd ⊢
      obtain ⟨hvnew, hidn'⟩ := List.nodup_cons.mp hidn
      have hnc : st.seenIds.contains av = false := by
        rw [Bool.eq_false_iff]; intro hc
        exact hidd av (by simp) (by simpa using hc)
      simp only [hnc, Bool.and_false, Bool.false_eq_true, if_false, if_true]
      obtain ⟨st', hr, he, hk, hs⟩ := ih
        { env := (st.env.internName a.loc.text (st.env.namespaces.idxOf u)).1, seenIds := av :: st.seenIds,
          idNodes := insertId st.idNodes av node,
          seenNames := st.seenNames ++ [(st.env.internName a.loc.text (st.env.namespaces.idxOf u)).2],
          rkids := .node (.attribute (st.env.internName a.loc.text (st.env.namespaces.idxOf u)).2 av) [] :: st.rkids,
          aspans := st.aspans ++ [((st.env.internName a.loc.text (st.env.namespaces.idxOf u)).2,
            Span.fromPrefixName a.pfx a.loc, (⟨renderPieces a.pieces, a.vstart⟩ : StrSpan).span)] }
        hE hF (fun x hx => hpre x (by simp [hx])) hseen' hnd' hidn'
        (by
          intro x hx hmem
          simp only [List.mem_cons] at hmem
          rcases hmem with rfl | hmem
          · exact hvnew hx
          · exact hidd x (by simp [hx]) hmem)
      simp only at hr he hk hs
      rw [hstack] at hr
      refine ⟨st', hr, ?_, ?_, ?_⟩
      · rw [he]; simp [encodeNsAttrs, hrn]
      · rw [hk]; simp [encodeNsAttrs, hrn]
      · rw [hs]; simp
    | false =>
      simp only [hid, Bool.false_eq_true, if_false] at hvalue
      rw [← hvalue]
      have hids : attrIds (((u, a.loc.text), av) :: rest.map (NSAttr.denote (flatScope frames'))) =
          attrIds (rest.map (NSAttr.denote (flatScope frames'))) := by
        simp [attrIds, hid]
      rw [hids] at hidn hidd ⊢
      simp only [Bool.false_and, Bool.false_eq_true, if_false]
      obtain ⟨st', hr, he, hk, hs⟩ := ih
        { env := (st.env.internName a.loc.text (st.env.namespaces.idxOf u)).1, seenIds := st.seenIds,
          idNodes := st.idNodes,
          seenNames := st.seenNames ++ [(st.env.internName a.loc.text (st.env.namespaces.idxOf u)).2],
          rkids := .node (.attribute (st.env.internName a.loc.text (st.env.namespaces.idxOf u)).2 av) [] :: st.rkids,
          aspans := st.aspans ++ [((st.env.internName a.loc.text (st.env.namespaces.idxOf u)).2,
            Span.fromPrefixName a.pfx a.loc, (⟨renderPieces a.pieces, a.vstart⟩ : StrSpan).span)] }
        hE hF (fun x hx => hpre x (by simp [hx])) hseen' hnd' hidn hidd
      simp only at hr he hk hs
      rw [hstack] at hr
      refine ⟨st', hr, ?_, ?_, hs⟩
      · rw [he]; simp [encodeNsAttrs, hrn]
      · rw [hk]; simp [encodeNsAttrs, hrn]

end XotModel
