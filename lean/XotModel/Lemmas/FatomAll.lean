/-
  C06 for every call of the mutating API at once (`Forest.Call`).
-/
import XotModel.Lemmas.FatomCloneNode
import XotModel.Model.FatomSpec

namespace XotModel
namespace Forest

theorem foldRemoveNat_ok : ∀ (L : List Nat) (f g : Forest), g.W → g.corrupt = f.corrupt →
    (L.foldl (fun acc c => (acc.remove c).1) g).W ∧
    (L.foldl (fun acc c => (acc.remove c).1) g).corrupt = f.corrupt
  | [], _, _, w, hc => ⟨w, hc⟩
  | c :: L, f, g, w, hc => by
    simp only [List.foldl_cons]
    have m := remove_ok w c
    exact foldRemoveNat_ok L f _ m.w (by rw [m.corrupt, hc])

theorem W_of_roots_eq {f g : Forest} (w : f.W) (hr : g.roots = f.roots) (hn : g.next = f.next) :
    g.W := by
  refine ⟨?_, ?_, ?_⟩
  · show (HTree.handlesList g.roots).Nodup; rw [hr]; exact w.nodup
  · rw [hr]; exact w.leaves
  · intro h hh
    have : h ∈ HTree.handlesList g.roots := hh
    rw [hr] at this
    rw [hn]; exact w.below h this

theorem removeInsignificantWhitespace_spec {f : Forest} (w : f.W) (n : Nat) :
    (f.removeInsignificantWhitespace n).W ∧
    (f.removeInsignificantWhitespace n).corrupt = f.corrupt := by
  unfold removeInsignificantWhitespace
  cases f.get? n with
  | none => exact ⟨w, rfl⟩
  | some t =>
    simp only
    have w0 : Forest.W { f with consolidation := false } := W_of_roots_eq w rfl rfl
    obtain ⟨h1, h2⟩ := foldRemoveNat_ok
      ((descendantsNormal t).filter f.isInsignificantWhitespace) f
      { f with consolidation := false } w0 rfl
    exact ⟨W_of_roots_eq h1 rfl rfl, h2⟩

/-- The three clauses, or the documented panic with nothing changed. -/
theorem call_clauses {f : Forest} (hi : f.Inv) (c : Call) (hl : c.liveArgs f) :
    (c.documentedPanic f = false ∧ C06Clauses f (c.run f)) ∨
    (c.documentedPanic f = true ∧ c.run f = (f, .panic)) := by
  have w := hi.toW
  have hc := hi.notCorrupt
  cases c with
  | append p c => exact Or.inl ⟨rfl, (append_outcome w p c).clauses hc⟩
  | prepend p c => exact Or.inl ⟨rfl, (prepend_outcome w p c).clauses hc⟩
  | insertAfter r n => exact Or.inl ⟨rfl, (insertAfter_outcome w r n).clauses hc⟩
  | insertBefore r n => exact Or.inl ⟨rfl, (insertBefore_outcome w r n).clauses hc⟩
  | detach n => exact Or.inl ⟨rfl, (detach_ok w n).clauses hc⟩
  | remove n => exact Or.inl ⟨rfl, (remove_ok w n).clauses hc⟩
  | replace a b => exact Or.inl ⟨rfl, clauses_of_outcome hc (replace_outcome w a b)⟩
  | elementWrap n name => exact Or.inl ⟨rfl, clauses_of_outcome3 hc (elementWrap_outcome w n name)⟩
  | elementUnwrap n => exact Or.inl ⟨rfl, elementUnwrap_clauses hi n⟩
  | cloneNode n =>
    left
    refine ⟨rfl, ?_⟩
    obtain ⟨h1, h2⟩ := cloneNode_spec hi (hl n (by simp [Call.args]))
    have hs : (f.cloneNode n).2.isSome = true := by
      cases h : (f.cloneNode n).2 with
      | none => exact absurd h h1
      | some _ => rfl
    simp only [Call.run, hs, if_true]
    exact ⟨fun e h => (by cases h), (by simp), h2⟩
  | anyAppend p c =>
    exact Or.inl ⟨rfl, clauses_of_outcome3 hc (anyAppend_outcome w p c (hl c (by simp [Call.args])))⟩
  | appendEntryNode k p c =>
    exact Or.inl ⟨rfl, clauses_of_outcome3 hc
      (appendEntryNode_outcome w k p c (hl c (by simp [Call.args])))⟩
  | mapInsert k p e =>
    rcases mapInsert_outcome w k p e with ⟨h1, h2⟩ | ⟨h1, h2⟩
    · exact Or.inr ⟨by simp [Call.documentedPanic, h1], h2⟩
    · exact Or.inl ⟨by simp [Call.documentedPanic, h1], h2.clauses hc⟩
  | mapRemove k p key =>
    rcases mapRemove_outcome w k p key with ⟨h1, h2⟩ | ⟨h1, h2⟩
    · exact Or.inr ⟨by simp [Call.documentedPanic, h1], h2⟩
    · exact Or.inl ⟨by simp [Call.documentedPanic, h1], h2.clauses hc⟩
  | mapClear k p =>
    rcases mapClear_outcome w k p with ⟨h1, h2⟩ | ⟨h1, h2⟩
    · exact Or.inr ⟨by simp [Call.documentedPanic, h1], h2⟩
    · exact Or.inl ⟨by simp [Call.documentedPanic, h1], h2.clauses hc⟩
  | setElementName n name =>
    rcases setElementName_outcome w n name with ⟨h1, h2⟩ | ⟨h1, h2⟩
    · exact Or.inr ⟨by simp [Call.documentedPanic, h1], h2⟩
    · exact Or.inl ⟨by simp [Call.documentedPanic, h1], h2.clauses hc⟩
  | setText n s => exact Or.inl ⟨rfl, clauses_of_outcome hc (setText_outcome w n s)⟩
  | setComment n s =>
    left
    refine ⟨rfl, ?_⟩
    rcases setComment_outcome w n s with ⟨e, h⟩ | h
    · simp only [Call.run]; rw [h]; exact clauses_refused hc e
    · exact h.clauses hc
  | setPiData n d => exact Or.inl ⟨rfl, clauses_of_outcome hc (setPiData_outcome w n d)⟩
  | textContentSet n s => exact Or.inl ⟨rfl, clauses_of_outcome hc (textContentSet_outcome w n s)⟩

end Forest
end XotModel
