/-
  Completeness of `WellNsDoc`, part 2: a start tag the builder accepts.

  From the success of the attribute arms and of `open_element` the clauses of `attrsWellNs` are read
  back: values well spelled, no reserved declaration, no prefix declared twice, attributes pairwise
  different by expanded name, every prefix bound, no bare colon, no ID value seen before.
-/
import XotModel.Lemmas.ParseNsNodes
import XotModel.Lemmas.ParseNsCompletePieces

namespace XotModel

/-- A run that comes to its end took its first step. -/
theorem run_cons_ok {b bfin : Builder} {t : Token} {ts : List Token} {le : Option Nat}
    (h : b.run (t :: ts) le = .ok bfin) : ∃ b1, b.step t = .ok b1 ∧ b1.run ts le = .ok bfin := by
  simp only [Builder.run] at h
  cases hs : b.step t with
  | ok b1 => rw [hs] at h; exact ⟨b1, rfl, h⟩
  | err e env => rw [hs] at h; cases h
  | panic => rw [hs] at h; cases h

def Token.isAttrTok : Token → Bool
  | .attribute _ _ _ _ => true
  | _ => false

/-! ### One attribute token -/

/-- `DocumentBuilder::prefix` succeeded: the URI is well spelled, the declaration is not a reserved
    one, the prefix was not declared on this start tag. -/
theorem prefix_ok_inv {b b1 : Builder} {eb : ElementBuilder} (heb : b.eb = some eb) {p : Str} {uri : StrSpan}
    {sp : Span} (h : b.prefix p uri sp = .ok b1) :
    ∃ ps, WellSpelled ps ∧ renderPieces ps = uri.text ∧ reservedDecl p (valueOf true ps) = false ∧
      (eb.namespaces.any fun d => d.1 == (b.env.internPrefix p).2) = false := by
  unfold Builder.prefix at h
  split at h
  · cases h
  · rename_i u hu
    obtain ⟨ps, hw, hr⟩ := parseContentGo_ok_pieces hu
    have hv : u = valueOf true ps := by
      have := parse_pieces true uri.start ps 0 hw
      rw [hr, hu] at this
      exact Except.ok.inj this
    subst hv
    split at h
    · cases h
    · rename_i hres
      dsimp only at h
      rw [heb] at h
      simp only at h
      split at h
      · cases h
      · rename_i hany
        exact ⟨ps, hw, hr, Bool.eq_false_iff.mpr hres, Bool.eq_false_iff.mpr hany⟩

/-- `DocumentBuilder::attribute` succeeded. -/
theorem attribute_ok_inv {b b1 : Builder} {eb : ElementBuilder} (heb : b.eb = some eb) {pfx loc value : StrSpan}
    (h : b.attribute pfx loc value = .ok b1) :
    ∃ ps, WellSpelled ps ∧ renderPieces ps = value.text ∧
      (eb.attributes.any fun ab => ab.pfx == pfx.text && ab.name == loc.text) = false := by
  unfold Builder.attribute at h
  rw [heb] at h
  simp only at h
  split at h
  · cases h
  · rename_i hany
    split at h
    · cases h
    · rename_i v hv
      obtain ⟨ps, hw, hr⟩ := parseContentGo_ok_pieces hv
      exact ⟨ps, hw, hr, Bool.eq_false_iff.mpr hany⟩

/-- What an accepted attribute token says, as an item of a spelled start tag. -/
theorem step_attribute_inv {b b1 : Builder} {eb : ElementBuilder} (heb : b.eb = some eb)
    {pfx loc value sp : StrSpan} (h : b.step (.attribute pfx loc value sp) = .ok b1) :
    ∃ a : NSAttr, a.token = .attribute pfx loc value sp ∧ WellSpelled a.pieces ∧ a.pfx.bareColon = false ∧
      (∀ p, a.declares = some p → reservedDecl p (valueOf true a.pieces) = false ∧
        (eb.namespaces.any fun d => d.1 == (b.env.internPrefix p).2) = false) ∧
      (a.declares = none →
        (eb.attributes.any fun ab => ab.pfx == a.pfx.text && ab.name == a.loc.text) = false) := by
  have hq := Builder.step_ok_prefixOk h
  simp only [Token.prefixOk, Bool.not_eq_true'] at hq
  have hc := Builder.step_ok_core h
  simp only [Builder.stepCore] at hc
  have htok : ∀ ps, renderPieces ps = value.text →
      (⟨pfx, loc, ps, value.start, sp⟩ : NSAttr).token = .attribute pfx loc value sp := by
    intro ps hr
    simp only [NSAttr.token, hr]
  split at hc
  · rename_i h1
    obtain ⟨ps, hw, hr, hres, hany⟩ := prefix_ok_inv heb hc
    refine ⟨⟨pfx, loc, ps, value.start, sp⟩, htok ps hr, hw, hq, ?_, ?_⟩
    · intro p hp
      have h1' : (pfx.text == xmlnsStr) = true := h1
      simp only [NSAttr.declares, h1', if_true, Option.some.injEq] at hp
      subst hp
      exact ⟨hres, hany⟩
    · intro hn
      have h1' : (pfx.text == xmlnsStr) = true := h1
      simp [NSAttr.declares, h1'] at hn
  · rename_i h1
    have h1' : (pfx.text == xmlnsStr) = false := by simpa [xmlnsStr] using h1
    split at hc
    · rename_i h2
      obtain ⟨ps, hw, hr, hres, hany⟩ := prefix_ok_inv heb hc
      have h2' : (pfx.text.isEmpty && loc.text == xmlnsStr) = true := h2
      refine ⟨⟨pfx, loc, ps, value.start, sp⟩, htok ps hr, hw, hq, ?_, ?_⟩
      · intro p hp
        simp only [NSAttr.declares, h1', Bool.false_eq_true, if_false, h2', if_true, Option.some.injEq] at hp
        subst hp
        exact ⟨hres, hany⟩
      · intro hn
        simp [NSAttr.declares, h1', h2'] at hn
    · rename_i h2
      have h2' : (pfx.text.isEmpty && loc.text == xmlnsStr) = false := by simpa [xmlnsStr] using h2
      obtain ⟨ps, hw, hr, hany⟩ := attribute_ok_inv heb hc
      refine ⟨⟨pfx, loc, ps, value.start, sp⟩, htok ps hr, hw, hq, ?_, fun _ => hany⟩
      intro p hp
      simp [NSAttr.declares, h1', h2'] at hp

/-! ### The attribute tokens of a start tag -/

/-- The attribute tokens of an accepted start tag are the items of a spelled start tag that passes
    the tests of `run_attrs_ns`; `qs` are the prefixes declared so far, as strings. -/
theorem run_attrs_inv (rest : List Token) (le : Option Nat) (bfin : Builder) :
    ∀ (toks : List Token), (∀ t ∈ toks, t.isAttrTok = true) →
    ∀ (b : Builder) (eb : ElementBuilder) (qs : List Str), b.eb = some eb →
      eb.namespaces.map Prod.fst = qs.map b.env.prefixes.idxOf → (∀ q ∈ qs, q ∈ b.env.prefixes) →
      b.run (toks ++ rest) le = .ok bfin →
      ∃ attrs : List NSAttr, attrs.map NSAttr.token = toks ∧ (∀ a ∈ attrs, WellSpelled a.pieces) ∧
        (∀ d ∈ declsOf attrs, reservedDecl d.1 d.2 = false) ∧
        (∀ q ∈ qs, q ∉ (declsOf attrs).map Prod.fst) ∧ ((declsOf attrs).map Prod.fst).Nodup ∧
        (∀ w ∈ eb.attributes.map (fun ab => (ab.pfx, ab.name)),
          w ∉ (ordinary attrs).map (fun a => (a.pfx.text, a.loc.text))) ∧
        ((ordinary attrs).map (fun a => (a.pfx.text, a.loc.text))).Nodup ∧
        (∀ a ∈ attrs, a.pfx.bareColon = false) := by
  intro toks
  induction toks with
  | nil =>
    intro _ b eb qs _ _ _ _
    exact ⟨[], rfl, fun _ h => (by cases h), fun _ h => (by simp [declsOf] at h),
      fun _ _ h => (by simp [declsOf] at h), (by simp [declsOf]), fun _ _ h => (by simp [ordinary] at h),
      (by simp [ordinary]), fun _ h => (by cases h)⟩
  | cons t toks ih =>
    intro hall b eb qs heb hqs hqm hrun
    have ht := hall t (by simp)
    have hall' : ∀ x ∈ toks, x.isAttrTok = true := fun x hx => hall x (by simp [hx])
    cases t with
    | «attribute» pfx loc value sp =>
      simp only [List.cons_append] at hrun
      obtain ⟨b1, hstep, hrun1⟩ := run_cons_ok hrun
      obtain ⟨a, hatok, hw, hbc, hdecl, hord⟩ := step_attribute_inv heb hstep
      rw [← hatok] at hstep
      cases hd : a.declares with
      | some p =>
        obtain ⟨hres, hany⟩ := hdecl p hd
        have hb1 := step_decl heb a hd hw hres hany hbc
        rw [hstep] at hb1
        have hb1' := Step.ok.inj hb1
        have happ : EnvApp b.env ((b.env.internPrefix p).1.internNamespace (valueOf true a.pieces)).1 :=
          (internPrefix_app b.env p).trans (internNamespace_app _ _)
        have hpq : p ∉ qs := by
          intro hm
          rw [List.any_eq_false] at hany
          have : b.env.prefixes.idxOf p ∈ eb.namespaces.map Prod.fst := by
            rw [hqs]; exact List.mem_map.mpr ⟨p, hm, rfl⟩
          obtain ⟨d, hdm, hde⟩ := List.mem_map.mp this
          exact hany d hdm (by simp only [beq_iff_eq]; exact hde)
        have hpm : p ∈ ((b.env.internPrefix p).1.internNamespace (valueOf true a.pieces)).1.prefixes :=
          mem_ext (internNamespace_app _ _).1 (internPrefix_mem b.env p)
        obtain ⟨attrs, h1, h2, h3, h4, h5, h6, h7, h8⟩ := ih hall' b1
          { eb with namespaces := eb.namespaces ++
            [((b.env.internPrefix p).2, ((b.env.internPrefix p).1.internNamespace (valueOf true a.pieces)).2)] }
          (qs ++ [p]) (by rw [hb1']) (by
            rw [hb1']
            simp only [List.map_append, List.map_cons, List.map_nil]
            congr 1
            · rw [hqs]
              apply List.map_congr_left
              intro q hq
              exact (idxOf_app happ.1 (hqm q hq)).symm
            · simp only [List.cons.injEq, and_true]
              rw [idxOf_app (internNamespace_app _ _).1 (internPrefix_mem b.env p)]
              exact (internPrefix_idx b.env p).symm)
          (by
            rw [hb1']
            intro q hq
            simp only [List.mem_append, List.mem_singleton] at hq
            rcases hq with hq | rfl
            · exact mem_ext happ.1 (hqm q hq)
            · exact hpm) hrun1
        refine ⟨a :: attrs, by simp [h1, hatok], ?_, ?_, ?_, ?_, ?_, ?_, ?_⟩
        · intro x hx
          simp only [List.mem_cons] at hx
          rcases hx with rfl | hx
          · exact hw
          · exact h2 x hx
        · rw [declsOf_cons_decl hd]
          intro d hdm
          simp only [List.mem_cons] at hdm
          rcases hdm with rfl | hdm
          · exact hres
          · exact h3 d hdm
        · rw [declsOf_cons_decl hd]
          intro q hq hm
          simp only [List.map_cons, List.mem_cons] at hm
          rcases hm with rfl | hm
          · exact hpq hq
          · exact h4 q (by simp [hq]) hm
        · rw [declsOf_cons_decl hd]
          simp only [List.map_cons]
          exact List.nodup_cons.mpr ⟨h4 p (by simp), h5⟩
        · rw [ordinary_cons_decl hd]; exact h6
        · rw [ordinary_cons_decl hd]; exact h7
        · intro x hx
          simp only [List.mem_cons] at hx
          rcases hx with rfl | hx
          · exact hbc
          · exact h8 x hx
      | none =>
        have hany := hord hd
        have hb1 := step_ord heb a hd hw hany hbc
        rw [hstep] at hb1
        have hb1' := Step.ok.inj hb1
        obtain ⟨attrs, h1, h2, h3, h4, h5, h6, h7, h8⟩ := ih hall' b1
          { eb with attributes := eb.attributes ++ [a.builder] } qs (by rw [hb1'])
          (by rw [hb1']; exact hqs) (by rw [hb1']; exact hqm) hrun1
        have hnew : (a.pfx.text, a.loc.text) ∉ eb.attributes.map (fun ab => (ab.pfx, ab.name)) := by
          intro hm
          obtain ⟨ab, habm, habe⟩ := List.mem_map.mp hm
          rw [List.any_eq_false] at hany
          simp only [Prod.mk.injEq] at habe
          exact hany ab habm (by simp [habe.1, habe.2])
        refine ⟨a :: attrs, by simp [h1, hatok], ?_, ?_, ?_, ?_, ?_, ?_, ?_⟩
        · intro x hx
          simp only [List.mem_cons] at hx
          rcases hx with rfl | hx
          · exact hw
          · exact h2 x hx
        · rw [declsOf_cons_ord hd]; exact h3
        · rw [declsOf_cons_ord hd]; exact h4
        · rw [declsOf_cons_ord hd]; exact h5
        · rw [ordinary_cons_ord hd]
          intro w hwm hm
          simp only [List.map_cons, List.mem_cons] at hm
          rcases hm with rfl | hm
          · exact hnew hwm
          · exact h6 w (by simp only [List.map_append, List.mem_append]; exact Or.inl hwm) hm
        · rw [ordinary_cons_ord hd]
          simp only [List.map_cons]
          refine List.nodup_cons.mpr ⟨?_, h7⟩
          exact h6 (a.pfx.text, a.loc.text) (by simp [NSAttr.builder])
        · intro x hx
          simp only [List.mem_cons] at hx
          rcases hx with rfl | hx
          · exact hbc
          · exact h8 x hx
    | _ => simp [Token.isAttrTok] at ht

/-! ### Name resolution succeeded: the prefix is bound -/

theorem elementNameId_bound {env : Env} {frames : List (List (Str × Str))} (h : FramesIn env frames) {p name : Str}
    {sp : Span} {r : Env × Nat} (hr : elementNameId env (frames.map (idFrame env)) p name sp = .ok r) :
    ((flatScope frames).lookup p).isSome = true := by
  unfold elementNameId at hr
  dsimp only at hr
  have hid : (env.internPrefix p).2 = env.prefixes.idxOf p := rfl
  rw [hid, lookupPrefix_frames env p frames h] at hr
  cases hl : (flatScope frames).lookup p with
  | some u => rfl
  | none => rw [hl] at hr; cases hr

theorem attributeNameId_bound {env : Env} (hb : EnvBaseNs env) {frames : List (List (Str × Str))}
    (h : FramesIn env frames) {p name : Str} {sp : Span} {r : Env × Nat}
    (hr : attributeNameId env (frames.map (idFrame env)) p name sp = .ok r) (hp : p ≠ []) :
    ((flatScope frames).lookup p).isSome = true := by
  unfold attributeNameId at hr
  dsimp only at hr
  have hid : (env.internPrefix p).2 = env.prefixes.idxOf p := rfl
  rw [hid] at hr
  split at hr
  · rename_i hz
    exfalso
    have h0 := hb.pfx_empty
    have hz' : env.prefixes.idxOf p = env.prefixes.idxOf ([] : Str) := by
      rw [h0.2]; simpa [Env.emptyPrefix] using hz
    exact hp (idxOf_inj h0.1 hz'.symm).symm
  · rw [lookupPrefix_frames env p frames h] at hr
    cases hl : (flatScope frames).lookup p with
    | some u => rfl
    | none => rw [hl] at hr; cases hr

/-! ### The attribute loop of `open_element` -/

/-- The attribute loop succeeded: every prefix is bound, the expanded names are pairwise different
    and different from the `keys` seen before, the ID values are new. -/
theorem pnc_addAttributes_inv (frames' : List (List (Str × Str))) (node : Path) :
    ∀ (ords : List NSAttr) (st st' : AttrLoop) (keys : List (Str × Str)),
      EnvBaseNs st.env → FramesIn st.env frames' →
      (∀ k ∈ keys, k.1 ∈ st.env.namespaces ∧ (k.2, st.env.namespaces.idxOf k.1) ∈ st.env.names ∧
        st.env.names.idxOf (k.2, st.env.namespaces.idxOf k.1) ∈ st.seenNames) →
      addAttributes (frames'.map (idFrame st.env)) node st (ords.map NSAttr.builder) = .ok st' →
      (∀ a ∈ ords, a.pfx.text ≠ [] → ((flatScope frames').lookup a.pfx.text).isSome = true) ∧
      (∀ k ∈ keys, k ∉ ords.map (fun a => (a.denote (flatScope frames')).1)) ∧
      (ords.map (fun a => (a.denote (flatScope frames')).1)).Nodup ∧
      (attrIds (ords.map (NSAttr.denote (flatScope frames')))).Nodup ∧
      (∀ x ∈ attrIds (ords.map (NSAttr.denote (flatScope frames'))), x ∉ st.seenIds) := by
  intro ords
  induction ords with
  | nil =>
    intro st st' keys _ _ _ _
    exact ⟨fun _ h => (by cases h), fun _ _ h => (by cases h), List.nodup_nil, (by simp [attrIds]),
      fun _ h => (by simp [attrIds] at h)⟩
  | cons a rest ih =>
    intro st st' keys hb hf hkeys hrun
    simp only [List.map_cons, addAttributes] at hrun
    cases hn : attributeNameId st.env (frames'.map (idFrame st.env)) a.builder.pfx a.builder.name
        a.builder.prefixSpan with
    | panic => rw [hn] at hrun; cases hrun
    | err e env => rw [hn] at hrun; cases hrun
    | ok r =>
      have hbound : a.pfx.text ≠ [] → ((flatScope frames').lookup a.pfx.text).isSome = true :=
        fun hp => attributeNameId_bound hb hf hn hp
      obtain ⟨hname, hu⟩ := attributeNameId_ns hb hf hbound a.loc.text a.pfx.span
      generalize hU : (flatScope frames').attrNs a.pfx.text = u at hname hu
      have hrn : st.env.internNamespace u = (st.env, st.env.namespaces.idxOf u) := internNamespace_of_mem hu
      rw [hrn] at hname
      simp only at hname
      have hden : a.denote (flatScope frames') = ((u, a.loc.text), a.value (flatScope frames')) := by
        simp [NSAttr.denote, hU]
      have hvalue : a.value (flatScope frames') =
          if ((u, a.loc.text) == (xmlNsUri, ['i', 'd'])) = true then normalizeXmlId (valueOf true a.pieces)
          else valueOf true a.pieces := by
        simp only [NSAttr.value, hU]
      generalize a.value (flatScope frames') = av at hden hvalue
      have happ := internName_app st.env a.loc.text (st.env.namespaces.idxOf u)
      have hE : EnvBaseNs (st.env.internName a.loc.text (st.env.namespaces.idxOf u)).1 := hb.app happ
      have hF : FramesIn (st.env.internName a.loc.text (st.env.namespaces.idxOf u)).1 frames' := hf.app happ
      have hstack := idFrames_app happ hf
      have hidtest := internName_eq_xmlId hb a.loc.text (st.env.namespaces.idxOf u)
      rw [isId_iff hb hu] at hidtest
      have hn' : attributeNameId st.env (frames'.map (idFrame st.env)) a.pfx.text a.loc.text a.pfx.span = .ok r := hn
      rw [hname] at hn'
      have hr := (Step.ok.inj hn').symm
      subst hr
      clear hn'
      rw [hn] at hrun
      simp only at hrun
      split at hrun
      · cases hrun
      · rename_i hcont
        -- the new key is none of the keys seen so far
        have hknew : (u, a.loc.text) ∉ keys := by
          intro hm
          obtain ⟨_, hk2, hk3⟩ := hkeys _ hm
          simp only at hk2 hk3
          apply hcont
          simp only [List.contains_eq_mem, decide_eq_true_eq]
          have : (st.env.internName a.loc.text (st.env.namespaces.idxOf u)).2 =
              st.env.names.idxOf (a.loc.text, st.env.namespaces.idxOf u) := rfl
          rw [this]; exact hk3
        have hkeys' : ∀ k ∈ (u, a.loc.text) :: keys,
            k.1 ∈ (st.env.internName a.loc.text (st.env.namespaces.idxOf u)).1.namespaces ∧
            (k.2, (st.env.internName a.loc.text (st.env.namespaces.idxOf u)).1.namespaces.idxOf k.1) ∈
              (st.env.internName a.loc.text (st.env.namespaces.idxOf u)).1.names ∧
            (st.env.internName a.loc.text (st.env.namespaces.idxOf u)).1.names.idxOf
              (k.2, (st.env.internName a.loc.text (st.env.namespaces.idxOf u)).1.namespaces.idxOf k.1) ∈
              st.seenNames ++ [(st.env.internName a.loc.text (st.env.namespaces.idxOf u)).2] := by
          intro k hk
          simp only [List.mem_cons] at hk
          rcases hk with rfl | hk
          · refine ⟨mem_ext happ.2.1 hu, ?_, ?_⟩
            · rw [idxOf_app happ.2.1 hu]; exact internIn_mem st.env.names _
            · rw [idxOf_app happ.2.1 hu]
              have : (st.env.internName a.loc.text (st.env.namespaces.idxOf u)).1.names.idxOf
                  (a.loc.text, st.env.namespaces.idxOf u) =
                  (st.env.internName a.loc.text (st.env.namespaces.idxOf u)).2 := internIn_idx st.env.names _
              rw [this]; simp
          · obtain ⟨hk1, hk2, hk3⟩ := hkeys k hk
            refine ⟨mem_ext happ.2.1 hk1, ?_, ?_⟩
            · rw [idxOf_app happ.2.1 hk1]; exact mem_ext happ.2.2 hk2
            · rw [idxOf_app happ.2.1 hk1, idxOf_app happ.2.2 hk2]
              simp only [List.mem_append]; exact Or.inl hk3
        simp only [NSAttr.builder, xmlIdValue, hidtest] at hrun
        cases hid : ((u, a.loc.text) == (xmlNsUri, ['i', 'd'])) with
        | true =>
          simp only [hid, if_true] at hvalue hrun
          rw [← hvalue] at hrun
          simp only [Bool.true_and] at hrun
          split at hrun
          · cases hrun
          · rename_i hseen
            rw [← hstack] at hrun
            obtain ⟨i1, i2, i3, i4, i5⟩ := ih
              { env := (st.env.internName a.loc.text (st.env.namespaces.idxOf u)).1, seenIds := av :: st.seenIds,
                idNodes := insertId st.idNodes av node,
                seenNames := st.seenNames ++ [(st.env.internName a.loc.text (st.env.namespaces.idxOf u)).2],
                rkids := .node (.attribute (st.env.internName a.loc.text (st.env.namespaces.idxOf u)).2 av) [] :: st.rkids,
                aspans := st.aspans ++ [((st.env.internName a.loc.text (st.env.namespaces.idxOf u)).2,
                  Span.fromPrefixName a.pfx a.loc, (⟨renderPieces a.pieces, a.vstart⟩ : StrSpan).span)] }
              st' ((u, a.loc.text) :: keys) hE hF hkeys' hrun
            simp only at i5
            have hids : attrIds (((u, a.loc.text), av) :: rest.map (NSAttr.denote (flatScope frames'))) =
                av :: attrIds (rest.map (NSAttr.denote (flatScope frames'))) := by
              simp [attrIds, hid]
            simp only [List.map_cons, hden]
            rw [hids]
            refine ⟨?_, ?_, ?_, ?_, ?_⟩
            · intro x hx
              simp only [List.mem_cons] at hx
              rcases hx with rfl | hx
              · exact hbound
              · exact i1 x hx
            · intro k hk hm
              simp only [List.mem_cons] at hm
              rcases hm with rfl | hm
              · exact hknew hk
              · exact i2 k (by simp [hk]) hm
            · exact List.nodup_cons.mpr ⟨i2 _ (by simp), i3⟩
            · exact List.nodup_cons.mpr ⟨fun hm => i5 av hm (by simp), i4⟩
            · intro x hx hm
              simp only [List.mem_cons] at hx
              rcases hx with rfl | hx
              · apply hseen; simpa using hm
              · exact i5 x hx (by simp [hm])
        | false =>
          simp only [hid, Bool.false_eq_true, if_false] at hvalue hrun
          rw [← hvalue] at hrun
          simp only [Bool.false_and, Bool.false_eq_true, if_false] at hrun
          rw [← hstack] at hrun
          obtain ⟨i1, i2, i3, i4, i5⟩ := ih
            { env := (st.env.internName a.loc.text (st.env.namespaces.idxOf u)).1, seenIds := st.seenIds,
              idNodes := st.idNodes,
              seenNames := st.seenNames ++ [(st.env.internName a.loc.text (st.env.namespaces.idxOf u)).2],
              rkids := .node (.attribute (st.env.internName a.loc.text (st.env.namespaces.idxOf u)).2 av) [] :: st.rkids,
              aspans := st.aspans ++ [((st.env.internName a.loc.text (st.env.namespaces.idxOf u)).2,
                Span.fromPrefixName a.pfx a.loc, (⟨renderPieces a.pieces, a.vstart⟩ : StrSpan).span)] }
            st' ((u, a.loc.text) :: keys) hE hF hkeys' hrun
          simp only at i5
          have hids : attrIds (((u, a.loc.text), av) :: rest.map (NSAttr.denote (flatScope frames'))) =
              attrIds (rest.map (NSAttr.denote (flatScope frames'))) := by
            simp [attrIds, hid]
          simp only [List.map_cons, hden]
          rw [hids]
          refine ⟨?_, ?_, ?_, i4, i5⟩
          · intro x hx
            simp only [List.mem_cons] at hx
            rcases hx with rfl | hx
            · exact hbound
            · exact i1 x hx
          · intro k hk hm
            simp only [List.mem_cons] at hm
            rcases hm with rfl | hm
            · exact hknew hk
            · exact i2 k (by simp [hk]) hm
          · exact List.nodup_cons.mpr ⟨i2 _ (by simp), i3⟩

/-! ### `open_element` -/

/-- `open_element` succeeded after the items of a start tag were read: the element prefix and the
    attribute prefixes are bound, the attributes are pairwise different by expanded name, the ID
    values are pairwise different and new. -/
theorem openElement_inv {b b1 : Builder} {frames : List (List (Str × Str))} (hr : ReadyNs b frames)
    (pfx loc : StrSpan) (attrs : List NSAttr)
    (h : ({ b with
        env := (declIds b.env (declsOf attrs)).1,
        eb := some { (ElementBuilder.new pfx loc) with
          namespaces := (declIds b.env (declsOf attrs)).2,
          attributes := (ordinary attrs).map NSAttr.builder } } : Builder).openElement = .ok b1) :
    (((flatScope frames).push (declsOf attrs)).lookup pfx.text).isSome = true ∧
    (∀ a ∈ ordinary attrs, a.pfx.text ≠ [] →
      (((flatScope frames).push (declsOf attrs)).lookup a.pfx.text).isSome = true) ∧
    ((attrsOf ((flatScope frames).push (declsOf attrs)) attrs).map Prod.fst).Nodup ∧
    (attrIds (attrsOf ((flatScope frames).push (declsOf attrs)) attrs)).Nodup ∧
    (∀ x ∈ attrIds (attrsOf ((flatScope frames).push (declsOf attrs)) attrs), x ∉ b.seenIds) := by
  obtain ⟨hF, hS⟩ := frames_push hr (declsOf attrs) (EnvApp.refl _)
  have hbase : EnvBaseNs (declIds b.env (declsOf attrs)).1 := hr.base.app (declIds_app _ _)
  unfold Builder.openElement at h
  dsimp only [ElementBuilder.new] at h
  rw [hS] at h
  cases hn : elementNameId (declIds b.env (declsOf attrs)).1
      ((declsOf attrs :: frames).map (idFrame (declIds b.env (declsOf attrs)).1)) pfx.text loc.text pfx.span with
  | panic => rw [hn] at h; cases h
  | err e env => rw [hn] at h; cases h
  | ok r =>
    have hp := elementNameId_bound hF hn
    obtain ⟨u, hu⟩ := Option.isSome_iff_exists.mp hp
    have hname := elementNameId_ns hF hu loc.text pfx.span
    rw [hname] at hn
    have hre := (Step.ok.inj hn).symm
    subst hre
    rw [hname] at h
    simp only at h
    have happ1 : EnvApp (declIds b.env (declsOf attrs)).1
        (((declIds b.env (declsOf attrs)).1.internNamespace u).1.internName loc.text
          ((declIds b.env (declsOf attrs)).1.internNamespace u).2).1 :=
      (internNamespace_app _ u).trans (internName_app _ loc.text _)
    cases ha : addAttributes ((declsOf attrs :: frames).map (idFrame (declIds b.env (declsOf attrs)).1))
        (({ b with env := (declIds b.env (declsOf attrs)).1,
                   eb := some { pfx := pfx.text, name := loc.text, namespaces := (declIds b.env (declsOf attrs)).2,
                                attributes := (ordinary attrs).map NSAttr.builder, prefixSpan := pfx.span,
                                span := Span.fromPrefixName pfx loc } } : Builder).curPath ++
          [b.cur.rkids.length])
        { env := (((declIds b.env (declsOf attrs)).1.internNamespace u).1.internName loc.text
            ((declIds b.env (declsOf attrs)).1.internNamespace u).2).1,
          seenIds := b.seenIds, idNodes := b.idNodes, seenNames := [],
          rkids := namespaceKids (declIds b.env (declsOf attrs)).2, aspans := [] }
        ((ordinary attrs).map NSAttr.builder) with
    | panic => rw [ha] at h; cases h
    | err e env => rw [ha] at h; cases h
    | ok st' =>
      rw [← idFrames_app happ1 hF] at ha
      obtain ⟨i1, _, i3, i4, i5⟩ := pnc_addAttributes_inv (declsOf attrs :: frames) _ (ordinary attrs)
        { env := (((declIds b.env (declsOf attrs)).1.internNamespace u).1.internName loc.text
            ((declIds b.env (declsOf attrs)).1.internNamespace u).2).1,
          seenIds := b.seenIds, idNodes := b.idNodes, seenNames := [],
          rkids := namespaceKids (declIds b.env (declsOf attrs)).2, aspans := [] } st' []
        (hbase.app happ1) (hF.app happ1) (fun _ hk => by cases hk) ha
      have hkeys : (ordinary attrs).map (fun a => (NSAttr.denote (flatScope (declsOf attrs :: frames)) a).1) =
          (attrsOf ((flatScope frames).push (declsOf attrs)) attrs).map Prod.fst := by
        simp only [attrsOf, List.map_map]; rfl
      rw [hkeys] at i3
      exact ⟨hp, i1, i3, i4, i5⟩

end XotModel
