/-
  GENERATED COPY (wt-c17str) of the declarations of XotModel.Lemmas.AcceptedTop that depend on `valueOK`, restated in the
  namespace `XotModel.PiColon`, where `valueOK` asks of a PI target what the tokenizer's `consume_name` accepts
  (`nameOK`: colons allowed) instead of an NCName (Lemmas/PiColonDefs.lean).  Proof texts unchanged except where noted.
-/
import XotModel.Lemmas.AcceptedTop
import XotModel.Lemmas.PiColonRoundTripDeepEqual

namespace XotModel.PiColon.Accepted
open XotModel.Accepted

open XotModel XotModel.Repair

/-! ### Lookups in the builder's stack -/

/-! ### `nodeOK` everywhere -/

theorem valueOK_of_acc {env : Env} (hf : EnvFacts env) {st : NsStack} (hg : StackGuard env st) {v : Value}
    {ks : List Tree} (ha : ValAcc env st v) (h1 : noReservedDecl env v ks = true)
    : valueOK env v = true := by  -- ORIGINAL: extra hypothesis plainPiTarget
  cases v with
  | document => rfl
  | element name => exact ha.2.1
  | text s =>
    simp only [valueOK, Bool.and_eq_true, Bool.not_eq_true', List.isEmpty_eq_false_iff]
    exact ha
  | comment s => exact ha
  | pi target data =>
    obtain ⟨_, a2, a3, a4, a5⟩ := ha
    simp only [valueOK, Bool.and_eq_true, beq_iff_eq, bne_iff_ne, ne_eq]
    refine ⟨⟨⟨a2, a3⟩, by simpa [isReservedPiTarget] using a5⟩, ?_⟩  -- ORIGINAL: h2 (NCName); here nameOK from the tokenizer
    cases data with
    | none => rfl
    | some d => simpa [dataAcc] using a4
  | «attribute» name val =>
    obtain ⟨_, a2, a3, a4, a5⟩ := ha
    simp only [valueOK, Bool.and_eq_true, Bool.not_eq_true', Bool.and_eq_false_iff, beq_eq_false_iff_ne,
      Bool.or_eq_true, beq_iff_eq]
    refine ⟨⟨⟨a2, a3⟩, ?_⟩, ?_⟩
    · rcases a5 with ⟨_, b2⟩ | ⟨q, hq, hl⟩
      · exact .inr b2
      · exact .inl (hg.nonempty_bound hq hl)
    · rw [isXmlIdName_eq hf]
      by_cases hid : name = Env.xmlIdName
      · exact .inr (a4 hid)
      · exact .inl (by simpa using hid)
  | «namespace» p ns =>
    obtain ⟨g1, g2, g3, g5, g4⟩ := declFull_of_acc hf ha (by simpa [noReservedDecl] using h1)
    obtain ⟨a1, a2, a3, a4, _⟩ := ha
    have hpne : p ≠ Env.emptyPrefix → env.prefixStr p ≠ [] := fun hp hh =>
      hp (hf.prefixStr_inj a1 hf.emptyPrefix_lt (by rw [hh, hf.p0]))
    have hnne : ns ≠ Env.noNamespace → env.namespaceStr ns ≠ [] := fun hn hh =>
      hn (hf.namespaceStr_inj a2 hf.noNamespace_lt (by rw [hh, hf.ns0]))
    simp only [valueOK, Bool.and_eq_true, bne_iff_ne, ne_eq, Bool.or_eq_true, beq_iff_eq, ncNameNE,
      Bool.not_eq_true', List.isEmpty_eq_false_iff]
    refine ⟨⟨⟨⟨⟨g1, g3⟩, g5⟩, ?_⟩, ?_⟩, a4⟩
    · by_cases hp : p = Env.emptyPrefix
      · exact .inl hp
      · exact .inr ⟨⟨⟨a3, hpne hp⟩, g2⟩, g4 hp⟩
    · by_cases hn : ns = Env.noNamespace
      · exact .inl hn
      · exact .inr (hnne hn)

theorem nodeOK_of_acc {env : Env} (hf : EnvFacts env) : ∀ (t : Tree) (st : NsStack), StackGuard env st →
    TreeAcc env st t → t.Forall SoundAt → t.allNodes (noReservedDecl env) = true →
    t.allNodes (nodeOK env) = true
  | .node v ks, st, hg, ha, hs, h1 => by
    rw [treeAcc_node] at ha
    rw [Tree.forall_node] at hs
    rw [allNodes_node, Bool.and_eq_true, List.all_eq_true] at h1 ⊢
    have hg' := hg.push hf (v := v) ha.2 h1.2
    refine ⟨?_, fun k hk => ?_⟩
    · obtain ⟨s1, s2, s3, s4⟩ := hs.1
      exact (nodeOK_iff env v ks).mpr ⟨s1, s2, s4, s3, valueOK_of_acc hf hg' ha.1 h1.1⟩
    · have : sizeOf k < sizeOf (Tree.node v ks) := by
        have := List.sizeOf_lt_of_mem hk
        simp only [Tree.node.sizeOf_spec]
        omega
      exact nodeOK_of_acc hf k _ hg' (ha.2 k hk) (hs.2 k hk) (h1.2 k hk)
termination_by t => sizeOf t

/-! ### Every name can be written -/

/-- The serialiser's flattened scope `top` against the builder's stack `st`. -/
def SerRel (env : Env) (top : List (Nat × Nat)) (st : NsStack) : Prop :=
  ∃ fs : Frames, st = fs ++ base2 ∧ Flat top (fs ++ [basePrefixes]) ∧ ∀ f ∈ fs, DeclsOK env f

theorem SerRel.push {env : Env} {top : List (Nat × Nat)} {st : NsStack} (h : SerRel env top st)
    {decls : List (Nat × Nat)} (hd : DeclsOK env decls) : SerRel env (pushTop top decls) (decls :: st) := by
  obtain ⟨fs, rfl, hflat, hfs⟩ := h
  refine ⟨decls :: fs, rfl, ?_, fun f hf => ?_⟩
  · unfold pushTop
    cases hdec : decls with
    | nil =>
      simp only [List.isEmpty_nil, if_true, List.cons_append]
      exact ⟨hflat.1, fun p n => by rw [lookupFrames_nil_cons]; exact hflat.2 p n⟩
    | cons d ds =>
      simp only [List.isEmpty_cons, Bool.false_eq_true, if_false, List.cons_append]
      rw [← hdec]
      exact flat_push hflat hd.1
  · rcases List.mem_cons.mp hf with rfl | hf
    · exact hd
    · exact hfs f hf

/-- A binding found by the builder in the scope is in the serialiser's top frame, unless it is one
    of the two base bindings. -/
theorem SerRel.found {env : Env} {top : List (Nat × Nat)} {st : NsStack} (h : SerRel env top st) {q ns : Nat}
    (hl : lookupPrefix st q = some ns) :
    (q, ns) ∈ top ∨ (q = Env.emptyPrefix ∧ ns = Env.noNamespace ∧ ∀ n, (Env.emptyPrefix, n) ∉ top) ∨
      (q = Env.xmlPrefix ∧ ns = Env.xmlNamespace) := by
  obtain ⟨fs, rfl, hflat, hfs⟩ := h
  rcases Accepted.lookupPrefix_frames fs (fun f hf => (hfs f hf).1) hl with h1 | ⟨h1, h2⟩
  · refine .inl ((hflat.2 q ns).mpr ?_)
    rw [lookupFrames_append_base, h1]
  · rcases lookupPrefix_base2 h2 with ⟨rfl, rfl⟩ | ⟨rfl, rfl⟩
    · refine .inr (.inl ⟨rfl, rfl, fun n hm => ?_⟩)
      have := (hflat.2 _ _).mp hm
      rw [lookupFrames_append_base, h1] at this
      simp [basePrefixes, List.lookup, Env.emptyPrefix, Env.xmlPrefix] at this
    · exact .inr (.inr ⟨rfl, rfl⟩)

/-- In a guarded scope, the empty namespace is bound by the empty prefix only. -/
theorem SerRel.none_by_empty {env : Env} {top : List (Nat × Nat)} {st : NsStack} (h : SerRel env top st) {q : Nat}
    (hm : (q, Env.noNamespace) ∈ top) : q = Env.emptyPrefix := by
  obtain ⟨fs, rfl, hflat, hfs⟩ := h
  have hl := (hflat.2 _ _).mp hm
  rw [lookupFrames_append_base] at hl
  cases h1 : lookupFrames fs q with
  | some n =>
    rw [h1] at hl
    simp only [Option.some.injEq] at hl
    subst hl
    obtain ⟨f, hf, hmem⟩ := lookupFrames_mem h1
    by_cases hq : q = Env.emptyPrefix
    · exact hq
    · exact absurd rfl ((valueOK_namespace_facts ((hfs f hf).2 _ hmem)).2.2.1 hq).2.2
  | none =>
    rw [h1] at hl
    simp [basePrefixes, List.lookup, Env.noNamespace, Env.xmlNamespace] at hl

theorem elemOk_of {env : Env} {top : List (Nat × Nat)} {st : NsStack} (h : SerRel env top st) {ns : Nat}
    (hq : ∃ q, lookupPrefix st q = some ns) :
    (!(ns == Env.noNamespace && hasDefault top) && elemOk ns top) = true := by
  obtain ⟨q, hl⟩ := hq
  simp only [Bool.and_eq_true, Bool.not_eq_true', Bool.and_eq_false_iff, beq_eq_false_iff_ne]
  constructor
  · by_cases hns : ns = Env.noNamespace
    · subst hns
      refine .inr ?_
      cases hd : hasDefault top with
      | false => rfl
      | true =>
        exfalso
        simp only [hasDefault, List.any_eq_true, Bool.and_eq_true, beq_iff_eq, bne_iff_ne] at hd
        obtain ⟨⟨p, n⟩, hm, hp, hn⟩ := hd
        simp only at hp hn
        subst hp
        rcases h.found hl with h1 | ⟨_, _, h3⟩ | ⟨_, h2⟩
        · have hq0 := h.none_by_empty h1
          subst hq0
          obtain ⟨fs, _, hflat, _⟩ := h
          have e1 := (hflat.2 _ _).mp h1
          have e2 := (hflat.2 _ _).mp hm
          rw [e1] at e2
          exact hn (Option.some.inj e2).symm
        · exact h3 n hm
        · cases h2
    · exact .inl hns
  · simp only [elemOk, Bool.or_eq_true, beq_iff_eq]
    by_cases h0 : ns = Env.noNamespace
    · exact .inl (.inl h0)
    · by_cases h1 : ns = Env.xmlNamespace
      · exact .inl (.inr h1)
      · refine .inr ?_
        rcases h.found hl with hm | ⟨_, h2, _⟩ | ⟨_, h2⟩
        · cases he : elementPrefixByNamespace top ns with
          | some p => rfl
          | none => exact absurd hm (elementPrefixByNamespace_none he q)
        · exact absurd h2 h0
        · exact absurd h2 h1

theorem attrOk_of {env : Env} {top : List (Nat × Nat)} {st : NsStack} (h : SerRel env top st) {ns : Nat}
    (hq : ns = Env.noNamespace ∨ ∃ q, q ≠ Env.emptyPrefix ∧ lookupPrefix st q = some ns) : attrOk ns top = true := by
  simp only [attrOk, Bool.or_eq_true, beq_iff_eq]
  rcases hq with h0 | ⟨q, hq, hl⟩
  · exact .inl (.inl h0)
  · by_cases h1 : ns = Env.xmlNamespace
    · exact .inl (.inr h1)
    · refine .inr ?_
      rcases h.found hl with hm | ⟨h2, _, _⟩ | ⟨_, h2⟩
      · cases he : attributePrefixByNamespace top ns with
        | some p => rfl
        | none => exact absurd hm (attributePrefixByNamespace_none he q hq)
      · exact absurd h2 hq
      · exact absurd h2 h1

theorem okRec_of_acc {env : Env} : ∀ (t : Tree) (top : List (Nat × Nat)) (st : NsStack), SerRel env top st →
    TreeAcc env st t → t.allNodes (nodeOK env) = true → okRec env.nsOfName top t = true
  | .node v ks, top, st, hrel, ha, hn => by
    rw [treeAcc_node] at ha
    have hnode : nodeOK env v ks = true := by rw [allNodes_node, Bool.and_eq_true] at hn; exact hn.1
    obtain ⟨hord, -, -, -, -⟩ := (nodeOK_iff env v ks).mp hnode
    have hkids : ∀ (top' : List (Nat × Nat)) (st' : NsStack), SerRel env top' st' → (∀ k ∈ ks, TreeAcc env st' k) →
        okKids env.nsOfName top' ks = true := by
      intro top' st' hrel' hacc
      have : ∀ (l : List Tree), (∀ k ∈ l, k ∈ ks) → okKids env.nsOfName top' l = true := by
        intro l
        induction l with
        | nil => intro _; rfl
        | cons k l ih =>
          intro hl
          have hk : k ∈ ks := hl k (by simp)
          have : sizeOf k < sizeOf (Tree.node v ks) := by
            have := List.sizeOf_lt_of_mem hk
            simp only [Tree.node.sizeOf_spec]
            omega
          simp only [okKids, Bool.and_eq_true]
          exact ⟨okRec_of_acc k top' st' hrel' (hacc k hk) (allNodes_kid hn hk), ih (fun k' hk' => hl k' (by simp [hk']))⟩
      exact this ks (fun k hk => hk)
    by_cases he : v.isElement = true
    · cases v <;> simp [Value.isElement] at he
      rename_i name
      have hdecls := declsOK_of_nodeOK hn
      have hkd : (Tree.node (.element name) ks).nsDecls = kidDecls ks := nsDecls_eq_kidDecls _ ks hord
      simp only [ctx, Value.isElement, if_true] at ha
      have hrel' : SerRel env (pushTop top (Tree.node (.element name) ks).nsDecls) (kidDecls ks :: st) := by
        have := hrel.push hdecls
        rw [hkd] at this ⊢
        exact this
      simp only [okRec, elementOkAt, Bool.and_eq_true]
      refine ⟨⟨?_, ?_⟩, hkids _ _ hrel' ha.2⟩
      · have := elemOk_of hrel' ha.1.2.2
        simpa [Bool.and_eq_true] using this
      · rw [List.all_eq_true]
        intro a hmem
        obtain ⟨av, hav, rfl⟩ := List.mem_map.mp hmem
        obtain ⟨k, hk, hv⟩ := mem_attrs hav
        have hka := ha.2 k hk
        cases k with
        | node kv kks =>
          simp only [Tree.value] at hv
          subst hv
          rw [treeAcc_node] at hka
          simp only [ctx, Value.isElement, Bool.false_eq_true, if_false] at hka
          refine attrOk_of hrel' ?_
          rcases hka.1.2.2.2.2 with ⟨h0, _⟩ | hq
          · exact .inl h0
          · exact .inr hq
    · have he' : v.isElement = false := by simpa using he
      simp only [ctx, he', Bool.false_eq_true, if_false] at ha
      rw [okRec_other _ _ _ _ he']
      exact hkids top st hrel ha.2
termination_by t => sizeOf t

end XotModel.PiColon.Accepted
