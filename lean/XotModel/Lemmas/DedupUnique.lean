/-
  XotModel.Lemmas.DedupUnique — a pass of `deduplicate_namespaces` on a tree whose elements declare
  no prefix twice (`UniqueDeclsBelow`: always true of trees built through the API, the namespace view
  is a map; the removal loop goes by PREFIX and deletes the first node with that key):

  * the declarations left on an element are exactly the ones the traversal kept
    (`nsDecls_dpWalk`: `dpKeep`), the result has unique prefixes again (`UniqueDeclsBelow.dpWalk`);
  * no binding to the no-namespace id is ever removed (`dedup_keeps_undeclarations`).
-/
import XotModel.Lemmas.DedupFuel
import XotModel.Lemmas.ScopeUnres

namespace XotModel

/-! ### Removing by prefix under unique prefixes -/

theorem declsOfKids_removeNsKid_filter (pfx : Nat) : ∀ ks : List Tree,
    ((declsOfKids ks).map Prod.fst).Nodup →
    declsOfKids (removeNsKid pfx ks) = (declsOfKids ks).filter (fun kv => kv.1 != pfx) := by
  intro ks
  induction ks with
  | nil => intro _; rfl
  | cons k rest ih =>
    intro hnd
    by_cases hc : (k.value.category == Category.namespace) = true
    · obtain ⟨p, n, hv⟩ := (category_namespace_iff_ex _).1 hc
      simp only [declsOfKids, hv, List.map_cons, List.nodup_cons] at hnd
      simp only [removeNsKid, hv]
      by_cases hp : p = pfx
      · subst hp
        simp only [beq_self_eq_true, ↓reduceIte, declsOfKids, hv, List.filter_cons, bne_self_eq_false,
          Bool.false_eq_true]
        symm
        rw [List.filter_eq_self]
        intro kv hkv
        have : kv.1 ≠ p := fun h => hnd.1 (h ▸ List.mem_map.2 ⟨kv, hkv, rfl⟩)
        simpa using this
      · have hb : (p == pfx) = false := by simpa using hp
        have hb2 : (p != pfx) = true := by simpa using hp
        simp only [hb, Bool.false_eq_true, ↓reduceIte, declsOfKids, hv, List.filter_cons, hb2, ih hnd.2]
    · rw [removeNsKid_not_namespace pfx k rest hc, declsOfKids_not_namespace k rest hc]; rfl

theorem declsOfKids_foldl_remove (l : List Nat) : ∀ ks : List Tree,
    ((declsOfKids ks).map Prod.fst).Nodup →
    declsOfKids (l.foldl (fun ks p => removeNsKid p ks) ks) =
      (declsOfKids ks).filter (fun kv => !l.contains kv.1) := by
  induction l with
  | nil =>
    intro ks _
    simp only [List.foldl_nil, List.contains_nil, Bool.not_false]
    exact (List.filter_eq_self.2 (fun _ _ => rfl)).symm
  | cons a rest ih =>
    intro ks hnd
    simp only [List.foldl_cons]
    have h1 := declsOfKids_removeNsKid_filter a ks hnd
    have hnd' : ((declsOfKids (removeNsKid a ks)).map Prod.fst).Nodup :=
      ((declsOfKids_removeNsKid a ks).map Prod.fst).nodup hnd
    rw [ih _ hnd', h1, List.filter_filter]
    apply List.filter_congr
    intro kv _
    by_cases hk : kv.1 = a
    · simp [hk]
    · have : (kv.1 != a) = true := by simpa using hk
      simp [this, hk]

theorem declsOfKids_removeOwn (pfxs : List Nat) (ks : List Tree)
    (hnd : ((declsOfKids ks).map Prod.fst).Nodup) :
    declsOfKids (removeOwn pfxs ks) = (declsOfKids ks).filter (fun kv => !pfxs.contains kv.1) := by
  rw [removeOwn, declsOfKids_foldl_remove _ ks hnd]
  apply List.filter_congr
  intro kv _
  simp

theorem eq_of_mem_of_key_eq {d : List (Nat × Nat)} (hnd : (d.map Prod.fst).Nodup) {a b : Nat × Nat}
    (ha : a ∈ d) (hb : b ∈ d) (h : a.1 = b.1) : a = b := by
  have h1 := (mem_iff_lookup_of_nodup d hnd a.1 a.2).1 ha
  have h2 := (mem_iff_lookup_of_nodup d hnd b.1 b.2).1 hb
  rw [h, h2] at h1
  simp only [Option.some.injEq] at h1
  exact Prod.ext h h1.symm

/-- Under unique prefixes the element keeps exactly the declarations the traversal kept. -/
theorem nsDecls_dpWalk (env : Env) (K : List (List (Nat × Nat))) (v : Value) (ks : List Tree)
    (he : v.isElement = true) (hnd : (((Tree.node v ks).nsDecls).map Prod.fst).Nodup) :
    (dpWalk env K (.node v ks)).nsDecls = dpKeep env K (.node v ks) := by
  rw [nsDecls_node] at hnd
  simp only [dpWalk, he, ↓reduceIte, nsDecls_node]
  rw [declsOfKids_removeOwn _ _ (by rw [declsOfKids_dpWalkList]; exact hnd), declsOfKids_dpWalkList]
  simp only [dpKeep, nsDecls_node]
  apply List.filter_congr
  intro kv hkv
  congr 1
  apply Bool.eq_iff_iff.2
  simp only [List.contains_iff_mem, List.mem_map, dpRed, nsDecls_node, List.mem_filter]
  constructor
  · rintro ⟨kv', ⟨hm, hr⟩, hk⟩
    rw [← eq_of_mem_of_key_eq hnd hm hkv hk]; exact hr
  · intro hr; exact ⟨kv, ⟨hkv, hr⟩, rfl⟩

/-- A non-element keeps its (child-value determined) declarations. -/
theorem nsDecls_dpWalk_nonElement (env : Env) (K : List (List (Nat × Nat))) (v : Value) (ks : List Tree)
    (he : v.isElement = false) : (dpWalk env K (.node v ks)).nsDecls = (Tree.node v ks).nsDecls := by
  simp only [dpWalk, he, Bool.false_eq_true, ↓reduceIte, nsDecls_node, declsOfKids_dpWalkList]

theorem isRedundantDeclaration_nil (env : Env) (x : Tree) (kv : Nat × Nat) :
    isRedundantDeclaration env x [] kv = false := by
  unfold isRedundantDeclaration
  split <;> rfl

theorem dpRed_nil (env : Env) (x : Tree) : dpRed env [] x = [] := by
  simp [dpRed, isRedundantDeclaration_nil]

/-- The call node itself never loses a declaration (the kept stack is empty there). -/
theorem nsDecls_dpWalk_nil (env : Env) (x : Tree) : (dpWalk env [] x).nsDecls = x.nsDecls := by
  obtain ⟨v, ks⟩ := x
  unfold dpWalk
  split
  · simp only [dpRed_nil, List.map_nil, removeOwn_nil, nsDecls_node, declsOfKids_dpWalkList]
  · simp only [nsDecls_node, declsOfKids_dpWalkList]

/-! ### Unique prefixes, as a recursive check -/

mutual
theorem uniqueDeclsB_complete : ∀ (t : Tree), UniqueDeclsBelow t → uniqueDeclsB t = true
  | .node v ks, h => by
    simp only [uniqueDeclsB, Bool.and_eq_true, Bool.or_eq_true, Bool.not_eq_true', decide_eq_true_eq]
    refine ⟨?_, uniqueDeclsBList_complete ks (fun i k hk => h.kid hk)⟩
    cases he : v.isElement with
    | false => exact .inl rfl
    | true => exact .inr (h.self (t := .node v ks) he)
theorem uniqueDeclsBList_complete : ∀ (ks : List Tree),
    (∀ (i : Nat) (k : Tree), ks[i]? = some k → UniqueDeclsBelow k) →
    uniqueDeclsB.uniqueDeclsBList ks = true
  | [], _ => rfl
  | k :: ks, h => by
    simp only [uniqueDeclsB.uniqueDeclsBList, Bool.and_eq_true]
    exact ⟨uniqueDeclsB_complete k (h 0 k rfl),
      uniqueDeclsBList_complete ks (fun i k' hk => h (i + 1) k' (by simpa using hk))⟩
end

theorem uniqueDeclsBList_removeNsKid (pfx : Nat) : ∀ ks : List Tree,
    uniqueDeclsB.uniqueDeclsBList ks = true →
    uniqueDeclsB.uniqueDeclsBList (removeNsKid pfx ks) = true := by
  intro ks
  induction ks with
  | nil => intro h; exact h
  | cons k rest ih =>
    intro h
    simp only [uniqueDeclsB.uniqueDeclsBList, Bool.and_eq_true] at h
    unfold removeNsKid
    split
    · split
      · exact h.2
      · simp only [uniqueDeclsB.uniqueDeclsBList, Bool.and_eq_true]; exact ⟨h.1, ih h.2⟩
    · simp only [uniqueDeclsB.uniqueDeclsBList, Bool.and_eq_true]; exact h

theorem uniqueDeclsBList_removeOwn (pfxs : List Nat) (ks : List Tree)
    (h : uniqueDeclsB.uniqueDeclsBList ks = true) :
    uniqueDeclsB.uniqueDeclsBList (removeOwn pfxs ks) = true := by
  unfold removeOwn
  generalize pfxs.reverse = l
  induction l generalizing ks with
  | nil => exact h
  | cons a rest ih => exact ih _ (uniqueDeclsBList_removeNsKid a ks h)

theorem declsOfKids_removeOwn_sublist (pfxs : List Nat) (ks : List Tree) :
    (declsOfKids (removeOwn pfxs ks)).Sublist (declsOfKids ks) := by
  unfold removeOwn
  generalize pfxs.reverse = l
  induction l generalizing ks with
  | nil => exact List.Sublist.refl _
  | cons a rest ih => exact (ih _).trans (declsOfKids_removeNsKid a ks)

mutual
theorem uniqueDeclsB_dpWalk (env : Env) : ∀ (x : Tree) (K : List (List (Nat × Nat))),
    uniqueDeclsB x = true → uniqueDeclsB (dpWalk env K x) = true
  | .node v ks, K, h => by
    simp only [uniqueDeclsB, Bool.and_eq_true, Bool.or_eq_true, Bool.not_eq_true', decide_eq_true_eq,
      nsDecls_node] at h
    by_cases he : v.isElement = true
    · have hnd : ((declsOfKids ks).map Prod.fst).Nodup := by
        rcases h.1 with h1 | h1
        · rw [he] at h1; cases h1
        · exact h1
      simp only [dpWalk, he, ↓reduceIte, uniqueDeclsB, Bool.and_eq_true, Bool.or_eq_true,
        Bool.not_eq_true', decide_eq_true_eq, nsDecls_node]
      refine ⟨.inr ?_, uniqueDeclsBList_removeOwn _ _ (uniqueDeclsBList_dpWalk env ks _ h.2)⟩
      have hs := declsOfKids_removeOwn_sublist ((dpRed env K (.node v ks)).map (·.1))
        (dpWalk.dpWalkList env (dpKeep env K (.node v ks) :: K) ks)
      rw [declsOfKids_dpWalkList] at hs
      exact (hs.map Prod.fst).nodup hnd
    · have he' : v.isElement = false := by simpa using he
      simp only [dpWalk, he', Bool.false_eq_true, ↓reduceIte, uniqueDeclsB, Bool.not_false,
        Bool.true_or, Bool.true_and]
      exact uniqueDeclsBList_dpWalk env ks K h.2
theorem uniqueDeclsBList_dpWalk (env : Env) : ∀ (ks : List Tree) (K : List (List (Nat × Nat))),
    uniqueDeclsB.uniqueDeclsBList ks = true →
    uniqueDeclsB.uniqueDeclsBList (dpWalk.dpWalkList env K ks) = true
  | [], _, _ => rfl
  | k :: ks, K, h => by
    simp only [uniqueDeclsB.uniqueDeclsBList, Bool.and_eq_true] at h
    simp only [dpWalk.dpWalkList, uniqueDeclsB.uniqueDeclsBList, Bool.and_eq_true]
    exact ⟨uniqueDeclsB_dpWalk env k K h.1, uniqueDeclsBList_dpWalk env ks K h.2⟩
end

/-- A pass keeps the prefixes of every element unique. -/
theorem UniqueDeclsBelow.dpWalk {x : Tree} (h : UniqueDeclsBelow x) (env : Env)
    (K : List (List (Nat × Nat))) : UniqueDeclsBelow (dpWalk env K x) :=
  uniqueDeclsB_sound _ (uniqueDeclsB_dpWalk env x K (uniqueDeclsB_complete x h))

/-! ### Undeclarations stay -/

/-- Every binding to the no-namespace id in `b` (before) is in `a` (after). -/
def KeepsUndecl (a b : List (Nat × Nat)) : Prop :=
  ∀ kv ∈ b, kv.2 = Env.noNamespace → kv ∈ a

/-- Pointwise `KeepsUndecl` over the per-node declaration lists (`declsOfTree`). -/
inductive AllKeep : List (List (Nat × Nat)) → List (List (Nat × Nat)) → Prop
  | nil : AllKeep [] []
  | cons {a b : List (Nat × Nat)} {as bs : List (List (Nat × Nat))} :
      KeepsUndecl a b → AllKeep as bs → AllKeep (a :: as) (b :: bs)

theorem AllKeep.refl : ∀ l, AllKeep l l
  | [] => .nil
  | _ :: as => .cons (fun _ h _ => h) (AllKeep.refl as)

theorem AllKeep.trans {a b c : List (List (Nat × Nat))} (h1 : AllKeep a b) (h2 : AllKeep b c) :
    AllKeep a c := by
  induction h1 generalizing c with
  | nil => exact h2
  | cons hs _ ih =>
    cases h2 with
    | cons hs2 h2' => exact .cons (fun kv hkv h0 => hs kv (hs2 kv hkv h0) h0) (ih h2')

theorem AllKeep.append {a b c d : List (List (Nat × Nat))} (h1 : AllKeep a b) (h2 : AllKeep c d) :
    AllKeep (a ++ c) (b ++ d) := by
  induction h1 with
  | nil => exact h2
  | cons hs _ ih => exact .cons hs ih

theorem AllKeep.length_eq {a b : List (List (Nat × Nat))} (h : AllKeep a b) : a.length = b.length := by
  induction h with
  | nil => rfl
  | cons _ _ ih => simp [ih]

/-- Read at a position. -/
theorem AllKeep.get {a b : List (List (Nat × Nat))} (h : AllKeep a b) (i : Nat)
    (x y : List (Nat × Nat)) (hx : a[i]? = some x) (hy : b[i]? = some y) : KeepsUndecl x y := by
  induction h generalizing i with
  | nil => simp at hx
  | cons hs _ ih =>
    cases i with
    | zero =>
      simp only [List.getElem?_cons_zero, Option.some.injEq] at hx hy
      subst hx hy
      exact hs
    | succ j => exact ih j (by simpa using hx) (by simpa using hy)

theorem declsOfList_removeOwn (pfxs : List Nat) (ks : List Tree) :
    declsOfTree.declsOfList (removeOwn pfxs ks) = declsOfTree.declsOfList ks := by
  unfold removeOwn
  generalize pfxs.reverse = l
  induction l generalizing ks with
  | nil => rfl
  | cons a rest ih => simp only [List.foldl_cons]; rw [ih, declsOfList_removeNsKid]

theorem isRedundantDeclaration_undecl (env : Env) (x : Tree) (K : List (List (Nat × Nat)))
    (kv : Nat × Nat) (h : kv.2 = Env.noNamespace) : isRedundantDeclaration env x K kv = false := by
  simp [isRedundantDeclaration, h]

mutual
theorem dp_keeps (env : Env) : ∀ (x : Tree) (K : List (List (Nat × Nat))),
    UniqueDeclsBelow x → AllKeep (declsOfTree (dpWalk env K x)) (declsOfTree x)
  | .node v ks, K, hu => by
    have hkids := fun (K : List (List (Nat × Nat))) =>
      dp_keeps_list env ks K (fun i k hk => hu.kid hk)
    by_cases he : v.isElement = true
    · have hnd := hu.self (t := .node v ks) he
      have hd := nsDecls_dpWalk env K v ks he hnd
      have hw : dpWalk env K (.node v ks) = .node v (removeOwn ((dpRed env K (.node v ks)).map (·.1))
          (dpWalk.dpWalkList env (dpKeep env K (.node v ks) :: K) ks)) := by
        simp only [dpWalk, he, ↓reduceIte]
      rw [hw] at hd ⊢
      simp only [declsOfTree, hd, declsOfList_removeOwn]
      refine .cons ?_ (hkids _)
      intro kv hkv h0
      simp only [dpKeep, List.mem_filter, isRedundantDeclaration_undecl env _ K kv h0, Bool.not_false,
        and_true]
      exact hkv
    · have he' : v.isElement = false := by simpa using he
      have hd := nsDecls_dpWalk_nonElement env K v ks he'
      have hw : dpWalk env K (.node v ks) = .node v (dpWalk.dpWalkList env K ks) := by
        simp only [dpWalk, he', Bool.false_eq_true, ↓reduceIte]
      rw [hw] at hd ⊢
      simp only [declsOfTree, hd]
      exact .cons (fun _ h _ => h) (hkids _)
theorem dp_keeps_list (env : Env) : ∀ (ks : List Tree) (K : List (List (Nat × Nat))),
    (∀ (i : Nat) (k : Tree), ks[i]? = some k → UniqueDeclsBelow k) →
    AllKeep (declsOfTree.declsOfList (dpWalk.dpWalkList env K ks)) (declsOfTree.declsOfList ks)
  | [], K, _ => by simpa [dpWalk.dpWalkList, declsOfTree.declsOfList] using AllKeep.nil
  | k :: ks, K, hu => by
    have h1 := dp_keeps env k K (hu 0 k rfl)
    have h2 := dp_keeps_list env ks K (fun i k' hk => hu (i + 1) k' (by simpa using hk))
    simp only [dpWalk.dpWalkList, declsOfTree.declsOfList, dpWalk_value env k K]
    split
    · exact h2
    · exact h1.append h2
end

/-! ### Down the path of an inner call -/

theorem keep_modify (g : Tree → Tree) : ∀ (l : List Tree) (i : Nat) (k : Tree), l[i]? = some k →
    (g k).value = k.value → AllKeep (declsOfTree (g k)) (declsOfTree k) →
    declsOfKids (l.modify i g) = declsOfKids l ∧
      AllKeep (declsOfTree.declsOfList (l.modify i g)) (declsOfTree.declsOfList l)
  | [], _, _, h, _, _ => by simp at h
  | a :: l, 0, k, h, hv, hk => by
    simp only [List.getElem?_cons_zero, Option.some.injEq] at h
    subst h
    simp only [List.modify_zero_cons, declsOfKids, hv, declsOfTree.declsOfList, true_and]
    split
    · exact AllKeep.refl _
    · exact hk.append (AllKeep.refl _)
  | a :: l, i + 1, k, h, hv, hk => by
    simp only [List.getElem?_cons_succ] at h
    obtain ⟨h1, h2⟩ := keep_modify g l i k h hv hk
    simp only [List.modify_succ_cons, declsOfKids, h1, declsOfTree.declsOfList, true_and]
    split
    · exact h2
    · exact (AllKeep.refl _).append h2

theorem keep_modifyAt (f : Tree → Tree) : ∀ (q : Path) (x sub : Tree), x.at? q = some sub →
    (f sub).value = sub.value → AllKeep (declsOfTree (f sub)) (declsOfTree sub) →
    (scopeModifyAt f x q).value = x.value ∧ AllKeep (declsOfTree (scopeModifyAt f x q)) (declsOfTree x)
  | [], x, sub, h, hv, hk => by
    simp only [Tree.at?, Option.some.injEq] at h
    subst h
    exact ⟨by simpa [scopeModifyAt] using hv, by simpa [scopeModifyAt] using hk⟩
  | i :: q, .node v l, sub, h, hv, hk => by
    simp only [Tree.at?] at h
    cases hki : l[i]? with
    | none => simp [hki] at h
    | some k =>
      simp only [hki] at h
      obtain ⟨h1, h2⟩ := keep_modifyAt f q k sub h hv hk
      obtain ⟨h3, h4⟩ := keep_modify (fun k => scopeModifyAt f k q) l i k hki h1 h2
      refine ⟨rfl, ?_⟩
      simp only [scopeModifyAt, declsOfTree, nsDecls_node, h3]
      exact .cons (fun _ h _ => h) h4

/-- One pass, any call node: every binding to the no-namespace id stays. -/
theorem dedupPass_keeps_undeclarations (env : Env) (t : Tree) (path : Path) (sub : Tree)
    (hs : t.at? path = some sub) (hu : UniqueDeclsBelow sub) :
    AllKeep (declsOfTree (dedupPass env t path sub).1) (declsOfTree t) := by
  rw [dedupPass_eq env t path sub hs]
  exact (keep_modifyAt _ path t sub hs (dpWalk_value env sub []) (dp_keeps env sub [] hu)).2

/-- A property of the tree and of the call's subtree that every pass preserves holds at the end. -/
theorem dedupLoop_induction (env : Env) (path : Path) (P : Tree → Tree → Prop)
    (hstep : ∀ t sub, t.at? path = some sub → UniqueDeclsBelow sub →
      P (dedupPass env t path sub).1 t)
    (hrefl : ∀ t, P t t) (htrans : ∀ a b c, P a b → P b c → P a c) :
    ∀ (fuel : Nat) (t sub : Tree), t.at? path = some sub → UniqueDeclsBelow sub →
      P (dedupLoop env path fuel t) t
  | 0, t, _, _, _ => hrefl t
  | fuel + 1, t, sub, hs, hu => by
    unfold dedupLoop
    simp only [hs]
    split
    · exact htrans _ _ _
        (dedupLoop_induction env path P hstep hrefl htrans fuel _ _ (dedupPass_at? env t path sub hs)
          (hu.dpWalk env []))
        (hstep t sub hs hu)
    · exact hstep t sub hs hu

/-- `deduplicate_namespaces(node)`, any node: every binding to the no-namespace id stays. -/
theorem dedup_keeps_undeclarations (env : Env) (t t' : Tree) (path : Path) (sub : Tree)
    (hs : t.at? path = some sub) (hu : UniqueDeclsBelow sub)
    (h : deduplicateNamespaces env t path = some t') : AllKeep (declsOfTree t') (declsOfTree t) := by
  simp only [deduplicateNamespaces, hs, Option.some.injEq] at h
  subst h
  exact dedupLoop_induction env path (fun a b => AllKeep (declsOfTree a) (declsOfTree b))
    (fun t sub hs hu => dedupPass_keeps_undeclarations env t path sub hs hu)
    (fun t => AllKeep.refl _) (fun _ _ _ h1 h2 => h1.trans h2) _ t sub hs hu

end XotModel
