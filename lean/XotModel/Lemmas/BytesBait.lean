/-
  XotModel.Lemmas.BytesBait — UTF-8 bytes WITHOUT an XML declaration are decoded as UTF-8, whatever
  `encoding=` / `charset=` text they contain (the defects repaired in /repo 72a40b0 and 41ece46).
  "Without declaration" as the reader sees it: `hasDeclLookalike t = false` — after the byte order
  mark the characters up to the first `>` are not all ASCII, or do not begin `<?xml`.
-/
import XotModel.Lemmas.BytesDecode

namespace XotModel.Bytes

/-- `Encoding::decode` (and `xml_declaration`) remove one leading byte order mark. -/
def stripBom : Str → Str
  | [] => []
  | c :: r => if c == '\uFEFF' then r else c :: r

/-- What the `for` loop of `xml_declaration` makes of a UTF-8 text: NUL skipped, a non-ASCII
    character ends it with `none` (/repo 41ece46), the others collected up to the first `>`. -/
def asciiProj : Str → Option Str
  | [] => some []
  | c :: cs =>
    if c.toNat == 0 then asciiProj cs
    else if c.toNat ≥ 0x80 then none
    else if c == '>' then some ['>']
    else match asciiProj cs with
      | some s => some (c :: s)
      | none => none

/-- The reader takes the text for one with a declaration: after the byte order mark, the characters
    up to the first `>` are ASCII (NUL apart) and begin `<?xml`.  False for every text that begins
    with an ASCII character other than `<`, with `<` and an ASCII character other than `?`, with a
    processing instruction whose target is not literally `xml…` — also `<?éxml encoding="latin1"?>`,
    which was a lookalike before /repo 41ece46. -/
def hasDeclLookalike (t : Str) : Bool :=
  match asciiProj (stripBom t) with
  | some a => ['<', '?', 'x', 'm', 'l'].isPrefixOf a
  | none => false

theorem collectAscii_encodeUtf8 (t : Str) : collectAscii (encodeUtf8 t) = asciiProj t := by
  induction t with
  | nil => rfl
  | cons c cs ih =>
    rw [encodeUtf8, asciiProj]
    rcases utf8Bytes_head c with ⟨h1, h2⟩ | ⟨h1, b, r, h2, h3, _, _⟩
    · rw [h2, List.singleton_append, collectAscii, ih]
      have e80 : ¬ (c.toNat ≥ 0x80) := by omega
      by_cases hg : c = '>'
      · subst hg; rfl
      · have : (c.toNat == 0x3E) = false := by
          simp only [beq_eq_false_iff_ne, ne_eq]
          intro e; exact hg (Char.toNat_inj.mp e)
        have h' : (c == '>') = false := by simp [hg]
        simp only [e80, this, h', Char.ofNat_toNat]
        by_cases hz : (c.toNat == 0) = true
        · simp only [hz, if_true]
        · simp only [hz, if_false]
          cases asciiProj cs <;> rfl
    · have e0 : (c.toNat == 0) = false := by simp only [beq_eq_false_iff_ne, ne_eq]; omega
      have e80 : c.toNat ≥ 0x80 := h1
      have b0 : (b == 0) = false := by simp only [beq_eq_false_iff_ne, ne_eq]; omega
      have b80 : b ≥ 0x80 := by omega
      rw [h2, List.cons_append, collectAscii]
      simp only [e0, b0, e80, b80, Bool.false_eq_true, if_false, if_true]

/-! ### The detector on the head of UTF-8 bytes without a declaration -/

def utf8Label : Str := ['u', 't', 'f', '-', '8']

theorem ite_prop {α : Type} {P : α → Prop} {c : Prop} [Decidable c] {x y : α}
    (hx : c → P x) (hy : ¬ c → P y) : P (if c then x else y) := by
  split
  · exact hx ‹_›
  · exact hy ‹_›

theorem bomLabel_utf8_head (a b c d : Nat) (ha : a < 0xF8) (_hb : b < 0xF8) (hc : c < 0xF8)
    (hE : ¬ (a = 0x4C ∧ b = 0x6F ∧ c = 0xA7)) :
    bomLabel (detectByteOrderMark a b c d) = none ∨ bomLabel (detectByteOrderMark a b c d) = some utf8Label := by
  have a255 : (a == 255) = false := by simp; omega
  have a254 : (a == 254) = false := by simp; omega
  have c255 : (c == 255) = false := by simp; omega
  have c254 : (c == 254) = false := by simp; omega
  have hEb : (a == 76 && b == 111 && c == 167 && d == 148) = false := by
    simp only [Bool.and_eq_false_iff, beq_eq_false_iff_ne, ne_eq]; omega
  unfold detectByteOrderMark
  simp only [a255, a254, c255, c254, hEb, Bool.false_and, Bool.and_false, Bool.false_eq_true, if_false]
  refine ite_prop (P := fun r => bomLabel r = none ∨ bomLabel r = some utf8Label) (fun _ => Or.inr rfl) (fun _ => ?_)
  refine ite_prop (P := fun r => bomLabel r = none ∨ bomLabel r = some utf8Label) (fun _ => Or.inl rfl) (fun _ => ?_)
  refine ite_prop (P := fun r => bomLabel r = none ∨ bomLabel r = some utf8Label) (fun _ => Or.inl rfl) (fun _ => ?_)
  refine ite_prop (P := fun r => bomLabel r = none ∨ bomLabel r = some utf8Label) (fun _ => Or.inl rfl) (fun _ => ?_)
  refine ite_prop (P := fun r => bomLabel r = none ∨ bomLabel r = some utf8Label) (fun _ => Or.inl rfl) (fun _ => ?_)
  refine ite_prop (P := fun r => bomLabel r = none ∨ bomLabel r = some utf8Label) (fun _ => Or.inl rfl) (fun _ => ?_)
  refine ite_prop (P := fun r => bomLabel r = none ∨ bomLabel r = some utf8Label) (fun _ => Or.inl rfl) (fun _ => ?_)
  refine ite_prop (P := fun r => bomLabel r = none ∨ bomLabel r = some utf8Label) (fun _ => Or.inl rfl) (fun _ => ?_)
  exact Or.inl rfl

theorem encodeUtf8_cons_inv (t : Str) (b : Nat) (r : Bytes) (h : encodeUtf8 t = b :: r) :
    (b < 0x80 ∧ ∃ c t', t = c :: t' ∧ encodeUtf8 t' = r) ∨ 0xC2 ≤ b := by
  cases t with
  | nil => cases h
  | cons c t' =>
    rw [encodeUtf8] at h
    rcases utf8Bytes_head c with ⟨h1, h2⟩ | ⟨_, b', r', h2, h3, _, _⟩
    · rw [h2] at h
      simp only [List.singleton_append, List.cons.injEq] at h
      exact Or.inl ⟨by omega, c, t', rfl, h.2⟩
    · rw [h2] at h
      simp only [List.cons_append, List.cons.injEq] at h
      exact Or.inr (by omega)

theorem not_ebcdic (t : Str) (a b c : Nat) (r : Bytes) (h : encodeUtf8 t = a :: b :: c :: r) :
    ¬ (a = 0x4C ∧ b = 0x6F ∧ c = 0xA7) := by
  rintro ⟨rfl, rfl, rfl⟩
  rcases encodeUtf8_cons_inv _ _ _ h with ⟨_, _, t1, _, h1⟩ | h0
  · rcases encodeUtf8_cons_inv _ _ _ h1 with ⟨_, _, t2, _, h2⟩ | h0
    · rcases encodeUtf8_cons_inv _ _ _ h2 with ⟨h3, _⟩ | h0 <;> omega
    · omega
  · omega

theorem forLabel_utf8 : forLabel utf8Label = some .utf8 ∧ forLabel ['U', 'T', 'F', '-', '8'] = some .utf8 := by
  decide

/-- Without a declaration the encoding chosen for UTF-8 bytes is UTF-8 (or none: then `decode`
    falls back to UTF-8). -/
theorem encodingOf_utf8_undeclared (t : Str) (hx : xmlDeclaration (encodeUtf8 t) = none) :
    (encodingOf (encodeUtf8 t)).getD .utf8 = .utf8 := by
  unfold encodingOf
  rw [hx]
  have hlt := encodeUtf8_lt t
  rcases hdata : encodeUtf8 t with _ | ⟨a, _ | ⟨b, _ | ⟨c, _ | ⟨d, _ | ⟨e, rest⟩⟩⟩⟩⟩
  · rfl
  · rfl
  · rfl
  · rfl
  · simp only [List.take, detectHead, forLabel_utf8.2, Option.getD_some]
  · rw [hdata] at hlt
    have hbl := bomLabel_utf8_head a b c d (hlt a (by simp)) (hlt b (by simp)) (hlt c (by simp))
      (not_ebcdic t a b c _ hdata)
    simp only [List.take, detectHead]
    rcases hbl with hbl | hbl
    · rw [hbl]
      simp only [List.isEmpty_nil, Bool.true_and]
      by_cases he : e < 0x80
      · simp only [he, decide_true, if_true]
        exact congrArg (fun x => Option.getD x Enc.utf8) forLabel_utf8.1
      · simp only [he, decide_false, Bool.false_eq_true, if_false]
        exact congrArg (fun x => Option.getD x Enc.utf8) forLabel_utf8.2
    · rw [hbl]
      simp only [pushIfNotContains_nil, List.isEmpty_cons, Bool.false_and, Bool.false_eq_true, if_false]
      exact congrArg (fun x => Option.getD x Enc.utf8) forLabel_utf8.1

/-! ### Byte order mark or not -/

theorem bomSniff_none3 (x y z : Nat) (rest : Bytes) (h1 : ¬ (x = 0xEF ∧ y = 0xBB ∧ z = 0xBF))
    (h2 : x ≠ 0xFF) (h3 : x ≠ 0xFE) : bomSniff (x :: y :: z :: rest) = none := by
  have e2 : ¬ 0xFF = x := fun e => h2 e.symm
  have e3 : ¬ 0xFE = x := fun e => h3 e.symm
  by_cases hx : 0xEF = x
  · subst hx
    by_cases hy : 0xBB = y
    · subst hy
      have : ¬ 0xBF = z := fun e => h1 ⟨rfl, rfl, e.symm⟩
      simp [bomSniff, List.isPrefixOf, this]
    · simp [bomSniff, List.isPrefixOf, hy]
  · simp [bomSniff, List.isPrefixOf, hx, e2, e3]

theorem utf8Bytes_bom : utf8Bytes '\uFEFF' = [0xEF, 0xBB, 0xBF] := by decide

theorem bomSniff_utf8 (c : Char) (cs : Str) (hc : c ≠ '\uFEFF') : bomSniff (encodeUtf8 (c :: cs)) = none := by
  have hr := char_range c
  rw [encodeUtf8]
  unfold utf8Bytes
  simp only []
  split
  · exact bomSniff_lt _ _ (by omega)
  · split
    · exact bomSniff_lt _ _ (by omega)
    · split
      · simp only [List.cons_append, List.nil_append]
        apply bomSniff_none3
        · rintro ⟨h1, h2, h3⟩
          apply hc
          apply Char.toNat_inj.mp
          show c.toNat = 0xFEFF
          omega
        · omega
        · omega
      · simp only [List.cons_append, List.nil_append]
        apply bomSniff_none3 <;> omega

theorem isPrefixOf_ucs4 (x : Bytes) (h : ∀ b ∈ x, b < 0xF8) :
    ([0, 0, 0xFE, 0xFF].isPrefixOf x || [0, 0, 0xFF, 0xFE].isPrefixOf x) = false := by
  rcases x with _ | ⟨a, _ | ⟨b, _ | ⟨c, rest⟩⟩⟩
  · rfl
  · simp [List.isPrefixOf]
  · simp [List.isPrefixOf]
  · have hc := h c (by simp)
    have c2 : ¬ 0xFF = c := by omega
    have c3 : ¬ 0xFE = c := by omega
    simp [List.isPrefixOf, c2, c3]

theorem bomSniff_none_tests (x : Bytes) (h : bomSniff x = none) :
    [0xEF, 0xBB, 0xBF].isPrefixOf x = false ∧ [0xFF, 0xFE].isPrefixOf x = false ∧ [0xFE, 0xFF].isPrefixOf x = false := by
  unfold bomSniff at h
  by_cases a1 : [0xEF, 0xBB, 0xBF].isPrefixOf x = true
  · rw [if_pos a1] at h; cases h
  · rw [if_neg a1] at h
    by_cases a2 : [0xFF, 0xFE].isPrefixOf x = true
    · rw [if_pos a2] at h; cases h
    · rw [if_neg a2] at h
      by_cases a3 : [0xFE, 0xFF].isPrefixOf x = true
      · rw [if_pos a3] at h; cases h
      · exact ⟨Bool.eq_false_iff.mpr a1, Bool.eq_false_iff.mpr a2, Bool.eq_false_iff.mpr a3⟩

/-- The reader's first statement on UTF-8 bytes: it removes exactly the UTF-8 byte order mark. -/
theorem stripDeclBom_encodeUtf8 (t : Str) : stripDeclBom (encodeUtf8 t) = encodeUtf8 (stripBom t) := by
  cases t with
  | nil => rfl
  | cons c cs =>
    by_cases hc : c = '\uFEFF'
    · subst hc
      rw [encodeUtf8, utf8Bytes_bom]
      simp [stripDeclBom, List.isPrefixOf, stripBom]
    · have hne : (c == '\uFEFF') = false := by simp [hc]
      obtain ⟨h1, h2, h3⟩ := bomSniff_none_tests _ (bomSniff_utf8 c cs hc)
      have h4 := isPrefixOf_ucs4 _ (encodeUtf8_lt (c :: cs))
      simp only [stripDeclBom, h1, h2, h3, h4, Bool.or_self, Bool.false_eq_true, if_false, stripBom, hne]

theorem xmlDeclaration_utf8_none (t : Str) (h : hasDeclLookalike t = false) :
    xmlDeclaration (encodeUtf8 t) = none := by
  apply xmlDeclaration_none
  intro a ha
  rw [stripDeclBom_encodeUtf8, collectAscii_encodeUtf8] at ha
  unfold hasDeclLookalike at h
  rw [ha] at h
  exact h

/-- **UTF-8 bytes without a declaration** (with or without byte order mark) decode to the text, the
    byte order mark removed — whatever `encoding=` / `charset=` text they contain. -/
theorem decodeBytes_utf8_undeclared (t : Str) (h : hasDeclLookalike t = false) :
    decodeBytes (encodeUtf8 t) = some (stripBom t) := by
  cases t with
  | nil => decide
  | cons c cs =>
    by_cases hc : c = '\uFEFF'
    · subst hc
      rw [encodeUtf8, utf8Bytes_bom]
      exact decodeBytes_bom8 cs
    · have hx := xmlDeclaration_utf8_none _ h
      have he := encodingOf_utf8_undeclared _ hx
      unfold decodeBytes decodeSniffed
      rw [bomSniff_utf8 c cs hc, he]
      simp only [decodeWith, decodeUtf8_encode, stripBom]
      have : (c == '\uFEFF') = false := by simp [hc]
      rw [this]
      rfl

/-- A text that begins with `<` and an ASCII character other than `?` (a start tag, a comment, a
    document type declaration) is not taken for one with a declaration. -/
theorem noLookalike_of_lt (c : Char) (r : Str) (h0 : 0 < c.toNat) (h1 : c.toNat < 0x80) (hq : c ≠ '?') :
    hasDeclLookalike ('<' :: c :: r) = false := by
  have e0 : (c.toNat == 0) = false := by simp only [beq_eq_false_iff_ne, ne_eq]; omega
  have e1 : ¬ (c.toNat ≥ 0x80) := by omega
  unfold hasDeclLookalike
  rw [show stripBom ('<' :: c :: r) = '<' :: c :: r from rfl, asciiProj]
  simp only [show ('<'.toNat == 0) = false by decide, show ¬ ('<'.toNat ≥ 0x80) by decide,
    show ('<' == '>') = false by decide, Bool.false_eq_true, if_false]
  rw [asciiProj, e0]
  simp only [Bool.false_eq_true, if_false, e1]
  by_cases hg : c = '>'
  · subst hg; rfl
  · have hg' : (c == '>') = false := by simp [hg]
    rw [hg']
    simp only [Bool.false_eq_true, if_false]
    cases asciiProj r with
    | none => rfl
    | some a =>
      simp only [List.isPrefixOf]
      have : ('?' == c) = false := by
        simp only [beq_eq_false_iff_ne, ne_eq]; exact fun e => hq e.symm
      simp [this]

end XotModel.Bytes
