/-
  `prettyTree sup t` (the tree the indented output is read as, Lemmas/SerIndentDefs.lean) of a
  `Representable` document is `Representable`: the inserted nodes are non-empty text nodes of XML
  characters, they stand among the normal children, never next to another text node, and nothing else
  changes (values, declarations, attributes, `xml:id` values, the top level).
-/
import XotModel.Lemmas.SerIndentTree
import XotModel.Lemmas.RoundTripItems

namespace XotModel
open Gen

variable (env : Env) (sup : List Nat)

/-! ### Values -/

theorem prettyNode_value (ps : PStack) : ∀ (n : Tree), (prettyNode sup ps n).value = n.value
  | .node v ks => by
    cases v with
    | element name =>
      by_cases hc : (Tree.node (.element name) ks).firstChild?.isSome = true <;> simp [prettyNode, hc, Tree.value]
    | _ => rfl

theorem mem_wsNode {w : Str} {x : Tree} (h : x ∈ wsNode w) : x = .node (.text w) [] ∧ w ≠ [] := by
  unfold wsNode at h
  split at h
  · cases h
  · rename_i hw
    simp only [List.mem_singleton] at h
    exact ⟨h, by simpa using hw⟩

theorem wsNode_cases (w : Str) : wsNode w = [] ∨ wsNode w = [.node (.text w) []] := by
  unfold wsNode; split <;> simp

theorem mem_prettyKids {pc : PStack} {gap : Str} : ∀ {ks : List Tree} {x : Tree},
    x ∈ prettyNode.prettyKids sup pc gap ks → x ∈ wsNode gap ∨ ∃ k ∈ ks, x = prettyNode sup pc k
  | [], x, h => by cases h
  | k :: ks, x, h => by
    simp only [prettyNode.prettyKids, List.mem_append, List.mem_cons] at h
    rcases h with h | rfl | h
    · split at h
      · exact .inl h
      · cases h
    · exact .inr ⟨k, by simp, rfl⟩
    · rcases mem_prettyKids h with h | ⟨k', hk', rfl⟩
      · exact .inl h
      · exact .inr ⟨k', by simp [hk'], rfl⟩

/-- Anything read off the children one by one that ignores text leaves and depends on the value only is
    unchanged. -/
theorem filterMap_prettyKids {α : Type} (g : Tree → Option α) (hg1 : ∀ pc k, g (prettyNode sup pc k) = g k)
    (hg2 : ∀ w, g (.node (.text w) []) = none) (pc : PStack) (gap : Str) : ∀ (ks : List Tree),
    (prettyNode.prettyKids sup pc gap ks).filterMap g = ks.filterMap g
  | [] => rfl
  | k :: ks => by
    have hws : (if k.value.isNormal then wsNode gap else []).filterMap g = [] := by
      split
      · rcases wsNode_cases gap with h | h <;> rw [h] <;> simp [hg2]
      · rfl
    simp only [prettyNode.prettyKids, List.filterMap_append, hws, List.nil_append, List.filterMap_cons,
      hg1, filterMap_prettyKids g hg1 hg2 pc gap ks]

theorem filterMap_wsNode {α : Type} (g : Tree → Option α) (hg2 : ∀ w, g (.node (.text w) []) = none) (w : Str) :
    (wsNode w).filterMap g = [] := by
  rcases wsNode_cases w with h | h <;> rw [h] <;> simp [hg2]

/-! ### Order -/

theorem phase_le_two (v : Value) : v.phase ≤ 2 := by cases v <;> simp [Value.phase]

theorem normal_iff_phase (v : Value) : v.isNormal = true ↔ v.phase = 2 := by
  cases v <;> simp [Value.isNormal, Value.category, Value.phase]

theorem orderedKids_prettyKids (pc : PStack) (gap : Str) (tail : List Tree)
    (htail : ∀ x ∈ tail, x.value.phase = 2) : ∀ (ks : List Tree), OrderedKids ks →
    OrderedKids (prettyNode.prettyKids sup pc gap ks ++ tail)
  | [], _ => by
    simp only [prettyNode.prettyKids, List.nil_append, OrderedKids]
    apply List.pairwise_of_forall_mem_list
    intro a ha b hb
    rw [htail a ha, htail b hb]
    exact Nat.le_refl _
  | k :: ks, hord => by
    have hk := (List.pairwise_cons.mp hord).1
    have ih := orderedKids_prettyKids pc gap tail htail ks (List.pairwise_cons.mp hord).2
    have hrest : ∀ x ∈ prettyNode.prettyKids sup pc gap ks ++ tail, k.value.phase ≤ x.value.phase := by
      intro x hx
      rcases List.mem_append.mp hx with hx | hx
      · rcases mem_prettyKids sup hx with hx | ⟨k2, hk2, rfl⟩
        · rw [(mem_wsNode hx).1]; exact phase_le_two _
        · rw [prettyNode_value]; exact hk k2 hk2
      · rw [htail x hx]; exact phase_le_two _
    have h1 : OrderedKids (prettyNode sup pc k :: (prettyNode.prettyKids sup pc gap ks ++ tail)) := by
      refine List.pairwise_cons.mpr ⟨?_, ih⟩
      intro x hx
      rw [prettyNode_value]
      exact hrest x hx
    simp only [prettyNode.prettyKids, List.append_assoc, List.cons_append]
    split
    · rename_i hn
      have hp := (normal_iff_phase _).mp hn
      rcases wsNode_cases gap with hw | hw <;> rw [hw]
      · exact h1
      · simp only [List.cons_append, List.nil_append]
        refine List.pairwise_cons.mpr ⟨?_, h1⟩
        intro x hx
        have h2 : (Tree.node (.text gap) []).value.phase = 2 := rfl
        rw [h2]
        rcases List.mem_cons.mp hx with rfl | hx
        · rw [prettyNode_value, hp]; exact Nat.le_refl _
        · have := hrest x hx
          omega
    · exact h1

/-! ### No two neighbouring text nodes -/

theorem si_noAdjText_cons_notText {k : Tree} {rest : List Tree} (hk : k.value.isText = false)
    (h : noAdjText rest = true) : noAdjText (k :: rest) = true := by
  cases rest with
  | nil => rfl
  | cons x xs => simp [noAdjText, hk, h]

theorem noAdjText_text_cons (w : Str) (k : Tree) (rest : List Tree) :
    noAdjText (.node (.text w) [] :: k :: rest) = (!k.value.isText && noAdjText (k :: rest)) := by
  simp [noAdjText, Tree.value, Value.isText]

/-- Where no child is a text node: white space in front of children and behind the last one. -/
theorem noAdjText_prettyKids_granting (pc : PStack) (gap e : Str) : ∀ (ks : List Tree),
    (∀ k ∈ ks, k.value.isText = false) →
    noAdjText (prettyNode.prettyKids sup pc gap ks ++ wsNode e) = true
  | [], _ => by
    simp only [prettyNode.prettyKids, List.nil_append]
    unfold wsNode; split <;> rfl
  | k :: ks, h => by
    have ih := noAdjText_prettyKids_granting pc gap e ks (fun k' hk' => h k' (by simp [hk']))
    have hk : (prettyNode sup pc k).value.isText = false := by rw [prettyNode_value]; exact h k (by simp)
    have h1 := si_noAdjText_cons_notText hk ih
    simp only [prettyNode.prettyKids, List.append_assoc, List.cons_append]
    split
    · rcases wsNode_cases gap with hw | hw <;> rw [hw]
      · exact h1
      · simp only [List.cons_append, List.nil_append]
        rw [noAdjText_text_cons, hk, h1]; rfl
    · exact h1

/-- Where no white space is granted nothing is inserted: the values of the children are the same. -/
theorem prettyKids_nil_gap (pc : PStack) : ∀ (ks : List Tree),
    prettyNode.prettyKids sup pc [] ks = ks.map (prettyNode sup pc)
  | [] => rfl
  | k :: ks => by
    simp only [prettyNode.prettyKids, wsNode, List.isEmpty_nil, if_true, ite_self, List.nil_append, List.map_cons,
      prettyKids_nil_gap pc ks]

theorem noAdjText_map {f : Tree → Tree} (hf : ∀ k, (f k).value = k.value) : ∀ (ks : List Tree),
    noAdjText (ks.map f) = noAdjText ks
  | [] => rfl
  | [k] => rfl
  | a :: b :: rest => by
    have := noAdjText_map hf (b :: rest)
    simp only [List.map_cons] at this ⊢
    simp only [noAdjText, hf, this]

/-! ### `nodeOK` everywhere -/

theorem isWsChar_xml {c : Char} (h : isWsChar c = true) : isXmlChar c = true := by
  simp only [isWsChar, Bool.or_eq_true, beq_iff_eq] at h
  rcases h with rfl | rfl <;> decide

theorem wsNode_allNodes {w : Str} (hw : w.all isWsChar = true) : ∀ x ∈ wsNode w, x.allNodes (nodeOK env) = true := by
  intro x hx
  obtain ⟨rfl, hne⟩ := mem_wsNode hx
  rw [allNodes_node]
  simp only [List.all_nil, Bool.and_true]
  rw [nodeOK_iff]
  refine ⟨List.Pairwise.nil, ⟨fun _ => rfl, fun _ k hk => (by cases hk), fun k hk => (by cases hk)⟩,
    ⟨List.nodup_nil, List.nodup_nil⟩, rfl, ?_⟩
  simp only [valueOK, Bool.and_eq_true, Bool.not_eq_true', List.isEmpty_eq_false_iff, List.all_eq_true]
  refine ⟨hne, fun c hc => isWsChar_xml ?_⟩
  simp only [List.all_eq_true] at hw
  exact hw c hc

theorem gapEnd_notGranting {pc : PStack} (h : pc.getNewline = false) (ps : PStack) : gapEnd pc ps = [] := by
  have hm : (pc.inMixed || pc.inSpacePreserve) = true := by
    simp only [PStack.getNewline, Bool.and_eq_false_iff, Bool.not_eq_false'] at h
    simpa using h
  simp [gapEnd, (notGranting_nil h).1, hm]

theorem gapOf_notGranting {pc : PStack} (h : pc.getNewline = false) : gapOf pc = [] := by
  simp [gapOf, (notGranting_nil h).1, (notGranting_nil h).2]

/-- The children of an element with children, with the white space the indenting writer adds. -/
theorem nodeOK_prettyKids {name : Nat} {ks : List Tree}
    (hn : (Tree.node (.element name) ks).allNodes (nodeOK env) = true) (ps : PStack) :
    nodeOK env (.element name)
      (prettyNode.prettyKids sup (entryFor sup (.node (.element name) ks) :: ps)
          (gapOf (entryFor sup (.node (.element name) ks) :: ps)) ks
        ++ wsNode (gapEnd (entryFor sup (.node (.element name) ks) :: ps) ps)) = true := by
  have hnode : nodeOK env (.element name) ks = true := by
    rw [allNodes_node, Bool.and_eq_true] at hn; exact hn.1
  obtain ⟨hord, hkinds, huniq, hnoadj, hval⟩ := (nodeOK_iff env _ ks).mp hnode
  have hf := kidsFacts_element env sup hn ps
  rw [nodeOK_iff]
  refine ⟨?_, ⟨fun h => by simp [Value.isLeafKind] at h, fun h => by simp [Value.isElement] at h, ?_⟩,
    ⟨?_, ?_⟩, ?_, hval⟩
  · apply orderedKids_prettyKids sup _ _ _ _ ks hord
    intro x hx
    rw [(mem_wsNode hx).1]; rfl
  · intro x hx
    rcases List.mem_append.mp hx with hx | hx
    · rcases mem_prettyKids sup hx with hx | ⟨k, hk, rfl⟩
      · rw [(mem_wsNode hx).1]; rfl
      · rw [prettyNode_value]; exact hkinds.2.2 k hk
    · rw [(mem_wsNode hx).1]; rfl
  · unfold attrNames
    rw [List.filterMap_append, filterMap_prettyKids sup _ (fun pc k => by simp only [prettyNode_value]) (fun _ => rfl),
      filterMap_wsNode _ (fun _ => rfl), List.append_nil]
    exact huniq.1
  · unfold nsPrefixes
    rw [List.filterMap_append, filterMap_prettyKids sup _ (fun pc k => by simp only [prettyNode_value]) (fun _ => rfl),
      filterMap_wsNode _ (fun _ => rfl), List.append_nil]
    exact huniq.2
  · cases hg : PStack.getNewline (entryFor sup (.node (.element name) ks) :: ps) with
    | false =>
      rw [gapOf_notGranting hg, gapEnd_notGranting hg, prettyKids_nil_gap]
      simp only [wsNode, List.isEmpty_nil, if_true, List.append_nil]
      rw [noAdjText_map (prettyNode_value sup _)]
      exact hnoadj
    | true =>
      apply noAdjText_prettyKids_granting
      intro k hk
      cases hnorm : k.value.isNormal with
      | true =>
        have := hf.markup hg k hk hnorm
        cases hv : k.value <;> simp [hv, Value.isMarkup, Value.isText] at this ⊢
      | false =>
        cases hv : k.value <;> simp [hv, Value.isNormal, Value.category, Value.isText] at hnorm ⊢

/-- **Every node of the tree the indented output is read as satisfies `nodeOK`.** -/
theorem prettyNode_allNodes : ∀ (n : Tree) (ps : PStack), n.allNodes (nodeOK env) = true →
    (prettyNode sup ps n).allNodes (nodeOK env) = true
  | .node v ks, ps, hn => by
    cases v with
    | element name =>
      by_cases hc : (Tree.node (.element name) ks).firstChild?.isSome = true
      · simp only [prettyNode, hc, if_true]
        rw [allNodes_node, Bool.and_eq_true, List.all_eq_true]
        refine ⟨nodeOK_prettyKids env sup hn ps, ?_⟩
        intro x hx
        rcases List.mem_append.mp hx with hx | hx
        · rcases mem_prettyKids sup hx with hx | ⟨k, hk, rfl⟩
          · exact wsNode_allNodes env (gapOf_ws _) x hx
          · have : sizeOf k < sizeOf (Tree.node (.element name) ks) := by
              have := List.sizeOf_lt_of_mem hk
              simp only [Tree.node.sizeOf_spec]
              omega
            exact prettyNode_allNodes k _ (allNodes_kid hn hk)
        · exact wsNode_allNodes env (gapEnd_ws _ ps) x hx
      · simpa [prettyNode, hc] using hn
    | _ => exact hn
termination_by n => sizeOf n

/-! ### `xml:id` values -/

theorem xmlIds_append (a b : List Tree) :
    xmlIdValues.idsList env (a ++ b) = xmlIdValues.idsList env a ++ xmlIdValues.idsList env b := by
  induction a with
  | nil => rfl
  | cons k ks ih => simp [xmlIdValues.idsList, ih]

theorem idsList_wsNode (w : Str) : xmlIdValues.idsList env (wsNode w) = [] := by
  rcases wsNode_cases w with h | h <;> rw [h] <;> simp [xmlIdValues.idsList, xmlIdValues]

theorem idsList_prettyKids (pc : PStack) (gap : Str) : ∀ (ks : List Tree),
    (∀ k ∈ ks, xmlIdValues env (prettyNode sup pc k) = xmlIdValues env k) →
    xmlIdValues.idsList env (prettyNode.prettyKids sup pc gap ks) = xmlIdValues.idsList env ks
  | [], _ => rfl
  | k :: ks, h => by
    have hws : xmlIdValues.idsList env (if k.value.isNormal then wsNode gap else []) = [] := by
      split
      · exact idsList_wsNode env gap
      · rfl
    simp only [prettyNode.prettyKids, xmlIds_append, hws, List.nil_append, xmlIdValues.idsList,
      h k (by simp), idsList_prettyKids pc gap ks (fun k' hk' => h k' (by simp [hk']))]

theorem ids_prettyNode : ∀ (n : Tree) (ps : PStack), xmlIdValues env (prettyNode sup ps n) = xmlIdValues env n
  | .node v ks, ps => by
    cases v with
    | element name =>
      by_cases hc : (Tree.node (.element name) ks).firstChild?.isSome = true
      · simp only [prettyNode, hc, if_true, xmlIdValues, xmlIds_append, idsList_wsNode, List.append_nil]
        congr 1
        apply idsList_prettyKids
        intro k hk
        have : sizeOf k < sizeOf (Tree.node (.element name) ks) := by
          have := List.sizeOf_lt_of_mem hk
          simp only [Tree.node.sizeOf_spec]
          omega
        exact ids_prettyNode k _
      · simp [prettyNode, hc]
    | _ => rfl
termination_by n => sizeOf n

theorem idsList_map_prettyNode (ps : PStack) : ∀ (ks : List Tree),
    xmlIdValues.idsList env (ks.map (prettyNode sup ps)) = xmlIdValues.idsList env ks
  | [] => rfl
  | k :: ks => by
    simp only [List.map_cons, xmlIdValues.idsList, ids_prettyNode, idsList_map_prettyNode ps ks]

/-! ### The document -/

theorem filterMap_map_value {α : Type} (g : Tree → Option α) {f : Tree → Tree} (hg : ∀ k, g (f k) = g k)
    (ks : List Tree) : (ks.map f).filterMap g = ks.filterMap g := by
  induction ks with
  | nil => rfl
  | cons k ks ih => simp only [List.map_cons, List.filterMap_cons, hg, ih]

/-- **`prettyTree` of a representable document is representable.** -/
theorem representable_prettyTree {t : Tree} (hr : Representable env t = true) :
    Representable env (prettyTree sup t) = true := by
  simp only [Representable, Bool.and_eq_true] at hr ⊢
  obtain ⟨hfrag, hsingle⟩ := hr
  obtain ⟨henv, hdocv, hn, hids⟩ := (representableFragment_iff env t).mp hfrag
  cases t with
  | node v ks =>
    cases v <;> simp [Tree.value, Value.isDocument] at hdocv
    have hnode : nodeOK env .document ks = true := by
      rw [allNodes_node, Bool.and_eq_true] at hn; exact hn.1
    obtain ⟨hord, hkinds, huniq, hnoadj, hval⟩ := (nodeOK_iff env _ ks).mp hnode
    have hv := prettyNode_value sup []
    constructor
    · rw [representableFragment_iff]
      refine ⟨henv, rfl, ?_, ?_⟩
      · simp only [prettyTree]
        rw [allNodes_node, Bool.and_eq_true, List.all_eq_true]
        constructor
        · rw [nodeOK_iff]
          refine ⟨?_, ⟨fun h => by simp [Value.isLeafKind] at h, ?_, ?_⟩, ⟨?_, ?_⟩, ?_, hval⟩
          · unfold OrderedKids
            rw [List.pairwise_map]
            simp only [hv]
            exact hord
          · intro _ x hx
            obtain ⟨k, hk, rfl⟩ := List.mem_map.mp hx
            rw [hv]; exact hkinds.2.1 rfl k hk
          · intro x hx
            obtain ⟨k, hk, rfl⟩ := List.mem_map.mp hx
            rw [hv]; exact hkinds.2.2 k hk
          · unfold attrNames
            rw [filterMap_map_value _ (fun k => by simp only [hv])]
            exact huniq.1
          · unfold nsPrefixes
            rw [filterMap_map_value _ (fun k => by simp only [hv])]
            exact huniq.2
          · rw [noAdjText_map hv]; exact hnoadj
        · intro x hx
          obtain ⟨k, hk, rfl⟩ := List.mem_map.mp hx
          exact prettyNode_allNodes env sup k [] (allNodes_kid hn hk)
      · simp only [prettyTree, xmlIdValues, List.nil_append, idsList_map_prettyNode] at hids ⊢
        exact hids
    · simp only [singleRoot, prettyTree, Tree.kids, Bool.and_eq_true, beq_iff_eq, List.all_eq_true] at hsingle ⊢
      constructor
      · rw [List.filter_map, List.length_map]
        have : ((fun k => k.value.isElement) ∘ prettyNode sup []) = (fun k => k.value.isElement) := by
          funext k; simp [Function.comp, hv]
        rw [this]; exact hsingle.1
      · intro x hx
        obtain ⟨k, hk, rfl⟩ := List.mem_map.mp hx
        rw [hv]; exact hsingle.2 k hk

end XotModel
