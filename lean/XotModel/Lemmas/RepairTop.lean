/-
  The repaired element itself (it also receives the new prefix declarations), the second call
  (nothing is recorded on a tree whose names are all writable), and what the `n{counter}` loop
  guarantees about the prefixes it hands out.
-/
import XotModel.Lemmas.RepairOk

namespace XotModel.Repair
open XotModel

theorem okRec_of_value (nsOf : Nat → Nat) (top : List (Nat × Nat)) (t : Tree) (name : Nat)
    (h : t.value = .element name) :
    okRec nsOf top t =
      (elementOkAt nsOf (pushTop top t.nsDecls) name (t.attrs.map (·.1)) &&
        okKids nsOf (pushTop top t.nsDecls) t.kids) := by
  cases t with
  | node v ks =>
    simp only [Tree.value] at h
    subst h
    simp only [okRec, Tree.kids]

theorem okKids_insertNamespace (nsOf : Nat → Nat) (top : List (Nat × Nat)) (p ns : Nat) (t : Tree) :
    okKids nsOf top (insertNamespace p ns t).kids = okKids nsOf top t.kids := by
  cases t with
  | node v ks => simp only [insertNamespace, Tree.kids, okKids_insertNsKid]

/-- The frame below the repaired element: what the walk held plus the new declarations. -/
theorem ext_push_top {nd inh WD D' : List (Nat × Nat)}
    (heq : ∀ q m, (q, m) ∈ D' ↔ (q, m) ∈ WD ∨ (q, m) ∈ nd) (hinh : ∀ p ∈ keys nd, p ∉ keys inh) :
    Ext nd (pushTop inh WD) (pushTop inh D') := by
  have hkeys : ∀ q, q ∈ keys D' ↔ q ∈ keys WD ∨ q ∈ keys nd := by
    intro q
    simp only [mem_keys, heq]
    constructor
    · rintro ⟨m, h | h⟩
      · exact Or.inl ⟨m, h⟩
      · exact Or.inr ⟨m, h⟩
    · rintro (⟨m, h⟩ | ⟨m, h⟩)
      · exact ⟨m, Or.inl h⟩
      · exact ⟨m, Or.inr h⟩
  intro p n
  rw [mem_pushTop, mem_pushTop, heq, hkeys]
  constructor
  · rintro (⟨h1, h2⟩ | h1 | h1)
    · exact Or.inl (Or.inl ⟨h1, fun h => h2 (Or.inl h)⟩)
    · exact Or.inl (Or.inr h1)
    · exact Or.inr h1
  · rintro ((⟨h1, h2⟩ | h1) | h1)
    · refine Or.inl ⟨h1, ?_⟩
      rintro (h | h)
      · exact h2 h
      · exact hinh p h (mem_keys.mpr ⟨n, h1⟩)
    · exact Or.inr (Or.inl h1)
    · exact Or.inr (Or.inr h1)

/-- The repaired element: every name at or below it has a usable prefix in the frames the
    serialiser builds from the inherited declarations. -/
theorem rebuild_top_ok (nsOf : Nat → Nat) (nd : List (Nat × Nat)) (hn1 : ∀ d ∈ nd, d.1 ≠ Env.emptyPrefix)
    (hn2 : (keys nd).Nodup) (name : Nat) (ks : List Tree) (inh : List (Nat × Nat)) (pre : Path) (acc : Acc)
    (hu : UniqueBelow (.node (.element name) ks))
    (hm : ∀ ns ∈ (collectRec nsOf inh pre (.node (.element name) ks) acc).missing, HasNd nd ns)
    (hused : ∀ p ∈ keys nd, p ∉ (collectRec nsOf inh pre (.node (.element name) ks) acc).used)
    (hinh : ∀ p ∈ keys nd, p ∉ keys inh) :
    okRec nsOf inh (rebuild nsOf nd true inh (.node (.element name) ks)) = true := by
  have hD := uniqueBelow_self hu
  simp only [collectRec] at hm hused
  obtain ⟨mono1, mono2⟩ := collectKids_mono nsOf ks (walkTop nsOf inh (.node (.element name) ks) name) pre 0
    { missing := missOf nsOf (walkTop nsOf inh (.node (.element name) ks) name) name
        ((Tree.node (.element name) ks).attrs.map (·.1)) acc.missing
      undeclare := if needsUndeclare nsOf inh (.node (.element name) ks) name then acc.undeclare ++ [pre]
        else acc.undeclare
      used := acc.used ++ (Tree.node (.element name) ks).nsDecls.map (·.1) }
  have hndD : ∀ p ∈ keys nd, p ∉ keys (declsOfKids ks) := by
    intro p hp hk
    exact hused p hp (mono2 p (by simp only [List.mem_append, nsDecls_node]; exact Or.inr hk))
  have hfresh : ∀ p ∈ keys nd, p ∉ keys (walkDecls nsOf inh (.node (.element name) ks) name) := by
    intro p hp hk
    rcases keys_walkDecls_sub nsOf inh _ name p hk with h | h
    · exact hndD p hp h
    · obtain ⟨n, hn⟩ := mem_keys.mp hp
      exact hn1 _ hn h
  have hvals := map_value_rebuildKids nsOf nd (walkTop nsOf inh (.node (.element name) ks) name) ks
  -- the element after the new prefixes went in
  generalize hn1def : insertNamespaces nd (Tree.node (.element name)
    (rebuildKids nsOf nd (walkTop nsOf inh (.node (.element name) ks) name) ks)) = n2
  have hv2 : n2.value = .element name := by rw [← hn1def, value_insertNamespaces]; rfl
  have hat2 : n2.attrs = (Tree.node (.element name) ks).attrs := by
    rw [← hn1def, attrs_insertNamespaces]; exact attrs_congr hvals
  have hk2 : ∀ top, okKids nsOf top n2.kids =
      okKids nsOf top (rebuildKids nsOf nd (walkTop nsOf inh (.node (.element name) ks) name) ks) := by
    intro top; rw [← hn1def, okKids_insertNsKids]
  obtain ⟨hD2u, hD2⟩ := mem_foldl_insertDecl nd (declsOfKids ks) hD hn2 hndD
  have hd2 : n2.nsDecls = nd.foldl (fun D d => insertDecl d.1 d.2 D) (declsOfKids ks) := by
    rw [← hn1def, nsDecls_insertNamespaces, nsDecls_node, declsOfKids_congr hvals]
  cases hc : needsUndeclare nsOf inh (.node (.element name) ks) name with
  | false =>
    have hext2 : Ext nd (walkTop nsOf inh (.node (.element name) ks) name) (pushTop inh n2.nsDecls) := by
      apply ext_push_top (WD := walkDecls nsOf inh (.node (.element name) ks) name) _ hinh
      intro q m
      rw [hd2, hD2]
      simp [walkDecls, hc, nsDecls_node]
    simp only [rebuild, hc, Bool.false_eq_true, if_false, if_true, hn1def]
    rw [okRec_of_value nsOf inh n2 name hv2, hat2, hk2, Bool.and_eq_true]
    refine ⟨elementOkAt_rebuilt nsOf nd hn1 inh _ name _ _ acc.missing hext2
      (fun ns hns => hm ns (mono1 ns hns)), ?_⟩
    exact rebuildKids_ok nsOf nd hn1 ks _ _ pre 0 _ hext2 (uniqueBelow_kids hu) hm hused
  | true =>
    have hext2 : Ext nd (walkTop nsOf inh (.node (.element name) ks) name)
        (pushTop inh (insertNamespace Env.emptyPrefix Env.noNamespace n2).nsDecls) := by
      apply ext_push_top (WD := walkDecls nsOf inh (.node (.element name) ks) name) _ hinh
      intro q m
      rw [nsDecls_insertNamespace, mem_insertDecl _ _ _ (by rw [hd2]; exact hD2u), hd2, hD2]
      simp only [walkDecls, hc, if_true, nsDecls_node, mem_undeclaredDecls]
      constructor
      · rintro (⟨h1, h2 | h2⟩ | h1)
        · exact Or.inl (Or.inl ⟨h1, h2⟩)
        · exact Or.inr h2
        · exact Or.inl (Or.inr h1)
      · rintro ((⟨h1, h2⟩ | h1) | h1)
        · exact Or.inl ⟨h1, Or.inl h2⟩
        · exact Or.inr h1
        · exact Or.inl ⟨hn1 _ h1, Or.inr h1⟩
    simp only [rebuild, hc, if_true, hn1def]
    have hv3 : (insertNamespace Env.emptyPrefix Env.noNamespace n2).value = .element name := by
      rw [value_insertNamespace, hv2]
    rw [okRec_of_value nsOf inh _ name hv3, attrs_insertNamespace, hat2, okKids_insertNamespace, hk2,
      Bool.and_eq_true]
    refine ⟨elementOkAt_rebuilt nsOf nd hn1 inh _ name _ _ acc.missing hext2
      (fun ns hns => hm ns (mono1 ns hns)), ?_⟩
    exact rebuildKids_ok nsOf nd hn1 ks _ _ pre 0 _ hext2 (uniqueBelow_kids hu) hm hused

/-! ### A tree whose names are all writable: nothing to record, nothing to insert -/

theorem needsUndeclare_of_ok {nsOf : Nat → Nat} {top : List (Nat × Nat)} {t : Tree} {name : Nat}
    {attrs : List Nat} (h : elementOkAt nsOf (pushTop top t.nsDecls) name attrs = true) :
    needsUndeclare nsOf top t name = false := by
  unfold elementOkAt at h
  simp only [Bool.and_eq_true, Bool.not_eq_true'] at h
  exact h.1.1

mutual
theorem collect_of_ok (nsOf : Nat → Nat) : ∀ (x : Tree) (top : List (Nat × Nat)) (pre : Path) (acc : Acc),
    okRec nsOf top x = true →
      (collectRec nsOf top pre x acc).missing = acc.missing ∧
      (collectRec nsOf top pre x acc).undeclare = acc.undeclare
  | .node v ks, top, pre, acc, hok => by
    by_cases hv : v.isElement = true
    · cases v <;> simp [Value.isElement] at hv
      rename_i name
      simp only [okRec, Bool.and_eq_true] at hok
      obtain ⟨h1, h2⟩ := hok
      have hnu := needsUndeclare_of_ok h1
      have hwt : walkTop nsOf top (.node (.element name) ks) name =
          pushTop top (Tree.node (.element name) ks).nsDecls := by
        simp [walkTop, walkDecls, hnu]
      simp only [collectRec, hwt, hnu, Bool.false_eq_true, if_false]
      obtain ⟨k1, k2⟩ := collectKids_of_ok nsOf ks (pushTop top (Tree.node (.element name) ks).nsDecls) pre 0
        { missing := missOf nsOf (pushTop top (Tree.node (.element name) ks).nsDecls) name
            ((Tree.node (.element name) ks).attrs.map (·.1)) acc.missing
          undeclare := acc.undeclare
          used := acc.used ++ (Tree.node (.element name) ks).nsDecls.map (·.1) } h2
      rw [k1, k2]
      refine ⟨?_, rfl⟩
      unfold elementOkAt at h1
      simp only [Bool.and_eq_true, List.all_eq_true] at h1
      exact missOf_ok _ _ _ _ _ h1.1.2 h1.2
    · have hve : v.isElement = false := by simpa using hv
      rw [okRec_other nsOf top v ks hve] at hok
      rw [collectRec_other nsOf top pre v ks acc hve]
      exact collectKids_of_ok nsOf ks top pre 0 acc hok
theorem collectKids_of_ok (nsOf : Nat → Nat) : ∀ (ks : List Tree) (top : List (Nat × Nat)) (pre : Path) (i : Nat)
    (acc : Acc), okKids nsOf top ks = true →
      (collectKids nsOf top pre i ks acc).missing = acc.missing ∧
      (collectKids nsOf top pre i ks acc).undeclare = acc.undeclare
  | [], _, _, _, _, _ => by simp [collectKids]
  | k :: ks, top, pre, i, acc, hok => by
    simp only [okKids, Bool.and_eq_true] at hok
    simp only [collectKids]
    obtain ⟨a1, a2⟩ := collect_of_ok nsOf k top (pre ++ [i]) acc hok.1
    obtain ⟨b1, b2⟩ := collectKids_of_ok nsOf ks top pre (i + 1) (collectRec nsOf top (pre ++ [i]) k acc) hok.2
    exact ⟨b1.trans a1, b2.trans a2⟩
end

mutual
theorem rebuild_of_ok (nsOf : Nat → Nat) : ∀ (x : Tree) (b : Bool) (top : List (Nat × Nat)),
    okRec nsOf top x = true → rebuild nsOf [] b top x = x
  | .node v ks, b, top, hok => by
    by_cases hv : v.isElement = true
    · cases v <;> simp [Value.isElement] at hv
      rename_i name
      simp only [okRec, Bool.and_eq_true] at hok
      obtain ⟨h1, h2⟩ := hok
      have hnu := needsUndeclare_of_ok h1
      have hwt : walkTop nsOf top (.node (.element name) ks) name =
          pushTop top (Tree.node (.element name) ks).nsDecls := by
        simp [walkTop, walkDecls, hnu]
      simp only [rebuild, hwt, hnu, Bool.false_eq_true, if_false, insertNamespaces, List.foldl_nil,
        rebuildKids_of_ok nsOf ks _ h2, ite_self]
    · have hve : v.isElement = false := by simpa using hv
      rw [okRec_other nsOf top v ks hve] at hok
      rw [rebuild_other nsOf [] b top v ks hve, rebuildKids_of_ok nsOf ks top hok]
      simp [insertNamespaces]
theorem rebuildKids_of_ok (nsOf : Nat → Nat) : ∀ (ks : List Tree) (top : List (Nat × Nat)),
    okKids nsOf top ks = true → rebuildKids nsOf [] top ks = ks
  | [], _, _ => by simp [rebuildKids]
  | k :: ks, top, hok => by
    simp only [okKids, Bool.and_eq_true] at hok
    simp only [rebuildKids, rebuild_of_ok nsOf k false top hok.1, rebuildKids_of_ok nsOf ks top hok.2]
end

/-! ### The `n{counter}` loop -/

/-- The interning tables as `Xot::new` leaves them, as far as the repair needs: the empty prefix
    has id 0. -/
def EnvOk (env : Env) : Prop := env.prefixes.head? = some []

theorem addPrefix_spec (env : Env) (s : Str) :
    (env.addPrefix s).1.names = env.names ∧ (env.addPrefix s).1.namespaces = env.namespaces ∧
    (EnvOk env → EnvOk (env.addPrefix s).1) ∧
    (EnvOk env → s ≠ [] → (env.addPrefix s).2 ≠ Env.emptyPrefix) := by
  unfold Env.addPrefix
  cases h : env.prefixes.findIdx? (· == s) with
  | some i =>
    refine ⟨rfl, rfl, fun h => h, fun hok hs hi => ?_⟩
    simp only [Env.emptyPrefix] at hi
    subst hi
    rw [List.findIdx?_eq_some_iff_getElem] at h
    obtain ⟨hlt, hp, _⟩ := h
    unfold EnvOk at hok
    cases hpf : env.prefixes with
    | nil => simp [hpf] at hlt
    | cons a as =>
      simp only [hpf, List.head?_cons, Option.some.injEq] at hok
      simp only [hpf, List.getElem_cons_zero, beq_iff_eq] at hp
      exact hs (hp.symm.trans hok)
  | none =>
    refine ⟨rfl, rfl, fun hok => ?_, fun hok _ hi => ?_⟩
    · unfold EnvOk at hok ⊢
      cases hpf : env.prefixes with
      | nil => simp [hpf] at hok
      | cons a as => simpa [hpf] using hok
    · unfold EnvOk at hok
      simp only [Env.emptyPrefix] at hi
      cases hpf : env.prefixes with
      | nil => simp [hpf] at hok
      | cons a as => simp [hpf] at hi

theorem generatedPrefixName_ne_nil (c : Nat) : generatedPrefixName c ≠ [] := by
  simp [generatedPrefixName]

theorem freshPrefix_spec (used : List Nat) : ∀ (fuel : Nat) (env : Env) (c : Nat) (env1 : Env) (p c1 : Nat),
    freshPrefix used fuel env c = some (env1, p, c1) →
      p ∉ used ∧ env1.names = env.names ∧ env1.namespaces = env.namespaces ∧
      (EnvOk env → EnvOk env1 ∧ p ≠ Env.emptyPrefix)
  | 0, _, _, _, _, _, h => by simp [freshPrefix] at h
  | fuel + 1, env, c, env1, p, c1, h => by
    obtain ⟨a1, a2, a3, a4⟩ := addPrefix_spec env (generatedPrefixName c)
    simp only [freshPrefix] at h
    split at h
    · rename_i hc
      simp only [Option.some.injEq, Prod.mk.injEq] at h
      obtain ⟨rfl, rfl, _⟩ := h
      exact ⟨by simpa using hc, a1, a2, fun hok => ⟨a3 hok, a4 hok (generatedPrefixName_ne_nil c)⟩⟩
    · obtain ⟨b1, b2, b3, b4⟩ := freshPrefix_spec used fuel _ _ env1 p c1 h
      exact ⟨b1, b2.trans a1, b3.trans a2, fun hok => b4 (a3 hok)⟩

theorem assignPrefixes_spec : ∀ (M : List Nat) (env : Env) (used : List Nat) (c : Nat) (env' : Env)
    (nd : List (Nat × Nat)), assignPrefixes env used c M = some (env', nd) →
      nd.map Prod.snd = M ∧ (keys nd).Nodup ∧ (∀ p ∈ keys nd, p ∉ used) ∧
      env'.names = env.names ∧ env'.namespaces = env.namespaces ∧
      (EnvOk env → EnvOk env' ∧ ∀ d ∈ nd, d.1 ≠ Env.emptyPrefix)
  | [], env, used, c, env', nd, h => by
    simp only [assignPrefixes, Option.some.injEq, Prod.mk.injEq] at h
    obtain ⟨rfl, rfl⟩ := h
    simp [keys]
  | ns :: M, env, used, c, env', nd, h => by
    simp only [assignPrefixes] at h
    cases hf : freshPrefix used (used.length + 1) env c with
    | none => simp [hf] at h
    | some r =>
      obtain ⟨env1, p, c1⟩ := r
      simp only [hf] at h
      cases ha : assignPrefixes env1 (p :: used) c1 M with
      | none => simp [ha] at h
      | some r2 =>
        obtain ⟨env2, l⟩ := r2
        simp only [ha, Option.some.injEq, Prod.mk.injEq] at h
        obtain ⟨rfl, rfl⟩ := h
        obtain ⟨f1, f2, f3, f4⟩ := freshPrefix_spec used _ env c env1 p c1 hf
        obtain ⟨i1, i2, i3, i4, i5, i6⟩ := assignPrefixes_spec M env1 (p :: used) c1 env2 l ha
        refine ⟨by simp [i1], ?_, ?_, i4.trans f2, i5.trans f3, fun hok => ?_⟩
        · simp only [keys, List.map_cons, List.nodup_cons]
          exact ⟨fun hp => i3 p hp (by simp), i2⟩
        · intro q hq
          simp only [keys, List.map_cons, List.mem_cons] at hq
          rcases hq with rfl | hq
          · exact f1
          · exact fun hu => i3 q hq (by simp [hu])
        · obtain ⟨g1, g2⟩ := f4 hok
          obtain ⟨j1, j2⟩ := i6 g1
          refine ⟨j1, fun d hd => ?_⟩
          rcases List.mem_cons.mp hd with rfl | hd
          · exact g2
          · exact j2 d hd

/-- Every namespace the walk recorded got a non-empty prefix. -/
theorem hasNd_of_assign {M : List Nat} {nd : List (Nat × Nat)} (hmap : nd.map Prod.snd = M)
    (hne : ∀ d ∈ nd, d.1 ≠ Env.emptyPrefix) : ∀ ns ∈ M, HasNd nd ns := by
  intro ns hns
  rw [← hmap, List.mem_map] at hns
  obtain ⟨⟨p, n⟩, hd, rfl⟩ := hns
  exact ⟨p, hne _ hd, hd⟩

end XotModel.Repair
