/-
  Round trip: (V) the namespaces of the names the serialiser accepts are interned (`nsInterned`: a
  namespace id out of the table's range cannot be declared in a `nodeOK` tree, so the serialiser finds
  no prefix for it), and (ids) the ID values of the abstract document a tree reads back as are, up to
  order, the values of its `xml:id` attributes (`xmlIdValues`) — for the last clause of `WellNsDoc`.
-/
import XotModel.Lemmas.RoundTripWell

namespace XotModel

variable {env : Env}

/-- The namespaces of an element's name and of its attributes' names are interned. -/
def nsInterned (env : Env) (v : Value) (ks : List Tree) : Bool :=
  match v with
  | .element name =>
    decide (env.nsOfName name < env.namespaces.length) &&
      (kidAttrs ks).all (fun a => decide (env.nsOfName a.1 < env.namespaces.length))
  | _ => true

/-! ### (V) -/

mutual
theorem serNode_nsInterned (he : EnvFacts env) (inScope : List (Nat × Nat)) (n : Tree) (s : FStack)
    (fs : Frames) (sc : Scope) (hrel : ScopeRel env s fs sc) (hn : n.allNodes (nodeOK env) = true)
    (ts : List Token) (h : serNode env false inScope false s n = .ok ts) :
    n.allNodes (nsInterned env) = true := by
  cases n with
  | node v ks =>
    have hkids : ∀ k ∈ ks, k.allNodes (nodeOK env) = true := fun k hk => allNodes_kid hn hk
    rw [allNodes_node, Bool.and_eq_true, List.all_eq_true]
    cases v with
    | element name =>
      obtain ⟨p, ats, content, hcheck, hp, ha, hk, _⟩ := serNode_element_ok env h
      have hnode : nodeOK env (.element name) ks = true := by
        rw [allNodes_node, Bool.and_eq_true] at hn; exact hn.1
      obtain ⟨hord, _, _, _, _⟩ := (nodeOK_iff env _ ks).mp hnode
      have hrel' := hrel.push he (declsOK_of_nodeOK hn)
      refine ⟨?_, serKids_nsInterned he inScope ks _ _ _ hrel' hkids content hk⟩
      simp only [nsInterned, Bool.and_eq_true, decide_eq_true_eq, List.all_eq_true]
      refine ⟨(hrel'.element he hp hcheck).2, ?_⟩
      rw [← attrs_eq_kidAttrs (.element name) ks hord]
      exact attrTokens_ns_lt he hrel' ha
    | document =>
      simp only [serNode] at h
      exact ⟨rfl, serKids_nsInterned he inScope ks s fs sc hrel hkids ts h⟩
    | «attribute» a b =>
      simp only [serNode] at h
      exact ⟨rfl, serKids_nsInterned he inScope ks s fs sc hrel hkids ts h⟩
    | «namespace» a b =>
      simp only [serNode] at h
      exact ⟨rfl, serKids_nsInterned he inScope ks s fs sc hrel hkids ts h⟩
    | text str =>
      simp only [serNode] at h
      obtain ⟨x, y, _, hy, _⟩ := appendOk_ok h
      exact ⟨rfl, serKids_nsInterned he inScope ks s fs sc hrel hkids y hy⟩
    | comment str =>
      simp only [serNode] at h
      obtain ⟨x, y, _, hy, _⟩ := appendOk_ok h
      exact ⟨rfl, serKids_nsInterned he inScope ks s fs sc hrel hkids y hy⟩
    | pi target data =>
      rw [serNode] at h
      split at h
      · cases h
      · obtain ⟨x, y, _, hy, _⟩ := appendOk_ok h
        exact ⟨rfl, serKids_nsInterned he inScope ks s fs sc hrel hkids y hy⟩

theorem serKids_nsInterned (he : EnvFacts env) (inScope : List (Nat × Nat)) (ks : List Tree) (s : FStack)
    (fs : Frames) (sc : Scope) (hrel : ScopeRel env s fs sc) (hn : ∀ k ∈ ks, k.allNodes (nodeOK env) = true)
    (ts : List Token) (h : serNode.serKids env false inScope s ks = .ok ts) :
    ∀ k ∈ ks, k.allNodes (nsInterned env) = true := by
  cases ks with
  | nil => intro k hk; cases hk
  | cons k ks =>
    obtain ⟨x, y, hx, hy, _⟩ := serKids_cons_ok env h
    intro k' hk'
    rcases List.mem_cons.mp hk' with heq | hk'
    · rw [heq]
      exact serNode_nsInterned he inScope k s fs sc hrel (hn k (by simp)) x hx
    · exact serKids_nsInterned he inScope ks s fs sc hrel (fun k2 hk2 => hn k2 (by simp [hk2])) y hy k' hk'
end

/-! ### (ids) -/

/-- The ID values one item of a child list contributes. -/
def NItem.ids : NItem → List Str
  | .decl _ => []
  | .attr a => attrIds [a]
  | .node d => d.ids

theorem attrIds_cons (a : (Str × Str) × Str) (as : List ((Str × Str) × Str)) :
    attrIds (a :: as) = attrIds [a] ++ attrIds as := by
  simp only [attrIds, List.filter_cons]
  split <;> simp

theorem ids_split : ∀ (items : List NItem),
    (attrIds (items.filterMap NItem.attr?) ++ NPNode.ids.idsList (items.filterMap NItem.node?)).Perm
      (items.flatMap NItem.ids)
  | [] => by simp [attrIds, NPNode.ids.idsList]
  | .decl d :: items => by
    simpa [List.filterMap_cons, NItem.attr?, NItem.node?, List.flatMap_cons, NItem.ids] using ids_split items
  | .attr a :: items => by
    simp only [List.filterMap_cons, NItem.attr?, NItem.node?, List.flatMap_cons, NItem.ids]
    rw [attrIds_cons, List.append_assoc]
    exact List.Perm.append_left _ (ids_split items)
  | .node d :: items => by
    simp only [List.filterMap_cons, NItem.attr?, NItem.node?, List.flatMap_cons, NItem.ids, NPNode.ids.idsList]
    rw [← List.append_assoc]
    refine List.Perm.trans (List.Perm.append_right _ List.perm_append_comm) ?_
    rw [List.append_assoc]
    exact List.Perm.append_left _ (ids_split items)

/-- `xml:id` by expanded name, as strings and as ids. -/
theorem isXmlId_iff (he : EnvFacts env) {name : Nat} (hns : env.nsOfName name < env.namespaces.length) :
    (env.expanded name == (xmlNsUri, ['i', 'd'])) = isXmlIdName env name := by
  rw [Bool.eq_iff_iff]
  simp only [beq_iff_eq, Env.expanded, Prod.mk.injEq, isXmlIdName, Bool.and_eq_true]
  constructor
  · rintro ⟨h1, h2⟩
    exact ⟨he.namespaceStr_inj hns he.xmlNamespace_lt (by rw [h1, he.ns1]), h2⟩
  · rintro ⟨h1, h2⟩
    exact ⟨by rw [h1, he.ns1], h2⟩

theorem decodeItems_cons_some {k : Tree} {ks : List Tree} {items : List NItem}
    (h : decodeNsTree.decodeItems env (k :: ks) = some items) :
    ∃ a as, decodeNsTree env k = some a ∧ decodeNsTree.decodeItems env ks = some as ∧ items = a :: as := by
  simp only [decodeNsTree.decodeItems] at h
  cases hk : decodeNsTree env k with
  | none => simp [hk] at h
  | some a =>
    cases hks : decodeNsTree.decodeItems env ks with
    | none => simp [hk, hks] at h
    | some as =>
      simp only [hk, hks, Option.some.injEq] at h
      exact ⟨a, as, rfl, rfl, h.symm⟩

theorem idsList_cons (env : Env) (k : Tree) (ks : List Tree) :
    xmlIdValues.idsList env (k :: ks) = xmlIdValues env k ++ xmlIdValues.idsList env ks := rfl

mutual
theorem decode_ids_node (he : EnvFacts env) (n : Tree) (item : NItem) (hd : decodeNsTree env n = some item)
    (hv : n.allNodes (nsInterned env) = true) (hna : ∀ name v, n.value ≠ .attribute name v) :
    item.ids.Perm (xmlIdValues env n) := by
  cases n with
  | node v ks =>
    cases v with
    | document => simp [decodeNsTree] at hd
    | «attribute» a b => exact absurd rfl (hna a b)
    | «namespace» a b =>
      cases ks with
      | nil =>
        simp only [decodeNsTree, Option.some.injEq] at hd
        subst hd
        simp [NItem.ids, xmlIdValues, xmlIdValues.idsList]
      | cons k ks => simp [decodeNsTree] at hd
    | text str =>
      cases ks with
      | nil =>
        simp only [decodeNsTree, Option.some.injEq] at hd
        subst hd
        simp [NItem.ids, NPNode.ids, xmlIdValues, xmlIdValues.idsList]
      | cons k ks => simp [decodeNsTree] at hd
    | comment str =>
      cases ks with
      | nil =>
        simp only [decodeNsTree, Option.some.injEq] at hd
        subst hd
        simp [NItem.ids, NPNode.ids, xmlIdValues, xmlIdValues.idsList]
      | cons k ks => simp [decodeNsTree] at hd
    | pi target data =>
      cases ks with
      | nil =>
        simp only [decodeNsTree, Option.some.injEq] at hd
        subst hd
        simp [NItem.ids, NPNode.ids, xmlIdValues, xmlIdValues.idsList]
      | cons k ks => simp [decodeNsTree] at hd
    | element name =>
      simp only [decodeNsTree] at hd
      cases hitems : decodeNsTree.decodeItems env ks with
      | none => simp [hitems] at hd
      | some items =>
        simp only [hitems, Option.some.injEq] at hd
        subst hd
        rw [allNodes_node, Bool.and_eq_true, List.all_eq_true] at hv
        have hattr : ∀ a ∈ kidAttrs ks, env.nsOfName a.1 < env.namespaces.length := by
          have := hv.1
          simp only [nsInterned, Bool.and_eq_true, decide_eq_true_eq, List.all_eq_true] at this
          exact this.2
        have hk := decode_ids_kids he ks items hitems hv.2 hattr
        simp only [NItem.ids, NPNode.ids, xmlIdValues, List.nil_append]
        exact (ids_split items).trans hk

theorem decode_ids_kids (he : EnvFacts env) (ks : List Tree) (items : List NItem)
    (hd : decodeNsTree.decodeItems env ks = some items) (hv : ∀ k ∈ ks, k.allNodes (nsInterned env) = true)
    (hattr : ∀ a ∈ kidAttrs ks, env.nsOfName a.1 < env.namespaces.length) :
    (items.flatMap NItem.ids).Perm (xmlIdValues.idsList env ks) := by
  cases ks with
  | nil =>
    simp only [decodeNsTree.decodeItems, Option.some.injEq] at hd
    subst hd
    exact List.Perm.refl _
  | cons k ks =>
    obtain ⟨a, as, hk, hks, rfl⟩ := decodeItems_cons_some hd
    have hattr' : ∀ a ∈ kidAttrs ks, env.nsOfName a.1 < env.namespaces.length := fun a' ha' =>
      hattr a' (by simp only [kidAttrs, List.filterMap_cons] at ha' ⊢; split <;> simp [ha'])
    have ih := decode_ids_kids he ks as hks (fun k' hk' => hv k' (by simp [hk'])) hattr'
    rw [List.flatMap_cons, idsList_cons]
    refine List.Perm.append ?_ ih
    cases k with
    | node v kk =>
      by_cases hav : ∃ name val, v = .attribute name val
      · obtain ⟨name, val, rfl⟩ := hav
        cases kk with
        | cons k2 kk2 => simp [decodeNsTree] at hk
        | nil =>
          simp only [decodeNsTree, Option.some.injEq] at hk
          subst hk
          have hlt : env.nsOfName name < env.namespaces.length :=
            hattr (name, val) (by simp [kidAttrs, attrPair, Tree.value])
          simp only [NItem.ids, attrIds, xmlIdValues, xmlIdValues.idsList, List.append_nil, List.filter_cons,
            List.filter_nil, isXmlId_iff he hlt]
          split <;> simp
      · exact decode_ids_node he (.node v kk) a hk (hv _ (by simp))
          (fun name val hh => hav ⟨name, val, hh⟩)
end

end XotModel
