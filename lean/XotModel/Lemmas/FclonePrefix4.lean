/-
  Lemmas for C12, part 21 (clone_with_prefixes serialises): going down from a root to the source
  with the serializer (`writable_descend`), and the chain conditions that structural validity
  gives (`chainOK_of_valid`).
-/
import XotModel.Lemmas.FclonePrefix3
import XotModel.Lemmas.FcloneNode

namespace XotModel
open HTree

mutual
  theorem pathTo_head (h : Nat) : ∀ (t : HTree) (l : List HTree), HTree.pathTo h t = some l →
      ∃ sub rest, l = sub :: rest ∧ sub.handle = h
    | .node h' v ks, l => by
      intro hl
      unfold HTree.pathTo at hl
      by_cases e : h' = h
      · rw [if_pos e] at hl
        cases hl
        exact ⟨_, [], rfl, e⟩
      · rw [if_neg e] at hl
        cases hp : HTree.pathToList h ks with
        | none => rw [hp] at hl; cases hl
        | some l' =>
          rw [hp] at hl
          cases hl
          obtain ⟨sub, rest, rfl, hs⟩ := pathToList_head h ks l' hp
          exact ⟨sub, rest ++ [_], rfl, hs⟩
  theorem pathToList_head (h : Nat) : ∀ (ks : List HTree) (l : List HTree),
      HTree.pathToList h ks = some l → ∃ sub rest, l = sub :: rest ∧ sub.handle = h
    | [], l => by intro hl; simp [HTree.pathToList] at hl
    | k :: ks, l => by
      intro hl
      unfold HTree.pathToList at hl
      cases hp : HTree.pathTo h k with
      | some l' =>
        rw [hp] at hl
        cases hl
        exact pathTo_head h k _ hp
      | none =>
        rw [hp] at hl
        exact pathToList_head h ks l hl
end

theorem stackAlong_singleton (L : List (Nat × Nat)) (s : FStack) (t : Tree) (hs : s.top = L) :
    stackAlong L [t] = if t.value.isElement then (s.push t.nsDecls).top else s.top := by
  simp only [stackAlong]
  split
  · rw [push_top, hs]
  · rw [hs]

mutual
  /-- Serialising `t` with the stack `s` reaches the node `h` with the stack `stackAlong`. -/
  theorem writable_descend (env : Env) (h : Nat) : ∀ (t : HTree) (s : FStack) (sub : HTree)
      (rest : List HTree), writableTree env s t.erase = true →
      HTree.pathTo h t = some (sub :: rest) →
      ∃ s', writableTree env s' sub.erase = true ∧ s'.top = stackAlong s.top (rest.map erase)
    | .node h' v ks, s, sub, rest, hw, hp => by
      unfold HTree.pathTo at hp
      by_cases e : h' = h
      · rw [if_pos e] at hp
        cases hp
        exact ⟨s, hw, rfl⟩
      · rw [if_neg e] at hp
        cases hpl : HTree.pathToList h ks with
        | none => rw [hpl] at hp; cases hp
        | some l =>
          rw [hpl] at hp
          obtain ⟨sub', rest', rfl, _⟩ := pathToList_head h ks l hpl
          simp only [List.cons_append, Option.some.injEq, List.cons.injEq] at hp
          obtain ⟨rfl, rfl⟩ := hp
          -- the stack with which the children are serialised
          have key : ∃ s1 : FStack, writableList env s1 (eraseList ks) = true ∧
              s1.top = stackAlong s.top [erase (.node h' v ks)] := by
            simp only [erase] at hw
            cases v with
            | element name =>
              simp only [writableTree, Bool.and_eq_true] at hw
              exact ⟨_, hw.2, by simp [stackAlong, erase, Tree.value, Value.isElement, push_top]⟩
            | pi t d =>
              simp only [writableTree, Bool.and_eq_true] at hw
              exact ⟨s, hw.2, by simp [stackAlong, erase, Tree.value, Value.isElement]⟩
            | document => exact ⟨s, by simpa [writableTree] using hw, by simp [stackAlong, erase, Tree.value, Value.isElement]⟩
            | text x => exact ⟨s, by simpa [writableTree] using hw, by simp [stackAlong, erase, Tree.value, Value.isElement]⟩
            | comment x => exact ⟨s, by simpa [writableTree] using hw, by simp [stackAlong, erase, Tree.value, Value.isElement]⟩
            | «attribute» a x => exact ⟨s, by simpa [writableTree] using hw, by simp [stackAlong, erase, Tree.value, Value.isElement]⟩
            | «namespace» a x => exact ⟨s, by simpa [writableTree] using hw, by simp [stackAlong, erase, Tree.value, Value.isElement]⟩
          obtain ⟨s1, hw1, ht1⟩ := key
          obtain ⟨s', hw', ht'⟩ := writableList_descend env h ks s1 sub' rest' hw1 hpl
          refine ⟨s', hw', ?_⟩
          rw [ht', ht1, List.map_append, stackAlong_append]
          rfl
  theorem writableList_descend (env : Env) (h : Nat) : ∀ (ks : List HTree) (s : FStack) (sub : HTree)
      (rest : List HTree), writableList env s (eraseList ks) = true →
      HTree.pathToList h ks = some (sub :: rest) →
      ∃ s', writableTree env s' sub.erase = true ∧ s'.top = stackAlong s.top (rest.map erase)
    | [], _, _, _, _, hp => by simp [HTree.pathToList] at hp
    | k :: ks, s, sub, rest, hw, hp => by
      simp only [eraseList, writableList, Bool.and_eq_true] at hw
      unfold HTree.pathToList at hp
      cases hk : HTree.pathTo h k with
      | some l =>
        rw [hk] at hp
        cases hp
        exact writable_descend env h k s sub rest hw.1 hk
      | none =>
        rw [hk] at hp
        exact writableList_descend env h ks s sub rest hw.2 hp
end

mutual
  /-- The path ends at the tree it was computed in, and consists of valid subtrees. -/
  theorem pathTo_props (b : Bool) (h : Nat) : ∀ (t : HTree) (l : List HTree), validTree b t = true →
      HTree.pathTo h t = some l → l.getLast? = some t ∧ ∀ x ∈ l, validTree b x = true
    | .node h' v ks, l => by
      intro hv hl
      unfold HTree.pathTo at hl
      by_cases e : h' = h
      · rw [if_pos e] at hl
        cases hl
        exact ⟨rfl, fun x hx => by simp at hx; subst hx; exact hv⟩
      · rw [if_neg e] at hl
        cases hp : HTree.pathToList h ks with
        | none => rw [hp] at hl; cases hl
        | some l' =>
          rw [hp] at hl
          cases hl
          have ih := pathToList_props b h ks l' (validTree_kids b h' v ks hv) hp
          refine ⟨by simp, ?_⟩
          intro x hx
          rcases List.mem_append.mp hx with h1 | h1
          · exact ih x h1
          · simp at h1; subst h1; exact hv
  theorem pathToList_props (b : Bool) (h : Nat) : ∀ (ks : List HTree) (l : List HTree),
      validList b ks = true → HTree.pathToList h ks = some l → ∀ x ∈ l, validTree b x = true
    | [], l => by intro _ hl; simp [HTree.pathToList] at hl
    | k :: ks, l => by
      intro hv hl
      obtain ⟨h1, h2⟩ := fc_validList_cons b k ks hv
      unfold HTree.pathToList at hl
      cases hp : HTree.pathTo h k with
      | some l' =>
        rw [hp] at hl
        cases hl
        exact (pathTo_props b h k _ h1 hp).2
      | none =>
        rw [hp] at hl
        exact pathToList_props b h ks l h2 hl
end

/-! #### declarations of a valid node -/

/-- The declaration carried by a namespace node. -/
def fcNsPair : Value → Option (Nat × Nat)
  | .namespace p n => some (p, n)
  | _ => none

theorem nsDecls_eq (t : Tree) : t.nsDecls = t.namespaceNodes.filterMap (fun k => fcNsPair k.value) := by
  unfold Tree.nsDecls
  congr 1

/-- The declarations of a node in terms of its children with handles. -/
def fcDeclsOfKids (ks : List HTree) : List (Nat × Nat) :=
  (ks.takeWhile (fun k => k.value.category == .namespace)).filterMap (fun k => fcNsPair k.value)

theorem erase_value' (t : HTree) : (erase t).value = t.value := by
  cases t; rfl

theorem nsDecls_erase (h : Nat) (v : Value) (ks : List HTree) :
    (erase (.node h v ks)).nsDecls = fcDeclsOfKids ks := by
  rw [nsDecls_eq]
  simp only [erase, Tree.namespaceNodes, Tree.kids, fcDeclsOfKids]
  induction ks with
  | nil => rfl
  | cons k ks ih =>
    simp only [eraseList, List.takeWhile_cons, erase_value']
    by_cases hc : (k.value.category == Category.namespace) = true
    · simp only [hc, if_true, List.filterMap_cons, erase_value', ih]
    · simp only [hc, Bool.false_eq_true, if_false]
      rfl

theorem takeWhile_sublist_filter {α} (p : α → Bool) : ∀ l : List α, (l.takeWhile p).Sublist (l.filter p)
  | [] => List.Sublist.refl _
  | a :: l => by
    rw [List.takeWhile_cons, List.filter_cons]
    split
    · exact List.Sublist.cons₂ _ (takeWhile_sublist_filter p l)
    · exact List.nil_sublist _

theorem declsOfKids_keys (ks : List HTree) :
    (fcDeclsOfKids ks).map (·.1) =
      (ks.takeWhile (fun k => k.value.category == .namespace)).map (fun k => Forest.entryKey k.value) := by
  unfold fcDeclsOfKids
  induction ks with
  | nil => rfl
  | cons k ks ih =>
    rw [List.takeWhile_cons]
    split
    · rename_i hc
      cases k with
      | node hk vk kk =>
        cases vk <;> simp_all [HTree.value, Value.category, Forest.entryKey, fcNsPair]
    · rfl

/-- What `ChainOK` asks of one tree follows from structural validity. -/
theorem chainOK_of_valid (b : Bool) (l : List HTree) (hv : ∀ x ∈ l, validTree b x = true) :
    ChainOK (l.map erase) := by
  intro a ha
  obtain ⟨x, hx, rfl⟩ := List.mem_map.mp ha
  have hvx := hv x hx
  cases x with
  | node h v ks =>
    rw [nsDecls_erase]
    refine ⟨?_, ?_⟩
    · intro hne
      have hne' : v.isElement = false := by simpa [erase, Tree.value] using hne
      simp only [validTree, Bool.and_eq_true, List.all_eq_true] at hvx
      have hall := hvx.1.1.1.1.1
      unfold fcDeclsOfKids
      cases ks with
      | nil => rfl
      | cons k ks =>
        have hk := hall k (by simp)
        have : (k.value.category == Category.namespace) = false := by
          cases v <;> simp_all [kidAllowed, Value.isElement, Value.isNormal]
        simp [List.takeWhile_cons, this]
    · rw [declsOfKids_keys]
      simp only [validTree, Bool.and_eq_true] at hvx
      have hk := hvx.1.1.2
      unfold keysUnique at hk
      simp only [decide_eq_true_eq] at hk
      exact List.Nodup.sublist ((takeWhile_sublist_filter _ ks).map _) hk

end XotModel
