/-
  XotModel.Lemmas.LexDelimsWitness — a REJECTED text whose tokens carry every delimiter clause of
  `Token.Delims` / `TextAdj` (used by the non-vacuity example of C17_token_delims_document).
-/
import XotModel.Lemmas.LexDelimsLoop
import XotModel.Lemmas.LexCanon

namespace XotModel.Witness

/-- `<a><!--k--><?pi d?>x</b>`: well-formed for the tokenizer, refused by the builder (the end tag names `b`). -/
def delimsRejected : List Token :=
  [.elementStart ⟨[], 0⟩ ⟨['a'], 0⟩ ⟨[], 0⟩, .elementEnd .open ⟨[], 0⟩, .comment ⟨['k'], 0⟩ ⟨[], 0⟩,
   .pi ⟨['p', 'i'], 0⟩ (some ⟨['d'], 0⟩) ⟨[], 0⟩, .text ⟨['x'], 0⟩,
   .elementEnd (.close ⟨[], 0⟩ ⟨['b'], 0⟩) ⟨[], 0⟩]

end XotModel.Witness
