/-
  FframeGeneralCwp — the `get?`-form frame of `clone_with_prefixes`: `clone_node` (the old trees stay) followed by
  namespace insertions on the NEW element: no node that was live before is written.
-/
import XotModel.Lemmas.FframeGeneralMore
import XotModel.Lemmas.FhistExt

namespace XotModel
open HTree Spec PairAll
open Forest (MapKind)

/-- What the loop keeps: the old node `z` is live, is not the clone and not a child of the clone. -/
structure CwpInv (f : Forest) (c z : Nat) : Prop where
  inv : f.Inv
  elem : f.isElement c = true
  live : f.isLive z = true
  ne : z ≠ c
  kid : z ∉ f.kidHandles c

theorem get_node_of_isElement {f : Forest} {c : Nat} (he : f.isElement c = true) :
    ∃ v ks, f.get? c = some (.node c v ks) ∧ v.isElement = true := by
  unfold Forest.isElement Forest.value? at he
  cases hg : f.get? c with
  | none => rw [hg] at he; simp at he
  | some t =>
    have hth : t.handle = c := (findList?_some f.roots t hg).1
    cases t with
    | node h v ks =>
      have : h = c := hth
      subst this
      rw [hg] at he
      refine ⟨v, ks, rfl, ?_⟩
      simpa using he

theorem cwp_step {f : Forest} {c z : Nat} (I : CwpInv f c z) (p ns : Nat) :
    CwpInv (f.mapInsert .namespaces c (.namespace p ns)).1 c z ∧
      GetFrame f (f.mapInsert .namespaces c (.namespace p ns)).1 z := by
  have hm : MapKind.namespaces.matches (.namespace p ns) = true := rfl
  have hent : z ∉ f.entryHandles .namespaces c := by
    intro h
    apply I.kid
    unfold Forest.entryHandles at h
    unfold Forest.kidHandles
    cases hg : f.get? c with
    | none => rw [hg] at h; cases h
    | some t =>
      rw [hg] at h
      obtain ⟨k, hk, e⟩ := List.mem_map.1 h
      exact List.mem_map.2 ⟨k, (List.mem_filter.1 hk).1, e⟩
  have gf := getFrame_mapInsert I.inv I.elem hm I.ne hent
  refine ⟨⟨Fmap.mapInsert_inv f I.inv .namespaces c _ I.elem hm, ?_, (gf.frameAt I.live).live, I.ne, ?_⟩, gf⟩
  · obtain ⟨v, ks, hg, hv⟩ := get_node_of_isElement I.elem
    obtain ⟨k1, k2⟩ := mapInsert_kids (k := .namespaces) (entry := .namespace p ns) I.inv I.elem hm hg
    cases hf : ks.find? (isEntry .namespaces (Forest.entryKey (.namespace p ns))) with
    | some n =>
      obtain ⟨X, Y, _, _, h3, _⟩ := k1 n hf
      unfold Forest.isElement Forest.value?
      rw [h3]
      simpa using hv
    | none =>
      obtain ⟨A, B, _, _, _, h3, _⟩ := k2 hf
      unfold Forest.isElement Forest.value?
      rw [h3]
      simpa using hv
  · obtain ⟨v, ks, hg, hv⟩ := get_node_of_isElement I.elem
    have hzn : z ≠ f.next := by
      obtain ⟨u, hu⟩ := Forest.get_of_live I.live
      intro e
      exact Nat.lt_irrefl _ (e ▸ I.inv.below _ (mem_of_findList?_some hu))
    have hkid : z ∉ ks.map (·.handle) := by
      have := I.kid
      unfold Forest.kidHandles at this
      rw [hg] at this
      exact this
    obtain ⟨k1, k2⟩ := mapInsert_kids (k := .namespaces) (entry := .namespace p ns) I.inv I.elem hm hg
    cases hf : ks.find? (isEntry .namespaces (Forest.entryKey (.namespace p ns))) with
    | some n =>
      obtain ⟨X, Y, e1, _, h3, _⟩ := k1 n hf
      unfold Forest.kidHandles
      rw [h3]
      intro hin
      apply hkid
      rw [e1]
      simp only [HTree.kids, List.map_append, List.map_cons, List.mem_append, List.mem_cons] at hin ⊢
      rcases hin with h | h | h
      · exact Or.inl h
      · refine Or.inr (Or.inl ?_)
        cases n with
        | node nh nv nks => exact h
      · exact Or.inr (Or.inr h)
    | none =>
      obtain ⟨A, B, e1, _, _, h3, _⟩ := k2 hf
      unfold Forest.kidHandles
      rw [h3]
      intro hin
      apply hkid
      rw [e1]
      simp only [HTree.kids, List.map_append, List.map_cons, List.mem_append, List.mem_cons] at hin ⊢
      rcases hin with h | h | h
      · exact Or.inl h
      · exact absurd h hzn
      · exact Or.inr h

theorem getFrame_addPrefixes {c z : Nat} : ∀ (order : List (Nat × Nat)) (f : Forest), CwpInv f c z →
    GetFrame f (f.addPrefixes c order).1 z
  | [], f, _ => GetFrame.refl f z
  | (p, ns) :: rest, f, I => by
    unfold Forest.addPrefixes
    split
    · exact getFrame_addPrefixes rest f I
    · obtain ⟨I', gf⟩ := cwp_step I p ns
      have hm : MapKind.namespaces.matches (.namespace p ns) = true := rfl
      have e := mapInsert_spec (k := .namespaces) (entry := .namespace p ns) I.inv I.elem hm
      rw [e] at I' gf ⊢
      simp only
      exact gf.trans (getFrame_addPrefixes rest _ I')

theorem getFrame_cloneWithPrefixes {f : Forest} {n : Nat} {src : HTree} (inv : f.Inv) (env : Env)
    (hsrc : f.get? n = some src) (order : List (Nat × Nat)) {z : Nat} (hzl : f.isLive z = true) :
    GetFrame f (f.cloneWithPrefixes n order).1 z := by
  have g1 := getFrame_cloneNode inv hsrc z
  obtain ⟨c, C, h1, h2, h3, _, h5, _⟩ := cloneNode_spec' inv hsrc
  have inv1 : (f.cloneNode n).1.Inv :=
    Store.xstep_inv (s := ⟨f, env⟩) inv (.call (.cloneNode n)) trivial
  unfold Forest.cloneWithPrefixes
  cases hcn : f.cloneNode n with
  | mk f1 oc =>
    rw [hcn] at g1 h1 h3 inv1
    simp only at g1 h1 h3 inv1
    subst h1
    simp only
    split
    · rename_i he
      have hz : z < f.next := by
        obtain ⟨u, hu⟩ := Forest.get_of_live hzl
        exact inv.below _ (mem_of_findList?_some hu)
      have hcC : c ∈ handles C := h2 ▸ fs_handle_mem_handles C
      have hne : z ≠ c := by
        intro e
        have := (h5 c hcC).1
        omega
      have hgc : f1.get? c = some C := by
        show findList? c f1.roots = some C
        rw [h3, findList?_append, (findList?_none_iff _ _).2 (h5 c hcC).2.2, findList?_cons]
        cases C with
        | node ch cv cks =>
          have : ch = c := h2
          subst this
          rw [find?_node, if_pos rfl]; rfl
      have hkid : z ∉ f1.kidHandles c := by
        unfold Forest.kidHandles
        rw [hgc]
        intro hin
        obtain ⟨k, hk, e⟩ := List.mem_map.1 hin
        cases C with
        | node ch cv cks =>
          have hkin : k.handle ∈ handles (HTree.node ch cv cks) := by
            rw [handles_node]
            exact List.mem_cons_of_mem _ (handles_sub_of_mem hk _ (fs_handle_mem_handles k))
          have := (h5 _ hkin).1
          omega
      have I : CwpInv f1 c z := ⟨inv1, he, (g1.frameAt hzl).live, hne, hkid⟩
      have g2 := getFrame_addPrefixes order f1 I
      revert g2
      generalize f1.addPrefixes c order = res
      intro g2
      obtain ⟨f2, r⟩ := res
      cases r <;> exact g1.trans g2
    · exact g1

end XotModel
