/-
  Forest-level interface for the C06 proofs: liveness, parent, children, ancestors and roots,
  under the weak invariant `Forest.W` (handles distinct, only elements and documents have
  children), which every intermediate state of a manipulation satisfies.
-/
import XotModel.Lemmas.FatomCtx

namespace XotModel
open HTree

/-! ### Lists of roots -/

theorem rootsParent_mem (h : Nat) : ∀ (rs : List HTree) (q : Nat),
    rs.findSome? (parentBelow h) = some q → h ∈ handlesList rs ∧ q ∈ handlesList rs
  | [], q => by simp
  | r :: rs, q => by
    rw [List.findSome?_cons]
    unfold handlesList
    cases hc : parentBelow h r with
    | some q' =>
      simp only [Option.some.injEq]; intro e; subst e
      have := parentBelow_mem h r q' hc
      refine ⟨List.mem_append_left _ ?_, List.mem_append_left _ this.2⟩
      rw [handles_eq]; exact List.mem_cons_of_mem _ this.1
    | none =>
      simp only; intro e
      have := rootsParent_mem h rs q e
      exact ⟨List.mem_append_right _ this.1, List.mem_append_right _ this.2⟩

theorem rootsParent_none_of_not_mem {h : Nat} : ∀ {rs : List HTree}, h ∉ handlesList rs →
    rs.findSome? (parentBelow h) = none
  | [], _ => by simp
  | r :: rs, hm => by
    unfold handlesList at hm
    rw [List.findSome?_cons, parentBelow_none_of_not_mem (fun h' => hm (List.mem_append_left _ h'))]
    exact rootsParent_none_of_not_mem (fun h' => hm (List.mem_append_right _ h'))

theorem rootsCtx_spec (h : Nat) : ∀ (rs : List HTree) (c : Ctx), (handlesList rs).Nodup →
    rs.findSome? (ctxBelow h) = some c →
    (∃ v, findList? c.parent rs = some (.node c.parent v (c.left ++ c.self :: c.right))) ∧
      c.self.handle = h
  | [], c => by simp
  | r :: rs, c => by
    intro hn
    unfold handlesList at hn
    have hna := List.nodup_append.1 hn
    rw [List.findSome?_cons]
    cases hc : ctxBelow h r with
    | some c' =>
      simp only [Option.some.injEq]; intro e; subst e
      obtain ⟨⟨v, hf⟩, hh⟩ := ctxBelow_spec h r c' hna.1 hc
      exact ⟨⟨v, by unfold findList?; rw [hf]⟩, hh⟩
    | none =>
      simp only; intro e
      obtain ⟨⟨v, hf⟩, hh⟩ := rootsCtx_spec h rs c hna.2.1 e
      refine ⟨⟨v, ?_⟩, hh⟩
      have hm : c.parent ∈ handlesList rs := findList?_some_mem hf
      have hnk : c.parent ∉ handles r := fun h' => hna.2.2 _ h' _ hm rfl
      unfold findList?
      rw [(find?_none_iff _ _).2 hnk]; exact hf

theorem rootsKid (p : Nat) : ∀ (rs : List HTree) (t k : HTree), (handlesList rs).Nodup →
    findList? p rs = some t → k ∈ t.kids →
    findList? k.handle rs = some k ∧ rs.findSome? (parentBelow k.handle) = some p
  | [], t, k => by simp [findList?]
  | r :: rs, t, k => by
    intro hn
    unfold handlesList at hn
    have hna := List.nodup_append.1 hn
    unfold findList?
    rw [List.findSome?_cons]
    cases hf : find? p r with
    | some t' =>
      simp only [Option.some.injEq]; intro e; subst e
      intro hk
      have := find?_kid p r t' k hna.1 hf hk
      rw [this.1, this.2]; exact ⟨rfl, rfl⟩
    | none =>
      simp only; intro e hk
      have := rootsKid p rs t k hna.2.1 e hk
      have hkm : k.handle ∈ handlesList rs := findList?_some_mem this.1
      have hnk : k.handle ∉ handles r := fun h' => hna.2.2 _ h' _ hkm rfl
      rw [(find?_none_iff _ _).2 hnk, parentBelow_none_of_not_mem hnk]
      exact this

theorem rootsAnc_step (h : Nat) : ∀ (rs : List HTree) (q : Nat), (handlesList rs).Nodup →
    rs.findSome? (parentBelow h) = some q →
    ∃ l, rs.findSome? (ancestorsOf q) = some l ∧ rs.findSome? (ancestorsOf h) = some (h :: l)
  | [], q => by simp
  | r :: rs, q => by
    intro hn
    unfold handlesList at hn
    have hna := List.nodup_append.1 hn
    rw [List.findSome?_cons]
    cases hc : parentBelow h r with
    | some q' =>
      simp only [Option.some.injEq]; intro e; subst e
      obtain ⟨l, h1, h2⟩ := ancestorsOf_step h r q' hna.1 hc
      exact ⟨l, by rw [List.findSome?_cons, h1], by rw [List.findSome?_cons, h2]⟩
    | none =>
      simp only; intro e
      obtain ⟨l, h1, h2⟩ := rootsAnc_step h rs q hna.2.1 e
      have hm := rootsParent_mem h rs q e
      have hh : h ∉ handles r := fun h' => hna.2.2 _ h' _ hm.1 rfl
      have hq : q ∉ handles r := fun h' => hna.2.2 _ h' _ hm.2 rfl
      exact ⟨l, by rw [List.findSome?_cons, (ancestorsOf_none_iff _ _).2 hq]; exact h1,
        by rw [List.findSome?_cons, (ancestorsOf_none_iff _ _).2 hh]; exact h2⟩

theorem rootsAnc_root (h : Nat) : ∀ (rs : List HTree), h ∈ handlesList rs →
    rs.findSome? (parentBelow h) = none →
    rs.findSome? (ancestorsOf h) = some [h] ∧ rs.any (fun r => r.handle = h) = true
  | [] => by simp [handlesList]
  | r :: rs => by
    unfold handlesList
    intro hm
    rw [List.findSome?_cons]
    cases hc : parentBelow h r with
    | some q' => simp
    | none =>
      simp only; intro e
      by_cases hr : h ∈ handles r
      · rw [handles_eq] at hr
        rcases List.mem_cons.1 hr with e' | e'
        · subst e'
          rw [List.findSome?_cons, ancestorsOf_self]
          simp
        · exact absurd e' (parentBelow_none h r hc)
      · have hm' : h ∈ handlesList rs := by
          rcases List.mem_append.1 hm with h' | h'
          · exact absurd h' hr
          · exact h'
        have := rootsAnc_root h rs hm' e
        rw [List.findSome?_cons, (ancestorsOf_none_iff _ _).2 hr]
        refine ⟨this.1, ?_⟩
        rw [List.any_cons, this.2, Bool.or_true]

theorem rootsAnc_dead {h : Nat} : ∀ {rs : List HTree}, h ∉ handlesList rs →
    rs.findSome? (ancestorsOf h) = none
  | [], _ => by simp
  | r :: rs, hm => by
    unfold handlesList at hm
    rw [List.findSome?_cons, (ancestorsOf_none_iff _ _).2 (fun h' => hm (List.mem_append_left _ h'))]
    exact rootsAnc_dead (fun h' => hm (List.mem_append_right _ h'))

theorem rootsAny_mem {h : Nat} : ∀ {rs : List HTree}, rs.any (fun r => r.handle = h) = true →
    h ∈ handlesList rs
  | [], e => by simp at e
  | r :: rs, e => by
    unfold handlesList
    rw [List.any_cons, Bool.or_eq_true] at e
    rcases e with e | e
    · simp only [decide_eq_true_eq] at e
      exact List.mem_append_left _ (e ▸ handle_mem_handles r)
    · exact List.mem_append_right _ (rootsAny_mem e)

theorem rootsRoot_noParent (h : Nat) : ∀ (rs : List HTree), (handlesList rs).Nodup →
    rs.any (fun r => r.handle = h) = true → rs.findSome? (parentBelow h) = none
  | [] => by simp
  | r :: rs => by
    intro hn
    unfold handlesList at hn
    have hna := List.nodup_append.1 hn
    rw [List.any_cons, Bool.or_eq_true, List.findSome?_cons]
    intro e
    cases hc : parentBelow h r with
    | some q' =>
      exfalso
      have hk := (parentBelow_mem h r q' hc).1
      rcases e with e | e
      · simp only [decide_eq_true_eq] at e
        have hn1 := hna.1
        rw [handles_eq] at hn1
        exact (List.nodup_cons.1 hn1).1 (e ▸ hk)
      · have : h ∈ handles r := by rw [handles_eq]; exact List.mem_cons_of_mem _ hk
        exact hna.2.2 _ this _ (rootsAny_mem e) rfl
    | none =>
      simp only
      rcases e with e | e
      · simp only [decide_eq_true_eq] at e
        have : h ∉ handlesList rs := fun h' => hna.2.2 _ (e ▸ handle_mem_handles r) _ h' rfl
        exact rootsParent_none_of_not_mem this
      · exact rootsRoot_noParent h rs hna.2.1 e

/-! ### The weak invariant and the forest interface -/

/-- What every intermediate state of a manipulation satisfies: handles are distinct, only
    elements and documents have children. -/
structure Forest.W (f : Forest) : Prop where
  nodup : f.allHandles.Nodup
  leaves : leafOkList f.roots = true
  below : ∀ h ∈ f.allHandles, h < f.next

theorem Forest.Inv.toW {f : Forest} (h : f.Inv) : f.W :=
  ⟨h.nodup, validList_leafOk _ _ h.valid, h.below⟩

namespace Forest

theorem isLive_iff_mem (f : Forest) (h : Nat) : f.isLive h = true ↔ h ∈ f.allHandles := by
  unfold isLive get? allHandles
  exact findList?_isSome_iff h f.roots

theorem isLive_of_get? {f : Forest} {h : Nat} {t : HTree} (e : f.get? h = some t) :
    f.isLive h = true := by
  unfold isLive; rw [e]; rfl

theorem get?_handle {f : Forest} {h : Nat} {t : HTree} (e : f.get? h = some t) : t.handle = h :=
  findList?_handle h f.roots t e

theorem isLive_iff_value? (f : Forest) (h : Nat) : f.isLive h = (f.value? h).isSome := by
  unfold isLive value?; cases f.get? h <;> rfl

theorem parent?_eq (f : Forest) (h : Nat) : f.parent? h = f.roots.findSome? (parentBelow h) := by
  unfold parent? ctx?
  induction f.roots with
  | nil => rfl
  | cons r rs ih =>
    rw [List.findSome?_cons, List.findSome?_cons, ← ctxBelow_parent]
    cases ctxBelow h r with
    | some c => rfl
    | none => exact ih

theorem parent?_of_ctx? {f : Forest} {h : Nat} {c : Ctx} (e : f.ctx? h = some c) :
    f.parent? h = some c.parent := by
  unfold parent?; rw [e]; rfl

theorem ctx?_of_parent? {f : Forest} {h q : Nat} (e : f.parent? h = some q) :
    ∃ c, f.ctx? h = some c ∧ c.parent = q := by
  unfold parent? at e
  cases hc : f.ctx? h with
  | none => rw [hc] at e; cases e
  | some c => rw [hc] at e; exact ⟨c, rfl, by simpa using e⟩

theorem ctx?_none_iff (f : Forest) (h : Nat) : f.ctx? h = none ↔ f.parent? h = none := by
  unfold parent?; cases f.ctx? h <;> simp

/-- A context decomposes the child list of the (live) parent. -/
theorem ctx?_spec {f : Forest} (w : f.W) {h : Nat} {c : Ctx} (e : f.ctx? h = some c) :
    (∃ v, f.get? c.parent = some (.node c.parent v (c.left ++ c.self :: c.right))) ∧
      c.self.handle = h :=
  rootsCtx_spec h f.roots c w.nodup e

/-- A child of a live node is live, is what `get?` returns, and has that node as parent. -/
theorem kid_spec {f : Forest} (w : f.W) {p : Nat} {t k : HTree} (e : f.get? p = some t)
    (hk : k ∈ t.kids) : f.get? k.handle = some k ∧ f.parent? k.handle = some p := by
  rw [parent?_eq]
  exact rootsKid p f.roots t k w.nodup e hk

theorem parent?_live {f : Forest} {h q : Nat} (e : f.parent? h = some q) :
    f.isLive h = true ∧ f.isLive q = true := by
  rw [parent?_eq] at e
  have := rootsParent_mem h f.roots q e
  exact ⟨(isLive_iff_mem f h).2 this.1, (isLive_iff_mem f q).2 this.2⟩

theorem ancestors_step {f : Forest} (w : f.W) {h q : Nat} (e : f.parent? h = some q) :
    f.ancestors h = h :: f.ancestors q := by
  rw [parent?_eq] at e
  obtain ⟨l, h1, h2⟩ := rootsAnc_step h f.roots q w.nodup e
  unfold ancestors; rw [h1, h2]; rfl

theorem ancestors_root {f : Forest} {h : Nat} (hl : f.isLive h = true) (e : f.parent? h = none) :
    f.ancestors h = [h] ∧ f.isRoot h = true := by
  rw [parent?_eq] at e
  have := rootsAnc_root h f.roots ((isLive_iff_mem f h).1 hl) e
  unfold ancestors isRoot; rw [this.1]; exact ⟨rfl, this.2⟩

theorem ancestors_dead {f : Forest} {h : Nat} (hl : f.isLive h = false) : f.ancestors h = [] := by
  have : h ∉ f.allHandles := by
    rw [← isLive_iff_mem, hl]; simp
  unfold ancestors; rw [rootsAnc_dead this]; rfl

theorem isRoot_noParent {f : Forest} (w : f.W) {h : Nat} (e : f.isRoot h = true) :
    f.parent? h = none := by
  rw [parent?_eq]; exact rootsRoot_noParent h f.roots w.nodup e

theorem isRoot_live {f : Forest} {h : Nat} (e : f.isRoot h = true) : f.isLive h = true :=
  (isLive_iff_mem f h).2 (rootsAny_mem e)

theorem isRoot_iff {f : Forest} (w : f.W) (h : Nat) :
    f.isRoot h = true ↔ f.isLive h = true ∧ f.parent? h = none :=
  ⟨fun e => ⟨isRoot_live e, isRoot_noParent w e⟩, fun ⟨a, b⟩ => (ancestors_root a b).2⟩

theorem isRoot_false_of_parent {f : Forest} (w : f.W) {h q : Nat} (e : f.parent? h = some q) :
    f.isRoot h = false := by
  cases hr : f.isRoot h with
  | false => rfl
  | true => rw [isRoot_noParent w hr] at e; cases e

/-- A live node is its own first ancestor. -/
theorem self_mem_ancestors {f : Forest} (w : f.W) {h : Nat} (hl : f.isLive h = true) :
    h ∈ f.ancestors h := by
  cases hp : f.parent? h with
  | none => rw [(ancestors_root hl hp).1]; simp
  | some q => rw [ancestors_step w hp]; simp

theorem parent?_ne {f : Forest} (w : f.W) {h q : Nat} (e : f.parent? h = some q) : q ≠ h := by
  intro eq
  subst eq
  obtain ⟨c, hc, hp⟩ := ctx?_of_parent? e
  obtain ⟨⟨v, hg⟩, hh⟩ := ctx?_spec w hc
  have hn : (handles (.node c.parent v (c.left ++ c.self :: c.right))).Nodup :=
    List.Sublist.nodup (findList?_sublist _ _ _ hg) w.nodup
  unfold handles at hn
  rw [fa_handlesList_append] at hn
  have : c.parent ∈ handlesList c.left ++ handlesList (c.self :: c.right) := by
    refine List.mem_append_right _ ?_
    unfold handlesList
    exact List.mem_append_left _ (by rw [hp, ← hh]; exact handle_mem_handles _)
  exact (List.nodup_cons.1 hn).1 this

end Forest
end XotModel
